/-
C01 round trip, part 3: credentials, controls, results, operations.
-/
import Verif.Proofs.RoundTripFilter

namespace Verif.Proofs

open Verif

set_option linter.unusedSimpArgs false

/-! ### facts about the generated constants (the only places their values matter) -/

/-- the credential choices (in the order `decCred` tests them, reversed) are pairwise distinct -/
theorem credIds_distinct :
    [Facts.customCredId, Facts.credSimple, Facts.credSasl].Pairwise (· ≠ ·) := by decide

/-- the control OIDs the decoder knows (in the order `decControl` tests them, reversed) are
    pairwise distinct -/
theorem oids_distinct :
    [Facts.oidCustomControl, Facts.oidShowDeleted, Facts.oidShowDeactivated, Facts.oidPaged].Pairwise
      (· ≠ ·) := by decide

theorem oidPaged_text : IsText Facts.oidPaged := by unfold IsText; decide
theorem oidShowDeleted_text : IsText Facts.oidShowDeleted := by unfold IsText; decide
theorem oidShowDeactivated_text : IsText Facts.oidShowDeactivated := by unfold IsText; decide
theorem oidCustomControl_text : IsText Facts.oidCustomControl := by unfold IsText; decide

/-- the protocolOp numbers (in the order `decOp` tests them, reversed) are pairwise distinct -/
theorem opNumbers_distinct :
    [Facts.opExtendedResponse, Facts.opExtendedRequest, Facts.opSearchResultReference,
      Facts.opSearchResultDone, Facts.opSearchResultEntry, Facts.opSearchRequest,
      Facts.opUnbindRequest, Facts.opBindResponse, Facts.opBindRequest].Pairwise (· ≠ ·) := by decide

/-- every operation the encoder writes is one the decoder dispatches on -/
theorem knownOp_opTag (op : Op) : knownOp (opTag op) = true := by
  cases op <;> simp only [opTag] <;> decide

/-! ### lists of strings -/

theorem loopText_enc (l : List Bytes) (h : ∀ x ∈ l, IsText x) (fuel : Nat)
    (hf : (encTexts l).length ≤ fuel) :
    loopMany (readText (some tOctets)) fuel (encTexts l) = .ok l := by
  have := loopMany_enc (readText (some tOctets)) (packOctets · tOctets) id l
    (fun x hx rest => readText_some _ _ _ readable_tOctets (h x hx))
    (fun x _ => packTLV_ne_nil _ _) fuel hf
  simpa [encTexts] using this

theorem loopOctets_enc (l : List Bytes) (fuel : Nat) (hf : (encTexts l).length ≤ fuel) :
    loopMany (readOctets (some tOctets)) fuel (encTexts l) = .ok l := by
  have := loopMany_enc (readOctets (some tOctets)) (packOctets · tOctets) id l
    (fun x _ rest => readOctets_some _ _ _ readable_tOctets)
    (fun x _ => packTLV_ne_nil _ _) fuel hf
  simpa [encTexts] using this

/-! ### credentials -/

theorem decCred_enc (regs : Regs) (c : Cred) (rest : Bytes) (h : c.WF regs) :
    decCred regs (encCred c ++ rest) = .ok (c, rest) := by
  have hd := credIds_distinct
  simp only [List.pairwise_cons, List.mem_cons, List.not_mem_nil, or_false, forall_eq_or_imp,
    forall_eq] at hd
  cases c with
  | simple pw =>
    simp only [Cred.WF] at h
    simp only [encCred, packOctets_eq, decCred, readHeader_packTLV _ _ _ (readable_ctx _ _),
      readText_some _ _ _ (readable_ctx _ _) h, bind, Except.bind, tagCtx_cls, tagCtx_num, hd]
    simp; rfl
  | sasl mech creds =>
    simp only [Cred.WF] at h
    simp only [encCred, packOctets_eq, decCred, readHeader_packTLV _ _ _ (readable_ctx _ _),
      readTLV_some _ _ _ (readable_ctx _ _), bind, Except.bind, tagCtx_cls, tagCtx_num, hd]
    cases creds with
    | none =>
      simp only [optBytes_none, List.append_nil, readText_some' _ _ readable_tOctets h]
      simp; rfl
    | some cr =>
      simp only [optBytes_some, readText_some _ _ _ readable_tOctets h, packTLV_isEmpty,
        readOctets_some' _ _ readable_tOctets]
      simp; rfl
  | custom v =>
    simp only [Cred.WF] at h
    simp only [encCred, packOctets_eq, decCred, readHeader_packTLV _ _ _ (readable_ctx _ _),
      readText_some _ _ _ (readable_ctx _ _) h.2, bind, Except.bind, tagCtx_cls, tagCtx_num, hd, h.1]
    simp; rfl

/-! ### controls -/

/-- what `decControl` does once the three fields have been read -/
def ctlDispatch (regs : Regs) (oid : Bytes) (crit : Bool) (value : Option Bytes) (rest : Bytes) :
    Except Err (Control × Bytes) :=
  if oid = Facts.oidPaged then do
    let (size, cookie) ← decPagedValue (value.getD [])
    return (.paged crit size cookie value, rest)
  else if oid = Facts.oidShowDeactivated then return (.showDeactivated crit value, rest)
  else if oid = Facts.oidShowDeleted then return (.showDeleted crit value, rest)
  else if regs.control ∧ oid = Facts.oidCustomControl then
    if Facts.customControlMagic.isPrefixOf (value.getD []) then
      return (.custom crit ((value.getD []).drop Facts.customControlMagic.length) value, rest)
    else .error .valueError
  else return (.generic oid crit value, rest)

theorem decControl_fields (regs : Regs) (oid : Bytes) (crit : Bool) (value : Option Bytes)
    (rest : Bytes) (ho : IsText oid) :
    decControl regs (packTLV tSeq (packOctets oid ++ (if crit then packBool true else [])
      ++ optBytes tOctets value) ++ rest) = ctlDispatch regs oid crit value rest := by
  cases crit <;> cases value
  · simp only [decControl, packOctets_eq, optBytes_none, List.append_nil, Bool.false_eq_true,
      ↓reduceIte, readTLV_some _ _ _ readable_tSeq, readText_some' _ _ readable_tOctets ho,
      bind, Except.bind, pure, Except.pure, List.isEmpty_nil, ctlDispatch]
  · simp only [decControl, packOctets_eq, optBytes_some, List.append_nil, Bool.false_eq_true,
      ↓reduceIte, readTLV_some _ _ _ readable_tSeq, readText_some _ _ _ readable_tOctets ho,
      readHeader_packTLV' _ _ readable_tOctets, readOctets_none' _ _ readable_tOctets,
      packTLV_isEmpty, tOctets_cls, tOctets_num,
      bind, Except.bind, pure, Except.pure, ctlDispatch]
    simp [readHeader_packTLV' _ _ readable_tOctets, readOctets_none' _ _ readable_tOctets,
      tOctets_cls, tOctets_num]
  · simp only [decControl, packOctets_eq, packBool_eq, optBytes_none, List.append_nil,
      ↓reduceIte, readTLV_some _ _ _ readable_tSeq, readText_some _ _ _ readable_tOctets ho,
      readHeader_packTLV' _ _ readable_tBool, readBool_none_true' _ readable_tBool,
      packTLV_isEmpty, tBool_cls, tBool_num,
      bind, Except.bind, pure, Except.pure, ctlDispatch]
    simp
  · simp only [decControl, packOctets_eq, packBool_eq, optBytes_some, List.append_assoc,
      ↓reduceIte, readTLV_some _ _ _ readable_tSeq, readText_some _ _ _ readable_tOctets ho,
      readHeader_packTLV _ _ _ readable_tBool, readBool_none_true _ _ readable_tBool,
      readHeader_packTLV' _ _ readable_tOctets, readOctets_none' _ _ readable_tOctets,
      packTLV_isEmpty, packTLV_append_isEmpty, tBool_cls, tBool_num, tOctets_cls, tOctets_num,
      bind, Except.bind, pure, Except.pure, ctlDispatch]
    simp [readHeader_packTLV' _ _ readable_tOctets, readOctets_none' _ _ readable_tOctets,
      tOctets_cls, tOctets_num]

theorem decPagedValue_enc (size : Int) (cookie : Bytes) :
    decPagedValue (pagedValue size cookie) = .ok (size, cookie) := by
  simp only [decPagedValue, pagedValue, packInt_eq, packOctets_eq, readTLV_some' _ _ readable_tSeq,
    readInt_some _ _ _ readable_tInt, readOctets_some' _ _ readable_tOctets, bind, Except.bind]
  rfl

theorem isPrefixOf_append (a b : Bytes) : a.isPrefixOf (a ++ b) = true := by
  induction a with
  | nil => simp
  | cons x a ih => simp [List.isPrefixOf, ih]

theorem decControl_enc (regs : Regs) (c : Control) (rest : Bytes) (h : c.WF regs) :
    decControl regs (encControl c ++ rest) = .ok (fillRawControl c, rest) := by
  have hd := oids_distinct
  simp only [List.pairwise_cons, List.mem_cons, List.not_mem_nil, or_false, forall_eq_or_imp,
    forall_eq] at hd
  cases c with
  | generic oid crit value =>
    simp only [Control.WF] at h
    obtain ⟨ho, h1, h2, h3, h4⟩ := h
    rw [encControl, controlOid, controlCrit, controlValue, decControl_fields _ _ _ _ _ ho]
    have h4' : ¬ (regs.control = true ∧ oid = Facts.oidCustomControl) := fun ⟨a, b⟩ => h4 a b
    simp only [ctlDispatch, h1, h2, h3, h4', ↓reduceIte, fillRawControl]
    rfl
  | paged crit size cookie raw =>
    rw [encControl, controlOid, controlCrit, controlValue, decControl_fields _ _ _ _ _ oidPaged_text]
    simp only [ctlDispatch, ↓reduceIte, Option.getD_some, decPagedValue_enc, fillRawControl,
      bind, Except.bind]
    rfl
  | showDeleted crit raw =>
    rw [encControl, controlOid, controlCrit, controlValue,
      decControl_fields _ _ _ _ _ oidShowDeleted_text]
    simp only [ctlDispatch, hd, ↓reduceIte, fillRawControl]
    rfl
  | showDeactivated crit raw =>
    rw [encControl, controlOid, controlCrit, controlValue,
      decControl_fields _ _ _ _ _ oidShowDeactivated_text]
    simp only [ctlDispatch, hd, ↓reduceIte, fillRawControl]
    rfl
  | custom crit data raw =>
    simp only [Control.WF] at h
    rw [encControl, controlOid, controlCrit, controlValue,
      decControl_fields _ _ _ _ _ oidCustomControl_text]
    simp only [ctlDispatch, hd, h, ↓reduceIte, fillRawControl, Option.getD_some, and_self,
      isPrefixOf_append, List.drop_left]
    rfl

theorem encControl_ne_nil (c : Control) : encControl c ≠ [] := packTLV_ne_nil _ _

/-! ### the envelope loop (controls) -/

theorem decEnvelopeLoop_nil (regs : Regs) (fuel : Nat) (cs : List Control) (rn : Option Bytes) :
    decEnvelopeLoop regs fuel [] cs rn = .ok (cs, rn) := by
  cases fuel <;> simp [decEnvelopeLoop]

theorem decEnvelope_enc (regs : Regs) (cs : List Control) (h : ∀ c ∈ cs, c.WF regs) (fuel : Nat)
    (hf : (if cs.isEmpty then [] else
      packTLV (tagCtx 0 true) (cs.map encControl).flatten).length ≤ fuel) :
    decEnvelopeLoop regs fuel
      (if cs.isEmpty then [] else packTLV (tagCtx 0 true) (cs.map encControl).flatten) [] none
      = .ok (cs.map fillRawControl, none) := by
  by_cases he : cs.isEmpty = true
  · have : cs = [] := by simpa using he
    subst this
    simp [decEnvelopeLoop_nil]
  · simp only [he, Bool.false_eq_true, ↓reduceIte] at hf ⊢
    have := packTLV_length (tagCtx 0 true) (cs.map encControl).flatten
    cases fuel with
    | zero => omega
    | succ fuel =>
      simp only [decEnvelopeLoop, packTLV_isEmpty, Bool.false_eq_true, ↓reduceIte,
        readHeader_packTLV' _ _ (readable_ctx 0 true), readTLV_none' _ _ (readable_ctx 0 true),
        bind, Except.bind, tagCtx_cls, tagCtx_num, and_self,
        loopMany_enc (decControl regs) encControl fillRawControl cs
          (fun c hc rest => decControl_enc regs c rest (h c hc)) (fun c _ => encControl_ne_nil c)
          _ (Nat.le_refl _), decEnvelopeLoop_nil, List.nil_append]

/-! ### results -/

/-- what may follow an `LDAPResult` whose referral is absent: nothing, or an element that is
    not `[3]` -/
def NoRef (rest : Bytes) : Prop :=
  rest = [] ∨ ∃ t c rest', rest = packTLV t c ++ rest' ∧ Readable t ∧ ¬ (t.cls = 2 ∧ t.num = 3)

theorem noRef_nil : NoRef [] := Or.inl rfl

theorem noRef_ctx (n : Nat) (c rest : Bytes) (hn : n ≠ 3) : NoRef (packTLV (tagCtx n) c ++ rest) :=
  Or.inr ⟨_, _, _, rfl, readable_ctx n false, by simp [hn]⟩

theorem noRef_ctx' (n : Nat) (c : Bytes) (hn : n ≠ 3) : NoRef (packTLV (tagCtx n) c) := by
  simpa using noRef_ctx n c [] hn

theorem decResult_enc (r : LdapResult) (rest : Bytes) (h : r.WF) (hr : NoRef rest) :
    decResult (encResult r ++ rest) = .ok (r, rest) := by
  obtain ⟨code, mdn, diag, refs⟩ := r
  simp only [LdapResult.WF] at h
  obtain ⟨h1, h2, h3⟩ := h
  cases refs with
  | none =>
    simp only [decResult, encResult, packEnum_eq, packOctets_eq, List.append_assoc, List.nil_append,
      readInt_some _ _ _ readable_tEnum, readText_some _ _ _ readable_tOctets h1,
      readText_some _ _ _ readable_tOctets h2, bind, Except.bind]
    rcases hr with rfl | ⟨t, c, rest', rfl, ht, hn⟩
    · simp; rfl
    · simp only [packTLV_append_isEmpty, Bool.false_eq_true, ↓reduceIte,
        readHeader_packTLV _ _ _ ht, hn]
      rfl
  | some rs =>
    simp only [decResult, encResult, packEnum_eq, packOctets_eq, List.append_assoc,
      readInt_some _ _ _ readable_tEnum, readText_some _ _ _ readable_tOctets h1,
      readText_some _ _ _ readable_tOctets h2, bind, Except.bind,
      packTLV_append_isEmpty, Bool.false_eq_true, ↓reduceIte,
      readHeader_packTLV _ _ _ (readable_ctx 3 true), readTLV_none _ _ _ (readable_ctx 3 true),
      tagCtx_cls, tagCtx_num, and_self, loopText_enc rs h3 _ (Nat.le_refl _)]
    rfl

/-! ### trailing options -/

theorem decOptLoop_nil (n1 : Nat) (t1 : Bool) (n2 : Option Nat) (fuel : Nat) (a b : Option Bytes) :
    decOptLoop n1 t1 n2 fuel [] a b = .ok (a, b) := by
  cases fuel <;> simp [decOptLoop]

theorem decOptLoop_step1 (n1 : Nat) (t1 : Bool) (n2 : Option Nat) (fuel : Nat) (v rest : Bytes)
    (a b : Option Bytes) (hv : t1 = true → IsText v) :
    decOptLoop n1 t1 n2 (fuel + 1) (packTLV (tagCtx n1) v ++ rest) a b
      = decOptLoop n1 t1 n2 fuel rest (some v) b := by
  cases t1
  · simp only [decOptLoop, packTLV_append_isEmpty, readHeader_packTLV _ _ _ (readable_ctx n1 false),
      readOctets_none _ _ _ (readable_ctx n1 false), bind, Except.bind, tagCtx_cls, tagCtx_num]
    simp
  · simp only [decOptLoop, packTLV_append_isEmpty, readHeader_packTLV _ _ _ (readable_ctx n1 false),
      readText_none _ _ _ (readable_ctx n1 false) (hv rfl), bind, Except.bind, tagCtx_cls, tagCtx_num]
    simp

theorem decOptLoop_step2 (n1 : Nat) (t1 : Bool) (n2 : Nat) (fuel : Nat) (v rest : Bytes)
    (a b : Option Bytes) (hn : n2 ≠ n1) :
    decOptLoop n1 t1 (some n2) (fuel + 1) (packTLV (tagCtx n2) v ++ rest) a b
      = decOptLoop n1 t1 (some n2) fuel rest a (some v) := by
  simp only [decOptLoop, packTLV_append_isEmpty, readHeader_packTLV _ _ _ (readable_ctx n2 false),
    readOctets_none _ _ _ (readable_ctx n2 false), bind, Except.bind, tagCtx_cls, tagCtx_num]
  simp [hn]

/-- one optional trailing element -/
theorem decOpt1_enc (n1 : Nat) (t1 : Bool) (n2 : Option Nat) (s : Option Bytes) (fuel : Nat)
    (b : Option Bytes) (hs : t1 = true → optText s) (hf : (optBytes (tagCtx n1) s).length ≤ fuel) :
    decOptLoop n1 t1 n2 fuel (optBytes (tagCtx n1) s) none b = .ok (s, b) := by
  cases s with
  | none => simp [optBytes_none, decOptLoop_nil]
  | some v =>
    simp only [optBytes_some] at hf ⊢
    have := packTLV_length (tagCtx n1) v
    cases fuel with
    | zero => omega
    | succ fuel =>
      rw [← List.append_nil (packTLV (tagCtx n1) v), decOptLoop_step1 _ _ _ _ _ _ _ _ hs,
        decOptLoop_nil]

/-- two optional trailing elements -/
theorem decOpt2_enc (n1 n2 : Nat) (t1 : Bool) (s1 s2 : Option Bytes) (fuel : Nat)
    (hn : n2 ≠ n1) (hs : t1 = true → optText s1)
    (hf : (optBytes (tagCtx n1) s1 ++ optBytes (tagCtx n2) s2).length ≤ fuel) :
    decOptLoop n1 t1 (some n2) fuel (optBytes (tagCtx n1) s1 ++ optBytes (tagCtx n2) s2) none none
      = .ok (s1, s2) := by
  have tail : ∀ fuel a, (optBytes (tagCtx n2) s2).length ≤ fuel →
      decOptLoop n1 t1 (some n2) fuel (optBytes (tagCtx n2) s2) a none = .ok (a, s2) := by
    intro fuel a hf
    cases s2 with
    | none => simp [optBytes_none, decOptLoop_nil]
    | some v =>
      simp only [optBytes_some] at hf ⊢
      have := packTLV_length (tagCtx n2) v
      cases fuel with
      | zero => omega
      | succ fuel =>
        rw [← List.append_nil (packTLV (tagCtx n2) v), decOptLoop_step2 _ _ _ _ _ _ _ _ hn,
          decOptLoop_nil]
  cases s1 with
  | none =>
    simp only [optBytes_none, List.nil_append] at hf ⊢
    exact tail fuel none hf
  | some v =>
    simp only [optBytes_some, List.length_append] at hf ⊢
    have := packTLV_length (tagCtx n1) v
    cases fuel with
    | zero => omega
    | succ fuel =>
      rw [decOptLoop_step1 _ _ _ _ _ _ _ _ hs, tail fuel _ (by omega)]

/-! ### partial attributes -/

theorem decAttr_enc (a : Bytes × List Bytes) (rest : Bytes) (h : IsText a.1) :
    decAttr (encAttr a ++ rest) = .ok (a, rest) := by
  simp only [decAttr, encAttr, packOctets_eq, readTLV_some _ _ _ readable_tSeq,
    readText_some _ _ _ readable_tOctets h, readTLV_some' _ _ readable_tSet,
    loopOctets_enc a.2 _ (Nat.le_refl _), bind, Except.bind]
  rfl

theorem encAttr_ne_nil (a : Bytes × List Bytes) : encAttr a ≠ [] := packTLV_ne_nil _ _

/-! ### operations -/

theorem decOp_enc (regs : Regs) (depth : Nat) (op : Op) (h : op.WF regs)
    (hd : op.filterDepth < depth) : decOp regs depth (opTag op) (encOp op) = .ok op := by
  have hn := opNumbers_distinct
  simp only [List.pairwise_cons, List.mem_cons, List.not_mem_nil, or_false, forall_eq_or_imp,
    forall_eq] at hn
  cases op with
  | bindReq v n c =>
    simp only [Op.WF] at h
    simp only [decOp, opTag, encOp, hn, ↓reduceIte, packInt_eq, packOctets_eq, List.append_assoc,
      readInt_some _ _ _ readable_tInt, readText_some _ _ _ readable_tOctets h.1, bind, Except.bind]
    have := decCred_enc regs c [] h.2
    rw [List.append_nil] at this
    rw [this]; rfl
  | bindResp r s =>
    simp only [Op.WF] at h
    have hr : NoRef (optBytes (tagCtx 7) s) := by
      cases s with
      | none => exact noRef_nil
      | some v => exact noRef_ctx' 7 v (by decide)
    simp only [decOp, opTag, encOp, hn, ↓reduceIte, decResult_enc r _ h hr, bind, Except.bind,
      decOpt1_enc 7 false none s _ none (by simp) (Nat.le_refl _)]
    rfl
  | unbind =>
    simp only [decOp, opTag, hn, ↓reduceIte]
    rfl
  | searchReq b sc dr sl tl ty f attrs =>
    simp only [Op.WF, Op.filterDepth] at h hd
    obtain ⟨hb, hsc, hdr, hf, hat⟩ := h
    simp only [decOp, opTag, encOp, hn, ↓reduceIte, packInt_eq, packEnum_eq, packOctets_eq,
      packBool_eq, List.append_assoc, readOctets_some _ _ _ readable_tOctets,
      readInt_some _ _ _ readable_tEnum, readInt_some _ _ _ readable_tInt,
      readBool_some _ _ _ readable_tBool, hsc, hdr, Bool.not_true, Bool.false_eq_true,
      decFilter_enc regs f depth _ hf (by omega), readTLV_some' _ _ readable_tSeq,
      loopText_enc attrs hat _ (Nat.le_refl _), decodeText, show validUtf8 b = true from hb,
      bind, Except.bind]
    rfl
  | searchEntry n attrs =>
    simp only [Op.WF] at h
    simp only [decOp, opTag, encOp, hn, ↓reduceIte, packOctets_eq,
      readText_some _ _ _ readable_tOctets h.1, readTLV_some' _ _ readable_tSeq,
      loopMany_enc decAttr encAttr id attrs (fun a ha rest => decAttr_enc a rest (h.2 a ha))
        (fun a _ => encAttr_ne_nil a) _ (Nat.le_refl _), bind, Except.bind, List.map_id_fun, id_eq]
    rfl
  | searchDone r =>
    simp only [Op.WF] at h
    have := decResult_enc r [] h noRef_nil
    rw [List.append_nil] at this
    simp only [decOp, opTag, encOp, hn, ↓reduceIte, this, bind, Except.bind]
    rfl
  | searchRef uris =>
    simp only [Op.WF] at h
    simp only [decOp, opTag, encOp, hn, ↓reduceIte, loopText_enc uris h _ (Nat.le_refl _),
      bind, Except.bind]
    rfl
  | extReq n v =>
    simp only [Op.WF] at h
    simp only [decOp, opTag, encOp, hn, ↓reduceIte, packOctets_eq,
      readText_some _ _ _ (readable_ctx 0 false) h,
      decOpt1_enc 1 false none v _ none (by simp) (Nat.le_refl _), bind, Except.bind]
    rfl
  | extResp r n v =>
    simp only [Op.WF] at h
    have hr : NoRef (optBytes (tagCtx 10) n ++ optBytes (tagCtx 11) v) := by
      cases n with
      | none =>
        cases v with
        | none => exact noRef_nil
        | some v => exact noRef_ctx' 11 v (by decide)
      | some n => exact noRef_ctx 10 n _ (by decide)
    simp only [decOp, opTag, encOp, hn, ↓reduceIte, List.append_assoc, decResult_enc r _ h.1 hr,
      decOpt2_enc 10 11 true n v _ (by decide) (fun _ => h.2) (Nat.le_refl _), bind, Except.bind]
    rfl

end Verif.Proofs
