/-
Helper lemmas for C07: identifier/length octets (`packHeader` / `readHeader`) and the TLV
readers built on them.  Core Lean only.
-/
import Verif.Model.Ber
import Verif.Spec.Twos
import Verif.Proofs.BerInt

namespace Verif.Proofs

open Verif

/-! ### digit loops -/

theorem digits128_spec : ∀ (fuel n : Nat), n ≤ fuel →
    leB 128 (digits128 fuel n) = n ∧ ∀ d ∈ digits128 fuel n, d < 128 := by
  intro fuel; induction fuel with
  | zero => intro n h; have : n = 0 := by omega
            subst this; simp [digits128, leB]
  | succ f ih =>
    intro n h
    simp only [digits128]
    by_cases h0 : n = 0
    · subst h0; simp [leB]
    · obtain ⟨iv, ib⟩ := ih (n / 128) (by omega)
      simp only [h0, ↓reduceIte, leB, iv, List.mem_cons]
      refine ⟨by omega, ?_⟩
      rintro d (rfl | hd)
      · omega
      · exact ib d hd

theorem digits256_spec : ∀ (fuel n : Nat), n ≤ fuel →
    leB 256 (digits256 fuel n) = n ∧ IsBytes (digits256 fuel n) := by
  intro fuel; induction fuel with
  | zero => intro n h; have : n = 0 := by omega
            subst this; simp [digits256, leB, IsBytes]
  | succ f ih =>
    intro n h
    simp only [digits256]
    by_cases h0 : n = 0
    · subst h0; simp [leB, IsBytes]
    · obtain ⟨iv, ib⟩ := ih (n / 256) (by omega)
      simp only [h0, ↓reduceIte, leB, iv]
      exact ⟨by omega, isBytes_cons.2 ⟨by omega, ib⟩⟩

theorem digits256_length : ∀ (fuel n k : Nat), n < 256 ^ k → (digits256 fuel n).length ≤ k := by
  intro fuel; induction fuel with
  | zero => intro n k _; simp [digits256]
  | succ f ih =>
    intro n k h
    simp only [digits256]
    by_cases h0 : n = 0
    · subst h0; simp
    · simp only [h0, ↓reduceIte, List.length_cons]
      cases k with
      | zero => simp at h; omega
      | succ j =>
        rw [Nat.pow_succ] at h
        have : n / 256 < 256 ^ j := by
          generalize 256 ^ j = P at h ⊢; omega
        have := ih (n / 256) j this
        omega

/-! ### multi-octet tag numbers -/

theorem unpack_digits (hs : List Nat) (d : Nat) (tail : Bytes) (acc idx : Nat)
    (hh : ∀ h ∈ hs, h < 128) (hd : d < 128) :
    unpackOctetNumber (hs.map (· + 128) ++ d :: tail) acc idx
      = .ok (beVal 128 (hs ++ [d]) acc, idx + hs.length + 1) := by
  induction hs generalizing acc idx with
  | nil =>
    have : ¬ 128 ≤ d := by omega
    simp [unpackOctetNumber, beVal, this, Nat.mod_eq_of_lt hd]
  | cons h hs ih =>
    have hlt : h < 128 := hh h (by simp)
    have e : (h + 128) % 128 = h := by omega
    simp only [List.map_cons, List.cons_append, unpackOctetNumber, Nat.le_add_left, ↓reduceIte,
      e, List.length_cons, beVal]
    rw [ih _ _ (fun x hx => hh x (by simp [hx]))]
    congr 2; omega

theorem packOctetNumber_eq (n : Nat) (hn : n ≠ 0) :
    packOctetNumber n
      = ((digits128 n (n / 128)).reverse.map (· + 128)) ++ [n % 128] := by
  simp [packOctetNumber, digits128, hn]

theorem unpack_packOctetNumber (n : Nat) (hn : n ≠ 0) (tail : Bytes) :
    unpackOctetNumber (packOctetNumber n ++ tail) 0 0 = .ok (n, (packOctetNumber n).length) := by
  obtain ⟨hv, hb⟩ := digits128_spec (n + 1) n (by omega)
  simp only [digits128, hn, ↓reduceIte] at hv hb
  rw [packOctetNumber_eq n hn, List.append_assoc, List.singleton_append,
    unpack_digits _ _ _ _ _ (fun h hh => hb h (by simp at hh; simp [hh])) (hb _ (by simp))]
  congr 2
  · rw [← List.reverse_cons, beVal_reverse, hv]
  · simp

theorem isBytes_packOctetNumber (n : Nat) : IsBytes (packOctetNumber n) := by
  by_cases hn : n = 0
  · subst hn; simp [packOctetNumber, digits128, IsBytes]
  · obtain ⟨_, hb⟩ := digits128_spec (n + 1) n (by omega)
    simp only [digits128, hn, ↓reduceIte] at hb
    rw [packOctetNumber_eq n hn]
    intro x hx
    simp only [List.mem_append, List.mem_map, List.mem_reverse, List.mem_singleton] at hx
    rcases hx with ⟨y, hy, rfl⟩ | rfl
    · have := hb y (by simp [hy]); omega
    · omega

/-! ### identifier octets -/

theorem id_decode (cls : Nat) (cons : Bool) (low : Nat) (_ : cls < 4) (_ : low < 32) :
    (cls * 64 + (if cons then 32 else 0) + low) / 64 = cls ∧
    decide ((cls * 64 + (if cons then 32 else 0) + low) / 32 % 2 = 1) = cons ∧
    (cls * 64 + (if cons then 32 else 0) + low) % 32 = low := by
  cases cons <;> simp <;> omega

/-- the part of `readHeader` that runs after the identifier octets -/
def readLen (t : Tag) (tagOctets : Nat) (tail : Bytes) : Except Err Header :=
  match tail with
  | [] => .error .notEnough
  | l :: lrest =>
    if l = 128 then .error .valueError
    else if 128 < l then
      if lrest.length < l - 128 then .error .notEnough
      else .ok ⟨t, tagOctets + 1 + (l - 128), beVal 256 (lrest.take (l - 128)) 0⟩
    else .ok ⟨t, tagOctets + 1, l⟩

theorem readHeader_packTag (t : Tag) (tail : Bytes) (hc : t.cls < 4) (hu : t.cls = 0 → t.num ≤ 36) :
    readHeader (packTag t ++ tail) = readLen t (packTag t).length tail := by
  obtain ⟨cls, cons, num⟩ := t
  simp only at hc hu
  have hguard : ¬ (cls = 0 ∧ num > 36) := by
    rintro ⟨h0, hgt⟩; have := hu h0; omega
  unfold packTag
  simp only
  by_cases hnum : num < 31
  · obtain ⟨e1, e2, e3⟩ := id_decode cls cons num hc (by omega)
    have hne : ¬ num = 31 := by omega
    simp only [hnum, ↓reduceIte, List.cons_append, List.nil_append, readHeader, e1, e2, e3, hne,
      hguard, List.length_cons, List.length_nil, List.drop_succ_cons, List.drop_zero]
    cases tail <;> rfl
  · obtain ⟨e1, e2, e3⟩ := id_decode cls cons 31 hc (by omega)
    have hn0 : num ≠ 0 := by omega
    simp only [hnum, ↓reduceIte, List.cons_append, readHeader, e1, e2, e3,
      unpack_packOctetNumber num hn0 tail, hguard, List.length_cons]
    have hd : List.drop (1 + (packOctetNumber num).length)
        ((cls * 64 + (if cons = true then 32 else 0) + 31) :: (packOctetNumber num ++ tail)) = tail := by
      rw [Nat.add_comm, List.drop_succ_cons, List.drop_left]
    rw [hd]
    have hl : 1 + (packOctetNumber num).length = (packOctetNumber num).length + 1 := by omega
    rw [hl]
    cases tail <;> rfl

/-! ### headers -/

theorem readHeader_longForm' (t : Tag) (ds rest : Bytes) (hc : t.cls < 4)
    (hu : t.cls = 0 → t.num ≤ 36) (h1 : 1 ≤ ds.length) :
    readHeader (packTag t ++ (128 + ds.length) :: ds ++ rest)
      = .ok ⟨t, (packTag t).length + 1 + ds.length, beNat ds⟩ := by
  rw [List.append_assoc, readHeader_packTag t _ hc hu]
  have hne : ¬ ds = [] := by intro h; simp [h] at h1
  have hlt : 128 < 128 + ds.length := by omega
  have hsh : ¬ (ds.length + rest.length < ds.length) := by omega
  simp [readLen, hne, hlt, hsh, beVal_eq_beNat]

/-- statement as used by `C07.header_long_form`; `_hb` and `_h2` are what makes the input a
    byte string (length octet `128 + ds.length ≤ 255`) and are not needed by the model -/
theorem readHeader_longForm (t : Tag) (ds rest : Bytes) (hc : t.cls < 4)
    (hu : t.cls = 0 → t.num ≤ 36) (_hb : IsBytes ds) (h1 : 1 ≤ ds.length) (_h2 : ds.length ≤ 127) :
    readHeader (packTag t ++ (128 + ds.length) :: ds ++ rest)
      = .ok ⟨t, (packTag t).length + 1 + ds.length, beNat ds⟩ :=
  readHeader_longForm' t ds rest hc hu h1

/-- the round trip holds in the model for every length (the model's length octet is a `Nat`
    and never wraps); `readHeader_packHeader` below is the bounded statement -/
theorem readHeader_packHeader' (t : Tag) (n : Nat) (rest : Bytes) (hc : t.cls < 4)
    (hu : t.cls = 0 → t.num ≤ 36) :
    readHeader (packHeader t n ++ rest) = .ok ⟨t, (packHeader t n).length, n⟩ := by
  unfold packHeader packLen
  by_cases hn : n < 128
  · have h128 : ¬ n = 128 := by omega
    have hlt : ¬ 128 < n := by omega
    simp only [hn, ↓reduceIte]
    rw [List.append_assoc, readHeader_packTag t _ hc hu]
    simp [readLen, h128, hlt]
  · obtain ⟨hv, _⟩ := digits256_spec (n + 1) n (by omega)
    have hne : 1 ≤ (digits256 (n + 1) n).reverse.length := by
      have h0 : n ≠ 0 := by omega
      simp [digits256, h0]
    simp only [hn, ↓reduceIte]
    have := readHeader_longForm' t (digits256 (n + 1) n).reverse rest hc hu hne
    rw [beNat_reverse, hv] at this
    rw [Nat.add_comm (digits256 (n + 1) n).reverse.length 128, this]
    simp <;> omega

theorem readHeader_packHeader (t : Tag) (n : Nat) (rest : Bytes) (hc : t.cls < 4)
    (hu : t.cls = 0 → t.num ≤ 36) (_hn : n < 256 ^ 126) :
    readHeader (packHeader t n ++ rest) = .ok ⟨t, (packHeader t n).length, n⟩ :=
  readHeader_packHeader' t n rest hc hu

/-! ### TLVs -/

theorem readTLV_packTLV' (t : Tag) (c rest : Bytes) (hc : t.cls < 4)
    (hu : t.cls = 0 → t.num ≤ 36) :
    readTLV (some t) (packTLV t c ++ rest) = .ok (c, rest) := by
  unfold packTLV readTLV
  rw [List.append_assoc, readHeader_packHeader' t c.length (c ++ rest) hc hu]
  simp

theorem readTLV_packTLV (t : Tag) (c rest : Bytes) (hc : t.cls < 4)
    (hu : t.cls = 0 → t.num ≤ 36) (_hn : c.length < 256 ^ 126) :
    readTLV (some t) (packTLV t c ++ rest) = .ok (c, rest) :=
  readTLV_packTLV' t c rest hc hu

theorem readInt_packInt (v : Int) (t : Tag) (rest : Bytes) (hc : t.cls < 4)
    (hu : t.cls = 0 → t.num ≤ 36) :
    readInt (some t) (packInt v t ++ rest) = .ok (v, rest) := by
  obtain ⟨hb, hv, hm⟩ := intContent_spec v
  have hne : intContent v ≠ [] := by
    intro h0; rw [h0] at hm; exact hm
  unfold readInt packInt
  rw [readTLV_packTLV' t _ rest hc hu]
  simp only [readIntContent_eq_twos _ hb hne, hv]

theorem readBool_packBool (b : Bool) (t : Tag) (rest : Bytes) (hc : t.cls < 4)
    (hu : t.cls = 0 → t.num ≤ 36) :
    readBool (some t) (packBool b t ++ rest) = .ok (b, rest) := by
  unfold readBool packBool
  rw [readTLV_packTLV' t _ rest hc hu]
  cases b <;> simp

/-! ### structural facts about the readers -/

theorem unpackOctetNumber_append (bs extra : Bytes) (acc idx : Nat) (r : Nat × Nat)
    (h : unpackOctetNumber bs acc idx = .ok r) :
    unpackOctetNumber (bs ++ extra) acc idx = .ok r := by
  induction bs generalizing acc idx with
  | nil => simp [unpackOctetNumber] at h
  | cons e rest ih =>
    simp only [List.cons_append, unpackOctetNumber] at h ⊢
    split
    · rename_i hge; simp only [hge, ↓reduceIte] at h; exact ih _ _ h
    · rename_i hge; simp only [hge, ↓reduceIte] at h; exact h

/-- shape of a successful `readHeader` -/
theorem readHeader_ok (bs : Bytes) (h : Header) (hr : readHeader bs = .ok h) :
    ∃ o1 rest num cnt,
      bs = o1 :: rest ∧
      (if o1 % 32 = 31 then unpackOctetNumber rest 0 0 else .ok (o1 % 32, 0)) = .ok (num, cnt) ∧
      ¬ (o1 / 64 = 0 ∧ num > 36) ∧
      readLen ⟨o1 / 64, decide (o1 / 32 % 2 = 1), num⟩ (1 + cnt) (bs.drop (1 + cnt)) = .ok h := by
  match bs with
  | [] => simp [readHeader] at hr
  | o1 :: rest =>
    simp only [readHeader] at hr
    split at hr
    · cases hr
    · rename_i num cnt heq
      split at hr
      · cases hr
      · rename_i hg
        refine ⟨o1, rest, num, cnt, rfl, heq, hg, ?_⟩
        rw [← hr]
        unfold readLen
        cases List.drop (1 + cnt) (o1 :: rest) <;> rfl

theorem readLen_bounds (t : Tag) (k : Nat) (bs : Bytes) (h : Header)
    (hr : readLen t k (bs.drop k) = .ok h) : k + 1 ≤ h.hlen ∧ h.hlen ≤ bs.length := by
  unfold readLen at hr
  split at hr
  · cases hr
  · rename_i l lrest heq
    have hlen : (bs.drop k).length = lrest.length + 1 := by rw [heq]; simp
    rw [List.length_drop] at hlen
    split at hr
    · cases hr
    · split at hr
      · split at hr
        · cases hr
        · injection hr with hr; subst hr; simp only; omega
      · injection hr with hr; subst hr; simp only; omega

theorem readHeader_hlen_bounds (bs : Bytes) (h : Header) (hr : readHeader bs = .ok h) :
    2 ≤ h.hlen ∧ h.hlen ≤ bs.length := by
  obtain ⟨o1, rest, num, cnt, _, _, _, hl⟩ := readHeader_ok bs h hr
  have := readLen_bounds _ _ _ _ hl
  omega

theorem readLen_append (t : Tag) (k : Nat) (bs extra : Bytes) (h : Header)
    (hr : readLen t k (bs.drop k) = .ok h) : readLen t k ((bs ++ extra).drop k) = .ok h := by
  have hb := readLen_bounds t k bs h hr
  unfold readLen at hr
  split at hr
  · cases hr
  · rename_i l lrest heq
    have hk : k ≤ bs.length := by
      have : (bs.drop k).length = lrest.length + 1 := by rw [heq]; simp
      rw [List.length_drop] at this; omega
    rw [List.drop_append_of_le_length hk, heq]
    simp only [readLen, List.cons_append]
    split at hr
    · cases hr
    · rename_i h128
      simp only [h128, ↓reduceIte]
      split at hr
      · rename_i hlt
        simp only [hlt, ↓reduceIte]
        split at hr
        · cases hr
        · rename_i hshort
          have hle : l - 128 ≤ lrest.length := by omega
          have : ¬ (lrest ++ extra).length < l - 128 := by simp; omega
          simp only [this, ↓reduceIte, List.take_append_of_le_length hle]
          exact hr
      · rename_i hlt
        simp only [hlt, ↓reduceIte]
        exact hr

theorem readHeader_append (bs extra : Bytes) (h : Header) (hr : readHeader bs = .ok h) :
    readHeader (bs ++ extra) = .ok h := by
  obtain ⟨o1, rest, num, cnt, rfl, hnum, hg, hl⟩ := readHeader_ok _ h hr
  have hl' := readLen_append _ _ _ extra _ hl
  have hnum' : (if o1 % 32 = 31 then unpackOctetNumber (rest ++ extra) 0 0 else .ok (o1 % 32, 0))
      = .ok (num, cnt) := by
    split
    · rename_i h31; simp only [h31, ↓reduceIte] at hnum
      exact unpackOctetNumber_append _ _ _ _ _ hnum
    · rename_i h31; simp only [h31, ↓reduceIte] at hnum; exact hnum
  rw [← hl']
  simp only [List.cons_append, readHeader, hnum', hg, ↓reduceIte]
  unfold readLen
  cases List.drop (1 + cnt) (o1 :: (rest ++ extra)) <;> rfl

/-- the tag check of `_validate_tag` -/
def tagBad (e : Option Tag) (h : Header) : Bool :=
  match e with
  | some t => decide (h.tag ≠ t)
  | none => false

theorem readTLV_eq (e : Option Tag) (bs : Bytes) :
    readTLV e bs =
      match readHeader bs with
      | .error err => .error err
      | .ok h =>
        if tagBad e h then .error .valueError
        else if (bs.drop h.hlen).length < h.len then .error .notEnough
        else .ok ((bs.drop h.hlen).take h.len, (bs.drop h.hlen).drop h.len) := by
  cases e <;> rfl

/-- shape of a successful `readTLV` -/
theorem readTLV_ok (e : Option Tag) (bs c rest : Bytes) (hr : readTLV e bs = .ok (c, rest)) :
    ∃ h, readHeader bs = .ok h ∧ tagBad e h = false ∧
      h.len ≤ (bs.drop h.hlen).length ∧
      c = (bs.drop h.hlen).take h.len ∧ rest = (bs.drop h.hlen).drop h.len := by
  rw [readTLV_eq] at hr
  split at hr
  · cases hr
  · rename_i h hh
    by_cases hbad : tagBad e h = true
    · rw [if_pos hbad] at hr; cases hr
    · rw [if_neg hbad] at hr
      by_cases hshort : (List.drop h.hlen bs).length < h.len
      · rw [if_pos hshort] at hr; cases hr
      · rw [if_neg hshort] at hr
        injection hr with hr
        injection hr with hc hrest
        exact ⟨h, hh, by simpa using hbad, by omega, hc.symm, hrest.symm⟩

theorem readTLV_shorter (e : Option Tag) (bs c rest : Bytes)
    (hr : readTLV e bs = .ok (c, rest)) :
    rest.length + 2 ≤ bs.length ∧ c.length + rest.length + 2 ≤ bs.length := by
  obtain ⟨h, hh, _, hle, rfl, rfl⟩ := readTLV_ok e bs c rest hr
  have hb := readHeader_hlen_bounds bs h hh
  simp only [List.length_drop] at hle
  simp only [List.length_take, List.length_drop]
  omega

theorem readTLV_append (e : Option Tag) (bs c rest extra : Bytes)
    (hr : readTLV e bs = .ok (c, rest)) :
    readTLV e (bs ++ extra) = .ok (c, rest ++ extra) := by
  obtain ⟨h, hh, htag, hle, rfl, rfl⟩ := readTLV_ok e bs c rest hr
  have hb := readHeader_hlen_bounds bs h hh
  rw [readTLV_eq, readHeader_append bs extra h hh]
  simp only [htag, Bool.false_eq_true, ↓reduceIte]
  rw [List.drop_append_of_le_length hb.2]
  have : ¬ (List.drop h.hlen bs ++ extra).length < h.len := by
    simp only [List.length_append]; omega
  simp only [this, ↓reduceIte, List.take_append_of_le_length hle,
    List.drop_append_of_le_length hle]

/-! ### written TLVs are byte strings -/

theorem isBytes_packTag (t : Tag) (hc : t.cls < 4) : IsBytes (packTag t) := by
  unfold packTag
  simp only
  split
  · intro x hx
    simp only [List.mem_singleton] at hx
    subst hx; split <;> omega
  · refine isBytes_cons.2 ⟨?_, isBytes_packOctetNumber _⟩
    split <;> omega

theorem isBytes_packLen (n : Nat) (hn : n < 256 ^ 126) : IsBytes (packLen n) := by
  unfold packLen
  split
  · intro x hx
    simp only [List.mem_singleton] at hx
    omega
  · obtain ⟨_, hb⟩ := digits256_spec (n + 1) n (by omega)
    have hl := digits256_length (n + 1) n 126 hn
    simp only
    refine isBytes_cons.2 ⟨?_, isBytes_reverse.2 hb⟩
    simp only [List.length_reverse]; omega

theorem isBytes_packTLV (t : Tag) (c : Bytes) (hc : t.cls < 4) (hcb : IsBytes c)
    (hn : c.length < 256 ^ 126) : IsBytes (packTLV t c) := by
  unfold packTLV packHeader
  exact isBytes_append.2 ⟨isBytes_append.2 ⟨isBytes_packTag t hc, isBytes_packLen _ hn⟩, hcb⟩

end Verif.Proofs
