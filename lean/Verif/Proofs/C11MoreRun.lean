/-
C11, additions (part 2): run-level consequences of `JInv2` — per-step classification of
outcomes (protocol errors only at the designed termination), and agreement on CLOSED.
-/
import Verif.Proofs.C11More

namespace Verif.Proofs.C11More
open Verif Verif.Joint Verif.Proofs Verif.Proofs.JointP
set_option linter.unusedSimpArgs false
set_option linter.unusedVariables false

/-! ### runs and their prefixes -/

theorem jrun_append (depth : Nat) : ∀ (a : List JStep) (y : Sys) (b : List JStep),
    jrun depth y (a ++ b) =
      ((jrun depth (jrun depth y a).1 b).1, (jrun depth y a).2 ++ (jrun depth (jrun depth y a).1 b).2) := by
  intro a
  induction a with
  | nil => intro y b; rfl
  | cons st a ih =>
    intro y b
    rw [List.cons_append, jrun_cons, ih, jrun_cons]
    rfl

theorem admissibleRun_append (depth : Nat) : ∀ (a : List JStep) (y : Sys) (b : List JStep),
    AdmissibleRun depth y (a ++ b) ↔
      AdmissibleRun depth y a ∧ AdmissibleRun depth (jrun depth y a).1 b := by
  intro a
  induction a with
  | nil => intro y b; simp [AdmissibleRun, jrun]
  | cons st a ih =>
    intro y b
    rw [List.cons_append]
    simp only [AdmissibleRun]
    rw [ih, jrun_cons, and_assoc]

theorem inv2_run {depth : Nat} : ∀ (sts : List JStep) (y : Sys), JInv2 depth y → AdmissibleRun depth y sts →
    JInv2 depth (jrun depth y sts).1 := by
  intro sts
  induction sts with
  | nil => intro y h _; exact h
  | cons st sts ih =>
    intro y h ha
    rw [jrun_cons]
    exact ih _ (inv2_step h st ha.1).1 ha.2

theorem reach {depth : Nat} {sts : List JStep} (h : AdmissibleRun depth {} sts) :
    JInv2 depth (jrun depth {} sts).1 :=
  inv2_run sts {} (JInv2.init depth) h

theorem mem_outcomes (depth : Nat) : ∀ (sts : List JStep) (y : Sys) (o : Outcome), o ∈ (jrun depth y sts).2 →
    ∃ pre st post, sts = pre ++ st :: post ∧ o = (jstep depth (jrun depth y pre).1 st).2 := by
  intro sts
  induction sts with
  | nil => intro y o h; cases h
  | cons st sts ih =>
    intro y o h
    rw [jrun_cons] at h
    rcases List.mem_cons.1 h with rfl | h
    · exact ⟨[], st, sts, rfl, rfl⟩
    · obtain ⟨pre, st', post, h1, h2⟩ := ih _ o h
      exact ⟨st :: pre, st', post, by rw [h1]; rfl, by rw [h2, jrun_cons]⟩

theorem fine_not_error {o : Outcome} {n : Notification} (h : Outcome.fine o) (he : o = .protocolError n) :
    False := by
  subst he
  rcases h with h | ⟨b, h⟩ | ⟨ms, h⟩
  · cases h
  · cases h
  · cases h

end Verif.Proofs.C11More

namespace Verif.Proofs.C11More
open Verif Verif.Joint Verif.Proofs Verif.Proofs.JointP

/-! ### (d) errors only at the designed termination -/

theorem step_outcomes (depth : Nat) (pre : List JStep) (st : JStep) (post : List JStep)
    (h : AdmissibleRun depth {} (pre ++ st :: post)) :
    let y := (jrun depth {} pre).1
    Outcome.fine (jstep depth y st).2 ∨ TerminationError depth y st (jstep depth y st).2 := by
  obtain ⟨h1, h2⟩ := (admissibleRun_append depth pre {} (st :: post)).1 h
  exact (inv2_step (reach h1) st h2.1).2

theorem error_only_at_termination (depth : Nat) (pre : List JStep) (st : JStep) (post : List JStep)
    (h : AdmissibleRun depth {} (pre ++ st :: post)) (n : Notification)
    (he : (jstep depth (jrun depth {} pre).1 st).2 = .protocolError n) :
    TerminationError depth (jrun depth {} pre).1 st (.protocolError n) := by
  rcases step_outcomes depth pre st post h with hf | ht
  · exact (fine_not_error hf he).elim
  · rw [he] at ht; exact ht

/-- the statement of `C11.no_protocol_error`, obtained from the per-step classification alone -/
theorem no_protocol_error_of_steps (depth : Nat) (sts : List JStep) (h : AdmissibleRun depth {} sts) :
    ∀ o ∈ (jrun depth {} sts).2,
      o.accepted = true ∨ (∃ b, o = .bytes b) ∨ (∃ ms, o = .msgs ms) ∨
        (unbindSent (jrun depth {} sts).1 ∧ ∃ n, o = .protocolError n) := by
  intro o ho
  obtain ⟨pre, st, post, hs, rfl⟩ := mem_outcomes depth sts {} o ho
  subst hs
  rcases step_outcomes depth pre st post h with hf | ⟨hu, ht⟩
  · rcases hf with hf | hf | hf
    · exact Or.inl hf
    · exact Or.inr (Or.inl hf)
    · exact Or.inr (Or.inr (Or.inl hf))
  · right; right; right
    refine ⟨?_, ?_⟩
    · rw [jrun_append]
      exact unbindSent_run _ _ hu
    · rcases ht with ⟨_, _, _, h', _⟩ | ⟨_, _, _, h'⟩ | ⟨_, _, _, h'⟩ <;> exact ⟨_, h'⟩

/-! ### (c) agreement on CLOSED -/

theorem closed_imp_unbindSent {depth : Nat} {y : Sys} (h : JInv2 depth y)
    (hc : y.c.state = .closed ∨ y.s.state = .closed) : unbindSent y := by
  rcases h.base.book with hu | hB
  · exact hu
  · rcases hc with hc | hc
    · exact absurd hc hB.cOpen
    · exact absurd hc hB.sOpen

theorem server_closed_inv {depth : Nat} {y : Sys} (h : JInv2 depth y) (hs : y.s.state = .closed) :
    unbindSent y ∧ y.c.state = .closed ∧ y.c.outstanding = [] ∧ y.s.outstanding = [] := by
  have hu := closed_imp_unbindSent h (Or.inr hs)
  obtain ⟨h1, h2, RC, _, hsrv⟩ := h.phase hu
  refine ⟨hu, h1, h2, ?_⟩
  rcases hsrv with ⟨_, h3⟩ | ⟨cst, cout, csr, hB⟩
  · exact h3
  · exact absurd hs hB.sOpen

theorem client_closed_inv {depth : Nat} {y : Sys} (h : JInv2 depth y) (hc : y.c.state = .closed)
    (q1 : y.toS = []) (q2 : y.c.out = []) (q3 : y.s.residue = []) :
    unbindSent y ∧ y.s.state = .closed ∧ y.c.outstanding = [] ∧ y.s.outstanding = [] := by
  have hu := closed_imp_unbindSent h (Or.inl hc)
  obtain ⟨h1, h2, RC, hRC, hsrv⟩ := h.phase hu
  rcases hsrv with ⟨h3, h4⟩ | ⟨cst, cout, csr, hB⟩
  · exact ⟨hu, h3, h2, h4⟩
  · exfalso
    have hS := h.base.chanS
    rw [q1, q2, q3] at hS
    have hg := hS.quiescent hB.sOpen
    have := congrArg (List.map sig) hg
    rw [map_sig_fillRaw, hRC] at this
    exact book_no_ub hB this

theorem closed_agreement (depth : Nat) (sts : List JStep) (h : AdmissibleRun depth {} sts)
    (hq : Quiescent (jrun depth {} sts).1) :
    let y := (jrun depth {} sts).1
    (y.c.state = .closed ∨ y.s.state = .closed) →
      y.c.state = .closed ∧ y.s.state = .closed ∧ y.c.outstanding = [] ∧ y.s.outstanding = [] ∧
        unbindSent y := by
  intro y hc
  have hi : JInv2 depth y := reach h
  obtain ⟨q1, _, q3, _, _, q6⟩ := hq
  have hcc : y.c.state = .closed := by
    rcases hc with hc | hc
    · exact hc
    · exact (server_closed_inv hi hc).2.1
  obtain ⟨a, b, c, d⟩ := client_closed_inv hi hcc q1 q3 q6
  exact ⟨hcc, b, c, d, a⟩

theorem server_closed_client_closed (depth : Nat) (sts : List JStep) (h : AdmissibleRun depth {} sts) :
    let y := (jrun depth {} sts).1
    y.s.state = .closed → y.c.state = .closed ∧ unbindSent y := by
  intro y hs
  obtain ⟨a, b, _, _⟩ := server_closed_inv (reach h) hs
  exact ⟨b, a⟩

theorem client_closed_server_closed (depth : Nat) (sts : List JStep) (h : AdmissibleRun depth {} sts) :
    let y := (jrun depth {} sts).1
    y.c.state = .closed → y.toS = [] → y.c.out = [] → y.s.residue = [] → y.s.state = .closed := by
  intro y hc q1 q2 q3
  exact (client_closed_inv (reach h) hc q1 q2 q3).2.1

theorem closed_iff_unbindSent (depth : Nat) (sts : List JStep) (h : AdmissibleRun depth {} sts) :
    let y := (jrun depth {} sts).1
    y.c.state = .closed ↔ unbindSent y := by
  intro y
  exact ⟨fun hc => closed_imp_unbindSent (reach h) (Or.inl hc), fun hu => ((reach h).phase hu).1⟩

theorem agreement_total (depth : Nat) (sts : List JStep) (h : AdmissibleRun depth {} sts)
    (hq : Quiescent (jrun depth {} sts).1) :
    let y := (jrun depth {} sts).1
    stateClass y.c.state = stateClass y.s.state ∧ sameSet y.c.outstanding y.s.outstanding := by
  intro y
  by_cases hc : y.c.state = .closed ∨ y.s.state = .closed
  · obtain ⟨a, b, c, d, _⟩ := closed_agreement depth sts h hq hc
    refine ⟨by rw [a, b], ?_⟩
    intro i
    rw [c, d]
  · exact Proofs.joint_agreement depth sts h hq (fun h' => hc (Or.inl h')) (fun h' => hc (Or.inr h'))

end Verif.Proofs.C11More
