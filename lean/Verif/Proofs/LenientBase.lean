/-
C04 lenient decoding, part 1: what the readers return on any permitted encoding of a TLV
(`Lenient.TLV`), and the skipping of unknown trailing elements (`Lenient.Extras`) by each of
the decoder's loops.  Core Lean only.
-/
import Verif.Spec.Lenient
import Verif.Proofs.RoundTripOps

namespace Verif.Proofs.LenientD

open Verif Verif.Lenient

set_option linter.unusedSimpArgs false

/-! ### headers -/

theorem readLen_lenEnc (t : Tag) (k n : Nat) (le tail : Bytes) (h : LenEnc n le) :
    readLen t k (le ++ tail) = .ok ⟨t, k + le.length, n⟩ := by
  cases h with
  | short n hn =>
    have h1 : ¬ n = 128 := by omega
    have h2 : ¬ 128 < n := by omega
    simp [readLen, h1, h2]
  | long ds hb h1 h2 =>
    have hne : ¬ ds = [] := by intro h; simp [h] at h1
    have hlt : 128 < 128 + ds.length := by omega
    have hsh : ¬ (ds.length + tail.length < ds.length) := by omega
    simp [readLen, hne, hlt, hsh, beVal_eq_beNat]
    omega

theorem lenEnc_length {n : Nat} {le : Bytes} (h : LenEnc n le) : 1 ≤ le.length := by
  cases h <;> simp

theorem packTag_length (t : Tag) : 1 ≤ (packTag t).length := by
  unfold packTag; simp only; split <;> simp

/-- the header of a permitted encoding -/
def hdrOf (t : Tag) (c e : Bytes) : Header := ⟨t, e.length - c.length, c.length⟩

@[simp] theorem hdrOf_tag (t : Tag) (c e : Bytes) : (hdrOf t c e).tag = t := rfl

/-- a permitted encoding is identifier-and-length octets `hd` followed by the content -/
theorem tlv_split {t : Tag} {c e : Bytes} (h : TLV t c e) (hr : Proofs.Readable t) :
    ∃ hd, e = hd ++ c ∧ 2 ≤ hd.length ∧
      ∀ tail, readHeader (hd ++ (c ++ tail)) = .ok ⟨t, hd.length, c.length⟩ := by
  cases h with
  | mk le hle =>
    refine ⟨packTag t ++ le, rfl, ?_, ?_⟩
    · have := packTag_length t; have := lenEnc_length hle
      simp only [List.length_append]; omega
    · intro tail
      rw [List.append_assoc, readHeader_packTag t _ hr.1 hr.2, readLen_lenEnc _ _ _ _ _ hle,
        List.length_append]

theorem tlv_length {t : Tag} {c e : Bytes} (h : TLV t c e) : c.length + 2 ≤ e.length := by
  cases h with
  | mk le hle =>
    have := packTag_length t; have := lenEnc_length hle
    simp only [List.length_append]; omega

theorem tlv_ne_nil {t : Tag} {c e : Bytes} (h : TLV t c e) : e ≠ [] := by
  intro h0; have := tlv_length h; rw [h0] at this; simp at this

theorem tlv_isEmpty {t : Tag} {c e : Bytes} (h : TLV t c e) (rest : Bytes) :
    (e ++ rest).isEmpty = false := by
  have := tlv_ne_nil h
  cases e <;> simp_all

theorem tlv_isEmpty' {t : Tag} {c e : Bytes} (h : TLV t c e) : e.isEmpty = false := by
  simpa using tlv_isEmpty h []

theorem readHeader_tlv {t : Tag} {c e : Bytes} (h : TLV t c e) (hr : Proofs.Readable t)
    (rest : Bytes) : readHeader (e ++ rest) = .ok (hdrOf t c e) := by
  obtain ⟨hd, rfl, _, hh⟩ := tlv_split h hr
  rw [List.append_assoc, hh rest]
  simp [hdrOf]

theorem readTLV_tlv_some {t : Tag} {c e : Bytes} (h : TLV t c e) (hr : Proofs.Readable t)
    (rest : Bytes) : readTLV (some t) (e ++ rest) = .ok (c, rest) := by
  obtain ⟨hd, rfl, _, hh⟩ := tlv_split h hr
  unfold readTLV
  rw [List.append_assoc, hh rest]
  simp

theorem readTLV_tlv_none {t : Tag} {c e : Bytes} (h : TLV t c e) (hr : Proofs.Readable t)
    (rest : Bytes) : readTLV none (e ++ rest) = .ok (c, rest) := by
  obtain ⟨hd, rfl, _, hh⟩ := tlv_split h hr
  unfold readTLV
  rw [List.append_assoc, hh rest]
  simp

theorem skipValue_tlv {t : Tag} {c e : Bytes} (h : TLV t c e) (hr : Proofs.Readable t)
    (rest : Bytes) : skipValue (e ++ rest) = .ok rest := by
  obtain ⟨hd, rfl, _, hh⟩ := tlv_split h hr
  unfold skipValue
  rw [List.append_assoc, hh rest]
  simp only [← List.length_append]
  rw [← List.append_assoc, List.drop_left]

/-! ### typed readers -/

theorem readOctets_tlv_some {t : Tag} {c e : Bytes} (h : TLV t c e) (hr : Proofs.Readable t)
    (rest : Bytes) : readOctets (some t) (e ++ rest) = .ok (c, rest) := readTLV_tlv_some h hr rest

theorem readOctets_tlv_none {t : Tag} {c e : Bytes} (h : TLV t c e) (hr : Proofs.Readable t)
    (rest : Bytes) : readOctets none (e ++ rest) = .ok (c, rest) := readTLV_tlv_none h hr rest

theorem readText_tlv_some {t : Tag} {c e : Bytes} (h : TLV t c e) (hr : Proofs.Readable t)
    (hc : IsText c) (rest : Bytes) : readText (some t) (e ++ rest) = .ok (c, rest) := by
  unfold readText
  rw [readTLV_tlv_some h hr rest]
  simp only [decodeText, show validUtf8 c = true from hc, ↓reduceIte]

theorem readText_tlv_none {t : Tag} {c e : Bytes} (h : TLV t c e) (hr : Proofs.Readable t)
    (hc : IsText c) (rest : Bytes) : readText none (e ++ rest) = .ok (c, rest) := by
  unfold readText
  rw [readTLV_tlv_none h hr rest]
  simp only [decodeText, show validUtf8 c = true from hc, ↓reduceIte]

theorem readInt_intL {t : Tag} {v : Int} {e : Bytes} (h : IntL t v e) (hr : Proofs.Readable t)
    (rest : Bytes) : readInt (some t) (e ++ rest) = .ok (v, rest) := by
  obtain ⟨hb, hv, hm⟩ := intContent_spec v
  have hne : intContent v ≠ [] := by
    intro h0; rw [h0] at hm; exact hm
  unfold readInt
  rw [readTLV_tlv_some h hr rest]
  simp only [readIntContent_eq_twos _ hb hne, hv]

/-- a permitted BOOLEAN is a TLV whose single content octet is read back as the value -/
theorem boolL_tlv {t : Tag} {b : Bool} {e : Bytes} (h : BoolL t b e) :
    ∃ c, TLV t c e ∧ decide (c ≠ [0]) = b := by
  cases h with
  | false bs h => exact ⟨[0], h, by simp⟩
  | true x bs hx _ h => exact ⟨[x], h, by simp [hx]⟩

theorem readBool_boolL_some {t : Tag} {b : Bool} {e : Bytes} (h : BoolL t b e)
    (hr : Proofs.Readable t) (rest : Bytes) : readBool (some t) (e ++ rest) = .ok (b, rest) := by
  obtain ⟨c, hc, hb⟩ := boolL_tlv h
  unfold readBool
  rw [readTLV_tlv_some hc hr rest, ← hb]

theorem readBool_tlv_none {t : Tag} {c e : Bytes} (h : TLV t c e) (hr : Proofs.Readable t)
    (rest : Bytes) : readBool none (e ++ rest) = .ok (decide (c ≠ [0]), rest) := by
  unfold readBool
  rw [readTLV_tlv_none h hr rest]

/-! the same with nothing following -/

theorem readHeader_tlv' {t : Tag} {c e : Bytes} (h : TLV t c e) (hr : Proofs.Readable t) :
    readHeader e = .ok (hdrOf t c e) := by simpa using readHeader_tlv h hr []
theorem readTLV_tlv_some' {t : Tag} {c e : Bytes} (h : TLV t c e) (hr : Proofs.Readable t) :
    readTLV (some t) e = .ok (c, []) := by simpa using readTLV_tlv_some h hr []
theorem readTLV_tlv_none' {t : Tag} {c e : Bytes} (h : TLV t c e) (hr : Proofs.Readable t) :
    readTLV none e = .ok (c, []) := by simpa using readTLV_tlv_none h hr []
theorem readOctets_tlv_some' {t : Tag} {c e : Bytes} (h : TLV t c e) (hr : Proofs.Readable t) :
    readOctets (some t) e = .ok (c, []) := readTLV_tlv_some' h hr
theorem readOctets_tlv_none' {t : Tag} {c e : Bytes} (h : TLV t c e) (hr : Proofs.Readable t) :
    readOctets none e = .ok (c, []) := readTLV_tlv_none' h hr
theorem readText_tlv_some' {t : Tag} {c e : Bytes} (h : TLV t c e) (hr : Proofs.Readable t)
    (hc : IsText c) : readText (some t) e = .ok (c, []) := by
  simpa using readText_tlv_some h hr hc []
theorem readText_tlv_none' {t : Tag} {c e : Bytes} (h : TLV t c e) (hr : Proofs.Readable t)
    (hc : IsText c) : readText none e = .ok (c, []) := by
  simpa using readText_tlv_none h hr hc []
theorem readBool_tlv_none' {t : Tag} {c e : Bytes} (h : TLV t c e) (hr : Proofs.Readable t) :
    readBool none e = .ok (decide (c ≠ [0]), []) := by simpa using readBool_tlv_none h hr []
theorem skipValue_tlv' {t : Tag} {c e : Bytes} (h : TLV t c e) (hr : Proofs.Readable t) :
    skipValue e = .ok [] := by simpa using skipValue_tlv h hr []

/-! ### lists of octet strings -/

theorem loopOctetsL {t : Tag} (hr : Proofs.Readable t) {vs : List Bytes} {bs : Bytes}
    (h : OctetsL t vs bs) : ∀ fuel, bs.length ≤ fuel →
      loopMany (readOctets (some t)) fuel bs = .ok vs := by
  induction h with
  | nil => intro fuel _; cases fuel <;> simp [loopMany]
  | cons v e vs rest hv _ ih =>
    intro fuel hf
    have := tlv_length hv
    rw [List.length_append] at hf
    cases fuel with
    | zero => omega
    | succ fuel =>
      simp only [loopMany, tlv_isEmpty hv, Bool.false_eq_true, ↓reduceIte,
        readOctets_tlv_some hv hr, bind, Except.bind, ih fuel (by omega)]
      rfl

theorem loopTextL {t : Tag} (hr : Proofs.Readable t) {vs : List Bytes} {bs : Bytes}
    (h : OctetsL t vs bs) : (∀ v ∈ vs, IsText v) → ∀ fuel, bs.length ≤ fuel →
      loopMany (readText (some t)) fuel bs = .ok vs := by
  induction h with
  | nil => intro _ fuel _; cases fuel <;> simp [loopMany]
  | cons v e vs rest hv _ ih =>
    intro ht fuel hf
    have := tlv_length hv
    rw [List.length_append] at hf
    cases fuel with
    | zero => omega
    | succ fuel =>
      simp only [loopMany, tlv_isEmpty hv, Bool.false_eq_true, ↓reduceIte,
        readText_tlv_some hv hr (ht v (by simp)), bind, Except.bind,
        ih (fun x hx => ht x (by simp [hx])) fuel (by omega)]
      rfl

/-! ### optional elements -/

theorem optL_length {t : Tag} {v : Option Bytes} {bs : Bytes} (h : OptL t v bs) :
    (v = none ∧ bs = []) ∨ ∃ c, v = some c ∧ TLV t c bs := by
  cases h with
  | none => exact Or.inl ⟨rfl, rfl⟩
  | some v bs h => exact Or.inr ⟨v, rfl, h⟩

end Verif.Proofs.LenientD
