/-
C18 / BER decoding steps, part 7: the counting decoder returns what the decoder returns
(`decMsgS … .res = decMsg …`), function by function.
-/
import Verif.Proofs.MsgStepsFilter
import Verif.Model.Session

namespace Verif.Proofs.MsgSteps
open Verif Verif.MsgSteps Verif.Proofs

theorem decCredS_res (W : Nat) (regs : Regs) (bs : Bytes) :
    (decCredS W regs bs).res = decCred regs bs := by
  simp only [decCredS, decCred, res_tick]
  refine bind_res_congr (readHeaderS_res W bs) (fun h => ?_)
  simp only [res_tick]
  refine ite_res_congr rfl (ite_res_congr ?_ (ite_res_congr ?_ (ite_res_congr ?_ rfl)))
  · refine bind_res_congr (readTLVS_res W _ bs) (fun p => ?_); obtain ⟨c, rest⟩ := p
    refine bind_res_congr (readTextS_res W _ c) (fun p => ?_); obtain ⟨mech, c1⟩ := p
    refine ite_res_congr rfl ?_
    refine bind_res_congr (readOctetsS_res W _ c1) (fun p => ?_); obtain ⟨cr, c2⟩ := p
    rfl
  · refine bind_res_congr (readTextS_res W _ bs) (fun p => ?_); obtain ⟨pw, rest⟩ := p; rfl
  · refine bind_res_congr (readTextS_res W _ bs) (fun p => ?_); obtain ⟨pw, rest⟩ := p; rfl

theorem decPagedValueS_res (W : Nat) (v : Bytes) :
    (decPagedValueS W v).res = decPagedValue v := by
  simp only [decPagedValueS, decPagedValue, res_tick]
  refine bind_res_congr (readTLVS_res W _ v) (fun p => ?_); obtain ⟨c, r⟩ := p
  refine bind_res_congr (readIntS_res W _ _ c) (fun p => ?_); obtain ⟨size, c1⟩ := p
  refine bind_res_congr (readOctetsS_res W _ c1) (fun p => ?_); obtain ⟨cookie, c2⟩ := p
  rfl

theorem decControlS_res (W : Nat) (regs : Regs) (bs : Bytes) :
    (decControlS W regs bs).res = decControl regs bs := by
  simp only [decControlS, decControl, res_tick]
  refine bind_res_congr (readTLVS_res W _ bs) (fun p => ?_); obtain ⟨c, rest⟩ := p
  refine bind_res_congr (readTextS_res W _ c) (fun p => ?_); obtain ⟨oid, c1⟩ := p
  simp only [res_tick]
  refine bind_res_congr ?_ (fun p => ?_)
  · refine ite_res_congr rfl ?_
    refine bind_res_congr (readHeaderS_res W c1) (fun h => ?_)
    refine ite_res_congr ?_ rfl
    refine bind_res_congr (readBoolS_res W _ c1) (fun p => ?_); obtain ⟨b, r⟩ := p
    rfl
  · obtain ⟨crit, c2, fresh⟩ := p
    refine bind_res_congr ?_ (fun value => ?_)
    · unfold decControlValueS
      refine ite_res_congr ?_ rfl
      refine bind_res_congr (readHeaderS_res W c2) (fun h => ?_)
      refine ite_res_congr ?_ rfl
      refine bind_res_congr (readOctetsS_res W _ c2) (fun p => ?_); obtain ⟨v, r⟩ := p
      rfl
    · simp only [decControlTailS]
      refine ite_res_congr ?_ (ite_res_congr rfl (ite_res_congr rfl (ite_res_congr ?_ rfl)))
      · refine bind_res_congr (decPagedValueS_res W _) (fun p => ?_); obtain ⟨size, cookie⟩ := p
        rfl
      · simp only [res_tick]
        exact ite_res_congr rfl rfl

theorem decEnvelopeLoopS_res (W : Nat) (regs : Regs) :
    ∀ (fuel : Nat) (bs : Bytes) (cs : List Control) (rn : Option Bytes),
      (decEnvelopeLoopS W regs fuel bs cs rn).res = decEnvelopeLoop regs fuel bs cs rn := by
  intro fuel
  induction fuel with
  | zero =>
    intro bs cs rn
    simp only [decEnvelopeLoopS, decEnvelopeLoop, res_tick]
    exact ite_res_congr rfl rfl
  | succ n ih =>
    intro bs cs rn
    simp only [decEnvelopeLoopS, decEnvelopeLoop, res_tick]
    refine ite_res_congr rfl ?_
    refine bind_res_congr (readHeaderS_res W bs) (fun h => ?_)
    refine ite_res_congr ?_ (ite_res_congr ?_ ?_)
    · refine bind_res_congr (readTLVS_res W _ bs) (fun p => ?_); obtain ⟨c, r⟩ := p
      refine bind_res_congr (loopManyS_res _ _ (decControlS_res W regs) _ _) (fun more => ?_)
      exact ih _ _ _
    · refine bind_res_congr (readTextS_res W _ bs) (fun p => ?_); obtain ⟨v, r⟩ := p
      exact ih _ _ _
    · refine bind_res_congr (x := tick 1 (lift (skipValue bs) 0)) rfl (fun r => ?_)
      exact ih _ _ _

theorem decResultS_res (W : Nat) (bs : Bytes) : (decResultS W bs).res = decResult bs := by
  simp only [decResultS, decResult, res_tick]
  refine bind_res_congr (readIntS_res W _ _ bs) (fun p => ?_); obtain ⟨code, b1⟩ := p
  refine bind_res_congr (readTextS_res W _ b1) (fun p => ?_); obtain ⟨mdn, b2⟩ := p
  refine bind_res_congr (readTextS_res W _ b2) (fun p => ?_); obtain ⟨diag, b3⟩ := p
  refine ite_res_congr rfl ?_
  refine bind_res_congr (readHeaderS_res W b3) (fun h => ?_)
  refine ite_res_congr ?_ rfl
  refine bind_res_congr (readTLVS_res W _ b3) (fun p => ?_); obtain ⟨c, b4⟩ := p
  exact bind_res_congr (loopManyS_res _ _ (readTextS_res W _) _ _) (fun _ => rfl)

theorem decOptLoopS_res (W : Nat) (n1 : Nat) (text1 : Bool) (n2 : Option Nat) :
    ∀ (fuel : Nat) (bs : Bytes) (a b : Option Bytes),
      (decOptLoopS W n1 text1 n2 fuel bs a b).res = decOptLoop n1 text1 n2 fuel bs a b := by
  intro fuel
  induction fuel with
  | zero =>
    intro bs a b
    simp only [decOptLoopS, decOptLoop, res_tick]
    exact ite_res_congr rfl rfl
  | succ n ih =>
    intro bs a b
    simp only [decOptLoopS, decOptLoop, res_tick]
    refine ite_res_congr rfl ?_
    refine bind_res_congr (readHeaderS_res W bs) (fun h => ?_)
    refine ite_res_congr ?_ (ite_res_congr ?_ ?_)
    · refine bind_res_congr ?_ (fun p => ?_)
      · exact ite_res_congr (readTextS_res W _ bs) (readOctetsS_res W _ bs)
      · obtain ⟨v, r⟩ := p; exact ih _ _ _
    · refine bind_res_congr (readOctetsS_res W _ bs) (fun p => ?_); obtain ⟨v, r⟩ := p
      exact ih _ _ _
    · refine bind_res_congr (x := tick 1 (lift (skipValue bs) 0)) rfl (fun r => ?_)
      exact ih _ _ _

theorem decAttrS_res (W : Nat) (bs : Bytes) : (decAttrS W bs).res = decAttr bs := by
  simp only [decAttrS, decAttr, res_tick]
  refine bind_res_congr (readTLVS_res W _ bs) (fun p => ?_); obtain ⟨c, rest⟩ := p
  refine bind_res_congr (readTextS_res W _ c) (fun p => ?_); obtain ⟨name, c1⟩ := p
  refine bind_res_congr (readTLVS_res W _ c1) (fun p => ?_); obtain ⟨vc, c2⟩ := p
  exact bind_res_congr (loopManyS_res _ _ (readOctetsS_res W _) _ _) (fun _ => rfl)

theorem decOpS_res (W : Nat) (regs : Regs) (depth num : Nat) (c : Bytes) :
    (decOpS W regs depth num c).res = decOp regs depth num c := by
  simp only [decOpS, decOp, res_tick]
  refine ite_res_congr ?_ (ite_res_congr ?_ (ite_res_congr rfl (ite_res_congr ?_ (ite_res_congr ?_
    (ite_res_congr ?_ (ite_res_congr ?_ (ite_res_congr ?_ (ite_res_congr ?_ rfl))))))))
  · refine bind_res_congr (readIntS_res W _ _ c) (fun p => ?_); obtain ⟨v, c1⟩ := p
    refine bind_res_congr (readTextS_res W _ c1) (fun p => ?_); obtain ⟨name, c2⟩ := p
    refine bind_res_congr (decCredS_res W regs c2) (fun p => ?_); obtain ⟨cred, c3⟩ := p
    rfl
  · refine bind_res_congr (decResultS_res W c) (fun p => ?_); obtain ⟨r, c1⟩ := p
    refine bind_res_congr (decOptLoopS_res W _ _ _ _ _ _ _) (fun p => ?_); obtain ⟨s, t⟩ := p
    rfl
  · refine bind_res_congr (readOctetsS_res W _ c) (fun p => ?_); obtain ⟨base, c1⟩ := p
    refine bind_res_congr (readIntS_res W _ _ c1) (fun p => ?_); obtain ⟨scope, c2⟩ := p
    refine ite_res_congr rfl ?_
    refine bind_res_congr (readIntS_res W _ _ c2) (fun p => ?_); obtain ⟨deref, c3⟩ := p
    refine ite_res_congr rfl ?_
    refine bind_res_congr (readIntS_res W _ _ c3) (fun p => ?_); obtain ⟨sl, c4⟩ := p
    refine bind_res_congr (readIntS_res W _ _ c4) (fun p => ?_); obtain ⟨tl, c5⟩ := p
    refine bind_res_congr (readBoolS_res W _ c5) (fun p => ?_); obtain ⟨ty, c6⟩ := p
    refine bind_res_congr (decFilterS_res W regs depth c6) (fun p => ?_); obtain ⟨f, c7⟩ := p
    refine bind_res_congr (readTLVS_res W _ c7) (fun p => ?_); obtain ⟨ac, c8⟩ := p
    refine bind_res_congr (loopManyS_res _ _ (readTextS_res W _) _ _) (fun attrs => ?_)
    exact bind_res_congr (x := lift (decodeText base) base.length) rfl (fun _ => rfl)
  · refine bind_res_congr (readTextS_res W _ c) (fun p => ?_); obtain ⟨name, c1⟩ := p
    refine bind_res_congr (readTLVS_res W _ c1) (fun p => ?_); obtain ⟨ac, c2⟩ := p
    exact bind_res_congr (loopManyS_res _ _ (decAttrS_res W) _ _) (fun _ => rfl)
  · refine bind_res_congr (decResultS_res W c) (fun p => ?_); obtain ⟨r, c1⟩ := p
    rfl
  · exact bind_res_congr (loopManyS_res _ _ (readTextS_res W _) _ _) (fun _ => rfl)
  · refine bind_res_congr (readTextS_res W _ c) (fun p => ?_); obtain ⟨name, c1⟩ := p
    refine bind_res_congr (decOptLoopS_res W _ _ _ _ _ _ _) (fun p => ?_); obtain ⟨s, t⟩ := p
    rfl
  · refine bind_res_congr (decResultS_res W c) (fun p => ?_); obtain ⟨r, c1⟩ := p
    refine bind_res_congr (decOptLoopS_res W _ _ _ _ _ _ _) (fun p => ?_); obtain ⟨s, t⟩ := p
    rfl

theorem decContentsS_res (W : Nat) (regs : Regs) (depth : Nat) (c : Bytes) :
    (decContentsS W regs depth c).res = decContents regs depth c := by
  simp only [decContentsS, decContents, res_tick]
  refine bind_res_congr (readIntS_res W _ _ c) (fun p => ?_); obtain ⟨id, m1⟩ := p
  refine bind_res_congr (readHeaderS_res W m1) (fun h => ?_)
  refine ite_res_congr rfl ?_
  simp only [res_tick]
  refine ite_res_congr rfl ?_
  refine bind_res_congr (readTLVS_res W _ m1) (fun p => ?_); obtain ⟨opc, m2⟩ := p
  refine bind_res_congr (decEnvelopeLoopS_res W regs _ _ _ _) (fun p => ?_)
  obtain ⟨controls, respName⟩ := p
  refine bind_res_congr (decOpS_res W regs depth _ opc) (fun op => ?_)
  rfl

theorem decMsgS_res (W : Nat) (regs : Regs) (depth : Nat) (bs : Bytes) :
    (decMsgS W regs depth bs).res = decMsg regs depth bs := by
  simp only [decMsgS, decMsg, res_tick]
  have h1 := readTLVS_res W (some tSeq) bs
  cases hx : readTLVS W (some tSeq) bs with
  | mk r k =>
    rw [hx] at h1
    simp only at h1
    rw [← h1]
    cases r with
    | error e => rfl
    | ok p =>
      obtain ⟨c, rest⟩ := p
      have h2 := decContentsS_res W regs depth c
      cases hy : decContentsS W regs depth c with
      | mk r2 n =>
        rw [hy] at h2
        simp only at h2
        simp only [hy, ← h2]
        cases r2 with
        | error e => cases e <;> rfl
        | ok m => rfl

theorem parseLoopS_res (W : Nat) (regs : Regs) (depth : Nat) : ∀ (fuel : Nat) (bs : Bytes),
    (parseLoopS W regs depth fuel bs).res = parseLoop regs depth fuel bs := by
  intro fuel
  induction fuel with
  | zero =>
    intro bs
    simp only [parseLoopS, parseLoop, res_tick]
    exact ite_res_congr rfl rfl
  | succ n ih =>
    intro bs
    simp only [parseLoopS, parseLoop, res_tick]
    refine ite_res_congr rfl ?_
    have h1 := decMsgS_res W regs depth bs
    cases hx : decMsgS W regs depth bs with
    | mk r k =>
      rw [hx] at h1
      simp only at h1
      rw [← h1]
      cases r with
      | error e => cases e <;> rfl
      | ok p =>
        obtain ⟨m, r⟩ := p
        have h2 := ih r
        cases hy : parseLoopS W regs depth n r with
        | mk r2 k2 =>
          rw [hy] at h2
          simp only at h2
          simp only [hy, ← h2]
          cases r2 with
          | error e => rfl
          | ok q => obtain ⟨ms, rest⟩ := q; rfl

end Verif.Proofs.MsgSteps
