/-
C18 / BER decoding steps, part 2: the reader primitives of `asn1.py` — the counting versions return
the results of `Model/Ber.lean`, and their steps fit the potential: reading a header three times
still leaves `SLACK` steps and the potential of everything behind the header.
-/
import Verif.Proofs.MsgStepsBase
import Verif.Proofs.BerHeader

namespace Verif.Proofs.MsgSteps
open Verif Verif.MsgSteps Verif.Proofs

/-! ### same results -/

theorem unpackOctetNumberS_res (W : Nat) : ∀ (bs : Bytes) (acc idx : Nat),
    (unpackOctetNumberS W bs acc idx).res = unpackOctetNumber bs acc idx := by
  intro bs
  induction bs with
  | nil => intro acc idx; rfl
  | cons e rest ih =>
    intro acc idx
    simp only [unpackOctetNumberS, unpackOctetNumber]
    split
    · simp only [res_tick]; exact ih _ _
    · rfl

theorem readHeaderS_res (W : Nat) (bs : Bytes) : (readHeaderS W bs).res = readHeader bs := by
  cases bs with
  | nil => rfl
  | cons o1 rest =>
    simp only [readHeaderS, readHeader, res_tick]
    have hx : (if o1 % 32 = 31 then unpackOctetNumberS W rest 0 0 else pure (o1 % 32, 0)).res =
        (if o1 % 32 = 31 then unpackOctetNumber rest 0 0 else .ok (o1 % 32, 0)) := by
      split
      · exact unpackOctetNumberS_res W rest 0 0
      · rfl
    cases hy : (if o1 % 32 = 31 then unpackOctetNumber rest 0 0 else .ok (o1 % 32, 0)) with
    | error e => rw [hy] at hx; rw [bind_err hx]
    | ok p =>
      obtain ⟨num, cnt⟩ := p
      rw [hy] at hx; rw [bind_ok hx]
      simp only [res_tick]
      split
      · rfl
      · cases hd : List.drop (1 + cnt) (o1 :: rest) with
        | nil => rfl
        | cons l lrest =>
          simp only [res_tick]
          split
          · rfl
          · split
            · split <;> rfl
            · rfl

theorem readTLVS_res (W : Nat) (e : Option Tag) (bs : Bytes) :
    (readTLVS W e bs).res = readTLV e bs := by
  cases e with
  | none =>
    simp only [readTLVS, readTLV, res_tick]
    have hx : (free (readHeaderS W bs)).res = readHeader bs := by simp [readHeaderS_res]
    cases hy : readHeader bs with
    | error err => rw [hy] at hx; rw [bind_err hx]
    | ok h =>
      rw [hy] at hx; rw [bind_ok hx]
      simp only
      split
      · rfl
      · split <;> rfl
  | some t =>
    simp only [readTLVS, readTLV, res_tick]
    have hx : (readHeaderS W bs).res = readHeader bs := readHeaderS_res W bs
    cases hy : readHeader bs with
    | error err => rw [hy] at hx; rw [bind_err hx]
    | ok h =>
      rw [hy] at hx; rw [bind_ok hx]
      simp only
      split
      · rfl
      · split <;> rfl

theorem readIntS_res (W extra : Nat) (e : Option Tag) (bs : Bytes) :
    (readIntS W extra e bs).res = readInt e bs := by
  simp only [readIntS, readInt]
  cases hy : readTLV e bs with
  | error err => rw [bind_err ((readTLVS_res W e bs).trans hy)]
  | ok p =>
    obtain ⟨c, rest⟩ := p
    rw [bind_ok ((readTLVS_res W e bs).trans hy)]
    simp only
    cases hz : readIntContent c with
    | error err =>
      rw [bind_err (x := lift (Except.error err) _) rfl]
    | ok v =>
      rw [bind_ok (x := lift (Except.ok v) _) rfl]; rfl

theorem readBoolS_res (W : Nat) (e : Option Tag) (bs : Bytes) :
    (readBoolS W e bs).res = readBool e bs := by
  simp only [readBoolS, readBool]
  cases hy : readTLV e bs with
  | error err => rw [bind_err ((readTLVS_res W e bs).trans hy)]
  | ok p =>
    obtain ⟨c, rest⟩ := p
    rw [bind_ok ((readTLVS_res W e bs).trans hy)]
    rfl

theorem readOctetsS_res (W : Nat) (e : Option Tag) (bs : Bytes) :
    (readOctetsS W e bs).res = readOctets e bs := by
  simp only [readOctetsS, readOctets]
  cases hy : readTLV e bs with
  | error err => rw [bind_err ((readTLVS_res W e bs).trans hy)]
  | ok p =>
    obtain ⟨c, rest⟩ := p
    rw [bind_ok ((readTLVS_res W e bs).trans hy)]
    rfl

theorem readTextS_res (W : Nat) (e : Option Tag) (bs : Bytes) :
    (readTextS W e bs).res = readText e bs := by
  simp only [readTextS, readText]
  cases hy : readTLV e bs with
  | error err => rw [bind_err ((readTLVS_res W e bs).trans hy)]
  | ok p =>
    obtain ⟨c, rest⟩ := p
    rw [bind_ok ((readTLVS_res W e bs).trans hy)]
    simp only [res_tick]
    cases hz : decodeText c with
    | error err => rw [bind_err (x := lift (Except.error err) _) rfl]
    | ok v => rw [bind_ok (x := lift (Except.ok v) _) rfl]; rfl

/-! ### steps of a header read -/

local macro "fin" : tactic =>
  `(tactic| first | omega | (simp only [steps_fail, steps_pure, steps_tick]; omega) | (dsimp only; omega))

/-- steps of one `_read_asn1_header` on `bs` -/
def hcost (W : Nat) (bs : Bytes) : Nat := (readHeaderS W bs).steps

theorem uon_steps (W : Nat) : ∀ (bs : Bytes) (acc idx : Nat),
    match (unpackOctetNumberS W bs acc idx).res with
    | .ok (_, c) => idx < c ∧ c ≤ idx + bs.length ∧
        (unpackOctetNumberS W bs acc idx).steps = accSteps W (c - idx) idx
    | .error _ => (unpackOctetNumberS W bs acc idx).steps = accSteps W bs.length idx + 1 := by
  intro bs
  induction bs with
  | nil => intro acc idx; simp [unpackOctetNumberS, accSteps]
  | cons e rest ih =>
    intro acc idx
    simp only [unpackOctetNumberS]
    by_cases he : 128 ≤ e
    · have := ih (acc * 128 + e % 128) (idx + 1)
      simp only [he, ↓reduceIte, res_tick, steps_tick]
      cases h : (unpackOctetNumberS W rest (acc * 128 + e % 128) (idx + 1)).res with
      | error err =>
        rw [h] at this; simp only at this ⊢
        simp only [List.length_cons, accSteps]; omega
      | ok p =>
        obtain ⟨n, c⟩ := p
        rw [h] at this; simp only at this ⊢
        obtain ⟨h1, h2, h3⟩ := this
        refine ⟨by omega, by simp only [List.length_cons]; omega, ?_⟩
        have : c - idx = (c - (idx + 1)) + 1 := by omega
        rw [this, h3]; simp only [accSteps]
    · simp only [he, ↓reduceIte]
      refine ⟨by omega, by simp only [List.length_cons]; omega, ?_⟩
      have : idx + 1 - idx = 0 + 1 := by omega
      rw [this]; simp only [accSteps]; omega

/-- a successful header read costs at most two steps per header octet (plus the big-integer part),
    a failing one at most two per octet of the input, plus three -/
theorem hcost_bounds (W : Nat) (bs : Bytes) :
    (∀ h, readHeader bs = .ok h →
      hcost W bs ≤ 2 * h.hlen + W * h.hlen * h.hlen ∧ h.hlen ≤ hcost W bs) ∧
    hcost W bs ≤ 2 * bs.length + 3 + W * bs.length * bs.length := by
  cases bs with
  | nil => simp [hcost, readHeaderS, readHeader]
  | cons o1 rest =>
    unfold hcost
    simp only [readHeaderS, readHeader, steps_tick, List.length_cons]
    -- the tag number
    have hu : ∃ (cnt su : Nat), cnt ≤ rest.length ∧ su ≤ cnt + W * cnt * cnt ∧
        (∀ p, (if o1 % 32 = 31 then unpackOctetNumber rest 0 0 else .ok (o1 % 32, 0)) = .ok p →
          p.2 = cnt) ∧
        (if o1 % 32 = 31 then unpackOctetNumberS W rest 0 0 else pure (o1 % 32, 0)).steps ≤ su + 1 ∧
        ((if o1 % 32 = 31 then unpackOctetNumberS W rest 0 0 else pure (o1 % 32, 0)).steps = su ∨
          ∃ e, (if o1 % 32 = 31 then unpackOctetNumberS W rest 0 0 else pure (o1 % 32, 0)).res
            = .error e) := by
      split
      · have := uon_steps W rest 0 0
        have hr := unpackOctetNumberS_res W rest 0 0
        cases h : (unpackOctetNumberS W rest 0 0).res with
        | error err =>
          rw [h] at this; simp only at this
          refine ⟨rest.length, accSteps W rest.length 0, Nat.le_refl _, accSteps_le0 W _, ?_, by omega,
            .inr ⟨err, rfl⟩⟩
          intro p hp; rw [← hr, h] at hp; cases hp
        | ok p =>
          obtain ⟨n, c⟩ := p
          rw [h] at this; simp only at this
          obtain ⟨h1, h2, h3⟩ := this
          refine ⟨c, accSteps W c 0, by omega, accSteps_le0 W _, ?_, by simp at h3; omega,
            .inl (by simpa using h3)⟩
          intro p hp; rw [← hr, h] at hp; cases hp; rfl
      · refine ⟨0, 0, by omega, by omega, ?_, by simp, .inl (by simp)⟩
        intro p hp; cases hp; rfl
    obtain ⟨cnt, su, hcnt, hsu, hp, hle, hsteps⟩ := hu
    have hx : (if o1 % 32 = 31 then unpackOctetNumberS W rest 0 0 else pure (o1 % 32, 0)).res =
        (if o1 % 32 = 31 then unpackOctetNumber rest 0 0 else .ok (o1 % 32, 0)) := by
      split
      · exact unpackOctetNumberS_res W rest 0 0
      · rfl
    have hsq : W * cnt * cnt ≤ W * (rest.length + 1) * (rest.length + 1) := sq_mono W (by omega)
    cases hy : (if o1 % 32 = 31 then unpackOctetNumber rest 0 0 else .ok (o1 % 32, 0)) with
    | error e =>
      rw [hy] at hx; rw [bind_err hx]
      refine ⟨fun _ hh => (by cases hh), ?_⟩
      dsimp only
      omega
    | ok p =>
      obtain ⟨num, c⟩ := p
      have hc : c = cnt := hp _ hy
      subst hc
      rw [hy] at hx; rw [bind_ok hx]
      have hs : (if o1 % 32 = 31 then unpackOctetNumberS W rest 0 0 else pure (o1 % 32, 0)).steps = su := by
        rcases hsteps with h | ⟨e, he⟩
        · exact h
        · rw [hx] at he; cases he
      rw [hs]
      simp only [steps_tick]
      split
      · exact ⟨fun _ hh => (by cases hh), by fin⟩
      · cases hd : List.drop (1 + c) (o1 :: rest) with
        | nil => exact ⟨fun _ hh => (by cases hh), by fin⟩
        | cons l lrest =>
          have hlen : ((o1 :: rest).drop (1 + c)).length = lrest.length + 1 := by rw [hd]; simp
          rw [List.length_drop, List.length_cons] at hlen
          simp only [steps_tick]
          by_cases h128 : l = 128
          · simp only [h128, ↓reduceIte]
            exact ⟨fun _ hh => (by cases hh), by fin⟩
          · simp only [h128, ↓reduceIte]
            by_cases hlong : 128 < l
            · simp only [hlong, ↓reduceIte]
              by_cases hshort : lrest.length < l - 128
              · simp only [hshort, ↓reduceIte]
                exact ⟨fun _ hh => (by cases hh), by fin⟩
              · simp only [hshort, ↓reduceIte]
                refine ⟨fun h hh => ?_, ?_⟩
                · cases hh
                  simp only
                  have : W * c * c ≤ W * (1 + c + 1 + (l - 128)) * (1 + c + 1 + (l - 128)) :=
                    sq_mono W (by omega)
                  omega
                · fin
            · simp only [hlong, ↓reduceIte]
              refine ⟨fun h hh => ?_, ?_⟩
              · cases hh
                simp only [steps_pure]
                have : W * c * c ≤ W * (1 + c + 1) * (1 + c + 1) := sq_mono W (by omega)
                omega
              · fin

/-! ### the potential pays for the headers -/

/-- what every header leaves to the code around it, beyond three reads of the header -/
def SLACK : Nat := 20

/-- a header of `hl ≥ 2` octets in front of `m` more: three header reads and `SLACK` steps are
    covered by the potential of the header octets -/
theorem pot_header {A W : Nat} (hA : 16 ≤ A) {hl m c : Nat} (h2 : 2 ≤ hl)
    (hc : c ≤ 2 * hl + W * hl * hl) :
    3 * c + SLACK + pot A W m ≤ pot A W (hl + m) := by
  have h1 := pot_superadd A W hl m
  have h3 := pot_ge A W hl 16 hA
  unfold SLACK
  omega

theorem hcost_pot {A W : Nat} (hA : 16 ≤ A) (bs : Bytes) (h : Header) (hh : readHeader bs = .ok h) :
    3 * hcost W bs + SLACK + pot A W (bs.length - h.hlen) ≤ pot A W bs.length := by
  have hb := readHeader_hlen_bounds bs h hh
  have hc := ((hcost_bounds W bs).1 h hh).1
  have := pot_header (m := bs.length - h.hlen) hA hb.1 hc
  have e : h.hlen + (bs.length - h.hlen) = bs.length := by omega
  rw [e] at this
  exact this

theorem hcost_fail {A W : Nat} (hA : 16 ≤ A) (bs : Bytes) : hcost W bs ≤ pot A W bs.length + 3 := by
  have := (hcost_bounds W bs).2
  have := pot_ge A W bs.length 2 (by omega)
  omega

/-- every header octet is inspected: a successful read costs at least the header length -/
theorem hlen_le_hcost (W : Nat) (bs : Bytes) (h : Header) (hh : readHeader bs = .ok h) :
    h.hlen ≤ hcost W bs := ((hcost_bounds W bs).1 h hh).2

end Verif.Proofs.MsgSteps
