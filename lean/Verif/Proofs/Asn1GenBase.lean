/-
Lemmas about the runtime `Verif.PyRt` on the values that occur in the tie proofs
(`Props/TiesAsn1.lean`): natural numbers seen as Python ints, byte lists.  Core Lean only.
-/
import Verif.PyRt
import Verif.Proofs.BerHeader

namespace Verif.Proofs.Asn1Gen

open Verif Verif.PyRt

/-! ### int operators on naturals -/

theorem pyAnd_nat (m n : Nat) : pyAnd (m : Int) (n : Int) = ((m &&& n : Nat) : Int) := rfl

theorem pyOr_nat (m n : Nat) : pyOr (m : Int) (n : Int) = ((m ||| n : Nat) : Int) := rfl

theorem pyAnd_mask (m k : Nat) : pyAnd (m : Int) ((2 ^ k - 1 : Nat) : Int) = ((m % 2 ^ k : Nat) : Int) := by
  rw [pyAnd_nat, Nat.and_two_pow_sub_one_eq_mod]

theorem pyAnd_127 (m : Nat) : pyAnd (m : Int) 127 = ((m % 128 : Nat) : Int) := pyAnd_mask m 7
theorem pyAnd_255 (m : Nat) : pyAnd (m : Int) 255 = ((m % 256 : Nat) : Int) := pyAnd_mask m 8
theorem pyAnd_31 (m : Nat) : pyAnd (m : Int) 31 = ((m % 32 : Nat) : Int) := pyAnd_mask m 5

theorem pyShr_nat (m k : Nat) : pyShr (m : Int) k = ((m / 2 ^ k : Nat) : Int) := by
  simp [pyShr]

theorem pyShl_nat (m k : Nat) : pyShl (m : Int) k = ((m * 2 ^ k : Nat) : Int) := by
  simp [pyShl]

theorem pyShr_7 (m : Nat) : pyShr (m : Int) 7 = ((m / 128 : Nat) : Int) := pyShr_nat m 7
theorem pyShr_8 (m : Nat) : pyShr (m : Int) 8 = ((m / 256 : Nat) : Int) := pyShr_nat m 8
theorem pyShl_7 (m : Nat) : pyShl (m : Int) 7 = ((m * 128 : Nat) : Int) := pyShl_nat m 7
theorem pyShl_8 (m : Nat) : pyShl (m : Int) 8 = ((m * 256 : Nat) : Int) := pyShl_nat m 8

theorem pyShlE_nat (m k : Nat) : pyShlE (m : Int) (k : Int) = .ok ((m * 2 ^ k : Nat) : Int) := by
  simp [pyShlE]

set_option maxRecDepth 8192 in
theorem and128_byte : ∀ m, m < 256 → m &&& 128 = if 128 ≤ m then 128 else 0 := by decide

set_option maxRecDepth 8192 in
theorem or128_low : ∀ m, m < 128 → m ||| 128 = m + 128 := by decide

theorem pyAnd_128_byte (m : Nat) (h : m < 256) :
    pyAnd (m : Int) 128 = if 128 ≤ m then 128 else 0 := by
  show ((m &&& 128 : Nat) : Int) = _
  rw [and128_byte m h]; split <;> rfl

theorem pyOr_128_low (m : Nat) (h : m < 128) : pyOr (m : Int) 128 = ((m + 128 : Nat) : Int) := by
  show ((m ||| 128 : Nat) : Int) = _
  rw [or128_low m h]

/-- `(a << 8) | b = a * 256 + b` for a byte `b` -/
theorem pyOr_shl8 (a b : Nat) (h : b < 256) :
    pyOr (pyShl (a : Int) 8) (b : Int) = ((a * 256 + b : Nat) : Int) := by
  rw [pyShl_8, pyOr_nat]
  congr 1
  have := Nat.two_pow_add_eq_or_of_lt (i := 8) (b := b) (by simpa using h) a
  rw [Nat.mul_comm] at this
  exact this.symm

/-! ### bytearray operations -/

theorem len_eq (l : List Nat) : len l = (l.length : Int) := rfl

theorem baAppend_nat (l : List Nat) (m : Nat) (h : m < 256) :
    baAppend l (m : Int) = .ok (l ++ [m]) := by
  have : (0 : Int) ≤ (m : Int) ∧ (m : Int) < 256 := by omega
  simp [baAppend, this]

theorem baAppend_big (l : List Nat) (m : Nat) (h : 256 ≤ m) :
    baAppend l (m : Int) = .error .valueError := by
  simp only [baAppend]
  rw [if_neg (by omega)]

theorem normIndex_nat (n k : Nat) (h : k < n) : normIndex n (k : Int) = some k := by
  have h1 : ¬ ((k : Int) < 0) := by omega
  have h2 : (0 : Int) ≤ (k : Int) ∧ (k : Int) < (n : Int) := by omega
  simp [normIndex, h1, h2]

theorem normIndex_nat_none (n k : Nat) (h : n ≤ k) : normIndex n (k : Int) = none := by
  simp only [normIndex]
  rw [if_neg (by omega)]

/-- `x[-1]` on a non-empty sequence -/
theorem normIndex_neg_one (n : Nat) (h : 0 < n) : normIndex n (-1) = some (n - 1) := by
  have h2 : (0 : Int) ≤ -1 + (n : Int) ∧ -1 + (n : Int) < (n : Int) := by omega
  have h3 : (-1 + (n : Int)).toNat = n - 1 := by omega
  simp [normIndex, h2, h3]

theorem getItem_nat (l : List Nat) (k : Nat) (h : k < l.length) :
    getItem l (k : Int) = .ok ((l.getD k 0 : Nat) : Int) := by
  simp [getItem, normIndex_nat _ _ h]

theorem setItem_nat (l : List Nat) (k v : Nat) (h : k < l.length) (hv : v < 256) :
    setItem l (k : Int) (v : Int) = .ok (l.set k v) := by
  have : (0 : Int) ≤ (v : Int) ∧ (v : Int) < 256 := by omega
  simp [setItem, normIndex_nat _ _ h, this]

theorem clampIndex_nat (n k : Nat) : clampIndex n (k : Int) = min k n := by
  have h1 : ¬ ((k : Int) < 0) := by omega
  simp [clampIndex, h1]

theorem sliceFrom_nat (l : List Nat) (k : Nat) : sliceFrom l (k : Int) = l.drop k := by
  simp only [sliceFrom, clampIndex_nat]
  by_cases h : k ≤ l.length
  · rw [Nat.min_eq_left h]
  · rw [Nat.min_eq_right (by omega), List.drop_of_length_le (Nat.le_refl _), List.drop_of_length_le (by omega)]

theorem sliceTo_nat (l : List Nat) (k : Nat) : sliceTo l (k : Int) = l.take k := by
  simp only [sliceTo, clampIndex_nat]
  by_cases h : k ≤ l.length
  · rw [Nat.min_eq_left h]
  · rw [Nat.min_eq_right (by omega), List.take_of_length_le (Nat.le_refl _), List.take_of_length_le (by omega)]

theorem sliceTo_one (l : List Nat) : sliceTo l 1 = l.take 1 := sliceTo_nat l 1

/-- `x[k:k+1]` -/
theorem slice_one (l : List Nat) (k : Nat) : slice l (k : Int) ((k : Int) + 1) = (l.drop k).take 1 := by
  have e : ((k : Int) + 1) = ((k + 1 : Nat) : Int) := by omega
  rw [e]
  simp only [slice, clampIndex_nat]
  by_cases h : k + 1 ≤ l.length
  · rw [Nat.min_eq_left h, Nat.min_eq_left (by omega)]
    congr 1; omega
  · by_cases h' : k ≤ l.length
    · have : k = l.length := by omega
      subst this
      simp
    · rw [Nat.min_eq_right (by omega), Nat.min_eq_right (by omega)]
      simp [List.drop_of_length_le (Nat.le_of_lt (Nat.lt_of_not_le h'))]

theorem unpackB_single (b : Nat) : unpackB [b] = .ok (b : Int) := rfl

theorem enumOf_mem (ms : List Int) (x : Int) (h : x ∈ ms) : enumOf ms x = .ok x := by
  simp [enumOf, h]

theorem enumOf_not_mem (ms : List Int) (x : Int) (h : x ∉ ms) : enumOf ms x = .error .valueError := by
  simp [enumOf, h]

/-! ### fuel independence of the digit loops of the hand model -/

theorem digits128_fuel : ∀ (f1 f2 n : Nat), n ≤ f1 → n ≤ f2 → digits128 f1 n = digits128 f2 n := by
  intro f1; induction f1 with
  | zero => intro f2 n h1 _; have : n = 0 := by omega
            subst this; cases f2 <;> simp [digits128]
  | succ f ih =>
    intro f2 n h1 h2
    cases f2 with
    | zero => have : n = 0 := by omega
              subst this; simp [digits128]
    | succ g =>
      simp only [digits128]
      by_cases h0 : n = 0
      · simp [h0]
      · simp only [h0, ↓reduceIte]
        rw [ih g (n / 128) (by omega) (by omega)]

theorem digits256_fuel : ∀ (f1 f2 n : Nat), n ≤ f1 → n ≤ f2 → digits256 f1 n = digits256 f2 n := by
  intro f1; induction f1 with
  | zero => intro f2 n h1 _; have : n = 0 := by omega
            subst this; cases f2 <;> simp [digits256]
  | succ f ih =>
    intro f2 n h1 h2
    cases f2 with
    | zero => have : n = 0 := by omega
              subst this; simp [digits256]
    | succ g =>
      simp only [digits256]
      by_cases h0 : n = 0
      · simp [h0]
      · simp only [h0, ↓reduceIte]
        rw [ih g (n / 256) (by omega) (by omega)]

end Verif.Proofs.Asn1Gen
