/-
Proofs for C02 / C05 / C06: `receive` against the framing spec, fail-closed behaviour, and
independence of the chunking.
-/
import Verif.Spec.Frame
import Verif.Spec.WF
import Verif.Spec.SessionSpec
import Verif.Proofs.RecvFrame
import Verif.Proofs.RoundTrip
import Verif.Proofs.SessionInv

namespace Verif.Proofs
open Verif
set_option linter.unusedSimpArgs false
set_option linter.unusedVariables false

/-! ### the delivery loop: residue, concatenation, state -/

/-- set the residue inside a loop result -/
def mapRes (r : Bytes) : ProcResult → ProcResult
  | .ok s => .ok { s with residue := r }
  | .protoErr s u n => .protoErr { s with residue := r } u n
  | .keyErr s => .keyErr { s with residue := r }

theorem clientProcess_residue (s : Sess) (m : Msg) (r : Bytes) :
    clientProcess { s with residue := r } m =
      (clientProcess s m).map (fun p => ({ p.1 with residue := r }, p.2)) := by
  rw [clientProcess_eq, clientProcess_eq]
  split <;> rfl

theorem serverProcess_residue (s : Sess) (m : Msg) (r : Bytes) :
    serverProcess { s with residue := r } m =
      (serverProcess s m).map (fun p => { p with residue := r }) := by
  rw [serverProcess_eq, serverProcess_eq]
  split <;> rfl

/-- `processLoop_cons` with the role test as an `if` -/
theorem processLoop_cons2 (s : Sess) (m : Msg) (ms : List Msg) :
    processLoop s (m :: ms) =
      if m.op.isNotice = true then .protoErr s false true
      else if m.op.isUnbind = true then .protoErr s true false
      else if s.role = .client then
        match clientProcess s m with
        | none => .protoErr s false false
        | some (s1, true) => .keyErr s1
        | some (s1, false) => processLoop s1 ms
      else
        match serverProcess s m with
        | none => .protoErr s false false
        | some s1 => processLoop s1 ms := by
  rw [processLoop_cons]
  cases s.role <;> rfl

/-- the loop never looks at the buffered bytes -/
theorem processLoop_residue (r : Bytes) (ms : List Msg) : ∀ s : Sess,
    processLoop { s with residue := r } ms = mapRes r (processLoop s ms) := by
  induction ms with
  | nil => intro s; rfl
  | cons m ms ih =>
    intro s
    have hrole : ({ s with residue := r } : Sess).role = s.role := rfl
    rw [processLoop_cons2, processLoop_cons2, hrole]
    by_cases hn : m.op.isNotice = true
    · rw [if_pos hn, if_pos hn]; rfl
    rw [if_neg hn, if_neg hn]
    by_cases hu : m.op.isUnbind = true
    · rw [if_pos hu, if_pos hu]; rfl
    rw [if_neg hu, if_neg hu]
    by_cases hr : s.role = .client
    · rw [if_pos hr, if_pos hr, clientProcess_residue]
      cases hcp : clientProcess s m with
      | none => rfl
      | some p =>
        obtain ⟨s1, b⟩ := p
        cases b with
        | true => rfl
        | false => exact ih s1
    · rw [if_neg hr, if_neg hr, serverProcess_residue]
      cases hsp : serverProcess s m with
      | none => rfl
      | some s1 => exact ih s1

/-- running the loop over `ms1 ++ ms2` -/
theorem processLoop_append (ms1 ms2 : List Msg) : ∀ s : Sess,
    processLoop s (ms1 ++ ms2) =
      match processLoop s ms1 with
      | .ok s1 => processLoop s1 ms2
      | x => x := by
  induction ms1 with
  | nil => intro s; rfl
  | cons m ms ih =>
    intro s
    rw [List.cons_append, processLoop_cons2, processLoop_cons2]
    by_cases hn : m.op.isNotice = true
    · rw [if_pos hn, if_pos hn]
    rw [if_neg hn, if_neg hn]
    by_cases hu : m.op.isUnbind = true
    · rw [if_pos hu, if_pos hu]
    rw [if_neg hu, if_neg hu]
    by_cases hr : s.role = .client
    · rw [if_pos hr, if_pos hr]
      cases hcp : clientProcess s m with
      | none => rfl
      | some p =>
        obtain ⟨s1, b⟩ := p
        cases b with
        | true => rfl
        | false => exact ih s1
    · rw [if_neg hr, if_neg hr]
      cases hsp : serverProcess s m with
      | none => rfl
      | some s1 => exact ih s1

theorem clientProcess_not_closed {s s' : Sess} {m : Msg} {b : Bool}
    (h : clientProcess s m = some (s', b)) (hs : s.state ≠ .closed) : s'.state ≠ .closed := by
  rw [clientProcess_eq] at h
  split at h
  · simp only [Option.some.injEq, Prod.mk.injEq] at h
    obtain ⟨rfl, _⟩ := h
    exact cliState_ne_closed hs
  · cases h

theorem serverProcess_not_closed {s s' : Sess} {m : Msg}
    (h : serverProcess s m = some s') (hs : s.state ≠ .closed) : s'.state ≠ .closed := by
  rw [serverProcess_eq] at h
  split at h
  · simp only [Option.some.injEq] at h
    subst h
    exact srvState_ne_closed hs
  · cases h

/-- a loop that completes leaves the session open -/
theorem processLoop_ok_not_closed (ms : List Msg) : ∀ s s2 : Sess, s.state ≠ .closed →
    processLoop s ms = .ok s2 → s2.state ≠ .closed := by
  induction ms with
  | nil => intro s s2 hs h; simp only [processLoop, ProcResult.ok.injEq] at h; exact h ▸ hs
  | cons m ms ih =>
    intro s s2 hs h
    rw [processLoop_cons2] at h
    by_cases hn : m.op.isNotice = true
    · rw [if_pos hn] at h; cases h
    rw [if_neg hn] at h
    by_cases hu : m.op.isUnbind = true
    · rw [if_pos hu] at h; cases h
    rw [if_neg hu] at h
    by_cases hr : s.role = .client
    · rw [if_pos hr] at h
      cases hcp : clientProcess s m with
      | none => rw [hcp] at h; cases h
      | some p =>
        obtain ⟨s1, b⟩ := p
        rw [hcp] at h
        cases b with
        | true => cases h
        | false => exact ih s1 s2 (clientProcess_not_closed hcp hs) h
    · rw [if_neg hr] at h
      cases hsp : serverProcess s m with
      | none => rw [hsp] at h; cases h
      | some s1 =>
        rw [hsp] at h
        exact ih s1 s2 (serverProcess_not_closed hsp hs) h

theorem processLoop_ok_frame (s s2 : Sess) (ms : List Msg) (h : processLoop s ms = .ok s2) :
    SameFrame s s2 := by
  have := processLoop_frame s ms
  rwa [h] at this

/-! ### `recv` returning messages -/

theorem recv_msgs_iff (d : Nat) (s s' : Sess) (chunk : Bytes) (ms : List Msg) :
    recv d s chunk = (s', .msgs ms) ↔
      s.state ≠ .closed ∧ ∃ rest,
        parseLoop s.regs d (s.residue ++ chunk).length (s.residue ++ chunk) = .ok (ms, rest) ∧
        processLoop { s with residue := rest } ms = .ok s' := by
  constructor
  · intro h
    rcases recv_cases d s chunk with ⟨_, h'⟩ | ⟨_, e, _, h'⟩ | ⟨hs, ms', rest, hp, h'⟩
    · rw [h'] at h; injection h with _ h; cases h
    · rw [h'] at h; injection h with _ h; cases h
    · rcases h' with ⟨s2, hl, h'⟩ | ⟨s2, u, n, hl, h'⟩ | ⟨s2, hl, h'⟩
      · rw [h'] at h
        injection h with h1 h2
        injection h2 with h2
        subst h1 h2
        exact ⟨hs, rest, hp, hl⟩
      · rw [h'] at h; injection h with _ h; cases h
      · rw [h'] at h; injection h with _ h; cases h
  · rintro ⟨hs, rest, hp, hl⟩
    simp only [recv, hs, if_false, hp, hl]

theorem recv_msgs_of_snd (d : Nat) (s : Sess) (chunk : Bytes) (ms : List Msg)
    (h : (recv d s chunk).2 = .msgs ms) : recv d s chunk = ((recv d s chunk).1, .msgs ms) := by
  rw [← h]

/-- whole ⇒ chunked, one cut -/
theorem recv_split (d : Nat) (s sW : Sess) (a b : Bytes) (ms : List Msg)
    (h : recv d s (a ++ b) = (sW, .msgs ms)) :
    ∃ s1 ms1 ms2, recv d s a = (s1, .msgs ms1) ∧ recv d s1 b = (sW, .msgs ms2) ∧ ms = ms1 ++ ms2 := by
  obtain ⟨hs, rest, hp, hl⟩ := (recv_msgs_iff _ _ _ _ _).1 h
  rw [← List.append_assoc] at hp
  obtain ⟨ms1, t, hp1⟩ := parseLoop_prefix_ok s.regs d b _ (s.residue ++ a) ms rest (Nat.le_refl _) hp
  rw [parseLoop_append s.regs d b _ _ ms1 t (Nat.le_refl _) hp1] at hp
  cases hp2 : parseLoop s.regs d (t ++ b).length (t ++ b) with
  | error e => rw [hp2] at hp; cases hp
  | ok q =>
    obtain ⟨ms2, r2⟩ := q
    rw [hp2] at hp
    simp only [Except.ok.injEq, Prod.mk.injEq] at hp
    obtain ⟨rfl, rfl⟩ := hp
    rw [processLoop_residue, processLoop_append] at hl
    cases hl1 : processLoop s ms1 with
    | protoErr s0 u n => rw [hl1] at hl; cases hl
    | keyErr s0 => rw [hl1] at hl; cases hl
    | ok s0 =>
      rw [hl1] at hl
      simp only at hl
      have hl1t : processLoop { s with residue := t } ms1 = .ok { s0 with residue := t } := by
        rw [processLoop_residue, hl1]; rfl
      have hf := processLoop_ok_frame _ _ _ hl1
      have hs0 := processLoop_ok_not_closed _ _ _ hs hl1
      refine ⟨{ s0 with residue := t }, ms1, ms2, ?_, ?_, rfl⟩
      · exact (recv_msgs_iff _ _ _ _ _).2 ⟨hs, t, hp1, hl1t⟩
      · refine (recv_msgs_iff _ _ _ _ _).2 ⟨hs0, r2, ?_, ?_⟩
        · simp only [hf.2.2.2.2, hp2]
        · rw [← hl, ← processLoop_residue]

/-- chunked ⇒ whole, one cut -/
theorem recv_join (d : Nat) (s s1 s2 : Sess) (a b : Bytes) (ms1 ms2 : List Msg)
    (h1 : recv d s a = (s1, .msgs ms1)) (h2 : recv d s1 b = (s2, .msgs ms2)) :
    recv d s (a ++ b) = (s2, .msgs (ms1 ++ ms2)) := by
  obtain ⟨hs, t, hp1, hl1⟩ := (recv_msgs_iff _ _ _ _ _).1 h1
  obtain ⟨hs1, r2, hp2, hl2⟩ := (recv_msgs_iff _ _ _ _ _).1 h2
  have hf := processLoop_ok_frame _ _ _ hl1
  have hres : s1.residue = t := hf.2.2.2.1
  have hregs : s1.regs = s.regs := hf.2.2.2.2
  rw [hres, hregs] at hp2
  refine (recv_msgs_iff _ _ _ _ _).2 ⟨hs, r2, ?_, ?_⟩
  · rw [← List.append_assoc, parseLoop_append s.regs d b _ _ ms1 t (Nat.le_refl _) hp1, hp2]
  · rw [processLoop_residue] at hl1 hl2 ⊢
    rw [processLoop_append]
    cases hl0 : processLoop s ms1 with
    | protoErr s0 u n => rw [hl0] at hl1; cases hl1
    | keyErr s0 => rw [hl0] at hl1; cases hl1
    | ok s0 =>
      rw [hl0] at hl1
      simp only [mapRes, ProcResult.ok.injEq] at hl1
      subst hl1
      simp only
      rw [← processLoop_residue] at hl2 ⊢
      exact hl2

/-! ### `feed` -/

theorem feed_cons (d : Nat) (s : Sess) (c : Bytes) (cs : List Bytes) :
    feed d s (c :: cs) =
      match (recv d s c).2 with
      | .msgs ms => ((feed d (recv d s c).1 cs).1, ms ++ (feed d (recv d s c).1 cs).2.1,
                      (feed d (recv d s c).1 cs).2.2)
      | o => ((recv d s c).1, [], some o) := by
  simp only [feed]
  rcases recv d s c with ⟨s1, o⟩
  cases o <;> rfl

theorem feed_cons_msgs (d : Nat) (s s1 : Sess) (c : Bytes) (cs : List Bytes) (ms : List Msg)
    (h : recv d s c = (s1, .msgs ms)) :
    feed d s (c :: cs) = ((feed d s1 cs).1, ms ++ (feed d s1 cs).2.1, (feed d s1 cs).2.2) := by
  rw [feed_cons, h]

theorem feed_cons_ok (d : Nat) (s : Sess) (c : Bytes) (cs : List Bytes)
    (hok : (feed d s (c :: cs)).2.2 = none) :
    ∃ ms, recv d s c = ((recv d s c).1, .msgs ms) ∧ (feed d (recv d s c).1 cs).2.2 = none := by
  rw [feed_cons] at hok
  cases ho : (recv d s c).2 with
  | msgs ms =>
    rw [ho] at hok
    exact ⟨ms, by rw [← ho], hok⟩
  | _ => rw [ho] at hok; cases hok

/-! ### C06 -/

theorem recv_accounting' (depth : Nat) (s : Sess) (chunk : Bytes) (ms : List Msg)
    (h : (recv depth s chunk).2 = .msgs ms) :
    ∃ us, frames (s.residue ++ chunk).length (s.residue ++ chunk) = some (us, (recv depth s chunk).1.residue) ∧
      us.length = ms.length ∧ frame (recv depth s chunk).1.residue = .incomplete := by
  obtain ⟨hs, rest, hp, hl⟩ := (recv_msgs_iff _ _ _ _ _).1 (recv_msgs_of_snd _ _ _ _ h)
  have hres : (recv depth s chunk).1.residue = rest := (processLoop_ok_frame _ _ _ hl).2.2.2.1
  rw [hres]
  exact parseLoop_frames _ _ _ _ _ _ hp

theorem recv_accounting (depth : Nat) (s : Sess) (chunk : Bytes) (ms : List Msg)
    (hb : IsBytes (s.residue ++ chunk))
    (h : (recv depth s chunk).2 = .msgs ms) :
    ∃ us, frames (s.residue ++ chunk).length (s.residue ++ chunk) = some (us, (recv depth s chunk).1.residue) ∧
      us.length = ms.length ∧ frame (recv depth s chunk).1.residue = .incomplete :=
  recv_accounting' depth s chunk ms h

theorem frames_incomplete (bs : Bytes) (h : frame bs = .incomplete) :
    frames bs.length bs = some ([], bs) := by
  rw [frames_eq _ _ (Nat.le_refl _)]
  split
  · rename_i he; rw [List.isEmpty_iff.1 he]
  · rw [h]

theorem feed_accounting_gen (depth : Nat) (chunks : List Bytes) : ∀ s : Sess,
    frame s.residue = .incomplete → (feed depth s chunks).2.2 = none →
    ∃ us, frames (s.residue ++ chunks.flatten).length (s.residue ++ chunks.flatten)
        = some (us, (feed depth s chunks).1.residue) ∧
      us.length = (feed depth s chunks).2.1.length := by
  induction chunks with
  | nil =>
    intro s hf _
    refine ⟨[], ?_, rfl⟩
    simp only [List.flatten_nil, List.append_nil, feed]
    exact frames_incomplete _ hf
  | cons c cs ih =>
    intro s hf hok
    obtain ⟨ms, hr, hok1⟩ := feed_cons_ok _ _ _ _ hok
    have hsnd : (recv depth s c).2 = .msgs ms := by rw [hr]
    obtain ⟨us1, h1, h2, h3⟩ := recv_accounting' depth s c ms hsnd
    obtain ⟨us2, g1, g2⟩ := ih _ h3 hok1
    refine ⟨us1 ++ us2, ?_, ?_⟩
    · rw [feed_cons_msgs _ _ _ _ _ _ hr]
      simp only [List.flatten_cons]
      rw [← List.append_assoc, frames_append _ _ _ us1 _ (Nat.le_refl _) h1, g1]
    · rw [feed_cons_msgs _ _ _ _ _ _ hr]
      simp [h2, g2]

theorem feed_accounting (depth : Nat) (s : Sess) (chunks : List Bytes)
    (hr : s.residue = []) (hb : IsBytes chunks.flatten)
    (hok : (feed depth s chunks).2.2 = none) :
    ∃ us, frames chunks.flatten.length chunks.flatten = some (us, (feed depth s chunks).1.residue) ∧
      us.length = (feed depth s chunks).2.1.length := by
  have := feed_accounting_gen depth chunks s (by rw [hr]; rfl) hok
  rwa [hr, List.nil_append] at this

theorem decMsg_complete_not_notEnough (regs : Regs) (depth : Nat) (bs u rest : Bytes)
    (hb : IsBytes bs) (hf : frame bs = .complete u rest) : decMsg regs depth bs ≠ .error .notEnough := by
  intro h
  rw [(decMsg_notEnough_iff_frame _ _ _).1 h] at hf
  cases hf

/-! ### C05 -/

theorem recv_total (depth : Nat) (s : Sess) (chunk : Bytes) (hr : Reachable s) :
    (∃ ms, (recv depth s chunk).2 = .msgs ms) ∨ (∃ n, (recv depth s chunk).2 = .protocolError n) := by
  rcases recv_cases depth s chunk with ⟨_, h⟩ | ⟨_, e, _, h⟩ | ⟨hs, ms, rest, _, h⟩
  · exact .inr ⟨_, by rw [h]⟩
  · exact .inr ⟨_, by rw [h]⟩
  · rcases h with ⟨s2, _, h⟩ | ⟨s2, u, n, _, h⟩ | ⟨s2, hl, _⟩
    · exact .inl ⟨ms, by rw [h]⟩
    · exact .inr ⟨_, by rw [h]⟩
    · exfalso
      cases hrole : s.role with
      | client =>
        have hi : CInv { s with residue := rest } := (reachable_inv hr hrole).congr rfl rfl rfl
        exact (processLoop_client ms { s with residue := rest } hrole hi hs).2 s2 hl
      | server =>
        exact (processLoop_server ms { s with residue := rest } hrole hs).2 s2 hl

theorem recv_error_closes (depth : Nat) (s : Sess) (chunk : Bytes) (n : Notification)
    (h : (recv depth s chunk).2 = .protocolError n) : (recv depth s chunk).1.state = .closed := by
  rcases recv_cases depth s chunk with ⟨hc, h'⟩ | ⟨_, e, _, h'⟩ | ⟨hs, ms, rest, _, h'⟩
  · rw [h']; exact hc
  · rw [h']; rfl
  · rcases h' with ⟨s2, _, h'⟩ | ⟨s2, u, n', _, h'⟩ | ⟨s2, _, h'⟩
    · rw [h'] at h; cases h
    · rw [h']; rfl
    · rw [h'] at h; cases h

theorem recv_closed (depth : Nat) (s : Sess) (chunk : Bytes) (h : s.state = .closed) :
    (∃ n, (recv depth s chunk).2 = .protocolError n) ∧ (recv depth s chunk).1 = s := by
  simp [recv, h]

theorem notificationFor_cases (r : Role) (u n : Bool) :
    (r = .server → notificationFor r u n = .notice ∨ notificationFor r u n = .none) ∧
    (r = .client → notificationFor r u n = .unbind ∨ notificationFor r u n = .none) := by
  cases r <;> cases u <;> cases n <;> simp [notificationFor]

theorem recv_notification (depth : Nat) (s : Sess) (chunk : Bytes) (n : Notification)
    (h : (recv depth s chunk).2 = .protocolError n) :
    (s.role = .server → n = .notice ∨ n = .none) ∧ (s.role = .client → n = .unbind ∨ n = .none) := by
  rcases recv_cases depth s chunk with ⟨hc, h'⟩ | ⟨_, e, _, h'⟩ | ⟨hs, ms, rest, _, h'⟩
  · rw [h'] at h; injection h with h; subst h; exact notificationFor_cases _ _ _
  · rw [h'] at h; injection h with h; subst h; exact notificationFor_cases _ _ _
  · rcases h' with ⟨s2, _, h'⟩ | ⟨s2, u, n', _, h'⟩ | ⟨s2, _, h'⟩
    · rw [h'] at h; cases h
    · rw [h'] at h; injection h with h; subst h; exact notificationFor_cases _ _ _
    · rw [h'] at h; cases h

/-! ### C02 -/

theorem decMsg_prefix_notEnough (regs : Regs) (depth : Nat) (m : Msg) (p : Bytes)
    (hp : p <+: encMsg m) (hlt : p.length < (encMsg m).length) :
    decMsg regs depth p = .error .notEnough := by
  obtain ⟨q, hq⟩ := hp
  have hq0 : q ≠ [] := by
    intro h; rw [h, List.append_nil] at hq; rw [hq] at hlt; omega
  rw [decMsg_notEnough_iff]
  obtain ⟨c, hfull⟩ : ∃ c, readTLV (some tSeq) (p ++ q) = .ok (c, []) := by
    rw [hq]; exact ⟨_, readTLV_some' tSeq _ readable_tSeq⟩
  rcases readTLV_prefix _ _ _ _ _ hfull with h | ⟨r', _, h⟩
  · exact h
  · exfalso
    have := (List.append_eq_nil_iff.1 h.symm).2
    exact hq0 this

theorem feed_eq_recv (depth : Nat) (s : Sess) (chunks : List Bytes) (ms : List Msg)
    (hb : IsBytes (s.residue ++ chunks.flatten)) (hne : chunks ≠ [])
    (h : (recv depth s chunks.flatten).2 = .msgs ms) :
    feed depth s chunks = ((recv depth s chunks.flatten).1, ms, none) := by
  clear hb
  induction chunks generalizing s ms with
  | nil => exact absurd rfl hne
  | cons c cs ih =>
    have h' := recv_msgs_of_snd _ _ _ _ h
    cases cs with
    | nil =>
      simp only [List.flatten_cons, List.flatten_nil, List.append_nil] at h' ⊢
      rw [feed_cons_msgs _ _ _ _ _ _ h']
      simp [feed]
    | cons c' cs' =>
      rw [List.flatten_cons] at h' ⊢
      obtain ⟨s1, ms1, ms2, h1, h2, rfl⟩ := recv_split _ _ _ _ _ _ h'
      have hih := ih s1 ms2 (by simp) (by rw [h2])
      rw [feed_cons_msgs _ _ _ _ _ _ h1, hih, h2]

theorem recv_eq_feed (depth : Nat) (s : Sess) (chunks : List Bytes)
    (hb : IsBytes (s.residue ++ chunks.flatten)) (hne : chunks ≠ [])
    (hok : (feed depth s chunks).2.2 = none) :
    recv depth s chunks.flatten = ((feed depth s chunks).1, .msgs (feed depth s chunks).2.1) := by
  clear hb
  induction chunks generalizing s with
  | nil => exact absurd rfl hne
  | cons c cs ih =>
    obtain ⟨ms, hr, hok1⟩ := feed_cons_ok _ _ _ _ hok
    rw [feed_cons_msgs _ _ _ _ _ _ hr]
    cases cs with
    | nil =>
      simp only [List.flatten_cons, List.flatten_nil, List.append_nil, feed]
      rw [hr]
    | cons c' cs' =>
      have hih := ih (recv depth s c).1 (by simp) hok1
      rw [List.flatten_cons]
      exact recv_join _ _ _ _ _ _ _ _ hr hih

theorem encMsg_ne_nil (m : Msg) : encMsg m ≠ [] := by
  simp [encMsg, packTLV, packHeader, packTag, tSeq, tagUniv]

theorem parseLoop_stream (regs : Regs) (depth : Nat) (ms : List Msg)
    (hwf : ∀ m ∈ ms, m.WF regs ∧ m.op.filterDepth < depth) :
    parseLoop regs depth ((ms.map encMsg).flatten).length ((ms.map encMsg).flatten)
      = .ok (ms.map fillRaw, []) := by
  induction ms with
  | nil => rfl
  | cons m ms ih =>
    have hm := hwf m (by simp)
    have ih' := ih (fun x hx => hwf x (by simp [hx]))
    simp only [List.map_cons, List.flatten_cons]
    have hne : ¬ (encMsg m ++ (ms.map encMsg).flatten).isEmpty = true := by
      simp only [List.isEmpty_iff, List.append_eq_nil_iff, not_and]
      intro h; exact absurd h (encMsg_ne_nil m)
    rw [parseLoop_eq _ _ _ _ (Nat.le_refl _), if_neg hne, decMsg_encMsg regs m _ depth hm.1 hm.2]
    simp only [ih']

end Verif.Proofs
