/-
Proofs for `Props/C08More.lean`: the history refinement with the deviation hypothesis asked
only along the run, the unconditional refinement modulo BEFORE_OPEN ≈ OPENED, and the
`receive`-level versions of "a bind needs an idle server" and "CLOSED accepts nothing".
-/
import Verif.Spec.C08More
import Verif.Spec.Joint
import Verif.Proofs.Session
import Verif.Proofs.Recv

namespace Verif.Proofs.C08More
open Verif Verif.Proofs Verif.C08

set_option linter.unusedVariables false

/-! ### the deviation predicate, three spellings -/

theorem knownDev_iff (s : Sess) (c : Call) : KnownDev s c ↔ Proofs.KnownDeviation s c := Iff.rfl

theorem run_cons_fst (s : Sess) (c : Call) (cs : List Call) :
    (run s (c :: cs)).1 = (run (step s c).1 cs).1 := rfl

theorem historyEvents_cons (s : Sess) (c : Call) (cs : List Call) :
    historyEvents s (c :: cs) = events s c (step s c).2 ++ historyEvents (step s c).1 cs := rfl

/-- the split form of "along the run" is the recursive form -/
theorem along_iff (s : Sess) (cs : List Call) :
    (∀ pre c post, cs = pre ++ c :: post → ¬KnownDev (run s pre).1 c) ↔ NoDeviationAlong s cs := by
  induction cs generalizing s with
  | nil =>
    constructor
    · intro _; trivial
    · intro _ pre c post h; simp at h
  | cons c cs ih =>
    constructor
    · intro h
      refine ⟨h [] c cs rfl, (ih (step s c).1).1 ?_⟩
      intro pre c' post hcs
      have := h (c :: pre) c' post (by rw [hcs]; rfl)
      rwa [run_cons_fst] at this
    · rintro ⟨h0, h1⟩ pre c' post hcs
      cases pre with
      | nil =>
        simp only [List.nil_append, List.cons.injEq] at hcs
        obtain ⟨rfl, _⟩ := hcs
        exact h0
      | cons p pre =>
        simp only [List.cons_append, List.cons.injEq] at hcs
        obtain ⟨rfl, hcs⟩ := hcs
        rw [run_cons_fst]
        exact (ih (step s c).1).2 h1 pre c' post hcs

/-! ### 1. refinement along the run -/

theorem run_refines_along (s : Sess) (cs : List Call) (hr : Reachable s)
    (hx : NoDeviationAlong s cs) :
    (run s cs).1.state = (historyEvents s cs).foldl specNext s.state := by
  induction cs generalizing s with
  | nil => rfl
  | cons c cs ih =>
    obtain ⟨h0, h1⟩ := hx
    rw [run_cons_fst, historyEvents_cons, List.foldl_append, ← step_refines s c hr h0]
    exact ih (step s c).1 (Reachable.step s c hr) h1

theorem refines_history' (s : Sess) (cs : List Call) (hr : Reachable s)
    (hx : ∀ pre c post, cs = pre ++ c :: post → ¬KnownDev (run s pre).1 c) :
    (run s cs).1.state = (historyEvents s cs).foldl specNext s.state :=
  run_refines_along s cs hr ((along_iff s cs).1 hx)

/-- the old hypothesis (all reachable states) implies the new one, so the new theorem is at
    least as strong as `refines_history` -/
theorem along_of_all (s : Sess) (cs : List Call) (hr : Reachable s)
    (hx : ∀ s' c, Reachable s' → c ∈ cs → ¬KnownDev s' c) : NoDeviationAlong s cs := by
  induction cs generalizing s with
  | nil => trivial
  | cons c cs ih =>
    exact ⟨hx s c hr (List.mem_cons_self ..),
      ih (step s c).1 (Reachable.step s c hr) (fun s' c' hr' hm => hx s' c' hr' (List.mem_cons_of_mem _ hm))⟩

/-! ### 2. refinement without any deviation hypothesis -/

/-- from OPENED and from BEFORE_OPEN the documented automaton agrees after the first event -/
theorem specNext_opened_beforeOpen (e : Ev) : specNext .opened e = specNext .beforeOpen e := by
  cases e <;> rfl

theorem foldl_opened_beforeOpen (evs : List Ev) :
    evs.foldl specNext .opened = evs.foldl specNext .beforeOpen ∨
      (evs = [] ∧ evs.foldl specNext .opened = .opened ∧ evs.foldl specNext .beforeOpen = .beforeOpen) := by
  cases evs with
  | nil => exact Or.inr ⟨rfl, rfl, rfl⟩
  | cons e evs => left; simp only [List.foldl_cons, specNext_opened_beforeOpen]

/-- the model's state and the automaton's state are equal, or the model is one refused server
    response ahead (OPENED where the documentation still says BEFORE_OPEN) -/
def Ahead (s : Sess) (st : SState) : Prop :=
  s.state = st ∨ (s.role = .server ∧ s.state = .opened ∧ st = .beforeOpen)

theorem step_ahead (s : Sess) (c : Call) (st : SState) (hr : Reachable s) (h : Ahead s st) :
    Ahead (step s c).1 ((events s c (step s c).2).foldl specNext st) := by
  rcases h with h | ⟨hrole, ho, hb⟩
  · subst h
    by_cases hx : Proofs.KnownDeviation s c
    · have hk := known_deviation s c hx
      obtain ⟨hrole, hb, hc, hout⟩ := hx
      have hev : events s c (step s c).2 = [] :=
        events_refused (isSend_of_respId hc) (by rw [hout]; rfl)
      right
      refine ⟨by rw [step_role]; exact hrole, hk.1, ?_⟩
      rw [hev]; exact hb
    · left; exact step_refines s c hr hx
  · have hx : ¬Proofs.KnownDeviation s c := fun hk => by
      have := hk.2.1; rw [ho] at this; cases this
    have href := step_refines s c hr hx
    rw [ho] at href
    subst hb
    rcases foldl_opened_beforeOpen (events s c (step s c).2) with he | ⟨_, h1, h2⟩
    · left; rw [href, he]
    · right
      exact ⟨by rw [step_role]; exact hrole, by rw [href, h1], h2⟩

theorem run_ahead (s : Sess) (cs : List Call) (st : SState) (hr : Reachable s) (h : Ahead s st) :
    Ahead (run s cs).1 ((historyEvents s cs).foldl specNext st) := by
  induction cs generalizing s st with
  | nil => exact h
  | cons c cs ih =>
    rw [run_cons_fst, historyEvents_cons, List.foldl_append]
    exact ih (step s c).1 _ (Reachable.step s c hr) (step_ahead s c st hr h)

theorem run_role (s : Sess) (cs : List Call) : (run s cs).1.role = s.role := by
  induction cs generalizing s with
  | nil => rfl
  | cons c cs ih => rw [run_cons_fst, ih, step_role]

theorem refines_history_exact (s : Sess) (cs : List Call) (hr : Reachable s) :
    (run s cs).1.state = (historyEvents s cs).foldl specNext s.state ∨
      (s.role = .server ∧ (run s cs).1.state = .opened ∧
        (historyEvents s cs).foldl specNext s.state = .beforeOpen) := by
  rcases run_ahead s cs s.state hr (Or.inl rfl) with h | ⟨h1, h2, h3⟩
  · exact Or.inl h
  · exact Or.inr ⟨by rw [← run_role s cs]; exact h1, h2, h3⟩

theorem refines_history_mod (s : Sess) (cs : List Call) (hr : Reachable s) :
    Joint.stateClass (run s cs).1.state =
      Joint.stateClass ((historyEvents s cs).foldl specNext s.state) := by
  rcases refines_history_exact s cs hr with h | ⟨_, h2, h3⟩
  · rw [h]
  · rw [h2, h3]; rfl

/-- the quotient identifies exactly BEFORE_OPEN and OPENED -/
theorem stateClass_eq_iff (a b : SState) :
    Joint.stateClass a = Joint.stateClass b ↔
      a = b ∨ (a = .beforeOpen ∧ b = .opened) ∨ (a = .opened ∧ b = .beforeOpen) := by
  cases a <;> cases b <;> simp [Joint.stateClass]

/-- a client never deviates: the refinement is exact for every client history -/
theorem refines_history_client (s : Sess) (cs : List Call) (hr : Reachable s) (hrole : s.role = .client) :
    (run s cs).1.state = (historyEvents s cs).foldl specNext s.state := by
  rcases refines_history_exact s cs hr with h | ⟨h1, _⟩
  · exact h
  · rw [hrole] at h1; cases h1

/-- nor does a server that has left BEFORE_OPEN -/
theorem refines_history_started (s : Sess) (cs : List Call) (hr : Reachable s)
    (hb : s.state ≠ .beforeOpen) :
    (run s cs).1.state = (historyEvents s cs).foldl specNext s.state := by
  rcases refines_history_exact s cs hr with h | ⟨_, _, h3⟩
  · exact h
  · exfalso
    have : ∀ (evs : List Ev) (st : SState), st ≠ .beforeOpen → evs.foldl specNext st ≠ .beforeOpen := by
      intro evs
      induction evs with
      | nil => intro st h; exact h
      | cons e evs ih =>
        intro st h
        rw [List.foldl_cons]
        exact ih _ (by cases st <;> cases e <;> simp_all [specNext])
    exact this _ _ hb h3

/-! ### 3a. a server that is delivered a bind request while busy -/

theorem setInsert_ne_nil (x : Int) (l : List Int) : setInsert x l ≠ [] := by
  intro h
  have : x ∈ setInsert x l := mem_setInsert.2 (Or.inl rfl)
  rw [h] at this
  cases this

theorem serverProcess_some {s s1 : Sess} {m : Msg} (h : serverProcess s m = some s1) :
    s1.role = s.role ∧ s1.outstanding ≠ [] := by
  rw [serverProcess_eq] at h
  split at h
  · simp only [Option.some.injEq] at h
    subst h
    exact ⟨rfl, setInsert_ne_nil _ _⟩
  · cases h

/-- the delivery loop of a server fails at or before a bind request that finds operations
    outstanding (those of earlier deliveries, or of earlier messages of this one) -/
theorem processLoop_server_bind (pre : List Msg) (m : Msg) (post : List Msg) :
    ∀ s : Sess, s.role = .server → IsBindRequest m → (s.outstanding ≠ [] ∨ pre ≠ []) →
      ∃ s2 u n, processLoop s (pre ++ m :: post) = .protoErr s2 u n ∧
        ((∀ x ∈ pre, x.op.isUnbind = false) → u = false) := by
  induction pre with
  | nil =>
    intro s hrole hb ho
    have ho' : s.outstanding ≠ [] := by
      rcases ho with h | h
      · exact h
      · exact absurd rfl h
    obtain ⟨s', h⟩ := Proofs.server_bind_needs_idle s m post hrole ho' hb
    exact ⟨s', false, false, h, fun _ => rfl⟩
  | cons x pre ih =>
    intro s hrole hb _
    rw [List.cons_append, processLoop_cons]
    by_cases hn : x.op.isNotice = true
    · rw [if_pos hn]; exact ⟨s, false, true, rfl, fun _ => rfl⟩
    · rw [if_neg hn]
      by_cases hu : x.op.isUnbind = true
      · rw [if_pos hu]
        refine ⟨s, true, false, rfl, fun h => ?_⟩
        have := h x (List.mem_cons_self ..)
        rw [hu] at this; cases this
      · rw [if_neg hu, hrole]
        cases hp : serverProcess s x with
        | none => exact ⟨s, false, false, rfl, fun _ => rfl⟩
        | some s1 =>
          obtain ⟨hr1, ho1⟩ := serverProcess_some hp
          obtain ⟨s2, u, n, h, hu'⟩ := ih s1 (hr1.trans hrole) hb (Or.inl ho1)
          exact ⟨s2, u, n, h, fun hall => hu' (fun y hy => hall y (List.mem_cons_of_mem _ hy))⟩

theorem recv_server_bind_needs_idle (d : Nat) (s : Sess) (chunk : Bytes) (ms : List Msg) (rest : Bytes)
    (pre : List Msg) (m : Msg) (post : List Msg)
    (hrole : s.role = .server) (hs : s.state ≠ .closed)
    (hp : parseLoop s.regs d (s.residue ++ chunk).length (s.residue ++ chunk) = .ok (ms, rest))
    (hms : ms = pre ++ m :: post) (hb : IsBindRequest m)
    (ho : s.outstanding ≠ [] ∨ pre ≠ []) :
    (∃ n, (recv d s chunk).2 = .protocolError n) ∧
      ((∀ x ∈ pre, x.op.isUnbind = false) → (recv d s chunk).2 = .protocolError .notice) ∧
      (recv d s chunk).1.state = .closed ∧ (recv d s chunk).1.outstanding = [] ∧
      (recv d s chunk).1.out = s.out ∧ (recv d s chunk).1.residue = rest := by
  subst hms
  obtain ⟨s2, u, n, hl, hu⟩ :=
    processLoop_server_bind pre m post { s with residue := rest } hrole hb ho
  have hfr := processLoop_frame { s with residue := rest } (pre ++ m :: post)
  rw [hl] at hfr
  obtain ⟨_, hout, _, hres, _⟩ := hfr
  have hrecv : recv d s chunk = (closeSess s2, .protocolError (notificationFor s.role u n)) := by
    simp only [recv, hs, if_false, hp, hl]
  rw [hrecv]
  refine ⟨⟨_, rfl⟩, ?_, rfl, rfl, ?_, ?_⟩
  · intro hall
    rw [hu hall, hrole]
    rfl
  · exact hout
  · exact hres

theorem fillRaw_bind {m : Msg} (hb : IsBindRequest m) : IsBindRequest (fillRaw m) := hb

/-- wire form: the delivery is the encoding of well-formed messages -/
theorem recv_server_bind_wire (d : Nat) (s : Sess) (pre : List Msg) (m : Msg) (post : List Msg)
    (hrole : s.role = .server) (hs : s.state ≠ .closed) (hres : s.residue = [])
    (hwf : ∀ x ∈ pre ++ m :: post, x.WF s.regs ∧ x.op.filterDepth < d)
    (hb : IsBindRequest m) (ho : s.outstanding ≠ [] ∨ pre ≠ []) :
    let r := recv d s (((pre ++ m :: post).map encMsg).flatten)
    (∃ n, r.2 = .protocolError n) ∧
      ((∀ x ∈ pre, x.op.isUnbind = false) → r.2 = .protocolError .notice) ∧
      r.1.state = .closed ∧ r.1.outstanding = [] ∧ r.1.out = s.out ∧ r.1.residue = [] := by
  intro r
  have hp := parseLoop_stream s.regs d (pre ++ m :: post) hwf
  have hp' : parseLoop s.regs d (s.residue ++ ((pre ++ m :: post).map encMsg).flatten).length
      (s.residue ++ ((pre ++ m :: post).map encMsg).flatten)
        = .ok ((pre ++ m :: post).map fillRaw, []) := by
    rw [hres, List.nil_append]; exact hp
  have hms : (pre ++ m :: post).map fillRaw = pre.map fillRaw ++ fillRaw m :: post.map fillRaw := by
    simp
  have ho' : s.outstanding ≠ [] ∨ pre.map fillRaw ≠ [] := by
    rcases ho with h | h
    · exact Or.inl h
    · right; intro h'; exact h (List.map_eq_nil_iff.1 h')
  obtain ⟨h1, h2, h3⟩ := recv_server_bind_needs_idle d s _ _ _ _ _ _ hrole hs hp' hms (fillRaw_bind hb) ho'
  refine ⟨h1, fun hall => h2 ?_, h3⟩
  intro x hx
  obtain ⟨y, hy, rfl⟩ := List.mem_map.1 hx
  exact hall y hy

/-! ### 3b. `receive` on a CLOSED session -/

theorem notificationFor_closed (r : Role) : notificationFor r false false = closedNotification r := by
  cases r <;> rfl

theorem recv_closed_exact (d : Nat) (s : Sess) (chunk : Bytes) (h : s.state = .closed) :
    recv d s chunk = (s, .protocolError (closedNotification s.role)) := by
  simp [recv, h, notificationFor_closed]

theorem step_receive_closed (s : Sess) (chunk : Bytes) (h : s.state = .closed) :
    step s (.receive chunk) = (s, .protocolError (closedNotification s.role)) :=
  recv_closed_exact defaultDepth s chunk h

/-- once closed, a whole history changes nothing but (by draining) the unsent bytes and (by
    registering) the packing options -/
theorem closed_step_frame (s : Sess) (c : Call) (h : s.state = .closed) :
    (step s c).1.state = .closed ∧ (step s c).1.outstanding = s.outstanding ∧
      (step s c).1.searches = s.searches ∧ (step s c).1.residue = s.residue ∧
      (step s c).1.counter = s.counter ∧ (∃ k, (step s c).1.out = s.out.drop k) := by
  by_cases hs : c.isSend = true
  · rcases closed_send s c h hs with h' | h' <;> rw [h'] <;> exact ⟨h, rfl, rfl, rfl, rfl, 0, rfl⟩
  · cases c <;> simp [Call.isSend] at hs
    case receive chunk =>
      rw [step_receive_closed s chunk h]; exact ⟨h, rfl, rfl, rfl, rfl, 0, rfl⟩
    case drain a => exact ⟨h, rfl, rfl, rfl, rfl, _, rfl⟩
    case register k =>
      cases k <;> simp only [step] <;> split <;> exact ⟨h, rfl, rfl, rfl, rfl, 0, rfl⟩

theorem closed_run_frame (s : Sess) (cs : List Call) (h : s.state = .closed) :
    (run s cs).1.state = .closed ∧ (run s cs).1.outstanding = s.outstanding ∧
      (run s cs).1.searches = s.searches ∧ (run s cs).1.residue = s.residue ∧
      (run s cs).1.counter = s.counter ∧ (∃ k, (run s cs).1.out = s.out.drop k) := by
  induction cs generalizing s with
  | nil => exact ⟨h, rfl, rfl, rfl, rfl, 0, rfl⟩
  | cons c cs ih =>
    obtain ⟨a1, a2, a3, a4, a5, k1, a6⟩ := closed_step_frame s c h
    obtain ⟨b1, b2, b3, b4, b5, k2, b6⟩ := ih (step s c).1 a1
    rw [run_cons_fst]
    refine ⟨b1, b2.trans a2, b3.trans a3, b4.trans a4, b5.trans a5, k1 + k2, ?_⟩
    rw [b6, a6, List.drop_drop]

end Verif.Proofs.C08More
