/-
Composition of the per-function tie proofs: `_validate_tag`, `_read_asn1_integer`,
`_read_asn1_boolean` on top of the tie of `_read_asn1_header`; `_pack_asn1_integer` on top of `_pack_asn1`.
-/
import Verif.Proofs.Asn1GenPack
import Verif.Proofs.Asn1GenPackInt
import Verif.Proofs.Asn1GenValidate
import Verif.Proofs.Asn1GenHeader
import Verif.Proofs.Asn1GenReadInt

namespace Verif.Proofs.Asn1Gen

open Verif Verif.PyRt Verif.Asn1Gen

/-- (value, remaining bytes) of the model as (value, octets consumed) of the code -/
def consumedOfV {α : Type} (bs : List Nat) (r : α × List Nat) : α × Int :=
  (r.1, ((bs.length - r.2.length : Nat) : Int))

/-! ### writers -/

theorem pack_asn1_integer_eq (fuel : Nat) (v : Int) (t : Tag) (hc : t.cls ≤ 3) (hnum : t.num < fuel)
    (hv : v.natAbs + 2 < fuel) (hlen : (intContent v).length < 256 ^ 127) :
    pack_asn1_integer fuel v (some (ofTag t)) = .ok (packInt v t) := by
  rw [pack_asn1_integer_eq_pack fuel v _ (by omega)]
  have := intContent_length_le v
  exact pack_asn1_ofTag fuel t (intContent v) hc hnum (by omega) hlen

theorem pack_asn1_integer_default (fuel : Nat) (v : Int)
    (hv : v.natAbs + 2 < fuel) (hlen : (intContent v).length < 256 ^ 127) :
    pack_asn1_integer fuel v none = .ok (packInt v) := by
  rw [pack_asn1_integer_eq_pack fuel v _ (by omega)]
  have := intContent_length_le v
  exact pack_asn1_ofTag fuel tInt (intContent v) (by simp [tInt, tagUniv]) (by simp [tInt, tagUniv]; omega)
    (by omega) hlen

/-! ### readers -/

theorem validate_tag_eq (fuel : Nat) (bs : List Nat) (t : Tag) (hb : IsBytes bs) (hf : bs.length < fuel) :
    validate_tag fuel bs (ofTag t) none = (readTLV (some t) bs).map (consumedOf bs) :=
  validate_tag_eq_of fuel bs t (read_asn1_header_eq fuel bs hb hf)

/-- the INTEGER reader, given what `_validate_tag` computes for the selected tag -/
theorem read_asn1_integer_of (fuel : Nat) (bs : List Nat) (tag : Option ASN1Tag)
    (header : Option ASN1Header) (e : Option Tag) (hb : IsBytes bs)
    (hv : validate_tag fuel bs (selTag tag header 2) header = (readTLV e bs).map (consumedOf bs)) :
    read_asn1_integer fuel bs tag header = (readInt e bs).map (consumedOfV bs) := by
  simp only [readInt]
  cases hr : readTLV e bs with
  | error err =>
    rw [hr] at hv
    exact read_asn1_integer_of_validate_error fuel bs tag header err hv
  | ok r =>
    obtain ⟨c, rest⟩ := r
    rw [hr] at hv
    have hc : IsBytes c := readTLV_content_isBytes e bs c rest hb hr
    rw [read_asn1_integer_of_validate fuel bs tag header c _ hc hv]
    show _ = Except.map (consumedOfV bs)
      (match readIntContent c with | .error e => .error e | .ok v => .ok (v, rest))
    cases readIntContent c with
    | error err => rfl
    | ok v => rfl

theorem read_asn1_boolean_of (fuel : Nat) (bs : List Nat) (tag : Option ASN1Tag)
    (header : Option ASN1Header) (e : Option Tag)
    (hv : validate_tag fuel bs (selTag tag header 1) header = (readTLV e bs).map (consumedOf bs)) :
    read_asn1_boolean fuel bs tag header = (readBool e bs).map (consumedOfV bs) := by
  rw [read_asn1_boolean_of_validate, hv]
  simp only [readBool]
  cases readTLV e bs with
  | error err => rfl
  | ok r => rfl

end Verif.Proofs.Asn1Gen
