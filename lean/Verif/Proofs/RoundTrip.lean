/-
C01 round trip: `decMsg (encMsg m ++ rest) = (fillRaw m, rest)` for every well-formed message.

Parts: `RoundTripBase` (readers on a written TLV, the generic loop), `RoundTripFilter`
(filters), `RoundTripOps` (credentials, controls, results, operations); this file assembles
the envelope.  Core Lean only.  The values of the generated constants enter only through the
`*_distinct` / `*_text` / `knownOp_opTag` lemmas at the top of the part files.
-/
import Verif.Proofs.RoundTripOps

namespace Verif.Proofs

open Verif

theorem decContents_enc (regs : Regs) (m : Msg) (depth : Nat) (h : m.WF regs)
    (hd : m.op.filterDepth < depth) :
    decContents regs depth
      (packInt m.id ++ packTLV (tagApp (opTag m.op) true) (encOp m.op)
        ++ (if m.controls.isEmpty then [] else
              packTLV (tagCtx 0 true) (m.controls.map encControl).flatten))
      = .ok (fillRaw m) := by
  obtain ⟨id, op, controls⟩ := m
  obtain ⟨hop, hcs⟩ := h
  simp only at hop hcs hd
  simp only [decContents, packInt_eq, List.append_assoc, readInt_some _ _ _ readable_tInt,
    readHeader_packTLV _ _ _ (readable_app _ true), readTLV_none _ _ _ (readable_app _ true),
    tagApp_cls, tagApp_num, knownOp_opTag, decEnvelope_enc regs controls hcs _ (Nat.le_refl _),
    decOp_enc regs depth op hop hd, bind, Except.bind]
  simp only [ne_eq, not_true_eq_false, ↓reduceIte, Bool.not_true, Bool.false_eq_true, fillRaw]
  rfl

theorem decMsg_encMsg (regs : Regs) (m : Msg) (rest : Bytes) (depth : Nat) (h : m.WF regs)
    (hd : m.op.filterDepth < depth) :
    decMsg regs depth (encMsg m ++ rest) = .ok (fillRaw m, rest) := by
  simp only [decMsg, encMsg, readTLV_some _ _ _ readable_tSeq, decContents_enc regs m depth h hd]

/-! ### `fillRaw` -/

theorem encControl_fillRaw (c : Control) : encControl (fillRawControl c) = encControl c := by
  cases c <;> rfl

theorem fillRawControl_idem (c : Control) : fillRawControl (fillRawControl c) = fillRawControl c := by
  cases c <;> rfl

theorem encMsg_fillRaw (m : Msg) : encMsg (fillRaw m) = encMsg m := by
  simp [encMsg, fillRaw, List.map_map, Function.comp_def, encControl_fillRaw]

theorem fillRaw_idem (m : Msg) : fillRaw (fillRaw m) = fillRaw m := by
  simp [fillRaw, List.map_map, Function.comp_def, fillRawControl_idem]

end Verif.Proofs
