/-
Helper lemmas for C07: the INTEGER content writer (`intContent`) and reader
(`readIntContent`) against the arithmetic oracle `twos` / `Minimal`.
Core Lean only.
-/
import Verif.Model.Ber
import Verif.Spec.Twos

namespace Verif.Proofs

open Verif

/-- decidable equality on reader results, so that concrete instances of the round-trip
    properties (the non-vacuity examples in `Props/C07.lean`) can be closed by `decide` -/
instance instDecidableEqExcept {ε α : Type} [DecidableEq ε] [DecidableEq α] :
    DecidableEq (Except ε α)
  | .ok a, .ok b =>
    if h : a = b then isTrue (by rw [h])
    else isFalse (by intro h'; injection h' with h'; exact h h')
  | .error a, .error b =>
    if h : a = b then isTrue (by rw [h])
    else isFalse (by intro h'; injection h' with h'; exact h h')
  | .ok _, .error _ => isFalse (by intro h; cases h)
  | .error _, .ok _ => isFalse (by intro h; cases h)

/-! ### `IsBytes` plumbing -/

theorem isBytes_nil : IsBytes [] := by intro b hb; cases hb

theorem isBytes_cons {b : Nat} {l : Bytes} : IsBytes (b :: l) ↔ b < 256 ∧ IsBytes l := by
  simp [IsBytes]

theorem isBytes_append {a b : Bytes} : IsBytes (a ++ b) ↔ IsBytes a ∧ IsBytes b := by
  simp only [IsBytes, List.mem_append]
  exact ⟨fun h => ⟨fun x hx => h x (Or.inl hx), fun x hx => h x (Or.inr hx)⟩,
    fun h x hx => hx.elim (h.1 x) (h.2 x)⟩

theorem isBytes_reverse {a : Bytes} : IsBytes a.reverse ↔ IsBytes a := by
  simp [IsBytes]

/-! ### little-endian value in base `B`, and its relation to `beVal` / `beNat` -/

/-- little-endian value of a digit list in base `B` -/
def leB (B : Nat) : List Nat → Nat
  | [] => 0
  | b :: bs => b + B * leB B bs

theorem beVal_append (B : Nat) (a b : List Nat) (acc : Nat) :
    beVal B (a ++ b) acc = beVal B b (beVal B a acc) := by
  induction a generalizing acc with
  | nil => rfl
  | cons x xs ih => simp [beVal, ih]

theorem beVal_reverse (B : Nat) (l : List Nat) : beVal B l.reverse 0 = leB B l := by
  induction l with
  | nil => rfl
  | cons x xs ih =>
    simp only [List.reverse_cons, beVal_append, ih, beVal, leB]
    rw [Nat.mul_comm, Nat.add_comm]

theorem beVal_acc (ds : Bytes) (acc : Nat) :
    beVal 256 ds acc = acc * 256 ^ ds.length + beNat ds := by
  induction ds generalizing acc with
  | nil => simp [beVal, beNat]
  | cons x xs ih =>
    simp only [beVal, ih, beNat, List.length_cons, Nat.pow_succ]
    rw [Nat.add_mul, Nat.mul_assoc, Nat.mul_comm (256 ^ xs.length) 256, Nat.add_assoc]

theorem beVal_eq_beNat (ds : Bytes) : beVal 256 ds 0 = beNat ds := by
  simp [beVal_acc]

theorem beNat_reverse (l : Bytes) : beNat l.reverse = leB 256 l := by
  rw [← beVal_eq_beNat, beVal_reverse]

theorem leB_reverse (l : Bytes) : leB 256 l.reverse = beNat l := by
  rw [← beNat_reverse, List.reverse_reverse]

theorem beNat_lt (l : Bytes) (hb : IsBytes l) : beNat l < 256 ^ l.length := by
  induction l with
  | nil => simp [beNat]
  | cons x xs ih =>
    have hx := (isBytes_cons.1 hb).1
    have := ih (isBytes_cons.1 hb).2
    simp only [beNat, List.length_cons, Nat.pow_succ]
    have : x * 256 ^ xs.length ≤ 255 * 256 ^ xs.length := Nat.mul_le_mul_right _ (by omega)
    generalize 256 ^ xs.length = P at *
    omega

theorem leB_lt (l : Bytes) (hb : IsBytes l) : leB 256 l < 256 ^ l.length := by
  have := beNat_lt l.reverse (isBytes_reverse.2 hb)
  rwa [beNat_reverse, List.length_reverse] at this

/-! ### the add-one-with-carry pass -/

theorem addOneLE_length (l : List Nat) : (addOneLE l).length = l.length := by
  induction l with
  | nil => rfl
  | cons b bs ih =>
    simp only [addOneLE]; split <;> simp [ih]

theorem addOneLE_isBytes (l : Bytes) (hb : IsBytes l) : IsBytes (addOneLE l) := by
  induction l with
  | nil => exact hb
  | cons b bs ih =>
    have h := isBytes_cons.1 hb
    simp only [addOneLE]
    split
    · exact isBytes_cons.2 ⟨by omega, h.2⟩
    · exact isBytes_cons.2 ⟨by omega, ih h.2⟩

theorem leB_addOneLE (l : Bytes) (hb : IsBytes l) (h : leB 256 l + 1 < 256 ^ l.length) :
    leB 256 (addOneLE l) = leB 256 l + 1 := by
  induction l with
  | nil => simp [leB] at h
  | cons b bs ih =>
    have hb' := isBytes_cons.1 hb
    simp only [addOneLE]
    by_cases hlt : b < 255
    · simp only [hlt, ↓reduceIte, leB]; omega
    · have hb255 : b = 255 := by omega
      subst hb255
      simp only [leB, List.length_cons, Nat.pow_succ] at h
      have h' : leB 256 bs + 1 < 256 ^ bs.length := by
        generalize 256 ^ bs.length = P at *; omega
      simp only [hlt, ↓reduceIte, leB, ih hb'.2 h']; omega

/-! ### the emit loop -/

/-- positive case: bytes, value, and the magnitude window that fixes the length -/
theorem intEmit_pos : ∀ (f v : Nat), v < 128 * 256 ^ f →
    IsBytes (intEmit false 127 f v) ∧ leB 256 (intEmit false 127 f v) = v ∧
    ∃ k, (intEmit false 127 f v).length = k + 1 ∧ v < 128 * 256 ^ k ∧
      ∀ j, k = j + 1 → 128 * 256 ^ j ≤ v := by
  intro f; induction f with
  | zero =>
    intro v h
    simp only [Nat.pow_zero, Nat.mul_one] at h
    simp only [intEmit, ↓reduceIte, Bool.false_eq_true, leB, List.length_cons, List.length_nil]
    refine ⟨?_, ?_, 0, ?_, ?_, ?_⟩
    · intro b hb; simp at hb; omega
    · omega
    · rfl
    · omega
    · omega
  | succ f ih =>
    intro v h
    rw [Nat.pow_succ] at h
    simp only [intEmit]
    by_cases hv : v > 127
    · have hlt : v / 256 < 128 * 256 ^ f := by
        generalize 256 ^ f = p at *; omega
      obtain ⟨ihb, ihv, k, ihl, ihu, ihlo⟩ := ih _ hlt
      clear h hlt ih
      simp only [hv, ↓reduceIte, Bool.false_eq_true]
      refine ⟨isBytes_cons.2 ⟨by omega, ihb⟩, ?_, k + 1, ?_, ?_, ?_⟩
      · simp only [leB, ihv]; omega
      · simp [ihl]
      · rw [Nat.pow_succ]; generalize 256 ^ k = p at ihu ⊢; omega
      · intro j hj
        have hj' : k = j := by omega
        subst hj'
        cases k with
        | zero => simp; omega
        | succ i =>
          have := ihlo i rfl
          rw [Nat.pow_succ]; generalize 256 ^ i = p at this ⊢; omega
    · simp only [hv, ↓reduceIte, Bool.false_eq_true]
      refine ⟨?_, ?_, 0, ?_, ?_, ?_⟩
      · intro b hb; simp at hb; omega
      · simp only [leB]; omega
      · rfl
      · omega
      · omega

/-- negative case, before the add-one pass: the digits are the complement of the digits of
    `m`, so their value is `256^len - 1 - m` -/
theorem intEmit_neg : ∀ (f m : Nat), m ≤ 128 * 256 ^ f →
    IsBytes (intEmit true 128 f m) ∧
    leB 256 (intEmit true 128 f m) + m + 1 = 256 ^ (intEmit true 128 f m).length ∧
    ∃ k, (intEmit true 128 f m).length = k + 1 ∧ m < 129 * 256 ^ k ∧
      ∀ j, k = j + 1 → 129 * 256 ^ j ≤ m := by
  intro f; induction f with
  | zero =>
    intro m h
    simp only [Nat.pow_zero, Nat.mul_one] at h
    simp only [intEmit, ↓reduceIte, leB, List.length_cons, List.length_nil]
    refine ⟨?_, ?_, 0, ?_, ?_, ?_⟩
    · intro b hb; simp at hb; omega
    · omega
    · rfl
    · omega
    · omega
  | succ f ih =>
    intro m h
    rw [Nat.pow_succ] at h
    simp only [intEmit]
    by_cases hv : m > 128
    · have hle : m / 256 ≤ 128 * 256 ^ f := by
        generalize 256 ^ f = p at *; omega
      obtain ⟨ihb, ihv, k, ihl, ihu, ihlo⟩ := ih _ hle
      clear h hle ih
      simp only [hv, ↓reduceIte]
      refine ⟨isBytes_cons.2 ⟨by omega, ihb⟩, ?_, k + 1, ?_, ?_, ?_⟩
      · simp only [leB, List.length_cons, Nat.pow_succ]
        generalize leB 256 (intEmit true 128 f (m / 256)) = L at *
        generalize 256 ^ (intEmit true 128 f (m / 256)).length = P at *
        omega
      · simp [ihl]
      · rw [Nat.pow_succ]; generalize 256 ^ k = p at ihu ⊢; omega
      · intro j hj
        have hj' : k = j := by omega
        subst hj'
        cases k with
        | zero => simp; omega
        | succ i =>
          have := ihlo i rfl
          rw [Nat.pow_succ]; generalize 256 ^ i = p at this ⊢; omega
    · simp only [hv, ↓reduceIte]
      refine ⟨?_, ?_, 0, ?_, ?_, ?_⟩
      · intro b hb; simp at hb; omega
      · simp only [leB, List.length_cons, List.length_nil]; omega
      · rfl
      · omega
      · omega

/-! ### `twos` / `Minimal` from arithmetic facts about a big-endian list -/

theorem int_pow_cast (n : Nat) : (256 : Int) ^ n = ((256 ^ n : Nat) : Int) := by
  rw [Int.natCast_pow]; rfl

/-- a byte list of length `n + 2` whose value does not fit in `n + 1` octets is minimal -/
theorem minimal_of_range (bs : Bytes) (hb : IsBytes bs) (n : Nat) (hlen : bs.length = n + 2)
    (h : (128 * 256 ^ n : Nat) ≤ twos bs ∨ twos bs < -((128 * 256 ^ n : Nat) : Int)) :
    Minimal bs := by
  match bs, hlen with
  | b0 :: b1 :: r, hlen =>
    have hr : r.length = n := by simpa using hlen
    have h0 := (isBytes_cons.1 hb).1
    have hb1 := isBytes_cons.1 (isBytes_cons.1 hb).2
    have hR := beNat_lt r hb1.2
    simp only [twos, beNat, List.length_cons, hr, int_pow_cast, Nat.pow_succ] at h
    simp only [Minimal]
    rw [hr] at hR
    have hlo : b1 < 128 → b1 * 256 ^ n ≤ 127 * 256 ^ n :=
      fun hh => Nat.mul_le_mul_right _ (by omega)
    have hhi : 128 ≤ b1 → 128 * 256 ^ n ≤ b1 * 256 ^ n :=
      fun hh => Nat.mul_le_mul_right _ hh
    have hhi2 : b1 * 256 ^ n ≤ 255 * 256 ^ n := Nat.mul_le_mul_right _ (by omega)
    generalize b1 * 256 ^ n = Q at *
    generalize 256 ^ n = P at *
    generalize beNat r = R at *
    refine ⟨?_, ?_⟩
    · rintro ⟨rfl, hlt⟩
      have := hlo hlt
      simp at h; omega
    · rintro ⟨rfl, hge⟩
      have := hhi hge
      simp at h; omega

/-- head octet of a big-endian byte list from its value -/
theorem head_bounds (b0 : Nat) (r : Bytes) (hb : IsBytes r) (lo hi : Nat)
    (hlo : lo * 256 ^ r.length ≤ beNat (b0 :: r)) (hhi : beNat (b0 :: r) < hi * 256 ^ r.length) :
    lo ≤ b0 ∧ b0 < hi := by
  have hR := beNat_lt r hb
  simp only [beNat] at hlo hhi
  constructor
  · apply Nat.le_of_not_lt; intro hlt
    have : (b0 + 1) * 256 ^ r.length ≤ lo * 256 ^ r.length := Nat.mul_le_mul_right _ hlt
    rw [Nat.add_mul] at this; omega
  · apply Nat.lt_of_not_le; intro hle
    have : hi * 256 ^ r.length ≤ b0 * 256 ^ r.length := Nat.mul_le_mul_right _ hle
    omega

theorem fuel_pos (v : Nat) : v < 128 * 256 ^ v := by
  have : v < 256 ^ v := Nat.lt_pow_self (by decide)
  omega

/-! ### the writer -/

theorem intContent_nonneg (n : Nat) :
    IsBytes (intEmit false 127 n n).reverse ∧
    twos (intEmit false 127 n n).reverse = (n : Int) ∧
    Minimal (intEmit false 127 n n).reverse := by
  obtain ⟨hb, hv, k, hl, hu, hlo⟩ := intEmit_pos n n (fuel_pos n)
  generalize intEmit false 127 n n = le at *
  have hbr : IsBytes le.reverse := isBytes_reverse.2 hb
  have hval : beNat le.reverse = n := by rw [beNat_reverse, hv]
  have hlr : le.reverse.length = k + 1 := by simp [hl]
  generalize le.reverse = bs at *
  match bs, hlr with
  | b0 :: r, hlr =>
    have hr : r.length = k := by simpa using hlr
    have hbr' := isBytes_cons.1 hbr
    have hhead := head_bounds b0 r hbr'.2 0 128 (by simp) (by rw [hval, hr]; exact hu)
    refine ⟨hbr, ?_, ?_⟩
    · have : ¬ 128 ≤ b0 := by omega
      simp [twos, this, hval]
    · cases k with
      | zero =>
        match r, hr with
        | [], _ => simp [Minimal]
      | succ j =>
        apply minimal_of_range _ hbr j (by simp [hr])
        left
        have : ¬ 128 ≤ b0 := by omega
        simp only [twos, this, ↓reduceIte, hval]
        exact_mod_cast hlo j rfl

theorem intContent_neg (m : Nat) (hm : 1 ≤ m) :
    let le := addOneLE (intEmit true 128 m m)
    let le' := if le.getLast? = some 127 then le ++ [255] else le
    IsBytes le'.reverse ∧ twos le'.reverse = -(m : Int) ∧ Minimal le'.reverse := by
  intro le le'
  obtain ⟨hb, hv, k, hl, hu, hlo⟩ := intEmit_neg m m (by have := fuel_pos m; omega)
  have hble : IsBytes le := addOneLE_isBytes _ hb
  have hlle : le.length = k + 1 := by simp [le, addOneLE_length, hl]
  have hvle : leB 256 le + m = 256 ^ (k + 1) := by
    have := leB_addOneLE _ hb (by omega)
    simp only [le, this]; rw [← hl]; omega
  clear_value le
  clear hb hv hl
  have hbr : IsBytes le.reverse := isBytes_reverse.2 hble
  have hval : beNat le.reverse + m = 256 ^ (k + 1) := by rw [beNat_reverse, hvle]
  have hlr : le.reverse.length = k + 1 := by simp [hlle]
  have hlast : le.getLast? = le.reverse.head? := by simp
  have hle' : le'.reverse = if le.reverse.head? = some 127 then 255 :: le.reverse else le.reverse := by
    simp only [le', hlast]; split <;> simp
  rw [hle']
  clear_value le'
  clear hle' hlast hble hvle hlle
  generalize le.reverse = bs at *
  match bs, hlr with
  | b0 :: r, hlr =>
    have hr : r.length = k := by simpa using hlr
    have hbr' := isBytes_cons.1 hbr
    rw [Nat.pow_succ] at hval
    have hhead := head_bounds b0 r hbr'.2 127 256
      (by rw [hr]; generalize 256 ^ k = P at *; omega)
      (by rw [hr]; generalize 256 ^ k = P at *; omega)
    simp only [List.head?_cons, Option.some.injEq]
    by_cases h127 : b0 = 127
    · subst h127
      simp only [↓reduceIte]
      refine ⟨isBytes_cons.2 ⟨by omega, hbr⟩, ?_, ?_⟩
      · simp only [twos, beNat, List.length_cons, hr, int_pow_cast, Nat.pow_succ]
        simp only [beNat, hr] at hval
        generalize 256 ^ k = P at *
        generalize beNat r = R at *
        simp; omega
      · simp [Minimal]
    · simp only [h127, ↓reduceIte]
      have hge : 128 ≤ b0 := by omega
      have htw : twos (b0 :: r) = -(m : Int) := by
        simp only [twos, hge, ↓reduceIte, List.length_cons, hr, int_pow_cast, Nat.pow_succ]
        generalize beNat (b0 :: r) = V at *
        generalize 256 ^ k = P at *
        omega
      refine ⟨hbr, htw, ?_⟩
      cases k with
      | zero =>
        match r, hr with
        | [], _ => simp [Minimal]
      | succ j =>
        apply minimal_of_range _ hbr j (by simp [hr])
        right
        rw [htw]
        have := hlo j rfl
        generalize 256 ^ j = P at *
        omega

theorem intContent_spec (v : Int) :
    IsBytes (intContent v) ∧ twos (intContent v) = v ∧ Minimal (intContent v) := by
  unfold intContent
  by_cases hv : v < 0
  · simp only [hv, ↓reduceIte]
    have h := intContent_neg v.natAbs (by omega)
    have hcast : -((v.natAbs : Nat) : Int) = v := by omega
    rw [hcast] at h
    exact h
  · simp only [hv, ↓reduceIte]
    have h := intContent_nonneg v.toNat
    have hcast : ((v.toNat : Nat) : Int) = v := by omega
    rw [hcast] at h
    exact h

/-! ### the reader -/

theorem beNat_complement (c : Bytes) (hb : IsBytes c) :
    beNat (c.map (fun b => 255 - b)) + beNat c + 1 = 256 ^ c.length := by
  induction c with
  | nil => simp [beNat]
  | cons x xs ih =>
    have h := isBytes_cons.1 hb
    have := ih h.2
    simp only [List.map_cons, beNat, List.length_map, List.length_cons, Nat.pow_succ]
    have e : (255 - x) * 256 ^ xs.length + x * 256 ^ xs.length = 255 * 256 ^ xs.length := by
      rw [← Nat.add_mul]; congr 1; omega
    generalize (255 - x) * 256 ^ xs.length = A at *
    generalize x * 256 ^ xs.length = B at *
    generalize 256 ^ xs.length = P at *
    omega

theorem readIntContent_eq_twos (c : Bytes) (hb : IsBytes c) (hne : c ≠ []) :
    readIntContent c = .ok (twos c) := by
  match c, hne with
  | b0 :: r, _ =>
    have hb' := isBytes_cons.1 hb
    simp only [readIntContent, twos]
    by_cases hge : 128 ≤ b0
    · simp only [hge, ↓reduceIte, Int.ofNat_eq_natCast]
      have hcomp := beNat_complement (b0 :: r) hb
      have hcb : IsBytes ((b0 :: r).map (fun b => 255 - b)) := by
        intro x hx
        simp only [List.mem_map] at hx
        obtain ⟨y, _, rfl⟩ := hx
        omega
      have hlow := (head_bounds b0 r hb'.2 128 256
        (by simp only [beNat]; exact Nat.le_add_right_of_le (Nat.mul_le_mul_right _ hge))
        (by have := beNat_lt _ hb; simpa [Nat.pow_succ, Nat.mul_comm] using this))
      have hge' : 128 * 256 ^ r.length ≤ beNat (b0 :: r) := by
        simp only [beNat]; exact Nat.le_add_right_of_le (Nat.mul_le_mul_right _ hge)
      generalize hcm : (b0 :: r).map (fun b => 255 - b) = comp at *
      have hcl : comp.length = r.length + 1 := by rw [← hcm]; simp
      have hinc : beVal 256 (addOneLE comp.reverse).reverse 0 = beNat comp + 1 := by
        rw [beVal_eq_beNat, beNat_reverse, leB_addOneLE _ (isBytes_reverse.2 hcb), leB_reverse]
        rw [leB_reverse, List.length_reverse, hcl]
        simp only [List.length_cons] at hcomp
        rw [Nat.pow_succ] at *
        generalize 256 ^ r.length = P at *
        omega
      rw [hinc]
      simp only [List.length_cons, int_pow_cast] at *
      congr 1
      omega
    · simp only [hge, ↓reduceIte, Int.ofNat_eq_natCast, beVal_eq_beNat]

end Verif.Proofs
