/-
Tie between the schema patterns and the scanner of `Model/Schema.lean`, part 6: assembly for
`ATTRIBUTE_TYPE_DESCRIPTION`.

Core Lean only.
-/
import Verif.Proofs.ReSchemaMatchTop

set_option linter.unusedSimpArgs false
set_option linter.unusedVariables false

namespace Verif.Proofs.SchemaTie
open Verif Verif.Re Verif.Proofs.ReCost Verif.Proofs.Small Verif.Proofs.SchemaRe Verif.TiesSchema

/-! ### the USAGE value -/

def uUser : List Nat := [117, 115, 101, 114, 65, 112, 112, 108, 105, 99, 97, 116, 105, 111, 110, 115]
def uDir : List Nat := [100, 105, 114, 101, 99, 116, 111, 114, 121, 79, 112, 101, 114, 97, 116, 105, 111, 110]
def uDist : List Nat := [100, 105, 115, 116, 114, 105, 98, 117, 116, 101, 100, 79, 112, 101, 114, 97, 116, 105, 111, 110]
def uDsa : List Nat := [100, 83, 65, 79, 112, 101, 114, 97, 116, 105, 111, 110]

def word4 (a b c d : List Nat) : Scan := fun s =>
  (Schema.lit a s).or ((Schema.lit b s).or ((Schema.lit c s).or (Schema.lit d s)))

theorem word4_det (P : List Nat → Bool) {a b c d : List Nat} (hab : clash a b = true) (hac : clash a c = true)
    (had : clash a d = true) (hbc : clash b c = true) (hbd : clash b d = true) (hcd : clash c d = true) :
    Det (Re.alt (kw a) (Re.alt (kw b) (Re.alt (kw c) (kw d)))) P (word4 a b c d) := by
  refine Det.alt (kw_det P a) (Det.alt (kw_det P b) (Det.alt (kw_det P c) (kw_det P d) (fun s hs => ?_))
    (fun s hs => ?_)) (fun s hs => ?_)
  · rw [lit_clash hcd hs]; rfl
  · rw [lit_clash hbc hs, lit_clash hbd hs]; rfl
  · rw [lit_clash hab hs, lit_clash hac hs, lit_clash had hs]; rfl

theorem usageBody_eq (t : List Nat) : Schema.usageBody t = word4 uUser uDir uDist uDsa t := by
  have e1 : Schema.ofString "userApplications" = uUser := by rfl
  have e2 : Schema.ofString "directoryOperation" = uDir := by rfl
  have e3 : Schema.ofString "distributedOperation" = uDist := by rfl
  have e4 : Schema.ofString "dSAOperation" = uDsa := by rfl
  have l1 : "userApplications".length = uUser.length := by rfl
  have l2 : "directoryOperation".length = uDir.length := by rfl
  have l3 : "distributedOperation".length = uDist.length := by rfl
  have l4 : "dSAOperation".length = uDsa.length := by rfl
  simp only [Schema.usageBody, List.find?_cons, List.find?_nil, e1, e2, e3, e4, word4, Schema.lit]
  cases h1 : List.isPrefixOf uUser t with
  | true => simp [l1]
  | false =>
    cases h2 : List.isPrefixOf uDir t with
    | true => simp [l2]
    | false =>
      cases h3 : List.isPrefixOf uDist t with
      | true => simp [l3]
      | false =>
        cases h4 : List.isPrefixOf uDsa t with
        | true => simp [l4]
        | false => simp

theorem usage_det : Det atUsage SR Schema.usageBody :=
  (word4_det SR (a := uUser) (b := uDir) (c := uDist) (d := uDsa) (by decide) (by decide) (by decide) (by decide)
    (by decide) (by decide)).congr (fun s => (usageBody_eq s).symm)

theorem oid_det_SR : Det oid SR Schema.oid := oid_det sr_noKey

/-! ### ATTRIBUTE_TYPE_DESCRIPTION -/

namespace AT

def k12 : Re := tailEndG 66 68
def k11 : Re := .cat (gKwG [85, 83, 65, 71, 69] 65 atUsage) k12
def k10 : Re := .cat (gFlagG [78, 79, 45, 85, 83, 69, 82, 45, 77, 79, 68, 73, 70, 73, 67, 65, 84, 73, 79, 78] 63) k11
def k9 : Re := .cat (gFlagG [67, 79, 76, 76, 69, 67, 84, 73, 86, 69] 62) k10
def k8 : Re := .cat (gFlagG [83, 73, 78, 71, 76, 69, 45, 86, 65, 76, 85, 69] 61) k9
def k7 : Re := .cat (gKwG [83, 89, 78, 84, 65, 88] 54 (.alt noidlen qdstring)) k8
def k6 : Re := .cat (gKwG [83, 85, 66, 83, 84, 82] 46 oid) k7
def k5 : Re := .cat (gKwG [79, 82, 68, 69, 82, 73, 78, 71] 38 oid) k6
def k4 : Re := .cat (gKwG [69, 81, 85, 65, 76, 73, 84, 89] 30 oid) k5
def k3 : Re := .cat (gKwG [83, 85, 80] 22 oid) k4
def k2 : Re := .cat (gFlagG [79, 66, 83, 79, 76, 69, 84, 69] 20) k3
def k1 : Re := .cat (gKwG [68, 69, 83, 67] 18 qdstring) k2
def k0 : Re := .cat (gKwG [78, 65, 77, 69] 6 qdescrs) k1

theorem eq : Regexes.schema_ATTRIBUTE_TYPE_DESCRIPTION_g = schemaG k0 := rfl

theorem f12 : Fails k12 SR := tailEndG_fails _ _
theorem f11 : Fails k11 SR := gKwG_fails _ _ _ f12
theorem f10 : Fails k10 SR := gFlagG_fails _ _ f11
theorem f9 : Fails k9 SR := gFlagG_fails _ _ f10
theorem f8 : Fails k8 SR := gFlagG_fails _ _ f9
theorem f7 : Fails k7 SR := gKwG_fails _ _ _ f8
theorem f6 : Fails k6 SR := gKwG_fails _ _ _ f7
theorem f5 : Fails k5 SR := gKwG_fails _ _ _ f6
theorem f4 : Fails k4 SR := gKwG_fails _ _ _ f5
theorem f3 : Fails k3 SR := gKwG_fails _ _ _ f4
theorem f2 : Fails k2 SR := gFlagG_fails _ _ f3
theorem f1 : Fails k1 SR := gKwG_fails _ _ _ f2
theorem f0 : Fails k0 SR := gKwG_fails _ _ _ f1

theorem d1 : DeadKw k1 [78, 65, 77, 69] := by unfold k1 k2 k3 k4 k5 k6 k7 k8 k9 k10 k11 k12; dead_kw
theorem d2 : DeadKw k2 [68, 69, 83, 67] := by unfold k2 k3 k4 k5 k6 k7 k8 k9 k10 k11 k12; dead_kw
theorem d3 : DeadKw k3 [79, 66, 83, 79, 76, 69, 84, 69] := by unfold k3 k4 k5 k6 k7 k8 k9 k10 k11 k12; dead_kw
theorem d4 : DeadKw k4 [83, 85, 80] := by unfold k4 k5 k6 k7 k8 k9 k10 k11 k12; dead_kw
theorem d5 : DeadKw k5 [69, 81, 85, 65, 76, 73, 84, 89] := by unfold k5 k6 k7 k8 k9 k10 k11 k12; dead_kw
theorem d6 : DeadKw k6 [79, 82, 68, 69, 82, 73, 78, 71] := by unfold k6 k7 k8 k9 k10 k11 k12; dead_kw
theorem d7 : DeadKw k7 [83, 85, 66, 83, 84, 82] := by unfold k7 k8 k9 k10 k11 k12; dead_kw
theorem d8 : DeadKw k8 [83, 89, 78, 84, 65, 88] := by unfold k8 k9 k10 k11 k12; dead_kw
theorem d9 : DeadKw k9 [83, 73, 78, 71, 76, 69, 45, 86, 65, 76, 85, 69] := by unfold k9 k10 k11 k12; dead_kw
theorem d10 : DeadKw k10 [67, 79, 76, 76, 69, 67, 84, 73, 86, 69] := by unfold k10 k11 k12; dead_kw
theorem d11 : DeadKw k11 [78, 79, 45, 85, 83, 69, 82, 45, 77, 79, 68, 73, 70, 73, 67, 65, 84, 73, 79, 78] := by unfold k11 k12; dead_kw
theorem d12 : DeadKw k12 [85, 83, 65, 71, 69] := by unfold k12; dead_kw

end AT

theorem at_tie (s : List Nat) (hs : Valid s) :
    (matchG Regexes.schema_ATTRIBUTE_TYPE_DESCRIPTION_g s).map (fun p => atGroups p.2) = Schema.matchAT s := by
  rw [AT.eq, matchG_eq_FS, FS_head AT.f0 s [] hs]
  unfold Schema.matchAT
  cases hh : Schema.head s with
  | none => rfl
  | some p0 =>
    obtain ⟨oidT, r0⟩ := p0
    have v0 : Valid r0 := hs.suffix (head_suffix hh)
    simp only
    -- NAME
    rw [AT.k0, FS_gKwG "NAME" 6 (by rfl) (by decide) (qdescrs_det SR) (by rfl) qdescrs_val.dead.fails AT.f1 AT.d1
      r0 _ v0]
    have v1 : Valid (Schema.optKw "NAME" (Schema.itemOrList Schema.qdescr) r0).2 :=
      v0.suffix (optKw_suffix (qdescrs_det SR).suf _ _)
    generalize Schema.optKw "NAME" (Schema.itemOrList Schema.qdescr) r0 = o1 at v1 ⊢
    obtain ⟨names, r1⟩ := o1
    simp only at v1 ⊢
    -- DESC
    rw [AT.k1, FS_gKwG "DESC" 18 (by rfl) (by decide) (qdstring_det SR) (by rfl) qdstring_val.dead.fails AT.f2 AT.d2
      r1 _ v1]
    have v2 : Valid (Schema.optKw "DESC" Schema.qdstring r1).2 :=
      v1.suffix (optKw_suffix (qdstring_det SR).suf _ _)
    generalize Schema.optKw "DESC" Schema.qdstring r1 = o2 at v2 ⊢
    obtain ⟨desc, r2⟩ := o2
    simp only at v2 ⊢
    -- OBSOLETE
    rw [AT.k2, FS_gFlagG "OBSOLETE" 20 (by rfl) (by decide) AT.f3 AT.d3 r2 _ v2]
    have v3 : Valid (Schema.optFlag "OBSOLETE" r2).2 := v2.suffix (optFlag_suffix _ _)
    generalize Schema.optFlag "OBSOLETE" r2 = o3 at v3 ⊢
    obtain ⟨obs, r3⟩ := o3
    simp only at v3 ⊢
    -- SUP
    rw [AT.k3, FS_gKwG "SUP" 22 (by rfl) (by decide) oid_det_SR (by rfl) oid_val.dead.fails AT.f4 AT.d4
      r3 _ v3]
    have v4 : Valid (Schema.optKw "SUP" Schema.oid r3).2 :=
      v3.suffix (optKw_suffix oid_det_SR.suf _ _)
    generalize Schema.optKw "SUP" Schema.oid r3 = o4 at v4 ⊢
    obtain ⟨sup, r4⟩ := o4
    simp only at v4 ⊢
    -- EQUALITY
    rw [AT.k4, FS_gKwG "EQUALITY" 30 (by rfl) (by decide) oid_det_SR (by rfl) oid_val.dead.fails AT.f5 AT.d5
      r4 _ v4]
    have v5 : Valid (Schema.optKw "EQUALITY" Schema.oid r4).2 :=
      v4.suffix (optKw_suffix oid_det_SR.suf _ _)
    generalize Schema.optKw "EQUALITY" Schema.oid r4 = o5 at v5 ⊢
    obtain ⟨eq, r5⟩ := o5
    simp only at v5 ⊢
    -- ORDERING
    rw [AT.k5, FS_gKwG "ORDERING" 38 (by rfl) (by decide) oid_det_SR (by rfl) oid_val.dead.fails AT.f6 AT.d6
      r5 _ v5]
    have v6 : Valid (Schema.optKw "ORDERING" Schema.oid r5).2 :=
      v5.suffix (optKw_suffix oid_det_SR.suf _ _)
    generalize Schema.optKw "ORDERING" Schema.oid r5 = o6 at v6 ⊢
    obtain ⟨ord, r6⟩ := o6
    simp only at v6 ⊢
    -- SUBSTR
    rw [AT.k6, FS_gKwG "SUBSTR" 46 (by rfl) (by decide) oid_det_SR (by rfl) oid_val.dead.fails AT.f7 AT.d7
      r6 _ v6]
    have v7 : Valid (Schema.optKw "SUBSTR" Schema.oid r6).2 :=
      v6.suffix (optKw_suffix oid_det_SR.suf _ _)
    generalize Schema.optKw "SUBSTR" Schema.oid r6 = o7 at v7 ⊢
    obtain ⟨sub, r7⟩ := o7
    simp only at v7 ⊢
    -- SYNTAX
    rw [AT.k7, FS_gKwG "SYNTAX" 54 (by rfl) (by decide) syntaxBody_det (by rfl) (noidlen_val.alt qdstring_val).dead.fails AT.f8 AT.d8
      r7 _ v7]
    have v8 : Valid (Schema.optKw "SYNTAX" Schema.syntaxBody r7).2 :=
      v7.suffix (optKw_suffix syntaxBody_det.suf _ _)
    generalize Schema.optKw "SYNTAX" Schema.syntaxBody r7 = o8 at v8 ⊢
    obtain ⟨syn, r8⟩ := o8
    simp only at v8 ⊢
    -- SINGLE-VALUE
    rw [AT.k8, FS_gFlagG "SINGLE-VALUE" 61 (by rfl) (by decide) AT.f9 AT.d9 r8 _ v8]
    have v9 : Valid (Schema.optFlag "SINGLE-VALUE" r8).2 := v8.suffix (optFlag_suffix _ _)
    generalize Schema.optFlag "SINGLE-VALUE" r8 = o9 at v9 ⊢
    obtain ⟨sv, r9⟩ := o9
    simp only at v9 ⊢
    -- COLLECTIVE
    rw [AT.k9, FS_gFlagG "COLLECTIVE" 62 (by rfl) (by decide) AT.f10 AT.d10 r9 _ v9]
    have v10 : Valid (Schema.optFlag "COLLECTIVE" r9).2 := v9.suffix (optFlag_suffix _ _)
    generalize Schema.optFlag "COLLECTIVE" r9 = o10 at v10 ⊢
    obtain ⟨col, r10⟩ := o10
    simp only at v10 ⊢
    -- NO-USER-MODIFICATION
    rw [AT.k10, FS_gFlagG "NO-USER-MODIFICATION" 63 (by rfl) (by decide) AT.f11 AT.d11 r10 _ v10]
    have v11 : Valid (Schema.optFlag "NO-USER-MODIFICATION" r10).2 := v10.suffix (optFlag_suffix _ _)
    generalize Schema.optFlag "NO-USER-MODIFICATION" r10 = o11 at v11 ⊢
    obtain ⟨num, r11⟩ := o11
    simp only at v11 ⊢
    -- USAGE
    rw [AT.k11, FS_gKwG "USAGE" 65 (by rfl) (by decide) usage_det (by rfl) atUsage_val.dead.fails AT.f12 AT.d12
      r11 _ v11]
    have v12 : Valid (Schema.optKw "USAGE" Schema.usageBody r11).2 :=
      v11.suffix (optKw_suffix usage_det.suf _ _)
    generalize Schema.optKw "USAGE" Schema.usageBody r11 = o12 at v12 ⊢
    obtain ⟨usage, r12⟩ := o12
    simp only at v12 ⊢
    -- tail
    obtain ⟨xs, hxs, ht⟩ := FS_tail 66 68 r12
      (pushOpt 65 usage (pushOpt 63 (if num = true then some (eaten r10 r11) else none) (pushOpt 62 (if col = true then some (eaten r9 r10) else none) (pushOpt 61 (if sv = true then some (eaten r8 r9) else none) (pushOpt 54 syn (pushOpt 46 sub (pushOpt 38 ord (pushOpt 30 eq (pushOpt 22 sup (pushOpt 20 (if obs = true then some (eaten r2 r3) else none) (pushOpt 18 desc (pushOpt 6 names [(1, oidT)]))))))))))))
      v12
    have hmap : ∀ o : Option (List Nat × Caps), o.map (fun p => atGroups p.2) = (o.map Prod.snd).map atGroups := by
      intro o; cases o <;> rfl
    rw [AT.k12, hmap, ht]
    cases Schema.tail r12 with
    | none => rfl
    | some extT =>
      simp only [Option.map_some, Option.some.injEq]
      have g0 : gid Regexes.schema_ATTRIBUTE_TYPE_DESCRIPTION_groups "oid" = 1 := by rfl
      have g1 : gid Regexes.schema_ATTRIBUTE_TYPE_DESCRIPTION_groups "name" = 6 := by rfl
      have g2 : gid Regexes.schema_ATTRIBUTE_TYPE_DESCRIPTION_groups "desc" = 18 := by rfl
      have g3 : gid Regexes.schema_ATTRIBUTE_TYPE_DESCRIPTION_groups "obsolete" = 20 := by rfl
      have g4 : gid Regexes.schema_ATTRIBUTE_TYPE_DESCRIPTION_groups "sup" = 22 := by rfl
      have g5 : gid Regexes.schema_ATTRIBUTE_TYPE_DESCRIPTION_groups "equality" = 30 := by rfl
      have g6 : gid Regexes.schema_ATTRIBUTE_TYPE_DESCRIPTION_groups "ordering" = 38 := by rfl
      have g7 : gid Regexes.schema_ATTRIBUTE_TYPE_DESCRIPTION_groups "substr" = 46 := by rfl
      have g8 : gid Regexes.schema_ATTRIBUTE_TYPE_DESCRIPTION_groups "syntax" = 54 := by rfl
      have g9 : gid Regexes.schema_ATTRIBUTE_TYPE_DESCRIPTION_groups "single_value" = 61 := by rfl
      have g10 : gid Regexes.schema_ATTRIBUTE_TYPE_DESCRIPTION_groups "collective" = 62 := by rfl
      have g11 : gid Regexes.schema_ATTRIBUTE_TYPE_DESCRIPTION_groups "no_user_modification" = 63 := by rfl
      have g12 : gid Regexes.schema_ATTRIBUTE_TYPE_DESCRIPTION_groups "usage" = 65 := by rfl
      have g13 : gid Regexes.schema_ATTRIBUTE_TYPE_DESCRIPTION_groups "extensions" = 66 := by rfl
      simp only [atGroups, grp, g0, g1, g2, g3, g4, g5, g6, g7, g8, g9, g10, g11, g12, g13]
      rw [capOf_tail (id := 1) (by decide) (by decide) _ _ _ hxs,
        capOf_tail (id := 6) (by decide) (by decide) _ _ _ hxs,
        capOf_tail (id := 18) (by decide) (by decide) _ _ _ hxs,
        capOf_tail (id := 20) (by decide) (by decide) _ _ _ hxs,
        capOf_tail (id := 22) (by decide) (by decide) _ _ _ hxs,
        capOf_tail (id := 30) (by decide) (by decide) _ _ _ hxs,
        capOf_tail (id := 38) (by decide) (by decide) _ _ _ hxs,
        capOf_tail (id := 46) (by decide) (by decide) _ _ _ hxs,
        capOf_tail (id := 54) (by decide) (by decide) _ _ _ hxs,
        capOf_tail (id := 61) (by decide) (by decide) _ _ _ hxs,
        capOf_tail (id := 62) (by decide) (by decide) _ _ _ hxs,
        capOf_tail (id := 63) (by decide) (by decide) _ _ _ hxs,
        capOf_tail (id := 65) (by decide) (by decide) _ _ _ hxs]
      cases obs <;> cases sv <;> cases col <;> cases num <;> simp [capOf_pushOpt, capOf_cons, capOf_nil]

end Verif.Proofs.SchemaTie
