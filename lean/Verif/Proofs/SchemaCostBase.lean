/-
C18 (schema post-processing), part 2: the leaves.  The step-counting helpers compute what the
helpers of `Model/Schema.lean` compute, and `_parse_qdstring`, the names comprehension and
`_parse_oids` are LINEAR in the text they are given:
`_parse_qdstring` ≤ `16·len + 11`, names ≤ `6·len + 6`, `_parse_oids` ≤ `6·len + 6`.
-/
import Verif.Proofs.SchemaCostScan

namespace Verif.Proofs.SchemaCost
open Verif Verif.Schema Verif.SchemaCost

/-! ### arithmetic -/

def sq (n : Nat) : Nat := n * n

theorem sq_eq (n : Nat) : sq n = n ^ 2 := by simp only [sq, Nat.pow_two]

theorem sq_mono {a b : Nat} (h : a ≤ b) : sq a ≤ sq b := Nat.mul_le_mul h h

theorem sq_succ (n : Nat) : sq (n + 1) = sq n + 2 * n + 1 := by
  unfold sq
  rw [Nat.add_mul, Nat.mul_add]
  omega

theorem tick_fst {α : Type} (n : Nat) (r : α × Nat) : (tick n r).1 = r.1 := rfl
theorem tick_snd {α : Type} (n : Nat) (r : α × Nat) : (tick n r).2 = n + r.2 := rfl
theorem ret_fst {α : Type} (a : α) : (ret a).1 = a := rfl
theorem ret_snd {α : Type} (a : α) : (ret a).2 = 0 := rfl

/-! ### text primitives -/

theorem stripChars_le (chars : List Nat) (s : Str) : (stripChars chars s).length ≤ s.length := by
  unfold stripChars
  have h1 := dropWhile_le chars.contains s
  have h2 := dropWhile_le chars.contains (s.dropWhile chars.contains).reverse
  simp only [List.length_reverse] at h2 ⊢
  omega

theorem split1_len {sep : Nat} : ∀ {s a b : Str}, split1 sep s = some (a, b) →
    a.length + 1 + b.length = s.length := by
  intro s
  induction s with
  | nil => intro a b h; simp [split1] at h
  | cons c r ih =>
    intro a b h
    simp only [split1] at h
    split at h
    · simp only [Option.some.injEq, Prod.mk.injEq] at h
      obtain ⟨rfl, rfl⟩ := h
      simp only [List.length_cons, List.length_nil]; omega
    · cases hr : split1 sep r with
      | none => rw [hr] at h; simp at h
      | some p =>
        obtain ⟨a', b'⟩ := p
        rw [hr] at h
        simp only [Option.map_some, Option.some.injEq, Prod.mk.injEq] at h
        obtain ⟨rfl, rfl⟩ := h
        have := ih hr
        simp only [List.length_cons]; omega

/-- total length of the parts of a split -/
def totLen : List Str → Nat
  | [] => 0
  | p :: ps => p.length + totLen ps

/-- the parts of a split and their separators make up the text -/
theorem splitOn_total (sep : Nat) : ∀ s : Str,
    totLen (splitOn sep s) + (splitOn sep s).length = s.length + 1 := by
  intro s
  induction s with
  | nil => simp [splitOn, totLen]
  | cons c r ih =>
    simp only [splitOn]
    cases hs : splitOn sep r with
    | nil => rw [hs] at ih; simp [totLen] at ih
    | cons x xs =>
      rw [hs] at ih
      simp only
      split
      · simp only [totLen, List.length_cons, List.length_nil] at ih ⊢; omega
      · simp only [totLen, List.length_cons] at ih ⊢; omega

/-! ### `_parse_qdstring` -/

theorem unescapeQdS_fst : ∀ (fuel : Nat) (s : Str), (unescapeQdS fuel s).1 = unescapeQd fuel s := by
  intro fuel
  induction fuel with
  | zero => intro s; rfl
  | succ fuel ih =>
    intro s
    match s with
    | [] => rfl
    | c :: r =>
      simp only [unescapeQdS, unescapeQd]
      split
      · match r with
        | [] => simp only [ih]
        | [_] => simp only [ih]
        | a :: b :: r' =>
          simp only
          split
          · simp only [ih]
          · simp only [ih]
      · simp only [ih]

/-- every call of `rplcr` replaces three code points -/
theorem unescapeQdS_snd : ∀ (fuel : Nat) (s : Str), 3 * (unescapeQdS fuel s).2 ≤ s.length := by
  intro fuel
  induction fuel with
  | zero => intro s; simp [unescapeQdS]
  | succ fuel ih =>
    intro s
    match s with
    | [] => simp [unescapeQdS]
    | c :: r =>
      simp only [unescapeQdS]
      split
      · match r with
        | [] => have := ih []; simp only [List.length_cons]; omega
        | [x] => have := ih [x]; simp only [List.length_cons] at *; omega
        | a :: b :: r' =>
          simp only
          split
          · have := ih r'; simp only [List.length_cons]; omega
          · have := ih (a :: b :: r'); simp only [List.length_cons] at *; omega
      · have := ih r; simp only [List.length_cons]; omega

theorem parseQdS_fst (v : Str) : (parseQdS v).1 = parseQd v := by
  simp only [parseQdS, parseQd, unescapeQdS_fst]

theorem parseQdS_snd_le (v : Str) : (parseQdS v).2 ≤ 16 * v.length + 11 := by
  simp only [parseQdS]
  have h1 := stripChars_le [QUOTE] v
  have h2 := unescapeQdS_snd (stripChars [QUOTE] v).length (stripChars [QUOTE] v)
  omega

theorem parseQdOptS_fst (d : Option Str) : (parseQdOptS d).1 = d.map parseQd := by
  cases d with
  | none => rfl
  | some v => simp only [parseQdOptS, parseQdS_fst, Option.map_some]

theorem parseQdOptS_snd_le (d : Option Str) : (parseQdOptS d).2 ≤ 16 * glen d + 11 := by
  cases d with
  | none => simp [parseQdOptS]
  | some v => exact parseQdS_snd_le v

/-! ### names, `_parse_oids` -/

theorem namesLoop_le : ∀ l : List Str, namesLoop l ≤ 3 * l.length + totLen l := by
  intro l
  induction l with
  | nil => simp [namesLoop]
  | cons p ps ih =>
    simp only [namesLoop, totLen, List.length_cons]
    split <;> omega

theorem oidsLoop_eq : ∀ l : List Str, oidsLoop l = 3 * l.length + totLen l := by
  intro l
  induction l with
  | nil => simp [oidsLoop, totLen]
  | cons p ps ih =>
    simp only [oidsLoop, totLen, List.length_cons]
    omega

theorem parseNamesS_fst (v : Option Str) : (parseNamesS v).1 = parseNames v := by
  cases v with
  | none => rfl
  | some v =>
    simp only [parseNamesS, parseNames]
    split <;> rfl

theorem parseNamesS_snd_le (v : Option Str) : (parseNamesS v).2 ≤ 6 * glen v + 6 := by
  cases v with
  | none => simp [parseNamesS]
  | some v =>
    simp only [parseNamesS, glen]
    split
    · simp
    · simp only
      have h1 := stripChars_le [LP, RP] v
      have h2 := splitOn_total SPC (stripChars [LP, RP] v)
      have h3 := namesLoop_le (splitOn SPC (stripChars [LP, RP] v))
      omega

theorem parseOidsS_fst (v : Option Str) : (parseOidsS v).1 = parseOids v := by
  cases v with
  | none => rfl
  | some v =>
    simp only [parseOidsS, parseOids]
    split <;> rfl

theorem parseOidsS_snd_le (v : Option Str) : (parseOidsS v).2 ≤ 6 * glen v + 6 := by
  cases v with
  | none => simp [parseOidsS]
  | some v =>
    simp only [parseOidsS, glen]
    split
    · simp
    · simp only
      have h1 := stripChars_le [LP, RP, SPC] v
      have h2 := splitOn_total DOLLAR (stripChars [LP, RP, SPC] v)
      have h3 := oidsLoop_eq (splitOn DOLLAR (stripChars [LP, RP, SPC] v))
      omega

end Verif.Proofs.SchemaCost
