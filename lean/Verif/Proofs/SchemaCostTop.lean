/-
C18 (schema post-processing), part 4: the three `from_string` functions.  The step-counting
parsers return what `parseOC` / `parseAT` / `parseDCR` return; with the two pattern charges set to
0 their steps are at most `51(n+1) + 21(n+1)²` (object class), `42(n+1) + 22(n+1)²` (attribute
type), `56(n+1) + 21(n+1)²` (DIT content rule); with the charges, cubic.
-/
import Verif.Proofs.SchemaCostExts
import Verif.Proofs.SchemaMatchPost

namespace Verif.Proofs.SchemaCost
open Verif Verif.Schema Verif.SchemaCost

/-! ### every group of a match is a piece of the input -/

def OCLe (n : Nat) (g : OCGroups) : Prop :=
  glen g.oid ≤ n ∧ glen g.name ≤ n ∧ glen g.desc ≤ n ∧ glen g.sup ≤ n ∧ glen g.kind ≤ n ∧
  glen g.must ≤ n ∧ glen g.may ≤ n ∧ glen g.extensions ≤ n

theorem matchOC_le {s : Str} {g : OCGroups} (h : matchOC s = some g) : OCLe s.length g := by
  unfold matchOC at h
  cases hh : head s with
  | none => rw [hh] at h; simp at h
  | some p =>
    obtain ⟨oidT, r0⟩ := p
    rw [hh] at h
    simp only at h
    have ⟨ho, h0⟩ := head_le hh
    have ⟨g1, h1⟩ := optKw_le (itemOrList_mono qdescr_mono) "NAME" r0
    generalize optKw "NAME" (itemOrList qdescr) r0 = p1 at h g1 h1
    obtain ⟨names, r1⟩ := p1
    have ⟨g2, h2⟩ := optKw_le qdstring_mono "DESC" r1
    generalize optKw "DESC" qdstring r1 = p2 at h g2 h2
    obtain ⟨desc, r2⟩ := p2
    have h3 := optFlag_le "OBSOLETE" r2
    generalize optFlag "OBSOLETE" r2 = p3 at h h3
    obtain ⟨obs, r3⟩ := p3
    have ⟨g4, h4⟩ := optKw_le oids_mono "SUP" r3
    generalize optKw "SUP" oids r3 = p4 at h g4 h4
    obtain ⟨sup, r4⟩ := p4
    have ⟨g5, h5⟩ := optWord_le ["ABSTRACT", "STRUCTURAL", "AUXILIARY"] r4
    generalize optWord ["ABSTRACT", "STRUCTURAL", "AUXILIARY"] r4 = p5 at h g5 h5
    obtain ⟨kind, r5⟩ := p5
    have ⟨g6, h6⟩ := optKw_le oids_mono "MUST" r5
    generalize optKw "MUST" oids r5 = p6 at h g6 h6
    obtain ⟨must, r6⟩ := p6
    have ⟨g7, h7⟩ := optKw_le oids_mono "MAY" r6
    generalize optKw "MAY" oids r6 = p7 at h g7 h7
    obtain ⟨may, r7⟩ := p7
    simp only at h g1 h1 g2 h2 h3 g4 h4 g5 h5 g6 h6 g7 h7
    cases ht : Schema.tail r7 with
    | none => rw [ht] at h; simp at h
    | some extT =>
      rw [ht] at h
      simp only [Option.some.injEq] at h
      subst h
      have := tail_le ht
      have e1 : glen (some oidT) = oidT.length := rfl
      have e2 : glen (some extT) = extT.length := rfl
      simp only [OCLe, e1, e2]
      omega

def DCRLe (n : Nat) (g : DCRGroups) : Prop :=
  glen g.oid ≤ n ∧ glen g.name ≤ n ∧ glen g.desc ≤ n ∧ glen g.aux ≤ n ∧ glen g.must ≤ n ∧
  glen g.may ≤ n ∧ glen g.never ≤ n ∧ glen g.extensions ≤ n

theorem matchDCR_le {s : Str} {g : DCRGroups} (h : matchDCR s = some g) : DCRLe s.length g := by
  unfold matchDCR at h
  cases hh : head s with
  | none => rw [hh] at h; simp at h
  | some p =>
    obtain ⟨oidT, r0⟩ := p
    rw [hh] at h
    simp only at h
    have ⟨ho, h0⟩ := head_le hh
    have ⟨g1, h1⟩ := optKw_le (itemOrList_mono qdescr_mono) "NAME" r0
    generalize optKw "NAME" (itemOrList qdescr) r0 = p1 at h g1 h1
    obtain ⟨names, r1⟩ := p1
    have ⟨g2, h2⟩ := optKw_le qdstring_mono "DESC" r1
    generalize optKw "DESC" qdstring r1 = p2 at h g2 h2
    obtain ⟨desc, r2⟩ := p2
    have h3 := optFlag_le "OBSOLETE" r2
    generalize optFlag "OBSOLETE" r2 = p3 at h h3
    obtain ⟨obs, r3⟩ := p3
    have ⟨g4, h4⟩ := optKw_le oids_mono "AUX" r3
    generalize optKw "AUX" oids r3 = p4 at h g4 h4
    obtain ⟨aux, r4⟩ := p4
    have ⟨g5, h5⟩ := optKw_le oids_mono "MUST" r4
    generalize optKw "MUST" oids r4 = p5 at h g5 h5
    obtain ⟨must, r5⟩ := p5
    have ⟨g6, h6⟩ := optKw_le oids_mono "MAY" r5
    generalize optKw "MAY" oids r5 = p6 at h g6 h6
    obtain ⟨may, r6⟩ := p6
    have ⟨g7, h7⟩ := optKw_le oids_mono "NOT" r6
    generalize optKw "NOT" oids r6 = p7 at h g7 h7
    obtain ⟨never, r7⟩ := p7
    simp only at h g1 h1 g2 h2 h3 g4 h4 g5 h5 g6 h6 g7 h7
    cases ht : Schema.tail r7 with
    | none => rw [ht] at h; simp at h
    | some extT =>
      rw [ht] at h
      simp only [Option.some.injEq] at h
      subst h
      have := tail_le ht
      have e1 : glen (some oidT) = oidT.length := rfl
      have e2 : glen (some extT) = extT.length := rfl
      simp only [DCRLe, e1, e2]
      omega

def ATLe (n : Nat) (g : ATGroups) : Prop :=
  glen g.oid ≤ n ∧ glen g.name ≤ n ∧ glen g.desc ≤ n ∧ glen g.sup ≤ n ∧ glen g.equality ≤ n ∧
  glen g.ordering ≤ n ∧ glen g.substr ≤ n ∧ glen g.syn ≤ n ∧ glen g.usage ≤ n ∧ glen g.extensions ≤ n

theorem matchAT_le {s : Str} {g : ATGroups} (h : matchAT s = some g) : ATLe s.length g := by
  unfold matchAT at h
  cases hh : head s with
  | none => rw [hh] at h; simp at h
  | some p =>
    obtain ⟨oidT, r0⟩ := p
    rw [hh] at h
    simp only at h
    have ⟨ho, h0⟩ := head_le hh
    have ⟨g1, h1⟩ := optKw_le (itemOrList_mono qdescr_mono) "NAME" r0
    generalize optKw "NAME" (itemOrList qdescr) r0 = p1 at h g1 h1
    obtain ⟨names, r1⟩ := p1
    have ⟨g2, h2⟩ := optKw_le qdstring_mono "DESC" r1
    generalize optKw "DESC" qdstring r1 = p2 at h g2 h2
    obtain ⟨desc, r2⟩ := p2
    have h3 := optFlag_le "OBSOLETE" r2
    generalize optFlag "OBSOLETE" r2 = p3 at h h3
    obtain ⟨obs, r3⟩ := p3
    have ⟨g4, h4⟩ := optKw_le oid_mono "SUP" r3
    generalize optKw "SUP" oid r3 = p4 at h g4 h4
    obtain ⟨sup, r4⟩ := p4
    have ⟨g5, h5⟩ := optKw_le oid_mono "EQUALITY" r4
    generalize optKw "EQUALITY" oid r4 = p5 at h g5 h5
    obtain ⟨eq, r5⟩ := p5
    have ⟨g6, h6⟩ := optKw_le oid_mono "ORDERING" r5
    generalize optKw "ORDERING" oid r5 = p6 at h g6 h6
    obtain ⟨ord, r6⟩ := p6
    have ⟨g7, h7⟩ := optKw_le oid_mono "SUBSTR" r6
    generalize optKw "SUBSTR" oid r6 = p7 at h g7 h7
    obtain ⟨sub, r7⟩ := p7
    have ⟨g8, h8⟩ := optKw_le syntaxBody_mono "SYNTAX" r7
    generalize optKw "SYNTAX" syntaxBody r7 = p8 at h g8 h8
    obtain ⟨syn, r8⟩ := p8
    have h9 := optFlag_le "SINGLE-VALUE" r8
    generalize optFlag "SINGLE-VALUE" r8 = p9 at h h9
    obtain ⟨sv, r9⟩ := p9
    have h10 := optFlag_le "COLLECTIVE" r9
    generalize optFlag "COLLECTIVE" r9 = p10 at h h10
    obtain ⟨col, r10⟩ := p10
    have h11 := optFlag_le "NO-USER-MODIFICATION" r10
    generalize optFlag "NO-USER-MODIFICATION" r10 = p11 at h h11
    obtain ⟨num, r11⟩ := p11
    have ⟨g12, h12⟩ := optKw_le usageBody_mono "USAGE" r11
    generalize optKw "USAGE" usageBody r11 = p12 at h g12 h12
    obtain ⟨usage, r12⟩ := p12
    simp only at h g1 h1 g2 h2 h3 g4 h4 g5 h5 g6 h6 g7 h7 g8 h8 h9 h10 h11 g12 h12
    cases ht : Schema.tail r12 with
    | none => rw [ht] at h; simp at h
    | some extT =>
      rw [ht] at h
      simp only [Option.some.injEq] at h
      subst h
      have := tail_le ht
      have e1 : glen (some oidT) = oidT.length := rfl
      have e2 : glen (some extT) = extT.length := rfl
      simp only [ATLe, e1, e2]
      omega

/-! ### the post-processing -/

theorem flagLen_le (n : Nat) (b : Bool) : flagLen n b ≤ n := by
  unfold flagLen; split <;> omega

theorem glen_getD (o : Option Str) : (o.getD []).length = glen o := by
  cases o <;> rfl

theorem exts_budget {n : Nat} {o : Option Str} (h : glen o ≤ n) :
    (parseExtsS (o.getD [])).2 ≤ (n + 1) + 21 * sq (n + 1) := by
  have h1 := parseExtsS_snd_le (o.getD [])
  rw [glen_getD] at h1
  have := sq_mono (Nat.add_le_add_right h 1)
  omega

theorem postOCS_fst (n : Nat) (g : OCGroups) : (postOCS n g).1 = postOC g := by
  simp only [postOCS, postOC, tick_fst, parseExtsS_fst]
  cases parseExts (g.extensions.getD []) with
  | none => rfl
  | some exts => simp only [ret_fst, parseNamesS_fst, parseQdOptS_fst, parseOidsS_fst]

theorem postOCS_snd_le (n : Nat) (g : OCGroups) (h : OCLe n g) :
    (postOCS n g).2 ≤ 51 * n + 36 + 21 * sq (n + 1) := by
  obtain ⟨h1, h2, h3, h4, h5, h6, h7, h8⟩ := h
  have e : (postOCS n g).2 =
      (glen g.oid + glen g.name + glen g.desc + flagLen n g.obsolete + glen g.sup + glen g.kind
        + glen g.must + glen g.may + glen g.extensions + glen g.kind)
      + ((parseNamesS g.name).2 + (parseQdOptS g.desc).2 + (parseOidsS g.sup).2
        + (parseOidsS g.must).2 + (parseOidsS g.may).2 + (parseExtsS (g.extensions.getD [])).2) := by
    simp only [postOCS, tick_snd]
    cases (parseExtsS (g.extensions.getD [])).1 <;> simp only [ret_snd, Nat.add_zero]
  rw [e]
  have := flagLen_le n g.obsolete
  have := parseNamesS_snd_le g.name
  have := parseQdOptS_snd_le g.desc
  have := parseOidsS_snd_le g.sup
  have := parseOidsS_snd_le g.must
  have := parseOidsS_snd_le g.may
  have := exts_budget h8
  omega

theorem postDCRS_fst (n : Nat) (g : DCRGroups) : (postDCRS n g).1 = postDCR g := by
  simp only [postDCRS, postDCR, tick_fst, parseExtsS_fst]
  cases parseExts (g.extensions.getD []) with
  | none => rfl
  | some exts => simp only [ret_fst, parseNamesS_fst, parseQdOptS_fst, parseOidsS_fst]

theorem postDCRS_snd_le (n : Nat) (g : DCRGroups) (h : DCRLe n g) :
    (postDCRS n g).2 ≤ 56 * n + 42 + 21 * sq (n + 1) := by
  obtain ⟨h1, h2, h3, h4, h5, h6, h7, h8⟩ := h
  have e : (postDCRS n g).2 =
      (glen g.oid + glen g.name + glen g.desc + flagLen n g.obsolete + glen g.aux + glen g.must
        + glen g.may + glen g.never + glen g.extensions)
      + ((parseNamesS g.name).2 + (parseQdOptS g.desc).2 + (parseOidsS g.aux).2 + (parseOidsS g.must).2
        + (parseOidsS g.may).2 + (parseOidsS g.never).2 + (parseExtsS (g.extensions.getD [])).2) := by
    simp only [postDCRS, tick_snd]
    cases (parseExtsS (g.extensions.getD [])).1 <;> simp only [ret_snd, Nat.add_zero]
  rw [e]
  have := flagLen_le n g.obsolete
  have := parseNamesS_snd_le g.name
  have := parseQdOptS_snd_le g.desc
  have := parseOidsS_snd_le g.aux
  have := parseOidsS_snd_le g.must
  have := parseOidsS_snd_le g.may
  have := parseOidsS_snd_le g.never
  have := exts_budget h8
  omega

end Verif.Proofs.SchemaCost
