/-
C18 with explicit coefficients (Props/SmallMore.lean, section C18).

* repetition-free patterns: a generic, input-independent bound `Re.treeBound` (nothing about the
  particular patterns is used; the numerals are obtained by evaluation);
* the five patterns with repetitions: the derivations of ReSmall.lean / ReSchema.lean replayed in
  the constant-computing calculus `Verif.Proofs.XC` (SmallMoreRe*.lean); the coefficient of each
  derivation is evaluated by the kernel (`Small.attr_PB.val` reduces to the numeral).

Core Lean only.
-/
import Verif.Spec.SmallMore
import Verif.Proofs.SmallMoreReSchema

namespace Verif.Proofs.SmallMore
open Verif Verif.Re Verif.Proofs.ReCost

/-! ### generic bound for repetition-free patterns -/

theorem work_le_treeBound : ∀ (r : Re), r.starFree = true → ∀ s, Re.work r s ≤ r.treeBound
  | .eps, _, s => by simp [Re.treeBound]
  | .cls _, _, s => by simp [Re.treeBound]
  | .eos, _, s => by simp [Re.treeBound]
  | .eosNl, _, s => by simp [Re.treeBound]
  | .unsupported, _, s => by simp [Re.treeBound]
  | .group _ a, h, s => by
    have := work_le_treeBound a (by simpa [Re.starFree] using h) s
    rw [work_group, Re.treeBound]; omega
  | .alt a b, h, s => by
    simp only [Re.starFree, Bool.and_eq_true] at h
    have := work_le_treeBound a h.1 s
    have := work_le_treeBound b h.2 s
    rw [work_alt, Re.treeBound]; omega
  | .cat a b, h, s => by
    simp only [Re.starFree, Bool.and_eq_true] at h
    have h1 := work_le_treeBound a h.1 s
    have h2 := work_cat_le a b s b.treeBound (fun t _ => work_le_treeBound b h.2 t)
    have h3 : (runs a s).length * b.treeBound ≤ a.treeBound * b.treeBound :=
      Nat.mul_le_mul_right _ (Nat.le_trans (runs_length_le_work a s) h1)
    rw [Re.treeBound]; omega
  | .star _, h, _ => by simp [Re.starFree] at h

theorem polyBounded_of_starFree (r : Re) (h : r.starFree = true) : PolyBounded r r.treeBound 0 := by
  intro s; simpa using work_le_treeBound r h s

/-- the repetition-free patterns of the regenerated list cost at most 9 nodes on any input (by
    evaluation of `treeBound`: a new or changed pattern is re-evaluated, not re-proved) -/
theorem starFree_patterns_le : ∀ p ∈ Regexes.allPatterns, p.2.starFree = true → p.2.treeBound ≤ 9 := by
  decide +kernel

theorem starFree_patterns_bounded :
    ∀ p ∈ Regexes.allPatterns, p.2.starFree = true → ∀ s, Re.work p.2 s ≤ 9 :=
  fun p hp hs s => Nat.le_trans (work_le_treeBound p.2 hs s) (starFree_patterns_le p hp hs)

theorem polyBounded_mono {r : Re} {c c' d d' : Nat} (h : PolyBounded r c d) (hc : c ≤ c') (hd : d ≤ d') :
    PolyBounded r c' d' :=
  fun s => Nat.le_trans (h s) (B_mono hc hd (Nat.le_refl _))

/-! ### the individual patterns -/

theorem hex_explicit : PolyBounded Regexes.filter_HEX_PATTERN 7 0 := polyBounded_of_starFree _ rfl
theorem ldapEscape_explicit : PolyBounded Regexes.filter_LDAP_ESCAPE_PATTERN 9 0 := polyBounded_of_starFree _ rfl
theorem stringEscape_explicit : PolyBounded Regexes.filter_STRING_ESCAPE_PATTERN 1 0 := polyBounded_of_starFree _ rfl
theorem encodeQd_explicit : PolyBounded Regexes.schema_encode_qdstring 1 0 := polyBounded_of_starFree _ rfl
theorem parseQd_explicit : PolyBounded Regexes.schema_parse_qdstring 9 0 := polyBounded_of_starFree _ rfl
theorem b16_explicit : PolyBounded Regexes.schema_rplcr_base64 1 0 := polyBounded_of_starFree _ rfl

theorem attr_explicit : PolyBounded Regexes.filter_ATTRIBUTE_PATTERN 347 2 := XC.Small.attr_PB.2
theorem noidlen_explicit : PolyBounded Regexes.schema_NOIDLEN_MATCH 265 2 := XC.Small.noid_PB.2
theorem objectClass_explicit : PolyBounded Regexes.schema_OBJECT_CLASS_DESCRIPTION 2301651 3 :=
  XC.SchemaRe.oc_PB.2
theorem attributeType_explicit : PolyBounded Regexes.schema_ATTRIBUTE_TYPE_DESCRIPTION 10934917 3 :=
  XC.SchemaRe.at_PB.2
theorem ditContentRule_explicit : PolyBounded Regexes.schema_DIT_CONTENT_RULE_DESCRIPTION 1883547 3 :=
  XC.SchemaRe.dit_PB.2

/-- one numeral pair for the whole regenerated list (by cases on the explicit list, as
    `allPatterns_bounded`: a new pattern makes this proof fail until it gets a bound of its own) -/
theorem allPatterns_explicit : ∀ p ∈ Regexes.allPatterns, PolyBounded p.2 10934917 3 := by
  intro p hp
  simp only [Regexes.allPatterns, List.mem_cons, List.not_mem_nil, or_false] at hp
  rcases hp with rfl | rfl | rfl | rfl | rfl | rfl | rfl | rfl | rfl | rfl | rfl <;>
    first
    | exact polyBounded_mono attr_explicit (by decide) (by decide)
    | exact polyBounded_mono noidlen_explicit (by decide) (by decide)
    | exact polyBounded_mono objectClass_explicit (by decide) (by decide)
    | exact polyBounded_mono attributeType_explicit (by decide) (by decide)
    | exact polyBounded_mono ditContentRule_explicit (by decide) (by decide)
    | exact polyBounded_mono hex_explicit (by decide) (by decide)
    | exact polyBounded_mono ldapEscape_explicit (by decide) (by decide)
    | exact polyBounded_mono stringEscape_explicit (by decide) (by decide)
    | exact polyBounded_mono encodeQd_explicit (by decide) (by decide)
    | exact polyBounded_mono parseQd_explicit (by decide) (by decide)
    | exact polyBounded_mono b16_explicit (by decide) (by decide)

end Verif.Proofs.SmallMore
