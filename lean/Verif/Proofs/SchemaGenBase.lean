/-
The runtime of the generated schema code (`Verif/PyRtStr.lean`) against the text helpers of the hand model
(`Model/Schema.lean`): each Python `str` method as the runtime defines it equals the model's helper.
-/
import Verif.PyRtStr
import Verif.Model.SchemaMatch

namespace Verif.Proofs.SchemaGen
open Verif Verif.PyRt Verif.PyRtStr Verif.Schema

/-! ### strip / lstrip -/

theorem pyStrip_eq (chars : Str) (s : Str) : pyStrip chars s = stripChars chars s := rfl

theorem contains_sp (c : Nat) : (ofString " ").contains c = (c == SPC) := by
  show ([32] : List Nat).contains c = (c == 32)
  simp only [List.contains_cons, List.contains_nil, Bool.or_false]

theorem pyLstrip_sp (s : Str) : pyLstrip (ofString " ") s = lstripSp s := by
  unfold pyLstrip lstripSp
  congr 1
  funext c
  exact contains_sp c

/-- no white space other than the blank (what `str.strip()` removes besides blanks) -/
def NoOddWs (s : Str) : Prop := ∀ c ∈ s, isPySpace c = true → c = 32

theorem isPySpace_sp : isPySpace 32 = true := by decide

theorem dropWhile_congr_on {p q : Nat → Bool} : ∀ (s : Str), (∀ c ∈ s, p c = q c) → s.dropWhile p = s.dropWhile q
  | [], _ => rfl
  | c :: r, h => by
    have hc : p c = q c := h c (by simp)
    have hr := dropWhile_congr_on r (fun x hx => h x (by simp [hx]))
    simp only [List.dropWhile_cons, hc, hr]

theorem noOdd_ws_eq {s : Str} (h : NoOddWs s) : ∀ c ∈ s, isPySpace c = ([SPC] : List Nat).contains c := by
  intro c hc
  by_cases h32 : c = 32
  · subst h32; decide
  · have h1 : isPySpace c = false := by
      cases hsp : isPySpace c with
      | false => rfl
      | true => exact absurd (h c hc hsp) h32
    rw [h1]
    show false = ([32] : List Nat).contains c
    simp [h32]

theorem dropWhile_sublist_mem (p : Nat → Bool) (s : Str) : ∀ c ∈ s.dropWhile p, c ∈ s :=
  fun c hc => (List.dropWhile_sublist p).subset hc

theorem pyStripWs_eq {s : Str} (h : NoOddWs s) : pyStripWs s = stripChars [SPC] s := by
  unfold pyStripWs stripChars
  have e1 : s.dropWhile isPySpace = s.dropWhile ([SPC] : List Nat).contains := dropWhile_congr_on s (noOdd_ws_eq h)
  rw [e1]
  congr 1
  apply dropWhile_congr_on
  intro c hc
  apply noOdd_ws_eq h
  exact dropWhile_sublist_mem _ s c (List.mem_reverse.mp hc)

/-! ### split -/

theorem splitOn_ne_nil' (sep : Nat) : ∀ (s : Str), splitOn sep s ≠ []
  | [] => by simp [splitOn]
  | c :: r => by
    unfold splitOn
    cases splitOn sep r with
    | nil => simp
    | cons x xs => by_cases hc : c = sep <;> simp [hc]

theorem pySplitAux_eq (sep : Nat) : ∀ (s cur : Str),
    pySplitAux sep cur s = match splitOn sep s with
      | x :: xs => (cur.reverse ++ x) :: xs
      | [] => [cur.reverse]
  | [], cur => by simp [pySplitAux, splitOn]
  | c :: r, cur => by
    have ih0 := pySplitAux_eq sep r []
    have ih1 := pySplitAux_eq sep r (c :: cur)
    unfold pySplitAux splitOn
    cases hsp : splitOn sep r with
    | nil => exact absurd hsp (splitOn_ne_nil' sep r)
    | cons x xs =>
      rw [hsp] at ih0 ih1
      by_cases hc : c = sep
      · simp [hc, ih0]
      · simp [hc, ih1]

theorem pySplit_eq (sep : Nat) (s : Str) : pySplit sep s = splitOn sep s := by
  unfold pySplit
  rw [pySplitAux_eq]
  cases h : splitOn sep s with
  | nil => exact absurd h (splitOn_ne_nil' sep s)
  | cons x xs => simp

/-- `a, b = s.split(sep, 1)` -/
def ofSplit1 (r : Option (Str × Str)) : Except Err (Str × Str) :=
  match r with
  | none => .error .valueError
  | some p => .ok p

theorem pyFind_split1 (sep : Nat) : ∀ (s : Str),
    split1 sep s = (pyFind sep s).map (fun i => (s.take i, s.drop (i + 1)))
  | [] => rfl
  | c :: r => by
    unfold split1 pyFind
    by_cases hc : c = sep
    · simp [hc]
    · simp only [hc, if_false]
      rw [pyFind_split1 sep r]
      cases pyFind sep r with
      | none => rfl
      | some i => simp

theorem unpack2_pySplit1 (sep : Nat) (s : Str) : unpack2 (pySplit1 sep s) = ofSplit1 (split1 sep s) := by
  rw [pyFind_split1]
  unfold pySplit1
  cases pyFind sep s with
  | none => rfl
  | some i => rfl

/-! ### join -/

theorem pyJoin_eq (sep : Str) : ∀ (l : List Str), pyJoin sep l = joinWith sep l
  | [] => rfl
  | [x] => by simp [pyJoin, joinWith]
  | x :: y :: l => by
    have ih := pyJoin_eq sep (y :: l)
    unfold pyJoin at ih ⊢
    simp only [List.intersperse_cons₂, List.flatten_cons]
    rw [ih]
    simp [joinWith, List.append_assoc]

theorem pyJoin_empty (l : List Str) : pyJoin (ofString "") l = l.flatten := by
  show pyJoin [] l = l.flatten
  induction l with
  | nil => rfl
  | cons x l ih =>
    cases l with
    | nil => simp [pyJoin]
    | cons y l =>
      unfold pyJoin at ih ⊢
      simp only [List.intersperse_cons₂, List.flatten_cons, List.nil_append]
      rw [ih]
      simp

/-! ### misc -/

theorem pyStartsWith_eq (s p : Str) : pyStartsWith s p = startsWith p s := rfl

theorem pyDictSet_eq (d : List (Str × List Str)) (k : Str) (v : List Str) : pyDictSet d k v = dictSet d k v := by
  rfl

theorem bind_ok' {α β : Type} (a : α) (f : α → Except Err β) : (Except.ok a >>= f) = f a := rfl
theorem bind_error' {α β : Type} (e : Err) (f : α → Except Err β) : ((Except.error e : Except Err α) >>= f) = .error e := rfl

/-- peel one statement of a generated `do` block without copying its text: the first goal's left side is
    taken from the goal by unification -/
theorem bind_congr_ok {α β : Type} {x : Except Err α} {a : α} {f : α → Except Err β} {r : Except Err β}
    (h1 : x = .ok a) (h2 : f a = r) : (x >>= f) = r := by rw [h1]; exact h2

theorem bind_congr_err {α β : Type} {x : Except Err α} {e : Err} {f : α → Except Err β}
    (h1 : x = .error e) : (x >>= f) = .error e := by rw [h1]; rfl

end Verif.Proofs.SchemaGen
