/-
The scanner of `Model/Schema.lean` is the compiled pattern: for every string of code points the
backtracking matcher (`Re.matchG`, captures included) on the regenerated patterns
`Generated/Regexes.lean : schema_*_g` and the deterministic scanner (`matchOC`, `matchAT`,
`matchDCR`, `noidlenMatch`) agree on acceptance and on the text of every named group.

Structure of the proof (files `ReSchemaMatch*.lean`):
* `Base`   — `runsGF` against `runsF`, canonical fuel (`RG`), first success (`FS`), and the
             `Det` / `DetG` calculus: "of the results of an expression, those at a position where
             the rest of the pattern can go on are exactly the result of a deterministic scanner";
* `Parts`, `Items` — every shared sub-expression (`ReSchemaBase.lean`) is `Det` with the
             corresponding function of `Model/Schema.lean`;
* `Groups` — the optional groups: once the scanner has taken a group the rest of the pattern is
             dead at the position where the group started (`DeadKw`), so backtracking into
             "group skipped" never succeeds; head, tail, reading the captures;
* `Top`, `AT` — assembly per pattern; the regenerated term is shown equal to the composition of the
             named parts by `rfl` (`OC.eq`, `AT.eq`, `DCR.eq`, `noidlenG_eq`).

Core Lean only.
-/
import Verif.Model.ReCap
import Verif.Model.SchemaMatch
import Verif.Generated.Regexes
import Verif.Spec.SchemaGroups
import Verif.Proofs.ReSchemaMatchBase
import Verif.Proofs.ReSchemaMatchTop
import Verif.Proofs.ReSchemaMatchAT

namespace Verif.Proofs
open Verif Verif.Schema Verif.TiesSchema

theorem oc_match_eq_pattern (s : Str) (hs : IsStr s) :
    (Re.matchG Regexes.schema_OBJECT_CLASS_DESCRIPTION_g s).map (fun p => ocGroups p.2) = matchOC s :=
  SchemaTie.oc_tie s hs

theorem at_match_eq_pattern (s : Str) (hs : IsStr s) :
    (Re.matchG Regexes.schema_ATTRIBUTE_TYPE_DESCRIPTION_g s).map (fun p => atGroups p.2) = matchAT s :=
  SchemaTie.at_tie s hs

theorem dcr_match_eq_pattern (s : Str) (hs : IsStr s) :
    (Re.matchG Regexes.schema_DIT_CONTENT_RULE_DESCRIPTION_g s).map (fun p => dcrGroups p.2) = matchDCR s :=
  SchemaTie.dcr_tie s hs

theorem noidlen_match_eq_pattern (s : Str) (hs : IsStr s) :
    (Re.matchG Regexes.schema_NOIDLEN_MATCH_g s).map
      (fun p => ((grp Regexes.schema_NOIDLEN_MATCH_groups p.2 "value").getD [],
                 (grp Regexes.schema_NOIDLEN_MATCH_groups p.2 "len").getD [])) = noidlenMatch s :=
  SchemaTie.noidlen_tie s hs

theorem runsG_fst (r : Re) (s : List Nat) : (Re.runsG r s).map Prod.fst = Re.runs r s :=
  SchemaTie.runsGF_fst _ r s []

theorem oc_g_same_runs (s : List Nat) :
    Re.runs Regexes.schema_OBJECT_CLASS_DESCRIPTION_g s = Re.runs Regexes.schema_OBJECT_CLASS_DESCRIPTION s := by
  rw [← SchemaTie.runs_erase Regexes.schema_OBJECT_CLASS_DESCRIPTION_g]; rfl

theorem at_g_same_runs (s : List Nat) :
    Re.runs Regexes.schema_ATTRIBUTE_TYPE_DESCRIPTION_g s = Re.runs Regexes.schema_ATTRIBUTE_TYPE_DESCRIPTION s := by
  rw [← SchemaTie.runs_erase Regexes.schema_ATTRIBUTE_TYPE_DESCRIPTION_g]; rfl

theorem dcr_g_same_runs (s : List Nat) :
    Re.runs Regexes.schema_DIT_CONTENT_RULE_DESCRIPTION_g s = Re.runs Regexes.schema_DIT_CONTENT_RULE_DESCRIPTION s := by
  rw [← SchemaTie.runs_erase Regexes.schema_DIT_CONTENT_RULE_DESCRIPTION_g]; rfl

theorem noidlen_g_same_runs (s : List Nat) :
    Re.runs Regexes.schema_NOIDLEN_MATCH_g s = Re.runs Regexes.schema_NOIDLEN_MATCH s := by
  rw [← SchemaTie.runs_erase Regexes.schema_NOIDLEN_MATCH_g]; rfl

end Verif.Proofs
