/-
Proofs for Props/C02More.lean: the end-to-end chunking corollary of C02, and the framing
behaviour of `receive` on proper prefixes of arbitrary complete data units.
-/
import Verif.Spec.C02More
import Verif.Proofs.Recv

namespace Verif.Proofs.C02More
open Verif Verif.Proofs
set_option linter.unusedSimpArgs false
set_option linter.unusedVariables false

/-! ### end-to-end: stream of well-formed messages, any chunking -/

/-- `feed_eq_recv` without its (unused) byte-range hypothesis -/
theorem feed_eq_recv' (depth : Nat) (s : Sess) (chunks : List Bytes) (ms : List Msg)
    (hne : chunks ≠ [])
    (h : (recv depth s chunks.flatten).2 = .msgs ms) :
    feed depth s chunks = ((recv depth s chunks.flatten).1, ms, none) := by
  induction chunks generalizing s ms with
  | nil => exact absurd rfl hne
  | cons c cs ih =>
    have h' := recv_msgs_of_snd _ _ _ _ h
    cases cs with
    | nil =>
      simp only [List.flatten_cons, List.flatten_nil, List.append_nil] at h' ⊢
      rw [feed_cons_msgs _ _ _ _ _ _ h']
      simp [feed]
    | cons c' cs' =>
      rw [List.flatten_cons] at h' ⊢
      obtain ⟨s1, ms1, ms2, h1, h2, rfl⟩ := recv_split _ _ _ _ _ _ h'
      have hih := ih s1 ms2 (by simp) (by rw [h2])
      rw [feed_cons_msgs _ _ _ _ _ _ h1, hih, h2]

/-- one delivery of the whole stream, residue included in the stream -/
theorem recv_stream (depth : Nat) (s s2 : Sess) (chunk : Bytes) (ms : List Msg)
    (hs : s.state ≠ .closed)
    (hwf : ∀ m ∈ ms, m.WF s.regs ∧ m.op.filterDepth < depth)
    (hc : s.residue ++ chunk = (ms.map encMsg).flatten)
    (hacc : processLoop s (ms.map fillRaw) = .ok s2) :
    recv depth s chunk = ({ s2 with residue := [] }, .msgs (ms.map fillRaw)) := by
  refine (recv_msgs_iff _ _ _ _ _).2 ⟨hs, [], ?_, ?_⟩
  · rw [hc]; exact parseLoop_stream s.regs depth ms hwf
  · rw [processLoop_residue, hacc]; rfl

theorem chunked_stream_residue (depth : Nat) (s s2 : Sess) (chunks : List Bytes) (ms : List Msg)
    (hs : s.state ≠ .closed) (hne : chunks ≠ [])
    (hwf : ∀ m ∈ ms, m.WF s.regs ∧ m.op.filterDepth < depth)
    (hc : s.residue ++ chunks.flatten = (ms.map encMsg).flatten)
    (hacc : processLoop s (ms.map fillRaw) = .ok s2) :
    feed depth s chunks = ({ s2 with residue := [] }, ms.map fillRaw, none) := by
  have hr := recv_stream depth s s2 chunks.flatten ms hs hwf hc hacc
  have hf := feed_eq_recv' depth s chunks (ms.map fillRaw) hne (by rw [hr])
  rw [hf, hr]

theorem chunked_stream (depth : Nat) (s s2 : Sess) (chunks : List Bytes) (ms : List Msg)
    (hs : s.state ≠ .closed) (hr : s.residue = []) (hne : chunks ≠ [])
    (hwf : ∀ m ∈ ms, m.WF s.regs ∧ m.op.filterDepth < depth)
    (hc : chunks.flatten = (ms.map encMsg).flatten)
    (hacc : processLoop s (ms.map fillRaw) = .ok s2) :
    feed depth s chunks = (s2, ms.map fillRaw, none) ∧ s2.residue = [] := by
  have hres : s2.residue = [] := by
    rw [(processLoop_ok_frame _ _ _ hacc).2.2.2.1, hr]
  have heta : ({ s2 with residue := [] } : Sess) = s2 := by
    cases s2; simp only at hres; subst hres; rfl
  have := chunked_stream_residue depth s s2 chunks ms hs hne hwf (by rw [hr]; exact hc) hacc
  rw [heta] at this
  exact ⟨this, hres⟩

theorem whole_stream (depth : Nat) (s s2 : Sess) (ms : List Msg)
    (hs : s.state ≠ .closed) (hr : s.residue = [])
    (hwf : ∀ m ∈ ms, m.WF s.regs ∧ m.op.filterDepth < depth)
    (hacc : processLoop s (ms.map fillRaw) = .ok s2) :
    recv depth s (ms.map encMsg).flatten = (s2, .msgs (ms.map fillRaw)) := by
  have hres : s2.residue = [] := by
    rw [(processLoop_ok_frame _ _ _ hacc).2.2.2.1, hr]
  have heta : ({ s2 with residue := [] } : Sess) = s2 := by
    cases s2; simp only at hres; subst hres; rfl
  have := recv_stream depth s s2 (ms.map encMsg).flatten ms hs hwf (by rw [hr]; rfl) hacc
  rwa [heta] at this

/-- a closed session refuses every delivery, so `s.state ≠ .closed` cannot be dropped -/
theorem closed_feed (depth : Nat) (s : Sess) (c : Bytes) (cs : List Bytes) (h : s.state = .closed) :
    (feed depth s (c :: cs)).2.2 ≠ none := by
  rw [feed_cons]
  obtain ⟨⟨n, hn⟩, _⟩ := recv_closed depth s c h
  rw [hn]; simp

/-! ### complete data units (Spec/C02More.lean) against the model's header reader -/

theorem beVal128_acc (l : List Nat) (acc : Nat) :
    beVal 128 l acc = acc * 128 ^ l.length + b128Val l := by
  induction l generalizing acc with
  | nil => simp [beVal, b128Val]
  | cons x xs ih =>
    simp only [beVal, b128Val, ih, List.length_cons, Nat.pow_succ]
    rw [Nat.add_mul, Nat.mul_assoc, Nat.mul_comm 128, Nat.add_assoc]

theorem beVal128_eq (l : List Nat) : beVal 128 l 0 = b128Val l := by
  simp [beVal128_acc]

/-- octets with the continuation bit only: the tag-number reader runs out of data -/
theorem unpack_all_high (l : Bytes) (acc idx : Nat) (h : ∀ x ∈ l, 128 ≤ x) :
    unpackOctetNumber l acc idx = .error .notEnough := by
  induction l generalizing acc idx with
  | nil => rfl
  | cons x xs ih =>
    have hx : 128 ≤ x := h x (by simp)
    simp only [unpackOctetNumber, hx, ↓reduceIte]
    exact ih _ _ (fun y hy => h y (by simp [hy]))

/-- the identifier octets, as the model's reader sees them -/
theorem idOctets_shape {id : Bytes} {cls : Nat} {cons : Bool} {num : Nat}
    (h : IdOctets id cls cons num) :
    ∃ o1 idr, id = o1 :: idr ∧ o1 / 64 = cls ∧ decide (o1 / 32 % 2 = 1) = cons ∧
      (∀ tail, idPart o1 (idr ++ tail) = .ok (num, idr.length)) ∧
      (∀ p, p <+: idr → p.length < idr.length → idPart o1 p = .error .notEnough) := by
  cases h with
  | low cls cons num hc hn =>
    obtain ⟨h1, h2, h3⟩ := id_decode cls cons num hc (by omega)
    refine ⟨_, [], rfl, h1, h2, ?_, ?_⟩
    · intro tail
      have hne : ¬ num = 31 := by omega
      simp only [idPart, h3, hne, ↓reduceIte, List.length_nil]
    · intro p _ hl; simp at hl
  | high cls cons ds d hc hds hd =>
    obtain ⟨h1, h2, h3⟩ := id_decode cls cons 31 hc (by omega)
    refine ⟨_, _, rfl, h1, h2, ?_, ?_⟩
    · intro tail
      simp only [idPart, h3, ↓reduceIte]
      rw [List.append_assoc, List.singleton_append, unpack_digits _ _ _ _ _ hds hd, beVal128_eq]
      simp
    · intro p hp hl
      simp only [idPart, h3, ↓reduceIte]
      apply unpack_all_high
      rcases List.prefix_concat_iff.1 hp with rfl | hp'
      · simp at hl
      · intro x hx
        have := hp'.subset hx
        simp only [List.mem_map] at this
        obtain ⟨y, _, rfl⟩ := this
        omega

theorem lenOctets_readLen {len : Bytes} {n : Nat} (h : LenOctets len n) (t : Tag) (k : Nat)
    (rest : Bytes) : readLen t k (len ++ rest) = .ok ⟨t, k + len.length, n⟩ := by
  cases h with
  | short n hn =>
    have h1 : ¬ n = 128 := by omega
    have h2 : ¬ 128 < n := by omega
    simp [readLen, h1, h2]
  | long os h1 h2 =>
    have hpos : 0 < os.length := List.length_pos_iff.2 h1
    have e1 : ¬ 128 + os.length = 128 := by omega
    have e2 : 128 < 128 + os.length := by omega
    have e3 : ¬ (os.length + rest.length < os.length) := by omega
    simp [readLen, e1, e2, e3, beVal_eq_beNat, h1]
    omega

/-- header of a data unit whose tag the library can represent -/
theorem readHeader_tlv {id len : Bytes} {cls : Nat} {cons : Bool} {num n : Nat}
    (hid : IdOctets id cls cons num) (hlen : LenOctets len n) (hg : ¬ (cls = 0 ∧ 36 < num))
    (rest : Bytes) :
    readHeader (id ++ len ++ rest) = .ok ⟨⟨cls, cons, num⟩, id.length + len.length, n⟩ := by
  obtain ⟨o1, idr, rfl, h1, h2, h3, _⟩ := idOctets_shape hid
  rw [List.append_assoc, List.cons_append, readHeader_cons, h3]
  simp only [h1, h2]
  rw [if_neg (by simpa using hg)]
  have hd : List.drop (1 + idr.length) (o1 :: (idr ++ (len ++ rest))) = len ++ rest := by
    rw [Nat.add_comm, List.drop_succ_cons, List.drop_left]
  rw [hd, lenOctets_readLen hlen]
  simp only [List.length_cons]
  congr 2; omega

/-- identifier octets of a UNIVERSAL number the library does not know: refused as soon as the
    identifier is complete -/
theorem readHeader_tlv_unknown {id : Bytes} {cls : Nat} {cons : Bool} {num : Nat}
    (hid : IdOctets id cls cons num) (hg : cls = 0 ∧ 36 < num) (rest : Bytes) :
    readHeader (id ++ rest) = .error .valueError := by
  obtain ⟨o1, idr, rfl, h1, h2, h3, _⟩ := idOctets_shape hid
  rw [List.cons_append, readHeader_cons, h3]
  simp only [h1]
  rw [if_pos (by simpa using hg)]

/-- inside the identifier octets the reader asks for more -/
theorem readHeader_id_prefix {id : Bytes} {cls : Nat} {cons : Bool} {num : Nat}
    (hid : IdOctets id cls cons num) (p : Bytes) (hp : p <+: id) (hl : p.length < id.length) :
    readHeader p = .error .notEnough := by
  obtain ⟨o1, idr, rfl, h1, h2, _, h4⟩ := idOctets_shape hid
  match p with
  | [] => rfl
  | x :: p' =>
    have hx : x = o1 ∧ p' <+: idr := by
      obtain ⟨t, ht⟩ := hp
      simp only [List.cons_append, List.cons.injEq] at ht
      exact ⟨ht.1, t, ht.2⟩
    obtain ⟨rfl, hp'⟩ := hx
    rw [readHeader_cons, h4 p' hp' (by simpa using hl)]

theorem prefix_split {a b p q : Bytes} (h : p ++ q = a ++ b) (hl : a.length ≤ p.length) :
    ∃ b', p = a ++ b' ∧ b = b' ++ q := by
  rcases List.append_eq_append_iff.1 h with ⟨a', h1, h2⟩ | ⟨c', h1, h2⟩
  · have : a'.length = 0 := by
      have := congrArg List.length h1
      simp only [List.length_append] at this; omega
    have ha' : a' = [] := List.eq_nil_of_length_eq_zero this
    subst ha'
    exact ⟨[], by simpa using h1.symm, by simpa using h2.symm⟩
  · exact ⟨c', h1, h2⟩

/-- before the header is complete the reader asks for more (tag the library can represent) -/
theorem readHeader_header_prefix {id len : Bytes} {cls : Nat} {cons : Bool} {num n : Nat}
    (hid : IdOctets id cls cons num) (hlen : LenOctets len n) (hg : ¬ (cls = 0 ∧ 36 < num))
    (p q : Bytes) (content : Bytes) (hpq : p ++ q = id ++ len ++ content)
    (hl : p.length < id.length + len.length) :
    readHeader p = .error .notEnough := by
  have hu := readHeader_tlv hid hlen hg content
  rw [← hpq] at hu
  cases hp : readHeader p with
  | ok hd =>
    have := readHeader_append p q hd hp
    rw [hu] at this
    injection this with this
    have hb := (readHeader_hlen_bounds p hd hp).2
    rw [← this] at hb
    simp only at hb
    omega
  | error e =>
    rcases readHeader_err _ _ hp with rfl | rfl
    · rfl
    · rw [readHeader_append_valueError p q hp] at hu; cases hu

/-- the outer read on a proper prefix of a complete data unit, all cases -/
theorem readTLV_prefix_tlv {id len content : Bytes} {cls : Nat} {cons : Bool} {num : Nat}
    (hid : IdOctets id cls cons num) (hlen : LenOctets len content.length)
    (p : Bytes) (hp : p <+: id ++ len ++ content) (hlt : p.length < (id ++ len ++ content).length) :
    (p.length < id.length → readTLV (some tSeq) p = .error .notEnough) ∧
    (¬ (cls = 0 ∧ 36 < num) → p.length < id.length + len.length →
        readTLV (some tSeq) p = .error .notEnough) ∧
    ((cls, cons, num) = (0, true, 16) → readTLV (some tSeq) p = .error .notEnough) ∧
    (cls = 0 ∧ 36 < num → id.length ≤ p.length → readTLV (some tSeq) p = .error .valueError) ∧
    ((cls, cons, num) ≠ (0, true, 16) → id.length + len.length ≤ p.length →
        readTLV (some tSeq) p = .error .valueError) ∧
    (readTLV (some tSeq) p = .error .notEnough ∨ readTLV (some tSeq) p = .error .valueError) := by
  obtain ⟨q, hpq⟩ := hp
  have c1 : p.length < id.length → readTLV (some tSeq) p = .error .notEnough := by
    intro hl
    have hpre : p <+: id := by
      have : p <+: id ++ (len ++ content) := ⟨q, by rw [hpq, List.append_assoc]⟩
      exact List.prefix_of_prefix_length_le this (List.prefix_append _ _) (by omega)
    rw [readTLV_eq, readHeader_id_prefix hid p hpre hl]
  have c2 : ¬ (cls = 0 ∧ 36 < num) → p.length < id.length + len.length →
      readTLV (some tSeq) p = .error .notEnough := by
    intro hg hl
    rw [readTLV_eq, readHeader_header_prefix hid hlen hg p q content hpq hl]
  -- header complete
  have c3 : ¬ (cls = 0 ∧ 36 < num) → id.length + len.length ≤ p.length →
      ∃ c', p = id ++ len ++ c' ∧ c'.length < content.length ∧
        readHeader p = .ok ⟨⟨cls, cons, num⟩, id.length + len.length, content.length⟩ := by
    intro hg hl
    obtain ⟨c', h1, h2⟩ := prefix_split hpq (by simpa using hl)
    refine ⟨c', h1, ?_, ?_⟩
    · have := congrArg List.length h1
      simp only [List.length_append] at this hlt
      omega
    · rw [h1]; exact readHeader_tlv hid hlen hg c'
  have c4 : cls = 0 ∧ 36 < num → id.length ≤ p.length →
      readTLV (some tSeq) p = .error .valueError := by
    intro hg hl
    rw [List.append_assoc] at hpq
    obtain ⟨r, h1, _⟩ := prefix_split hpq hl
    rw [readTLV_eq, h1, readHeader_tlv_unknown hid hg r]
  have c5 : (cls, cons, num) = (0, true, 16) → readTLV (some tSeq) p = .error .notEnough := by
    intro hseq
    have hg : ¬ (cls = 0 ∧ 36 < num) := by
      simp only [Prod.mk.injEq] at hseq; omega
    by_cases hl : p.length < id.length + len.length
    · exact c2 hg hl
    · obtain ⟨c', h1, h2, h3⟩ := c3 hg (by omega)
      simp only [Prod.mk.injEq] at hseq
      obtain ⟨rfl, rfl, rfl⟩ := hseq
      rw [readTLV_eq, h3]
      have hd : (List.drop (id.length + len.length) p).length = c'.length := by
        rw [h1]; simp
      simp only [tagBad, tSeq, tagUniv, hd, h2, ↓reduceIte]
      simp
  have c6 : (cls, cons, num) ≠ (0, true, 16) → id.length + len.length ≤ p.length →
      readTLV (some tSeq) p = .error .valueError := by
    intro hns hl
    by_cases hg : cls = 0 ∧ 36 < num
    · exact c4 hg (by omega)
    · obtain ⟨c', h1, h2, h3⟩ := c3 hg hl
      rw [readTLV_eq, h3]
      have : tagBad (some tSeq) ⟨⟨cls, cons, num⟩, id.length + len.length, content.length⟩ = true := by
        simp only [tagBad, tSeq, tagUniv, decide_eq_true_eq, ne_eq, Tag.mk.injEq]
        intro h
        exact hns (by simp [h.1, h.2.1, h.2.2])
      simp only [this, ↓reduceIte]
  refine ⟨c1, c2, c5, c4, c6, ?_⟩
  by_cases hseq : (cls, cons, num) = (0, true, 16)
  · exact .inl (c5 hseq)
  · by_cases hl : p.length < id.length + len.length
    · by_cases hg : cls = 0 ∧ 36 < num
      · by_cases hl' : p.length < id.length
        · exact .inl (c1 hl')
        · exact .inr (c4 hg (by omega))
      · exact .inl (c2 hg hl)
    · exact .inr (c6 hseq (by omega))

/-! ### `receive` on such prefixes -/

theorem waits_of_notEnough (depth : Nat) (s : Sess) (chunk : Bytes) (hs : s.state ≠ .closed)
    (h : readTLV (some tSeq) (s.residue ++ chunk) = .error .notEnough) : RecvWaits depth s chunk := by
  have hd := (decMsg_notEnough_iff s.regs depth _).2 h
  refine (recv_msgs_iff _ _ _ _ _).2 ⟨hs, s.residue ++ chunk, ?_, rfl⟩
  rw [parseLoop_eq _ _ _ _ (Nat.le_refl _), hd]
  split
  · rename_i he; rw [List.isEmpty_iff.1 he]
  · rfl

theorem refuses_of_valueError (depth : Nat) (s : Sess) (chunk : Bytes) (hs : s.state ≠ .closed)
    (h : readTLV (some tSeq) (s.residue ++ chunk) = .error .valueError) : RecvRefuses depth s chunk := by
  have hd : decMsg s.regs depth (s.residue ++ chunk) = .error .valueError := by
    unfold decMsg; rw [h]
  have hne : ¬ (s.residue ++ chunk).isEmpty = true := by
    intro he; rw [List.isEmpty_iff.1 he] at h; cases h
  have hp : parseLoop s.regs depth (s.residue ++ chunk).length (s.residue ++ chunk)
      = .error .valueError := by
    rw [parseLoop_eq _ _ _ _ (Nat.le_refl _), if_neg hne, hd]
  simp only [RecvRefuses, recv, hs, if_false, hp]

theorem decMsg_prefix_unit (regs : Regs) (depth : Nat) (u p : Bytes) (hu : IsUnit u)
    (hp : p <+: u) (hlt : p.length < u.length) : decMsg regs depth p = .error .notEnough := by
  obtain ⟨id, len, content, hid, hlen, rfl⟩ := hu
  exact (decMsg_notEnough_iff _ _ _).2 ((readTLV_prefix_tlv hid hlen p hp hlt).2.2.1 rfl)

theorem recv_prefix_unit (depth : Nat) (s : Sess) (chunk u : Bytes) (hs : s.state ≠ .closed)
    (hu : IsUnit u) (hp : s.residue ++ chunk <+: u) (hlt : (s.residue ++ chunk).length < u.length) :
    RecvWaits depth s chunk := by
  obtain ⟨id, len, content, hid, hlen, rfl⟩ := hu
  exact waits_of_notEnough depth s chunk hs ((readTLV_prefix_tlv hid hlen _ hp hlt).2.2.1 rfl)

theorem feed_prefix_unit (depth : Nat) (chunks : List Bytes) : ∀ (s : Sess) (u : Bytes),
    s.state ≠ .closed → IsUnit u → s.residue ++ chunks.flatten <+: u →
    (s.residue ++ chunks.flatten).length < u.length →
    feed depth s chunks = ({ s with residue := s.residue ++ chunks.flatten }, [], none) := by
  induction chunks with
  | nil => intro s u _ _ _ _; simp [feed]
  | cons c cs ih =>
    intro s u hs hu hp hlt
    simp only [List.flatten_cons] at hp hlt ⊢
    rw [← List.append_assoc] at hp hlt
    have hp1 : s.residue ++ c <+: u := List.IsPrefix.trans (List.prefix_append _ _) hp
    have hl1 : (s.residue ++ c).length < u.length := by
      simp only [List.length_append] at hlt ⊢; omega
    have hw : recv depth s c = ({ s with residue := s.residue ++ c }, .msgs []) :=
      recv_prefix_unit depth s c u hs hu hp1 hl1
    rw [feed_cons_msgs _ _ _ _ _ _ hw, ih { s with residue := s.residue ++ c } u hs hu hp hlt]
    simp

theorem recv_prefix_tlv (depth : Nat) (s : Sess) (chunk id len content : Bytes)
    (cls : Nat) (cons : Bool) (num : Nat) (hs : s.state ≠ .closed)
    (hid : IdOctets id cls cons num) (hlen : LenOctets len content.length)
    (hp : s.residue ++ chunk <+: id ++ len ++ content)
    (hlt : (s.residue ++ chunk).length < (id ++ len ++ content).length) :
    (RecvWaits depth s chunk ∨ RecvRefuses depth s chunk) ∧
    ((s.residue ++ chunk).length < id.length → RecvWaits depth s chunk) ∧
    (¬ (cls = 0 ∧ 36 < num) → (s.residue ++ chunk).length < id.length + len.length →
        RecvWaits depth s chunk) ∧
    (cls = 0 ∧ 36 < num → id.length ≤ (s.residue ++ chunk).length → RecvRefuses depth s chunk) ∧
    ((cls, cons, num) ≠ (0, true, 16) → id.length + len.length ≤ (s.residue ++ chunk).length →
        RecvRefuses depth s chunk) := by
  obtain ⟨c1, c2, _, c4, c6, c7⟩ := readTLV_prefix_tlv hid hlen _ hp hlt
  refine ⟨?_, ?_, ?_, ?_, ?_⟩
  · rcases c7 with h | h
    · exact .inl (waits_of_notEnough depth s chunk hs h)
    · exact .inr (refuses_of_valueError depth s chunk hs h)
  · exact fun h => waits_of_notEnough depth s chunk hs (c1 h)
  · exact fun hg h => waits_of_notEnough depth s chunk hs (c2 hg h)
  · exact fun hg h => refuses_of_valueError depth s chunk hs (c4 hg h)
  · exact fun hg h => refuses_of_valueError depth s chunk hs (c6 hg h)

theorem decMsg_prefix_tlv (regs : Regs) (depth : Nat) (p id len content : Bytes)
    (cls : Nat) (cons : Bool) (num : Nat)
    (hid : IdOctets id cls cons num) (hlen : LenOctets len content.length)
    (hp : p <+: id ++ len ++ content) (hlt : p.length < (id ++ len ++ content).length) :
    decMsg regs depth p = .error .notEnough ∨ decMsg regs depth p = .error .valueError := by
  rcases (readTLV_prefix_tlv hid hlen p hp hlt).2.2.2.2.2 with h | h
  · exact .inl ((decMsg_notEnough_iff _ _ _).2 h)
  · right; unfold decMsg; rw [h]

theorem lenOctets_packLen (n : Nat) (hn : n < 256 ^ 126) : LenOctets (packLen n) n := by
  unfold packLen
  by_cases h : n < 128
  · simp only [h, ↓reduceIte]; exact .short n h
  · simp only [h, ↓reduceIte]
    obtain ⟨hv, _⟩ := digits256_spec (n + 1) n (by omega)
    have h0 : n ≠ 0 := by omega
    have hne : (digits256 (n + 1) n).reverse ≠ [] := by simp [digits256, h0]
    have hle : (digits256 (n + 1) n).reverse.length ≤ 126 := by
      rw [List.length_reverse]; exact digits256_length _ _ _ hn
    have := LenOctets.long _ hne hle
    rw [beNat_reverse, hv, Nat.add_comm] at this
    exact this

/-- every TLV the library writes with the SEQUENCE tag is a complete unit in the sense of
    Spec/C02More.lean (as long as its length fits the 126 length octets BER allows) -/
theorem isUnit_packTLV (c : Bytes) (hn : c.length < 256 ^ 126) : IsUnit (packTLV tSeq c) := by
  refine ⟨[48], packLen c.length, c, ?_, lenOctets_packLen _ hn, ?_⟩
  · exact IdOctets.low 0 true 16 (by omega) (by omega)
  · simp [packTLV, packHeader, packTag, tSeq, tagUniv]

theorem isUnit_encMsg (m : Msg) (hn : (encMsg m).length < 256 ^ 126) : IsUnit (encMsg m) := by
  unfold encMsg at hn ⊢
  apply isUnit_packTLV
  refine Nat.lt_of_le_of_lt ?_ hn
  unfold packTLV
  simp only [List.length_append]
  omega

theorem flatten_cut (ks : List Nat) : ∀ st : Bytes, (cut st ks).flatten = st := by
  induction ks with
  | nil => intro st; simp [cut]
  | cons k ks ih => intro st; simp [cut, ih]

theorem cut_ne_nil (st : Bytes) (ks : List Nat) : cut st ks ≠ [] := by
  cases ks <;> simp [cut]

end Verif.Proofs.C02More
