/-
C18 with explicit coefficients, support file.  This is a COPY, made by a script, of the degree
calculus of ReCost.lean / ReCostExtra.lean and of the per-pattern derivations of ReSmall.lean /
ReSchemaBase.lean / ReSchema.lean, with every hidden constant made explicit.  The one change
against the originals: the bound predicates `PB`, `RP`, `Sparse`, `Dead`, `Cheap`, `Skip`,
`SparseN` (and the bundles `Val`, `Grp`, `Tail`, `QItem` built from them) are SUBTYPES
`{ c : Nat // … }` instead of existentials `∃ c, …`; hence every rule whose conclusion is one of
them is a `def` that computes its constant (the proof scripts are those of the originals, verbatim),
and the constant of a finished derivation can be evaluated (`Small.attr_PB.val` reduces to a numeral).
Everything lives in namespace `Verif.Proofs.XC`; the raw, constant-explicit lemmas of ReCost.lean
(`work_cat_munch`, `work_star_chain`, `B_*`, …) are reused from there.  Core Lean only.
-/
import Verif.Proofs.SmallMoreRe
import Verif.Generated.Regexes

namespace Verif.Proofs.XC
open Verif Verif.Re Verif.Proofs.ReCost

/-! ### character classes -/

namespace Small

def cDigit : List (Nat × Nat) := [(48, 57)]
def cD19 : List (Nat × Nat) := [(49, 57)]
def cZero : List (Nat × Nat) := [(48, 48)]
def cDot : List (Nat × Nat) := [(46, 46)]
def cSemi : List (Nat × Nat) := [(59, 59)]
def cAlpha : List (Nat × Nat) := [(65, 90), (97, 122)]
def cAnh : List (Nat × Nat) := [(45, 45), (48, 57), (65, 90), (97, 122)]
def cLbrace : List (Nat × Nat) := [(123, 123)]
def cRbrace : List (Nat × Nat) := [(125, 125)]

theorem digit_dot : Disj cDigit cDot := by intro c; simp [cDigit, cDot, Re.inCls] <;> omega
theorem digit_semi : Disj cDigit cSemi := by intro c; simp [cDigit, cSemi, Re.inCls] <;> omega
theorem digit_lbrace : Disj cDigit cLbrace := by intro c; simp [cDigit, cLbrace, Re.inCls] <;> omega
theorem semi_dot : Disj cSemi cDot := by intro c; simp [cSemi, cDot, Re.inCls] <;> omega
theorem lbrace_dot : Disj cLbrace cDot := by intro c; simp [cLbrace, cDot, Re.inCls] <;> omega
theorem semi_anh : Disj cSemi cAnh := by intro c; simp [cSemi, cAnh, Re.inCls] <;> omega
theorem zero_d19 : Disj cZero cD19 := by intro c; simp [cZero, cD19, Re.inCls] <;> omega

/-- the positions at which a run of digits has ended -/
abbrev noDigit : List Nat → Bool := notStartsIn cDigit

/-! ### NUMBER = `[0-9]|[1-9][0-9]+` (as in the schema patterns) -/

def number : Re := .alt (.cls cDigit) (.cat (.cls cD19) (.cat (.cls cDigit) (.star (.cls cDigit))))

def number_PB : PB number 1 :=
  PB.alt PB.cls (PB.cat PB.cls RP.cls (PB.cat PB.cls RP.cls (PB.star_cls cDigit) (g := 1)) (g := 1))

def number_RP : RP number 1 := RP.of_PB number_PB

/-- at most one result of NUMBER is at the end of the digit run -/
theorem number_sparse1 : Sparse1 number noDigit := by
  apply Sparse1.alt_of_excl (Sparse1.cls _ _)
    (Sparse1.cat (runs_cls_length_le _)
      (Sparse1.cat (runs_cls_length_le _) (Sparse1.star_cls cDigit notStartsIn_self_false)))
  intro s
  cases s with
  | nil => left; simp
  | cons c r =>
    cases h : startsIn cDigit r with
    | true =>
      left
      rw [runs_cls_cons]
      split <;> simp [notStartsIn, h]
    | false =>
      right
      rw [runs_cat, runs_cls_cons]
      have : runs (cat (cls cDigit) (star (cls cDigit))) r = [] := by
        rw [runs_cat, runs_cls_of_not_startsIn h]; rfl
      split <;> simp [this]

/-! ### the attribute description pattern -/

/-- `[a-zA-Z][a-zA-Z0-9-]*` -/
def attrDescr : Re := .cat (.cls cAlpha) (.star (.cls cAnh))
/-- `0|[1-9][0-9]*` -/
def attrNum : Re := .alt (.cls cZero) (.cat (.cls cD19) (.star (.cls cDigit)))
/-- `\.NUM` -/
def attrDotNum : Re := .cat (.cls cDot) attrNum
/-- `NUM(\.NUM)*` -/
def attrOid : Re := .cat attrNum (.star attrDotNum)
/-- `;[a-zA-Z0-9-]+` -/
def attrOption : Re := .cat (.cls cSemi) (.cat (.cls cAnh) (.star (.cls cAnh)))
/-- `(;option)*\Z` -/
def attrOptions : Re := .cat (.star attrOption) .eos

/-- the generated term is the composition of the named parts -/
theorem attr_eq : Regexes.filter_ATTRIBUTE_PATTERN = .cat (.alt attrDescr attrOid) attrOptions := rfl

def attrDescr_PB : PB attrDescr 1 := PB.cat PB.cls RP.cls (PB.star_cls cAnh)
def attrDescr_RP : RP attrDescr 1 := RP.of_PB attrDescr_PB
def attrDescr_sparse : Sparse attrDescr (startsIn cSemi) :=
  Sparse.cat RP.cls (Sparse1.star_cls cAnh semi_anh.starts).sparse

def attrNum_PB : PB attrNum 1 :=
  PB.alt PB.cls (PB.cat PB.cls RP.cls (PB.star_cls cDigit) (g := 1))
def attrNum_RP : RP attrNum 1 := RP.of_PB attrNum_PB

theorem attrNum_sparse1 : Sparse1 attrNum noDigit := by
  apply Sparse1.alt_of_excl (Sparse1.cls _ _)
    (Sparse1.cat (runs_cls_length_le _) (Sparse1.star_cls cDigit notStartsIn_self_false))
  intro s
  cases s with
  | nil => left; simp
  | cons c r =>
    cases h : inCls cZero c with
    | true =>
      right
      rw [runs_cat, runs_cls_cons, zero_d19 c h]; rfl
    | false =>
      left
      rw [runs_cls_cons, h]; rfl

def attrDotNum_dead : Dead attrDotNum (startsIn cDot) := Dead.cat (Dead.cls cDot) _
def attrDotNum_dead' : Dead attrDotNum noDigit := attrDotNum_dead.mono digit_dot.not_false
def attrDotNum_PB : PB attrDotNum 1 := PB.cat PB.cls RP.cls attrNum_PB
def attrDotNum_RP : RP attrDotNum 1 := RP.of_PB attrDotNum_PB
theorem attrDotNum_sparse1 : Sparse1 attrDotNum noDigit := Sparse1.cat (runs_cls_length_le _) attrNum_sparse1

def attrDotNums_PB : PB (.star attrDotNum) 2 :=
  PB.star_chain noDigit attrDotNum_dead' attrDotNum_sparse1 attrDotNum_PB attrDotNum_RP
def attrDotNums_RP : RP (.star attrDotNum) 2 :=
  RP.star_chain noDigit attrDotNum_dead' attrDotNum_sparse1 attrDotNum_RP

def attrOid_PB : PB attrOid 2 :=
  PB.cat_munch noDigit attrNum_PB attrNum_RP attrNum_sparse1.sparse (Cheap.star_of_Dead attrDotNum_dead')
    attrDotNums_PB
def attrOid_RP : RP attrOid 2 :=
  RP.cat_munch noDigit attrNum_RP attrNum_sparse1.sparse (Cheap.star_of_Dead attrDotNum_dead') attrDotNums_RP

def attrOid_sparse : Sparse attrOid (startsIn cSemi) :=
  Sparse.cat_munch noDigit attrNum_sparse1.sparse
    (pass_star_of_Dead attrDotNum_dead digit_dot.not_false digit_semi.not_false)
    (Sparse1.star_chain (startsIn cDot) noDigit attrDotNum_dead attrDotNum_sparse1
      digit_dot.symm.starts_not digit_semi.symm.starts_not semi_dot.starts).sparse

def attrOption_dead : Dead attrOption (startsIn cSemi) := Dead.cat (Dead.cls cSemi) _
def attrOption_PB : PB attrOption 1 :=
  PB.cat PB.cls RP.cls (PB.cat PB.cls RP.cls (PB.star_cls cAnh) (g := 1))
def attrOption_RP : RP attrOption 1 := RP.of_PB attrOption_PB
theorem attrOption_sparse1 : Sparse1 attrOption (startsIn cSemi) :=
  Sparse1.cat (runs_cls_length_le _)
    (Sparse1.cat (runs_cls_length_le _) (Sparse1.star_cls cAnh semi_anh.starts))

def attrOptions_PB : PB attrOptions 2 :=
  PB.cat (PB.star_chain (startsIn cSemi) attrOption_dead attrOption_sparse1 attrOption_PB attrOption_RP (g := 2))
    (RP.star_chain (startsIn cSemi) attrOption_dead attrOption_sparse1 attrOption_RP (g := 2)) PB.eos
def attrOptions_cheap : Cheap attrOptions (startsIn cSemi) :=
  Cheap.cat_const (Cheap.star_of_Dead attrOption_dead) PB.eos

def attr_PB : PB (.cat (.alt attrDescr attrOid) attrOptions) 2 :=
  PB.cat_munch (startsIn cSemi) (PB.alt attrDescr_PB attrOid_PB (g := 2)) (RP.alt attrDescr_RP attrOid_RP (g := 2))
    (Sparse.alt attrDescr_sparse attrOid_sparse) attrOptions_cheap attrOptions_PB

/-! ### NOIDLEN_MATCH

The translator drops capturing groups, so the generated term contains no `group` nodes. -/

/-- `\.NUMBER` -/
def noidDotNumber : Re := .cat (.cls cDot) number
/-- `(\.NUMBER)+` -/
def noidDotNumbers : Re := .cat noidDotNumber (.star noidDotNumber)
/-- `NUMBER(\.NUMBER)+` -/
def noidOid : Re := .cat number noidDotNumbers
/-- `\{NUMBER\}` -/
def noidLen : Re := .cat (.cls cLbrace) (.cat number (.cls cRbrace))

/-- the generated term is the composition of the named parts -/
theorem noid_eq : Regexes.schema_NOIDLEN_MATCH = .cat noidOid noidLen := rfl

def noidDotNumber_dead : Dead noidDotNumber (startsIn cDot) := Dead.cat (Dead.cls cDot) _
def noidDotNumber_dead' : Dead noidDotNumber noDigit := noidDotNumber_dead.mono digit_dot.not_false
def noidDotNumber_PB : PB noidDotNumber 1 := PB.cat PB.cls RP.cls number_PB
def noidDotNumber_RP : RP noidDotNumber 1 := RP.of_PB noidDotNumber_PB
theorem noidDotNumber_sparse1 : Sparse1 noidDotNumber noDigit :=
  Sparse1.cat (runs_cls_length_le _) number_sparse1

def noidDotNumberStar_PB : PB (.star noidDotNumber) 2 :=
  PB.star_chain noDigit noidDotNumber_dead' noidDotNumber_sparse1 noidDotNumber_PB noidDotNumber_RP
def noidDotNumberStar_RP : RP (.star noidDotNumber) 2 :=
  RP.star_chain noDigit noidDotNumber_dead' noidDotNumber_sparse1 noidDotNumber_RP

def noidDotNumbers_dead : Dead noidDotNumbers noDigit := Dead.cat noidDotNumber_dead' _
def noidDotNumbers_PB : PB noidDotNumbers 2 :=
  PB.cat_munch noDigit noidDotNumber_PB noidDotNumber_RP noidDotNumber_sparse1.sparse
    (Cheap.star_of_Dead noidDotNumber_dead') noidDotNumberStar_PB
def noidDotNumbers_RP : RP noidDotNumbers 2 :=
  RP.cat_munch noDigit noidDotNumber_RP noidDotNumber_sparse1.sparse
    (Cheap.star_of_Dead noidDotNumber_dead') noidDotNumberStar_RP
def noidDotNumbers_sparse : Sparse noidDotNumbers (startsIn cLbrace) :=
  Sparse.cat_munch noDigit noidDotNumber_sparse1.sparse
    (pass_star_of_Dead noidDotNumber_dead digit_dot.not_false digit_lbrace.not_false)
    (Sparse1.star_chain (startsIn cDot) noDigit noidDotNumber_dead noidDotNumber_sparse1
      digit_dot.symm.starts_not digit_lbrace.symm.starts_not lbrace_dot.starts).sparse

def noidOid_PB : PB noidOid 2 :=
  PB.cat_munch noDigit number_PB number_RP number_sparse1.sparse
    (Cheap.of_Dead noidDotNumbers_dead) noidDotNumbers_PB (g := 2)
def noidOid_RP : RP noidOid 2 :=
  RP.cat_munch noDigit number_RP number_sparse1.sparse
    (Cheap.of_Dead noidDotNumbers_dead) noidDotNumbers_RP (g := 2)
def noidOid_sparse : Sparse noidOid (startsIn cLbrace) :=
  Sparse.cat_munch noDigit number_sparse1.sparse (pass_of_Dead noidDotNumbers_dead _)
    noidDotNumbers_sparse

def noidLen_dead : Dead noidLen (startsIn cLbrace) := Dead.cat (Dead.cls cLbrace) _
def noidLen_PB : PB noidLen 1 :=
  PB.cat PB.cls RP.cls (PB.cat number_PB number_RP PB.cls (g := 1))

def noid_PB : PB (.cat noidOid noidLen) 2 :=
  PB.cat_munch (startsIn cLbrace) noidOid_PB noidOid_RP noidOid_sparse (Cheap.of_Dead noidLen_dead) noidLen_PB

end Small

end Verif.Proofs.XC
