/-
Conversions between the values of the hand model (`Verif.Tag`, `Verif.Header`, naturals) and the
values the generated code computes with (`Asn1Gen.ASN1Tag`, `Asn1Gen.ASN1Header`, Python ints).
-/
import Verif.Generated.Asn1Gen
import Verif.Proofs.Asn1GenOctet

namespace Verif.Proofs.Asn1Gen

open Verif Verif.PyRt Verif.Asn1Gen

/-- a model tag as the named tuple `ASN1Tag` -/
def ofTag (t : Tag) : ASN1Tag :=
  { tag_class := (t.cls : Int), tag_number := (t.num : Int), is_constructed := t.cons }

/-- a model header as the named tuple `ASN1Header` -/
def ofHeader (h : Header) : ASN1Header :=
  { tag := ofTag h.tag, tag_length := (h.hlen : Int), length := (h.len : Int) }

theorem ofTag_inj {a b : Tag} : ofTag a = ofTag b ↔ a = b := by
  cases a; cases b
  simp only [ofTag, ASN1Tag.mk.injEq, Tag.mk.injEq]
  constructor
  · rintro ⟨h1, h2, h3⟩; exact ⟨by omega, h3, by omega⟩
  · rintro ⟨h1, h2, h3⟩; subst h1; subst h2; subst h3; exact ⟨rfl, rfl, rfl⟩

/-- the tag a reader/writer uses: the caller's, else the universal tag `num` (primitive) -/
def tagOr (tag : Option ASN1Tag) (num : Int) : ASN1Tag :=
  tag.getD { tag_class := 0, tag_number := num, is_constructed := false }

/-- the expected tag chosen by `_read_asn1_*`: `tag`, else the header's own tag, else universal `num` -/
def selTag (tag : Option ASN1Tag) (header : Option ASN1Header) (num : Int) : ASN1Tag :=
  match tag, header with
  | some t, _ => t
  | none, some h => h.tag
  | none, none => { tag_class := 0, tag_number := num, is_constructed := false }

end Verif.Proofs.Asn1Gen
