/-
Tie proofs for `_pack_asn1_octet_number` / `_unpack_asn1_octet_number`:
the generated definitions (`Verif.Asn1Gen`) against the hand model (`Verif/Model/Ber.lean`).
-/
import Verif.Generated.Asn1Gen
import Verif.Proofs.Asn1GenBase

namespace Verif.Proofs.Asn1Gen

open Verif Verif.PyRt Verif.Asn1Gen

/-! ### `_pack_asn1_octet_number` -/

/-- the loop once `num_octets` is non-empty: every further 7-bit group gets the continuation bit -/
theorem pack_octet_loop_tail : ∀ (fuel m : Nat) (acc : List Nat), m < fuel → acc ≠ [] →
    pack_asn1_octet_number_while1 fuel acc (m : Int)
      = .ok (acc ++ (digits128 fuel m).map (· + 128), 0) := by
  intro fuel; induction fuel with
  | zero => intro m acc h; omega
  | succ f ih =>
    intro m acc h hacc
    rw [pack_asn1_octet_number_while1]
    by_cases h0 : m = 0
    · subst h0; simp [digits128]
    · have hne : (m : Int) ≠ 0 := by omega
      have hlen : len acc ≠ 0 := by
        cases acc with
        | nil => exact absurd rfl hacc
        | cons a t => simp [len]; omega
      simp only [hne, ne_eq, not_false_eq_true, ↓reduceIte, hlen, pyAnd_127, pyShr_7,
        pyOr_128_low (m % 128) (by omega), baAppend_nat _ (m % 128 + 128) (by omega), bind_ok]
      rw [ih (m / 128) _ (by omega) (by simp)]
      simp [digits128, h0]

theorem pack_asn1_octet_number_eq (fuel n : Nat) (h : n < fuel) :
    pack_asn1_octet_number fuel (n : Int) = .ok (packOctetNumber n) := by
  cases fuel with
  | zero => omega
  | succ f =>
    simp only [pack_asn1_octet_number, pack_asn1_octet_number_while1]
    by_cases h0 : n = 0
    · subst h0; simp [packOctetNumber, digits128]
    · have hne : (n : Int) ≠ 0 := by omega
      simp only [hne, ne_eq, not_false_eq_true, ↓reduceIte, len, List.length_nil, pyAnd_127, pyShr_7,
        baAppend_nat _ (n % 128) (by omega), bind_ok, Int.natCast_zero, not_true_eq_false]
      rw [pack_octet_loop_tail f (n / 128) _ (by omega) (by simp)]
      simp only [bind_ok, packOctetNumber, digits128, h0, ↓reduceIte]
      rw [digits128_fuel f n (n / 128) (by omega) (by omega)]
      simp

/-! ### `_unpack_asn1_octet_number` -/

theorem unpack_octet_loop : ∀ (rest : List Nat) (data : List Nat) (fuel k acc : Nat),
    IsBytes data → data.drop k = rest → rest.length < fuel →
    unpack_asn1_octet_number_while1 data fuel (k : Int) (acc : Int)
      = (unpackOctetNumber rest acc k).map (fun r => ((r.2 : Int), (r.1 : Int))) := by
  intro rest; induction rest with
  | nil =>
    intro data fuel k acc hb hd hf
    cases fuel with
    | zero => simp at hf
    | succ f =>
      rw [unpack_asn1_octet_number_while1]
      have hk : data.length ≤ k := by
        have := congrArg List.length hd; simp at this; omega
      have : len data < (k : Int) + 1 := by simp [len]; omega
      simp [this, unpackOctetNumber, Except.map]
  | cons e rest ih =>
    intro data fuel k acc hb hd hf
    cases fuel with
    | zero => simp at hf
    | succ f =>
      rw [unpack_asn1_octet_number_while1]
      have hk : k < data.length := by
        have := congrArg List.length hd; simp at this; omega
      have hlt : ¬ (len data < (k : Int) + 1) := by simp [len]; omega
      have he : e < 256 := by
        apply hb
        have : e ∈ data.drop k := by rw [hd]; simp
        exact List.mem_of_mem_drop this
      have hd' : data.drop (k + 1) = rest := by
        have := congrArg (List.drop 1) hd
        simpa [List.drop_drop, Nat.add_comm] using this
      simp only [hlt, ↓reduceIte, slice_one, hd, List.take_succ_cons, List.take_zero, unpackB_single,
        bind_ok, pyShl_7, pyAnd_127, pyAnd_128_byte e he, unpackOctetNumber]
      by_cases hc : 128 ≤ e
      · have := ih data f (k + 1) (acc * 128 + e % 128) hb hd' (by simp at hf; omega)
        simp only [hc, ↓reduceIte, ne_eq, Classical.not_not]
        rw [show ((k : Int) + 1) = ((k + 1 : Nat) : Int) by omega,
            show ((acc * 128 : Nat) : Int) + ((e % 128 : Nat) : Int) = ((acc * 128 + e % 128 : Nat) : Int) by omega]
        simpa using this
      · simp [hc, Except.map]

/-- value and octet count as Python ints -/
def castPair (r : Nat × Nat) : Int × Int := ((r.1 : Int), (r.2 : Int))

theorem unpack_asn1_octet_number_eq (fuel : Nat) (bs : List Nat) (hb : IsBytes bs)
    (h : bs.length < fuel) :
    unpack_asn1_octet_number fuel bs = (unpackOctetNumber bs 0 0).map castPair := by
  simp only [unpack_asn1_octet_number]
  have := unpack_octet_loop bs bs fuel 0 0 hb (by simp) h
  simp only [Int.natCast_zero] at this
  rw [this]
  cases unpackOctetNumber bs 0 0 with
  | error e => rfl
  | ok r => rfl

end Verif.Proofs.Asn1Gen
