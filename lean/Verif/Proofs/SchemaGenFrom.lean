/-
Generated `from_string` of the three description classes = `parseOC` / `parseAT` / `parseDCR` of the hand model
(the match, then the post-processing `postOC` / `postAT` / `postDCR` of the named groups).
-/
import Verif.Generated.SchemaGen
import Verif.Proofs.SchemaGenExts
import Verif.Proofs.SchemaCostTop
import Verif.Proofs.SchemaCostAT

namespace Verif.Proofs.SchemaGen
open Verif Verif.PyRt Verif.PyRtStr Verif.Schema Verif.SchemaGen
open Verif.Proofs.SchemaCost (matchOC_le matchAT_le matchDCR_le glen_getD)

/-- the model's only error is ValueError -/
def ofPErr {α : Type} : Except PErr α → Except Err α
  | .error _ => .error .valueError
  | .ok a => .ok a

theorem names_eq (o : Option Str) :
    (match o with
      | none => []
      | some names => if names ≠ [] then
          ((pySplit 32 (pyStrip (ofString "()") names)).filter (fun n => decide (n ≠ []))).map
            (fun n => pyStrip (ofString "'") n) else [])
    = parseNames o := by
  cases o with
  | none => rfl
  | some v =>
    unfold parseNames
    by_cases hv : v = []
    · subst hv; rfl
    · have hv' : v.isEmpty = false := by cases v with | nil => exact absurd rfl hv | cons _ _ => rfl
      simp only [hv, hv', ne_eq, not_false_eq_true, if_true, Bool.false_eq_true, if_false]
      rw [pySplit_eq, pyStrip_eq]
      show List.map _ (List.filter _ (splitOn SPC (stripChars [LP, RP] v))) = _
      congr 1
      apply List.filter_congr
      intro n _
      cases n <;> rfl

theorem desc_eq (o : Option Str) :
    (match o with | none => none | some a => some (parse_qdstring a)) = o.map parseQd := by
  cases o <;> rfl

theorem beq_str (a b : Str) : (a == b) = decide (a = b) := by
  by_cases h : a = b <;> simp [h]

theorem kind_eq (k : Option Str) :
    pyDictGetD [(ofString "ABSTRACT", (0 : Nat)), (ofString "AUXILIARY", (2 : Nat))] k (1 : Nat)
    = (if k = some (ofString "ABSTRACT") then 0 else if k = some (ofString "AUXILIARY") then 2 else 1) := by
  cases k with
  | none => rfl
  | some x =>
    unfold pyDictGetD
    simp only [List.find?, beq_str, Option.some.injEq]
    by_cases h1 : ofString "ABSTRACT" = x
    · simp [h1]
    · by_cases h2 : ofString "AUXILIARY" = x
      · have h1' : ¬ x = ofString "ABSTRACT" := fun h => h1 h.symm
        simp [h1, h2, h1']
      · have h1' : ¬ x = ofString "ABSTRACT" := fun h => h1 h.symm
        have h2' : ¬ x = ofString "AUXILIARY" := fun h => h2 h.symm
        simp [h1, h2, h1', h2']

theorem oc_post_eq (fuel : Nat) (g : OCGroups) (hf : (g.extensions.getD []).length < fuel)
    (hc : OidsClean g.sup ∧ OidsClean g.must ∧ OidsClean g.may) :
    (parse_extensions fuel (some (groupReq g.extensions)) >>= fun t =>
      Except.ok ({ oid := groupReq g.oid,
                   names := (match g.name with
                      | none => []
                      | some names => if names ≠ [] then
                          ((pySplit 32 (pyStrip (ofString "()") names)).filter (fun n => decide (n ≠ []))).map
                            (fun n => pyStrip (ofString "'") n) else []),
                   desc := (match g.desc with | none => none | some a => some (parse_qdstring a)),
                   obsolete := g.obsolete, sup := parse_oids g.sup,
                   kind := pyDictGetD [(ofString "ABSTRACT", (0 : Nat)), (ofString "AUXILIARY", (2 : Nat))] g.kind (1 : Nat),
                   must := parse_oids g.must, may := parse_oids g.may, exts := t } : ObjectClass))
    = ofPErr (postOC g) := by
  rw [parse_extensions_some fuel (groupReq g.extensions) hf, names_eq, desc_eq, kind_eq, parse_oids_eq _ hc.1, parse_oids_eq _ hc.2.1,
    parse_oids_eq _ hc.2.2]
  unfold postOC groupReq
  cases parseExts (g.extensions.getD []) <;> rfl

theorem oc_from_string_eq (fuel : Nat) (s : Str) (hf : s.length < fuel)
    (hc : ∀ g, matchOC s = some g → OidsClean g.sup ∧ OidsClean g.must ∧ OidsClean g.may) :
    ObjectClassDescription_from_string fuel s = ofPErr (parseOC s) := by
  rw [Proofs.parseOC_eq_match]
  unfold ObjectClassDescription_from_string
  cases hm : matchOC s with
  | none => rfl
  | some g =>
    have hl := (matchOC_le hm).2.2.2.2.2.2.2
    rw [← glen_getD] at hl
    exact oc_post_eq fuel g (by omega) (hc g hm)

theorem usage_eq (k : Option Str) :
    pyDictGetD [(ofString "directoryOperation", (1 : Nat)), (ofString "distributedOperation", (2 : Nat)),
      (ofString "dSAOperation", (3 : Nat))] k (0 : Nat)
    = (if k = some (ofString "directoryOperation") then 1
       else if k = some (ofString "distributedOperation") then 2
       else if k = some (ofString "dSAOperation") then 3 else 0) := by
  cases k with
  | none => rfl
  | some x =>
    unfold pyDictGetD
    simp only [List.find?, beq_str, Option.some.injEq]
    by_cases h1 : ofString "directoryOperation" = x
    · simp [h1]
    · have h1' : ¬ x = ofString "directoryOperation" := fun h => h1 h.symm
      by_cases h2 : ofString "distributedOperation" = x
      · simp [h1, h2, h1']
      · have h2' : ¬ x = ofString "distributedOperation" := fun h => h2 h.symm
        by_cases h3 : ofString "dSAOperation" = x
        · simp [h1, h2, h3, h1', h2']
        · have h3' : ¬ x = ofString "dSAOperation" := fun h => h3 h.symm
          simp [h1, h2, h3, h1', h2', h3']

theorem take_takeWhile (p : Nat → Bool) : ∀ (s : Str), s.take (s.takeWhile p).length = s.takeWhile p
  | [] => rfl
  | c :: r => by
    by_cases h : p c = true
    · simp [List.takeWhile_cons, h, take_takeWhile p r]
    · simp [List.takeWhile_cons, h]

theorem mem_takeWhile_p (p : Nat → Bool) : ∀ (s : Str) (x : Nat), x ∈ s.takeWhile p → p x = true
  | [], x, h => by simp at h
  | c :: r, x, h => by
    by_cases hc : p c = true
    · simp only [List.takeWhile_cons, hc, if_true] at h
      rcases List.mem_cons.mp h with h | h
      · subst h; exact hc
      · exact mem_takeWhile_p p r x h
    · simp [List.takeWhile_cons, hc] at h

/-- the text of a NUMBER that the scanner accepted: non-empty, decimal digits only -/
theorem number_consumed {s r : Str} (h : number s = some r) :
    consumed s r ≠ [] ∧ (consumed s r).all isAsciiDigit = true := by
  unfold number at h
  cases hs : s with
  | nil => rw [hs] at h; simp at h
  | cons c t =>
    rw [hs] at h
    by_cases hc : isDigit c = true
    · simp only [List.takeWhile_cons, hc, if_true] at h
      cases ht : t.takeWhile isDigit with
      | nil =>
        rw [ht] at h
        simp only [Option.some.injEq] at h
        subst h
        simp [consumed, isAsciiDigit]
        simpa [isDigit] using hc
      | cons d u =>
        rw [ht] at h
        by_cases h48 : c = 48
        · simp [h48] at h
        · simp only [h48, if_false, Option.some.injEq] at h
          subst h
          have e : consumed (c :: t) (List.drop (c :: d :: u).length (c :: t)) = c :: d :: u := by
            unfold consumed
            have hl : (c :: d :: u).length ≤ (c :: t).length := by
              have := Verif.Proofs.SchemaCost.takeWhile_le isDigit t
              rw [ht] at this; simp at this ⊢; omega
            simp only [List.length_drop]
            have : (c :: t).length - ((c :: t).length - (c :: d :: u).length) = (c :: d :: u).length := by omega
            rw [this]
            have := take_takeWhile isDigit (c :: t)
            simp only [List.takeWhile_cons, hc, if_true, ht] at this
            exact this
          rw [e]
          refine ⟨by simp, ?_⟩
          have hall : ∀ x ∈ t.takeWhile isDigit, isDigit x = true := fun x hx => mem_takeWhile_p isDigit t x hx
          rw [ht] at hall
          simp only [List.all_cons, Bool.and_eq_true, List.all_eq_true]
          exact ⟨hc, hall d (by simp), fun x hx => hall x (by simp [hx])⟩
    · simp [List.takeWhile_cons, hc] at h

theorem numericoid_lt {s r : Str} (h : numericoid s = some r) : r.length < s.length := by
  unfold numericoid at h
  cases hn : number s with
  | none => rw [hn] at h; simp at h
  | some r0 =>
    rw [hn] at h
    have h0 := Verif.Proofs.SchemaCost.number_mono _ _ hn
    by_cases hl : (arcs s.length r0).length < r0.length
    · simp only [hl, if_true, Option.some.injEq] at h
      subst h; omega
    · simp [hl] at h

theorem noidlenMatch_facts {s v l : Str} (h : noidlenMatch s = some (v, l)) :
    v ≠ [] ∧ l ≠ [] ∧ l.all isAsciiDigit = true := by
  unfold noidlenMatch at h
  cases hn : numericoid s with
  | none => rw [hn] at h; simp at h
  | some r =>
    rw [hn] at h
    have hlt := numericoid_lt hn
    cases r with
    | nil => simp at h
    | cons c r1 =>
      by_cases hc : c = LCURLY
      · simp only [hc, if_true] at h
        cases hm : number r1 with
        | none => rw [hm] at h; simp at h
        | some r2 =>
          rw [hm] at h
          cases r2 with
          | nil => simp at h
          | cons c2 r3 =>
            by_cases hc2 : c2 = RCURLY
            · simp only [hc2, if_true, Option.some.injEq, Prod.mk.injEq] at h
              obtain ⟨hv, hl⟩ := h
              have := number_consumed hm
              rw [hc2] at this
              rw [hl] at this
              refine ⟨?_, this.1, this.2⟩
              rw [← hv]
              unfold consumed
              intro he
              have := congrArg List.length he
              rw [List.length_take] at this
              simp only [List.length_nil, List.length_cons] at this hlt
              omega
            · simp [hc2] at h
      · simp [hc] at h

theorem pyIntDigits_ok {l : Str} (h1 : l ≠ []) (h2 : l.all isAsciiDigit = true) (h3 : l.length ≤ intMaxStrDigits) :
    pyIntDigits l = .ok (digitsVal l) := by
  unfold pyIntDigits digitsVal
  simp only [h1, h2, ne_eq, not_false_eq_true, and_self, if_true, Nat.not_lt.mpr h3, gt_iff_lt, if_false]

theorem pyIntDigits_over {l : Str} (h1 : l ≠ []) (h2 : l.all isAsciiDigit = true) (h3 : l.length > intMaxStrDigits) :
    pyIntDigits l = .error .valueError := by
  unfold pyIntDigits
  simp only [h1, h2, ne_eq, not_false_eq_true, and_self, if_true, h3]

/-- the SYNTAX length, if there is one, has at most `intMaxStrDigits` (4300) digits -/
def SynLenOk (syn : Option Str) : Prop :=
  ∀ raw v l, syn = some raw → noidlenMatch (stripChars [QUOTE] raw) = some (v, l) → l.length ≤ intMaxStrDigits

theorem at_from_string_eq (fuel : Nat) (s : Str) (hf : s.length < fuel)
    (hc : ∀ g, matchAT s = some g → SynLenOk g.syn) :
    AttributeTypeDescription_from_string fuel s = ofPErr (parseAT s) := by
  rw [Proofs.parseAT_eq_match]
  unfold AttributeTypeDescription_from_string
  cases hm : matchAT s with
  | none => rfl
  | some g =>
    have hl := (matchAT_le hm).2.2.2.2.2.2.2.2.2
    rw [← glen_getD] at hl
    have hf' : (groupReq g.extensions).length < fuel := by unfold groupReq; omega
    have hok := hc g hm
    obtain ⟨oid, name, desc, obs, sup, eq, ord, sub, syn, sv, col, num, usage, exts⟩ := g
    show (_ >>= _) = ofPErr (postAT _)
    unfold postAT
    simp only []
    cases syn with
    | none =>
      simp only [bind_ok']
      rw [parse_extensions_some fuel _ hf']
      unfold groupReq
      cases parseExts (Option.getD exts []) with
      | none => rfl
      | some e =>
        show Except.ok _ = Except.ok _
        congr 1
        congr 1
        · exact names_eq _
        · exact desc_eq _
        · exact usage_eq _
    | some raw =>
      have e : pyStrip (ofString "'") raw = stripChars [QUOTE] raw := rfl
      by_cases hr : raw = []
      · subst hr
        simp only [bind_ok']
        rw [parse_extensions_some fuel _ hf']
        unfold groupReq
        cases parseExts (Option.getD exts []) with
        | none => rfl
        | some e =>
          show Except.ok _ = Except.ok _
          congr 1
          congr 1
          · exact names_eq _
          · exact desc_eq _
          · exact usage_eq _
      · have hr' : raw.isEmpty = false := by cases raw with | nil => exact absurd rfl hr | cons _ _ => rfl
        simp only [hr, hr', ne_eq, not_false_eq_true, if_true, Bool.false_eq_true, if_false, e]
        cases hn : noidlenMatch (stripChars [QUOTE] raw) with
        | none =>
          simp only [bind_ok']
          rw [parse_extensions_some fuel _ hf']
          unfold groupReq
          cases parseExts (Option.getD exts []) with
          | none => rfl
          | some e =>
            show Except.ok _ = Except.ok _
            congr 1
            congr 1
            · exact names_eq _
            · exact desc_eq _
            · cases stripChars [QUOTE] raw <;> rfl
            · exact usage_eq _
        | some p =>
          obtain ⟨v, l⟩ := p
          have hfa := noidlenMatch_facts hn
          have hle := hok raw v l rfl hn
          simp only [bind_ok', pyIntDigits_ok hfa.2.1 hfa.2.2 hle]
          rw [parse_extensions_some fuel _ hf']
          unfold groupReq
          cases parseExts (Option.getD exts []) with
          | none => rfl
          | some e =>
            show Except.ok _ = Except.ok _
            congr 1
            congr 1
            · exact names_eq _
            · exact desc_eq _
            · simp [hfa.1]; rfl
            · exact usage_eq _

/-- the explicit divergence: a SYNTAX length of more than `intMaxStrDigits` (4300) digits makes the code raise
    ValueError in `int()`; the model (`digitsVal`, no limit) accepts the sentence when the extensions parse -/
theorem at_from_string_over_limit (fuel : Nat) (s : Str) (g : ATGroups) (raw v l : Str)
    (hm : matchAT s = some g) (hs : g.syn = some raw)
    (hn : noidlenMatch (stripChars [QUOTE] raw) = some (v, l)) (hl : l.length > intMaxStrDigits) :
    AttributeTypeDescription_from_string fuel s = .error .valueError ∧
    (∀ e, parseExts (g.extensions.getD []) = some e → ∃ d, parseAT s = .ok d ∧ d.synLen = some (digitsVal l)) := by
  have hfa := noidlenMatch_facts hn
  have hr : raw ≠ [] := by
    intro h; subst h
    have : stripChars [QUOTE] ([] : Str) = [] := rfl
    rw [this] at hn
    simp [noidlenMatch, numericoid, number] at hn
  have hr' : raw.isEmpty = false := by cases raw with | nil => exact absurd rfl hr | cons _ _ => rfl
  have e : pyStrip (ofString "'") raw = stripChars [QUOTE] raw := rfl
  constructor
  · unfold AttributeTypeDescription_from_string
    rw [hm]
    obtain ⟨oid, name, desc, obs, sup, eq, ord, sub, syn, sv, col, num, usage, exts⟩ := g
    simp only at hs
    subst hs
    show (_ >>= _) = _
    simp only [hr, ne_eq, not_false_eq_true, if_true, e, hn, bind_ok',
      pyIntDigits_over hfa.2.1 hfa.2.2 hl]
    rfl
  · intro ex hex
    rw [Proofs.parseAT_eq_match, hm]
    unfold postAT
    simp only [hex, hs, hr', Bool.false_eq_true, if_false, hn]
    exact ⟨_, rfl, rfl⟩

theorem dcr_from_string_eq (fuel : Nat) (s : Str) (hf : s.length < fuel)
    (hc : ∀ g, matchDCR s = some g → OidsClean g.aux ∧ OidsClean g.must ∧ OidsClean g.may ∧ OidsClean g.never) :
    DITContentRuleDescription_from_string fuel s = ofPErr (parseDCR s) := by
  rw [Proofs.parseDCR_eq_match]
  unfold DITContentRuleDescription_from_string
  cases hm : matchDCR s with
  | none => rfl
  | some g =>
    have hl := (matchDCR_le hm).2.2.2.2.2.2.2
    rw [← glen_getD] at hl
    have hf' : (groupReq g.extensions).length < fuel := by unfold groupReq; omega
    have hcl := hc g hm
    show (_ >>= _) = ofPErr (postDCR _)
    unfold postDCR
    rw [parse_extensions_some fuel _ hf', parse_oids_eq _ hcl.1, parse_oids_eq _ hcl.2.1, parse_oids_eq _ hcl.2.2.1,
      parse_oids_eq _ hcl.2.2.2]
    unfold groupReq
    cases parseExts (Option.getD g.extensions []) with
    | none => rfl
    | some e =>
      show Except.ok _ = Except.ok _
      congr 1
      congr 1
      · exact names_eq _
      · exact desc_eq _

end Verif.Proofs.SchemaGen
