/-
Proofs for `Verif/Props/TiesFilterStr.lean`: the generated printer (`Filter_str`, the seven leaf
`…_str` definitions, `serialize_filter_value` of `Generated/FilterGen.lean`) equals the model's
printer (`toText`, `escapeValue` of `Model/FilterText.lean`).
-/
import Verif.Generated.FilterGen

namespace Verif.FilterGenStr

open Verif Verif.FilterRt Verif.FilterGen

/-! ### runtime primitives vs. the model's helpers -/

theorem strJoin_eq_joinWith (sep : List Nat) : ∀ xs : List (List Nat), strJoin sep xs = joinWith sep xs
  | [] => rfl
  | [_] => rfl
  | x :: y :: r => by
    have ih := strJoin_eq_joinWith sep (y :: r)
    simp only [strJoin, joinWith, ih]

theorem strJoin_nil : ∀ xs : List (List Nat), strJoin [] xs = xs.flatten
  | [] => rfl
  | [x] => by simp [strJoin]
  | x :: y :: r => by
    have ih := strJoin_nil (y :: r)
    simp only [strJoin, ih, List.flatten_cons, List.append_nil]

theorem pyOr_nil (o : Option (List Nat)) : pyOr o [] = o.getD [] := by
  cases o with
  | none => rfl
  | some v => cases v <;> simp [pyOr]

/-! ### `_serialize_filter_value` -/

theorem serialize_filter_value_eq (v : List Nat) : serialize_filter_value v = escapeValue v := by
  simp [serialize_filter_value, escapeValue, decodeUtf8, reSubOctetClass, serialize_filter_value_rplcr,
    fmtHex02, cBackslash]

/-! ### the leaf classes -/

theorem FilterEquality_str_eq (a v : List Nat) : FilterEquality_str a v = toText (.eq a v) := by
  simp [FilterEquality_str, toText, serialize_filter_value_eq, cLParen, cEq, cRParen]

theorem FilterGreaterOrEqual_str_eq (a v : List Nat) : FilterGreaterOrEqual_str a v = toText (.ge a v) := by
  simp [FilterGreaterOrEqual_str, toText, serialize_filter_value_eq, cLParen, cEq, cRParen, cGt]

theorem FilterLessOrEqual_str_eq (a v : List Nat) : FilterLessOrEqual_str a v = toText (.le a v) := by
  simp [FilterLessOrEqual_str, toText, serialize_filter_value_eq, cLParen, cEq, cRParen, cLt]

theorem FilterApproxMatch_str_eq (a v : List Nat) : FilterApproxMatch_str a v = toText (.approx a v) := by
  simp [FilterApproxMatch_str, toText, serialize_filter_value_eq, cLParen, cEq, cRParen, cTilde]

theorem FilterPresent_str_eq (a : List Nat) : FilterPresent_str a = toText (.present a) := by
  simp [FilterPresent_str, toText, cLParen, cEq, cRParen, cStar]

theorem FilterSubstrings_str_for1_eq : ∀ (any values : List (List Nat)),
    FilterSubstrings_str_for1 any values = values ++ any.map escapeValue
  | [], values => by simp [FilterSubstrings_str_for1]
  | a :: r, values => by
    simp [FilterSubstrings_str_for1, FilterSubstrings_str_for1_eq r, serialize_filter_value_eq]

theorem FilterSubstrings_str_eq (a : List Nat) (i : Option (List Nat)) (any : List (List Nat))
    (f : Option (List Nat)) : FilterSubstrings_str a i any f = toText (.substr a i any f) := by
  simp [FilterSubstrings_str, toText, FilterSubstrings_str_for1_eq, serialize_filter_value_eq,
    strJoin_eq_joinWith, pyOr_nil, cLParen, cEq, cRParen, cStar]

theorem FilterExtensibleMatch_str_eq (rule attr : Option (List Nat)) (v : List Nat) (dn : Bool) :
    FilterExtensibleMatch_str rule attr v dn = toText (.ext rule attr v dn) := by
  cases dn <;> cases rule <;>
    simp [FilterExtensibleMatch_str, toText, serialize_filter_value_eq, strJoin_eq_joinWith, pyOr_nil,
      cLParen, cEq, cRParen, cColon]

/-! ### the dispatcher: structural induction on the filter tree -/

mutual
theorem Filter_str_eq : ∀ f : Filter, Filter_str f = toText f
  | .and fs => by
    simp [Filter_str, toText, strJoin_nil, Filter_str_map_eq fs, cLParen, cAmp, cRParen]
  | .or fs => by
    simp [Filter_str, toText, strJoin_nil, Filter_str_map_eq fs, cLParen, cPipe, cRParen]
  | .not f => by
    simp [Filter_str, toText, Filter_str_eq f, cLParen, cBang, cRParen]
  | .eq a v => by rw [Filter_str, FilterEquality_str_eq]
  | .substr a i any f => by rw [Filter_str, FilterSubstrings_str_eq]
  | .ge a v => by rw [Filter_str, FilterGreaterOrEqual_str_eq]
  | .le a v => by rw [Filter_str, FilterLessOrEqual_str_eq]
  | .present a => by rw [Filter_str, FilterPresent_str_eq]
  | .approx a v => by rw [Filter_str, FilterApproxMatch_str_eq]
  | .ext r a v d => by rw [Filter_str, FilterExtensibleMatch_str_eq]
  | .custom _ => by simp [Filter_str, toText]
theorem Filter_str_map_eq : ∀ fs : List Filter, (Filter_str_map fs).flatten = toTexts fs
  | [] => by simp [Filter_str_map, toTexts]
  | f :: r => by
    simp [Filter_str_map, toTexts, Filter_str_eq f, Filter_str_map_eq r]
end

/-! ### the result of `_serialize_filter_value` is ASCII (so the strict `.decode("utf-8")` cannot raise) -/

theorem facts_unescaped_ascii :
    ∀ b, b < 256 → Facts.escapedBytes.contains b = false → b < 127 := by
  decide +kernel

theorem hexDigitLower_lt : ∀ n, n < 16 → hexDigitLower n < 127 := by decide

theorem serialize_filter_value_ascii (v : List Nat) (hv : ∀ b ∈ v, b < 256) :
    ∀ c ∈ serialize_filter_value v, c < 127 := by
  intro c hc
  rw [serialize_filter_value_eq] at hc
  simp only [escapeValue, List.mem_flatten, List.mem_map] at hc
  obtain ⟨l, ⟨b, hb, rfl⟩, hcl⟩ := hc
  have hb256 := hv b hb
  by_cases he : Facts.escapedBytes.contains b = true
  · rw [if_pos he] at hcl
    have h1 : hexDigitLower (b / 16) < 127 := hexDigitLower_lt _ (by omega)
    have h2 : hexDigitLower (b % 16) < 127 := hexDigitLower_lt _ (by omega)
    simp only [List.mem_cons, List.not_mem_nil, or_false] at hcl
    rcases hcl with rfl | rfl | rfl
    · decide
    · exact h1
    · exact h2
  · rw [if_neg he] at hcl
    simp only [List.mem_cons, List.not_mem_nil, or_false] at hcl
    subst hcl
    exact facts_unescaped_ascii c hb256 (by simpa using he)

end Verif.FilterGenStr
