/-
The unpacking loops of `LDAPSession.receive` (round 12, audit item S2).

Since round 12 the two `while reader:` loops of `receive` (buffered path, line 203; direct path, line 216) are
TRANSLATED (`LDAP*_LDAPSession_receive_while1 / _while2` in `Verif/Generated/SessionGen.lean`); the only abstract
part is the call `unpack_ldap_message(reader, options)`, the parameter `unpack`.  Here: with `unpack :=` the model's
one-message decoder `decMsg regs depth`, each generated loop computes exactly what the model's `parseLoop` computes:
the messages IN ORDER (appended to what was collected before), the unconsumed suffix, the error class.
-/
import Verif.Proofs.SessionGenRecv

set_option linter.unusedSimpArgs false

namespace Verif.Proofs.SessionGen

open Verif Verif.PyRtS Verif.SessionGen

/-- what a `while reader:` loop leaves for a result of `parseLoop`: the reader position, the messages appended
    in order to those collected before (`acc`), or the exception class -/
def whileRes (acc : List Msg) (self : St) : Except Err (List Msg × Bytes) → Res St (List Nat × List Msg)
  | .ok (ms, rest) => (.ok (rest, acc ++ ms), self)
  | .error e => (.error (unpackExc e), self)

/-- the same for the loop of the direct path: on `NotEnougData` its handler stores the unconsumed octets in
    `_incoming_buffer` (and `get_remaining_data()` empties the reader); the buffer is empty on entry -/
def whileResDirect (acc : List Msg) (self : St) : Except Err (List Msg × Bytes) → Res St (List Nat × List Msg)
  | .ok (ms, rest) => (.ok ([], acc ++ ms), { self with incoming_buffer := rest })
  | .error e => (.error (unpackExc e), self)

/-! ### buffered path (line 203) -/

theorem client_while1_eq (regs : Regs) (depth : Nat) : ∀ (fuel : Nat) (reader : Bytes) (acc : List Msg) (self : St),
    LDAPClient_LDAPSession_receive_while1 (decMsg regs depth) fuel reader acc self
      = whileRes acc self (parseLoop regs depth fuel reader) := by
  intro fuel
  induction fuel with
  | zero =>
    intro reader acc self
    cases reader <;> simp [LDAPClient_LDAPSession_receive_while1, parseLoop, whileRes, unpackExc]
  | succ n ih =>
    intro reader acc self
    rw [LDAPClient_LDAPSession_receive_while1, parseLoop]
    cases reader with
    | nil => simp [whileRes]
    | cons b bs =>
      simp only [List.isEmpty_cons, Bool.not_false, if_true, Bool.false_eq_true, if_false]
      cases hd : decMsg regs depth (b :: bs) with
      | error e => cases e <;> simp [whileRes]
      | ok p =>
        rcases p with ⟨m, r⟩
        simp only []
        rw [ih]
        cases parseLoop regs depth n r with
        | error e => simp [whileRes]
        | ok q => rcases q with ⟨ms, rest⟩; simp [whileRes]

theorem server_while1_eq (regs : Regs) (depth : Nat) : ∀ (fuel : Nat) (reader : Bytes) (acc : List Msg) (self : St),
    LDAPServer_LDAPSession_receive_while1 (decMsg regs depth) fuel reader acc self
      = whileRes acc self (parseLoop regs depth fuel reader) := by
  intro fuel
  induction fuel with
  | zero =>
    intro reader acc self
    cases reader <;> simp [LDAPServer_LDAPSession_receive_while1, parseLoop, whileRes, unpackExc]
  | succ n ih =>
    intro reader acc self
    rw [LDAPServer_LDAPSession_receive_while1, parseLoop]
    cases reader with
    | nil => simp [whileRes]
    | cons b bs =>
      simp only [List.isEmpty_cons, Bool.not_false, if_true, Bool.false_eq_true, if_false]
      cases hd : decMsg regs depth (b :: bs) with
      | error e => cases e <;> simp [whileRes]
      | ok p =>
        rcases p with ⟨m, r⟩
        simp only []
        rw [ih]
        cases parseLoop regs depth n r with
        | error e => simp [whileRes]
        | ok q => rcases q with ⟨ms, rest⟩; simp [whileRes]

/-! ### direct path (line 216): `_incoming_buffer` is empty on entry -/

theorem st_set_in_nil (self : St) (h : self.incoming_buffer = []) : { self with incoming_buffer := [] } = self := by
  cases self; simp_all

theorem client_while2_eq (regs : Regs) (depth : Nat) : ∀ (fuel : Nat) (reader : Bytes) (acc : List Msg) (self : St),
    self.incoming_buffer = [] →
    LDAPClient_LDAPSession_receive_while2 (decMsg regs depth) fuel reader acc self
      = whileResDirect acc self (parseLoop regs depth fuel reader) := by
  intro fuel
  induction fuel with
  | zero =>
    intro reader acc self h
    cases reader <;>
      simp [LDAPClient_LDAPSession_receive_while2, parseLoop, whileResDirect, unpackExc, st_set_in_nil self h]
  | succ n ih =>
    intro reader acc self h
    rw [LDAPClient_LDAPSession_receive_while2, parseLoop]
    cases reader with
    | nil => simp [whileResDirect, st_set_in_nil self h]
    | cons b bs =>
      simp only [List.isEmpty_cons, Bool.not_false, if_true, Bool.false_eq_true, if_false]
      cases hd : decMsg regs depth (b :: bs) with
      | error e => cases e <;> simp [whileResDirect]
      | ok p =>
        rcases p with ⟨m, r⟩
        simp only []
        rw [ih _ _ _ h]
        cases parseLoop regs depth n r with
        | error e => simp [whileResDirect]
        | ok q => rcases q with ⟨ms, rest⟩; simp [whileResDirect]

theorem server_while2_eq (regs : Regs) (depth : Nat) : ∀ (fuel : Nat) (reader : Bytes) (acc : List Msg) (self : St),
    self.incoming_buffer = [] →
    LDAPServer_LDAPSession_receive_while2 (decMsg regs depth) fuel reader acc self
      = whileResDirect acc self (parseLoop regs depth fuel reader) := by
  intro fuel
  induction fuel with
  | zero =>
    intro reader acc self h
    cases reader <;>
      simp [LDAPServer_LDAPSession_receive_while2, parseLoop, whileResDirect, unpackExc, st_set_in_nil self h]
  | succ n ih =>
    intro reader acc self h
    rw [LDAPServer_LDAPSession_receive_while2, parseLoop]
    cases reader with
    | nil => simp [whileResDirect, st_set_in_nil self h]
    | cons b bs =>
      simp only [List.isEmpty_cons, Bool.not_false, if_true, Bool.false_eq_true, if_false]
      cases hd : decMsg regs depth (b :: bs) with
      | error e => cases e <;> simp [whileResDirect]
      | ok p =>
        rcases p with ⟨m, r⟩
        simp only []
        rw [ih _ _ _ h]
        cases parseLoop regs depth n r with
        | error e => simp [whileResDirect]
        | ok q => rcases q with ⟨ms, rest⟩; simp [whileResDirect]

end Verif.Proofs.SessionGen
