/-
Auxiliary lemmas for C15 (filter text parser totality and output shape): the leaf parser
`unpackSimple` and its helpers (`indexOf`, `unescape`, `splitOn`, `substringsValue`, `extHeader`).
-/
import Verif.Spec.FilterWF
namespace Verif.Proofs.FilterTotal
open Verif

def All (Q : Nat → Prop) (l : Bytes) : Prop := ∀ b ∈ l, Q b

theorem All.drop {Q : Nat → Prop} {l : Bytes} (n : Nat) (h : All Q l) : All Q (l.drop n) :=
  fun b hb => h b (List.mem_of_mem_drop hb)
theorem All.take {Q : Nat → Prop} {l : Bytes} (n : Nat) (h : All Q l) : All Q (l.take n) :=
  fun b hb => h b (List.mem_of_mem_take hb)

theorem indexOf_lt {c : Nat} : ∀ {l : Bytes} {i : Nat}, indexOf c l = some i → i < l.length := by
  intro l
  induction l with
  | nil => intro i h; simp [indexOf] at h
  | cons b r ih =>
    intro i h
    simp only [indexOf] at h
    split at h
    · cases h; simp
    · cases h' : indexOf c r with
      | none => simp [h'] at h
      | some j =>
        simp [h'] at h
        have := ih h'
        simp; omega

theorem hexVal_lt {c : Nat} (h : isHex c = true) : hexVal c < 16 := by
  simp only [isHex, isDigit, Bool.or_eq_true, Bool.and_eq_true, decide_eq_true_eq] at h
  unfold hexVal
  simp only [isDigit, Bool.and_eq_true, decide_eq_true_eq]
  split
  · omega
  · split <;> omega

theorem unescape_bytes : ∀ (fuel : Nat) (l v : Bytes), unescape fuel l = some v → IsBytes l → IsBytes v := by
  intro fuel l
  fun_induction unescape fuel l with
  | case1 => intro v h _; cases h; intro b hb; cases hb
  | case2 => intro v h; cases h
  | case3 fuel h1 h2 r' hc ih =>
    intro v h hl
    simp only [Option.map_eq_some_iff] at h
    obtain ⟨t, hu, rfl⟩ := h
    have ht := ih t hu (fun x hx => hl x (by simp [hx]))
    intro x hx
    rcases List.mem_cons.1 hx with rfl | hx
    · have := hexVal_lt hc.2.2.1; have := hexVal_lt hc.2.2.2; omega
    · exact ht x hx
  | case4 => intro v h; cases h
  | case5 => intro v h; cases h
  | case6 fuel b r hb ih =>
    intro v h hl
    simp only [Option.map_eq_some_iff] at h
    obtain ⟨t, hu, rfl⟩ := h
    have ht := ih t hu (fun x hx => hl x (by simp [hx]))
    intro x hx
    rcases List.mem_cons.1 hx with rfl | hx
    · exact hl _ (by simp)
    · exact ht x hx

theorem unescape_ne_nil : ∀ (fuel : Nat) (l v : Bytes), unescape fuel l = some v → l ≠ [] → v ≠ [] := by
  intro fuel l v h hl
  cases l with
  | nil => exact absurd rfl hl
  | cons b r =>
    cases fuel with
    | zero => simp [unescape] at h
    | succ fuel =>
      simp only [unescape] at h
      split at h
      · split at h
        · split at h
          · simp only [Option.map_eq_some_iff] at h
            obtain ⟨t, hu, rfl⟩ := h; simp
          · cases h
        · cases h
      · simp only [Option.map_eq_some_iff] at h
        obtain ⟨t, hu, rfl⟩ := h; simp


theorem splitOn_ne_nil (sep : Nat) (l : Bytes) : splitOn sep l ≠ [] := by
  cases l with
  | nil => simp [splitOn]
  | cons b r =>
    simp only [splitOn]
    split
    · simp
    · split <;> simp

theorem splitOn_mem (sep : Nat) : ∀ (l : Bytes) (x : Bytes), x ∈ splitOn sep l → ∀ b ∈ x, b ∈ l := by
  intro l
  induction l with
  | nil => intro x hx b hb; simp [splitOn] at hx; subst hx; cases hb
  | cons c r ih =>
    intro x hx b hb
    simp only [splitOn] at hx
    split at hx
    · simp at hx; subst hx; cases hb
    · rename_i y ys hy
      split at hx
      · rcases List.mem_cons.1 hx with rfl | hx
        · cases hb
        · exact List.mem_cons_of_mem _ (ih x (by rw [hy]; exact hx) b hb)
      · rcases List.mem_cons.1 hx with rfl | hx
        · rcases List.mem_cons.1 hb with rfl | hb
          · simp
          · exact List.mem_cons_of_mem _ (ih y (by rw [hy]; simp) b hb)
        · exact List.mem_cons_of_mem _ (ih x (by rw [hy]; simp [hx]) b hb)

theorem splitOn_single_nil (sep : Nat) (l : Bytes) (h : splitOn sep l = [[]]) : l = [] := by
  cases l with
  | nil => rfl
  | cons b r =>
    simp only [splitOn] at h
    split at h
    · rename_i h'; exact absurd h' (splitOn_ne_nil _ _)
    · split at h <;> simp at h

theorem splitOn_two_nil (sep : Nat) (l : Bytes) (h : splitOn sep l = [[], []]) : l = [sep] := by
  cases l with
  | nil => simp [splitOn] at h
  | cons b r =>
    simp only [splitOn] at h
    split at h
    · simp at h
    · rename_i y ys hy
      split at h
      · rename_i hb
        simp at h
        obtain ⟨rfl, rfl⟩ := h
        rw [splitOn_single_nil sep r hy, hb]
      · simp at h

theorem getLast!_eq (l : List Bytes) (h : l ≠ []) : l.getLast! = l.getLast h :=
  List.getLast!_of_getLast? (List.getLast?_eq_some_getLast h)

/-- a value component: non-empty and made of octets -/
def Comp (x : Bytes) : Prop := x ≠ [] ∧ IsBytes x
def OComp : Option Bytes → Prop
  | none => True
  | some x => Comp x

theorem unesc_comp {v x : Bytes} (h : unescape (v.length + 1) v = some x) (hv : v.isEmpty = false)
    (hb : IsBytes v) : Comp x :=
  ⟨unescape_ne_nil _ _ _ h (by intro h'; simp [h'] at hv), unescape_bytes _ _ _ h hb⟩

theorem mids_fold (mids : List Bytes) : ∀ ms : List Bytes,
    mids.foldr (fun v acc =>
      match acc with
      | none => none
      | some l => if v.isEmpty then none else (unescape (v.length + 1) v).map (· :: l)) (some []) = some ms →
    (∀ v ∈ mids, IsBytes v) → (∀ x ∈ ms, Comp x) ∧ (ms = [] → mids = []) := by
  induction mids with
  | nil => intro ms h _; simp at h; subst h; simp
  | cons v r ih =>
    intro ms h hb
    simp only [List.foldr_cons] at h
    split at h
    · cases h
    · rename_i l hl
      split at h
      · cases h
      · rename_i hv
        simp only [Option.map_eq_some_iff] at h
        obtain ⟨x, hx, rfl⟩ := h
        have := ih l hl (fun v hv => hb v (List.mem_cons_of_mem _ hv))
        refine ⟨?_, by simp⟩
        intro y hy
        rcases List.mem_cons.1 hy with rfl | hy
        · exact unesc_comp hx (by simpa using hv) (hb v (by simp))
        · exact this.1 y hy

theorem substringsValue_ok (raw : Bytes) (i : Option Bytes) (any : List Bytes) (f : Option Bytes)
    (h : substringsValue raw = some (i, any, f)) (hne : raw ≠ [cStar]) (hb : IsBytes raw) :
    OComp i ∧ (∀ x ∈ any, Comp x) ∧ OComp f ∧ (i.isSome = true ∨ any ≠ [] ∨ f.isSome = true) := by
  unfold substringsValue at h
  split at h
  · cases h
  · cases h
  · rename_i first rest hne2 hsp
    have hrest : rest ≠ [] := fun hr => hne2 hr
    have hpiece : ∀ x ∈ first :: rest, IsBytes x := by
      intro x hx b hb'
      exact hb b (splitOn_mem cStar raw x (by rw [hsp]; exact hx) b hb')
    have hlast : rest.getLast! ∈ rest := by rw [getLast!_eq rest hrest]; exact List.getLast_mem hrest
    simp only at h
    split at h
    · rename_i fi ms la hfi hms hla
      clear hne2
      simp only [Option.some.injEq, Prod.mk.injEq] at h
      obtain ⟨rfl, rfl, rfl⟩ := h
      have hm := mids_fold rest.dropLast ms hms
        (fun v hv => hpiece v (List.mem_cons_of_mem _ (List.dropLast_subset _ hv)))
      have hi : OComp fi := by
        split at hfi
        · cases hfi; trivial
        · rename_i he
          simp only [Option.map_eq_some_iff] at hfi
          obtain ⟨x, hx, rfl⟩ := hfi
          exact unesc_comp hx (by simpa using he) (hpiece first (by simp))
      have hl : OComp la := by
        split at hla
        · cases hla; trivial
        · rename_i he
          simp only [Option.map_eq_some_iff] at hla
          obtain ⟨x, hx, rfl⟩ := hla
          exact unesc_comp hx (by simpa using he) (hpiece _ (List.mem_cons_of_mem _ hlast))
      refine ⟨hi, hm.1, hl, ?_⟩
      -- at least one component
      by_cases hms0 : ms = []
      · have hd := hm.2 hms0
        by_cases h1 : first.isEmpty = true
        · by_cases h2 : rest.getLast!.isEmpty = true
          · exfalso
            apply hne
            have : rest = [[]] := by
              have := List.dropLast_concat_getLast hrest
              rw [hd, ← getLast!_eq rest hrest] at this
              rw [List.isEmpty_iff.1 h2] at this
              simpa using this.symm
            apply splitOn_two_nil
            rw [hsp, this]
            rw [List.isEmpty_iff.1 h1]
          · right; right
            rw [if_neg h2] at hla
            simp only [Option.map_eq_some_iff] at hla
            obtain ⟨x, _, rfl⟩ := hla; rfl
        · left
          rw [if_neg h1] at hfi
          simp only [Option.map_eq_some_iff] at hfi
          obtain ⟨x, _, rfl⟩ := hfi; rfl
      · right; left; exact hms0
    · cases h


def dnSplit (rest : List Bytes) : Bool × List Bytes :=
  match rest with
  | d :: r => if d.map lowerAscii = [100, 110] then (true, r) else (false, rest)
  | [] => (false, rest)

def extRest (attr : Option Bytes) (dn : Bool) : List Bytes → Option (Option Bytes × Bool × Option Bytes)
  | [] => some (attr, dn, none)
  | [r] => if validAttr r then some (attr, dn, some r) else none
  | _ :: _ :: _ => none

theorem extHeader_eq (header : Bytes) : extHeader header =
    match splitOn cColon header with
    | [] => none
    | h0 :: rest =>
      if (!(h0.isEmpty || validAttr h0)) = true then none
      else extRest (if h0.isEmpty then none else some h0) (dnSplit rest).1 (dnSplit rest).2 := by
  unfold extHeader
  generalize splitOn cColon header = sp
  cases sp with
  | nil => rfl
  | cons h0 rest =>
    simp only
    split
    · rfl
    · cases rest with
      | nil => rfl
      | cons d r =>
        by_cases hd : List.map lowerAscii d = [100, 110]
        · simp only [dnSplit, hd, if_true]
          rcases r with _ | ⟨a, _ | ⟨b, t⟩⟩ <;> first | rfl | simp [extRest]
        · simp only [dnSplit, hd, if_false]
          rcases r with _ | ⟨b, t⟩ <;> first | rfl | simp [extRest]

theorem dnSplit_false (rest : List Bytes) (h : (dnSplit rest).1 = false) :
    (dnSplit rest).2 = rest ∧ ∀ d r, rest = d :: r → isDnWord d = false := by
  unfold dnSplit at *
  split
  · rename_i d r
    split
    · rename_i hd; simp [hd] at h
    · rename_i hd
      refine ⟨rfl, ?_⟩
      intro d' r' hdr
      cases hdr
      simpa [isDnWord] using hd
  · exact ⟨rfl, by intro d r hdr; cases hdr⟩

theorem extRest_ok (attr : Option Bytes) (dn : Bool) (rest1 : List Bytes) (attr' : Option Bytes) (dn' : Bool)
    (rule : Option Bytes) (h : extRest attr dn rest1 = some (attr', dn', rule)) :
    attr' = attr ∧ dn' = dn ∧
      ((rule = none ∧ rest1 = []) ∨ ∃ r, rule = some r ∧ rest1 = [r] ∧ validAttr r = true) := by
  unfold extRest at h
  split at h
  · simp only [Option.some.injEq, Prod.mk.injEq] at h
    obtain ⟨rfl, rfl, rfl⟩ := h
    exact ⟨rfl, rfl, Or.inl ⟨rfl, rfl⟩⟩
  · split at h
    · rename_i r hr
      simp only [Option.some.injEq, Prod.mk.injEq] at h
      obtain ⟨rfl, rfl, rfl⟩ := h
      exact ⟨rfl, rfl, Or.inr ⟨r, rfl, rfl, hr⟩⟩
    · cases h
  · cases h

theorem extHeader_ok (header : Bytes) (attr : Option Bytes) (dn : Bool) (rule : Option Bytes)
    (h : extHeader header = some (attr, dn, rule)) :
    (∀ a, attr = some a → validAttr a = true) ∧
    (∀ r, rule = some r → validAttr r = true ∧ (dn = false → isDnWord r = false)) ∧
    (header ≠ [] → attr.isSome = true ∨ rule.isSome = true ∨ dn = true) := by
  rw [extHeader_eq] at h
  split at h
  · cases h
  · rename_i h0 rest hsp
    split at h
    · cases h
    · rename_i hok
      obtain ⟨rfl, rfl, hr⟩ := extRest_ok _ _ _ _ _ _ h
      clear h
      have key := dnSplit_false rest
      refine ⟨?_, ?_, ?_⟩
      · by_cases he : h0.isEmpty = true
        · rw [if_pos he]; intro a ha; cases ha
        · rw [if_neg he]
          intro a ha; cases ha
          simpa [he] using hok
      · rcases hr with ⟨rfl, _⟩ | ⟨r, rfl, hr1, hv⟩
        · intro r hr; cases hr
        · intro r' hr'; cases hr'
          refine ⟨hv, fun hd => ?_⟩
          have := key hd
          exact this.2 r [] (by rw [← this.1, hr1])
      · intro hne
        by_cases he : h0.isEmpty = true
        · rcases hr with ⟨rfl, hr1⟩ | ⟨r, rfl, _, _⟩
          · right; right
            cases hd : (dnSplit rest).1 with
            | true => rfl
            | false =>
              exfalso
              have := (key hd).1
              rw [hr1] at this
              apply hne
              apply splitOn_single_nil cColon
              rw [hsp, List.isEmpty_iff.1 he, ← this]
          · right; left; rfl
        · left; simp [he]


def valueLen (tail : Bytes) : Nat := match indexOf cRParen tail with | some i => i | none => tail.length

theorem valueLen_le (tail : Bytes) : valueLen tail ≤ tail.length := by
  unfold valueLen
  split
  · rename_i i hi; exact Nat.le_of_lt (indexOf_lt hi)
  · exact Nat.le_refl _

def simpleBody (cur : Bytes) (off eq ft valueLen : Nat) (raw : Bytes) : Except FErr (Filter × Nat) :=
    let len := cur.length
    if eq = len - 1 then .error (.syntax off len) else
    let typed := ft = cColon ∨ ft = cGt ∨ ft = cLt ∨ ft = cTilde
    if typed ∧ eq = 1 then .error (.syntax off len) else
    let attrEnd := if typed then eq - 1 else eq
    let attrib := cur.take attrEnd
    if ft ≠ cColon ∧ !validAttr attrib then .error (.syntax off attrEnd) else
    let read := eq + 1
    let read' := read + valueLen
    let bad : Except FErr (Filter × Nat) := .error (.syntax (off + read) valueLen)
    if typed ∨ !raw.contains cStar then
      match unescape (raw.length + 1) raw with
      | none => bad
      | some v =>
        if ft = cColon then
          match extHeader attrib with
          | none => .error (.syntax off attrEnd)
          | some (attr, dn, rule) => .ok (.ext rule attr v dn, read')
        else if ft = cGt then .ok (.ge attrib v, read')
        else if ft = cLt then .ok (.le attrib v, read')
        else if ft = cTilde then .ok (.approx attrib v, read')
        else .ok (.eq attrib v, read')
    else if raw = [cStar] then .ok (.present attrib, read')
    else
      match substringsValue raw with
      | none => bad
      | some (i, any, f) => .ok (.substr attrib i any f, read')

theorem unpackSimple_eq (cur : Bytes) (off : Nat) : unpackSimple cur off =
    match indexOf cEq cur with
    | none => .error (.syntax off cur.length)
    | some 0 => .error (.syntax off 1)
    | some eq => simpleBody cur off eq (cur.getD (eq - 1) 0) (valueLen (cur.drop (eq + 1)))
        ((cur.drop (eq + 1)).take (valueLen (cur.drop (eq + 1)))) := by
  unfold unpackSimple simpleBody valueLen
  rfl

def SimpleRes (len off : Nat) (cb : Prop) : Except FErr (Filter × Nat) → Prop
  | .ok (f, n) => 2 ≤ n ∧ n ≤ len ∧ f.AttrsValid ∧ (cb → f.WFText)
  | .error (.syntax o l) => off ≤ o ∧ o + l ≤ off + len
  | .error _ => False

theorem simpleBody_ok (cur : Bytes) (off eq ft vl : Nat) (raw : Bytes) (hne : eq ≠ 0) (hlt : eq < cur.length)
    (hvl : vl ≤ cur.length - (eq + 1)) (hraw : IsBytes cur → IsBytes raw) :
    SimpleRes cur.length off (IsBytes cur) (simpleBody cur off eq ft vl raw) := by
  unfold simpleBody
  simp only
  split
  · simp only [SimpleRes]; omega
  · rename_i hlast
    by_cases ht : (ft = cColon ∨ ft = cGt ∨ ft = cLt ∨ ft = cTilde)
    · simp only [ht, true_and, if_true, true_or]
      split
      · simp only [SimpleRes]; omega
      · rename_i h1
        split
        · simp only [SimpleRes]; omega
        · rename_i hattr
          split
          · simp only [SimpleRes]; omega
          · rename_i v hv
            have hvb : IsBytes cur → IsBytes v := fun hb => unescape_bytes _ _ _ hv (hraw hb)
            split
            · split
              · simp only [SimpleRes]; omega
              · rename_i attr dn rule hext
                have hne' : List.take (eq - 1) cur ≠ [] := by
                  intro h
                  have := congrArg List.length h
                  rw [List.length_take, List.length_nil] at this; omega
                obtain ⟨ha, hr, hx⟩ := extHeader_ok _ _ _ _ hext
                have hx := hx hne'
                simp only [SimpleRes, Filter.AttrsValid, Filter.WFText]
                refine ⟨by omega, by omega, ⟨?_, ?_⟩, fun hb => ⟨?_, ?_, hx, hvb hb⟩⟩
                · cases attr with
                  | none => trivial
                  | some a => exact ha a rfl
                · cases rule with
                  | none => trivial
                  | some r => exact (hr r rfl).1
                · cases attr with
                  | none => trivial
                  | some a => exact ha a rfl
                · cases rule with
                  | none => trivial
                  | some r => exact hr r rfl
            · rename_i hcol
              have hva : validAttr (List.take (eq - 1) cur) = true := by simpa [hcol] using hattr
              split
              · simp only [SimpleRes, Filter.AttrsValid, Filter.WFText]
                exact ⟨by omega, by omega, hva, fun hb => ⟨hva, hvb hb⟩⟩
              · split
                · simp only [SimpleRes, Filter.AttrsValid, Filter.WFText]
                  exact ⟨by omega, by omega, hva, fun hb => ⟨hva, hvb hb⟩⟩
                · split
                  · simp only [SimpleRes, Filter.AttrsValid, Filter.WFText]
                    exact ⟨by omega, by omega, hva, fun hb => ⟨hva, hvb hb⟩⟩
                  · simp only [SimpleRes, Filter.AttrsValid, Filter.WFText]
                    exact ⟨by omega, by omega, hva, fun hb => ⟨hva, hvb hb⟩⟩
    · simp only [ht, false_and, if_false, false_or]
      have hcol : ft ≠ cColon := fun h => ht (Or.inl h)
      simp only [hcol, ne_eq, not_false_eq_true, true_and, if_false]
      split
      · simp only [SimpleRes]; omega
      · rename_i hattr
        have hva : validAttr (List.take eq cur) = true := by simpa using hattr
        split
        · split
          · simp only [SimpleRes]; omega
          · rename_i v hv
            have hvb : IsBytes cur → IsBytes v := fun hb => unescape_bytes _ _ _ hv (hraw hb)
            split
            · simp only [SimpleRes, Filter.AttrsValid, Filter.WFText]
              exact ⟨by omega, by omega, hva, fun hb => ⟨hva, hvb hb⟩⟩
            · split
              · simp only [SimpleRes, Filter.AttrsValid, Filter.WFText]
                exact ⟨by omega, by omega, hva, fun hb => ⟨hva, hvb hb⟩⟩
              · split
                · simp only [SimpleRes, Filter.AttrsValid, Filter.WFText]
                  exact ⟨by omega, by omega, hva, fun hb => ⟨hva, hvb hb⟩⟩
                · simp only [SimpleRes, Filter.AttrsValid, Filter.WFText]
                  exact ⟨by omega, by omega, hva, fun hb => ⟨hva, hvb hb⟩⟩
        · split
          · simp only [SimpleRes, Filter.AttrsValid, Filter.WFText]
            exact ⟨by omega, by omega, hva, fun _ => hva⟩
          · rename_i hstar
            split
            · simp only [SimpleRes]; omega
            · rename_i i any f hsub
              simp only [SimpleRes, Filter.AttrsValid, Filter.WFText]
              refine ⟨by omega, by omega, hva, fun hb => ?_⟩
              obtain ⟨h1, h2, h3, h4⟩ := substringsValue_ok raw i any f hsub hstar (hraw hb)
              refine ⟨hva, ?_, h2, ?_, h4⟩
              · cases i with
                | none => trivial
                | some x => exact h1
              · cases f with
                | none => trivial
                | some x => exact h3

theorem unpackSimple_ok (cur : Bytes) (off : Nat) :
    SimpleRes cur.length off (IsBytes cur) (unpackSimple cur off) := by
  rw [unpackSimple_eq]
  split
  · simp [SimpleRes]
  · rename_i h0
    have := indexOf_lt h0
    simp only [SimpleRes]; omega
  · rename_i eq hne hidx
    have hlt := indexOf_lt hidx
    apply simpleBody_ok
    · exact fun h => hne h
    · exact hlt
    · have := valueLen_le (cur.drop (eq + 1)); simpa using this
    · exact fun hb b hx => hb b (List.mem_of_mem_drop (List.mem_of_mem_take hx))
end Verif.Proofs.FilterTotal
