/-
Generated `_parse_extensions` (with its inner `_extract_qdstring` and its two `while` loops) = the hand model's
`parseExts` — same association list, same error — for every text and every fuel above the text's length.
-/
import Verif.Generated.SchemaGen
import Verif.Proofs.SchemaGenHelpers
import Verif.Proofs.SchemaCostExts

namespace Verif.Proofs.SchemaGen
open Verif Verif.PyRt Verif.PyRtStr Verif.Schema Verif.SchemaGen
open Verif.Proofs.SchemaCost (extractQd_lt split1_len lstripSp_le)

def ofOpt {α : Type} : Option α → Except Err α
  | none => .error .valueError
  | some a => .ok a

theorem extract_eq (s : Str) : parse_extensions_extract_qdstring s = ofOpt (extractQd s) := by
  unfold parse_extensions_extract_qdstring extractQd
  show (unpack2 (pySplit1 39 (pySliceFrom s 1)) >>= _) = _
  rw [unpack2_pySplit1]
  show (ofSplit1 (split1 QUOTE (s.drop 1)) >>= _) = _
  cases split1 QUOTE (s.drop 1) with
  | none => rfl
  | some p =>
    obtain ⟨e, r⟩ := p
    show Except.ok (parse_qdstring e, pyLstrip (ofString " ") r) = Except.ok (parseQd e, lstripSp r)
    rw [pyLstrip_sp]; rfl

theorem while2_eq : ∀ (f f' : Nat) (rem : Str) (acc : List Str), rem.length < f → rem.length < f' →
    parse_extensions_while2 f rem acc = ofOpt ((extListLoop f' rem acc).map fun p => (p.2, p.1)) := by
  intro f
  induction f with
  | zero => intro f' rem acc h; omega
  | succ f ih =>
    intro f' rem acc h h'
    cases f' with
    | zero => omega
    | succ f' =>
      rw [parse_extensions_while2, extListLoop]
      rw [pyStartsWith_eq]
      show (if ¬ startsWith [RP] rem = true then _ else _) = _
      by_cases hs : startsWith [RP] rem = true
      · simp only [hs, not_true_eq_false, if_false, if_true]; rfl
      · simp only [hs, not_false_eq_true, if_true, if_false]
        rw [extract_eq]
        cases hx : extractQd rem with
        | none => rfl
        | some p =>
          obtain ⟨e, rem'⟩ := p
          have hl := extractQd_lt hx
          show parse_extensions_while2 f rem' (acc ++ [e]) = _
          exact ih f' rem' (acc ++ [e]) (by omega) (by omega)

theorem extListLoop_le : ∀ (f : Nat) (rem : Str) (acc es : List Str) (r : Str),
    extListLoop f rem acc = some (es, r) → r.length ≤ rem.length := by
  intro f
  induction f with
  | zero => intro rem acc es r h; simp [extListLoop] at h
  | succ f ih =>
    intro rem acc es r h
    rw [extListLoop] at h
    by_cases hs : startsWith [RP] rem = true
    · simp only [hs, if_true, Option.some.injEq, Prod.mk.injEq] at h
      obtain ⟨_, rfl⟩ := h; exact Nat.le_refl _
    · simp only [hs, if_false] at h
      cases hx : extractQd rem with
      | none => rw [hx] at h; simp at h
      | some p =>
        obtain ⟨e, rem'⟩ := p
        rw [hx] at h
        have := ih rem' (acc ++ [e]) es r h
        have := extractQd_lt hx
        omega

/-- the result of the `while value:` loop: only `res` is used afterwards -/
def sndE {α β : Type} (x : Except Err (α × β)) : Except Err β := x >>= fun p => .ok p.2

theorem while1_eq : ∀ (f f' : Nat) (v : Str) (acc : List (Str × List Str)), v.length < f → v.length < f' →
    sndE (parse_extensions_while1 f v acc) = ofOpt (parseExtLoop f' v acc) := by
  intro f
  induction f with
  | zero => intro f' v acc h; omega
  | succ f ih =>
    intro f' v acc h h'
    cases f' with
    | zero => omega
    | succ f' =>
      rw [parse_extensions_while1, parseExtLoop]
      by_cases hv : v = []
      · subst hv; rfl
      · have hv' : v.isEmpty = false := by cases v with | nil => exact absurd rfl hv | cons _ _ => rfl
        simp only [hv, hv', ne_eq, not_false_eq_true, if_true, Bool.false_eq_true, if_false]
        show sndE (unpack2 (pySplit1 32 (pyLstrip (ofString " ") v)) >>= _) = _
        rw [unpack2_pySplit1, pyLstrip_sp]
        simp only [SPC]
        cases hsp : split1 32 (lstripSp v) with
        | none => rfl
        | some p =>
          obtain ⟨key, rem0⟩ := p
          have hl1 := split1_len hsp
          have hl2 := lstripSp_le v
          have hl3 := lstripSp_le rem0
          show sndE (_ >>= _) = _
          simp only [pyLstrip_sp, pyStartsWith_eq, pyDictSet_eq]
          show sndE ((if startsWith [LP] (lstripSp rem0) = true then _ else _) >>= _) = _
          by_cases hs : startsWith [LP] (lstripSp rem0) = true
          · simp only [hs, if_true]
            have hl4 := lstripSp_le (List.drop 1 (lstripSp rem0))
            have hl5 : (List.drop 1 (lstripSp rem0)).length ≤ (lstripSp rem0).length := by simp
            show sndE (((parse_extensions_while2 f (lstripSp (pySliceFrom (lstripSp rem0) 1)) []) >>= _) >>= _) = _
            rw [while2_eq f ((lstripSp rem0).length + 1) _ _ (by unfold pySliceFrom; omega) (by unfold pySliceFrom; omega)]
            unfold pySliceFrom
            cases hx : extListLoop ((lstripSp rem0).length + 1) (lstripSp (List.drop 1 (lstripSp rem0))) [] with
            | none => rfl
            | some q =>
              obtain ⟨es, r⟩ := q
              have hl6 := extListLoop_le _ _ _ _ _ hx
              have hl7 : (List.drop 1 r).length ≤ r.length := by simp
              show sndE (parse_extensions_while1 f (List.drop 1 r) (dictSet acc (List.drop 2 key) es)) = _
              exact ih f' _ _ (by omega) (by omega)
          · simp only [hs, if_false]
            rw [extract_eq]
            cases hx : extractQd (lstripSp rem0) with
            | none => rfl
            | some q =>
              obtain ⟨e, v'⟩ := q
              have hl6 := extractQd_lt hx
              show sndE (parse_extensions_while1 f v' (dictSet acc (List.drop 2 key) ([] ++ [e]))) = _
              exact ih f' _ _ (by omega) (by omega)

theorem parse_extensions_none (fuel : Nat) : parse_extensions fuel none = .ok [] := rfl

theorem parse_extensions_some (fuel : Nat) (v : Str) (h : v.length < fuel) :
    parse_extensions fuel (some v) = ofOpt (parseExts v) := by
  unfold parse_extensions parseExts
  by_cases hv : v = []
  · subst hv; rfl
  · have hv' : v.isEmpty = false := by cases v with | nil => exact absurd rfl hv | cons _ _ => rfl
    simp only [hv, hv', ne_eq, not_false_eq_true, if_true, Bool.false_eq_true, if_false]
    have hl := lstripSp_le v
    have := while1_eq fuel ((lstripSp v).length + 1) (lstripSp v) [] (by omega) (by omega)
    rw [← this, pyLstrip_sp]
    rfl
end Verif.Proofs.SchemaGen
