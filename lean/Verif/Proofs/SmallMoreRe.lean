/-
C18 with explicit coefficients, support file.  This is a COPY, made by a script, of the degree
calculus of ReCost.lean / ReCostExtra.lean and of the per-pattern derivations of ReSmall.lean /
ReSchemaBase.lean / ReSchema.lean, with every hidden constant made explicit.  The one change
against the originals: the bound predicates `PB`, `RP`, `Sparse`, `Dead`, `Cheap`, `Skip`,
`SparseN` (and the bundles `Val`, `Grp`, `Tail`, `QItem` built from them) are SUBTYPES
`{ c : Nat // … }` instead of existentials `∃ c, …`; hence every rule whose conclusion is one of
them is a `def` that computes its constant (the proof scripts are those of the originals, verbatim),
and the constant of a finished derivation can be evaluated (`Small.attr_PB.val` reduces to a numeral).
Everything lives in namespace `Verif.Proofs.XC`; the raw, constant-explicit lemmas of ReCost.lean
(`work_cat_munch`, `work_star_chain`, `B_*`, …) are reused from there.  Core Lean only.
-/
import Verif.Proofs.ReCost

namespace Verif.Proofs.XC
open Verif Verif.Re Verif.Proofs.ReCost

def PB (r : Re) (d : Nat) : Type := { c : Nat // PolyBounded r c d }
def RP (r : Re) (d : Nat) : Type := { c : Nat // ∀ s, (runs r s).length ≤ B c d s.length }
def Sparse (r : Re) (Q : List Nat → Bool) : Type := { k : Nat // ∀ s, (runs r s).countP Q ≤ k }
def Sparse1 (r : Re) (Q : List Nat → Bool) : Prop := ∀ s, (runs r s).countP Q ≤ 1
def Dead (r : Re) (Q : List Nat → Bool) : Type := { w : Nat // ∀ t, Q t = false → runs r t = [] ∧ work r t ≤ w }
def Cheap (r : Re) (Q : List Nat → Bool) : Type := { w : Nat // ∀ t, Q t = false → work r t ≤ w }

def PB.mono {r : Re} {d g : Nat} (h : PB r d) (hd : d ≤ g := by omega) : PB r g := by
  obtain ⟨c, h⟩ := h
  exact ⟨c, fun s => Nat.le_trans (h s) (B_mono (Nat.le_refl _) hd (Nat.le_refl _))⟩

def RP.mono {r : Re} {d g : Nat} (h : RP r d) (hd : d ≤ g := by omega) : RP r g := by
  obtain ⟨c, h⟩ := h
  exact ⟨c, fun s => Nat.le_trans (h s) (B_mono (Nat.le_refl _) hd (Nat.le_refl _))⟩

def RP.of_PB {r : Re} {d : Nat} (h : PB r d) : RP r d := by
  obtain ⟨c, h⟩ := h
  exact ⟨c, fun s => Nat.le_trans (runs_length_le_work r s) (h s)⟩

def PB.of_const {r : Re} (c : Nat) (h : ∀ s, work r s ≤ c) {d : Nat} : PB r d :=
  ⟨c, fun s => Nat.le_trans (h s) (le_B c d _)⟩

def RP.of_const {r : Re} (c : Nat) (h : ∀ s, (runs r s).length ≤ c) {d : Nat} : RP r d :=
  ⟨c, fun s => Nat.le_trans (h s) (le_B c d _)⟩

def PB.const {r : Re} (h : PB r 0) : { c : Nat // ∀ s, work r s ≤ c } := by
  obtain ⟨c, h⟩ := h
  exact ⟨c, fun s => by simpa [PolyBounded] using h s⟩

def RP.const {r : Re} (h : RP r 0) : { c : Nat // ∀ s, (runs r s).length ≤ c } := by
  obtain ⟨c, h⟩ := h
  exact ⟨c, fun s => by simpa [B] using h s⟩

def PB.eps : PB Re.eps 0 := PB.of_const 1 (fun s => by simp)
def PB.cls {ivs} : PB (Re.cls ivs) 0 := PB.of_const 1 (fun s => by simp)
def PB.eos : PB Re.eos 0 := PB.of_const 1 (fun s => by simp)
def PB.eosNl : PB Re.eosNl 0 := PB.of_const 1 (fun s => by simp)
def PB.unsupported : PB Re.unsupported 0 := PB.of_const 1 (fun s => by simp)
def RP.cls {ivs} : RP (Re.cls ivs) 0 := RP.of_const 1 (runs_cls_length_le ivs)

def PB.group {id : Nat} {a : Re} {d : Nat} (h : PB a d) : PB (Re.group id a) d := by
  obtain ⟨c, h⟩ := h
  refine ⟨1 + c, fun s => ?_⟩
  have h1 : work a s ≤ B c d s.length := h s
  have h2 := le_B 1 d s.length
  show work (Re.group id a) s ≤ B (1 + c) d s.length
  rw [work_group, ← B_add]; omega

def RP.group {id : Nat} {a : Re} {d : Nat} (h : RP a d) : RP (Re.group id a) d := by
  obtain ⟨c, h⟩ := h
  exact ⟨c, fun s => by rw [runs_group]; exact h s⟩

def PB.alt {a b : Re} {d e g : Nat} (ha : PB a d) (hb : PB b e)
    (hd : d ≤ g := by omega) (he : e ≤ g := by omega) : PB (Re.alt a b) g := by
  obtain ⟨ca, ha⟩ := ha
  obtain ⟨cb, hb⟩ := hb
  refine ⟨1 + ca + cb, fun s => ?_⟩
  have h1 : work a s ≤ B ca g s.length := Nat.le_trans (ha s) (B_mono (Nat.le_refl _) hd (Nat.le_refl _))
  have h2 : work b s ≤ B cb g s.length := Nat.le_trans (hb s) (B_mono (Nat.le_refl _) he (Nat.le_refl _))
  have h3 := le_B 1 g s.length
  show work (Re.alt a b) s ≤ B (1 + ca + cb) g s.length
  rw [work_alt, ← B_add, ← B_add]; omega

def RP.alt {a b : Re} {d e g : Nat} (ha : RP a d) (hb : RP b e)
    (hd : d ≤ g := by omega) (he : e ≤ g := by omega) : RP (Re.alt a b) g := by
  obtain ⟨ca, ha⟩ := ha
  obtain ⟨cb, hb⟩ := hb
  refine ⟨ca + cb, fun s => ?_⟩
  have h1 := Nat.le_trans (ha s) (B_mono (Nat.le_refl _) hd (Nat.le_refl s.length))
  have h2 := Nat.le_trans (hb s) (B_mono (Nat.le_refl _) he (Nat.le_refl s.length))
  rw [runs_alt_length, ← B_add]; omega

/-- crude rule for a concatenation -/
def PB.cat {a b : Re} {d e f g : Nat} (ha : PB a d) (ra : RP a e) (hb : PB b f)
    (hd : d ≤ g := by omega) (hef : e + f ≤ g := by omega) : PB (Re.cat a b) g := by
  obtain ⟨ca, ha⟩ := ha
  obtain ⟨ka, ra⟩ := ra
  obtain ⟨cb, hb⟩ := hb
  refine ⟨1 + ca + ka * cb, fun s => ?_⟩
  have h0 := work_cat_le a b s (B cb f s.length)
    (fun t ht => Nat.le_trans (hb t) (B_mono (Nat.le_refl _) (Nat.le_refl _) (runs_length_le ht)))
  have h1 : work a s ≤ B ca g s.length := Nat.le_trans (ha s) (B_mono (Nat.le_refl _) hd (Nat.le_refl _))
  have h2 : (runs a s).length * B cb f s.length ≤ B (ka * cb) g s.length :=
    calc _ ≤ B ka e s.length * B cb f s.length := Nat.mul_le_mul_right _ (ra s)
      _ = B (ka * cb) (e + f) s.length := B_mul ..
      _ ≤ _ := B_mono (Nat.le_refl _) hef (Nat.le_refl _)
  have h3 := le_B 1 g s.length
  show work (Re.cat a b) s ≤ B (1 + ca + ka * cb) g s.length
  rw [← B_add, ← B_add]; omega

def RP.cat {a b : Re} {e f g : Nat} (ra : RP a e) (rb : RP b f) (hef : e + f ≤ g := by omega) :
    RP (Re.cat a b) g := by
  obtain ⟨ka, ra⟩ := ra
  obtain ⟨kb, rb⟩ := rb
  refine ⟨ka * kb, fun s => ?_⟩
  have h0 := runs_cat_length_le a b s (B kb f s.length)
    (fun t ht => Nat.le_trans (rb t) (B_mono (Nat.le_refl _) (Nat.le_refl _) (runs_length_le ht)))
  calc _ ≤ _ := h0
    _ ≤ B ka e s.length * B kb f s.length := Nat.mul_le_mul_right _ (ra s)
    _ = B (ka * kb) (e + f) s.length := B_mul ..
    _ ≤ _ := B_mono (Nat.le_refl _) hef (Nat.le_refl _)

/-- maximal-munch rule for a concatenation: `b` is cheap except at `Q` positions, and `a` has
    boundedly many results at `Q` positions -/
def PB.cat_munch (Q : List Nat → Bool) {a b : Re} {d e f g : Nat} (ha : PB a d) (ra : RP a e)
    (sa : Sparse a Q) (cb : Cheap b Q) (hb : PB b f)
    (hd : d ≤ g := by omega) (he : e ≤ g := by omega) (hf : f ≤ g := by omega) : PB (Re.cat a b) g := by
  obtain ⟨ca, ha⟩ := ha
  obtain ⟨ka, ra⟩ := ra
  obtain ⟨k, sa⟩ := sa
  obtain ⟨w, cb⟩ := cb
  obtain ⟨cb', hb⟩ := hb
  refine ⟨1 + ca + ka * w + k * cb', fun s => ?_⟩
  have h0 := work_cat_munch a b s Q w (B cb' f s.length) (fun t _ hq => cb t hq)
    (fun t ht _ => Nat.le_trans (hb t) (B_mono (Nat.le_refl _) (Nat.le_refl _) (runs_length_le ht)))
  have h1 : work a s ≤ B ca g s.length := Nat.le_trans (ha s) (B_mono (Nat.le_refl _) hd (Nat.le_refl _))
  have h2 : (runs a s).length * w ≤ B (ka * w) g s.length :=
    calc _ ≤ B ka e s.length * w := Nat.mul_le_mul_right _ (ra s)
      _ = B (ka * w) e s.length := B_mul_const ..
      _ ≤ _ := B_mono (Nat.le_refl _) he (Nat.le_refl _)
  have h3 : (runs a s).countP Q * B cb' f s.length ≤ B (k * cb') g s.length :=
    calc _ ≤ k * B cb' f s.length := Nat.mul_le_mul_right _ (sa s)
      _ = B (k * cb') f s.length := const_mul_B ..
      _ ≤ _ := B_mono (Nat.le_refl _) hf (Nat.le_refl _)
  have h4 := le_B 1 g s.length
  show work (Re.cat a b) s ≤ B (1 + ca + ka * w + k * cb') g s.length
  rw [← B_add, ← B_add, ← B_add]; omega

def RP.cat_munch (Q : List Nat → Bool) {a b : Re} {e f g : Nat} (ra : RP a e)
    (sa : Sparse a Q) (cb : Cheap b Q) (rb : RP b f)
    (he : e ≤ g := by omega) (hf : f ≤ g := by omega) : RP (Re.cat a b) g := by
  obtain ⟨ka, ra⟩ := ra
  obtain ⟨k, sa⟩ := sa
  obtain ⟨w, cb⟩ := cb
  obtain ⟨kb, rb⟩ := rb
  refine ⟨ka * w + k * kb, fun s => ?_⟩
  have h0 := runs_cat_length_munch a b s Q w (B kb f s.length)
    (fun t _ hq => Nat.le_trans (runs_length_le_work b t) (cb t hq))
    (fun t ht _ => Nat.le_trans (rb t) (B_mono (Nat.le_refl _) (Nat.le_refl _) (runs_length_le ht)))
  have h2 : (runs a s).length * w ≤ B (ka * w) g s.length :=
    calc _ ≤ B ka e s.length * w := Nat.mul_le_mul_right _ (ra s)
      _ = B (ka * w) e s.length := B_mul_const ..
      _ ≤ _ := B_mono (Nat.le_refl _) he (Nat.le_refl _)
  have h3 : (runs a s).countP Q * B kb f s.length ≤ B (k * kb) g s.length :=
    calc _ ≤ k * B kb f s.length := Nat.mul_le_mul_right _ (sa s)
      _ = B (k * kb) f s.length := const_mul_B ..
      _ ≤ _ := B_mono (Nat.le_refl _) hf (Nat.le_refl _)
  rw [← B_add]; omega

/-! #### `Dead` / `Cheap` -/

def Dead.mono {r : Re} {Q Q' : List Nat → Bool} (h : Dead r Q) (hq : ∀ t, Q' t = false → Q t = false) :
    Dead r Q' := by
  obtain ⟨w, h⟩ := h
  exact ⟨w, fun t ht => h t (hq t ht)⟩

def Dead.cls (ivs) : Dead (Re.cls ivs) (startsIn ivs) :=
  ⟨1, fun t ht => ⟨runs_cls_of_not_startsIn ht, by simp⟩⟩

def Dead.cat {a : Re} {Q : List Nat → Bool} (h : Dead a Q) (b : Re) : Dead (Re.cat a b) Q := by
  obtain ⟨w, h⟩ := h
  refine ⟨1 + w, fun t ht => ?_⟩
  have := h t ht
  rw [runs_cat, work_cat, this.1]
  exact ⟨rfl, by simp; omega⟩

def Dead.group {a : Re} {Q : List Nat → Bool} (h : Dead a Q) (id : Nat) : Dead (Re.group id a) Q := by
  obtain ⟨w, h⟩ := h
  refine ⟨1 + w, fun t ht => ?_⟩
  have := h t ht
  rw [runs_group, work_group]
  exact ⟨this.1, by omega⟩

def Dead.alt {a b : Re} {Q : List Nat → Bool} (ha : Dead a Q) (hb : Dead b Q) : Dead (Re.alt a b) Q := by
  obtain ⟨wa, ha⟩ := ha
  obtain ⟨wb, hb⟩ := hb
  refine ⟨1 + wa + wb, fun t ht => ?_⟩
  have h1 := ha t ht
  have h2 := hb t ht
  rw [runs_alt, work_alt, h1.1, h2.1]
  exact ⟨rfl, by omega⟩

theorem Dead.runs_eq {r : Re} {Q : List Nat → Bool} (h : Dead r Q) {t : List Nat} (ht : Q t = false) :
    runs r t = [] := by
  obtain ⟨w, h⟩ := h
  exact (h t ht).1

def Cheap.mono {r : Re} {Q Q' : List Nat → Bool} (h : Cheap r Q) (hq : ∀ t, Q' t = false → Q t = false) :
    Cheap r Q' := by
  obtain ⟨w, h⟩ := h
  exact ⟨w, fun t ht => h t (hq t ht)⟩

def Cheap.of_Dead {r : Re} {Q : List Nat → Bool} (h : Dead r Q) : Cheap r Q := by
  obtain ⟨w, h⟩ := h
  exact ⟨w, fun t ht => (h t ht).2⟩

def Cheap.of_PB0 {r : Re} (h : PB r 0) (Q : List Nat → Bool) : Cheap r Q := by
  obtain ⟨c, h⟩ := h.const
  exact ⟨c, fun t _ => h t⟩

def Cheap.star_of_Dead {x : Re} {Q : List Nat → Bool} (h : Dead x Q) : Cheap (Re.star x) Q := by
  obtain ⟨w, h⟩ := h
  refine ⟨1 + w, fun t ht => ?_⟩
  have := h t ht
  rw [work_star_of_nil this.1]; omega

def Cheap.group {a : Re} {Q : List Nat → Bool} (h : Cheap a Q) (id : Nat) : Cheap (Re.group id a) Q := by
  obtain ⟨w, h⟩ := h
  refine ⟨1 + w, fun t ht => ?_⟩
  have := h t ht
  rw [work_group]; omega

def Cheap.alt {a b : Re} {Q : List Nat → Bool} (ha : Cheap a Q) (hb : Cheap b Q) : Cheap (Re.alt a b) Q := by
  obtain ⟨wa, ha⟩ := ha
  obtain ⟨wb, hb⟩ := hb
  refine ⟨1 + wa + wb, fun t ht => ?_⟩
  have := ha t ht; have := hb t ht
  rw [work_alt]; omega

/-- a cheap head followed by a constant-cost tail -/
def Cheap.cat_const {a b : Re} {Q : List Nat → Bool} (ha : Cheap a Q) (hb : PB b 0) :
    Cheap (Re.cat a b) Q := by
  obtain ⟨w, ha⟩ := ha
  obtain ⟨c, hb⟩ := hb.const
  refine ⟨1 + w + w * c, fun t ht => ?_⟩
  have h1 := ha t ht
  have h2 := work_cat_le a b t c (fun u _ => hb u)
  have h3 : (runs a t).length * c ≤ w * c :=
    Nat.mul_le_mul_right _ (Nat.le_trans (runs_length_le_work a t) h1)
  omega

/-! #### `Sparse` -/

def Sparse1.sparse {r : Re} {Q : List Nat → Bool} (h : Sparse1 r Q) : Sparse r Q := ⟨1, h⟩

theorem countP_mono_pred {α} (P P' : α → Bool) (h : ∀ t, P t = true → P' t = true) (l : List α) :
    l.countP P ≤ l.countP P' := by
  induction l with
  | nil => simp
  | cons a l ih =>
    simp only [List.countP_cons]
    cases hp : P a with
    | false => simp; omega
    | true => simp [h a hp]; omega

def Sparse.mono {r : Re} {P P' : List Nat → Bool} (h : Sparse r P') (hp : ∀ t, P t = true → P' t = true) :
    Sparse r P := by
  obtain ⟨k, h⟩ := h
  exact ⟨k, fun s => Nat.le_trans (countP_mono_pred P P' hp _) (h s)⟩

theorem Sparse1.mono {r : Re} {P P' : List Nat → Bool} (h : Sparse1 r P') (hp : ∀ t, P t = true → P' t = true) :
    Sparse1 r P := fun s => Nat.le_trans (countP_mono_pred P P' hp _) (h s)

def Sparse.of_RP0 {r : Re} (h : RP r 0) (P : List Nat → Bool) : Sparse r P := by
  obtain ⟨k, h⟩ := h.const
  exact ⟨k, fun s => Nat.le_trans List.countP_le_length (h s)⟩

theorem Sparse1.cls (ivs) (P : List Nat → Bool) : Sparse1 (Re.cls ivs) P :=
  fun s => Nat.le_trans List.countP_le_length (runs_cls_length_le ivs s)

def Sparse.group {a : Re} {P : List Nat → Bool} (h : Sparse a P) (id : Nat) : Sparse (Re.group id a) P := by
  obtain ⟨k, h⟩ := h
  exact ⟨k, fun s => by rw [runs_group]; exact h s⟩

theorem Sparse1.group {a : Re} {P : List Nat → Bool} (h : Sparse1 a P) (id : Nat) : Sparse1 (Re.group id a) P :=
  fun s => by rw [runs_group]; exact h s

def Sparse.alt {a b : Re} {P : List Nat → Bool} (ha : Sparse a P) (hb : Sparse b P) :
    Sparse (Re.alt a b) P := by
  obtain ⟨ka, ha⟩ := ha
  obtain ⟨kb, hb⟩ := hb
  refine ⟨ka + kb, fun s => ?_⟩
  have := ha s; have := hb s
  rw [countP_runs_alt]; omega

/-- alternatives of which at most one contributes `P` results -/
theorem Sparse1.alt_of_excl {a b : Re} {P : List Nat → Bool} (ha : Sparse1 a P) (hb : Sparse1 b P)
    (hex : ∀ s, (runs a s).countP P = 0 ∨ (runs b s).countP P = 0) : Sparse1 (Re.alt a b) P := by
  intro s
  have := ha s; have := hb s
  rw [countP_runs_alt]
  cases hex s <;> omega

/-- a head with boundedly many results -/
def Sparse.cat {a b : Re} {P : List Nat → Bool} (ra : RP a 0) (hb : Sparse b P) : Sparse (Re.cat a b) P := by
  obtain ⟨ka, ra⟩ := ra.const
  obtain ⟨kb, hb⟩ := hb
  refine ⟨ka * kb, fun s => ?_⟩
  rw [countP_runs_cat]
  exact Nat.le_trans (sum_map_le_mul _ _ kb (fun t _ => hb t)) (Nat.mul_le_mul_right _ (ra s))

/-- a head with at most one result -/
theorem Sparse1.cat {a b : Re} {P : List Nat → Bool} (ra : ∀ s, (runs a s).length ≤ 1) (hb : Sparse1 b P) :
    Sparse1 (Re.cat a b) P := by
  intro s
  rw [countP_runs_cat]
  exact Nat.le_trans (sum_map_le_mul _ _ 1 (fun t _ => hb t)) (by have := ra s; omega)

/-- maximal munch: only the `Q` results of `a` let `b` produce a `P` result -/
def Sparse.cat_munch (Q : List Nat → Bool) {a b : Re} {P : List Nat → Bool} (sa : Sparse a Q)
    (hpass : ∀ t, Q t = false → ∀ u ∈ runs b t, P u = false) (hb : Sparse b P) : Sparse (Re.cat a b) P := by
  obtain ⟨ka, sa⟩ := sa
  obtain ⟨kb, hb⟩ := hb
  refine ⟨ka * kb, fun s => ?_⟩
  rw [countP_runs_cat]
  have := sum_munch (runs a s) Q (fun t => (runs b t).countP P) 0 kb
    (fun t _ hq => by
      have : (runs b t).countP P = 0 := by
        rw [List.countP_eq_zero]; intro u hu; simp [hpass t hq u hu]
      omega)
    (fun t _ _ => hb t)
  have h2 : (runs a s).countP Q * kb ≤ ka * kb := Nat.mul_le_mul_right _ (sa s)
  omega

theorem Sparse1.cat_munch (Q : List Nat → Bool) {a b : Re} {P : List Nat → Bool} (sa : Sparse1 a Q)
    (hpass : ∀ t, Q t = false → ∀ u ∈ runs b t, P u = false) (hb : Sparse1 b P) : Sparse1 (Re.cat a b) P := by
  intro s
  rw [countP_runs_cat]
  have := sum_munch (runs a s) Q (fun t => (runs b t).countP P) 0 1
    (fun t _ hq => by
      have : (runs b t).countP P = 0 := by
        rw [List.countP_eq_zero]; intro u hu; simp [hpass t hq u hu]
      omega)
    (fun t _ _ => hb t)
  have h2 := sa s
  omega

/-- pass-through condition of `cat_munch` for a dead `b` -/
theorem pass_of_Dead {b : Re} {Q : List Nat → Bool} (h : Dead b Q) (P : List Nat → Bool) :
    ∀ t, Q t = false → ∀ u ∈ runs b t, P u = false := by
  intro t ht u hu
  rw [h.runs_eq ht] at hu; simp at hu

/-- pass-through condition of `cat_munch` for `b = star x` with a dead body -/
theorem pass_star_of_Dead {x : Re} {Q' Q P : List Nat → Bool} (h : Dead x Q)
    (hq : ∀ t, Q' t = false → Q t = false) (hp : ∀ t, Q' t = false → P t = false) :
    ∀ t, Q' t = false → ∀ u ∈ runs (Re.star x) t, P u = false := by
  intro t ht u hu
  rw [runs_star_of_nil (h.runs_eq (hq t ht))] at hu
  simp at hu; rw [hu]; exact hp t ht

theorem Sparse1.star_cls (ivs) {P : List Nat → Bool} (hP : ∀ t, P t = true → startsIn ivs t = false) :
    Sparse1 (Re.star (Re.cls ivs)) P := countP_runs_star_cls ivs P hP

theorem Sparse1.star_chain {x : Re} (Q Q' : List Nat → Bool) {P : List Nat → Bool} (hdead : Dead x Q)
    (hone : Sparse1 x Q') (hQ : ∀ t, Q t = true → Q' t = true) (hP : ∀ t, P t = true → Q' t = true)
    (hPQ : ∀ t, P t = true → Q t = false) : Sparse1 (Re.star x) P :=
  countP_runs_star_chain x Q Q' P (fun _ ht => hdead.runs_eq ht) hone hQ hP hPQ

/-! #### `star` -/

def PB.star_cls (ivs) : PB (Re.star (Re.cls ivs)) 1 :=
  ⟨2, fun s => by simpa using work_star_cls_le ivs s⟩

def RP.star_cls (ivs) : RP (Re.star (Re.cls ivs)) 1 :=
  ⟨1, fun s => by simpa [B] using runs_star_cls_length ivs s⟩

/-- chain rule: the body is dead outside `Q` and yields at most one `Q` result per iteration -/
def RP.star_chain (Q : List Nat → Bool) {x : Re} {e g : Nat} (hdead : Dead x Q) (hone : Sparse1 x Q)
    (rx : RP x e) (he : e + 1 ≤ g := by omega) : RP (Re.star x) g := by
  obtain ⟨k, rx⟩ := rx
  refine ⟨1 + k, fun s => ?_⟩
  have h := runs_star_chain_length x Q (fun _ ht => hdead.runs_eq ht) hone s.length (B k e s.length)
    (fun u hu => Nat.le_trans (rx u) (B_mono (Nat.le_refl _) (Nat.le_refl _) hu)) s (Nat.le_refl _)
  have h1 : 1 + B k e s.length ≤ B (1 + k) e s.length := by
    rw [← B_add]; have := le_B 1 e s.length; omega
  calc _ ≤ _ := h
    _ ≤ (s.length + 1) * B (1 + k) e s.length := Nat.mul_le_mul_left _ h1
    _ = B (1 + k) (e + 1) s.length := succ_mul_B ..
    _ ≤ _ := B_mono (Nat.le_refl _) he (Nat.le_refl _)

def PB.star_chain (Q : List Nat → Bool) {x : Re} {d e g : Nat} (hdead : Dead x Q) (hone : Sparse1 x Q)
    (hx : PB x d) (rx : RP x e) (hd : d + 1 ≤ g := by omega) (he : e + 1 ≤ g := by omega) :
    PB (Re.star x) g := by
  obtain ⟨w, hdead⟩ := hdead
  obtain ⟨c, hx⟩ := hx
  obtain ⟨k, rx⟩ := rx
  refine ⟨1 + c + k * (1 + w), fun s => ?_⟩
  have h := work_star_chain x Q w hdead hone s.length (B c (g - 1) s.length) (B k (g - 1) s.length)
    (fun u hu => Nat.le_trans (hx u) (B_mono (Nat.le_refl _) (by omega) hu))
    (fun u hu => Nat.le_trans (rx u) (B_mono (Nat.le_refl _) (by omega) hu)) s (Nat.le_refl _)
  have h1 : 1 + B c (g - 1) s.length + B k (g - 1) s.length * (1 + w)
      ≤ B (1 + c + k * (1 + w)) (g - 1) s.length := by
    rw [← B_add, ← B_add, B_mul_const]; have := le_B 1 (g - 1) s.length; omega
  show work (Re.star x) s ≤ B (1 + c + k * (1 + w)) g s.length
  calc _ ≤ _ := h
    _ ≤ (s.length + 1) * B (1 + c + k * (1 + w)) (g - 1) s.length := Nat.mul_le_mul_left _ h1
    _ = B (1 + c + k * (1 + w)) (g - 1 + 1) s.length := succ_mul_B ..
    _ ≤ _ := B_mono (Nat.le_refl _) (by omega) (Nat.le_refl _)

/-- special case: a body with at most one result -/
def PB.star_single {x : Re} {d g : Nat} (h1 : ∀ u, (runs x u).length ≤ 1) (hx : PB x d)
    (hd : d + 1 ≤ g := by omega) : PB (Re.star x) g :=
  PB.star_chain (fun _ => true) ⟨0, fun _ h => by simp at h⟩
    (fun u => Nat.le_trans List.countP_le_length (h1 u)) hx (RP.of_const 1 h1 (d := 0)) hd (by omega)

def RP.star_single {x : Re} {g : Nat} (h1 : ∀ u, (runs x u).length ≤ 1) (hg : 1 ≤ g := by omega) :
    RP (Re.star x) g :=
  RP.star_chain (fun _ => true) ⟨0, fun _ h => by simp at h⟩
    (fun u => Nat.le_trans List.countP_le_length (h1 u)) (RP.of_const 1 h1 (d := 0)) (by omega)

/-! #### star-free patterns have constant cost -/

def starFree : Re → Bool
  | .cat a b => starFree a && starFree b
  | .alt a b => starFree a && starFree b
  | .group _ a => starFree a
  | .star _ => false
  | _ => true

def PB.of_starFree : ∀ (r : Re), starFree r = true → PB r 0
  | .eps, _ => PB.eps
  | .cls _, _ => PB.cls
  | .eos, _ => PB.eos
  | .eosNl, _ => PB.eosNl
  | .unsupported, _ => PB.unsupported
  | .group _ a, h => (PB.of_starFree a (by simpa [starFree] using h)).group
  | .alt a b, h => by
    simp [starFree] at h
    exact PB.alt (PB.of_starFree a h.1) (PB.of_starFree b h.2)
  | .cat a b, h => by
    simp [starFree] at h
    exact PB.cat (PB.of_starFree a h.1) (RP.of_PB (PB.of_starFree a h.1)) (PB.of_starFree b h.2)
  | .star _, h => by simp [starFree] at h


/-! ## part 2 (ReCostExtra.lean) -/

/-! ### `Fails` -/

def Fails (r : Re) (Q : List Nat → Bool) : Prop := ∀ t, Q t = false → runs r t = []

theorem Dead.fails {r : Re} {Q : List Nat → Bool} (h : Dead r Q) : Fails r Q := fun _ ht => h.runs_eq ht

theorem Fails.mono {r : Re} {Q Q' : List Nat → Bool} (h : Fails r Q) (hq : ∀ t, Q' t = false → Q t = false) :
    Fails r Q' := fun t ht => h t (hq t ht)

theorem Fails.cls (ivs) : Fails (Re.cls ivs) (startsIn ivs) := fun _ ht => runs_cls_of_not_startsIn ht

theorem Fails.cat {a : Re} {Q : List Nat → Bool} (h : Fails a Q) (b : Re) : Fails (Re.cat a b) Q := by
  intro t ht; rw [runs_cat, h t ht]; rfl

theorem Fails.alt {a b : Re} {Q : List Nat → Bool} (ha : Fails a Q) (hb : Fails b Q) : Fails (Re.alt a b) Q := by
  intro t ht; rw [runs_alt, ha t ht, hb t ht]; rfl

theorem Fails.pass {b : Re} {Q : List Nat → Bool} (h : Fails b Q) (P : List Nat → Bool) :
    ∀ t, Q t = false → ∀ u ∈ runs b t, P u = false := by
  intro t ht u hu; rw [h t ht] at hu; simp at hu

/-! ### `Skip` -/

def Skip (r : Re) (Q : List Nat → Bool) : Type := { w : Nat // ∀ t, Q t = false → runs r t = [t] ∧ work r t ≤ w }

def Skip.mono {r : Re} {Q Q' : List Nat → Bool} (h : Skip r Q) (hq : ∀ t, Q' t = false → Q t = false) :
    Skip r Q' := by
  obtain ⟨w, h⟩ := h
  exact ⟨w, fun t ht => h t (hq t ht)⟩

/-- an optional group whose body is dead -/
def Skip.opt {x : Re} {Q : List Nat → Bool} (h : Dead x Q) : Skip (Re.alt x Re.eps) Q := by
  obtain ⟨w, h⟩ := h
  refine ⟨2 + w, fun t ht => ?_⟩
  have := h t ht
  rw [runs_alt, work_alt, this.1, runs_eps, work_eps]
  exact ⟨rfl, by omega⟩

/-- a repetition whose body is dead -/
def Skip.star {x : Re} {Q : List Nat → Bool} (h : Dead x Q) : Skip (Re.star x) Q := by
  obtain ⟨w, h⟩ := h
  refine ⟨1 + w, fun t ht => ?_⟩
  have := h t ht
  rw [runs_star_of_nil this.1, work_star_of_nil this.1]
  exact ⟨rfl, by omega⟩

def Skip.cheap {a : Re} {Q : List Nat → Bool} (h : Skip a Q) : Cheap a Q := by
  obtain ⟨w, h⟩ := h
  exact ⟨w, fun t ht => (h t ht).2⟩

theorem Skip.pass {a : Re} {Q P : List Nat → Bool} (h : Skip a Q) (hp : ∀ t, Q t = false → P t = false) :
    ∀ t, Q t = false → ∀ u ∈ runs a t, P u = false := by
  obtain ⟨w, h⟩ := h
  intro t ht u hu
  rw [(h t ht).1] at hu; simp at hu; rw [hu]; exact hp t ht

/-- an inert head followed by a cheap tail -/
def Cheap.cat_skip {a b : Re} {Q : List Nat → Bool} (ha : Skip a Q) (hb : Cheap b Q) :
    Cheap (Re.cat a b) Q := by
  obtain ⟨w, ha⟩ := ha
  obtain ⟨w', hb⟩ := hb
  refine ⟨1 + w + w', fun t ht => ?_⟩
  have h1 := ha t ht
  have h2 := hb t ht
  rw [work_cat, h1.1]
  simp only [List.map_cons, List.map_nil, List.sum_cons, List.sum_nil]
  omega

/-- an inert head followed by a dead tail -/
def Dead.cat_skip {a b : Re} {Q : List Nat → Bool} (ha : Skip a Q) (hb : Dead b Q) :
    Dead (Re.cat a b) Q := by
  obtain ⟨w, ha⟩ := ha
  obtain ⟨w', hb⟩ := hb
  refine ⟨1 + w + w', fun t ht => ?_⟩
  have h1 := ha t ht
  have h2 := hb t ht
  rw [runs_cat, work_cat, h1.1]
  simp only [List.map_cons, List.map_nil, List.sum_cons, List.sum_nil, List.flatMap_cons, List.flatMap_nil,
    List.append_nil]
  exact ⟨h2.1, by omega⟩

/-! ### `Single` / `Few` -/

abbrev Single (r : Re) : Prop := Sparse1 r (fun _ => true)
abbrev Few (r : Re) : Type := Sparse r (fun _ => true)

theorem countP_true_eq {α} (l : List α) : l.countP (fun _ => true) = l.length := by
  induction l with
  | nil => rfl
  | cons a l ih => simp [ih]

theorem Single.len {r : Re} (h : Single r) (s : List Nat) : (runs r s).length ≤ 1 := by
  have := h s; rwa [countP_true_eq] at this

theorem Single.of_len {r : Re} (h : ∀ s, (runs r s).length ≤ 1) : Single r := by
  intro s; rw [countP_true_eq]; exact h s

theorem Single.sparse1 {r : Re} (h : Single r) (P : List Nat → Bool) : Sparse1 r P :=
  Sparse1.mono h (fun _ _ => rfl)

def Single.few {r : Re} (h : Single r) : Few r := Sparse1.sparse h

def Few.sparse {r : Re} (h : Few r) (P : List Nat → Bool) : Sparse r P := Sparse.mono h (fun _ _ => rfl)

def Single.sparse {r : Re} (h : Single r) (P : List Nat → Bool) : Sparse r P := h.few.sparse P

def Few.rp {r : Re} (h : Few r) {d : Nat} : RP r d := by
  obtain ⟨k, h⟩ := h
  exact RP.of_const k (fun s => by have := h s; rwa [countP_true_eq] at this)

def Few.of_RP0 {r : Re} (h : RP r 0) : Few r := Sparse.of_RP0 h _

def Single.rp {r : Re} (h : Single r) {d : Nat} : RP r d := h.few.rp

theorem Single.cls {ivs} : Single (Re.cls ivs) := Sparse1.cls _ _

theorem Single.eps : Single Re.eps := Single.of_len (fun s => by simp)

theorem Single.cat {a b : Re} (ha : Single a) (hb : Single b) : Single (Re.cat a b) := Sparse1.cat ha.len hb

theorem Single.cat_munch (Q : List Nat → Bool) {a b : Re} (sa : Sparse1 a Q) (hb : Fails b Q) (sb : Single b) :
    Single (Re.cat a b) := Sparse1.cat_munch Q sa (hb.pass _) sb

def Few.cat_munch (Q : List Nat → Bool) {a b : Re} (sa : Sparse a Q) (hb : Fails b Q) (sb : Few b) :
    Few (Re.cat a b) := Sparse.cat_munch Q sa (hb.pass _) sb

def Few.alt {a b : Re} (ha : Few a) (hb : Few b) : Few (Re.alt a b) := Sparse.alt ha hb

/-- alternatives that start with different characters -/
theorem Sparse1.alt_fails {a b : Re} {P : List Nat → Bool} (Qa Qb : List Nat → Bool) (ha : Sparse1 a P)
    (hb : Sparse1 b P) (fa : Fails a Qa) (fb : Fails b Qb) (hx : ∀ t, Qa t = true → Qb t = false) :
    Sparse1 (Re.alt a b) P := by
  apply Sparse1.alt_of_excl ha hb
  intro s
  cases h : Qa s with
  | false => left; rw [fa s h]; rfl
  | true => right; rw [fb s (hx s h)]; rfl

/-! ### `SparseN` -/

def SparseN (r : Re) (Q : List Nat → Bool) (d : Nat) : Type := { c : Nat // ∀ s, (runs r s).countP Q ≤ B c d s.length }

def Sparse.sparseN {r : Re} {Q : List Nat → Bool} (h : Sparse r Q) {d : Nat} : SparseN r Q d := by
  obtain ⟨k, h⟩ := h
  exact ⟨k, fun s => Nat.le_trans (h s) (le_B k d _)⟩

/-- the chain of iterations of `star x` visits at most `n + 1` restart positions -/
theorem countP_runs_star_chain_le (x : Re) (Q : List Nat → Bool) (hdead : Fails x Q) (hone : Sparse1 x Q)
    (s : List Nat) : (runs (Re.star x) s).countP Q ≤ s.length + 1 := by
  have ih : ∀ t, t.length < s.length → (runs (Re.star x) t).countP Q ≤ t.length + 1 :=
    fun t _ => countP_runs_star_chain_le x Q hdead hone t
  rw [runs_star, List.countP_append, List.countP_flatMap]
  have hsum := sum_munch ((runs x s).filter (fun t => decide (t.length < s.length))) Q
    (List.countP Q ∘ runs (Re.star x)) 0 s.length
    (fun t _ hq => by simp [Function.comp, runs_star_of_nil (hdead t hq), hq])
    (fun t ht _ => by
      have hlt : t.length < s.length := by simpa using (List.mem_filter.mp ht).2
      have := ih t hlt
      simp only [Function.comp]; omega)
  have h2 := Nat.le_trans (filter_shorter_countP_le Q (runs x s) s) (hone s)
  have h3 : ((runs x s).filter (fun t => decide (t.length < s.length))).countP Q * s.length ≤ s.length :=
    calc _ ≤ 1 * s.length := Nat.mul_le_mul_right _ h2
      _ = _ := Nat.one_mul _
  have h4 : [s].countP Q ≤ 1 := List.countP_le_length
  simp only [Nat.mul_zero, Nat.zero_add] at hsum
  omega
termination_by s.length

def SparseN.star_chain {x : Re} {Q : List Nat → Bool} (hdead : Fails x Q) (hone : Sparse1 x Q) :
    SparseN (Re.star x) Q 1 :=
  ⟨1, fun s => by simpa [B] using countP_runs_star_chain_le x Q hdead hone s⟩

def SparseN.cat_munch (Q : List Nat → Bool) {a b : Re} {P : List Nat → Bool} {k : Nat} (sa : Sparse a Q)
    (hpass : ∀ t, Q t = false → ∀ u ∈ runs b t, P u = false) (hb : SparseN b P k) :
    SparseN (Re.cat a b) P k := by
  obtain ⟨ka, sa⟩ := sa
  obtain ⟨kb, hb⟩ := hb
  refine ⟨ka * kb, fun s => ?_⟩
  rw [countP_runs_cat]
  have := sum_munch (runs a s) Q (fun t => (runs b t).countP P) 0 (B kb k s.length)
    (fun t _ hq => by
      have : (runs b t).countP P = 0 := by
        rw [List.countP_eq_zero]; intro u hu; simp [hpass t hq u hu]
      omega)
    (fun t ht _ => Nat.le_trans (hb t) (B_mono (Nat.le_refl _) (Nat.le_refl _) (runs_length_le ht)))
  have h2 : (runs a s).countP Q * B kb k s.length ≤ B (ka * kb) k s.length :=
    calc _ ≤ ka * B kb k s.length := Nat.mul_le_mul_right _ (sa s)
      _ = _ := const_mul_B ..
  omega

/-- maximal-munch rule with polynomially many live results of the head -/
def PB.cat_munchN (Q : List Nat → Bool) {a b : Re} {d e k f g : Nat} (ha : PB a d) (ra : RP a e)
    (sa : SparseN a Q k) (cb : Cheap b Q) (hb : PB b f)
    (hd : d ≤ g := by omega) (he : e ≤ g := by omega) (hf : k + f ≤ g := by omega) : PB (Re.cat a b) g := by
  obtain ⟨ca, ha⟩ := ha
  obtain ⟨ka, ra⟩ := ra
  obtain ⟨k', sa⟩ := sa
  obtain ⟨w, cb⟩ := cb
  obtain ⟨cb', hb⟩ := hb
  refine ⟨1 + ca + ka * w + k' * cb', fun s => ?_⟩
  have h0 := work_cat_munch a b s Q w (B cb' f s.length) (fun t _ hq => cb t hq)
    (fun t ht _ => Nat.le_trans (hb t) (B_mono (Nat.le_refl _) (Nat.le_refl _) (runs_length_le ht)))
  have h1 : work a s ≤ B ca g s.length := Nat.le_trans (ha s) (B_mono (Nat.le_refl _) hd (Nat.le_refl _))
  have h2 : (runs a s).length * w ≤ B (ka * w) g s.length :=
    calc _ ≤ B ka e s.length * w := Nat.mul_le_mul_right _ (ra s)
      _ = B (ka * w) e s.length := B_mul_const ..
      _ ≤ _ := B_mono (Nat.le_refl _) he (Nat.le_refl _)
  have h3 : (runs a s).countP Q * B cb' f s.length ≤ B (k' * cb') g s.length :=
    calc _ ≤ B k' k s.length * B cb' f s.length := Nat.mul_le_mul_right _ (sa s)
      _ = B (k' * cb') (k + f) s.length := B_mul ..
      _ ≤ _ := B_mono (Nat.le_refl _) hf (Nat.le_refl _)
  have h4 := le_B 1 g s.length
  show work (Re.cat a b) s ≤ B (1 + ca + ka * w + k' * cb') g s.length
  rw [← B_add, ← B_add, ← B_add]; omega

/-! ### `pastIn`: positions that reach a `J` character after skipping the `ivs` characters -/

def pastIn (ivs J : List (Nat × Nat)) (t : List Nat) : Bool := startsIn J (t.dropWhile (inCls ivs))

theorem dropWhile_of_mem_runs_star_cls {ivs} {s u : List Nat} (h : u ∈ runs (Re.star (Re.cls ivs)) s) :
    u.dropWhile (inCls ivs) = s.dropWhile (inCls ivs) := by
  induction s with
  | nil => rw [runs_star_cls_nil] at h; simp at h; rw [h]
  | cons c r ih =>
    rw [runs_star_cls_cons] at h
    split at h
    · rename_i hc
      rw [List.mem_append] at h
      cases h with
      | inl h => rw [ih h, List.dropWhile_cons, if_pos hc]
      | inr h => simp at h; rw [h]
    · simp at h; rw [h]

theorem dropWhile_of_startsIn {ivs J} (hd : Disj J ivs) {u : List Nat} (h : startsIn J u = true) :
    u.dropWhile (inCls ivs) = u := by
  cases u with
  | nil => rfl
  | cons c r =>
    have : inCls ivs c = false := hd c h
    rw [List.dropWhile_cons, this]; rfl

theorem pastIn_of_mem_star {ivs J} (hd : Disj J ivs) {t u : List Nat} (hu : u ∈ runs (Re.star (Re.cls ivs)) t)
    (h : startsIn J u = true) : pastIn ivs J t = true := by
  unfold pastIn
  rw [← dropWhile_of_mem_runs_star_cls hu, dropWhile_of_startsIn hd h]; exact h

theorem pastIn_cons_in {ivs J} {c : Nat} {r : List Nat} (hc : inCls ivs c = true) :
    pastIn ivs J (c :: r) = pastIn ivs J r := by
  unfold pastIn; rw [List.dropWhile_cons, if_pos hc]

theorem pastIn_cases {ivs J} {t : List Nat} (h : pastIn ivs J t = true) :
    startsIn ivs t = true ∨ startsIn J t = true := by
  cases t with
  | nil => simp [pastIn] at h
  | cons c r =>
    cases hc : inCls ivs c with
    | true => left; exact hc
    | false =>
      right
      unfold pastIn at h
      rw [List.dropWhile_cons, hc] at h
      exact h

theorem pastIn_disj {ivs J K} (hd : Disj J K) {t : List Nat} (h : pastIn ivs J t = true) :
    pastIn ivs K t = false := hd.starts _ h

theorem pastIn_false_of {ivs J K} (h1 : Disj K ivs) (h2 : Disj K J) :
    ∀ t, notStartsIn K t = false → pastIn ivs J t = false := by
  intro t ht
  cases hp : pastIn ivs J t with
  | false => rfl
  | true =>
    have hk : startsIn K t = true := by simpa [notStartsIn] using ht
    cases pastIn_cases hp with
    | inl h => have := h1.starts t hk; simp [h] at this
    | inr h => have := h2.starts t hk; simp [h] at this

theorem pastIn_notStartsIn {ivs J K} (h1 : Disj K ivs) (h2 : Disj K J) :
    ∀ t, pastIn ivs J t = true → notStartsIn K t = true := by
  intro t ht
  cases hk : notStartsIn K t with
  | true => rfl
  | false => have := pastIn_false_of h1 h2 t hk; simp [ht] at this

/-- `[ivs]* b` fails unless the input reaches a `J` character after the `ivs` characters -/
theorem Fails.star_cls_cat {ivs J} (hd : Disj J ivs) {b : Re} (hb : Fails b (startsIn J)) :
    Fails (Re.cat (Re.star (Re.cls ivs)) b) (pastIn ivs J) := by
  intro t ht
  rw [runs_cat, List.flatMap_eq_nil_iff]
  intro u hu
  cases hj : startsIn J u with
  | false => exact hb u hj
  | true => have := pastIn_of_mem_star hd hu hj; simp [ht] at this

/-- `[ivs]+ b` fails unless the input reaches a `J` character after the `ivs` characters -/
theorem Fails.plus_cls_cat {ivs J} (hd : Disj J ivs) {b : Re} (hb : Fails b (startsIn J)) :
    Fails (Re.cat (Re.cat (Re.cls ivs) (Re.star (Re.cls ivs))) b) (pastIn ivs J) := by
  intro t ht
  rw [runs_cat, List.flatMap_eq_nil_iff]
  intro u hu
  rw [runs_cat, List.mem_flatMap] at hu
  obtain ⟨v, hv, hu⟩ := hu
  obtain ⟨c, rfl, hc⟩ := mem_runs_cls hv
  rw [pastIn_cons_in hc] at ht
  cases hj : startsIn J u with
  | false => exact hb u hj
  | true => have := pastIn_of_mem_star hd hu hj; simp [ht] at this

/-- results of `a [ivs]*` at a `J` character come from the results of `a` that reach it -/
theorem Sparse1.cat_star_cls {ivs J} (hd : Disj J ivs) {a : Re} (sa : Sparse1 a (pastIn ivs J)) :
    Sparse1 (Re.cat a (Re.star (Re.cls ivs))) (startsIn J) := by
  refine Sparse1.cat_munch (pastIn ivs J) sa ?_ (Sparse1.star_cls ivs hd.starts)
  intro t ht u hu
  cases hj : startsIn J u with
  | false => rfl
  | true => have := pastIn_of_mem_star hd hu hj; simp [ht] at this

/-- `Sparse1.star_chain` with a body that merely fails (no cost claim) outside `Q` -/
theorem Sparse1.star_chain_fails {x : Re} (Q Q' : List Nat → Bool) {P : List Nat → Bool} (hdead : Fails x Q)
    (hone : Sparse1 x Q') (hQ : ∀ t, Q t = true → Q' t = true) (hP : ∀ t, P t = true → Q' t = true)
    (hPQ : ∀ t, P t = true → Q t = false) : Sparse1 (Re.star x) P :=
  countP_runs_star_chain x Q Q' P hdead hone hQ hP hPQ

/-! ### keyword literals -/

/-- a single literal character -/
def lit (c : Nat) : Re := .cls [(c, c)]

/-- the characters `cs`, then `r` -/
def kwCat : List Nat → Re → Re
  | [], r => r
  | c :: cs, r => .cat (lit c) (kwCat cs r)

/-- a keyword as the translator emits it: right-nested, the last character is not followed by `eps` -/
def kw : List Nat → Re
  | [] => .eps
  | [c] => lit c
  | c :: c' :: cs => .cat (lit c) (kw (c' :: cs))

def PB.kwCat {r : Re} {d : Nat} (h : PB r d) : ∀ cs, PB (kwCat cs r) d
  | [] => h
  | _ :: cs => PB.cat PB.cls RP.cls (PB.kwCat h cs)

def RP.kwCat {r : Re} {d : Nat} (h : RP r d) : ∀ cs, RP (kwCat cs r) d
  | [] => h
  | _ :: cs => RP.cat RP.cls (RP.kwCat h cs)

def Sparse.kwCat {r : Re} {P : List Nat → Bool} (h : Sparse r P) : ∀ cs, Sparse (kwCat cs r) P
  | [] => h
  | _ :: cs => Sparse.cat RP.cls (Sparse.kwCat h cs)

theorem Sparse1.kwCat {r : Re} {P : List Nat → Bool} (h : Sparse1 r P) : ∀ cs, Sparse1 (kwCat cs r) P
  | [] => h
  | _ :: cs => Sparse1.cat (runs_cls_length_le _) (Sparse1.kwCat h cs)

def Dead.kwCat (c : Nat) (cs : List Nat) (r : Re) : Dead (kwCat (c :: cs) r) (startsIn [(c, c)]) :=
  Dead.cat (Dead.cls _) _

def PB.kw : ∀ cs, PB (kw cs) 0
  | [] => PB.eps
  | [_] => PB.cls
  | _ :: c' :: cs => PB.cat PB.cls RP.cls (PB.kw (c' :: cs))

theorem Single.kw : ∀ cs, Single (kw cs)
  | [] => Single.eps
  | [_] => Single.cls
  | _ :: c' :: cs => Single.cat Single.cls (Single.kw (c' :: cs))

def Dead.kw (c : Nat) : ∀ cs, Dead (kw (c :: cs)) (startsIn [(c, c)])
  | [] => Dead.cls _
  | _ :: _ => Dead.cat (Dead.cls _) _

theorem disj_lit {A : List (Nat × Nat)} {c : Nat} (h : inCls A c = false) : Disj A [(c, c)] := by
  intro x hx
  cases hxc : inCls [(c, c)] x with
  | false => rfl
  | true =>
    have : x = c := by simp [inCls] at hxc; omega
    subst this; simp [h] at hx


end Verif.Proofs.XC
