/-
Generated `__str__` of the three description classes = `ocToText` / `atToText` / `dcrToText`.

Each statement of the generated `do` block is peeled with `bind_congr_ok` and a step lemma that is generic in the
list `values` built so far (the step lemma's left side is unified with the generated text, it is not copied);
what remains is the list of appended pieces, whose concatenation is compared with the model's text.
-/
import Verif.Generated.SchemaGen
import Verif.Proofs.SchemaGenHelpers

namespace Verif.Proofs.SchemaGen
open Verif Verif.PyRt Verif.PyRtStr Verif.Schema Verif.SchemaGen

/-! ### the pieces -/

/-- the text of one extension as `__str__` appends it -/
def extSeg (kv : Str × List Str) : Str :=
  match kv.2 with
  | [v] => ofString " X-" ++ kv.1 ++ [SPC] ++ encodeQd v
  | vs => ofString " X-" ++ kv.1 ++ ofString " ( " ++ joinWith [SPC] (vs.map encodeQd) ++ ofString " )"

theorem extsText_eq (e : List (Str × List Str)) : extsText e = (e.map extSeg).flatten := by
  unfold extsText
  congr 1

def namesL (names : List Str) : List Str := match names with | [] => [] | ns => [namesText ns]
def descL (d : Option Str) : List Str := match d with | none => [] | some _ => [descText d]
def condL (c : Prop) [Decidable c] (t : Str) : List Str := if c then [t] else []
def oidsL (pre : Str) (l : List Str) : List Str := if l = [] then [] else [pre ++ encodeOids l]
def optL (pre : Str) (o : Option Str) : List Str := match o with | none => [] | some x => [pre ++ x]
def synL (syn : Option Str) (len : Option Nat) : List Str :=
  match syn with
  | none => []
  | some s => [ofString " SYNTAX " ++ s] ++
      (match len with | none => [] | some n => [ofString "{" ++ natDigits n ++ ofString "}"])

theorem namesL_flat (n) : (namesL n).flatten = namesText n := by
  cases n <;> simp [namesL, namesText]
theorem descL_flat (d) : (descL d).flatten = descText d := by
  cases d <;> simp [descL, descText]
theorem condL_flat (c : Prop) [Decidable c] (t : Str) : (condL c t).flatten = if c then t else [] := by
  by_cases h : c <;> simp [condL, h]
theorem oidsL_flat (pre : Str) (l) : (oidsL pre l).flatten = if l.isEmpty then [] else pre ++ encodeOids l := by
  cases l <;> simp [oidsL]
theorem optL_flat (pre : Str) (o) : (optL pre o).flatten = match o with | none => [] | some x => pre ++ x := by
  cases o <;> simp [optL]
theorem synL_flat (syn len) : (synL syn len).flatten =
    match syn with
    | none => []
    | some s => ofString " SYNTAX " ++ s ++
        (match len with | none => [] | some n => [LCURLY] ++ natDigits n ++ [RCURLY]) := by
  cases syn with
  | none => rfl
  | some s =>
    cases len with
    | none => simp [synL]
    | some n => simp [synL]; rfl

/-! ### the steps -/

theorem names_step (values names : List Str) :
    (if names.length = 1 then
        (listGetItem names 0 >>= fun t => Except.ok (values ++ [ofString " NAME '" ++ t ++ ofString "'"]))
      else
        ((if names ≠ [] then
            Except.ok (values ++ [ofString " NAME ( '" ++ pyJoin (ofString "' '") (names.map (fun n => n)) ++ ofString "' )"])
          else Except.ok values) >>= fun values => (Except.ok values : Except Err (List Str))))
    = .ok (values ++ namesL names) := by
  match names with
  | [] => simp [namesL]
  | [x] => rfl
  | x :: y :: r =>
    have h : ¬ ((x :: y :: r).length = 1) := by simp
    simp only [h, if_false]
    rw [List.map_id', pyJoin_eq]; rfl

theorem desc_step (values : List Str) (d : Option Str) :
    (match d with
      | none => Except.ok values
      | some x => (Except.ok (values ++ [ofString " DESC " ++ encode_qdstring x]) : Except Err (List Str)))
    = .ok (values ++ descL d) := by
  cases d <;> simp [descL, descText, encode_qdstring_eq]

theorem cond_step (c : Prop) [Decidable c] (values : List Str) (t : Str) :
    (if c then Except.ok (values ++ [t]) else (Except.ok values : Except Err (List Str)))
      = .ok (values ++ condL c t) := by
  by_cases h : c <;> simp [condL, h]

theorem oids_step (values l : List Str) (pre : Str) :
    (if l ≠ [] then (encode_oids l >>= fun t => Except.ok (values ++ [pre ++ t])) else Except.ok values)
      = .ok (values ++ oidsL pre l) := by
  rw [encode_oids_eq]
  cases l <;> simp [oidsL, bind_ok']

theorem opt_step (values : List Str) (o : Option Str) (pre : Str) :
    (match o with
      | none => Except.ok values
      | some x => (Except.ok (values ++ [pre ++ x]) : Except Err (List Str)))
    = .ok (values ++ optL pre o) := by
  cases o <;> simp [optL]

theorem pyStrNat_ok (n : Nat) (h : (natDigits n).length ≤ intMaxStrDigits) : pyStrNat n = .ok (natDigits n) := by
  unfold pyStrNat natDigits at *
  simp only [Nat.not_lt.mpr h, if_false]

theorem syn_step (values : List Str) (syn : Option Str) (len : Option Nat)
    (h : ∀ n, len = some n → (natDigits n).length ≤ intMaxStrDigits) :
    (match syn with
      | none => Except.ok values
      | some s =>
        ((match len with
          | none => Except.ok (values ++ [ofString " SYNTAX " ++ s])
          | some n => (pyStrNat n >>= fun t =>
              Except.ok (values ++ [ofString " SYNTAX " ++ s] ++ [ofString "{" ++ t ++ ofString "}"])))
          >>= fun values => (Except.ok values : Except Err (List Str))))
    = .ok (values ++ synL syn len) := by
  cases syn with
  | none => simp [synL]
  | some s =>
    cases len with
    | none => simp [synL]
    | some n =>
      show ((pyStrNat n >>= _) >>= _) = _
      rw [pyStrNat_ok n (h n rfl)]; simp [synL]

theorem ext_step (attr : Str) (ext_values : List Str) (values : List Str) :
    (if ext_values.length = 1 then
        (listGetItem ext_values 0 >>= fun t =>
          Except.ok (values ++ [ofString " X-" ++ attr ++ ofString " " ++ (encode_qdstring t)]))
      else
        Except.ok (values ++ [ofString " X-" ++ attr ++ ofString " ( " ++
          pyJoin (ofString " ") (ext_values.map (fun v => encode_qdstring v)) ++ ofString " )"]))
    = Except.ok (values ++ [extSeg (attr, ext_values)]) := by
  match ext_values with
  | [] => rfl
  | [x] => rfl
  | x :: y :: r =>
    have h : ¬ ((x :: y :: r).length = 1) := by simp
    simp only [h, if_false]
    rw [pyJoin_eq]
    rfl

theorem oc_for1_eq : ∀ (e : List (Str × List Str)) (values : List Str),
    ObjectClassDescription_str_for1 e values = .ok (values ++ e.map extSeg)
  | [], values => by simp [ObjectClassDescription_str_for1]
  | (attr, ext_values) :: rest, values => by
    rw [ObjectClassDescription_str_for1]
    refine bind_congr_ok (ext_step attr ext_values values) ?_
    rw [oc_for1_eq rest]
    simp

theorem at_for1_eq : ∀ (e : List (Str × List Str)) (values : List Str),
    AttributeTypeDescription_str_for1 e values = .ok (values ++ e.map extSeg)
  | [], values => by simp [AttributeTypeDescription_str_for1]
  | (attr, ext_values) :: rest, values => by
    rw [AttributeTypeDescription_str_for1]
    refine bind_congr_ok (ext_step attr ext_values values) ?_
    rw [at_for1_eq rest]
    simp

theorem dcr_for1_eq : ∀ (e : List (Str × List Str)) (values : List Str),
    DITContentRuleDescription_str_for1 e values = .ok (values ++ e.map extSeg)
  | [], values => by simp [DITContentRuleDescription_str_for1]
  | (attr, ext_values) :: rest, values => by
    rw [DITContentRuleDescription_str_for1]
    refine bind_congr_ok (ext_step attr ext_values values) ?_
    rw [dcr_for1_eq rest]
    simp

/-! ### literals: the model spells `SP kw SP` as three pieces, the code as one literal -/

theorem lit_flag (kw : String) (t : Str) (h : [SPC] ++ ofString kw = t) (b : Bool) :
    flagText kw b = if b = true then t else [] := by
  subst h; cases b <;> rfl

theorem lit_oids (kw : String) (pre : Str) (h : [SPC] ++ ofString kw ++ [SPC] = pre) (l : List Str) :
    oidsText kw l = if l.isEmpty = true then [] else pre ++ encodeOids l := by
  subst h; unfold oidsText; rfl

theorem lit_opt (kw : String) (pre : Str) (h : [SPC] ++ ofString kw ++ [SPC] = pre) (o : Option Str) :
    optOidText kw o = match o with | none => [] | some x => pre ++ x := by
  subst h; cases o <;> rfl

theorem kind_lit (k : Nat) (hk : k ≤ 2) :
    ofString " " ++ enumValue ObjectClassKind_members k = [SPC] ++ ofString (kindName k) := by
  match k, hk with
  | 0, _ => rfl
  | 1, _ => rfl
  | 2, _ => rfl

theorem usage_lit (u : Nat) (hu : u ≤ 3) :
    ofString " USAGE " ++ enumValue AttributeTypeUsage_members u = ofString " USAGE " ++ ofString (usageName u) := by
  match u, hu with
  | 0, _ => rfl
  | 1, _ => rfl
  | 2, _ => rfl
  | 3, _ => rfl

/-! ### the three functions -/

theorem oc_str_eq (d : ObjectClass) (hk : d.kind ≤ 2) : ObjectClassDescription_str d = .ok (ocToText d) := by
  unfold ObjectClassDescription_str
  refine bind_congr_ok (names_step _ _) ?_
  refine bind_congr_ok (desc_step _ _) ?_
  refine bind_congr_ok (cond_step _ _ _) ?_
  refine bind_congr_ok (oids_step _ _ _) ?_
  refine bind_congr_ok (oids_step _ _ _) ?_
  refine bind_congr_ok (oids_step _ _ _) ?_
  refine bind_congr_ok (oc_for1_eq _ _) ?_
  rw [pyJoin_empty]
  simp only [List.flatten_append, namesL_flat, descL_flat, condL_flat, oidsL_flat, ← extsText_eq, List.flatten_cons,
    List.flatten_nil, List.append_nil, List.nil_append, kind_lit d.kind hk]
  unfold ocToText
  rw [lit_flag "OBSOLETE" (ofString " OBSOLETE") rfl, lit_oids "SUP" (ofString " SUP ") rfl,
    lit_oids "MUST" (ofString " MUST ") rfl, lit_oids "MAY" (ofString " MAY ") rfl]
  simp only [List.append_assoc]

theorem dcr_str_eq (d : DITContentRule) : DITContentRuleDescription_str d = .ok (dcrToText d) := by
  unfold DITContentRuleDescription_str
  refine bind_congr_ok (names_step _ _) ?_
  refine bind_congr_ok (desc_step _ _) ?_
  refine bind_congr_ok (cond_step _ _ _) ?_
  refine bind_congr_ok (oids_step _ _ _) ?_
  refine bind_congr_ok (oids_step _ _ _) ?_
  refine bind_congr_ok (oids_step _ _ _) ?_
  refine bind_congr_ok (oids_step _ _ _) ?_
  refine bind_congr_ok (dcr_for1_eq _ _) ?_
  rw [pyJoin_empty]
  simp only [List.flatten_append, namesL_flat, descL_flat, condL_flat, oidsL_flat, ← extsText_eq, List.flatten_cons,
    List.flatten_nil, List.append_nil, List.nil_append]
  unfold dcrToText
  rw [lit_flag "OBSOLETE" (ofString " OBSOLETE") rfl, lit_oids "AUX" (ofString " AUX ") rfl,
    lit_oids "MUST" (ofString " MUST ") rfl, lit_oids "MAY" (ofString " MAY ") rfl,
    lit_oids "NOT" (ofString " NOT ") rfl]
  simp only [List.append_assoc]


theorem at_str_eq (d : AttributeType) (hu : d.usage ≤ 3)
    (hl : ∀ n, d.synLen = some n → (natDigits n).length ≤ intMaxStrDigits) :
    AttributeTypeDescription_str d = .ok (atToText d) := by
  unfold AttributeTypeDescription_str
  refine bind_congr_ok (names_step _ _) ?_
  refine bind_congr_ok (desc_step _ _) ?_
  refine bind_congr_ok (cond_step _ _ _) ?_
  refine bind_congr_ok (opt_step _ _ _) ?_
  refine bind_congr_ok (opt_step _ _ _) ?_
  refine bind_congr_ok (opt_step _ _ _) ?_
  refine bind_congr_ok (opt_step _ _ _) ?_
  refine bind_congr_ok (syn_step _ _ _ hl) ?_
  refine bind_congr_ok (cond_step _ _ _) ?_
  refine bind_congr_ok (cond_step _ _ _) ?_
  refine bind_congr_ok (cond_step _ _ _) ?_
  refine bind_congr_ok (cond_step _ _ _) ?_
  refine bind_congr_ok (at_for1_eq _ _) ?_
  rw [pyJoin_empty]
  simp only [List.flatten_append, namesL_flat, descL_flat, condL_flat, optL_flat, synL_flat, ← extsText_eq,
    List.flatten_cons, List.flatten_nil, List.append_nil, List.nil_append, usage_lit d.usage hu]
  unfold atToText
  rw [lit_flag "OBSOLETE" (ofString " OBSOLETE") rfl, lit_flag "SINGLE-VALUE" (ofString " SINGLE-VALUE") rfl,
    lit_flag "COLLECTIVE" (ofString " COLLECTIVE") rfl,
    lit_flag "NO-USER-MODIFICATION" (ofString " NO-USER-MODIFICATION") rfl,
    lit_opt "SUP" (ofString " SUP ") rfl, lit_opt "EQUALITY" (ofString " EQUALITY ") rfl,
    lit_opt "ORDERING" (ofString " ORDERING ") rfl, lit_opt "SUBSTR" (ofString " SUBSTR ") rfl]
  simp only [List.append_assoc]
  rfl


theorem pyStrNat_over (n : Nat) (h : (natDigits n).length > intMaxStrDigits) : pyStrNat n = .error .valueError := by
  unfold pyStrNat natDigits at *
  simp only [h, if_true]

/-- the explicit divergence of `__str__`: a `syntax_length` whose decimal text has more than `intMaxStrDigits`
    (4300) digits makes the f-string raise ValueError; the model's `atToText` is total -/
theorem at_str_over_limit (d : AttributeType) (s : Str) (n : Nat) (hs : d.syn = some s) (hn : d.synLen = some n)
    (hl : (natDigits n).length > intMaxStrDigits) :
    AttributeTypeDescription_str d = .error .valueError := by
  unfold AttributeTypeDescription_str
  refine bind_congr_ok (names_step _ _) ?_
  refine bind_congr_ok (desc_step _ _) ?_
  refine bind_congr_ok (cond_step _ _ _) ?_
  refine bind_congr_ok (opt_step _ _ _) ?_
  refine bind_congr_ok (opt_step _ _ _) ?_
  refine bind_congr_ok (opt_step _ _ _) ?_
  refine bind_congr_ok (opt_step _ _ _) ?_
  refine bind_congr_err ?_
  rw [hs, hn]
  show ((pyStrNat n >>= _) >>= _) = _
  rw [pyStrNat_over n hl]
  rfl

end Verif.Proofs.SchemaGen
