/-
Proofs for `Props/C18Recv.lean`: the counting parse loop (`RecvCost.parseLoopC`) returns what
`parseLoop` returns, makes at most one decode attempt per returned message plus one, and at most
half the buffer length plus one attempts in every case.

Reused: `decMsg_ok_readTLV` (RecvFrame) and `readTLV_shorter` (BerHeader): a successful `decMsg`
consumes at least two bytes.
-/
import Verif.Model.RecvCost
import Verif.Proofs.RecvFrame

namespace Verif.Proofs.RecvCostP
open Verif

/-- a successful `decMsg` consumes at least the two octets of a header -/
theorem decMsg_consumes_two (regs : Regs) (depth : Nat) (bs : Bytes) (m : Msg) (r : Bytes)
    (h : decMsg regs depth bs = .ok (m, r)) : r.length + 2 ≤ bs.length := by
  obtain ⟨c, hc⟩ := decMsg_ok_readTLV _ _ _ _ _ h
  exact (readTLV_shorter _ _ _ _ hc).1

theorem counting_same_result_fuel (regs : Regs) (depth : Nat) : ∀ (fuel : Nat) (bs : Bytes),
    (RecvCost.parseLoopC regs depth fuel bs).1 = parseLoop regs depth fuel bs := by
  intro fuel
  induction fuel with
  | zero =>
    intro bs
    simp only [RecvCost.parseLoopC, parseLoop]
  | succ n ih =>
    intro bs
    simp only [RecvCost.parseLoopC, parseLoop]
    split
    · rfl
    · cases hd : decMsg regs depth bs with
      | error e => cases e <;> rfl
      | ok p =>
        obtain ⟨m, r⟩ := p
        simp only
        rw [← ih r]
        cases hp : RecvCost.parseLoopC regs depth n r with
        | mk res k =>
          cases res with
          | error e => rfl
          | ok q => obtain ⟨ms, rest⟩ := q; rfl

theorem attempts_messages_fuel (regs : Regs) (depth : Nat) : ∀ (fuel : Nat) (bs : Bytes)
    (ms : List Msg) (rest : Bytes) (k : Nat),
    RecvCost.parseLoopC regs depth fuel bs = (.ok (ms, rest), k) → k ≤ ms.length + 1 := by
  intro fuel
  induction fuel with
  | zero =>
    intro bs ms rest k h
    simp only [RecvCost.parseLoopC] at h
    have := congrArg Prod.snd h
    simp only at this
    omega
  | succ n ih =>
    intro bs ms rest k h
    simp only [RecvCost.parseLoopC] at h
    split at h
    · have := congrArg Prod.snd h
      simp only at this
      omega
    · cases hd : decMsg regs depth bs with
      | error e =>
        rw [hd] at h
        cases e <;> simp only [Prod.mk.injEq] at h <;> omega
      | ok p =>
        obtain ⟨m, r⟩ := p
        rw [hd] at h
        simp only at h
        cases hp : RecvCost.parseLoopC regs depth n r with
        | mk res k' =>
          rw [hp] at h
          cases res with
          | error e => simp only [Prod.mk.injEq] at h; exact absurd h.1 (by intro hh; cases hh)
          | ok q =>
            obtain ⟨ms', rest'⟩ := q
            simp only [Prod.mk.injEq, Except.ok.injEq] at h
            obtain ⟨⟨hms, _⟩, hk⟩ := h
            have := ih r ms' rest' k' hp
            subst hms
            simp only [List.length_cons]
            omega

theorem attempts_linear_fuel (regs : Regs) (depth : Nat) : ∀ (fuel : Nat) (bs : Bytes),
    (RecvCost.parseLoopC regs depth fuel bs).2 ≤ bs.length / 2 + 1 := by
  intro fuel
  induction fuel with
  | zero =>
    intro bs
    simp only [RecvCost.parseLoopC]
    omega
  | succ n ih =>
    intro bs
    simp only [RecvCost.parseLoopC]
    split
    · simp only; omega
    · cases hd : decMsg regs depth bs with
      | error e => cases e <;> simp only <;> omega
      | ok p =>
        obtain ⟨m, r⟩ := p
        have h2 := decMsg_consumes_two _ _ _ _ _ hd
        have hr := ih r
        simp only
        cases hp : RecvCost.parseLoopC regs depth n r with
        | mk res k' =>
          rw [hp] at hr
          simp only at hr
          cases res with
          | error e => simp only; omega
          | ok q => obtain ⟨ms, rest⟩ := q; simp only; omega

theorem counting_same_result (regs : Regs) (depth : Nat) (bs : Bytes) :
    (RecvCost.parseLoopC regs depth bs.length bs).1 = parseLoop regs depth bs.length bs :=
  counting_same_result_fuel regs depth bs.length bs

theorem attempts_messages (regs : Regs) (depth : Nat) (bs : Bytes) (ms : List Msg) (rest : Bytes) (k : Nat)
    (h : RecvCost.parseLoopC regs depth bs.length bs = (.ok (ms, rest), k)) : k ≤ ms.length + 1 :=
  attempts_messages_fuel regs depth bs.length bs ms rest k h

theorem attempts_linear (regs : Regs) (depth : Nat) (bs : Bytes) :
    (RecvCost.parseLoopC regs depth bs.length bs).2 ≤ bs.length / 2 + 1 :=
  attempts_linear_fuel regs depth bs.length bs

end Verif.Proofs.RecvCostP
