/-
C18 (continued) — the step-counting filter parser, part 3: the invariant of the recursive descent.

`W K m = 32·m + K·m²` is the budget of `m` consumed bytes.  A successful call of any of the three
parser functions that consumed `m` bytes performed at most `W K m` steps (sub-calls included); a
failing call on a slice of `len` bytes at most `W K (len+1)`.  `W` is superadditive, so the budgets
of the disjoint pieces consumed by successive sub-calls add up to at most the budget of the whole:
no byte is paid for twice, whatever the nesting.  The loops carry `k + c ≤ W K read` as their
accumulator invariant (same shape as `Proofs/FilterCost.lean`).
-/
import Verif.Proofs.FilterStepsSimple
namespace Verif.Proofs.FilterSteps
open Verif Verif.FilterSteps

/-- `_unpack_filter` / `_unpack_complex_filter` on a slice of `len` bytes: a successful call that
    consumed `m` bytes is paid by those bytes (with one step to spare, for the caller's iteration);
    a failing call is paid by the slice -/
def FilB (K len : Nat) : R × Nat → Prop
  | (.ok (_, m), c) => c + 1 ≤ W K m ∧ m ≤ len
  | (.error _, c) => c ≤ W K (len + 1)

def UfB (K : Nat) (ufS : Bytes → Nat → R × Nat) : Prop := ∀ cur off, FilB K cur.length (ufS cur off)

def CLoopB (K len : Nat) : Except FErr (List Filter × Nat) × Nat → Prop
  | (.ok (_, r), c) => c + 1 ≤ W K r ∧ r ≤ len
  | (.error _, c) => c ≤ W K (len + 1)

theorem complexLoopS_bound {K : Nat} {ufS : Bytes → Nat → R × Nat} (hu : UfB K ufS) (cur : Bytes) (off : Nat) :
    ∀ fuel read fs k, read ≤ cur.length → k + 2 ≤ W K read →
      CLoopB K cur.length (complexLoopS ufS cur off fuel read fs k) := by
  intro fuel
  induction fuel with
  | zero =>
    intro read fs k hr hk
    have hm := W_mono K (show read ≤ cur.length + 1 by omega)
    simp only [complexLoopS]
    split
    · simp only [CLoopB]; omega
    · simp only [CLoopB]; omega
  | succ fuel ih =>
    intro read fs k hr hk
    have hm := W_mono K (show read ≤ cur.length + 1 by omega)
    simp only [complexLoopS]
    split
    · simp only [CLoopB]; omega
    · rename_i hlt
      have hs := W_succ K read
      split
      · exact ih _ _ _ (by omega) (by omega)
      · split
        · split
          · simp only [CLoopB]; omega
          · have h := hu ((cur.drop read).take (cur.length - read - 1)) (off + read)
            have hlen : ((cur.drop read).take (cur.length - read - 1)).length = cur.length - read - 1 := by
              rw [List.length_take, List.length_drop]; omega
            rw [hlen] at h
            generalize ufS ((cur.drop read).take (cur.length - read - 1)) (off + read) = p at h
            match p, h with
            | (.error e, n), h =>
              simp only [FilB] at h
              have h1 := W_add K read (cur.length - read - 1 + 1)
              have h2 := W_mono K (show read + (cur.length - read - 1 + 1) ≤ cur.length + 1 by omega)
              simp only [CLoopB]; omega
            | (.ok (f, m), n), h =>
              simp only [FilB] at h
              have h1 := W_add K read m
              exact ih _ _ _ (by omega) (by omega)
        · split
          · simp only [CLoopB]; omega
          · simp only [CLoopB]; omega

theorem unpackComplexS_bound {K : Nat} {ufS : Bytes → Nat → R × Nat} (hu : UfB K ufS) (cur : Bytes) (off : Nat)
    (hlen : 1 ≤ cur.length) : FilB K cur.length (unpackComplexS ufS cur off) := by
  have h := complexLoopS_bound hu cur off cur.length 1 [] 1 hlen (by have := W_lin K 1; omega)
  unfold unpackComplexS
  generalize complexLoopS ufS cur off cur.length 1 [] 1 = p at h
  match p, h with
  | (.error e, k), h => exact h
  | (.ok ([], read), k), h =>
    simp only [CLoopB] at h
    have := W_mono K (show read ≤ cur.length + 1 by omega)
    simp only [FilB]; omega
  | (.ok (f0 :: fs, read), k), h =>
    simp only
    split
    · exact h
    · split <;> exact h

/-- slack of `filterLoopS`'s accumulator before anything has been consumed -/
def slack (st : FLoop) : Nat := if st.parens.isSome ∨ st.parsed.isSome then 0 else 2

def FLoopB (K len : Nat) : Except FErr FLoop × Nat → Prop
  | (.ok st, c) => c + 1 ≤ W K st.read + slack st ∧ st.read ≤ len
  | (.error _, c) => c ≤ W K (len + 1)

theorem filterLoopS_bound {K : Nat} {cx sm : Bytes → Nat → R × Nat}
    (hcx : ∀ cur off, 1 ≤ cur.length → FilB K cur.length (cx cur off))
    (hsm : ∀ cur off, SimB K cur.length (sm cur off)) (cur : Bytes) (off : Nat) :
    ∀ fuel st k, st.read ≤ cur.length → k + 1 ≤ W K st.read + slack st →
      FLoopB K cur.length (filterLoopS cx sm cur off fuel st k) := by
  intro fuel
  induction fuel with
  | zero =>
    intro st k hr hk
    have hs2 : slack st ≤ 2 := by unfold slack; split <;> omega
    simp only [filterLoopS]
    split
    · exact ⟨hk, hr⟩
    · rename_i hlt
      have hs := W_succ K st.read
      have hm := W_mono K (show st.read + 1 ≤ cur.length + 1 by omega)
      simp only [FLoopB]; omega
  | succ fuel ih =>
    intro st k hr hk
    have hs2 : slack st ≤ 2 := by unfold slack; split <;> omega
    simp only [filterLoopS]
    split
    · exact ⟨hk, hr⟩
    · rename_i hlt
      have hs := W_succ K st.read
      have hm := W_mono K (show st.read + 1 ≤ cur.length + 1 by omega)
      have hm' := W_mono K (show st.read + 1 ≤ cur.length by omega)
      have hdl : (cur.drop st.read).length = cur.length - st.read := List.length_drop
      have hA := W_add K st.read (cur.length - st.read + 1)
      have hA' : cur.length + 1 = st.read + (cur.length - st.read + 1) := by omega
      split
      · refine ih _ _ (by simp only; omega) ?_
        have : slack { st with read := st.read + 1 } = slack st := rfl
        simp only [this]; omega
      · split
        · split
          · simp only [FLoopB]; omega
          · rename_i p hp
            have h0 : slack st = 0 := by simp [slack, hp]
            simp only [FLoopB]; omega
        · split
          · rename_i hpar
            have h0 : slack st = 0 := by simp [slack, hpar]
            split
            · simp only [FLoopB]; omega
            · by_cases hc : cur.getD st.read 0 = cBang ∨ cur.getD st.read 0 = cAmp ∨ cur.getD st.read 0 = cPipe
              · simp only [if_pos hc]
                have h := hcx (cur.drop st.read) (off + st.read) (by omega)
                rw [hdl] at h
                generalize cx (cur.drop st.read) (off + st.read) = p at h
                match p, h with
                | (.error e, n), h =>
                  simp only [FilB] at h
                  simp only [FLoopB]
                  rw [hA']; omega
                | (.ok (f, m), n), h =>
                  simp only [FilB] at h
                  have h1 := W_add K st.read m
                  refine ih _ _ (by simp only; omega) ?_
                  have : slack { st with parsed := some f, read := st.read + m } = 0 := by simp [slack]
                  simp only [this]; omega
              · simp only [if_neg hc]
                have h := hsm (cur.drop st.read) (off + st.read)
                rw [hdl] at h
                generalize sm (cur.drop st.read) (off + st.read) = p at h
                match p, h with
                | (.error e, n), h =>
                  simp only [SimB] at h
                  simp only [FLoopB]
                  rw [hA']; omega
                | (.ok (f, m), n), h =>
                  simp only [SimB] at h
                  have h1 := W_add K st.read m
                  refine ih _ _ (by simp only; omega) ?_
                  have : slack { st with parsed := some f, read := st.read + m } = 0 := by simp [slack]
                  simp only [this]; omega
          · split
            · refine ih _ _ (by simp only; omega) ?_
              have : slack { st with parens := some st.read, read := st.read + 1 } = 0 := by simp [slack]
              simp only [this]; omega
            · have h := hsm (cur.drop st.read) (off + st.read)
              rw [hdl] at h
              generalize sm (cur.drop st.read) (off + st.read) = p at h
              match p, h with
              | (.error e, n), h =>
                simp only [SimB] at h
                simp only [FLoopB]
                rw [hA']; omega
              | (.ok (f, m), n), h =>
                simp only [SimB] at h
                have h1 := W_add K st.read m
                have : slack { st with parsed := some f, read := st.read + m } = 0 := by simp [slack]
                simp only [FLoopB, this]; omega

theorem filterBodyS_bound {K : Nat} {cx sm : Bytes → Nat → R × Nat}
    (hcx : ∀ cur off, 1 ≤ cur.length → FilB K cur.length (cx cur off))
    (hsm : ∀ cur off, SimB K cur.length (sm cur off)) (cur : Bytes) (off : Nat) :
    FilB K cur.length (filterBodyS cx sm cur off) := by
  have h := filterLoopS_bound hcx hsm cur off cur.length ⟨0, none, none⟩ 1 (Nat.zero_le _)
    (by simp [slack])
  unfold filterBodyS
  generalize filterLoopS cx sm cur off cur.length ⟨0, none, none⟩ 1 = p at h
  match p, h with
  | (.error e, k), h => exact h
  | (.ok ⟨rd, some p, psd⟩, k), h =>
    simp only [FLoopB, slack] at h
    have := W_succ K rd
    have := W_mono K (show rd + 1 ≤ cur.length + 1 by omega)
    simp only [FilB]
    simp at h
    omega
  | (.ok ⟨rd, none, none⟩, k), h =>
    simp only [FLoopB, slack] at h
    have := W_succ K rd
    have := W_mono K (show rd + 1 ≤ cur.length + 1 by omega)
    simp only [FilB]
    simp at h
    omega
  | (.ok ⟨rd, none, some f⟩, k), h =>
    simp only [FLoopB, slack] at h
    simp only [FilB]
    simp at h
    omega

theorem unpackFilterS_bound (K : Nat) : ∀ depth, UfB K (unpackFilterS K depth) := by
  intro depth
  induction depth with
  | zero =>
    intro cur off
    have := W_lin K (cur.length + 1)
    simp only [unpackFilterS, FilB]; omega
  | succ depth ih =>
    intro cur off
    simp only [unpackFilterS]
    exact filterBodyS_bound (fun c o h => unpackComplexS_bound ih c o h) (unpackSimpleS_bound K) cur off

end Verif.Proofs.FilterSteps
