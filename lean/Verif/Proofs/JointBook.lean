/-
C11, part 2: the bookkeeping invariant that relates the client session and the server session
through the four ghost logs, stated over the logs' (id, operation) signatures only, and its
preservation by the four kinds of micro-step: the client sends a request, the server processes
the next request in line, the server sends a response, the client processes the next response.
-/
import Verif.Proofs.SessionStep
import Verif.Proofs.SessionInv

namespace Verif.Proofs.JointP
open Verif Verif.Proofs
set_option linter.unusedSimpArgs false
set_option linter.unusedVariables false

abbrev Sig := Int × Op

def sig (m : Msg) : Sig := (m.id, m.op)

/-- a response that ends its operation -/
def isFinalOp : Op → Bool
  | .searchEntry .. | .searchRef .. => false
  | _ => true

/-- a bind response that ends the bind (anything but saslBindInProgress) -/
def isBindDoneOp : Op → Bool
  | .bindResp r _ => decide (r.code ≠ Facts.codeSaslBindInProgress)
  | _ => false

/-- `matchingKind` on operations -/
def kindOK : Op → Op → Bool
  | .bindReq .., .bindResp .. => true
  | .searchReq .., .searchEntry .. => true
  | .searchReq .., .searchRef .. => true
  | .searchReq .., .searchDone .. => true
  | .extReq .., .extResp _ name _ => name != some Facts.oidNotice
  | _, _ => false

def isReq3 : Op → Bool
  | .bindReq .. | .searchReq .. | .extReq .. => true
  | _ => false

def answered (R : List Sig) (i : Int) : Prop := ∃ r ∈ R, r.1 = i ∧ isFinalOp r.2 = true
def bindDone (R : List Sig) (i : Int) : Prop := ∃ r ∈ R, r.1 = i ∧ isBindDoneOp r.2 = true
def hasId (L : List Sig) (i : Int) : Prop := ∃ m ∈ L, m.1 = i
def hasSearch (L : List Sig) (i : Int) : Prop := ∃ m ∈ L, m.1 = i ∧ opIsSearch m.2 = true
def isLastBind (L : List Sig) (b : Sig) : Prop :=
  b ∈ L ∧ opIsBind b.2 = true ∧ ∀ b' ∈ L, opIsBind b'.2 = true → b'.1 ≤ b.1

/-! ### list facts -/

theorem exists_mem_append_one {α : Type} (p : α → Prop) (R : List α) (x : α) :
    (∃ r ∈ R ++ [x], p r) ↔ (∃ r ∈ R, p r) ∨ p x := by
  constructor
  · rintro ⟨r, hr, h⟩
    rcases List.mem_append.1 hr with hr | hr
    · exact Or.inl ⟨r, hr, h⟩
    · rw [List.mem_singleton] at hr; subst hr; exact Or.inr h
  · rintro (⟨r, hr, h⟩ | h)
    · exact ⟨r, List.mem_append_left _ hr, h⟩
    · exact ⟨x, List.mem_append_right _ (List.mem_singleton.2 rfl), h⟩

theorem answered_append (R : List Sig) (x : Sig) (i : Int) :
    answered (R ++ [x]) i ↔ answered R i ∨ (x.1 = i ∧ isFinalOp x.2 = true) :=
  exists_mem_append_one _ R x

theorem bindDone_append (R : List Sig) (x : Sig) (i : Int) :
    bindDone (R ++ [x]) i ↔ bindDone R i ∨ (x.1 = i ∧ isBindDoneOp x.2 = true) :=
  exists_mem_append_one _ R x

theorem hasId_append (R : List Sig) (x : Sig) (i : Int) :
    hasId (R ++ [x]) i ↔ hasId R i ∨ x.1 = i :=
  exists_mem_append_one _ R x

theorem hasSearch_append (R : List Sig) (x : Sig) (i : Int) :
    hasSearch (R ++ [x]) i ↔ hasSearch R i ∨ (x.1 = i ∧ opIsSearch x.2 = true) :=
  exists_mem_append_one _ R x

theorem answered_mono {A B : List Sig} {i : Int} (h : answered A i) (hs : ∀ r ∈ A, r ∈ B) :
    answered B i := by
  obtain ⟨r, hr, h'⟩ := h
  exact ⟨r, hs r hr, h'⟩

theorem isLastBind_append_nonbind (L : List Sig) (x b : Sig) (hx : opIsBind x.2 = false) :
    isLastBind (L ++ [x]) b ↔ isLastBind L b := by
  unfold isLastBind
  constructor
  · rintro ⟨h1, h2, h3⟩
    refine ⟨?_, h2, fun b' hb' => h3 b' (List.mem_append_left _ hb')⟩
    rcases List.mem_append.1 h1 with h | h
    · exact h
    · rw [List.mem_singleton] at h; subst h; rw [hx] at h2; cases h2
  · rintro ⟨h1, h2, h3⟩
    refine ⟨List.mem_append_left _ h1, h2, ?_⟩
    intro b' hb' hb
    rcases List.mem_append.1 hb' with h | h
    · exact h3 b' h hb
    · rw [List.mem_singleton] at h; subst h; rw [hx] at hb; cases hb

theorem isLastBind_append_bind (L : List Sig) (x : Sig) (hx : opIsBind x.2 = true)
    (hlt : ∀ m ∈ L, m.1 < x.1) : isLastBind (L ++ [x]) x := by
  refine ⟨List.mem_append_right _ (List.mem_singleton.2 rfl), hx, ?_⟩
  intro b' hb' _
  rcases List.mem_append.1 hb' with h | h
  · exact Int.le_of_lt (hlt b' h)
  · rw [List.mem_singleton] at h; subst h; exact Int.le_refl _

/-- in a list sorted by id, the id determines the element -/
theorem sorted_inj : ∀ (L : List Sig), L.Pairwise (fun a b => a.1 < b.1) →
    ∀ a ∈ L, ∀ b ∈ L, a.1 = b.1 → a = b := by
  intro L
  induction L with
  | nil => intro _ a ha; cases ha
  | cons x xs ih =>
    intro hp a ha b hb hab
    rw [List.pairwise_cons] at hp
    rcases List.mem_cons.1 ha with rfl | ha' <;> rcases List.mem_cons.1 hb with rfl | hb'
    · rfl
    · have := hp.1 b hb'; omega
    · have := hp.1 a ha'; omega
    · exact ih hp.2 a ha' b hb' hab

/-! ### facts about kinds -/

theorem kindOK_resp {a b : Op} (h : kindOK a b = true) :
    b.isResponse = true ∧ b.isNotice = false ∧ b.isUnbind = false := by
  cases a <;> cases b <;> simp [kindOK] at h <;>
    simp [Op.isResponse, Op.isNotice, Op.isUnbind, opTag, Facts.responseOps, Facts.opBindResponse,
      Facts.opSearchResultEntry, Facts.opSearchResultDone, Facts.opSearchResultReference,
      Facts.opExtendedResponse]
  case extReq.extResp n v r name val =>
    cases name with
    | none => rfl
    | some x => simpa using h

theorem kindOK_final {a b : Op} (h : kindOK a b = true) :
    isFinalOp b = if opIsSearch a = true then opIsDone b else true := by
  cases a <;> cases b <;> simp [kindOK] at h <;> simp [isFinalOp, opIsSearch, opIsDone]

theorem kindOK_done {a b : Op} (h : kindOK a b = true) (hd : opIsDone b = true) : opIsSearch a = true := by
  cases a <;> cases b <;> simp [kindOK, opIsDone] at h hd <;> simp [opIsSearch]

theorem kindOK_bindDone {a b : Op} (h : kindOK a b = true) (hd : isBindDoneOp b = true) :
    opIsBind a = true := by
  cases a <;> cases b <;> simp [kindOK, isBindDoneOp] at h hd <;> simp [opIsBind]

theorem isReq3_request {a : Op} (h : isReq3 a = true) :
    a.isRequest = true ∧ a.isNotice = false ∧ a.isUnbind = false := by
  cases a <;> simp [isReq3] at h <;>
    simp [Op.isRequest, Op.isNotice, Op.isUnbind, opTag, Facts.requestOps, Facts.opBindRequest,
      Facts.opSearchRequest, Facts.opExtendedRequest]

theorem cliState_not_done {st : SState} {op : Op} (h : isBindDoneOp op = false) : cliState st op = st := by
  cases op <;> simp [cliState, isBindDoneOp] at h ⊢
  intro h'; exact absurd h h'

theorem cliState_done {st : SState} {op : Op} (h : isBindDoneOp op = true) : cliState st op = .opened := by
  cases op <;> simp [cliState, isBindDoneOp] at h ⊢
  intro h'; exact absurd h' h

theorem srvState_bind {st : SState} {op : Op} (h : opIsBind op = true) : srvState st op = .binding := by
  cases op <;> simp [opIsBind] at h <;> rfl

theorem srvState_nonbind {st : SState} {op : Op} (h : opIsBind op = false) :
    srvState st op = if st = .beforeOpen then .opened else st := by
  cases op <;> simp [opIsBind] at h <;> rfl

/-! ### the invariant -/

/-- Bookkeeping invariant while neither side has terminated.  `RC`/`RS` are the signatures of
    the messages sent by the client/server, `GS`/`GC` of those handed to the server/client. -/
structure Book (cst : SState) (cout csr : List Int) (ctr : Int) (sst : SState) (sout : List Int)
    (RC GS RS GC : List Sig) : Prop where
  cOpen : cst ≠ .closed
  sOpen : sst ≠ .closed
  preS : ∃ p, RC = GS ++ p
  preC : ∃ p, RS = GC ++ p
  req : ∀ m ∈ RC, isReq3 m.2 = true ∧ m.1 < ctr
  sorted : RC.Pairwise (fun a b => a.1 < b.1)
  cOut : ∀ i, i ∈ cout ↔ hasId RC i ∧ ¬answered GC i
  cSrch : ∀ i, i ∈ csr ↔ hasSearch RC i ∧ ¬answered GC i
  sOut : ∀ i, i ∈ sout ↔ hasId GS i ∧ ¬answered RS i
  kinds : ∀ r ∈ RS, ∃ m ∈ GS, m.1 = r.1 ∧ kindOK m.2 r.2 = true
  once : RS.Pairwise (fun a b => ¬(a.1 = b.1 ∧ isFinalOp a.2 = true))
  idle : ∀ b ∈ RC, opIsBind b.2 = true → ∀ m ∈ RC, m.1 < b.1 → answered GC m.1
  cState : cst = .binding ↔ ∃ b, isLastBind RC b ∧ ¬bindDone GC b.1
  sState : sst = .binding ↔ ∃ b, isLastBind GS b ∧ ¬bindDone RS b.1

theorem Book.init : Book .beforeOpen [] [] Facts.firstMessageId .beforeOpen [] [] [] [] [] where
  cOpen := by simp
  sOpen := by simp
  preS := ⟨[], rfl⟩
  preC := ⟨[], rfl⟩
  req := by simp
  sorted := List.Pairwise.nil
  cOut := by simp [hasId]
  cSrch := by simp [hasSearch]
  sOut := by simp [hasId]
  kinds := by simp
  once := List.Pairwise.nil
  idle := by simp
  cState := by simp [isLastBind]
  sState := by simp [isLastBind]

section
variable {cst : SState} {cout csr : List Int} {ctr : Int} {sst : SState} {sout : List Int}
  {RC GS RS GC : List Sig}

theorem Book.gs_sub (B : Book cst cout csr ctr sst sout RC GS RS GC) : ∀ m ∈ GS, m ∈ RC := by
  obtain ⟨p, hp⟩ := B.preS
  intro m hm; rw [hp]; exact List.mem_append_left _ hm

theorem Book.gc_sub (B : Book cst cout csr ctr sst sout RC GS RS GC) : ∀ r ∈ GC, r ∈ RS := by
  obtain ⟨p, hp⟩ := B.preC
  intro m hm; rw [hp]; exact List.mem_append_left _ hm

/-- every response sent answers a request the client sent, of the matching kind -/
theorem Book.resp_req (B : Book cst cout csr ctr sst sout RC GS RS GC) {r : Sig} (hr : r ∈ RS) :
    ∃ m ∈ RC, m.1 = r.1 ∧ kindOK m.2 r.2 = true := by
  obtain ⟨m, hm, h⟩ := B.kinds r hr
  exact ⟨m, B.gs_sub m hm, h⟩

theorem Book.resp_lt (B : Book cst cout csr ctr sst sout RC GS RS GC) {r : Sig} (hr : r ∈ RS) :
    r.1 < ctr := by
  obtain ⟨m, hm, h, _⟩ := B.resp_req hr
  rw [← h]; exact (B.req m hm).2

theorem Book.not_answered_ctr (B : Book cst cout csr ctr sst sout RC GS RS GC) : ¬answered GC ctr := by
  rintro ⟨r, hr, h, _⟩
  have := B.resp_lt (B.gc_sub r hr)
  omega

theorem Book.not_bindDone_ctr (B : Book cst cout csr ctr sst sout RC GS RS GC) : ¬bindDone GC ctr := by
  rintro ⟨r, hr, h, _⟩
  have := B.resp_lt (B.gc_sub r hr)
  omega

theorem Book.uniq (B : Book cst cout csr ctr sst sout RC GS RS GC) :
    ∀ a ∈ RC, ∀ b ∈ RC, a.1 = b.1 → a = b := sorted_inj RC B.sorted

/-! ### micro-step 1: the client sends a request -/

theorem Book.cSend (B : Book cst cout csr ctr sst sout RC GS RS GC) (op : Op)
    (hreq : isReq3 op = true) (hb : cst = .binding → opIsBind op = true)
    (hidle : opIsBind op = true → cout = []) :
    Book (if opIsBind op = true then .binding else (if cst = .beforeOpen then .opened else cst))
      (setInsert ctr cout) (if opIsSearch op = true then setInsert ctr csr else csr) (ctr + 1)
      sst sout (RC ++ [(ctr, op)]) GS RS GC where
  cOpen := by
    have := B.cOpen
    split
    · simp
    · split <;> simp_all
  sOpen := B.sOpen
  preS := by
    obtain ⟨p, hp⟩ := B.preS
    exact ⟨p ++ [(ctr, op)], by rw [hp, List.append_assoc]⟩
  preC := B.preC
  req := by
    intro m hm
    rcases List.mem_append.1 hm with h | h
    · have := B.req m h
      exact ⟨this.1, by omega⟩
    · rw [List.mem_singleton] at h; subst h
      exact ⟨hreq, by simp only; omega⟩
  sorted := by
    rw [List.pairwise_append]
    refine ⟨B.sorted, List.pairwise_singleton _ _, ?_⟩
    intro a ha b hb'
    rw [List.mem_singleton] at hb'; subst hb'
    exact (B.req a ha).2
  cOut := by
    intro i
    rw [mem_setInsert, hasId_append, B.cOut i]
    constructor
    · rintro (rfl | ⟨h1, h2⟩)
      · exact ⟨Or.inr rfl, B.not_answered_ctr⟩
      · exact ⟨Or.inl h1, h2⟩
    · rintro ⟨h1 | h1, h2⟩
      · exact Or.inr ⟨h1, h2⟩
      · exact Or.inl h1.symm
  cSrch := by
    intro i
    rw [hasSearch_append]
    by_cases hs : opIsSearch op = true
    · rw [if_pos hs, mem_setInsert, B.cSrch i]
      constructor
      · rintro (rfl | ⟨h1, h2⟩)
        · exact ⟨Or.inr ⟨rfl, hs⟩, B.not_answered_ctr⟩
        · exact ⟨Or.inl h1, h2⟩
      · rintro ⟨h1 | h1, h2⟩
        · exact Or.inr ⟨h1, h2⟩
        · exact Or.inl h1.1.symm
    · rw [if_neg hs, B.cSrch i]
      constructor
      · rintro ⟨h1, h2⟩; exact ⟨Or.inl h1, h2⟩
      · rintro ⟨h1 | h1, h2⟩
        · exact ⟨h1, h2⟩
        · exact absurd h1.2 hs
  sOut := B.sOut
  kinds := B.kinds
  once := B.once
  idle := by
    intro b hb' hbb m hm hlt
    rcases List.mem_append.1 hb' with hb1 | hb1
    · rcases List.mem_append.1 hm with hm1 | hm1
      · exact B.idle b hb1 hbb m hm1 hlt
      · rw [List.mem_singleton] at hm1; subst hm1
        have := (B.req b hb1).2
        simp only at hlt
        omega
    · rw [List.mem_singleton] at hb1; subst hb1
      rcases List.mem_append.1 hm with hm1 | hm1
      · have hc := hidle hbb
        have h1 : m.1 ∉ cout := by rw [hc]; simp
        by_cases ha : answered GC m.1
        · exact ha
        · exact absurd ((B.cOut m.1).2 ⟨⟨m, hm1, rfl⟩, ha⟩) h1
      · rw [List.mem_singleton] at hm1; subst hm1
        simp at hlt
  cState := by
    by_cases hbind : opIsBind op = true
    · rw [if_pos hbind]
      simp only [true_iff]
      refine ⟨(ctr, op), isLastBind_append_bind RC (ctr, op) hbind (fun m hm => (B.req m hm).2), ?_⟩
      exact B.not_bindDone_ctr
    · rw [if_neg hbind]
      have hnb : cst ≠ .binding := fun h => hbind (hb h)
      have hx : opIsBind (ctr, op).2 = false := by simpa using hbind
      have hl : (if cst = .beforeOpen then SState.opened else cst) = .binding ↔ cst = .binding := by
        split <;> simp_all
      rw [hl, B.cState]
      constructor
      · rintro ⟨b, h1, h2⟩; exact ⟨b, (isLastBind_append_nonbind RC _ b hx).2 h1, h2⟩
      · rintro ⟨b, h1, h2⟩; exact ⟨b, (isLastBind_append_nonbind RC _ b hx).1 h1, h2⟩
  sState := B.sState

/-! ### micro-step 2: the server processes the next request in line -/

theorem Book.next_req (B : Book cst cout csr ctr sst sout RC GS RS GC) {x : Sig} {rest : List Sig}
    (hsplit : RC = GS ++ x :: rest) :
    x ∈ RC ∧ (∀ m ∈ GS, m.1 < x.1) ∧ (∀ r ∈ RS, r.1 ≠ x.1) := by
  have hs := B.sorted
  rw [hsplit, List.pairwise_append] at hs
  have hlt : ∀ m ∈ GS, m.1 < x.1 := fun m hm => hs.2.2 m hm x (List.mem_cons_self ..)
  refine ⟨by rw [hsplit]; simp, hlt, ?_⟩
  intro r hr he
  obtain ⟨m, hm, h, _⟩ := B.kinds r hr
  have := hlt m hm
  omega

/-- a bind request reaches a server that has nothing in progress -/
theorem Book.sRecv_idle (B : Book cst cout csr ctr sst sout RC GS RS GC) {x : Sig} {rest : List Sig}
    (hsplit : RC = GS ++ x :: rest) (hbind : opIsBind x.2 = true) : sout = [] := by
  obtain ⟨hx, hlt, _⟩ := B.next_req hsplit
  rw [List.eq_nil_iff_forall_not_mem]
  intro j hj
  obtain ⟨⟨m, hm, rfl⟩, hna⟩ := (B.sOut j).1 hj
  have := B.idle x hx hbind m (B.gs_sub m hm) (hlt m hm)
  exact hna (answered_mono this B.gc_sub)

theorem Book.sRecv (B : Book cst cout csr ctr sst sout RC GS RS GC) {x : Sig} {rest : List Sig}
    (hsplit : RC = GS ++ x :: rest) :
    Book cst cout csr ctr (srvState sst x.2) (setInsert x.1 sout) RC (GS ++ [x]) RS GC := by
  obtain ⟨hx, hlt, hne⟩ := B.next_req hsplit
  have hna : ¬answered RS x.1 := by
    rintro ⟨r, hr, h, _⟩; exact hne r hr h
  have hnb : ¬bindDone RS x.1 := by
    rintro ⟨r, hr, h, _⟩; exact hne r hr h
  exact {
    cOpen := B.cOpen
    sOpen := srvState_ne_closed B.sOpen
    preS := ⟨rest, by rw [hsplit, List.append_assoc]; rfl⟩
    preC := B.preC
    req := B.req
    sorted := B.sorted
    cOut := B.cOut
    cSrch := B.cSrch
    sOut := by
      intro i
      rw [mem_setInsert, hasId_append, B.sOut i]
      constructor
      · rintro (rfl | ⟨h1, h2⟩)
        · exact ⟨Or.inr rfl, hna⟩
        · exact ⟨Or.inl h1, h2⟩
      · rintro ⟨h1 | h1, h2⟩
        · exact Or.inr ⟨h1, h2⟩
        · exact Or.inl h1.symm
    kinds := by
      intro r hr
      obtain ⟨m, hm, h⟩ := B.kinds r hr
      exact ⟨m, List.mem_append_left _ hm, h⟩
    once := B.once
    idle := B.idle
    cState := B.cState
    sState := by
      by_cases hbind : opIsBind x.2 = true
      · rw [srvState_bind hbind]
        simp only [true_iff]
        exact ⟨x, isLastBind_append_bind GS x hbind hlt, hnb⟩
      · have hx' : opIsBind x.2 = false := by simpa using hbind
        rw [srvState_nonbind hx']
        have hl : (if sst = .beforeOpen then SState.opened else sst) = .binding ↔ sst = .binding := by
          split <;> simp_all
        rw [hl, B.sState]
        constructor
        · rintro ⟨b, h1, h2⟩; exact ⟨b, (isLastBind_append_nonbind GS _ b hx').2 h1, h2⟩
        · rintro ⟨b, h1, h2⟩; exact ⟨b, (isLastBind_append_nonbind GS _ b hx').1 h1, h2⟩ }

/-! ### micro-step 3: the server sends a response to an open request of the matching kind -/

theorem Book.sSend (B : Book cst cout csr ctr sst sout RC GS RS GC) (i : Int) (op : Op) (m : Sig)
    (hm : m ∈ GS) (hmi : m.1 = i) (hopen : ¬answered RS i) (hk : kindOK m.2 op = true)
    (sst' : SState)
    (hst : sst' = if isBindDoneOp op = true then .opened else (if sst = .beforeOpen then .opened else sst)) :
    Book cst cout csr ctr sst' (if isFinalOp op = true then setErase i sout else sout)
      RC GS (RS ++ [(i, op)]) GC where
  cOpen := B.cOpen
  sOpen := by
    have := B.sOpen
    rw [hst]
    split
    · simp
    · split <;> simp_all
  preS := B.preS
  preC := by
    obtain ⟨p, hp⟩ := B.preC
    exact ⟨p ++ [(i, op)], by rw [hp, List.append_assoc]⟩
  req := B.req
  sorted := B.sorted
  cOut := B.cOut
  cSrch := B.cSrch
  sOut := by
    intro j
    rw [answered_append]
    by_cases hf : isFinalOp op = true
    · rw [if_pos hf, mem_setErase, B.sOut j]
      constructor
      · rintro ⟨⟨h1, h2⟩, h3⟩
        refine ⟨h1, ?_⟩
        rintro (h | ⟨h, _⟩)
        · exact h2 h
        · exact h3 h.symm
      · rintro ⟨h1, h2⟩
        refine ⟨⟨h1, fun h => h2 (Or.inl h)⟩, ?_⟩
        intro h; exact h2 (Or.inr ⟨h.symm, hf⟩)
    · rw [if_neg hf, B.sOut j]
      constructor
      · rintro ⟨h1, h2⟩
        refine ⟨h1, ?_⟩
        rintro (h | ⟨_, h⟩)
        · exact h2 h
        · exact hf h
      · rintro ⟨h1, h2⟩; exact ⟨h1, fun h => h2 (Or.inl h)⟩
  kinds := by
    intro r hr
    rcases List.mem_append.1 hr with h | h
    · exact B.kinds r h
    · rw [List.mem_singleton] at h; subst h
      exact ⟨m, hm, hmi, hk⟩
  once := by
    rw [List.pairwise_append]
    refine ⟨B.once, List.pairwise_singleton _ _, ?_⟩
    intro a ha b hb
    rw [List.mem_singleton] at hb; subst hb
    rintro ⟨h1, h2⟩
    exact hopen ⟨a, ha, h1, h2⟩
  idle := B.idle
  cState := B.cState
  sState := by
    by_cases hd : isBindDoneOp op = true
    · rw [hst, if_pos hd]
      simp only [reduceCtorEq, false_iff, not_exists, not_and, Classical.not_not]
      intro b hb
      rw [bindDone_append]
      have hmb : opIsBind m.2 = true := kindOK_bindDone hk hd
      have hle := hb.2.2 m hm hmb
      by_cases he : m.1 = b.1
      · exact Or.inr ⟨by simp only; omega, hd⟩
      · exfalso
        have := B.idle b (B.gs_sub b hb.1) hb.2.1 m (B.gs_sub m hm) (by omega)
        exact hopen (hmi ▸ answered_mono this B.gc_sub)
    · rw [hst, if_neg hd]
      have hl : (if sst = .beforeOpen then SState.opened else sst) = .binding ↔ sst = .binding := by
        split <;> simp_all
      rw [hl, B.sState]
      constructor
      · rintro ⟨b, h1, h2⟩
        refine ⟨b, h1, ?_⟩
        rw [bindDone_append]
        rintro (h | ⟨_, h⟩)
        · exact h2 h
        · exact hd h
      · rintro ⟨b, h1, h2⟩
        exact ⟨b, h1, fun h => h2 ((bindDone_append ..).2 (Or.inl h))⟩

/-! ### micro-step 4: the client processes the next response in line -/

theorem Book.next_resp (B : Book cst cout csr ctr sst sout RC GS RS GC) {x : Sig} {rest : List Sig}
    (hsplit : RS = GC ++ x :: rest) :
    x ∈ RS ∧ ¬answered GC x.1 ∧ ∃ m ∈ RC, m.1 = x.1 ∧ kindOK m.2 x.2 = true ∧
      (x.1 ∈ csr ↔ opIsSearch m.2 = true) ∧ x.1 ∈ cout := by
  have hx : x ∈ RS := by rw [hsplit]; simp
  have ho := B.once
  rw [hsplit, List.pairwise_append] at ho
  have hna : ¬answered GC x.1 := by
    rintro ⟨r, hr, h1, h2⟩
    exact ho.2.2 r hr x (List.mem_cons_self ..) ⟨h1, h2⟩
  obtain ⟨m, hm, hmi, hk⟩ := B.resp_req hx
  refine ⟨hx, hna, m, hm, hmi, hk, ?_, (B.cOut x.1).2 ⟨⟨m, hm, hmi⟩, hna⟩⟩
  rw [B.cSrch x.1]
  constructor
  · rintro ⟨⟨m', hm', h1, h2⟩, _⟩
    have := B.uniq m' hm' m hm (by omega)
    rw [← this]; exact h2
  · intro hs; exact ⟨⟨m, hm, hmi, hs⟩, hna⟩

theorem Book.cRecv (B : Book cst cout csr ctr sst sout RC GS RS GC) {x : Sig} {rest : List Sig}
    (hsplit : RS = GC ++ x :: rest) :
    Book (cliState cst x.2)
      (if (x.1 ∈ csr ∧ opIsDone x.2 = false) ∨ x.1 ∉ cout then cout else setErase x.1 cout)
      (if x.1 ∈ csr ∧ opIsDone x.2 = true then setErase x.1 csr else csr)
      ctr sst sout RC GS RS (GC ++ [x]) := by
  obtain ⟨hx, hna, m, hm, hmi, hk, hsr, hco⟩ := B.next_resp hsplit
  have hfin := kindOK_final hk
  have hmono : ∀ j, answered GC j → answered (GC ++ [x]) j := fun j h => (answered_append ..).2 (Or.inl h)
  exact {
    cOpen := cliState_ne_closed B.cOpen
    sOpen := B.sOpen
    preS := B.preS
    preC := ⟨rest, by rw [hsplit, List.append_assoc]; rfl⟩
    req := B.req
    sorted := B.sorted
    cOut := by
      intro j
      rw [answered_append]
      by_cases hs : opIsSearch m.2 = true
      · rw [if_pos hs] at hfin
        by_cases hd : opIsDone x.2 = true
        · have hc : ¬((x.1 ∈ csr ∧ opIsDone x.2 = false) ∨ x.1 ∉ cout) := by simp [hd, hco]
          rw [if_neg hc, mem_setErase, B.cOut j]
          constructor
          · rintro ⟨⟨h1, h2⟩, h3⟩
            exact ⟨h1, fun h => h.elim h2 (fun h' => h3 h'.1.symm)⟩
          · rintro ⟨h1, h2⟩
            exact ⟨⟨h1, fun h => h2 (Or.inl h)⟩, fun h => h2 (Or.inr ⟨h.symm, by rw [hfin, hd]⟩)⟩
        · have hd' : opIsDone x.2 = false := by simpa using hd
          have hc : (x.1 ∈ csr ∧ opIsDone x.2 = false) ∨ x.1 ∉ cout := Or.inl ⟨hsr.2 hs, hd'⟩
          rw [if_pos hc, B.cOut j]
          constructor
          · rintro ⟨h1, h2⟩
            exact ⟨h1, fun h => h.elim h2 (fun h' => by rw [hfin, hd'] at h'; cases h'.2)⟩
          · rintro ⟨h1, h2⟩; exact ⟨h1, fun h => h2 (Or.inl h)⟩
      · rw [if_neg hs] at hfin
        have hc : ¬((x.1 ∈ csr ∧ opIsDone x.2 = false) ∨ x.1 ∉ cout) := by
          have : x.1 ∉ csr := fun h => hs (hsr.1 h)
          simp [this, hco]
        rw [if_neg hc, mem_setErase, B.cOut j]
        constructor
        · rintro ⟨⟨h1, h2⟩, h3⟩
          exact ⟨h1, fun h => h.elim h2 (fun h' => h3 h'.1.symm)⟩
        · rintro ⟨h1, h2⟩
          exact ⟨⟨h1, fun h => h2 (Or.inl h)⟩, fun h => h2 (Or.inr ⟨h.symm, hfin⟩)⟩
    cSrch := by
      intro j
      rw [answered_append]
      by_cases hc : x.1 ∈ csr ∧ opIsDone x.2 = true
      · have hs := hsr.1 hc.1
        rw [if_pos hs] at hfin
        rw [if_pos hc, mem_setErase, B.cSrch j]
        constructor
        · rintro ⟨⟨h1, h2⟩, h3⟩
          exact ⟨h1, fun h => h.elim h2 (fun h' => h3 h'.1.symm)⟩
        · rintro ⟨h1, h2⟩
          exact ⟨⟨h1, fun h => h2 (Or.inl h)⟩, fun h => h2 (Or.inr ⟨h.symm, by rw [hfin, hc.2]⟩)⟩
      · rw [if_neg hc, B.cSrch j]
        constructor
        · rintro ⟨h1, h2⟩
          refine ⟨h1, fun h => h.elim h2 ?_⟩
          rintro ⟨h3, h4⟩
          subst h3
          have hin : x.1 ∈ csr := (B.cSrch x.1).2 ⟨h1, h2⟩
          have hs := hsr.1 hin
          rw [if_pos hs] at hfin
          exact hc ⟨hin, by rw [← hfin]; exact h4⟩
        · rintro ⟨h1, h2⟩; exact ⟨h1, fun h => h2 (Or.inl h)⟩
    sOut := B.sOut
    kinds := B.kinds
    once := B.once
    idle := fun b hb hbb m' hm' hlt => hmono _ (B.idle b hb hbb m' hm' hlt)
    cState := by
      by_cases hd : isBindDoneOp x.2 = true
      · rw [cliState_done hd]
        simp only [reduceCtorEq, false_iff, not_exists, not_and, Classical.not_not]
        intro b hb
        rw [bindDone_append]
        have hmb : opIsBind m.2 = true := kindOK_bindDone hk hd
        have hle := hb.2.2 m hm hmb
        by_cases he : m.1 = b.1
        · exact Or.inr ⟨by omega, hd⟩
        · exfalso
          have := B.idle b hb.1 hb.2.1 m hm (by omega)
          exact hna (hmi ▸ this)
      · have hd' : isBindDoneOp x.2 = false := by simpa using hd
        rw [cliState_not_done hd', B.cState]
        constructor
        · rintro ⟨b, h1, h2⟩
          refine ⟨b, h1, ?_⟩
          rw [bindDone_append]
          rintro (h | ⟨_, h⟩)
          · exact h2 h
          · exact hd h
        · rintro ⟨b, h1, h2⟩
          exact ⟨b, h1, fun h => h2 ((bindDone_append ..).2 (Or.inl h))⟩
    sState := B.sState }

end

end Verif.Proofs.JointP
