/-
Scanner and post-processing lemmas for the parts shared by the three RFC 4512 description
grammars: optional keyword groups, qdescrs (NAME), qdstring (DESC), oids.
-/
import Verif.Proofs.SchemaBase

namespace Verif.Proofs.SchemaG
open Verif Verif.Schema Verif.Rfc4512 Verif.Rfc4515

/-! ### optional groups -/

theorem ofString_length (s : String) : (ofString s).length = s.length := by
  simp only [ofString, List.length_map]; rfl

theorem optKw_absent (kw : String) (body : Str → Option Str) {W : List Str} {s : Str}
    (h : Follow W s) (hW : okW (ofString kw) W = true) : optKw kw body s = (none, s) := by
  unfold optKw
  rw [sp1_lit_follow h hW]
  rfl

theorem optKw_present (kw : String) (body : Str → Option Str) (a b : Nat) {t rest : Str}
    (hk : hdNSp (ofString kw) = true) (ht : NSp t) (hb : body (t ++ rest) = some rest) :
    optKw kw body ((spT a ++ ofString kw ++ spT b ++ t) ++ rest) = (some t, rest) := by
  unfold optKw
  rw [show (spT a ++ ofString kw ++ spT b ++ t) ++ rest = spT a ++ (ofString kw ++ (spT b ++ (t ++ rest))) by simp,
    sp1_spT a (nsp_append (nsp_of_hdNSp hk))]
  simp only [Option.bind_some]
  rw [lit_self]
  simp only [Option.bind_some]
  rw [sp1_spT b (nsp_append ht)]
  simp only [hb, consumed_append]

theorem optFlag_absent (kw : String) {W : List Str} {s : Str}
    (h : Follow W s) (hW : okW (ofString kw) W = true) : optFlag kw s = (false, s) := by
  unfold optFlag
  rw [sp1_lit_follow h hW]

theorem optFlag_present (kw : String) (a : Nat) (rest : Str) (hk : hdNSp (ofString kw) = true) :
    optFlag kw ((spT a ++ ofString kw) ++ rest) = (true, rest) := by
  unfold optFlag
  rw [List.append_assoc, sp1_spT a (nsp_append (nsp_of_hdNSp hk))]
  simp only [Option.bind_some]
  rw [lit_self]

theorem optWord_absent (alts : List String) {W : List Str} {s : Str}
    (h : Follow W s) (hN : W.all hdNSp = true)
    (hW : (alts.all fun a => okW (ofString a) W) = true) : optWord alts s = (none, s) := by
  obtain ⟨a, w, t, hw, rfl, ha⟩ := h
  unfold optWord
  cases a with
  | zero => rw [ha rfl]; rfl
  | succ n =>
    have hn : hdNSp w = true := (List.all_eq_true.1 hN) w hw
    rw [List.append_assoc, show wspT (n + 1) = spT n from rfl, sp1_spT n (nsp_append (nsp_of_hdNSp hn))]
    have : List.find? (fun a => (ofString a).isPrefixOf (w ++ t)) alts = none := by
      rw [List.find?_eq_none]
      intro x hx
      have := (okW_mem ((List.all_eq_true.1 hW) x hx) hw).1
      simp [clash_isPrefixOf this t]
    simp only [this]

theorem optWord_present (pre : List String) (kw : String) (post : List String) (a : Nat) (rest : Str)
    (hk : hdNSp (ofString kw) = true)
    (hpre : (pre.all fun p => clash (ofString p) (ofString kw)) = true) :
    optWord (pre ++ kw :: post) ((spT a ++ ofString kw) ++ rest) = (some (ofString kw), rest) := by
  unfold optWord
  rw [List.append_assoc, sp1_spT a (nsp_append (nsp_of_hdNSp hk))]
  have : List.find? (fun a => (ofString a).isPrefixOf (ofString kw ++ rest)) (pre ++ kw :: post) = some kw := by
    rw [List.find?_append, List.find?_eq_none.2, Option.none_or, List.find?_cons_of_pos]
    · exact isPrefixOf_append_self _ _
    · intro x hx
      have := (List.all_eq_true.1 hpre) x hx
      simp [clash_isPrefixOf this rest]
  simp only [this, ← ofString_length, List.drop_left]

/-! ### qdescr, and the generic `item | ( item SP item … )` -/

theorem qdescr_scan {n t : Str} (h : QDescr n t) (rest : Str) : qdescr (t ++ rest) = some rest := by
  obtain ⟨hd, rfl⟩ := h
  have h1 : descr (n ++ (39 :: rest)) = some (39 :: rest) := descr_scan hd (stop_cons (by decide))
  rw [show [39] ++ n ++ [39] ++ rest = 39 :: (n ++ 39 :: rest) by simp, qdescr, if_pos (show (39 : Nat) = QUOTE from rfl), h1]
  simp [QUOTE]

/-- what the generic list lemmas need from an item scanner -/
structure ItemSpec {α : Type} (enc : α → Str → Prop) (item : Str → Option Str) : Prop where
  scan : ∀ x t rest, enc x t → item (t ++ rest) = some rest
  quote : ∀ x t, enc x t → ∃ r, t = 39 :: r
  fail : ∀ r, item (41 :: r) = none

theorem qdescr_spec : ItemSpec QDescr qdescr where
  scan := fun _ _ rest h => qdescr_scan h rest
  quote := fun x t h => ⟨x ++ [39], by rw [h.2]; simp⟩
  fail := fun r => by rw [qdescr, if_neg (by decide)]

section items
variable {α : Type} {enc : α → Str → Prop} {item : Str → Option Str} (S : ItemSpec enc item)
include S

theorem item_nsp {x : α} {t : Str} (h : enc x t) : NSp t := by
  obtain ⟨r, rfl⟩ := S.quote x t h
  exact nsp_cons (by decide)

theorem spSep_head {xs : List α} {body : Str} (h : SpSep enc xs body) : ∃ r, body = 39 :: r := by
  cases h with
  | one x t h => exact S.quote _ _ h
  | cons x t k xs ts h _ =>
    obtain ⟨r, rfl⟩ := S.quote x t h
    exact ⟨r ++ spT k ++ ts, by simp⟩

theorem spSep_nsp {xs : List α} {body : Str} (h : SpSep enc xs body) : NSp body := by
  obtain ⟨r, rfl⟩ := spSep_head S h
  exact nsp_cons (by decide)

theorem spSep_length {xs : List α} {body : Str} (h : SpSep enc xs body) : xs.length ≤ body.length := by
  induction h with
  | one x t h => obtain ⟨r, rfl⟩ := S.quote x t h; simp
  | cons x t k xs ts h _ ih => obtain ⟨r, rfl⟩ := S.quote x t h; simp; omega

theorem spItems_stop (fuel b : Nat) (rest : Str) :
    spItems item fuel (wspT b ++ 41 :: rest) = wspT b ++ 41 :: rest := by
  cases fuel with
  | zero => rfl
  | succ f =>
    rw [spItems]
    cases b with
    | zero => rw [wspT_zero, List.nil_append, sp1_nsp (nsp_cons (by decide))]
    | succ n =>
      rw [show wspT (n + 1) = spT n from rfl, sp1_spT n (nsp_cons (by decide))]
      simp only [S.fail]

theorem spSep_scan {xs : List α} {body : Str} (h : SpSep enc xs body) (b : Nat) (rest : Str) :
    ∀ fuel, xs.length ≤ fuel →
      ∃ r', item (body ++ (wspT b ++ 41 :: rest)) = some r' ∧ spItems item fuel r' = wspT b ++ 41 :: rest := by
  induction h with
  | one x t h => exact fun fuel _ => ⟨_, S.scan x t _ h, spItems_stop S fuel b rest⟩
  | cons x t k xs ts h hs ih =>
    intro fuel hf
    obtain ⟨f, rfl⟩ : ∃ f, fuel = f + 1 := ⟨fuel - 1, by simp at hf; omega⟩
    obtain ⟨r'', h1, h2⟩ := ih f (by simp at hf; omega)
    refine ⟨spT k ++ (ts ++ (wspT b ++ 41 :: rest)), ?_, ?_⟩
    · rw [show t ++ spT k ++ ts ++ (wspT b ++ 41 :: rest) = t ++ (spT k ++ (ts ++ (wspT b ++ 41 :: rest))) by simp]
      exact S.scan x t _ h
    · rw [spItems, sp1_spT k (nsp_append (spSep_nsp S hs))]
      simp only [h1, h2]

theorem itemOrList_scan {xs : List α} {t : Str} (h : ItemOrList enc xs t) (rest : Str) :
    itemOrList item (t ++ rest) = some rest := by
  cases h with
  | bare x t h =>
    obtain ⟨r, rfl⟩ := S.quote x t h
    have := S.scan x _ rest h
    rw [List.cons_append] at this ⊢
    rw [itemOrList, if_neg (by decide), this]
  | empty a =>
    rw [show [40] ++ wspT a ++ [41] ++ rest = 40 :: (wspT a ++ 41 :: rest) by simp, itemOrList,
      if_pos (show (40 : Nat) = LP from rfl)]
    simp only [wsp_wspT_nsp a (nsp_cons (show (41 : Nat) ≠ 32 by decide)), S.fail]
    rw [if_pos (show (41 : Nat) = RP from rfl)]
  | list xs body a b hs =>
    rw [show [40] ++ wspT a ++ body ++ wspT b ++ [41] ++ rest = 40 :: (wspT a ++ (body ++ (wspT b ++ 41 :: rest))) by simp,
      itemOrList, if_pos (show (40 : Nat) = LP from rfl)]
    obtain ⟨r', h1, h2⟩ := spSep_scan S hs b rest (40 :: (wspT a ++ (body ++ (wspT b ++ 41 :: rest)))).length
      (by have := spSep_length S hs; simp; omega)
    simp only [wsp_wspT_nsp a (nsp_append (spSep_nsp S hs)), h1, h2,
      wsp_wspT_nsp b (nsp_cons (show (41 : Nat) ≠ 32 by decide))]
    rw [if_pos (show (41 : Nat) = RP from rfl)]

theorem itemOrList_nsp {xs : List α} {t : Str} (h : ItemOrList enc xs t) : NSp t := by
  cases h with
  | bare x t h => exact item_nsp S h
  | empty a => exact nsp_cons (by decide)
  | list xs body a b hs => exact nsp_cons (by decide)

end items

/-! ### tokens: `split(" ")` keeping the non-empty pieces -/

def tokens (s : Str) : List Str := (Schema.splitOn 32 s).filter (fun n => !n.isEmpty)

theorem tokens_nil : tokens [] = [] := rfl

theorem tokens_sp (s : Str) : tokens (32 :: s) = tokens s := by
  simp [tokens, splitOn_cons_sep]

theorem tokens_wspT (a : Nat) (s : Str) : tokens (wspT a ++ s) = tokens s := by
  induction a with
  | zero => rfl
  | succ n ih => rw [wspT_succ, List.cons_append, tokens_sp, ih]

theorem tokens_word {t : Str} (hne : t ≠ []) (ht : 32 ∉ t) (s : Str) : tokens (t ++ 32 :: s) = t :: tokens s := by
  cases t with
  | nil => exact (hne rfl).elim
  | cons c r => rw [tokens, splitOn_piece 32 _ s ht, List.filter_cons_of_pos (by simp)]; rfl

theorem tokens_last {t : Str} (hne : t ≠ []) (ht : 32 ∉ t) : tokens t = [t] := by
  cases t with
  | nil => exact (hne rfl).elim
  | cons c r => rw [tokens, splitOn_last 32 _ ht, List.filter_cons_of_pos (by simp)]; rfl

theorem tokens_word_wspT {t : Str} (hne : t ≠ []) (ht : 32 ∉ t) (b : Nat) : tokens (t ++ wspT b) = [t] := by
  cases b with
  | zero => rw [wspT_zero, List.append_nil, tokens_last hne ht]
  | succ n =>
    rw [wspT_succ, tokens_word hne ht]
    have := tokens_wspT n []
    rw [List.append_nil] at this
    rw [this, tokens_nil]

/-! ### names -/

theorem keyChar_facts {c : Nat} (h : Schema.isKeyChar c = true) : c ≠ 32 ∧ c ≠ 39 ∧ c ≠ 40 ∧ c ≠ 41 ∧ c ≠ 36 := by
  simp only [Schema.isKeyChar, Schema.isAlpha, Schema.isDigit, HYPHEN, Bool.or_eq_true, Bool.and_eq_true,
    decide_eq_true_eq, beq_iff_eq] at h
  omega

theorem qdescr_text {n t : Str} (h : QDescr n t) :
    t ≠ [] ∧ 32 ∉ t ∧ (∀ c ∈ t, c ≠ 40 ∧ c ≠ 41) ∧ stripChars [39] t = n := by
  obtain ⟨hd, rfl⟩ := h
  have hk := descr_chars hd
  refine ⟨by simp, ?_, ?_, ?_⟩
  · intro hm
    simp only [List.mem_append, List.mem_singleton] at hm
    rcases hm with (hm | hm) | hm
    · omega
    · exact (keyChar_facts (hk _ hm)).1 rfl
    · omega
  · intro c hm
    simp only [List.mem_append, List.mem_singleton] at hm
    rcases hm with (hm | hm) | hm
    · omega
    · have := keyChar_facts (hk _ hm); omega
    · omega
  · apply stripChars_mid [39] [39] n [39] (by simp) (by simp)
    · intro c hc
      have := keyChar_facts (hk c (List.mem_of_mem_head? hc))
      simp; omega
    · intro c hc
      have := keyChar_facts (hk c (List.mem_of_mem_getLast? hc))
      simp; omega

theorem spSep_names {xs : List Str} {body : Str} (h : SpSep QDescr xs body) (b : Nat) :
    (∀ c ∈ body, c ≠ 40 ∧ c ≠ 41) ∧ (tokens (body ++ wspT b)).map (stripChars [39]) = xs := by
  induction h with
  | one x t h =>
    obtain ⟨h1, h2, h3, h4⟩ := qdescr_text h
    exact ⟨h3, by rw [tokens_word_wspT h1 h2, List.map_singleton, h4]⟩
  | cons x t k xs ts h hs ih =>
    obtain ⟨h1, h2, h3, h4⟩ := qdescr_text h
    refine ⟨?_, ?_⟩
    · intro c hc
      simp only [List.mem_append] at hc
      rcases hc with (hc | hc) | hc
      · exact h3 c hc
      · rw [mem_wspT hc]; omega
      · exact ih.1 c hc
    · rw [show t ++ spT k ++ ts ++ wspT b = t ++ 32 :: (wspT k ++ (ts ++ wspT b)) by simp [spT_eq],
        tokens_word h1 h2, tokens_wspT, List.map_cons, h4, ih.2]

theorem parseNames_items {l : List Str} {t : Str} (h : ItemOrList QDescr l t) : parseNames (some t) = l := by
  have hne : t.isEmpty = false := by
    have := itemOrList_nsp qdescr_spec h
    cases t with
    | nil => exact this.elim
    | cons c r => rfl
  unfold parseNames
  simp only [hne]
  change (tokens (stripChars [LP, RP] t)).map (stripChars [QUOTE]) = l
  cases h with
  | bare x t h =>
    obtain ⟨h1, h2, h3, h4⟩ := qdescr_text h
    rw [stripChars_none _ _ (fun c hc => by have := h3 c hc; simp [LP, RP]; omega), tokens_last h1 h2]
    simpa [QUOTE] using h4
  | empty a =>
    have := stripChars_mid [LP, RP] [40] (wspT a) [41] (by simp [LP]) (by simp [RP])
      (fun c hc => by rw [mem_wspT (List.mem_of_mem_head? hc)]; decide)
      (fun c hc => by rw [mem_wspT (List.mem_of_mem_getLast? hc)]; decide)
    rw [this]
    have h2 := tokens_wspT a []
    rw [List.append_nil] at h2
    rw [h2]; rfl
  | list xs body a b hs =>
    obtain ⟨h3, h4⟩ := spSep_names hs b
    have hmid : ∀ c ∈ wspT a ++ body ++ wspT b, [LP, RP].contains c = false := by
      intro c hc
      simp only [List.mem_append] at hc
      rcases hc with (hc | hc) | hc
      · rw [mem_wspT hc]; decide
      · have := h3 c hc; simp [LP, RP]; omega
      · rw [mem_wspT hc]; decide
    have := stripChars_mid [LP, RP] [40] (wspT a ++ body ++ wspT b) [41] (by simp [LP]) (by simp [RP])
      (fun c hc => hmid c (List.mem_of_mem_head? hc)) (fun c hc => hmid c (List.mem_of_mem_getLast? hc))
    rw [show [40] ++ wspT a ++ body ++ wspT b ++ [41] = [40] ++ (wspT a ++ body ++ wspT b) ++ [41] by simp, this,
      List.append_assoc, tokens_wspT]
    exact h4

/-! ### qdstring -/

theorem qdEnc_no_quote {v t : Str} (h : QdEnc v t) : ∀ c ∈ t, c ≠ 39 := by
  induction h with
  | nil => simp
  | raw c v t h1 h2 _ ih =>
    intro x hx
    rcases List.mem_cons.1 hx with rfl | hx
    · exact h1
    · exact ih x hx
  | quote v t _ ih =>
    intro x hx
    simp only [List.mem_cons] at hx
    rcases hx with rfl | rfl | rfl | hx
    · decide
    · decide
    · decide
    · exact ih x hx
  | bslash b v t hb _ ih =>
    intro x hx
    simp only [List.mem_cons] at hx
    rcases hx with rfl | rfl | rfl | hx
    · decide
    · decide
    · omega
    · exact ih x hx

theorem qdEnc_ne_nil {v t : Str} (h : QdEnc v t) (hv : v ≠ []) : t ≠ [] := by
  cases h <;> simp_all

theorem dstringItems_scan {v t : Str} (h : QdEnc v t) (rest : Str) :
    ∀ fuel, t.length ≤ fuel → dstringItems fuel (t ++ 39 :: rest) = 39 :: rest := by
  induction h with
  | nil =>
    intro fuel _
    cases fuel with
    | zero => rfl
    | succ f => simp [dstringItems, QUOTE]
  | raw c v t h1 h2 _ ih =>
    intro fuel hf
    obtain ⟨f, rfl⟩ : ∃ f, fuel = f + 1 := ⟨fuel - 1, by simp at hf; omega⟩
    simpa [dstringItems, QUOTE, BSLASH, h1, h2] using ih f (by simp at hf; omega)
  | quote v t _ ih =>
    intro fuel hf
    obtain ⟨f, rfl⟩ : ∃ f, fuel = f + 1 := ⟨fuel - 1, by simp at hf; omega⟩
    simpa [dstringItems, QUOTE, BSLASH] using ih f (by simp at hf; omega)
  | bslash b v t hb _ ih =>
    intro fuel hf
    obtain ⟨f, rfl⟩ : ∃ f, fuel = f + 1 := ⟨fuel - 1, by simp at hf; omega⟩
    simpa [dstringItems, QUOTE, BSLASH, hb] using ih f (by simp at hf; omega)

theorem unescapeQd_enc {v t : Str} (h : QdEnc v t) : ∀ fuel, t.length ≤ fuel → unescapeQd fuel t = v := by
  induction h with
  | nil => intro fuel _; cases fuel <;> rfl
  | raw c v t h1 h2 _ ih =>
    intro fuel hf
    obtain ⟨f, rfl⟩ : ∃ f, fuel = f + 1 := ⟨fuel - 1, by simp at hf; omega⟩
    simpa [unescapeQd, BSLASH, h2] using ih f (by simp at hf; omega)
  | quote v t _ ih =>
    intro fuel hf
    obtain ⟨f, rfl⟩ : ∃ f, fuel = f + 1 := ⟨fuel - 1, by simp at hf; omega⟩
    simpa [unescapeQd, BSLASH, hexDigitVal, Schema.isDigit] using ih f (by simp at hf; omega)
  | bslash b v t hb _ ih =>
    intro fuel hf
    obtain ⟨f, rfl⟩ : ∃ f, fuel = f + 1 := ⟨fuel - 1, by simp at hf; omega⟩
    have h92 : hexDigitVal 53 * 16 + hexDigitVal b = 92 := by rcases hb with rfl | rfl <;> rfl
    simpa [unescapeQd, BSLASH, hb, h92] using ih f (by simp at hf; omega)

theorem parseQd_body {v t : Str} (h : QdEnc v t) : parseQd t = v := by
  unfold parseQd
  simp only
  rw [stripChars_none [QUOTE] t (fun c hc => by simpa [QUOTE] using qdEnc_no_quote h c hc)]
  exact unescapeQd_enc h _ (Nat.le_refl _)

theorem parseQd_quoted {v t : Str} (h : QdEnc v t) : parseQd ([39] ++ t ++ [39]) = v := by
  unfold parseQd
  simp only
  have hq : ∀ c ∈ t, [QUOTE].contains c = false := fun c hc => by simpa [QUOTE] using qdEnc_no_quote h c hc
  rw [stripChars_mid [QUOTE] [39] t [39] (by simp [QUOTE]) (by simp [QUOTE])
    (fun c hc => hq c (List.mem_of_mem_head? hc)) (fun c hc => hq c (List.mem_of_mem_getLast? hc))]
  exact unescapeQd_enc h _ (Nat.le_refl _)

theorem parseQd_qdString {v t : Str} (h : QdString v t) : parseQd t = v := by
  obtain ⟨_, body, hb, rfl⟩ := h
  exact parseQd_quoted hb

theorem qdstring_scan {v t : Str} (h : QdString v t) (rest : Str) : qdstring (t ++ rest) = some rest := by
  obtain ⟨hv, body, hb, rfl⟩ := h
  have hne := qdEnc_ne_nil hb hv
  rw [show [39] ++ body ++ [39] ++ rest = 39 :: (body ++ 39 :: rest) by simp, qdstring,
    if_pos (show (39 : Nat) = QUOTE from rfl)]
  have hd := dstringItems_scan hb rest (body ++ 39 :: rest).length (by simp)
  simp only [hd]
  rw [if_pos (by
    cases body with
    | nil => exact (hne rfl).elim
    | cons c r => simp; omega)]
  simp [QUOTE]

theorem qdstring_spec : ItemSpec QdString qdstring where
  scan := fun _ _ rest h => qdstring_scan h rest
  quote := fun x t h => by obtain ⟨_, body, _, rfl⟩ := h; exact ⟨body ++ [39], by simp⟩
  fail := fun r => by rw [qdstring, if_neg (by decide)]

theorem qdString_nsp {v t : Str} (h : QdString v t) : NSp t := item_nsp qdstring_spec h

/-! ### oids -/

theorem delim_stop_oid {s : Str} (h : Delim s) : Stop isOidCh s := delim_stop h (by decide) (by decide)

theorem dollarSep_head {xs : List Str} {body : Str} (h : DollarSep xs body) :
    ∃ c r, body = c :: r ∧ isOidCh c = true := by
  cases h with
  | one x h => exact oid_head h
  | cons x a b xs ts h _ =>
    obtain ⟨c, r, rfl, hc⟩ := oid_head h
    exact ⟨c, r ++ wspT a ++ [36] ++ wspT b ++ ts, by simp, hc⟩

theorem dollarSep_nsp {xs : List Str} {body : Str} (h : DollarSep xs body) : NSp body := by
  obtain ⟨c, r, rfl, hc⟩ := dollarSep_head h
  intro h32; subst h32; exact absurd hc (by decide)

theorem dollarSep_length {xs : List Str} {body : Str} (h : DollarSep xs body) : xs.length ≤ body.length := by
  induction h with
  | one x h => obtain ⟨c, r, rfl, _⟩ := oid_head h; simp
  | cons x a b xs ts h _ ih => obtain ⟨c, r, rfl, _⟩ := oid_head h; simp; omega

theorem dollarItems_stop (fuel b : Nat) (rest : Str) :
    dollarItems fuel (wspT b ++ 41 :: rest) = wspT b ++ 41 :: rest := by
  cases fuel with
  | zero => rfl
  | succ f =>
    rw [dollarItems]
    simp only [wsp_wspT_nsp b (nsp_cons (show (41 : Nat) ≠ 32 by decide))]
    rw [if_neg (by decide)]

theorem dollarSep_scan {xs : List Str} {body : Str} (h : DollarSep xs body) (b : Nat) (rest : Str) :
    ∀ fuel, xs.length ≤ fuel →
      ∃ r', oid (body ++ (wspT b ++ 41 :: rest)) = some r' ∧ dollarItems fuel r' = wspT b ++ 41 :: rest := by
  induction h with
  | one x h =>
    intro fuel _
    refine ⟨_, oid_scan h ?_, dollarItems_stop fuel b rest⟩
    cases b with
    | zero => exact stop_cons (by decide)
    | succ n => exact stop_cons (by decide)
  | cons x a b' xs ts h hs ih =>
    intro fuel hf
    obtain ⟨f, rfl⟩ : ∃ f, fuel = f + 1 := ⟨fuel - 1, by simp at hf; omega⟩
    obtain ⟨r'', h1, h2⟩ := ih f (by simp at hf; omega)
    refine ⟨wspT a ++ 36 :: (wspT b' ++ (ts ++ (wspT b ++ 41 :: rest))), ?_, ?_⟩
    · rw [show x ++ wspT a ++ [36] ++ wspT b' ++ ts ++ (wspT b ++ 41 :: rest)
          = x ++ (wspT a ++ 36 :: (wspT b' ++ (ts ++ (wspT b ++ 41 :: rest)))) by simp]
      apply oid_scan h
      cases a with
      | zero => exact stop_cons (by decide)
      | succ n => exact stop_cons (by decide)
    · rw [dollarItems]
      simp only [wsp_wspT_nsp a (nsp_cons (show (36 : Nat) ≠ 32 by decide))]
      rw [if_pos (show (36 : Nat) = DOLLAR from rfl)]
      simp only [wsp_wspT_nsp b' (nsp_append (dollarSep_nsp hs)), h1, h2]

theorem oids_scan {l : List Str} {t : Str} (h : Oids l t) {rest : Str} (hr : Stop isOidCh rest) :
    oids (t ++ rest) = some rest := by
  cases h with
  | bare x h =>
    obtain ⟨c, r, rfl, hc⟩ := oid_head h
    have := oid_scan h hr
    rw [List.cons_append] at this ⊢
    rw [oids, if_neg (by intro h40; subst h40; exact absurd hc (by decide)), this]
  | list xs body a b hs =>
    rw [show [40] ++ wspT a ++ body ++ wspT b ++ [41] ++ rest = 40 :: (wspT a ++ (body ++ (wspT b ++ 41 :: rest))) by simp,
      oids, if_pos (show (40 : Nat) = LP from rfl)]
    obtain ⟨r', h1, h2⟩ := dollarSep_scan hs b rest (40 :: (wspT a ++ (body ++ (wspT b ++ 41 :: rest)))).length
      (by have := dollarSep_length hs; simp; omega)
    simp only [wsp_wspT_nsp a (nsp_append (dollarSep_nsp hs)), h1, h2,
      wsp_wspT_nsp b (nsp_cons (show (41 : Nat) ≠ 32 by decide))]
    rw [if_pos (show (41 : Nat) = RP from rfl)]

theorem oids_nsp {l : List Str} {t : Str} (h : Oids l t) : NSp t := by
  cases h with
  | bare x h => exact oid_nsp h
  | list xs body a b hs => exact nsp_cons (by decide)

/-! ### `_parse_oids` -/

theorem oidCh_facts {c : Nat} (h : isOidCh c = true) : c ≠ 32 ∧ c ≠ 39 ∧ c ≠ 40 ∧ c ≠ 41 ∧ c ≠ 36 := by
  simp only [isOidCh, Bool.or_eq_true, beq_iff_eq, DOT] at h
  rcases h with h | h
  · exact keyChar_facts h
  · omega

theorem stripSp_oid {x : Str} (h : IsOidText x) (a b : Nat) : stripChars [SPC] (wspT a ++ x ++ wspT b) = x := by
  have hc := oid_chars h
  apply stripChars_mid [SPC] (wspT a) x (wspT b)
  · intro c hc; rw [mem_wspT hc]; decide
  · intro c hc; rw [mem_wspT hc]; decide
  · intro c hh
    have := oidCh_facts (hc c (List.mem_of_mem_head? hh))
    simp [SPC]; omega
  · intro c hh
    have := oidCh_facts (hc c (List.mem_of_mem_getLast? hh))
    simp [SPC]; omega

theorem not_mem_wspT_of_ne {c : Nat} (h : c ≠ 32) (n : Nat) : c ∉ wspT n := fun hm => h (mem_wspT hm)

theorem dollarSep_split {xs : List Str} {body : Str} (h : DollarSep xs body) (b : Nat) :
    (Schema.splitOn DOLLAR (wspT b ++ body)).map (stripChars [SPC]) = xs := by
  induction h generalizing b with
  | one x h =>
    have hno : DOLLAR ∉ wspT b ++ x := by
      intro hm
      rcases List.mem_append.1 hm with hm | hm
      · exact absurd (mem_wspT hm) (by decide)
      · exact (oidCh_facts (oid_chars h _ hm)).2.2.2.2 rfl
    rw [splitOn_last _ _ hno, List.map_singleton]
    have := stripSp_oid h b 0
    rw [wspT_zero, List.append_nil] at this
    rw [this]
  | cons x a b' xs ts h hs ih =>
    have hno : DOLLAR ∉ wspT b ++ x ++ wspT a := by
      intro hm
      simp only [List.mem_append] at hm
      rcases hm with (hm | hm) | hm
      · exact absurd (mem_wspT hm) (by decide)
      · exact (oidCh_facts (oid_chars h _ hm)).2.2.2.2 rfl
      · exact absurd (mem_wspT hm) (by decide)
    rw [show wspT b ++ (x ++ wspT a ++ [36] ++ wspT b' ++ ts) = (wspT b ++ x ++ wspT a) ++ DOLLAR :: (wspT b' ++ ts) by
        simp [DOLLAR],
      splitOn_piece _ _ _ hno, List.map_cons, stripSp_oid h b a, ih b']

theorem dollarSep_ends {xs : List Str} {body : Str} (h : DollarSep xs body) :
    (∀ c, body.head? = some c → isOidCh c = true) ∧ (∀ c, body.getLast? = some c → isOidCh c = true) := by
  induction h with
  | one x h =>
    exact ⟨fun c hc => oid_chars h c (List.mem_of_mem_head? hc), fun c hc => oid_chars h c (List.mem_of_mem_getLast? hc)⟩
  | cons x a b xs ts h hs ih =>
    obtain ⟨c0, r0, rfl, hc0⟩ := oid_head h
    obtain ⟨c1, r1, rfl, _⟩ := dollarSep_head hs
    refine ⟨fun c hc => ?_, fun c hc => ?_⟩
    · simp only [List.cons_append, List.head?_cons, Option.some.injEq] at hc
      subst hc; exact hc0
    · apply ih.2
      rw [List.getLast?_append] at hc
      simpa using hc

theorem parseOids_oids {l : List Str} {t : Str} (h : Oids l t) : parseOids (some t) = l := by
  have hne : t.isEmpty = false := by
    have := oids_nsp h
    cases t with
    | nil => exact this.elim
    | cons c r => rfl
  unfold parseOids
  simp only [hne]
  change (Schema.splitOn DOLLAR (stripChars [LP, RP, SPC] t)).map (stripChars [SPC]) = l
  cases h with
  | bare x h =>
    rw [stripChars_none _ _ (fun c hc => by
      have := oidCh_facts (oid_chars h c hc); simp [LP, RP, SPC]; omega)]
    exact dollarSep_split (.one _ h) 0
  | list xs body a b hs =>
    obtain ⟨h1, h2⟩ := dollarSep_ends hs
    have := stripChars_mid [LP, RP, SPC] ([40] ++ wspT a) body (wspT b ++ [41])
      (by
        intro c hc
        rcases List.mem_append.1 hc with hc | hc
        · simp at hc; subst hc; decide
        · rw [mem_wspT hc]; decide)
      (by
        intro c hc
        rcases List.mem_append.1 hc with hc | hc
        · rw [mem_wspT hc]; decide
        · simp at hc; subst hc; decide)
      (fun c hc => by have := oidCh_facts (h1 c hc); simp [LP, RP, SPC]; omega)
      (fun c hc => by have := oidCh_facts (h2 c hc); simp [LP, RP, SPC]; omega)
    rw [show [40] ++ wspT a ++ body ++ wspT b ++ [41] = ([40] ++ wspT a) ++ body ++ (wspT b ++ [41]) by simp, this]
    exact dollarSep_split hs 0

end Verif.Proofs.SchemaG
