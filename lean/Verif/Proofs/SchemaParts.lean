/-
Scanner and post-processing lemmas for the parts shared by the three RFC 4512 description
grammars: optional keyword groups, qdescrs (NAME), qdstring (DESC), oids.
-/
import Verif.Proofs.SchemaBase

namespace Verif.Proofs.SchemaG
open Verif Verif.Schema Verif.Rfc4512 Verif.Rfc4515

/-! ### optional groups -/

theorem ofString_length (s : String) : (ofString s).length = s.length := by
  simp only [ofString, List.length_map]; rfl

theorem optKw_absent (kw : String) (body : Str → Option Str) {W : List Str} {s : Str}
    (h : Follow W s) (hW : okW (ofString kw) W = true) : optKw kw body s = (none, s) := by
  unfold optKw
  rw [sp1_lit_follow h hW]
  rfl

theorem optKw_present (kw : String) (body : Str → Option Str) (a b : Nat) {t rest : Str}
    (hk : hdNSp (ofString kw) = true) (ht : NSp t) (hb : body (t ++ rest) = some rest) :
    optKw kw body ((spT a ++ ofString kw ++ spT b ++ t) ++ rest) = (some t, rest) := by
  unfold optKw
  rw [show (spT a ++ ofString kw ++ spT b ++ t) ++ rest = spT a ++ (ofString kw ++ (spT b ++ (t ++ rest))) by simp,
    sp1_spT a (nsp_append (nsp_of_hdNSp hk))]
  simp only [Option.bind_some]
  rw [lit_self]
  simp only [Option.bind_some]
  rw [sp1_spT b (nsp_append ht)]
  simp only [hb, consumed_append]

theorem optFlag_absent (kw : String) {W : List Str} {s : Str}
    (h : Follow W s) (hW : okW (ofString kw) W = true) : optFlag kw s = (false, s) := by
  unfold optFlag
  rw [sp1_lit_follow h hW]

theorem optFlag_present (kw : String) (a : Nat) (rest : Str) (hk : hdNSp (ofString kw) = true) :
    optFlag kw ((spT a ++ ofString kw) ++ rest) = (true, rest) := by
  unfold optFlag
  rw [List.append_assoc, sp1_spT a (nsp_append (nsp_of_hdNSp hk))]
  simp only [Option.bind_some]
  rw [lit_self]

theorem optWord_absent (alts : List String) {W : List Str} {s : Str}
    (h : Follow W s) (hN : W.all hdNSp = true)
    (hW : (alts.all fun a => okW (ofString a) W) = true) : optWord alts s = (none, s) := by
  obtain ⟨a, w, t, hw, rfl, ha⟩ := h
  unfold optWord
  cases a with
  | zero => rw [ha rfl]; rfl
  | succ n =>
    have hn : hdNSp w = true := (List.all_eq_true.1 hN) w hw
    rw [List.append_assoc, show wspT (n + 1) = spT n from rfl, sp1_spT n (nsp_append (nsp_of_hdNSp hn))]
    have : List.find? (fun a => (ofString a).isPrefixOf (w ++ t)) alts = none := by
      rw [List.find?_eq_none]
      intro x hx
      have := (okW_mem ((List.all_eq_true.1 hW) x hx) hw).1
      simp [clash_isPrefixOf this t]
    simp only [this]

theorem optWord_present (pre : List String) (kw : String) (post : List String) (a : Nat) (rest : Str)
    (hk : hdNSp (ofString kw) = true)
    (hpre : (pre.all fun p => clash (ofString p) (ofString kw)) = true) :
    optWord (pre ++ kw :: post) ((spT a ++ ofString kw) ++ rest) = (some (ofString kw), rest) := by
  unfold optWord
  rw [List.append_assoc, sp1_spT a (nsp_append (nsp_of_hdNSp hk))]
  have : List.find? (fun a => (ofString a).isPrefixOf (ofString kw ++ rest)) (pre ++ kw :: post) = some kw := by
    rw [List.find?_append, List.find?_eq_none.2, Option.none_or, List.find?_cons_of_pos]
    · exact isPrefixOf_append_self _ _
    · intro x hx
      have := (List.all_eq_true.1 hpre) x hx
      simp [clash_isPrefixOf this rest]
  simp only [this, ← ofString_length, List.drop_left]

/-! ### qdescr, and the generic `item | ( item SP item … )` -/

theorem qdescr_scan {n t : Str} (h : QDescr n t) (rest : Str) : qdescr (t ++ rest) = some rest := by
  obtain ⟨hd, rfl⟩ := h
  have h1 : descr (n ++ (39 :: rest)) = some (39 :: rest) := descr_scan hd (stop_cons (by decide))
  rw [show [39] ++ n ++ [39] ++ rest = 39 :: (n ++ 39 :: rest) by simp, qdescr, if_pos (show (39 : Nat) = QUOTE from rfl), h1]
  simp [QUOTE]

/-- what the generic list lemmas need from an item scanner -/
structure ItemSpec {α : Type} (enc : α → Str → Prop) (item : Str → Option Str) : Prop where
  scan : ∀ x t rest, enc x t → item (t ++ rest) = some rest
  quote : ∀ x t, enc x t → ∃ r, t = 39 :: r
  fail : ∀ r, item (41 :: r) = none

theorem qdescr_spec : ItemSpec QDescr qdescr where
  scan := fun _ _ rest h => qdescr_scan h rest
  quote := fun x t h => ⟨x ++ [39], by rw [h.2]; simp⟩
  fail := fun r => by rw [qdescr, if_neg (by decide)]

section items
variable {α : Type} {enc : α → Str → Prop} {item : Str → Option Str} (S : ItemSpec enc item)
include S

theorem item_nsp {x : α} {t : Str} (h : enc x t) : NSp t := by
  obtain ⟨r, rfl⟩ := S.quote x t h
  exact nsp_cons (by decide)

theorem spSep_head {xs : List α} {body : Str} (h : SpSep enc xs body) : ∃ r, body = 39 :: r := by
  cases h with
  | one x t h => exact S.quote _ _ h
  | cons x t k xs ts h _ =>
    obtain ⟨r, rfl⟩ := S.quote x t h
    exact ⟨r ++ spT k ++ ts, by simp⟩

theorem spSep_nsp {xs : List α} {body : Str} (h : SpSep enc xs body) : NSp body := by
  obtain ⟨r, rfl⟩ := spSep_head S h
  exact nsp_cons (by decide)

theorem spSep_length {xs : List α} {body : Str} (h : SpSep enc xs body) : xs.length ≤ body.length := by
  induction h with
  | one x t h => obtain ⟨r, rfl⟩ := S.quote x t h; simp
  | cons x t k xs ts h _ ih => obtain ⟨r, rfl⟩ := S.quote x t h; simp; omega

theorem spItems_stop (fuel b : Nat) (rest : Str) :
    spItems item fuel (wspT b ++ 41 :: rest) = wspT b ++ 41 :: rest := by
  cases fuel with
  | zero => rfl
  | succ f =>
    rw [spItems]
    cases b with
    | zero => rw [wspT_zero, List.nil_append, sp1_nsp (nsp_cons (by decide))]
    | succ n =>
      rw [show wspT (n + 1) = spT n from rfl, sp1_spT n (nsp_cons (by decide))]
      simp only [S.fail]

theorem spSep_scan {xs : List α} {body : Str} (h : SpSep enc xs body) (b : Nat) (rest : Str) :
    ∀ fuel, xs.length ≤ fuel →
      ∃ r', item (body ++ (wspT b ++ 41 :: rest)) = some r' ∧ spItems item fuel r' = wspT b ++ 41 :: rest := by
  induction h with
  | one x t h => exact fun fuel _ => ⟨_, S.scan x t _ h, spItems_stop S fuel b rest⟩
  | cons x t k xs ts h hs ih =>
    intro fuel hf
    obtain ⟨f, rfl⟩ : ∃ f, fuel = f + 1 := ⟨fuel - 1, by simp at hf; omega⟩
    obtain ⟨r'', h1, h2⟩ := ih f (by simp at hf; omega)
    refine ⟨spT k ++ (ts ++ (wspT b ++ 41 :: rest)), ?_, ?_⟩
    · rw [show t ++ spT k ++ ts ++ (wspT b ++ 41 :: rest) = t ++ (spT k ++ (ts ++ (wspT b ++ 41 :: rest))) by simp]
      exact S.scan x t _ h
    · rw [spItems, sp1_spT k (nsp_append (spSep_nsp S hs))]
      simp only [h1, h2]

theorem itemOrList_scan {xs : List α} {t : Str} (h : ItemOrList enc xs t) (rest : Str) :
    itemOrList item (t ++ rest) = some rest := by
  cases h with
  | bare x t h =>
    obtain ⟨r, rfl⟩ := S.quote x t h
    have := S.scan x _ rest h
    rw [List.cons_append] at this ⊢
    rw [itemOrList, if_neg (by decide), this]
  | empty a =>
    rw [show [40] ++ wspT a ++ [41] ++ rest = 40 :: (wspT a ++ 41 :: rest) by simp, itemOrList,
      if_pos (show (40 : Nat) = LP from rfl)]
    simp only [wsp_wspT_nsp a (nsp_cons (show (41 : Nat) ≠ 32 by decide)), S.fail]
    rw [if_pos (show (41 : Nat) = RP from rfl)]
  | list xs body a b hs =>
    rw [show [40] ++ wspT a ++ body ++ wspT b ++ [41] ++ rest = 40 :: (wspT a ++ (body ++ (wspT b ++ 41 :: rest))) by simp,
      itemOrList, if_pos (show (40 : Nat) = LP from rfl)]
    obtain ⟨r', h1, h2⟩ := spSep_scan S hs b rest (40 :: (wspT a ++ (body ++ (wspT b ++ 41 :: rest)))).length
      (by have := spSep_length S hs; simp; omega)
    simp only [wsp_wspT_nsp a (nsp_append (spSep_nsp S hs)), h1, h2,
      wsp_wspT_nsp b (nsp_cons (show (41 : Nat) ≠ 32 by decide))]
    rw [if_pos (show (41 : Nat) = RP from rfl)]

theorem itemOrList_nsp {xs : List α} {t : Str} (h : ItemOrList enc xs t) : NSp t := by
  cases h with
  | bare x t h => exact item_nsp S h
  | empty a => exact nsp_cons (by decide)
  | list xs body a b hs => exact nsp_cons (by decide)

end items

/-! ### tokens: `split(" ")` keeping the non-empty pieces -/

def tokens (s : Str) : List Str := (Schema.splitOn 32 s).filter (fun n => !n.isEmpty)

theorem tokens_nil : tokens [] = [] := rfl

theorem tokens_sp (s : Str) : tokens (32 :: s) = tokens s := by
  simp [tokens, splitOn_cons_sep]

theorem tokens_wspT (a : Nat) (s : Str) : tokens (wspT a ++ s) = tokens s := by
  induction a with
  | zero => rfl
  | succ n ih => rw [wspT_succ, List.cons_append, tokens_sp, ih]

theorem tokens_word {t : Str} (hne : t ≠ []) (ht : 32 ∉ t) (s : Str) : tokens (t ++ 32 :: s) = t :: tokens s := by
  cases t with
  | nil => exact (hne rfl).elim
  | cons c r => rw [tokens, splitOn_piece 32 _ s ht, List.filter_cons_of_pos (by simp)]; rfl

theorem tokens_last {t : Str} (hne : t ≠ []) (ht : 32 ∉ t) : tokens t = [t] := by
  cases t with
  | nil => exact (hne rfl).elim
  | cons c r => rw [tokens, splitOn_last 32 _ ht, List.filter_cons_of_pos (by simp)]; rfl

theorem tokens_word_wspT {t : Str} (hne : t ≠ []) (ht : 32 ∉ t) (b : Nat) : tokens (t ++ wspT b) = [t] := by
  cases b with
  | zero => rw [wspT_zero, List.append_nil, tokens_last hne ht]
  | succ n =>
    rw [wspT_succ, tokens_word hne ht]
    have := tokens_wspT n []
    rw [List.append_nil] at this
    rw [this, tokens_nil]

/-! ### names -/

theorem keyChar_facts {c : Nat} (h : Schema.isKeyChar c = true) : c ≠ 32 ∧ c ≠ 39 ∧ c ≠ 40 ∧ c ≠ 41 ∧ c ≠ 36 := by
  simp only [Schema.isKeyChar, Schema.isAlpha, Schema.isDigit, HYPHEN, Bool.or_eq_true, Bool.and_eq_true,
    decide_eq_true_eq, beq_iff_eq] at h
  omega

theorem qdescr_text {n t : Str} (h : QDescr n t) :
    t ≠ [] ∧ 32 ∉ t ∧ (∀ c ∈ t, c ≠ 40 ∧ c ≠ 41) ∧ stripChars [39] t = n := by
  obtain ⟨hd, rfl⟩ := h
  have hk := descr_chars hd
  refine ⟨by simp, ?_, ?_, ?_⟩
  · intro hm
    simp only [List.mem_append, List.mem_singleton] at hm
    rcases hm with (hm | hm) | hm
    · omega
    · exact (keyChar_facts (hk _ hm)).1 rfl
    · omega
  · intro c hm
    simp only [List.mem_append, List.mem_singleton] at hm
    rcases hm with (hm | hm) | hm
    · omega
    · have := keyChar_facts (hk _ hm); omega
    · omega
  · apply stripChars_mid [39] [39] n [39] (by simp) (by simp)
    · intro c hc
      have := keyChar_facts (hk c (List.mem_of_mem_head? hc))
      simp; omega
    · intro c hc
      have := keyChar_facts (hk c (List.mem_of_mem_getLast? hc))
      simp; omega

theorem spSep_names {xs : List Str} {body : Str} (h : SpSep QDescr xs body) (b : Nat) :
    (∀ c ∈ body, c ≠ 40 ∧ c ≠ 41) ∧ (tokens (body ++ wspT b)).map (stripChars [39]) = xs := by
  induction h with
  | one x t h =>
    obtain ⟨h1, h2, h3, h4⟩ := qdescr_text h
    exact ⟨h3, by rw [tokens_word_wspT h1 h2, List.map_singleton, h4]⟩
  | cons x t k xs ts h hs ih =>
    obtain ⟨h1, h2, h3, h4⟩ := qdescr_text h
    refine ⟨?_, ?_⟩
    · intro c hc
      simp only [List.mem_append] at hc
      rcases hc with (hc | hc) | hc
      · exact h3 c hc
      · rw [mem_wspT hc]; omega
      · exact ih.1 c hc
    · rw [show t ++ spT k ++ ts ++ wspT b = t ++ 32 :: (wspT k ++ (ts ++ wspT b)) by simp [spT_eq],
        tokens_word h1 h2, tokens_wspT, List.map_cons, h4, ih.2]

theorem parseNames_items {l : List Str} {t : Str} (h : ItemOrList QDescr l t) : parseNames (some t) = l := by
  have hne : t.isEmpty = false := by
    have := itemOrList_nsp qdescr_spec h
    cases t with
    | nil => exact this.elim
    | cons c r => rfl
  unfold parseNames
  simp only [hne]
  change (tokens (stripChars [LP, RP] t)).map (stripChars [QUOTE]) = l
  cases h with
  | bare x t h =>
    obtain ⟨h1, h2, h3, h4⟩ := qdescr_text h
    rw [stripChars_none _ _ (fun c hc => by have := h3 c hc; simp [LP, RP]; omega), tokens_last h1 h2]
    simpa [QUOTE] using h4
  | empty a =>
    have := stripChars_mid [LP, RP] [40] (wspT a) [41] (by simp [LP]) (by simp [RP])
      (fun c hc => by rw [mem_wspT (List.mem_of_mem_head? hc)]; decide)
      (fun c hc => by rw [mem_wspT (List.mem_of_mem_getLast? hc)]; decide)
    rw [this]
    have h2 := tokens_wspT a []
    rw [List.append_nil] at h2
    rw [h2]; rfl
  | list xs body a b hs =>
    obtain ⟨h3, h4⟩ := spSep_names hs b
    have hmid : ∀ c ∈ wspT a ++ body ++ wspT b, [LP, RP].contains c = false := by
      intro c hc
      simp only [List.mem_append] at hc
      rcases hc with (hc | hc) | hc
      · rw [mem_wspT hc]; decide
      · have := h3 c hc; simp [LP, RP]; omega
      · rw [mem_wspT hc]; decide
    have := stripChars_mid [LP, RP] [40] (wspT a ++ body ++ wspT b) [41] (by simp [LP]) (by simp [RP])
      (fun c hc => hmid c (List.mem_of_mem_head? hc)) (fun c hc => hmid c (List.mem_of_mem_getLast? hc))
    rw [show [40] ++ wspT a ++ body ++ wspT b ++ [41] = [40] ++ (wspT a ++ body ++ wspT b) ++ [41] by simp, this,
      List.append_assoc, tokens_wspT]
    exact h4

end Verif.Proofs.SchemaG
