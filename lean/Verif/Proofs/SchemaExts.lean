/-
Extensions: the scanner `extensions` / `tail` against `ExtsEnc`, and the hand splitter
`parseExts` (`_parse_extensions`) on exactly the consumed text.
-/
import Verif.Proofs.SchemaParts

namespace Verif.Proofs.SchemaG
open Verif Verif.Schema Verif.Rfc4512 Verif.Rfc4515

/-! ### scanner -/

theorem extKey_chars {k : Str} (h : IsExtKey k) :
    ∀ c ∈ k, (Schema.isAlpha c || c == HYPHEN || c == USCORE) = true := by
  intro c hc
  rcases h.2 c hc with h1 | rfl | rfl
  · simp [h1]
  · decide
  · decide

theorem extKey_no_sp {k : Str} (h : IsExtKey k) : 32 ∉ k := by
  intro hm
  have := extKey_chars h 32 hm
  exact absurd this (by decide)

theorem xstring_scan {k : Str} (h : IsExtKey k) {x : Nat} (hx : x = 88 ∨ x = 120) (rest : Str) :
    xstring ([x, 45] ++ k ++ (32 :: rest)) = some (32 :: rest) := by
  have hd : (k ++ 32 :: rest).dropWhile (fun x => Schema.isAlpha x || x == HYPHEN || x == USCORE) = 32 :: rest :=
    dropWhile_append_stop (extKey_chars h) (stop_cons (by decide))
  have hne : k ≠ [] := h.1
  rw [show [x, 45] ++ k ++ (32 :: rest) = x :: 45 :: (k ++ 32 :: rest) by simp, xstring,
    if_pos ⟨hx.symm.imp id id, rfl⟩]
  simp only [hd]
  rw [if_pos (by
    cases k with
    | nil => exact (hne rfl).elim
    | cons c r => simp; omega)]

theorem xstring_rp (r : Str) : xstring (41 :: r) = none := by
  cases r with
  | nil => rfl
  | cons d r => simp [xstring]

theorem extensions_stop (fuel w : Nat) (x : Str) :
    extensions fuel (wspT w ++ 41 :: x) = wspT w ++ 41 :: x := by
  cases fuel with
  | zero => rfl
  | succ f =>
    rw [extensions]
    cases w with
    | zero => rw [wspT_zero, List.nil_append, sp1_nsp (nsp_cons (by decide))]; rfl
    | succ n =>
      rw [show wspT (n + 1) = spT n from rfl, sp1_spT n (nsp_cons (by decide))]
      simp only [Option.bind_some, xstring_rp, Option.bind_none]

theorem exts_scan {es : List (Str × List Str)} {te : Str} (h : ExtsEnc es te) (w : Nat) (x : Str) :
    ∀ fuel, es.length ≤ fuel → extensions fuel (te ++ (wspT w ++ 41 :: x)) = wspT w ++ 41 :: x := by
  induction h with
  | nil => intro fuel _; exact extensions_stop fuel w x
  | cons k vs c a b body rest ts hk hc hbody _ ih =>
    intro fuel hf
    obtain ⟨f, rfl⟩ : ∃ f, fuel = f + 1 := ⟨fuel - 1, by simp at hf; omega⟩
    have hcn : c ≠ 32 := by omega
    rw [extensions,
      show spT a ++ [c, 45] ++ k ++ spT b ++ body ++ ts ++ (wspT w ++ 41 :: x)
        = spT a ++ ([c, 45] ++ k ++ (32 :: (wspT b ++ (body ++ (ts ++ (wspT w ++ 41 :: x)))))) by simp [spT_eq],
      sp1_spT a (nsp_append (nsp_append (t := [c, 45]) (nsp_cons hcn)))]
    simp only [Option.bind_some]
    rw [xstring_scan hk hc]
    simp only [Option.bind_some]
    rw [← List.cons_append, ← spT_eq, sp1_spT b (nsp_append (itemOrList_nsp qdstring_spec hbody))]
    simp only [Option.bind_some]
    rw [itemOrList_scan qdstring_spec hbody]
    exact ih f (by simp at hf; omega)

theorem exts_length {es : List (Str × List Str)} {te : Str} (h : ExtsEnc es te) : es.length ≤ te.length := by
  induction h with
  | nil => simp
  | cons k vs c a b body rest ts _ _ _ _ ih => simp [spT]; omega

theorem exts_lead {es : List (Str × List Str)} {te : Str} (h : ExtsEnc es te) :
    te = [] ∨ Lead [[88, 45], [120, 45]] te := by
  cases h with
  | nil => exact Or.inl rfl
  | cons k vs c a b body rest ts _ hc _ _ =>
    refine Or.inr ⟨a, [c, 45], k ++ spT b ++ body ++ ts, ?_, by simp⟩
    rcases hc with rfl | rfl <;> simp

theorem tail_scan {es : List (Str × List Str)} {te : Str} (h : ExtsEnc es te) (w : Nat) :
    Schema.tail (te ++ (wspT w ++ [41])) = some te := by
  unfold Schema.tail
  simp only
  rw [exts_scan h w [] _ (by have := exts_length h; simp; omega)]
  rw [wsp_wspT_nsp w (nsp_cons (show (41 : Nat) ≠ 32 by decide))]
  simp [RP, consumed_append]

/-! ### the hand splitter -/

theorem split1_piece (sep : Nat) (t s : Str) (ht : sep ∉ t) : split1 sep (t ++ sep :: s) = some (t, s) := by
  induction t with
  | nil => rw [List.nil_append, split1, if_pos rfl]
  | cons c t ih =>
    have hc : c ≠ sep := fun h => ht (by simp [h])
    rw [List.cons_append, split1, if_neg hc, ih (fun h => ht (List.mem_cons_of_mem _ h))]
    rfl

theorem dictSet_new {acc : List (Str × List Str)} {k : Str} (v : List Str) (h : k ∉ acc.map (·.1)) :
    dictSet acc k v = acc ++ [(k, v)] := by
  unfold dictSet
  rw [if_neg]
  intro hany
  rw [List.any_eq_true] at hany
  obtain ⟨p, hp, hpk⟩ := hany
  exact h (List.mem_map.2 ⟨p, hp, by simpa using hpk⟩)

theorem extractQd_item {v t : Str} (h : QdString v t) (rest : Str) :
    extractQd (t ++ rest) = some (v, wsp rest) := by
  obtain ⟨_, body, hb, rfl⟩ := h
  have hno : QUOTE ∉ body := fun hm => qdEnc_no_quote hb _ hm rfl
  rw [show [39] ++ body ++ [39] ++ rest = 39 :: (body ++ QUOTE :: rest) by simp [QUOTE], extractQd,
    List.drop_succ_cons, List.drop_zero, split1_piece _ _ _ hno]
  simp only [Option.map_some, parseQd_body hb, lstripSp_eq_wsp]

theorem startsWith_rp_quote (r : Str) : startsWith [RP] (39 :: r) = false := by
  simp [startsWith, RP, List.isPrefixOf]

theorem extListLoop_scan {xs : List Str} {sbody : Str} (h : SpSep QdString xs sbody) (b : Nat) (ts : Str) :
    ∀ fuel acc, xs.length + 1 ≤ fuel →
      extListLoop fuel (sbody ++ (wspT b ++ 41 :: ts)) acc = some (acc ++ xs, 41 :: ts) := by
  induction h with
  | one x t h =>
    intro fuel acc hf
    obtain ⟨f, rfl⟩ : ∃ f, fuel = f + 2 := ⟨fuel - 2, by simp at hf; omega⟩
    obtain ⟨r, hr⟩ := qdstring_spec.quote x t h
    have hs : startsWith [RP] (t ++ (wspT b ++ 41 :: ts)) = false := by
      rw [hr]; exact startsWith_rp_quote _
    rw [extListLoop]
    simp only [hs, extractQd_item h, wsp_wspT_nsp b (nsp_cons (show (41 : Nat) ≠ 32 by decide))]
    rw [extListLoop]
    simp [startsWith, RP]
  | cons x t k xs ts' h hs ih =>
    intro fuel acc hf
    obtain ⟨f, rfl⟩ : ∃ f, fuel = f + 1 := ⟨fuel - 1, by omega⟩
    obtain ⟨r, hr⟩ := qdstring_spec.quote x t h
    have hst : startsWith [RP] (t ++ (spT k ++ (ts' ++ (wspT b ++ 41 :: ts)))) = false := by
      rw [hr]; exact startsWith_rp_quote _
    rw [show t ++ spT k ++ ts' ++ (wspT b ++ 41 :: ts) = t ++ (spT k ++ (ts' ++ (wspT b ++ 41 :: ts))) by simp,
      extListLoop]
    have hw : wsp (spT k ++ (ts' ++ (wspT b ++ 41 :: ts))) = ts' ++ (wspT b ++ 41 :: ts) :=
      wsp_wspT_nsp (k + 1) (nsp_append (spSep_nsp qdstring_spec hs))
    simp only [hst, extractQd_item h, hw, Bool.false_eq_true, if_false]
    rw [ih f (acc ++ [x]) (by simp at hf; omega)]
    simp

/-- one round of the `while v:` loop -/
theorem parseExtLoop_step (fuel : Nat) (v : Str) (acc : List (Str × List Str)) {k : Str} {vs : List Str}
    {c : Nat} (b : Nat) {body : Str} (ts : Str) (hk : IsExtKey k) (hc : c = 88 ∨ c = 120) (hbody : ItemOrList QdString vs body)
    (hv : v.isEmpty = false) (hl : wsp v = [c, 45] ++ k ++ spT b ++ body ++ ts) :
    ∃ v', (v' = ts ∨ v' = wsp ts) ∧ parseExtLoop (fuel + 1) v acc = parseExtLoop fuel v' (dictSet acc k vs) := by
  have hsplit : split1 SPC (lstripSp v) = some ([c, 45] ++ k, wspT b ++ (body ++ ts)) := by
    rw [lstripSp_eq_wsp, hl, show [c, 45] ++ k ++ spT b ++ body ++ ts = ([c, 45] ++ k) ++ SPC :: (wspT b ++ (body ++ ts)) by
      simp [spT_eq, SPC]]
    apply split1_piece
    intro hm
    simp only [List.mem_append, List.mem_cons, List.not_mem_nil, or_false] at hm
    rcases hm with (h1 | h1) | h1
    · rcases hc with rfl | rfl <;> exact absurd h1 (by decide)
    · exact absurd h1 (by decide)
    · exact extKey_no_sp hk h1
  have hrem : lstripSp (wspT b ++ (body ++ ts)) = body ++ ts :=
    wsp_wspT_nsp b (nsp_append (itemOrList_nsp qdstring_spec hbody))
  have hkey : ([c, 45] ++ k).drop 2 = k := rfl
  simp only [parseExtLoop, hv, hsplit, Bool.false_eq_true, if_false, hrem, hkey]
  cases hbody with
  | bare x t h =>
    obtain ⟨r, hr⟩ := qdstring_spec.quote x body h
    refine ⟨wsp ts, Or.inr rfl, ?_⟩
    have hs : startsWith [LP] (body ++ ts) = false := by
      rw [hr]; simp [startsWith, LP, List.isPrefixOf]
    simp only [hs, Bool.false_eq_true, if_false, extractQd_item h]
  | empty a =>
    refine ⟨ts, Or.inl rfl, ?_⟩
    have hs : startsWith [LP] ([40] ++ wspT a ++ [41] ++ ts) = true := by
      simp [startsWith, LP, List.isPrefixOf]
    have hd : lstripSp (List.drop 1 ([40] ++ wspT a ++ [41] ++ ts)) = 41 :: ts := by
      rw [show [40] ++ wspT a ++ [41] ++ ts = 40 :: (wspT a ++ 41 :: ts) by simp, List.drop_succ_cons, List.drop_zero]
      exact wsp_wspT_nsp a (nsp_cons (by decide))
    simp only [hs, if_true, hd, extListLoop]
    simp [startsWith, RP]
  | list xs sbody a b' hs' =>
    refine ⟨ts, Or.inl rfl, ?_⟩
    have hs : startsWith [LP] ([40] ++ wspT a ++ sbody ++ wspT b' ++ [41] ++ ts) = true := by
      simp [startsWith, LP, List.isPrefixOf]
    have hd : lstripSp (List.drop 1 ([40] ++ wspT a ++ sbody ++ wspT b' ++ [41] ++ ts))
        = sbody ++ (wspT b' ++ 41 :: ts) := by
      rw [show [40] ++ wspT a ++ sbody ++ wspT b' ++ [41] ++ ts = 40 :: (wspT a ++ (sbody ++ (wspT b' ++ 41 :: ts))) by simp,
        List.drop_succ_cons, List.drop_zero]
      exact wsp_wspT_nsp a (nsp_append (spSep_nsp qdstring_spec hs'))
    simp only [hs, if_true, hd]
    rw [extListLoop_scan hs' b' ts _ [] (by have := spSep_length qdstring_spec hs'; simp; omega)]
    simp

theorem exts_cons_wsp {k : Str} {c : Nat} (hc : c = 88 ∨ c = 120) (a b : Nat) (body ts : Str) :
    wsp (spT a ++ [c, 45] ++ k ++ spT b ++ body ++ ts) = [c, 45] ++ k ++ spT b ++ body ++ ts := by
  have hcn : c ≠ 32 := by omega
  rw [show spT a ++ [c, 45] ++ k ++ spT b ++ body ++ ts = wspT (a + 1) ++ ([c, 45] ++ k ++ spT b ++ body ++ ts) by
    simp [spT_eq, wspT_succ]]
  exact wsp_wspT_nsp (a + 1) (nsp_append (nsp_append (nsp_append (nsp_append (t := [c, 45]) (nsp_cons hcn)))))

theorem parseExtLoop_scan {es : List (Str × List Str)} {te : Str} (h : ExtsEnc es te) :
    ∀ fuel acc v, es.length ≤ fuel → ((acc ++ es).map (·.1)).Nodup → (v = te ∨ v = wsp te) →
      parseExtLoop fuel v acc = some (acc ++ es) := by
  induction h with
  | nil =>
    intro fuel acc v _ _ hv
    have : v = [] := by rcases hv with rfl | rfl <;> rfl
    subst this
    cases fuel <;> simp [parseExtLoop]
  | cons k vs c a b body rest ts hk hc hbody hrest ih =>
    intro fuel acc v hf hnd hv
    obtain ⟨f, rfl⟩ : ∃ f, fuel = f + 1 := ⟨fuel - 1, by simp at hf; omega⟩
    have hcn : c ≠ 32 := by omega
    have hte := exts_cons_wsp (k := k) hc a b body ts
    have hnsp : NSp ([c, 45] ++ k ++ spT b ++ body ++ ts) :=
      nsp_append (nsp_append (nsp_append (nsp_append (t := [c, 45]) (nsp_cons hcn))))
    have hl : wsp v = [c, 45] ++ k ++ spT b ++ body ++ ts := by
      rcases hv with rfl | rfl
      · exact hte
      · rw [hte]; exact wsp_nsp hnsp
    have hne : v.isEmpty = false := by
      rcases hv with rfl | rfl
      · simp [spT_eq]
      · rw [hte]; simp
    obtain ⟨v', hv', hstep⟩ := parseExtLoop_step f v acc b ts hk hc hbody hne hl
    have hknew : k ∉ acc.map (·.1) := by
      intro hm
      rw [List.map_append, List.nodup_append] at hnd
      exact hnd.2.2 k hm k (by simp) rfl
    rw [hstep, dictSet_new vs hknew]
    rw [ih f (acc ++ [(k, vs)]) v' (by simp at hf; omega) (by simpa using hnd) hv']
    simp

theorem parseExts_exts {es : List (Str × List Str)} {te : Str} (h : ExtsEnc es te) (hd : KeysDistinct es) :
    parseExts te = some es := by
  unfold parseExts
  cases h with
  | nil => rfl
  | cons k vs c a b body rest ts hk hc hbody hrest =>
    have hne : (spT a ++ [c, 45] ++ k ++ spT b ++ body ++ ts).isEmpty = false := by simp [spT_eq]
    simp only [hne, Bool.false_eq_true, if_false, lstripSp_eq_wsp]
    have := parseExtLoop_scan (ExtsEnc.cons k vs c a b body rest ts hk hc hbody hrest)
      ((wsp (spT a ++ [c, 45] ++ k ++ spT b ++ body ++ ts)).length + 1) [] _
      (by
        rw [exts_cons_wsp hc]
        have := exts_length hrest
        simp; omega)
      (by simpa [KeysDistinct] using hd) (Or.inr rfl)
    simpa using this

end Verif.Proofs.SchemaG
