/-
C18 (continued) — the step-counting filter parser, part 4: the bounds on a whole
`LDAPFilter.from_string` (`steps_bound_K`, `filter_steps_quadratic`, `filter_scan_steps_linear`), and
the work of one call of each parser function with its sub-calls not counted (`*_own`).
-/
import Verif.Proofs.FilterStepsLoops
namespace Verif.Proofs.FilterSteps
open Verif Verif.FilterSteps

/-! ### the whole parse -/

theorem utf8EncodeChar_len (c : Nat) : (utf8EncodeChar c).length ≤ 4 := by
  unfold utf8EncodeChar
  repeat' split
  all_goals simp

theorem utf8Encode_len : ∀ s : List Nat, (utf8Encode s).length ≤ 4 * s.length := by
  intro s
  induction s with
  | nil => simp [utf8Encode]
  | cons c r ih =>
    have := utf8EncodeChar_len c
    simp only [utf8Encode, List.map_cons, List.flatten_cons, List.length_append, List.length_cons] at ih ⊢
    omega

theorem dropWhile_len {α : Type} (p : α → Bool) : ∀ l : List α, (l.dropWhile p).length ≤ l.length := by
  intro l
  induction l with
  | nil => simp
  | cons a r ih =>
    simp only [List.dropWhile_cons]
    split
    · simp only [List.length_cons]; omega
    · exact Nat.le_refl _

theorem pyStrip_len (s : List Nat) : (pyStrip s).length ≤ s.length := by
  unfold pyStrip
  rw [List.length_reverse]
  refine Nat.le_trans (dropWhile_len _ _) ?_
  rw [List.length_reverse]
  exact dropWhile_len _ _

/-- sharp form: strip + encode, then the budget of the encoded text -/
theorem steps_bound_K (K depth : Nat) (s : List Nat) :
    (parseFilterTextSK K depth s).2 ≤
      (s.length + 2) + (pyStrip s).length + W K ((utf8Encode (pyStrip s)).length + 1) := by
  have h := unpackFilterS_bound K depth (utf8Encode (pyStrip s)) 0
  unfold parseFilterTextSK
  simp only
  generalize unpackFilterS K depth (utf8Encode (pyStrip s)) 0 = p at h
  match p, h with
  | (.error .recursion, k), h => simp only [FilB] at h; simp only; omega
  | (.error (.syntax _ _), k), h => simp only [FilB] at h; simp only; omega
  | (.error .fuel, k), h => simp only [FilB] at h; simp only; omega
  | (.ok (f, n), k), h =>
    simp only [FilB] at h
    have := W_mono K (show n ≤ (utf8Encode (pyStrip s)).length + 1 by omega)
    simp only; omega

theorem steps_bound_K' (K depth : Nat) (s : List Nat) :
    (parseFilterTextSK K depth s).2 ≤
      2 * (s.length + 1) + 32 * ((utf8Encode (pyStrip s)).length + 1)
        + K * ((utf8Encode (pyStrip s)).length + 1) ^ 2 := by
  have h := steps_bound_K K depth s
  have h1 := pyStrip_len s
  rw [Nat.pow_two]
  unfold W sq at h
  omega

theorem filter_steps_bound (depth : Nat) (s : List Nat) :
    (parseFilterTextS depth s).2 ≤
      2 * (s.length + 1) + 32 * ((utf8Encode (pyStrip s)).length + 1)
        + 347 * ((utf8Encode (pyStrip s)).length + 1) ^ 2 :=
  steps_bound_K' attrK depth s

theorem filter_scan_steps_linear (depth : Nat) (s : List Nat) :
    (parseFilterTextSK 0 depth s).2 ≤
      2 * (s.length + 1) + 32 * ((utf8Encode (pyStrip s)).length + 1) := by
  have := steps_bound_K' 0 depth s
  omega

theorem filter_scan_steps_linear' (depth : Nat) (s : List Nat) :
    (parseFilterTextSK 0 depth s).2 ≤ 130 * (s.length + 1) := by
  have h := filter_scan_steps_linear depth s
  have h1 := utf8Encode_len (pyStrip s)
  have h2 := pyStrip_len s
  omega

theorem filter_steps_quadratic (depth : Nat) (s : List Nat) :
    (parseFilterTextS depth s).2 ≤ 5682 * (s.length + 1) ^ 2 := by
  have h := steps_bound_K attrK depth s
  have h1 := utf8Encode_len (pyStrip s)
  have h2 := pyStrip_len s
  have h3 : sq ((utf8Encode (pyStrip s)).length + 1) ≤ sq (4 * (s.length + 1)) := sq_mono (by omega)
  have h4 : sq (4 * (s.length + 1)) = 16 * sq (s.length + 1) := by
    unfold sq; rw [Nat.mul_mul_mul_comm]
  have h5 : s.length + 1 ≤ sq (s.length + 1) := by
    unfold sq; exact Nat.le_mul_of_pos_left _ (by omega)
  rw [Nat.pow_two]
  unfold W attrK at h
  unfold parseFilterTextS attrK
  change _ ≤ 5682 * sq (s.length + 1)
  omega

/-! ### one call's own work -/

theorem complexLoopS_own (uf : Bytes → Nat → R × Nat) (cur : Bytes) (off : Nat) :
    ∀ fuel read fs k, (complexLoopS (free uf) cur off fuel read fs k).2 ≤ k + fuel := by
  intro fuel
  induction fuel with
  | zero => intro read fs k; simp only [complexLoopS]; omega
  | succ fuel ih =>
    intro read fs k
    simp only [complexLoopS]
    split
    · simp only; omega
    · split
      · have := ih (read + 1) fs (k + 1); omega
      · split
        · split
          · simp only; omega
          · simp only [free]
            generalize (uf ((cur.drop read).take (cur.length - read - 1)) (off + read)).1 = r
            match r with
            | .error e => simp only; omega
            | .ok (f, m) => have := ih (read + m) (fs ++ [f]) (k + 1 + 0); simp only; omega
        · split <;> (simp only; omega)

theorem unpackComplexS_own (uf : Bytes → Nat → R × Nat) (cur : Bytes) (off : Nat) :
    (unpackComplexS (free uf) cur off).2 ≤ cur.length + 1 := by
  have h := complexLoopS_own uf cur off cur.length 1 [] 1
  unfold unpackComplexS
  generalize complexLoopS (free uf) cur off cur.length 1 [] 1 = p at h
  match p, h with
  | (.error e, k), h => simp only at h ⊢; omega
  | (.ok ([], read), k), h => simp only at h ⊢; omega
  | (.ok (f0 :: fs, read), k), h =>
    simp only at h ⊢
    split
    · simp only; omega
    · split <;> (simp only; omega)

theorem filterLoopS_own (cx sm : Bytes → Nat → R × Nat) (cur : Bytes) (off : Nat) :
    ∀ fuel st k, (filterLoopS (free cx) (free sm) cur off fuel st k).2 ≤ k + fuel := by
  intro fuel
  induction fuel with
  | zero => intro st k; simp only [filterLoopS]; omega
  | succ fuel ih =>
    intro st k
    simp only [filterLoopS]
    split
    · simp only; omega
    · split
      · have := ih { st with read := st.read + 1 } (k + 1); omega
      · split
        · split <;> (simp only; omega)
        · split
          · split
            · simp only; omega
            · by_cases hc : cur.getD st.read 0 = cBang ∨ cur.getD st.read 0 = cAmp ∨ cur.getD st.read 0 = cPipe
              · simp only [if_pos hc, free]
                generalize (cx (cur.drop st.read) (off + st.read)).1 = r
                match r with
                | .error e => simp only; omega
                | .ok (f, m) =>
                  have := ih { st with parsed := some f, read := st.read + m } (k + 1 + 0)
                  simp only; omega
              · simp only [if_neg hc, free]
                generalize (sm (cur.drop st.read) (off + st.read)).1 = r
                match r with
                | .error e => simp only; omega
                | .ok (f, m) =>
                  have := ih { st with parsed := some f, read := st.read + m } (k + 1 + 0)
                  simp only; omega
          · split
            · have := ih { st with parens := some st.read, read := st.read + 1 } (k + 1); omega
            · simp only [free]
              generalize (sm (cur.drop st.read) (off + st.read)).1 = r
              match r with
              | .error e => simp only; omega
              | .ok (f, m) => simp only; omega

theorem filterBodyS_own (cx sm : Bytes → Nat → R × Nat) (cur : Bytes) (off : Nat) :
    (filterBodyS (free cx) (free sm) cur off).2 ≤ cur.length + 1 := by
  have h := filterLoopS_own cx sm cur off cur.length ⟨0, none, none⟩ 1
  unfold filterBodyS
  generalize filterLoopS (free cx) (free sm) cur off cur.length ⟨0, none, none⟩ 1 = p at h
  match p, h with
  | (.error e, k), h => simp only at h ⊢; omega
  | (.ok ⟨rd, par, psd⟩, k), h =>
    cases par <;> cases psd <;> (simp only at h ⊢; omega)

theorem unpackSimpleS_own (K : Nat) (cur : Bytes) (off : Nat) :
    (unpackSimpleS K cur off).2 ≤ 32 * (cur.length + 1) + K * (cur.length + 1) ^ 2 := by
  have h := unpackSimpleS_bound K cur off
  generalize unpackSimpleS K cur off = p at h
  rw [Nat.pow_two]
  change _ ≤ W K (cur.length + 1)
  match p, h with
  | (.error e, c), h => simp only [SimB] at h; simp only; omega
  | (.ok (f, m), c), h =>
    simp only [SimB] at h
    have := W_mono K (show m ≤ cur.length + 1 by omega)
    simp only; omega

/-- not counting the sub-calls' steps does not change what a call computes -/
theorem free_same_result_complex (uf : Bytes → Nat → R × Nat) (cur : Bytes) (off : Nat) :
    (unpackComplexS (free uf) cur off).1 = (unpackComplexS uf cur off).1 := by
  have h1 : Refines (free uf) (fun b o => (uf b o).1) := fun _ _ => rfl
  have h2 : Refines uf (fun b o => (uf b o).1) := fun _ _ => rfl
  rw [unpackComplexS_fst h1, unpackComplexS_fst h2]

theorem filter_steps_linear_per_call :
    (∀ (K : Nat) (cur : Bytes) (off : Nat),
      (unpackSimpleS K cur off).2 ≤ 32 * (cur.length + 1) + K * (cur.length + 1) ^ 2) ∧
    (∀ (uf : Bytes → Nat → R × Nat) (cur : Bytes) (off : Nat),
      (unpackComplexS (free uf) cur off).2 ≤ cur.length + 1) ∧
    (∀ (cx sm : Bytes → Nat → R × Nat) (cur : Bytes) (off : Nat),
      (filterBodyS (free cx) (free sm) cur off).2 ≤ cur.length + 1) :=
  ⟨unpackSimpleS_own, unpackComplexS_own, filterBodyS_own⟩

end Verif.Proofs.FilterSteps
