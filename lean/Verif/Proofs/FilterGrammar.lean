/-
C14: every sentence of the RFC 4515 grammar (`Rfc4515.Sent`) is parsed by the model of
`LDAPFilter.from_string` into exactly the tree the grammar denotes; that tree is a well-formed
message component, so a search request carrying it is read back by the strict RFC 4511 decoder.
-/
import Verif.Proofs.FilterGrammarItems
import Verif.Proofs.StrictDecode

namespace Verif.Proofs.FilterGrammar
open Verif Verif.Rfc4515 Verif.Proofs

/-! ### one step of `complexLoop`: a sub-filter and the spaces after it -/

theorem complexLoop_step (uf : Bytes → Nat → Except FErr (Filter × Nat)) (cur : Bytes) (off fuel : Nat)
    (pre t' rest2 : Bytes) (k : Nat) (fs0 : List Filter) (f : Filter)
    (hcur : cur = pre ++ (cLParen :: t') ++ (sp k ++ rest2)) (hrest2 : rest2 ≠ [])
    (hbang : cur.getD 0 0 = cBang → fs0 = [])
    (huf : uf ((cLParen :: t') ++ (sp k ++ rest2).dropLast) (off + pre.length) = .ok (f, (cLParen :: t').length)) :
    complexLoop uf cur off (fuel + k + 1) pre.length fs0 =
      complexLoop uf cur off fuel (pre.length + (cLParen :: t').length + k) (fs0 ++ [f]) := by
  have hne : sp k ++ rest2 ≠ [] := by simp [hrest2]
  have h1 := complexLoop_item uf off (fuel + k) pre t' (sp k ++ rest2) fs0 f hne
    (by rw [← hcur]; intro h; have := hbang h.1; subst this; simp at h) huf
  rw [← hcur] at h1
  rw [h1]
  apply complexLoop_spaces
  · intro j hj
    exact getD_sp cur (pre ++ (cLParen :: t')) rest2 k j _ hcur (by simp) hj
  · rw [hcur]; simp only [List.length_append, List.length_cons, length_sp]; omega

theorem complexLoop_close' (uf : Bytes → Nat → Except FErr (Filter × Nat)) (cur : Bytes) (off fuel : Nat)
    (pre tail : Bytes) (n : Nat) (fs : List Filter) (hcur : cur = pre ++ cRParen :: tail) (hn : n = pre.length) :
    complexLoop uf cur off (fuel + 1) n fs = .ok (fs, n) := by
  subst hcur hn; exact complexLoop_close uf off fuel pre tail fs

/-! ### a complex item from the result of its loop -/

def mkComplex (op : Nat) (f0 : Filter) (fs : List Filter) : Filter :=
  if op = cBang then .not f0 else if op = cAmp then .and (f0 :: fs) else .or (f0 :: fs)

theorem unpackFilter_complex (d a b op : Nat) (body tail : Bytes) (off : Nat) (f0 : Filter) (fs' : List Filter)
    (hop : op = cBang ∨ op = cAmp ∨ op = cPipe)
    (hloop : ∀ fuel, body.length + 1 + tail.length ≤ fuel →
      complexLoop (unpackFilter d) ((op :: sp b) ++ body ++ cRParen :: tail) (off + (1 + a)) fuel
        (op :: sp b).length [] = .ok (f0 :: fs', (op :: sp b).length + body.length)) :
    unpackFilter (d + 1) (cLParen :: (sp a ++ (op :: (sp b ++ body) ++ cRParen :: tail))) off =
      .ok (mkComplex op f0 fs', 1 + a + (op :: (sp b ++ body)).length + 1) := by
  have hops : op ≠ cSpace ∧ op ≠ cRParen ∧ op ≠ cLParen := by
    rcases hop with rfl | rfl | rfl <;> decide
  apply unpackFilter_paren_sp d a op (sp b ++ body) tail off _ hops.1 hops.2.1 hops.2.2
  rw [if_pos hop]
  generalize hcur : op :: (sp b ++ body) ++ cRParen :: tail = cur
  have hcur' : (op :: sp b) ++ body ++ cRParen :: tail = cur := by rw [← hcur]; simp
  have hlen : cur.length = (body.length + 1 + tail.length + 1) + b := by
    rw [← hcur]; simp only [List.length_cons, List.length_append, length_sp]; omega
  have hsp : ∀ j, j < b → cur.getD (1 + j) 0 = cSpace := fun j hj =>
    getD_sp cur [op] (body ++ cRParen :: tail) b j _ (by rw [← hcur]; simp) (by simp) hj
  have h0 : cur.getD 0 0 = op := by rw [← hcur]; rfl
  have hl := hloop (body.length + 1 + tail.length + 1) (by omega)
  rw [hcur'] at hl
  have hrd : (op :: sp b).length = 1 + b := by simp [length_sp]; omega
  rw [hrd] at hl
  unfold unpackComplex
  rw [hlen, complexLoop_spaces _ _ _ _ b _ 1 hsp (by omega), hl]
  simp only [h0, mkComplex]
  have e : 1 + b + body.length = (op :: (sp b ++ body)).length := by
    simp [length_sp]; omega
  rw [e]
  split
  · rfl
  · split <;> rfl

/-! ### the descent -/

theorem sent_head {f : Filter} {t : Bytes} (h : Sent f t) : ∃ t', t = cLParen :: t' := by
  cases h <;> exact ⟨_, by simp only [List.append_assoc, List.singleton_append]; rfl⟩

theorem depths_cons_le {f : Filter} {fs : List Filter} {d : Nat} (h : Filter.depths (f :: fs) ≤ d) :
    Filter.depth f ≤ d ∧ Filter.depths fs ≤ d := by
  simp only [Filter.depths] at h; omega

mutual
theorem sent_parses : ∀ {f : Filter} {t : Bytes}, Sent f t → Parses f t
  | _, _, .and fs body a b hne hl => by
    intro d tail off hd
    simp only [Filter.depth] at hd
    obtain ⟨d, rfl⟩ : ∃ d', d = d' + 1 := ⟨d - 1, by omega⟩
    obtain ⟨f0, fs', rfl⟩ : ∃ f0 fs', fs = f0 :: fs' := by
      cases fs with
      | nil => exact absurd rfl hne
      | cons f0 fs' => exact ⟨f0, fs', rfl⟩
    have hloop : ∀ fuel, body.length + 1 + tail.length ≤ fuel →
        complexLoop (unpackFilter d) ((cAmp :: sp b) ++ body ++ cRParen :: tail) (off + (1 + a)) fuel
          (cAmp :: sp b).length [] = .ok (f0 :: fs', (cAmp :: sp b).length + body.length) := fun fuel hf => by
      have := sentList_loop hl d (cAmp :: sp b) tail [] fuel (off + (1 + a)) (by omega)
        (fun h => absurd h (by simp [cAmp, cBang])) hf
      simpa using this
    have := unpackFilter_complex d a b cAmp body tail off f0 fs' (by simp) hloop
    have e1 : [40] ++ sp a ++ [38] ++ sp b ++ body ++ [41] ++ tail =
        cLParen :: (sp a ++ (cAmp :: (sp b ++ body) ++ cRParen :: tail)) := by
      simp [cLParen, cAmp, cRParen]
    have e2 : ([40] ++ sp a ++ [38] ++ sp b ++ body ++ [41]).length = 1 + a + (cAmp :: (sp b ++ body)).length + 1 := by
      simp [length_sp]; omega
    rw [e1, e2, this]; rfl
  | _, _, .or fs body a b hne hl => by
    intro d tail off hd
    simp only [Filter.depth] at hd
    obtain ⟨d, rfl⟩ : ∃ d', d = d' + 1 := ⟨d - 1, by omega⟩
    obtain ⟨f0, fs', rfl⟩ : ∃ f0 fs', fs = f0 :: fs' := by
      cases fs with
      | nil => exact absurd rfl hne
      | cons f0 fs' => exact ⟨f0, fs', rfl⟩
    have hloop : ∀ fuel, body.length + 1 + tail.length ≤ fuel →
        complexLoop (unpackFilter d) ((cPipe :: sp b) ++ body ++ cRParen :: tail) (off + (1 + a)) fuel
          (cPipe :: sp b).length [] = .ok (f0 :: fs', (cPipe :: sp b).length + body.length) := fun fuel hf => by
      have := sentList_loop hl d (cPipe :: sp b) tail [] fuel (off + (1 + a)) (by omega)
        (fun h => absurd h (by simp [cPipe, cBang])) hf
      simpa using this
    have := unpackFilter_complex d a b cPipe body tail off f0 fs' (by simp) hloop
    have e1 : [40] ++ sp a ++ [124] ++ sp b ++ body ++ [41] ++ tail =
        cLParen :: (sp a ++ (cPipe :: (sp b ++ body) ++ cRParen :: tail)) := by
      simp [cLParen, cPipe, cRParen]
    have e2 : ([40] ++ sp a ++ [124] ++ sp b ++ body ++ [41]).length = 1 + a + (cPipe :: (sp b ++ body)).length + 1 := by
      simp [length_sp]; omega
    rw [e1, e2, this]; rfl
  | _, _, .not f t a b c hft => by
    intro d tail off hd
    simp only [Filter.depth] at hd
    obtain ⟨d, rfl⟩ : ∃ d', d = d' + 1 := ⟨d - 1, by omega⟩
    obtain ⟨t', rfl⟩ := sent_head hft
    have ih := sent_parses hft
    have hloop : ∀ fuel, ((cLParen :: t') ++ sp c).length + 1 + tail.length ≤ fuel →
        complexLoop (unpackFilter d) ((cBang :: sp b) ++ ((cLParen :: t') ++ sp c) ++ cRParen :: tail) (off + (1 + a)) fuel
          (cBang :: sp b).length [] = .ok ([f], (cBang :: sp b).length + ((cLParen :: t') ++ sp c).length) := fun fuel hf => by
      simp only [List.length_append, List.length_cons, length_sp] at hf
      obtain ⟨fuel, rfl⟩ : ∃ k, fuel = k + 1 + c + 1 := ⟨fuel - 1 - c - 1, by omega⟩
      generalize hcur : (cBang :: sp b) ++ ((cLParen :: t') ++ sp c) ++ cRParen :: tail = cur
      rw [complexLoop_step (unpackFilter d) cur _ (fuel + 1) (cBang :: sp b) t' (cRParen :: tail) c [] f
        (by rw [← hcur]; simp) (by simp) (fun _ => rfl) (ih d _ _ (by omega))]
      rw [complexLoop_close' (unpackFilter d) cur _ fuel ((cBang :: sp b) ++ ((cLParen :: t') ++ sp c)) tail _ _
        (by rw [← hcur]) (by simp [length_sp] <;> omega)]
      simp [length_sp] <;> omega
    have := unpackFilter_complex d a b cBang ((cLParen :: t') ++ sp c) tail off f [] (by simp) hloop
    have e1 : [40] ++ sp a ++ [33] ++ sp b ++ (cLParen :: t') ++ sp c ++ [41] ++ tail =
        cLParen :: (sp a ++ (cBang :: (sp b ++ ((cLParen :: t') ++ sp c)) ++ cRParen :: tail)) := by
      simp [cLParen, cBang, cRParen]
    have e2 : ([40] ++ sp a ++ [33] ++ sp b ++ (cLParen :: t') ++ sp c ++ [41]).length =
        1 + a + (cBang :: (sp b ++ ((cLParen :: t') ++ sp c))).length + 1 := by
      simp [length_sp]; omega
    rw [e1, e2, this]; rfl
  | _, _, .eq a v t k ha hv => parses_eq a v t k ha hv
  | _, _, .approx a v t k ha hv => parses_approx a v t k ha hv
  | _, _, .ge a v t k ha hv => parses_ge a v t k ha hv
  | _, _, .le a v t k ha hv => parses_le a v t k ha hv
  | _, _, .present a k ha => parses_present a k ha
  | _, _, .substr a i any f ti tany tf k ha hi hany hf hsome => parses_substr a i any f ti tany tf k ha hi hany hf hsome
  | _, _, .extAttr a dn dnw rule v t k ha hdn hr hv => parses_extAttr a dn dnw rule v t k ha hdn hr hv
  | _, _, .extRule dn dnw r v t k hdn hr hnd hv => parses_extRule dn dnw r v t k hdn hr hnd hv
theorem sentList_loop : ∀ {fs : List Filter} {body : Bytes}, SentList fs body →
    ∀ (d : Nat) (pre tail : Bytes) (fs0 : List Filter) (fuel off : Nat), Filter.depths fs ≤ d →
    ((pre ++ body ++ cRParen :: tail).getD 0 0 = cBang → fs0.length + fs.length ≤ 1) →
    body.length + 1 + tail.length ≤ fuel →
    complexLoop (unpackFilter d) (pre ++ body ++ cRParen :: tail) off fuel pre.length fs0 =
      .ok (fs0 ++ fs, pre.length + body.length)
  | _, _, .nil => by
    intro d pre tail fs0 fuel off _ _ hf
    obtain ⟨fuel, rfl⟩ : ∃ k, fuel = k + 1 := ⟨fuel - 1, by omega⟩
    rw [List.append_nil, complexLoop_close]
    simp
  | _, _, .cons f t k fs ts hft hl => by
    intro d pre tail fs0 fuel off hd hb hf
    obtain ⟨hd1, hd2⟩ := depths_cons_le hd
    obtain ⟨t', rfl⟩ := sent_head hft
    have ih1 := sent_parses hft
    simp only [List.length_append, List.length_cons, length_sp] at hf
    obtain ⟨fuel, rfl⟩ : ∃ n, fuel = n + k + 1 := ⟨fuel - k - 1, by omega⟩
    have ih2 := sentList_loop hl d (pre ++ (cLParen :: t') ++ sp k) tail (fs0 ++ [f]) fuel off hd2
    have e3 : (pre ++ (cLParen :: t') ++ sp k) ++ ts ++ cRParen :: tail =
        pre ++ ((cLParen :: t') ++ sp k ++ ts) ++ cRParen :: tail := by simp
    rw [e3] at ih2
    generalize hcur : pre ++ ((cLParen :: t') ++ sp k ++ ts) ++ cRParen :: tail = cur at hb ih2 ⊢
    rw [complexLoop_step (unpackFilter d) cur off fuel pre t' (ts ++ cRParen :: tail) k fs0 f
      (by rw [← hcur]; simp) (by simp)
      (fun h => by have := hb h; simp only [List.length_cons] at this; exact List.length_eq_zero_iff.1 (by omega))
      (ih1 d _ _ hd1)]
    have hrd : (pre ++ (cLParen :: t') ++ sp k).length = pre.length + (cLParen :: t').length + k := by
      simp [length_sp] <;> omega
    rw [hrd] at ih2
    rw [ih2 (fun h => by have := hb h; simp only [List.length_cons, List.length_append, List.length_nil] at this ⊢; omega)
      (by omega)]
    simp [length_sp] <;> omega
end

/-! ### well-formedness of the denoted tree -/

mutual
theorem sent_wf' : ∀ {f : Filter} {t : Bytes}, Sent f t → Filter.WF {} f
  | _, _, .and fs body a b hne hl => by rw [Filter.WF]; exact sentList_wf' hl
  | _, _, .or fs body a b hne hl => by rw [Filter.WF]; exact sentList_wf' hl
  | _, _, .not f t a b c hft => by rw [Filter.WF]; exact sent_wf' hft
  | _, _, .eq a v t k ha hv => by rw [Filter.WF]; exact isText_of_validAttr (validAttr_attrDesc ha)
  | _, _, .approx a v t k ha hv => by rw [Filter.WF]; exact isText_of_validAttr (validAttr_attrDesc ha)
  | _, _, .ge a v t k ha hv => by rw [Filter.WF]; exact isText_of_validAttr (validAttr_attrDesc ha)
  | _, _, .le a v t k ha hv => by rw [Filter.WF]; exact isText_of_validAttr (validAttr_attrDesc ha)
  | _, _, .present a k ha => by rw [Filter.WF]; exact isText_of_validAttr (validAttr_attrDesc ha)
  | _, _, .substr a i any f ti tany tf k ha hi hany hf hsome => by
    rw [Filter.WF]; exact isText_of_validAttr (validAttr_attrDesc ha)
  | _, _, .extAttr a dn dnw rule v t k ha hdn hr hv => by
    rw [Filter.WF]
    refine ⟨?_, isText_of_validAttr (validAttr_attrDesc ha)⟩
    cases rule with
    | none => trivial
    | some r => exact isText_of_validAttr (validAttr_oid hr.1)
  | _, _, .extRule dn dnw r v t k hdn hr hnd hv => by
    rw [Filter.WF]
    exact ⟨isText_of_validAttr (validAttr_oid hr), trivial⟩
theorem sentList_wf' : ∀ {fs : List Filter} {body : Bytes}, SentList fs body → Filter.WFs {} fs
  | _, _, .nil => by rw [Filter.WFs]; trivial
  | _, _, .cons f t k fs ts hft hl => by rw [Filter.WFs]; exact ⟨sent_wf' hft, sentList_wf' hl⟩
end

end Verif.Proofs.FilterGrammar

/-! ### the theorems of C14 -/

namespace Verif.Proofs
open Verif Verif.Rfc4515

theorem parse_sentence (f : Filter) (t : Bytes) (s : List Nat) (depth : Nat) (h : Sent f t)
    (hs : utf8Encode (pyStrip s) = t) (hd : Filter.depth f < depth) : parseFilterText depth s = .ok f := by
  have hmain := FilterGrammar.sent_parses h depth [] 0 (by omega)
  rw [List.append_nil] at hmain
  unfold parseFilterText
  simp only [hs, hmain]
  simp

theorem sent_wf (f : Filter) (t : Bytes) (h : Sent f t) : Filter.WF {} f := FilterGrammar.sent_wf' h

theorem search_request_strict (f : Filter) (t : Bytes) (h : Sent f t) (id : Int) (base : Bytes)
    (hb : IsText base) (attrs : List Bytes) (ha : ∀ a ∈ attrs, IsText a)
    (hs : (encMsg ⟨id, .searchReq base 2 0 0 0 false f attrs, []⟩).length < 256 ^ 126) :
    Rfc.decode (encMsg ⟨id, .searchReq base 2 0 0 0 false f attrs, []⟩)
      = some ⟨id, .searchReq base 2 0 0 0 false f attrs, []⟩ := by
  have he : encMsg ⟨id, .searchReq base 2 0 0 0 false f attrs, []⟩ =
      encMsgRfc' ⟨id, .searchReq base 2 0 0 0 false f attrs, []⟩ := by
    simp [encMsg, encMsgRfc', Op.isUnbind]
  have hwf : Msg.noCustom ⟨id, .searchReq base 2 0 0 0 false f attrs, []⟩ :=
    ⟨⟨hb, by decide, by decide, sent_wf f t h, ha⟩, fun c hc => by simp at hc⟩
  rw [he] at hs ⊢
  rw [rfcDecode_encMsgRfc' _ hwf hs]
  rfl

theorem sample_sentence :
    Sent (.and [.eq [99, 110] [97, 42, 98], .not (.ext (some [50, 46, 53, 46, 49, 51, 46, 50]) (some [111]) [120] true)])
    ([40] ++ sp 1 ++ [38] ++ sp 1 ++
      (([40] ++ sp 0 ++ [99, 110] ++ [61] ++ [97, 92, 50, 65, 98] ++ [41]) ++ sp 1 ++
       (([40] ++ sp 0 ++ [33] ++ sp 0 ++
          ([40] ++ sp 0 ++ [111] ++ (if true then [58] ++ [68, 78] else []) ++
            (match (some [50, 46, 53, 46, 49, 51, 46, 50] : Option Bytes) with | none => [] | some r => [58] ++ r) ++ [58, 61] ++ [120] ++ [41])
          ++ sp 0 ++ [41]) ++ sp 1 ++ [])) ++ [41]) := by
  have hcn : IsAttrDesc [99, 110] :=
    IsAttrDesc.mk [99, 110] [] (IsOid.descr _ (show _ ∧ _ from ⟨by decide, by decide⟩)) (by simp)
  have ho : IsAttrDesc [111] := IsAttrDesc.mk [111] [] (IsOid.descr _ (show _ ∧ _ from ⟨by decide, by decide⟩)) (by simp)
  have hoid : IsOid [50, 46, 53, 46, 49, 51, 46, 50] :=
    IsOid.numeric [[50], [53], [49, 51], [50]] ⟨by decide, by
      intro a ha
      simp only [List.mem_cons, List.not_mem_nil, or_false] at ha
      rcases ha with rfl | rfl | rfl | rfl <;> simp [IsNumber]⟩
  have hv1 : ValEnc [97, 42, 98] [97, 92, 50, 65, 98] :=
    .raw 97 _ _ (by decide) (by decide) (by decide) (by decide) (by decide) (by decide)
      (.esc 50 65 _ _ (by decide) (by decide)
        (.raw 98 _ _ (by decide) (by decide) (by decide) (by decide) (by decide) (by decide) .nil))
  have hv2 : ValEnc [120] [120] :=
    .raw 120 _ _ (by decide) (by decide) (by decide) (by decide) (by decide) (by decide) .nil
  exact Sent.and _ _ 1 1 (by simp)
    (SentList.cons _ _ 1 _ _ (Sent.eq [99, 110] _ _ 0 hcn hv1)
      (SentList.cons _ _ 1 _ _
        (Sent.not _ _ 0 0 0
          (Sent.extAttr [111] true [68, 78] (some [50, 46, 53, 46, 49, 51, 46, 50]) [120] [120] 0 ho
            (fun _ => Or.inr (Or.inl rfl)) ⟨hoid, fun h => absurd h (by decide)⟩ hv2))
        SentList.nil))

end Verif.Proofs
