/-
C13 (addition) — the text form of a filter is a sentence of the RFC 4515 grammar denoting it
(`Rfc4515.Sent`), exactly when the tree is in the text domain, its attribute descriptions /
matching rules are RFC 4512 ones, and every extensible match names an attribute or a rule.
-/
import Verif.Spec.C13More
import Verif.Spec.FilterWF
import Verif.Proofs.FilterGrammarBase
import Verif.Proofs.FilterTotalSimple

namespace Verif.Proofs.C13More
open Verif Verif.Rfc4515 Verif.Proofs Verif.Proofs.FilterGrammar

/-! ### values -/

/-- what `_serialize_filter_value` writes is an RFC 4515 `valueencoding` of the value -/
theorem valEnc_escapeValue (v : Bytes) (hb : IsBytes v) : ValEnc v (escapeValue v) := by
  induction v with
  | nil => exact ValEnc.nil
  | cons b v ih =>
    have hb' : IsBytes v := fun x hx => hb x (List.mem_cons_of_mem _ hx)
    have hlt : b < 256 := hb b (List.mem_cons_self)
    rw [escapeValue_cons, escByte]
    split
    · have h1 := hexDigit_facts (b / 16) (by omega)
      have h2 := hexDigit_facts (b % 16) (by omega)
      have := ValEnc.esc (hexDigitLower (b / 16)) (hexDigitLower (b % 16)) v (escapeValue v) h1.1 h2.1 (ih hb')
      rw [h1.2.1, h2.2.1, show b / 16 * 16 + b % 16 = b by omega] at this
      exact this
    · rename_i hc
      have hs := facts_unescaped_safe b hlt (by simpa using hc)
      have hf := safe_facts hs
      exact ValEnc.raw b v (escapeValue v) hlt (by omega) hf.2.2.1 hf.2.2.2.1 hf.2.2.2.2.1 hf.2.2.2.2.2 (ih hb')

theorem valEnc_bytes {v t : Bytes} (h : ValEnc v t) : IsBytes v := by
  induction h with
  | nil => intro x hx; cases hx
  | raw b v t hlt _ _ _ _ _ _ ih =>
    intro x hx
    rcases List.mem_cons.1 hx with rfl | hx
    · exact hlt
    · exact ih x hx
  | esc h1 h2 v t hh1 hh2 _ ih =>
    intro x hx
    rcases List.mem_cons.1 hx with rfl | hx
    · have := FilterTotal.hexVal_lt hh1
      have := FilterTotal.hexVal_lt hh2
      omega
    · exact ih x hx

/-! ### substrings -/

/-- `*v1*v2…*` -/
def anyText : List Bytes → Bytes
  | [] => [42]
  | v :: vs => [42] ++ escapeValue v ++ anyText vs

theorem anyEnc_anyText (any : List Bytes) (h : ∀ x ∈ any, x ≠ [] ∧ IsBytes x) : AnyEnc any (anyText any) := by
  induction any with
  | nil => exact AnyEnc.nil
  | cons v vs ih =>
    have hv := h v (by simp)
    exact AnyEnc.cons v (escapeValue v) vs (anyText vs) hv.1 (valEnc_escapeValue v hv.2)
      (ih (fun x hx => h x (List.mem_cons_of_mem _ hx)))

theorem joinWith_any (x : Bytes) (any : List Bytes) (tf : Bytes) :
    joinWith [42] (x :: (any.map escapeValue ++ [tf])) = x ++ anyText any ++ tf := by
  induction any generalizing x with
  | nil => simp [joinWith, anyText]
  | cons v vs ih =>
    rw [List.map_cons, List.cons_append, joinWith_cons_cons, ih (escapeValue v)]
    simp [anyText]

theorem optEnc_getD (o : Option Bytes) (h : OptComp o) :
    OptEnc o (escapeValue (o.getD [])) := by
  cases o with
  | none => exact OptEnc.none
  | some x => exact OptEnc.some x (escapeValue x) h.1 (valEnc_escapeValue x h.2)

theorem optEnc_comp {o : Option Bytes} {t : Bytes} (h : OptEnc o t) : OptComp o := by
  cases h with
  | none => trivial
  | some v t hne hv => exact ⟨hne, valEnc_bytes hv⟩

theorem anyEnc_comp {vs : List Bytes} {t : Bytes} (h : AnyEnc vs t) : ∀ x ∈ vs, x ≠ [] ∧ IsBytes x := by
  induction h with
  | nil => intro x hx; cases hx
  | cons v t vs ts hne hv _ ih =>
    intro x hx
    rcases List.mem_cons.1 hx with rfl | hx
    · exact ⟨hne, valEnc_bytes hv⟩
    · exact ih x hx

/-! ### the text form is a sentence -/

theorem sent_simple_eq (a v : Bytes) (ha : IsAttrDesc a) (hb : IsBytes v) : Sent (.eq a v) (toText (.eq a v)) := by
  have := Sent.eq a v (escapeValue v) 0 ha (valEnc_escapeValue v hb)
  simpa [toText, sp, cLParen, cEq, cRParen] using this

theorem sent_simple_ge (a v : Bytes) (ha : IsAttrDesc a) (hb : IsBytes v) : Sent (.ge a v) (toText (.ge a v)) := by
  have := Sent.ge a v (escapeValue v) 0 ha (valEnc_escapeValue v hb)
  simpa [toText, sp, cLParen, cEq, cGt, cRParen] using this

theorem sent_simple_le (a v : Bytes) (ha : IsAttrDesc a) (hb : IsBytes v) : Sent (.le a v) (toText (.le a v)) := by
  have := Sent.le a v (escapeValue v) 0 ha (valEnc_escapeValue v hb)
  simpa [toText, sp, cLParen, cEq, cLt, cRParen] using this

theorem sent_simple_approx (a v : Bytes) (ha : IsAttrDesc a) (hb : IsBytes v) :
    Sent (.approx a v) (toText (.approx a v)) := by
  have := Sent.approx a v (escapeValue v) 0 ha (valEnc_escapeValue v hb)
  simpa [toText, sp, cLParen, cEq, cTilde, cRParen] using this

theorem sent_simple_present (a : Bytes) (ha : IsAttrDesc a) : Sent (.present a) (toText (.present a)) := by
  have := Sent.present a 0 ha
  simpa [toText, sp, cLParen, cEq, cStar, cRParen] using this

theorem sent_simple_substr (a : Bytes) (i : Option Bytes) (any : List Bytes) (f : Option Bytes)
    (ha : IsAttrDesc a) (hw : (Filter.substr a i any f).WFText) :
    Sent (.substr a i any f) (toText (.substr a i any f)) := by
  obtain ⟨_, hi, hany, hf, hsome⟩ := hw
  have := Sent.substr a i any f _ _ _ 0 ha (optEnc_getD i hi) (anyEnc_anyText any hany) (optEnc_getD f hf) hsome
  have hj := joinWith_any (escapeValue (i.getD [])) any (escapeValue (f.getD []))
  rw [← List.cons_append] at hj
  simp only [toText, cStar, List.singleton_append]
  rw [hj]
  simpa [sp, cLParen, cEq, cRParen] using this

theorem sent_simple_ext (rule attr : Option Bytes) (v : Bytes) (dn : Bool)
    (hw : (Filter.ext rule attr v dn).WFText) (ha : (Filter.ext rule attr v dn).AttrsRfc)
    (he : (Filter.ext rule attr v dn).ExtRfc) :
    Sent (.ext rule attr v dn) (toText (.ext rule attr v dn)) := by
  obtain ⟨_, hwr, _, hb⟩ := hw
  obtain ⟨haa, har⟩ := ha
  have hv := valEnc_escapeValue v hb
  have hdn : dn = true → IsDnWord [100, 110] := fun _ => Or.inl rfl
  cases attr with
  | some a =>
    cases rule with
    | none =>
      have := Sent.extAttr a dn [100, 110] none v (escapeValue v) 0 haa hdn trivial hv
      cases dn <;>
        simpa [toText, joinWith, sp, cLParen, cEq, cColon, cRParen] using this
    | some r =>
      have hnd : dn = false → ¬IsDnWord r := by
        intro hd hw'
        have := hwr.2 hd
        rw [isDnWord, (isDnWord_iff r).1 hw'] at this
        simp at this
      have := Sent.extAttr a dn [100, 110] (some r) v (escapeValue v) 0 haa hdn ⟨har, hnd⟩ hv
      cases dn <;>
        simpa [toText, joinWith, sp, cLParen, cEq, cColon, cRParen] using this
  | none =>
    cases rule with
    | none => simp [Filter.ExtRfc] at he
    | some r =>
      have hnd : dn = false → ¬IsDnWord r := by
        intro hd hw'
        have := hwr.2 hd
        rw [isDnWord, (isDnWord_iff r).1 hw'] at this
        simp at this
      have := Sent.extRule dn [100, 110] r v (escapeValue v) 0 hdn har hnd hv
      cases dn <;>
        simpa [toText, joinWith, sp, cLParen, cEq, cColon, cRParen] using this

mutual
theorem toText_sent : ∀ (f : Filter), f.WFText → f.AttrsRfc → f.ExtRfc → Sent f (toText f)
  | .and fs, hw, ha, he => by
    simp only [Filter.WFText] at hw
    simp only [Filter.AttrsRfc] at ha
    simp only [Filter.ExtRfc] at he
    have := Sent.and fs (toTexts fs) 0 0 hw.1 (toTexts_sent fs hw.2 ha he)
    simpa [toText, sp, cLParen, cAmp, cRParen] using this
  | .or fs, hw, ha, he => by
    simp only [Filter.WFText] at hw
    simp only [Filter.AttrsRfc] at ha
    simp only [Filter.ExtRfc] at he
    have := Sent.or fs (toTexts fs) 0 0 hw.1 (toTexts_sent fs hw.2 ha he)
    simpa [toText, sp, cLParen, cPipe, cRParen] using this
  | .not f, hw, ha, he => by
    simp only [Filter.WFText] at hw
    simp only [Filter.AttrsRfc] at ha
    simp only [Filter.ExtRfc] at he
    have := Sent.not f (toText f) 0 0 0 (toText_sent f hw ha he)
    simpa [toText, sp, cLParen, cBang, cRParen] using this
  | .eq a v, hw, ha, _ => sent_simple_eq a v ha hw.2
  | .ge a v, hw, ha, _ => sent_simple_ge a v ha hw.2
  | .le a v, hw, ha, _ => sent_simple_le a v ha hw.2
  | .approx a v, hw, ha, _ => sent_simple_approx a v ha hw.2
  | .present a, _, ha, _ => sent_simple_present a ha
  | .substr a i any f, hw, ha, _ => sent_simple_substr a i any f ha hw
  | .ext r a v dn, hw, ha, he => sent_simple_ext r a v dn hw ha he
  | .custom _, hw, _, _ => absurd hw id
theorem toTexts_sent : ∀ (fs : List Filter), Filter.WFTexts fs → Filter.AttrsRfcs fs → Filter.ExtRfcs fs →
    SentList fs (toTexts fs)
  | [], _, _, _ => by rw [toTexts]; exact SentList.nil
  | f :: fs, hw, ha, he => by
    simp only [Filter.WFTexts] at hw
    simp only [Filter.AttrsRfcs] at ha
    simp only [Filter.ExtRfcs] at he
    have := SentList.cons f (toText f) 0 fs (toTexts fs) (toText_sent f hw.1 ha.1 he.1)
      (toTexts_sent fs hw.2 ha.2 he.2)
    simpa [toTexts, sp] using this
end

/-! ### conversely, whatever a sentence denotes satisfies the three conditions -/

theorem dnword_wf {r : Bytes} {dn : Bool} (h : dn = false → ¬IsDnWord r) : dn = false → isDnWord r = false := by
  intro hd
  have := h hd
  rw [isDnWord_iff] at this
  simp only [isDnWord]
  simpa using this

mutual
theorem sent_domain : ∀ {f : Filter} {t : Bytes}, Sent f t → f.WFText ∧ f.AttrsRfc ∧ f.ExtRfc
  | _, _, .and fs body a b hne hl => by
    have := sentList_domain hl
    simp only [Filter.WFText, Filter.AttrsRfc, Filter.ExtRfc]
    exact ⟨⟨hne, this.1⟩, this.2.1, this.2.2⟩
  | _, _, .or fs body a b hne hl => by
    have := sentList_domain hl
    simp only [Filter.WFText, Filter.AttrsRfc, Filter.ExtRfc]
    exact ⟨⟨hne, this.1⟩, this.2.1, this.2.2⟩
  | _, _, .not f t a b c hft => by
    have := sent_domain hft
    simp only [Filter.WFText, Filter.AttrsRfc, Filter.ExtRfc]
    exact this
  | _, _, .eq a v t k ha hv => by
    simp only [Filter.WFText, Filter.AttrsRfc, Filter.ExtRfc]
    exact ⟨⟨validAttr_attrDesc ha, valEnc_bytes hv⟩, ha, trivial⟩
  | _, _, .approx a v t k ha hv => by
    simp only [Filter.WFText, Filter.AttrsRfc, Filter.ExtRfc]
    exact ⟨⟨validAttr_attrDesc ha, valEnc_bytes hv⟩, ha, trivial⟩
  | _, _, .ge a v t k ha hv => by
    simp only [Filter.WFText, Filter.AttrsRfc, Filter.ExtRfc]
    exact ⟨⟨validAttr_attrDesc ha, valEnc_bytes hv⟩, ha, trivial⟩
  | _, _, .le a v t k ha hv => by
    simp only [Filter.WFText, Filter.AttrsRfc, Filter.ExtRfc]
    exact ⟨⟨validAttr_attrDesc ha, valEnc_bytes hv⟩, ha, trivial⟩
  | _, _, .present a k ha => by
    simp only [Filter.WFText, Filter.AttrsRfc, Filter.ExtRfc]
    exact ⟨validAttr_attrDesc ha, ha, trivial⟩
  | _, _, .substr a i any f ti tany tf k ha hi hany hf hsome => by
    simp only [Filter.WFText, Filter.AttrsRfc, Filter.ExtRfc]
    exact ⟨⟨validAttr_attrDesc ha, optEnc_comp hi, anyEnc_comp hany, optEnc_comp hf, hsome⟩, ha, trivial⟩
  | _, _, .extAttr a dn dnw rule v t k ha hdn hr hv => by
    simp only [Filter.WFText, Filter.AttrsRfc, Filter.ExtRfc]
    refine ⟨⟨validAttr_attrDesc ha, ?_, Or.inl rfl, valEnc_bytes hv⟩, ⟨ha, ?_⟩, Or.inl rfl⟩
    · cases rule with
      | none => trivial
      | some r => exact ⟨validAttr_oid hr.1, dnword_wf hr.2⟩
    · cases rule with
      | none => trivial
      | some r => exact hr.1
  | _, _, .extRule dn dnw r v t k hdn hr hnd hv => by
    simp only [Filter.WFText, Filter.AttrsRfc, Filter.ExtRfc]
    exact ⟨⟨trivial, ⟨validAttr_oid hr, dnword_wf hnd⟩, Or.inr (Or.inl rfl), valEnc_bytes hv⟩, ⟨trivial, hr⟩,
      Or.inr rfl⟩
theorem sentList_domain : ∀ {fs : List Filter} {body : Bytes}, SentList fs body →
    Filter.WFTexts fs ∧ Filter.AttrsRfcs fs ∧ Filter.ExtRfcs fs
  | _, _, .nil => by simp only [Filter.WFTexts, Filter.AttrsRfcs, Filter.ExtRfcs]; exact ⟨trivial, trivial, trivial⟩
  | _, _, .cons f t k fs ts hft hl => by
    have h1 := sent_domain hft
    have h2 := sentList_domain hl
    simp only [Filter.WFTexts, Filter.AttrsRfcs, Filter.ExtRfcs]
    exact ⟨⟨h1.1, h2.1⟩, ⟨h1.2.1, h2.2.1⟩, ⟨h1.2.2, h2.2.2⟩⟩
end

theorem toText_sent_iff (f : Filter) : Sent f (toText f) ↔ f.WFText ∧ f.AttrsRfc ∧ f.ExtRfc :=
  ⟨sent_domain, fun h => toText_sent f h.1 h.2.1 h.2.2⟩

/-- the witness against the statement without `ExtRfc`: `(:dn:=v)` is in the text domain
    (the parser accepts it and the tree prints as it) but no sentence denotes the tree -/
theorem ext_dn_only_not_sentence (v t : Bytes) : ¬ Sent (.ext none none v true) t := by
  intro h
  have := (sent_domain h).2.2
  simp [Filter.ExtRfc] at this

end Verif.Proofs.C13More
