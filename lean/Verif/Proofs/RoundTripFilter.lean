/-
C01 round trip, part 2: filters.
-/
import Verif.Proofs.RoundTripBase

namespace Verif.Proofs

open Verif

set_option linter.unusedSimpArgs false

/-! ### facts about the generated constants (the only place the filter ids' values matter) -/

/-- the ten filter choices and the custom filter choice are pairwise distinct -/
theorem filterIds_distinct :
    [Facts.filterAnd, Facts.filterOr, Facts.filterNot, Facts.filterEq, Facts.filterSubstr,
      Facts.filterGe, Facts.filterLe, Facts.filterPresent, Facts.filterApprox, Facts.filterExt,
      Facts.customFilterId].Pairwise (· ≠ ·) := by decide

/-! ### substrings loop -/

theorem decSubstrLoop_nil (fuel : Nat) (acc : SubstrAcc) : decSubstrLoop fuel [] acc = .ok acc := by
  cases fuel <;> simp [decSubstrLoop]

theorem decSubstrLoop_step (fuel : Nat) (n : Nat) (v rest : Bytes) (acc : SubstrAcc) :
    decSubstrLoop (fuel + 1) (packTLV (tagCtx n) v ++ rest) acc =
      if n = 0 then
        if acc.initial.isSome then .error .valueError
        else decSubstrLoop fuel rest { acc with initial := some v }
      else if n = 1 then decSubstrLoop fuel rest { acc with any := acc.any ++ [v] }
      else if n = 2 then
        if acc.final.isSome then .error .valueError
        else decSubstrLoop fuel rest { acc with final := some v }
      else decSubstrLoop fuel rest acc := by
  simp only [decSubstrLoop, packTLV_append_isEmpty, readHeader_packTLV _ _ _ (readable_ctx n false),
    readOctets_none _ _ _ (readable_ctx n false), skipValue_packTLV _ _ _ (readable_ctx n false),
    bind, Except.bind]
  simp [tagCtx]

/-- the `final` tail -/
theorem decSubstr_final (f : Option Bytes) (fuel : Nat) (acc : SubstrAcc)
    (ha : acc.final = none) (hf : (optBytes (tagCtx 2) f).length ≤ fuel) :
    decSubstrLoop fuel (optBytes (tagCtx 2) f) acc = .ok { acc with final := f } := by
  cases f with
  | none =>
    obtain ⟨i, a, fin⟩ := acc
    simp only at ha; subst ha
    simp [optBytes_none, optBytes_some, decSubstrLoop_nil]
  | some v =>
    simp only [optBytes_none, optBytes_some, packOctets_eq] at hf ⊢
    have := packTLV_length (tagCtx 2) v
    cases fuel with
    | zero => omega
    | succ fuel =>
      rw [← List.append_nil (packTLV (tagCtx 2) v), decSubstrLoop_step]
      simp [ha, decSubstrLoop_nil]

theorem decSubstr_any (f : Option Bytes) (any : List Bytes) : ∀ (fuel : Nat) (acc : SubstrAcc),
    acc.final = none →
    ((any.map (packOctets · (tagCtx 1))).flatten ++ optBytes (tagCtx 2) f).length ≤ fuel →
    decSubstrLoop fuel ((any.map (packOctets · (tagCtx 1))).flatten ++ optBytes (tagCtx 2) f) acc
      = .ok { acc with any := acc.any ++ any, final := f } := by
  induction any with
  | nil =>
    intro fuel acc ha hf
    simp only [List.map_nil, List.flatten_nil, List.nil_append, List.append_nil] at hf ⊢
    exact decSubstr_final f fuel acc ha hf
  | cons v any ih =>
    intro fuel acc ha hf
    simp only [List.map_cons, List.flatten_cons, List.append_assoc, packOctets_eq] at hf ⊢
    have := packTLV_length (tagCtx 1) v
    rw [List.length_append] at hf
    cases fuel with
    | zero => omega
    | succ fuel =>
      rw [decSubstrLoop_step]
      simp only [Nat.succ_ne_zero, ↓reduceIte]
      have := ih fuel { acc with any := acc.any ++ [v] } ha (by simp only [packOctets_eq]; omega)
      simp only [packOctets_eq] at this
      rw [this]
      simp

theorem decSubstr_enc (i : Option Bytes) (any : List Bytes) (f : Option Bytes) (fuel : Nat)
    (hf : (optBytes (tagCtx 0) i ++ (any.map (packOctets · (tagCtx 1))).flatten
      ++ optBytes (tagCtx 2) f).length ≤ fuel) :
    decSubstrLoop fuel (optBytes (tagCtx 0) i ++ (any.map (packOctets · (tagCtx 1))).flatten
      ++ optBytes (tagCtx 2) f) {} = .ok ⟨i, any, f⟩ := by
  cases i with
  | none =>
    simp only [optBytes_none, optBytes_some, List.nil_append] at hf ⊢
    rw [decSubstr_any f any fuel {} rfl hf]
    simp
  | some v =>
    simp only [optBytes_none, optBytes_some, List.append_assoc, packOctets_eq] at hf ⊢
    have := packTLV_length (tagCtx 0) v
    rw [List.length_append] at hf
    cases fuel with
    | zero => omega
    | succ fuel =>
      rw [decSubstrLoop_step]
      have := decSubstr_any f any fuel { initial := some v } rfl (by simp only [packOctets_eq]; omega)
      simp only [packOctets_eq] at this
      simp [this]

/-! ### extensible-match loop -/

theorem decExtLoop_nil (fuel : Nat) (acc : ExtAcc) : decExtLoop fuel [] acc = .ok acc := by
  cases fuel <;> simp [decExtLoop]

theorem decExtLoop_step1 (fuel : Nat) (v rest : Bytes) (acc : ExtAcc) (hv : IsText v) :
    decExtLoop (fuel + 1) (packTLV (tagCtx 1) v ++ rest) acc
      = decExtLoop fuel rest { acc with rule := some v } := by
  simp only [decExtLoop, packTLV_append_isEmpty, readHeader_packTLV _ _ _ (readable_ctx 1 false),
    readText_none _ _ _ (readable_ctx 1 false) hv, bind, Except.bind]
  simp

theorem decExtLoop_step2 (fuel : Nat) (v rest : Bytes) (acc : ExtAcc) (hv : IsText v) :
    decExtLoop (fuel + 1) (packTLV (tagCtx 2) v ++ rest) acc
      = decExtLoop fuel rest { acc with attr := some v } := by
  simp only [decExtLoop, packTLV_append_isEmpty, readHeader_packTLV _ _ _ (readable_ctx 2 false),
    readText_none _ _ _ (readable_ctx 2 false) hv, bind, Except.bind]
  simp

theorem decExtLoop_step3 (fuel : Nat) (v rest : Bytes) (acc : ExtAcc) :
    decExtLoop (fuel + 1) (packTLV (tagCtx 3) v ++ rest) acc
      = decExtLoop fuel rest { acc with val := v } := by
  simp only [decExtLoop, packTLV_append_isEmpty, readHeader_packTLV _ _ _ (readable_ctx 3 false),
    readOctets_none _ _ _ (readable_ctx 3 false), bind, Except.bind]
  simp

theorem decExtLoop_step4 (fuel : Nat) (rest : Bytes) (acc : ExtAcc) :
    decExtLoop (fuel + 1) (packTLV (tagCtx 4) [255] ++ rest) acc
      = decExtLoop fuel rest { acc with dn := true } := by
  simp only [decExtLoop, packTLV_append_isEmpty, readHeader_packTLV _ _ _ (readable_ctx 4 false),
    readBool_none_true _ _ (readable_ctx 4 false), bind, Except.bind]
  simp

/-- from the value onwards -/
theorem decExt_val (v : Bytes) (dn : Bool) (fuel : Nat) (acc : ExtAcc) (ha : acc.dn = false)
    (hf : (packOctets v (tagCtx 3) ++ (if dn then packBool true (tagCtx 4) else [])).length ≤ fuel) :
    decExtLoop fuel (packOctets v (tagCtx 3) ++ (if dn then packBool true (tagCtx 4) else [])) acc
      = .ok { acc with val := v, dn := dn } := by
  simp only [packOctets_eq, packBool_eq, ↓reduceIte, List.length_append] at hf ⊢
  have h3 := packTLV_length (tagCtx 3) v
  cases fuel with
  | zero => omega
  | succ fuel =>
    rw [decExtLoop_step3]
    cases dn with
    | false => simp [decExtLoop_nil, ha]
    | true =>
      simp only [↓reduceIte] at hf ⊢
      have h4 := packTLV_length (tagCtx 4) [255]
      cases fuel with
      | zero => omega
      | succ fuel =>
        rw [← List.append_nil (packTLV (tagCtx 4) [255]), decExtLoop_step4]
        simp [decExtLoop_nil]

theorem decExt_attr (attr : Option Bytes) (v : Bytes) (dn : Bool) (fuel : Nat) (acc : ExtAcc)
    (ha : acc.dn = false) (haa : acc.attr = none) (hw : optText attr)
    (hf : (optBytes (tagCtx 2) attr ++ (packOctets v (tagCtx 3)
      ++ (if dn then packBool true (tagCtx 4) else []))).length ≤ fuel) :
    decExtLoop fuel (optBytes (tagCtx 2) attr ++ (packOctets v (tagCtx 3)
      ++ (if dn then packBool true (tagCtx 4) else []))) acc
      = .ok { acc with attr := attr, val := v, dn := dn } := by
  cases attr with
  | none =>
    simp only [optBytes_none, optBytes_some, List.nil_append] at hf ⊢
    rw [decExt_val v dn fuel acc ha hf, ← haa]
  | some a =>
    simp only [optBytes_none, optBytes_some, List.length_append] at hf ⊢
    have h2 := packTLV_length (tagCtx 2) a
    cases fuel with
    | zero => omega
    | succ fuel =>
      rw [decExtLoop_step2 _ _ _ _ hw, decExt_val v dn fuel { acc with attr := some a } ha (by rw [List.length_append]; omega)]

theorem decExt_enc (rule attr : Option Bytes) (v : Bytes) (dn : Bool) (fuel : Nat)
    (hr : optText rule) (hw : optText attr)
    (hf : (optBytes (tagCtx 1) rule ++ optBytes (tagCtx 2) attr ++ packOctets v (tagCtx 3)
      ++ (if dn then packBool true (tagCtx 4) else [])).length ≤ fuel) :
    decExtLoop fuel (optBytes (tagCtx 1) rule ++ optBytes (tagCtx 2) attr ++ packOctets v (tagCtx 3)
      ++ (if dn then packBool true (tagCtx 4) else [])) {} = .ok ⟨rule, attr, v, dn⟩ := by
  simp only [List.append_assoc] at hf ⊢
  cases rule with
  | none =>
    simp only [optBytes_none, optBytes_some, List.nil_append] at hf ⊢
    rw [decExt_attr attr v dn fuel {} rfl rfl hw hf]
  | some r =>
    simp only [optBytes_none, optBytes_some] at hf ⊢
    rw [List.length_append] at hf
    have h1 := packTLV_length (tagCtx 1) r
    cases fuel with
    | zero => omega
    | succ fuel =>
      rw [decExtLoop_step1 _ _ _ _ hr, decExt_attr attr v dn fuel { rule := some r } rfl rfl hw (by omega)]

/-! ### attribute-value assertions -/

theorem decAva_enc (n : Nat) (a v rest : Bytes) (ha : IsText a) :
    decAva n (packTLV (tagCtx n true) (packOctets a ++ packOctets v) ++ rest) = .ok ((a, v), rest) := by
  simp only [decAva, packOctets_eq, readTLV_some _ _ _ (readable_ctx n true),
    readText_some _ _ _ readable_tOctets ha, readOctets_some' _ _ readable_tOctets, bind, Except.bind]
  rfl

/-! ### choice dispatch of `decFilter` -/

/-- resolves the `if h.tag.num = … then … else …` chain of `decFilter` on a written filter;
    the values of the choice numbers enter only through `filterIds_distinct` -/
macro "filter_dispatch" : tactic => `(tactic| (
  have hd := filterIds_distinct
  simp only [List.pairwise_cons, List.mem_cons, List.not_mem_nil, or_false, forall_eq_or_imp,
    forall_eq] at hd
  simp only [decFilter, readHeader_packTLV _ _ _ (readable_ctx _ _), bind, Except.bind,
    tagCtx_cls, tagCtx_num]
  grind))

theorem decFilter_and_head (regs : Regs) (d : Nat) (c rest : Bytes) :
    decFilter regs (d + 1) (packTLV (tagCtx Facts.filterAnd true) c ++ rest) =
      (do let (c, rest) ← readTLV (some (tagCtx Facts.filterAnd true))
                            (packTLV (tagCtx Facts.filterAnd true) c ++ rest)
          let fs ← loopMany (decFilter regs d) c.length c
          return (.and fs, rest)) := by
  filter_dispatch

theorem decFilter_or_head (regs : Regs) (d : Nat) (c rest : Bytes) :
    decFilter regs (d + 1) (packTLV (tagCtx Facts.filterOr true) c ++ rest) =
      (do let (c, rest) ← readTLV (some (tagCtx Facts.filterOr true))
                            (packTLV (tagCtx Facts.filterOr true) c ++ rest)
          let fs ← loopMany (decFilter regs d) c.length c
          return (.or fs, rest)) := by
  filter_dispatch

theorem decFilter_not_head (regs : Regs) (d : Nat) (c rest : Bytes) :
    decFilter regs (d + 1) (packTLV (tagCtx Facts.filterNot true) c ++ rest) =
      (do let (c, rest) ← readTLV (some (tagCtx Facts.filterNot true))
                            (packTLV (tagCtx Facts.filterNot true) c ++ rest)
          let (f, _) ← decFilter regs d c
          return (.not f, rest)) := by
  filter_dispatch

theorem decFilter_eq_head (regs : Regs) (d : Nat) (c rest : Bytes) :
    decFilter regs (d + 1) (packTLV (tagCtx Facts.filterEq true) c ++ rest) =
      (do let ((a, v), rest) ← decAva Facts.filterEq (packTLV (tagCtx Facts.filterEq true) c ++ rest)
          return (.eq a v, rest)) := by
  filter_dispatch

theorem decFilter_substr_head (regs : Regs) (d : Nat) (c rest : Bytes) :
    decFilter regs (d + 1) (packTLV (tagCtx Facts.filterSubstr true) c ++ rest) =
      (do let (c, rest) ← readTLV (some (tagCtx Facts.filterSubstr true))
                            (packTLV (tagCtx Facts.filterSubstr true) c ++ rest)
          let (a, c1) ← readText (some tOctets) c
          let (sc, _) ← readTLV (some tSeq) c1
          let acc ← decSubstrLoop sc.length sc {}
          return (.substr a acc.initial acc.any acc.final, rest)) := by
  filter_dispatch

theorem decFilter_ge_head (regs : Regs) (d : Nat) (c rest : Bytes) :
    decFilter regs (d + 1) (packTLV (tagCtx Facts.filterGe true) c ++ rest) =
      (do let ((a, v), rest) ← decAva Facts.filterGe (packTLV (tagCtx Facts.filterGe true) c ++ rest)
          return (.ge a v, rest)) := by
  filter_dispatch

theorem decFilter_le_head (regs : Regs) (d : Nat) (c rest : Bytes) :
    decFilter regs (d + 1) (packTLV (tagCtx Facts.filterLe true) c ++ rest) =
      (do let ((a, v), rest) ← decAva Facts.filterLe (packTLV (tagCtx Facts.filterLe true) c ++ rest)
          return (.le a v, rest)) := by
  filter_dispatch

theorem decFilter_present_head (regs : Regs) (d : Nat) (c rest : Bytes) :
    decFilter regs (d + 1) (packTLV (tagCtx Facts.filterPresent) c ++ rest) =
      (do let (a, rest) ← readText (some (tagCtx Facts.filterPresent))
                            (packTLV (tagCtx Facts.filterPresent) c ++ rest)
          return (.present a, rest)) := by
  filter_dispatch

theorem decFilter_approx_head (regs : Regs) (d : Nat) (c rest : Bytes) :
    decFilter regs (d + 1) (packTLV (tagCtx Facts.filterApprox true) c ++ rest) =
      (do let ((a, v), rest) ← decAva Facts.filterApprox
                                 (packTLV (tagCtx Facts.filterApprox true) c ++ rest)
          return (.approx a v, rest)) := by
  filter_dispatch

theorem decFilter_ext_head (regs : Regs) (d : Nat) (c rest : Bytes) :
    decFilter regs (d + 1) (packTLV (tagCtx Facts.filterExt true) c ++ rest) =
      (do let (c, rest) ← readTLV (some (tagCtx Facts.filterExt true))
                            (packTLV (tagCtx Facts.filterExt true) c ++ rest)
          let acc ← decExtLoop c.length c {}
          return (.ext acc.rule acc.attr acc.val acc.dn, rest)) := by
  filter_dispatch

theorem decFilter_custom_head (regs : Regs) (d : Nat) (c rest : Bytes) (hr : regs.filter = true) :
    decFilter regs (d + 1) (packTLV (tagCtx Facts.customFilterId) c ++ rest) =
      (do let (v, rest) ← readText (some (tagCtx Facts.customFilterId))
                            (packTLV (tagCtx Facts.customFilterId) c ++ rest)
          return (.custom v, rest)) := by
  filter_dispatch

/-! ### the filter round trip -/

theorem encFilters_eq (fs : List Filter) : encFilters fs = (fs.map encFilter).flatten := by
  induction fs with
  | nil => simp [encFilters]
  | cons f fs ih => simp [encFilters, ih]

theorem depth_pos (f : Filter) : 1 ≤ f.depth := by
  cases f <;> simp [Filter.depth]

theorem encFilter_ne_nil (f : Filter) : encFilter f ≠ [] := by
  cases f <;> simp only [encFilter, packOctets_eq] <;> exact packTLV_ne_nil _ _

mutual
theorem decFilter_enc (regs : Regs) : ∀ (f : Filter) (d : Nat) (rest : Bytes),
    f.WF regs → f.depth ≤ d → decFilter regs d (encFilter f ++ rest) = .ok (f, rest)
  | .and fs, d, rest, hw, hd => by
    simp only [Filter.WF, Filter.depth] at hw hd
    obtain ⟨d, rfl⟩ : ∃ d', d = d' + 1 := ⟨d - 1, by omega⟩
    rw [encFilter, decFilter_and_head]
    simp only [readTLV_some _ _ _ (readable_ctx _ true), bind, Except.bind]
    rw [encFilters_eq, loopMany_enc (decFilter regs d) encFilter id fs
      (fun f hf rest => decFilters_enc regs fs hw d (by omega) f hf rest)
      (fun f _ => encFilter_ne_nil f) _ (Nat.le_refl _)]
    simp; rfl
  | .or fs, d, rest, hw, hd => by
    simp only [Filter.WF, Filter.depth] at hw hd
    obtain ⟨d, rfl⟩ : ∃ d', d = d' + 1 := ⟨d - 1, by omega⟩
    rw [encFilter, decFilter_or_head]
    simp only [readTLV_some _ _ _ (readable_ctx _ true), bind, Except.bind]
    rw [encFilters_eq, loopMany_enc (decFilter regs d) encFilter id fs
      (fun f hf rest => decFilters_enc regs fs hw d (by omega) f hf rest)
      (fun f _ => encFilter_ne_nil f) _ (Nat.le_refl _)]
    simp; rfl
  | .not f, d, rest, hw, hd => by
    simp only [Filter.WF, Filter.depth] at hw hd
    obtain ⟨d, rfl⟩ : ∃ d', d = d' + 1 := ⟨d - 1, by omega⟩
    rw [encFilter, decFilter_not_head]
    simp only [readTLV_some _ _ _ (readable_ctx _ true), bind, Except.bind]
    have := decFilter_enc regs f d [] hw (by omega)
    rw [List.append_nil] at this
    rw [this]; rfl
  | .eq a v, d, rest, hw, hd => by
    simp only [Filter.WF, Filter.depth] at hw hd
    obtain ⟨d, rfl⟩ : ∃ d', d = d' + 1 := ⟨d - 1, by omega⟩
    rw [encFilter, decFilter_eq_head, decAva_enc _ _ _ _ hw]; rfl
  | .substr a i any f, d, rest, hw, hd => by
    simp only [Filter.WF, Filter.depth] at hw hd
    obtain ⟨d, rfl⟩ : ∃ d', d = d' + 1 := ⟨d - 1, by omega⟩
    rw [encFilter, decFilter_substr_head]
    simp only [readTLV_some _ _ _ (readable_ctx _ true), packOctets_eq a,
      readText_some _ _ _ readable_tOctets hw, readTLV_some' _ _ readable_tSeq, bind, Except.bind]
    rw [decSubstr_enc i any f _ (Nat.le_refl _)]; rfl
  | .ge a v, d, rest, hw, hd => by
    simp only [Filter.WF, Filter.depth] at hw hd
    obtain ⟨d, rfl⟩ : ∃ d', d = d' + 1 := ⟨d - 1, by omega⟩
    rw [encFilter, decFilter_ge_head, decAva_enc _ _ _ _ hw]; rfl
  | .le a v, d, rest, hw, hd => by
    simp only [Filter.WF, Filter.depth] at hw hd
    obtain ⟨d, rfl⟩ : ∃ d', d = d' + 1 := ⟨d - 1, by omega⟩
    rw [encFilter, decFilter_le_head, decAva_enc _ _ _ _ hw]; rfl
  | .present a, d, rest, hw, hd => by
    simp only [Filter.WF, Filter.depth] at hw hd
    obtain ⟨d, rfl⟩ : ∃ d', d = d' + 1 := ⟨d - 1, by omega⟩
    rw [encFilter, packOctets_eq, decFilter_present_head,
      readText_some _ _ _ (readable_ctx _ _) hw]; rfl
  | .approx a v, d, rest, hw, hd => by
    simp only [Filter.WF, Filter.depth] at hw hd
    obtain ⟨d, rfl⟩ : ∃ d', d = d' + 1 := ⟨d - 1, by omega⟩
    rw [encFilter, decFilter_approx_head, decAva_enc _ _ _ _ hw]; rfl
  | .ext rule attr v dn, d, rest, hw, hd => by
    simp only [Filter.WF, Filter.depth] at hw hd
    obtain ⟨d, rfl⟩ : ∃ d', d = d' + 1 := ⟨d - 1, by omega⟩
    rw [encFilter, decFilter_ext_head]
    simp only [readTLV_some _ _ _ (readable_ctx _ true), bind, Except.bind]
    rw [decExt_enc rule attr v dn _ hw.1 hw.2 (Nat.le_refl _)]; rfl
  | .custom v, d, rest, hw, hd => by
    simp only [Filter.WF, Filter.depth] at hw hd
    obtain ⟨d, rfl⟩ : ∃ d', d = d' + 1 := ⟨d - 1, by omega⟩
    rw [encFilter, packOctets_eq, decFilter_custom_head _ _ _ _ hw.1,
      readText_some _ _ _ (readable_ctx _ _) hw.2]; rfl
theorem decFilters_enc (regs : Regs) : ∀ (fs : List Filter), Filter.WFs regs fs →
    ∀ d, Filter.depths fs ≤ d → ∀ f ∈ fs, ∀ rest,
      decFilter regs d (encFilter f ++ rest) = .ok (f, rest)
  | [], _, _, _, _, hf, _ => by cases hf
  | f :: fs, hw, d, hd, g, hg, rest => by
    simp only [Filter.WFs, Filter.depths] at hw hd
    by_cases hgf : g = f
    · rw [hgf]; exact decFilter_enc regs f d rest hw.1 (by omega)
    · have hg' : g ∈ fs := by
        rcases List.mem_cons.1 hg with h | h
        · exact absurd h hgf
        · exact h
      exact decFilters_enc regs fs hw.2 d (by omega) g hg' rest
end

end Verif.Proofs
