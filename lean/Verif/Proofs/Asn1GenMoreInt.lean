/-
`_pack_asn1_integer` with fuel bounded below by the NUMBER OF CONTENT OCTETS, not by `|value|`.
Statements exported in `Props/TiesAsn1More.lean`.
-/
import Verif.Proofs.Asn1GenMoreFuel

namespace Verif.Proofs.Asn1Gen

open Verif Verif.PyRt Verif.Asn1Gen

/-! ### the `while value > limit` loop: fuel ≥ number of octets of `intEmit` -/

theorem pack_int_loop_sz (neg : Bool) (lim : Nat) : ∀ (fuel m : Nat) (acc : List Nat) (f : Nat),
    m ≤ f → (intEmit neg lim f m).length ≤ fuel →
    ∃ (bs : List Nat) (r : Nat), pack_asn1_integer_while1 (lim : Int) neg fuel acc (m : Int) = .ok (acc ++ bs, (r : Int))
      ∧ r ≤ lim
      ∧ intEmit neg lim f m = bs ++ [if neg then (255 - r) % 256 else r % 256] := by
  intro fuel; induction fuel with
  | zero =>
    intro m acc f _ h
    have := intEmit_ne_nil neg lim f m
    exact absurd (List.length_eq_zero_iff.1 (by omega)) this
  | succ g ih =>
    intro m acc f hf hsz
    rw [pack_asn1_integer_while1]
    by_cases hgt : m > lim
    · have hgt' : (m : Int) > (lim : Int) := by omega
      cases f with
      | zero => omega
      | succ f' =>
        have hsz' : (intEmit neg lim f' (m / 256)).length ≤ g := by
          simp only [intEmit, hgt, ↓reduceIte, List.length_cons] at hsz; omega
        obtain ⟨bs, r, h1, h2, h3⟩ := ih (m / 256)
          (acc ++ [if neg then 255 - m % 256 else m % 256]) f' (by omega) hsz'
        refine ⟨(if neg then 255 - m % 256 else m % 256) :: bs, r, ?_, h2, ?_⟩
        · cases neg
          · simp only [hgt', ↓reduceIte, pyAnd_255, pyShr_8, Bool.false_eq_true,
              baAppend_nat _ (m % 256) (by omega), bind_ok]
            simpa using h1
          · have e : (255 : Int) - ((m % 256 : Nat) : Int) = ((255 - m % 256 : Nat) : Int) := by omega
            simp only [hgt', ↓reduceIte, pyAnd_255, pyShr_8, e,
              baAppend_nat _ (255 - m % 256) (by omega), bind_ok]
            simpa using h1
        · simp only [intEmit, hgt, ↓reduceIte, h3, List.cons_append]
    · have hgt' : ¬ ((m : Int) > (lim : Int)) := by omega
      refine ⟨[], m, ?_, by omega, ?_⟩
      · simp only [hgt', ↓reduceIte, List.append_nil]
      · simp only [intEmit_le neg lim f m hgt, List.nil_append]

/-- the loop followed by the final append -/
theorem pack_int_emit_sz (neg : Bool) (lim fuel m f : Nat) (hl : lim ≤ 255) (hf : m ≤ f)
    (hsz : (intEmit neg lim f m).length ≤ fuel) :
    ∃ r : Nat, pack_asn1_integer_while1 (lim : Int) neg fuel [] (m : Int)
        = .ok ((intEmit neg lim f m).dropLast, (r : Int))
      ∧ baAppend (intEmit neg lim f m).dropLast
          (pyAnd (if neg = true then 255 - (r : Int) else (r : Int)) 255) = .ok (intEmit neg lim f m) := by
  obtain ⟨bs, r, h1, h2, h3⟩ := pack_int_loop_sz neg lim fuel m [] f hf hsz
  refine ⟨r, ?_, ?_⟩
  · rw [h1, h3]; simp
  · rw [h3]
    cases neg
    · simp only [Bool.false_eq_true, ↓reduceIte, pyAnd_255, List.dropLast_concat,
        baAppend_nat _ (r % 256) (by omega)]
    · have e : (255 : Int) - (r : Int) = ((255 - r : Nat) : Int) := by omega
      simp only [↓reduceIte, e, pyAnd_255, List.dropLast_concat,
        baAppend_nat _ ((255 - r) % 256) (by omega)]

/-- the loop writes no more octets than the content has -/
theorem intEmit_length_le_content_neg (v : Int) (h : v < 0) :
    (intEmit true 128 v.natAbs v.natAbs).length ≤ (intContent v).length := by
  simp only [intContent, h, ↓reduceIte, List.length_reverse]
  split <;> simp [addOneLE_length]

theorem intEmit_length_eq_content_nonneg (v : Int) (h : ¬ v < 0) :
    (intEmit false 127 v.toNat v.toNat).length = (intContent v).length := by
  simp only [intContent, h, ↓reduceIte, List.length_reverse]

theorem intContent_ne_nil (v : Int) : intContent v ≠ [] := by
  intro hc
  have hl := congrArg List.length hc
  by_cases h : v < 0
  · have := intEmit_length_le_content_neg v h
    have hne := intEmit_ne_nil true 128 v.natAbs v.natAbs
    rw [hl] at this
    exact hne (List.length_eq_zero_iff.1 (by simpa using this))
  · have := intEmit_length_eq_content_nonneg v h
    have hne := intEmit_ne_nil false 127 v.toNat v.toNat
    rw [hl] at this
    exact hne (List.length_eq_zero_iff.1 (by simpa using this))

/-! ### `_pack_asn1_integer` -/

/-- `_pack_asn1_integer` computes the content octets `intContent v` and hands them to `_pack_asn1`,
    whenever the fuel is at least the number of content octets -/
theorem pack_asn1_integer_eq_pack_sz (fuel : Nat) (v : Int) (tag : Option ASN1Tag)
    (h : (intContent v).length ≤ fuel) :
    pack_asn1_integer fuel v tag
      = pack_asn1 fuel (tagOr tag 2).tag_class (tagOr tag 2).is_constructed (tagOr tag 2).tag_number
          (intContent v) := by
  simp only [pack_asn1_integer]
  by_cases hneg : v < 0
  · obtain ⟨r, h1, h2⟩ := pack_int_emit_sz true 128 fuel v.natAbs v.natAbs (by omega) (Nat.le_refl _)
      (Nat.le_trans (intEmit_length_le_content_neg v hneg) h)
    have ev : -v = (v.natAbs : Int) := by omega
    have hE := intEmit_isBytes true 128 v.natAbs v.natAbs
    have hne := intEmit_ne_nil true 128 v.natAbs v.natAbs
    have hfor := pack_int_for2 (intEmit true 128 v.natAbs v.natAbs) [] hE
    simp only [List.length_nil, Int.natCast_zero, List.nil_append] at hfor
    have hne' : addOneLE (intEmit true 128 v.natAbs v.natAbs) ≠ [] := by
      intro hc
      have := congrArg List.length hc
      rw [addOneLE_length] at this
      exact hne (List.length_eq_zero_iff.1 this)
    obtain ⟨x, hx1, hx2⟩ := getItem_last _ hne'
    simp only [hneg, ↓reduceIte, ev] at h1 h2 ⊢
    simp only [Int.cast_ofNat_Int] at h1
    simp only [h1, bind_ok, h2, hfor, hx2, intContent, hneg, ↓reduceIte, hx1]
    by_cases hx : x = 127
    · subst hx
      simp [baAppend]
      cases tag <;> simp only [ASN1Tag_universal_tag, tagOr, bind_ok, Option.getD]
    · have : ¬ ((x : Int) = 127) := by omega
      simp [hx, this]
      cases tag <;> simp only [ASN1Tag_universal_tag, tagOr, bind_ok, Option.getD]
  · obtain ⟨r, h1, h2⟩ := pack_int_emit_sz false 127 fuel v.toNat v.toNat (by omega) (Nat.le_refl _)
      (by rw [intEmit_length_eq_content_nonneg v hneg]; exact h)
    have ev : (v.toNat : Int) = v := by omega
    simp only [ev, Bool.false_eq_true, ↓reduceIte] at h1 h2
    simp only [Int.cast_ofNat_Int] at h1
    simp only [hneg, ↓reduceIte, h1, bind_ok, Bool.false_eq_true, h2, intContent]
    cases tag <;> simp only [ASN1Tag_universal_tag, tagOr, bind_ok, Option.getD]

theorem pack_asn1_integer_sz (fuel : Nat) (v : Int) (t : Tag) (hc : t.cls ≤ 3)
    (hnum : t.num < 31 ∨ (packOctetNumber t.num).length < fuel)
    (hv : (intContent v).length ≤ fuel) (hlen : (intContent v).length < 256 ^ 127) :
    pack_asn1_integer fuel v (some (ofTag t)) = .ok (packInt v t) := by
  rw [pack_asn1_integer_eq_pack_sz fuel v _ hv]
  have h1 : 1 ≤ (intContent v).length := List.length_pos_iff.2 (intContent_ne_nil v)
  exact pack_asn1_ofTag_sz fuel t (intContent v) hc hnum
    (Or.inr (Nat.le_trans (packLen_length_le_self _ h1) hv)) hlen

theorem pack_asn1_integer_default_sz (fuel : Nat) (v : Int)
    (hv : (intContent v).length ≤ fuel) (hlen : (intContent v).length < 256 ^ 127) :
    pack_asn1_integer fuel v none = .ok (packInt v) := by
  have := pack_asn1_integer_sz fuel v tInt (by simp [tInt, tagUniv]) (Or.inl (by simp [tInt, tagUniv])) hv hlen
  rw [pack_asn1_integer_eq_pack_sz fuel v _ hv] at this ⊢
  exact this

/-! ### content length from the value -/

theorem intEmit_length_le_pow (neg : Bool) (lim : Nat) : ∀ (f m k : Nat), m < 256 ^ k →
    (intEmit neg lim f m).length ≤ k + 1 := by
  intro f; induction f with
  | zero => intro m k _; simp [intEmit]
  | succ f ih =>
    intro m k h
    simp only [intEmit]
    split
    · rename_i hgt
      cases k with
      | zero => simp at h; omega
      | succ j =>
        rw [Nat.pow_succ] at h
        have : m / 256 < 256 ^ j := by
          generalize 256 ^ j = P at h ⊢; omega
        have := ih (m / 256) j this
        simp only [List.length_cons]; omega
    · simp

/-- `|v| < 256 ^ k` gives at most `k + 2` content octets -/
theorem intContent_length_le_pow (v : Int) (k : Nat) (h : v.natAbs < 256 ^ k) :
    (intContent v).length ≤ k + 2 := by
  simp only [intContent]
  split
  · have := intEmit_length_le_pow true 128 v.natAbs v.natAbs k h
    simp only [List.length_reverse]
    split <;> simp [addOneLE_length] <;> omega
  · have hv : v.toNat = v.natAbs := by omega
    have := intEmit_length_le_pow false 127 v.toNat v.toNat k (by rw [hv]; exact h)
    simp only [List.length_reverse]
    omega

end Verif.Proofs.Asn1Gen
