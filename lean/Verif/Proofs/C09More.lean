/-
Proofs for Props/C09More.lean: the search set is pinned (who enters, who leaves), ids are fresh,
and `recv` on a whole delivery agrees with the id rule `AcceptAll` of Spec/C09More.lean.
-/
import Verif.Spec.C09More
import Verif.Proofs.Session

namespace Verif.Proofs.C09More
open Verif Verif.C09 Verif.Proofs
set_option linter.unusedSimpArgs false

/-! ### the specification vocabulary against the model's -/

theorem setErase_eq_dropId (x : Int) (l : List Int) : setErase x l = dropId x l := by
  unfold setErase dropId
  congr 1
  funext y
  by_cases h : y = x <;> simp [h]

theorem mem_dropId {x y : Int} {l : List Int} : y ∈ dropId x l ↔ y ∈ l ∧ y ≠ x := by
  simp [dropId]

theorem isResponse_eq (op : Op) : op.isResponse = isResponseOp op := by
  cases op <;> rfl

theorem opIsDone_eq (op : Op) : opIsDone op = isSearchDone op := by
  cases op <;> rfl

theorem noticeOid_eq : Facts.oidNotice = noticeOid := by decide

theorem isNotice_eq (op : Op) : op.isNotice = isNoticeOfDisconnection op := by
  cases op
  case extResp r n v => cases n <;> simp [Op.isNotice, isNoticeOfDisconnection, noticeOid_eq]
  all_goals rfl

theorem isSearchDone_iff (op : Op) : isSearchDone op = true ↔ ∃ r, op = .searchDone r := by
  cases op <;> simp [isSearchDone]

theorem unbind_not_response {op : Op} (h : op.isUnbind = true) : isResponseOp op = false := by
  cases op <;> simp_all [Op.isUnbind, isResponseOp]

/-! ### one delivered message -/

/-- the searches after any accepted message, for ANY session (no invariant needed) -/
theorem clientProcess_searches {s s' : Sess} {m : Msg} {b : Bool}
    (h : clientProcess s m = some (s', b)) :
    ∀ j, j ∈ s'.searches ↔ (j ∈ s.searches ∧ ¬(j = m.id ∧ ∃ r, m.op = .searchDone r)) := by
  rw [clientProcess_eq] at h
  split at h
  next hc =>
    simp only [Option.some.injEq, Prod.mk.injEq] at h
    obtain ⟨rfl, _⟩ := h
    intro j
    simp only [← isSearchDone_iff, ← opIsDone_eq]
    by_cases h1 : m.id ∈ s.searches ∧ opIsDone m.op = true
    · simp only [h1, and_self, if_true, mem_setErase]
      constructor
      · rintro ⟨a, b⟩; exact ⟨a, fun hh => b hh.1⟩
      · rintro ⟨a, b⟩; exact ⟨a, fun hh => b ⟨hh, trivial⟩⟩
    · simp only [h1, if_false]
      constructor
      · intro a
        refine ⟨a, ?_⟩
        rintro ⟨rfl, hd⟩
        exact h1 ⟨a, hd⟩
      · exact fun a => a.1
  next => simp at h

theorem clientProcess_subset {s s' : Sess} {m : Msg} {b : Bool}
    (h : clientProcess s m = some (s', b)) :
    (∀ i ∈ s'.outstanding, i ∈ s.outstanding) ∧ (∀ i ∈ s'.searches, i ∈ s.searches) := by
  refine ⟨?_, fun i hi => ((clientProcess_searches h i).1 hi).1⟩
  rw [clientProcess_eq] at h
  split at h
  next hc =>
    simp only [Option.some.injEq, Prod.mk.injEq] at h
    obtain ⟨rfl, _⟩ := h
    intro i hi
    simp only at hi
    split at hi
    · exact hi
    · exact (mem_setErase.1 hi).1
  next => simp at h

/-- one message against the id rule -/
theorem clientProcess_spec (s : Sess) (m : Msg) (hi : CInv s) (hs : s.state ≠ .closed) :
    (isResponseOp m.op = true ∧ m.id ∈ s.outstanding →
      ∃ s', clientProcess s m = some (s', false) ∧
        s'.outstanding = (afterResponse s.outstanding s.searches m).1 ∧
        s'.searches = (afterResponse s.outstanding s.searches m).2) ∧
    (¬(isResponseOp m.op = true ∧ m.id ∈ s.outstanding) → clientProcess s m = none) := by
  constructor
  · rintro ⟨hresp, hO⟩
    rw [clientProcess_eq]
    rw [isResponse_eq, opIsDone_eq]
    simp only [hresp, hO, or_true, and_self, if_true, not_true_eq_false, and_false, decide_false,
      or_false]
    refine ⟨_, rfl, ?_, ?_⟩
    · simp only [afterResponse, setErase_eq_dropId]
      by_cases h1 : m.id ∈ s.searches <;> by_cases h2 : isSearchDone m.op = true <;> simp [h1, h2]
    · simp only [afterResponse, setErase_eq_dropId]
      by_cases h1 : m.id ∈ s.searches <;> by_cases h2 : isSearchDone m.op = true <;> simp [h1, h2]
  · intro hbad
    have : ¬ (clientProcess s m).isSome = true := by
      intro h
      have := (cinv_accepted_iff s m hi hs).1 h
      rw [isResponse_eq] at this
      exact hbad this
    simpa using this

/-! ### the delivery loop -/

theorem processLoop_subset (ms : List Msg) : ∀ s : Sess, s.role = .client →
    (∀ i ∈ (procSess (processLoop s ms)).outstanding, i ∈ s.outstanding) ∧
    (∀ i ∈ (procSess (processLoop s ms)).searches, i ∈ s.searches) := by
  induction ms with
  | nil => intro s _; simp [processLoop, procSess]
  | cons m ms ih =>
    intro s hr
    rw [processLoop_cons]
    by_cases hn : m.op.isNotice = true
    · simp [hn, procSess]
    by_cases hu : m.op.isUnbind = true
    · simp [hn, hu, procSess]
    simp only [hn, hu, hr, if_false, Bool.false_eq_true]
    cases hcp : clientProcess s m with
    | none => simp [procSess]
    | some p =>
      obtain ⟨s1, b⟩ := p
      obtain ⟨h1, h2⟩ := clientProcess_subset hcp
      cases b with
      | true => exact ⟨h1, h2⟩
      | false =>
        obtain ⟨i1, i2⟩ := ih s1 ((clientProcess_frame hcp).1.trans hr)
        exact ⟨fun i hi => h1 i (i1 i hi), fun i hi => h2 i (i2 i hi)⟩

/-- the loop against the id rule: all-good ⇒ `.ok` with the bookkeeping of `afterAll`;
    otherwise a protocol error -/
theorem processLoop_spec (ms : List Msg) : ∀ s : Sess, s.role = .client → CInv s → s.state ≠ .closed →
    ((AcceptAll s.outstanding s.searches ms ∧ ∀ m ∈ ms, isNoticeOfDisconnection m.op = false) →
      ∃ s2, processLoop s ms = .ok s2 ∧
        (s2.outstanding, s2.searches) = afterAll s.outstanding s.searches ms) ∧
    (¬(AcceptAll s.outstanding s.searches ms ∧ ∀ m ∈ ms, isNoticeOfDisconnection m.op = false) →
      ∃ s2 u n, processLoop s ms = .protoErr s2 u n) := by
  induction ms with
  | nil =>
    intro s _ _ _
    refine ⟨fun _ => ⟨s, rfl, rfl⟩, fun h => ?_⟩
    exact absurd ⟨trivial, by simp⟩ h
  | cons m ms ih =>
    intro s hr hi hs
    rw [processLoop_cons]
    by_cases hn : m.op.isNotice = true
    · have hn' : isNoticeOfDisconnection m.op = true := by rw [← isNotice_eq]; exact hn
      refine ⟨fun h => ?_, fun _ => ⟨s, false, true, by simp [hn]⟩⟩
      have := h.2 m (List.mem_cons_self ..)
      rw [hn'] at this
      cases this
    have hn' : isNoticeOfDisconnection m.op = false := by
      rw [← isNotice_eq]; simpa using hn
    by_cases hu : m.op.isUnbind = true
    · refine ⟨fun h => ?_, fun _ => ⟨s, true, false, by simp [hn, hu]⟩⟩
      have h1 := h.1
      simp only [AcceptAll] at h1
      rw [unbind_not_response hu] at h1
      cases h1.1
    simp only [hn, hu, hr, if_false, Bool.false_eq_true]
    obtain ⟨hgood, hbad⟩ := clientProcess_spec s m hi hs
    by_cases hacc : isResponseOp m.op = true ∧ m.id ∈ s.outstanding
    · obtain ⟨s1, hcp, ho, hsr⟩ := hgood hacc
      obtain ⟨hi1, hs1, _, _⟩ := clientProcess_cinv hcp hi hs
      have hr1 : s1.role = .client := (clientProcess_frame hcp).1.trans hr
      obtain ⟨ih1, ih2⟩ := ih s1 hr1 hi1 hs1
      simp only [hcp]
      rw [ho, hsr] at ih1 ih2
      constructor
      · rintro ⟨ha, hno⟩
        simp only [AcceptAll] at ha
        obtain ⟨s2, hl, he⟩ := ih1 ⟨ha.2.2, fun x hx => hno x (List.mem_cons_of_mem _ hx)⟩
        exact ⟨s2, hl, by simpa [afterAll] using he⟩
      · intro hnot
        apply ih2
        rintro ⟨ha, hno⟩
        apply hnot
        refine ⟨by simp only [AcceptAll]; exact ⟨hacc.1, hacc.2, ha⟩, ?_⟩
        intro x hx
        rcases List.mem_cons.1 hx with rfl | hx
        · exact hn'
        · exact hno x hx
    · have hnone := hbad hacc
      simp only [hnone]
      refine ⟨fun h => ?_, fun _ => ⟨s, false, false, rfl⟩⟩
      have h1 := h.1
      simp only [AcceptAll] at h1
      exact absurd ⟨h1.1, h1.2.1⟩ hacc

/-! ### `afterAll`, read as sets -/

theorem afterResponse_searches (o sr : List Int) (m : Msg) (j : Int) :
    j ∈ (afterResponse o sr m).2 ↔ (j ∈ sr ∧ ¬(j = m.id ∧ isSearchDone m.op = true)) := by
  unfold afterResponse
  by_cases h1 : m.id ∈ sr <;> by_cases h2 : isSearchDone m.op = true <;> simp [h1, h2, mem_dropId]
  · intro hj e; exact h1 (e ▸ hj)

theorem afterAll_searches (ms : List Msg) : ∀ (o sr : List Int) (j : Int),
    j ∈ (afterAll o sr ms).2 ↔ (j ∈ sr ∧ ¬∃ m ∈ ms, m.id = j ∧ isSearchDone m.op = true) := by
  induction ms with
  | nil => intro o sr j; simp [afterAll]
  | cons m ms ih =>
    intro o sr j
    simp only [afterAll]
    rw [ih, afterResponse_searches]
    simp only [List.mem_cons, exists_eq_or_imp]
    constructor
    · rintro ⟨⟨a, b⟩, c⟩
      refine ⟨a, ?_⟩
      rintro (⟨e, d⟩ | h)
      · exact b ⟨e.symm, d⟩
      · exact c h
    · rintro ⟨a, b⟩
      exact ⟨⟨a, fun h => b (Or.inl ⟨h.1.symm, h.2⟩)⟩, fun h => b (Or.inr h)⟩

theorem afterResponse_inProgress (o sr : List Int) (m : Msg) (j : Int) :
    j ∈ (afterResponse o sr m).1 ↔
      (j ∈ o ∧ ¬(j = m.id ∧ (m.id ∈ sr → isSearchDone m.op = true))) := by
  unfold afterResponse
  by_cases h1 : m.id ∈ sr <;> by_cases h2 : isSearchDone m.op = true <;> simp [h1, h2, mem_dropId]

/-! ### `recv` -/

theorem recv_msgs_iff (d : Nat) (s : Sess) (chunk : Bytes) (ms : List Msg) (rest : Bytes)
    (hr : Reachable s) (hrole : s.role = .client) (hs : s.state ≠ .closed)
    (hp : parseLoop s.regs d (s.residue ++ chunk).length (s.residue ++ chunk) = .ok (ms, rest)) :
    ((recv d s chunk).2 = .msgs ms ↔
      (AcceptAll s.outstanding s.searches ms ∧ ∀ m ∈ ms, isNoticeOfDisconnection m.op = false)) ∧
    ((AcceptAll s.outstanding s.searches ms ∧ ∀ m ∈ ms, isNoticeOfDisconnection m.op = false) →
      (recv d s chunk).1.state ≠ .closed ∧
      ((recv d s chunk).1.outstanding, (recv d s chunk).1.searches)
        = afterAll s.outstanding s.searches ms ∧
      (recv d s chunk).1.residue = rest) ∧
    (¬(AcceptAll s.outstanding s.searches ms ∧ ∀ m ∈ ms, isNoticeOfDisconnection m.op = false) →
      (∃ n, (recv d s chunk).2 = .protocolError n) ∧ (recv d s chunk).1.state = .closed ∧
        (recv d s chunk).1.outstanding = []) := by
  have hi : CInv { s with residue := rest } := (reachable_inv hr hrole).congr rfl rfl rfl
  obtain ⟨hgood, hbad⟩ := processLoop_spec ms { s with residue := rest } hrole hi hs
  obtain ⟨hok, _⟩ := processLoop_client ms { s with residue := rest } hrole hi hs
  rcases recv_cases d s chunk with ⟨h, _⟩ | ⟨_, e, he, _⟩ | ⟨_, ms', rest', hp', h⟩
  · exact absurd h hs
  · rw [hp] at he; cases he
  · rw [hp] at hp'
    simp only [Except.ok.injEq, Prod.mk.injEq] at hp'
    obtain ⟨rfl, rfl⟩ := hp'
    by_cases hA : AcceptAll s.outstanding s.searches ms ∧ ∀ m ∈ ms, isNoticeOfDisconnection m.op = false
    · obtain ⟨s2, hl, he⟩ := hgood hA
      have hres : s2.residue = rest := by
        have := (processLoop_frame { s with residue := rest } ms)
        rw [hl] at this
        exact this.2.2.2.1
      rw [hl] at h
      rcases h with ⟨s2', hl', h⟩ | ⟨s2', u', n', hl', _⟩ | ⟨s2', hl', _⟩
      · cases hl'
        refine ⟨by rw [h]; exact ⟨fun _ => hA, fun _ => rfl⟩, fun _ => ⟨?_, ?_, ?_⟩, fun hn => absurd hA hn⟩
        · rw [h]; exact (hok s2 hl).2.1
        · rw [h]; exact he
        · rw [h]; exact hres
      · cases hl'
      · cases hl'
    · obtain ⟨s2, u, n, hl⟩ := hbad hA
      rw [hl] at h
      rcases h with ⟨s2', hl', _⟩ | ⟨s2', u', n', _, h⟩ | ⟨s2', hl', _⟩
      · cases hl'
      · refine ⟨by simp [h, hA], fun ha => absurd ha hA, fun _ => ?_⟩
        rw [h]
        exact ⟨⟨_, rfl⟩, rfl, rfl⟩
      · cases hl'

theorem recv_msgs_iff_no_notice (d : Nat) (s : Sess) (chunk : Bytes) (ms : List Msg) (rest : Bytes)
    (hr : Reachable s) (hrole : s.role = .client) (hs : s.state ≠ .closed)
    (hp : parseLoop s.regs d (s.residue ++ chunk).length (s.residue ++ chunk) = .ok (ms, rest))
    (hn : ∀ m ∈ ms, ¬(m.op.isNotice = true) ∧ ¬(m.op.isUnbind = true)) :
    (recv d s chunk).2 = .msgs ms ↔ AcceptAll s.outstanding s.searches ms := by
  rw [(recv_msgs_iff d s chunk ms rest hr hrole hs hp).1]
  constructor
  · exact fun h => h.1
  · intro h
    refine ⟨h, fun m hm => ?_⟩
    rw [← isNotice_eq]
    simpa using (hn m hm).1

/-! ### freshness of ids -/

/-- every id in progress was handed out earlier: it lies in `[first, counter)` -/
structure Fresh (s : Sess) : Prop where
  lo : Facts.firstMessageId ≤ s.counter
  out : ∀ i ∈ s.outstanding, Facts.firstMessageId ≤ i ∧ i < s.counter
  srch : ∀ i ∈ s.searches, Facts.firstMessageId ≤ i ∧ i < s.counter

def FInv (s : Sess) : Prop := s.role = .client → Fresh s

theorem Fresh.shrink {s s' : Sess} (hf : Fresh s) (hc : s'.counter = s.counter)
    (ho : ∀ i ∈ s'.outstanding, i ∈ s.outstanding) (hsr : ∀ i ∈ s'.searches, i ∈ s.searches) :
    Fresh s' :=
  ⟨hc ▸ hf.lo, fun i hi => hc ▸ hf.out i (ho i hi), fun i hi => hc ▸ hf.srch i (hsr i hi)⟩

theorem recv_shrink (d : Nat) (s : Sess) (chunk : Bytes) (hr : s.role = .client) :
    (∀ i ∈ (recv d s chunk).1.outstanding, i ∈ s.outstanding) ∧
    (∀ i ∈ (recv d s chunk).1.searches, i ∈ s.searches) := by
  rcases recv_cases d s chunk with ⟨_, h⟩ | ⟨_, e, _, h⟩ | ⟨_, ms, rest, _, h⟩
  · simp [h]
  · simp [h, closeSess]
  · have hsub := processLoop_subset ms { s with residue := rest } hr
    rcases h with ⟨s2, hl, h⟩ | ⟨s2, u, n, hl, h⟩ | ⟨s2, hl, h⟩
    · rw [hl] at hsub; simpa [h, procSess] using hsub
    · rw [hl] at hsub
      simp only [procSess] at hsub
      simp only [h, closeSess, List.not_mem_nil, false_imp_iff, implies_true, true_and]
      exact hsub.2
    · rw [hl] at hsub; simpa [h, procSess] using hsub

theorem step_finv (s : Sess) (c : Call) (hi : FInv s) : FInv (step s c).1 := by
  intro hr'
  have hr : s.role = .client := (step_role s c).symm.trans hr'
  have hf := hi hr
  by_cases hs : c.isSend = true
  · rcases isSend_cases c hs with rfl | hc | hc
    · rcases step_unbind s with ⟨h, _⟩ | ⟨h, _⟩
      · simpa [h] using hf
      · rw [h]; exact hf.shrink rfl (by simp) (fun i hi => hi)
    · obtain ⟨m, _, _, ⟨h, _⟩ | ⟨_, _, _, h⟩⟩ := step_clientReq s c hc hr
      · simpa [h] using hf
      · rw [h]
        refine ⟨?_, ?_, ?_⟩
        · have := hf.lo; simp only; omega
        · intro i hmem
          simp only at hmem ⊢
          rcases mem_setInsert.1 hmem with rfl | h'
          · have := hf.lo; omega
          · have := hf.out i h'; omega
        · intro i hmem
          simp only at hmem ⊢
          split at hmem
          · rcases mem_setInsert.1 hmem with rfl | h'
            · have := hf.lo; omega
            · have := hf.srch i h'; omega
          · have := hf.srch i hmem; omega
    · rw [step_serverResp_wrong_role s c hc hr]; exact hf
  · cases c <;> simp [Call.isSend] at hs
    case receive chunk =>
      obtain ⟨h1, h2⟩ := recv_shrink defaultDepth s chunk hr
      exact hf.shrink (recv_frame _ s chunk).2.2.1 h1 h2
    case drain a => exact hf.shrink rfl (fun i hi => hi) (fun i hi => hi)
    case register k =>
      cases k <;> simp only [step] <;> split <;>
        first | exact hf | exact hf.shrink rfl (fun i hi => hi) (fun i hi => hi)

theorem reachable_finv {s : Sess} (h : Reachable s) : FInv s := by
  induction h with
  | init r =>
    intro _
    exact ⟨Int.le_refl _, fun i hi => by simp [Sess.init] at hi, fun i hi => by simp [Sess.init] at hi⟩
  | step s c _ ih => exact step_finv s c ih

theorem ids_fresh (s : Sess) (hr : Reachable s) (hrole : s.role = .client) :
    Facts.firstMessageId ≤ s.counter ∧
    (∀ i ∈ s.outstanding, Facts.firstMessageId ≤ i ∧ i < s.counter) ∧
    (∀ i ∈ s.searches, Facts.firstMessageId ≤ i ∧ i < s.counter) :=
  let h := reachable_finv hr hrole
  ⟨h.lo, h.out, h.srch⟩

/-! ### who enters the search set -/

/-- a `.sent` outcome on a client comes from a client request call, and pins the new state -/
theorem sent_cases (s : Sess) (c : Call) (id : Int) (hrole : s.role = .client)
    (h : (step s c).2 = .sent id) :
    id = s.counter ∧ s.state ≠ .closed ∧ isClientReq c = true ∧
      (step s c).1.outstanding = setInsert s.counter s.outstanding ∧
      (step s c).1.searches = (if Proofs.isSearchCall c then setInsert s.counter s.searches else s.searches) ∧
      (step s c).1.counter = s.counter + 1 := by
  by_cases hs : c.isSend = true
  · rcases isSend_cases c hs with rfl | hc | hc
    · rcases step_unbind s with ⟨h', _⟩ | ⟨h', _⟩ <;> simp [h'] at h
    · obtain ⟨m, hm, hid, ⟨h', _⟩ | ⟨hcl, _, _, h'⟩⟩ := step_clientReq s c hc hrole
      · simp [h'] at h
      · rw [h'] at h
        simp only [Outcome.sent.injEq] at h
        rw [h']
        exact ⟨h.symm, hcl, hc, rfl, rfl, rfl⟩
    · simp [step_serverResp_wrong_role s c hc hrole] at h
  · cases c <;> simp [Call.isSend] at hs
    case receive chunk =>
      simp only [step] at h
      rcases recv_cases defaultDepth s chunk with ⟨_, h'⟩ | ⟨_, e, _, h'⟩ | ⟨_, ms, rest, _, h'⟩
      · simp [h'] at h
      · simp [h'] at h
      · rcases h' with ⟨s2, _, h'⟩ | ⟨s2, u, n, _, h'⟩ | ⟨s2, _, h'⟩ <;> simp [h'] at h
    case drain a => simp [step] at h
    case register k => cases k <;> simp only [step] at h <;> split at h <;> simp at h

theorem isSearchCall_eq (c : Call) : Proofs.isSearchCall c = C09.isSearchCall c := by
  cases c <;> rfl

theorem search_registers (s : Sess) (c : Call) (id : Int) (hrole : s.role = .client)
    (hc : C09.isSearchCall c = true) (h : (step s c).2 = .sent id) :
    id ∈ (step s c).1.searches ∧ id ∈ (step s c).1.outstanding ∧
    (∀ j, j ∈ (step s c).1.searches ↔ (j = id ∨ j ∈ s.searches)) ∧
    (∀ j, j ∈ (step s c).1.outstanding ↔ (j = id ∨ j ∈ s.outstanding)) := by
  obtain ⟨rfl, _, _, ho, hsr, _⟩ := sent_cases s c id hrole h
  rw [isSearchCall_eq, hc] at hsr
  simp only [if_true] at hsr
  rw [ho, hsr]
  exact ⟨mem_setInsert.2 (Or.inl rfl), mem_setInsert.2 (Or.inl rfl),
    fun j => mem_setInsert, fun j => mem_setInsert⟩

theorem nonsearch_not_registered (s : Sess) (c : Call) (id : Int) (hr : Reachable s)
    (hrole : s.role = .client) (hc : C09.isSearchCall c = false) (h : (step s c).2 = .sent id) :
    id ∉ (step s c).1.searches ∧ id ∈ (step s c).1.outstanding ∧
    (step s c).1.searches = s.searches ∧
    (∀ j, j ∈ (step s c).1.outstanding ↔ (j = id ∨ j ∈ s.outstanding)) := by
  obtain ⟨rfl, _, _, ho, hsr, _⟩ := sent_cases s c id hrole h
  rw [isSearchCall_eq, hc] at hsr
  simp only [Bool.false_eq_true, if_false] at hsr
  rw [ho, hsr]
  refine ⟨?_, mem_setInsert.2 (Or.inl rfl), rfl, fun j => mem_setInsert⟩
  intro hmem
  have := ((reachable_finv hr hrole).srch _ hmem).2
  omega

/-- the id about to be handed out is not in progress -/
theorem next_id_fresh (s : Sess) (hr : Reachable s) (hrole : s.role = .client) :
    s.counter ∉ s.searches ∧ s.counter ∉ s.outstanding := by
  have hf := reachable_finv hr hrole
  exact ⟨fun h => by have := (hf.srch _ h).2; omega, fun h => by have := (hf.out _ h).2; omega⟩

/-- only `.search` and `.receive` can change the search set of a client -/
theorem searches_frame (s : Sess) (c : Call) (hrole : s.role = .client)
    (hc : C09.isSearchCall c = false) (hrc : isReceiveCall c = false) :
    (step s c).1.searches = s.searches := by
  by_cases hs : c.isSend = true
  · rcases isSend_cases c hs with rfl | hq | hq
    · rcases step_unbind s with ⟨h, _⟩ | ⟨h, _⟩ <;> simp [h]
    · obtain ⟨m, _, _, ⟨h, _⟩ | ⟨_, _, _, h⟩⟩ := step_clientReq s c hq hrole
      · simp [h]
      · rw [h, isSearchCall_eq, hc]; simp
    · rw [step_serverResp_wrong_role s c hq hrole]
  · cases c <;> simp [Call.isSend] at hs
    case receive chunk => simp [isReceiveCall] at hrc
    case drain a => simp [step]
    case register k => cases k <;> simp only [step] <;> split <;> rfl

/-- what an `unbind` call does to the bookkeeping -/
theorem unbind_effect (s : Sess) :
    ((step s .unbind).2 = .unit ∧ s.state ≠ .closed ∧ (step s .unbind).1.state = .closed ∧
        (step s .unbind).1.outstanding = [] ∧ (step s .unbind).1.searches = s.searches ∧
        (step s .unbind).1.counter = s.counter) ∨
    ((step s .unbind).2 = .ldapError ∧ s.state = .closed ∧ (step s .unbind).1 = s) := by
  rcases step_unbind s with ⟨h, h'⟩ | ⟨h, h'⟩
  · right; simp [h, h']
  · left; simp [h, h']

/-! ### who leaves the search set -/

theorem lifetime_searches (s : Sess) (m : Msg) (hr : Reachable s) (hrole : s.role = .client)
    (hs : s.state ≠ .closed) (ha : (clientProcess s m).isSome = true) :
    ∃ s', clientProcess s m = some (s', false) ∧
      ∀ j, j ∈ s'.searches ↔ (j ∈ s.searches ∧ ¬(j = m.id ∧ ∃ r, m.op = .searchDone r)) := by
  obtain ⟨p, hp⟩ := Option.isSome_iff_exists.1 ha
  obtain ⟨s', b⟩ := p
  obtain ⟨_, _, hb, _⟩ := clientProcess_cinv hp (reachable_inv hr hrole) hs
  subst hb
  exact ⟨s', hp, clientProcess_searches hp⟩

/-- the search set after a whole accepted delivery -/
theorem recv_searches (d : Nat) (s : Sess) (chunk : Bytes) (ms : List Msg)
    (hr : Reachable s) (hrole : s.role = .client)
    (h : (recv d s chunk).2 = .msgs ms) :
    ∀ j, j ∈ (recv d s chunk).1.searches ↔
      (j ∈ s.searches ∧ ¬∃ m ∈ ms, m.id = j ∧ ∃ r, m.op = .searchDone r) := by
  rcases recv_cases d s chunk with ⟨_, h'⟩ | ⟨_, e, _, h'⟩ | ⟨hs, ms', rest, hp, h'⟩
  · simp [h'] at h
  · simp [h'] at h
  · have hms : ms' = ms := by
      rcases h' with ⟨s2, _, h'⟩ | ⟨s2, u, n, _, h'⟩ | ⟨s2, _, h'⟩ <;> simp [h'] at h
      exact h
    subst hms
    obtain ⟨hiff, hgood, _⟩ := recv_msgs_iff d s chunk ms' rest hr hrole hs hp
    obtain ⟨_, he, _⟩ := hgood (hiff.1 h)
    intro j
    have h2 : (recv d s chunk).1.searches = (afterAll s.outstanding s.searches ms').2 := by
      rw [← he]
    rw [h2, afterAll_searches]
    simp only [isSearchDone_iff]

end Verif.Proofs.C09More
