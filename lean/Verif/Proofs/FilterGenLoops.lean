/-
Tie of the generated `_unpack_complex_filter` (loop and function) to the hand model's `complexLoop`
and `unpackComplex`, for an arbitrary recursive argument that is tied to the model's (`RecTie`).
-/
import Verif.Proofs.FilterGenSimple

namespace Verif.Proofs.FilterGen

open Verif Verif.FilterRt Verif.FilterGen
open Verif.Proofs.FilterTotal (UfOk ResOk ctxTrue)

/-- the window `view[off : off + len]` -/
def win (view : Bytes) (off len : Nat) : Bytes := (view.drop off).take len

theorem win_length (view : Bytes) (off len : Nat) (h : off + len ≤ view.length) :
    (win view off len).length = len := window_length view off len h

theorem win_sub (view : Bytes) (off len r l : Nat) (h : r + l ≤ len) :
    ((win view off len).drop r).take l = win view (off + r) l := by
  unfold win
  rw [List.drop_take, List.take_take, List.drop_drop, Nat.min_eq_left (by omega)]

theorem win_drop (view : Bytes) (off len r : Nat) :
    (win view off len).drop r = win view (off + r) (len - r) := by
  unfold win
  rw [List.drop_take, List.drop_drop]

abbrev QT : Nat → Prop := fun _ => True
abbrev PT : Filter → Prop := fun _ => True

/-- the generated recursive argument `rec` computes what the model's `uf` computes, on the windows of `view` -/
def RecTie (rec : List Nat → Int → Int → Except GErr (Filter × Int))
    (uf : Bytes → Nat → Except FErr (Filter × Nat)) (view : Bytes) : Prop :=
  ∀ o l : Nat, o + l ≤ view.length → rec view (o : Int) (l : Int) = castRes (uf (win view o l) o)

def castCL : Except FErr (List Filter × Nat) → Except GErr (Int × List Filter)
  | .ok (fs, r) => .ok ((r : Int), fs)
  | .error e => .error (ofFErr e)

theorem natCast_eq_iff (c n : Nat) : (((c : Nat) : Int) = ((n : Nat) : Int)) ↔ c = n := by omega

/-- the `while` loop of `_unpack_complex_filter` -/
theorem complex_while_eq (rec : List Nat → Int → Int → Except GErr (Filter × Int))
    (uf : Bytes → Nat → Except FErr (Filter × Nat)) (view : Bytes) (hrec : RecTie rec uf view)
    (hok : UfOk QT PT uf) (off len : Nat) (h : off + len ≤ view.length) :
    ∀ (f F read : Nat) (fs : List Filter), read ≤ len → len - read ≤ f → len - read < F →
      unpack_complex_filter_while1 rec (win view off len) (((win view off len).getD 0 0 : Nat) : Int)
          (off : Int) (len : Int) view F (read : Int) fs
        = castCL (complexLoop uf (win view off len) off f read fs) := by
  have hlen := win_length view off len h
  intro f
  induction f with
  | zero =>
    intro F read fs hr hf hF
    have : read = len := by omega
    subst this
    obtain ⟨F', rfl⟩ : ∃ F', F = F' + 1 := ⟨F - 1, by omega⟩
    rw [unpack_complex_filter_while1]
    simp [complexLoop, len_eq, hlen, castCL]
  | succ f ih =>
    intro F read fs hr hf hF
    obtain ⟨F', rfl⟩ : ∃ F', F = F' + 1 := ⟨F - 1, by omega⟩
    rw [unpack_complex_filter_while1, complexLoop]
    by_cases hlt : read < len
    · have c1 : ((read : Nat) : Int) < FilterRt.len (win view off len) := by rw [len_eq, hlen]; omega
      have c2 : ¬ read ≥ (win view off len).length := by omega
      rw [if_pos c1, if_neg c2, getItem_nat _ read (by omega)]
      simp only [bind_ok]
      generalize (win view off len).getD read 0 = c
      have e1 : ((read : Int) + 1) = ((read + 1 : Nat) : Int) := by omega
      by_cases h32 : c = cSpace
      · have : ((c : Nat) : Int) = 32 := by rw [h32]; rfl
        rw [if_pos this, if_pos h32, e1]
        exact ih F' (read + 1) fs (by omega) (by omega) (by omega)
      · have n32 : ¬ ((c : Nat) : Int) = 32 := by
          intro h'; apply h32; show c = 32; omega
        rw [if_neg n32, if_neg h32]
        by_cases h40 : c = cLParen
        · have : ((c : Nat) : Int) = 40 := by rw [h40]; rfl
          rw [if_pos this, if_pos h40]
          have ea : ((off : Int) + (read : Int)) = ((off + read : Nat) : Int) := by omega
          have el : ((len : Int) - (read : Int) - 1) = ((len - read - 1 : Nat) : Int) := by omega
          have hb_iff : ((((win view off len).getD 0 0 : Nat) : Int) = 33 ∧ FilterRt.len fs ≠ 0) ↔
              ((win view off len).getD 0 0 = cBang ∧ (!fs.isEmpty) = true) := by
            have k : ((((win view off len).getD 0 0 : Nat) : Int) = 33) ↔ (win view off len).getD 0 0 = cBang := by
              show _ ↔ _ = 33; omega
            rw [k]
            rcases fs with _ | ⟨a, t⟩ <;> simp [len_eq]
            omega
          rw [ea, el, hrec (off + read) (len - read - 1) (by omega), hlen,
            win_sub view off len read (len - read - 1) (by omega)]
          by_cases hb : (win view off len).getD 0 0 = cBang ∧ (!fs.isEmpty) = true
          · rw [if_pos (hb_iff.2 hb), if_pos hb]; rfl
          · rw [if_neg (fun hh => hb (hb_iff.1 hh)), if_neg hb]
            have hres := hok (win view (off + read) (len - read - 1)) (off + read) (fun _ _ => trivial)
            rcases huf : uf (win view (off + read) (len - read - 1)) (off + read) with e | ⟨g, n⟩
            · rfl
            · rw [huf, win_length view (off + read) (len - read - 1) (by omega)] at hres
              simp only [ResOk] at hres
              have e2 : ((read : Int) + (n : Int)) = ((read + n : Nat) : Int) := by omega
              simp only [castRes, bind_ok, e2]
              exact ih F' (read + n) (fs ++ [g]) (by omega) (by omega) (by omega)
        · have n40 : ¬ ((c : Nat) : Int) = 40 := by
            intro h'; apply h40; show c = 40; omega
          rw [if_neg n40, if_neg h40]
          by_cases h41 : c = cRParen
          · have : ((c : Nat) : Int) = 41 := by rw [h41]; rfl
            rw [if_pos this, if_pos h41]; rfl
          · have n41 : ¬ ((c : Nat) : Int) = 41 := by
              intro h'; apply h41; show c = 41; omega
            rw [if_neg n41, if_neg h41]
            simp [castCL, ofFErr]
    · have : read = len := by omega
      subst this
      simp [complexLoop, len_eq, hlen, castCL]

theorem slice_win (view : Bytes) (off len : Nat) :
    slice view (off : Int) ((off : Int) + (len : Int)) = win view off len := slice_nat view off len

/-- `_unpack_complex_filter` on a window that starts with the operator -/
theorem unpack_complex_filter_eq (rec : List Nat → Int → Int → Except GErr (Filter × Int))
    (uf : Bytes → Nat → Except FErr (Filter × Nat)) (view : Bytes) (hrec : RecTie rec uf view)
    (hok : UfOk QT PT uf) (off len : Nat) (h : off + len ≤ view.length) (h1 : 1 ≤ len)
    (F : Nat) (hF : len < F) :
    unpack_complex_filter rec F view (off : Int) (len : Int)
      = castRes (unpackComplex uf (win view off len) off) := by
  have hlen := win_length view off len h
  have hw := complex_while_eq rec uf view hrec hok off len h len F 1 [] h1 (by omega) (by omega)
  have z0 : (0 : Int) = ((0 : Nat) : Int) := rfl
  have z1 : ((1 : Nat) : Int) = 1 := rfl
  rw [z1] at hw
  unfold unpack_complex_filter unpackComplex
  simp only [slice_win]
  have hg : getItem (win view off len) 0 = .ok (((win view off len).getD 0 0 : Nat) : Int) :=
    getItem_nat _ 0 (by omega)
  rw [hg]
  simp only [bind_ok, hw, hlen]
  rcases complexLoop uf (win view off len) off len 1 [] with e | ⟨fs, r⟩
  · rfl
  · simp only [castCL, bind_ok]
    rcases fs with _ | ⟨f0, t⟩
    · simp
    · have k33 : ((((win view off len).getD 0 0 : Nat) : Int) = 33) ↔ (win view off len).getD 0 0 = cBang := by
        show _ ↔ _ = 33; omega
      have k38 : ((((win view off len).getD 0 0 : Nat) : Int) = 38) ↔ (win view off len).getD 0 0 = cAmp := by
        show _ ↔ _ = 38; omega
      simp only [List.isEmpty_cons, not_true_eq_false, if_false, k33, k38, getItemL_zero]
      by_cases hb : (win view off len).getD 0 0 = cBang
      · rw [if_pos hb, if_pos hb]; simp
      · by_cases ha : (win view off len).getD 0 0 = cAmp
        · rw [if_neg hb, if_neg hb, if_pos ha, if_pos ha]; rfl
        · rw [if_neg hb, if_neg hb, if_neg ha, if_neg ha]; rfl

end Verif.Proofs.FilterGen
