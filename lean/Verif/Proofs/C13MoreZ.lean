/-
C15 (addition) — no subtraction of the filter text parser goes below zero.

`parseFilterTextZ` (Spec/C13More.lean) evaluates every subtraction of `from_string` in ℤ and
fails with `negative` when a negative integer is about to be used as an index or slice length.
Here: it agrees with the model on every input (`parseFilterTextZ_eq`), so `negative` never
happens and every reported offset / length is the true integer difference and is ≥ 0.
-/
import Verif.Spec.C13More
import Verif.Proofs.FilterTotal

namespace Verif.Proofs.C13More
open Verif Verif.Proofs.FilterTotal

/-! ### integers that are natural numbers -/

theorem natOf_natCast (n : Nat) : natOf (n : Int) = .ok n := by
  simp [natOf]

theorem natOf_sub {a b : Nat} (h : b ≤ a) : natOf ((a : Int) - (b : Int)) = .ok (a - b) := by
  rw [← Int.ofNat_sub h]; exact natOf_natCast _

theorem natOf_sub_one {a : Nat} (h : 1 ≤ a) : natOf ((a : Int) - 1) = .ok (a - 1) := by
  have : ((a : Int) - 1) = ((a - 1 : Nat) : Int) := by omega
  rw [this]; exact natOf_natCast _

theorem natOf_sub_sub_one {a b : Nat} (h : b + 1 ≤ a) : natOf ((a : Int) - (b : Int) - 1) = .ok (a - b - 1) := by
  have : ((a : Int) - (b : Int) - 1) = ((a - b - 1 : Nat) : Int) := by omega
  rw [this]; exact natOf_natCast _

@[simp] theorem liftZ_ok {α : Type} (a : α) : liftZ (.ok a : Except FErr α) = .ok a := rfl
@[simp] theorem liftZ_error {α : Type} (e : FErr) : liftZ (.error e : Except FErr α) = .error e.toZ := rfl
@[simp] theorem toZ_syntax (o l : Nat) : (FErr.syntax o l).toZ = .syntax o l := rfl
@[simp] theorem toZ_recursion : FErr.recursion.toZ = .recursion := rfl
@[simp] theorem toZ_fuel : FErr.fuel.toZ = .fuel := rfl

theorem liftZ_ne_negative {α : Type} (r : Except FErr α) : liftZ r ≠ .error .negative := by
  cases r with
  | ok a => simp
  | error e => cases e <;> simp

/-! ### `_unpack_simple_filter` -/

/-- the part of `_unpack_simple_filter` after the integer arithmetic, for any error type -/
def simpleTree {ε : Type} (e1 e3 bad : ε) (ft : Nat) (attrib raw : Bytes) (read' : Nat) (c2 : Prop) [Decidable c2] :
    Except ε (Filter × Nat) :=
  let typed := ft = cColon ∨ ft = cGt ∨ ft = cLt ∨ ft = cTilde
  if typed ∧ c2 then .error e1 else
  if ft ≠ cColon ∧ !validAttr attrib then .error e3 else
  if typed ∨ !raw.contains cStar then
    match unescape (raw.length + 1) raw with
    | none => .error bad
    | some v =>
      if ft = cColon then
        match extHeader attrib with
        | none => .error e3
        | some (attr, dn, rule) => .ok (.ext rule attr v dn, read')
      else if ft = cGt then .ok (.ge attrib v, read')
      else if ft = cLt then .ok (.le attrib v, read')
      else if ft = cTilde then .ok (.approx attrib v, read')
      else .ok (.eq attrib v, read')
  else if raw = [cStar] then .ok (.present attrib, read')
  else
    match substringsValue raw with
    | none => .error bad
    | some (i, any, f) => .ok (.substr attrib i any f, read')

theorem liftZ_simpleTree (e1 e3 bad : FErr) (ft : Nat) (attrib raw : Bytes) (read' : Nat) (c2 : Prop) [Decidable c2] :
    liftZ (simpleTree e1 e3 bad ft attrib raw read' c2) = simpleTree e1.toZ e3.toZ bad.toZ ft attrib raw read' c2 := by
  unfold simpleTree
  simp only
  repeat' split
  all_goals rfl

theorem simpleBody_tree (cur : Bytes) (off eq ft vl : Nat) (raw : Bytes) :
    simpleBody cur off eq ft vl raw =
      if eq = cur.length - 1 then .error (.syntax off cur.length) else
      simpleTree (.syntax off cur.length)
        (.syntax off (if ft = cColon ∨ ft = cGt ∨ ft = cLt ∨ ft = cTilde then eq - 1 else eq))
        (.syntax (off + (eq + 1)) vl) ft
        (cur.take (if ft = cColon ∨ ft = cGt ∨ ft = cLt ∨ ft = cTilde then eq - 1 else eq)) raw
        (eq + 1 + vl) (eq = 1) := by
  unfold simpleBody simpleTree
  rfl

theorem unpackSimpleZ_eq (cur : Bytes) (off : Nat) :
    unpackSimpleZ cur (off : Int) = liftZ (unpackSimple cur off) := by
  rw [unpackSimple_eq]
  unfold unpackSimpleZ
  cases hidx : indexOf cEq cur with
  | none => simp
  | some e =>
    have hlt := indexOf_lt hidx
    cases e with
    | zero => simp
    | succ e' =>
      have hne : e' + 1 ≠ 0 := by omega
      simp only []
      generalize e' + 1 = eq at *
      rw [if_neg hne, simpleBody_tree]
      have hz : ((eq : Int) = (cur.length : Int) - 1) ↔ eq = cur.length - 1 := by omega
      simp only [hz]
      by_cases hlast : eq = cur.length - 1
      · rw [if_pos hlast, if_pos hlast]; rfl
      · rw [if_neg hlast, if_neg hlast, natOf_sub_one (by omega)]
        simp only []
        rw [liftZ_simpleTree]
        generalize cur.getD (eq - 1) 0 = ft
        have haz : ∀ (c : Prop) [Decidable c],
            (if c then (eq : Int) - 1 else (eq : Int)) = ((if c then eq - 1 else eq : Nat) : Int) := by
          intro c _; split <;> omega
        have hvl0 : natOf ((cur.length : Int) - ((eq + 1 : Nat) : Int)) = .ok (cur.length - (eq + 1)) :=
          natOf_sub (by omega)
        have htake : (cur.drop (eq + 1)).take (cur.length - (eq + 1)) = cur.drop (eq + 1) :=
          List.take_of_length_le (by simp)
        simp only [haz, natOf_natCast, hvl0, htake, valueLen, List.length_drop]
        unfold simpleTree
        simp only [toZ_syntax, Int.natCast_add]
        rfl

/-! ### the loops -/

/-- the nested parser of the shadow agrees with the nested parser of the model -/
def UfEq (ufZ : Bytes → Int → Except FErrZ (Filter × Nat)) (uf : Bytes → Nat → Except FErr (Filter × Nat)) : Prop :=
  ∀ (c : Bytes) (o : Nat), ufZ c (o : Int) = liftZ (uf c o)

theorem complexLoopZ_eq {ufZ : Bytes → Int → Except FErrZ (Filter × Nat)}
    {uf : Bytes → Nat → Except FErr (Filter × Nat)} (huf : UfEq ufZ uf) (cur : Bytes) (off : Nat) :
    ∀ fuel read fs, complexLoopZ ufZ cur (off : Int) fuel read fs = liftZ (complexLoop uf cur off fuel read fs) := by
  intro fuel
  induction fuel with
  | zero =>
    intro read fs
    rw [complexLoopZ, complexLoop]
    split <;> rfl
  | succ fuel ih =>
    intro read fs
    rw [complexLoopZ, complexLoop]
    by_cases h1 : read ≥ cur.length
    · rw [if_pos h1, if_pos h1]; rfl
    · rw [if_neg h1, if_neg h1]
      simp only []
      by_cases h2 : cur.getD read 0 = cSpace
      · rw [if_pos h2, if_pos h2]; exact ih _ _
      · rw [if_neg h2, if_neg h2]
        by_cases h3 : cur.getD read 0 = cLParen
        · rw [if_pos h3, if_pos h3]
          by_cases h4 : (cur.getD 0 0 = cBang ∧ (!fs.isEmpty) = true)
          · rw [if_pos h4, if_pos h4]; rfl
          · rw [if_neg h4, if_neg h4, natOf_sub_sub_one (by omega)]
            simp only []
            rw [← Int.natCast_add, huf]
            cases uf ((cur.drop read).take (cur.length - read - 1)) (off + read) with
            | error e => rfl
            | ok p =>
              obtain ⟨f, n⟩ := p
              simp only [liftZ_ok]
              exact ih _ _
        · rw [if_neg h3, if_neg h3]
          by_cases h5 : cur.getD read 0 = cRParen
          · rw [if_pos h5, if_pos h5]; rfl
          · rw [if_neg h5, if_neg h5]
            simp [Int.natCast_add]

theorem unpackComplexZ_eq {ufZ : Bytes → Int → Except FErrZ (Filter × Nat)}
    {uf : Bytes → Nat → Except FErr (Filter × Nat)} (huf : UfEq ufZ uf) (cur : Bytes) (off : Nat) :
    unpackComplexZ ufZ cur (off : Int) = liftZ (unpackComplex uf cur off) := by
  unfold unpackComplexZ unpackComplex
  rw [complexLoopZ_eq huf]
  cases complexLoop uf cur off cur.length 1 [] with
  | error e => rfl
  | ok p =>
    obtain ⟨fs, read⟩ := p
    cases fs with
    | nil => rfl
    | cons f0 rest =>
      simp only [liftZ_ok]
      split
      · rfl
      · split <;> rfl

theorem take_drop_full (cur : Bytes) (n : Nat) : (cur.drop n).take (cur.length - n) = cur.drop n :=
  List.take_of_length_le (by simp)

theorem filterLoopZ_eq {ufZ : Bytes → Int → Except FErrZ (Filter × Nat)}
    {uf : Bytes → Nat → Except FErr (Filter × Nat)} (huf : UfEq ufZ uf) (cur : Bytes) (off : Nat) :
    ∀ fuel st, filterLoopZ ufZ cur (off : Int) fuel st = liftZ (filterLoop uf cur off fuel st) := by
  intro fuel
  induction fuel with
  | zero =>
    intro st
    rw [filterLoopZ, filterLoop]
    split <;> rfl
  | succ fuel ih =>
    intro st
    rw [filterLoopZ, filterLoop]
    by_cases h1 : st.read ≥ cur.length
    · rw [if_pos h1, if_pos h1]; rfl
    · rw [if_neg h1, if_neg h1]
      simp only []
      by_cases h2 : cur.getD st.read 0 = cSpace
      · rw [if_pos h2, if_pos h2]; exact ih _
      · rw [if_neg h2, if_neg h2]
        by_cases h3 : cur.getD st.read 0 = cRParen
        · rw [if_pos h3, if_pos h3]
          cases st.parens with
          | none => simp [Int.natCast_add]
          | some p => rfl
        · rw [if_neg h3, if_neg h3]
          by_cases h4 : st.parens.isSome = true
          · rw [if_pos h4, if_pos h4]
            by_cases h5 : cur.getD st.read 0 = cLParen
            · rw [if_pos h5, if_pos h5]
              simp [Int.natCast_add]
            · rw [if_neg h5, if_neg h5, natOf_sub (by omega)]
              simp only []
              rw [take_drop_full, ← Int.natCast_add]
              by_cases h6 : cur.getD st.read 0 = cBang ∨ cur.getD st.read 0 = cAmp ∨ cur.getD st.read 0 = cPipe
              · rw [if_pos h6, if_pos h6, unpackComplexZ_eq huf]
                cases unpackComplex uf (cur.drop st.read) (off + st.read) with
                | error e => rfl
                | ok p =>
                  obtain ⟨f, n⟩ := p
                  simp only [liftZ_ok]
                  exact ih _
              · rw [if_neg h6, if_neg h6, unpackSimpleZ_eq]
                cases unpackSimple (cur.drop st.read) (off + st.read) with
                | error e => rfl
                | ok p =>
                  obtain ⟨f, n⟩ := p
                  simp only [liftZ_ok]
                  exact ih _
          · rw [if_neg h4, if_neg h4]
            by_cases h5 : cur.getD st.read 0 = cLParen
            · rw [if_pos h5, if_pos h5]; exact ih _
            · rw [if_neg h5, if_neg h5, natOf_sub (by omega)]
              simp only []
              rw [take_drop_full, ← Int.natCast_add, unpackSimpleZ_eq]
              cases unpackSimple (cur.drop st.read) (off + st.read) with
              | error e => rfl
              | ok p =>
                obtain ⟨f, n⟩ := p
                rfl

/-! ### per-site fact on the model: the pending `(` of `_unpack_filter` lies inside the slice -/

theorem filterLoop_parens_le (depth : Nat) (cur : Bytes) (off : Nat) (st : FLoop) (p : Nat)
    (h : filterLoop (unpackFilter depth) cur off cur.length ⟨0, none, none⟩ = .ok st)
    (hp : st.parens = some p) : p ≤ cur.length := by
  have hl := filterLoop_ok ctxTrue (unpackFilter_ok ctxTrue depth) cur off (fun _ _ => trivial) cur.length
    ⟨0, none, none⟩ ⟨Nat.zero_le _, (by intro p hp; cases hp), by intro f hf; cases hf⟩ (by simp)
  rw [h] at hl
  exact hl.2.1 p hp

theorem unpackFilterZ_eq : ∀ depth, UfEq (unpackFilterZ depth) (unpackFilter depth) := by
  intro depth
  induction depth with
  | zero => intro cur off; rfl
  | succ depth ih =>
    intro cur off
    rw [unpackFilterZ, unpackFilter, filterLoopZ_eq ih]
    cases hloop : filterLoop (unpackFilter depth) cur off cur.length ⟨0, none, none⟩ with
    | error e => rfl
    | ok st =>
      simp only [liftZ_ok]
      cases hp : st.parens with
      | some p =>
        have hle := filterLoop_parens_le depth cur off st p hloop hp
        simp only [liftZ_error, toZ_syntax, Int.natCast_add, Int.ofNat_sub hle]
      | none =>
        simp only []
        cases st.parsed with
        | none => rfl
        | some f => rfl

theorem parseFilterTextZ_eq (depth : Nat) (s : List Nat) :
    parseFilterTextZ depth s = liftZ (parseFilterText depth s) := by
  unfold parseFilterTextZ parseFilterText
  simp only []
  have h0 : (0 : Int) = ((0 : Nat) : Int) := rfl
  rw [h0, unpackFilterZ_eq depth]
  cases unpackFilter depth (utf8Encode (pyStrip s)) 0 with
  | error e => cases e <;> rfl
  | ok p =>
    obtain ⟨f, consumed⟩ := p
    simp only [liftZ_ok]
    split
    · rename_i hlt
      simp only [liftZ_error, toZ_syntax, Int.ofNat_sub (Nat.le_of_lt hlt)]
    · rfl

end Verif.Proofs.C13More
