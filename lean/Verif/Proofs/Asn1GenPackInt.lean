import Verif.Generated.Asn1Gen
import Verif.Proofs.Asn1GenConv
namespace Verif.Proofs.Asn1Gen
open Verif Verif.PyRt Verif.Asn1Gen

/-! ### the `while value > limit` loop of `_pack_asn1_integer` -/

/-- the last octet written after the loop, as the model writes it -/
theorem intEmit_le (neg : Bool) (lim f m : Nat) (h : ¬ m > lim) :
    intEmit neg lim f m = [if neg then (255 - m) % 256 else m % 256] := by
  cases f <;> simp [intEmit, h]

/-- the loop appends all but the last element of `intEmit` and leaves the value of that element -/
theorem pack_int_loop (neg : Bool) (lim : Nat) : ∀ (fuel m : Nat) (acc : List Nat) (f : Nat),
    m < fuel → m ≤ f →
    ∃ (bs : List Nat) (r : Nat), pack_asn1_integer_while1 (lim : Int) neg fuel acc (m : Int) = .ok (acc ++ bs, (r : Int))
      ∧ r ≤ lim
      ∧ intEmit neg lim f m = bs ++ [if neg then (255 - r) % 256 else r % 256] := by
  intro fuel; induction fuel with
  | zero => intro m acc f h; omega
  | succ g ih =>
    intro m acc f h hf
    rw [pack_asn1_integer_while1]
    by_cases hgt : m > lim
    · have hgt' : (m : Int) > (lim : Int) := by omega
      cases f with
      | zero => omega
      | succ f' =>
        obtain ⟨bs, r, h1, h2, h3⟩ := ih (m / 256)
          (acc ++ [if neg then 255 - m % 256 else m % 256]) f' (by omega) (by omega)
        refine ⟨(if neg then 255 - m % 256 else m % 256) :: bs, r, ?_, h2, ?_⟩
        · cases neg
          · simp only [hgt', ↓reduceIte, pyAnd_255, pyShr_8, Bool.false_eq_true,
              baAppend_nat _ (m % 256) (by omega), bind_ok]
            simpa using h1
          · have e : (255 : Int) - ((m % 256 : Nat) : Int) = ((255 - m % 256 : Nat) : Int) := by omega
            simp only [hgt', ↓reduceIte, pyAnd_255, pyShr_8, e,
              baAppend_nat _ (255 - m % 256) (by omega), bind_ok]
            simpa using h1
        · simp only [intEmit, hgt, ↓reduceIte, h3, List.cons_append]
    · have hgt' : ¬ ((m : Int) > (lim : Int)) := by omega
      refine ⟨[], m, ?_, by omega, ?_⟩
      · simp only [hgt', ↓reduceIte, List.append_nil]
      · simp only [intEmit_le neg lim f m hgt, List.nil_append]

theorem intEmit_ne_nil (neg : Bool) (lim f m : Nat) : intEmit neg lim f m ≠ [] := by
  cases f with
  | zero => simp [intEmit]
  | succ f => simp only [intEmit]; split <;> simp

theorem intEmit_isBytes (neg : Bool) (lim : Nat) : ∀ (f m : Nat), IsBytes (intEmit neg lim f m) := by
  intro f; induction f with
  | zero =>
    intro m; simp only [intEmit]
    exact isBytes_cons.2 ⟨by split <;> omega, isBytes_nil⟩
  | succ f ih =>
    intro m; simp only [intEmit]
    split
    · exact isBytes_cons.2 ⟨by split <;> omega, ih _⟩
    · exact isBytes_cons.2 ⟨by split <;> omega, isBytes_nil⟩

/-- the loop followed by the final append -/
theorem pack_int_emit (neg : Bool) (lim fuel m f : Nat) (hl : lim ≤ 255) (h : m < fuel) (hf : m ≤ f) :
    ∃ r : Nat, pack_asn1_integer_while1 (lim : Int) neg fuel [] (m : Int)
        = .ok ((intEmit neg lim f m).dropLast, (r : Int))
      ∧ baAppend (intEmit neg lim f m).dropLast
          (pyAnd (if neg = true then 255 - (r : Int) else (r : Int)) 255) = .ok (intEmit neg lim f m) := by
  obtain ⟨bs, r, h1, h2, h3⟩ := pack_int_loop neg lim fuel m [] f h hf
  refine ⟨r, ?_, ?_⟩
  · rw [h1, h3]; simp
  · rw [h3]
    cases neg
    · simp only [Bool.false_eq_true, ↓reduceIte, pyAnd_255, List.dropLast_concat,
        baAppend_nat _ (r % 256) (by omega)]
    · have e : (255 : Int) - (r : Int) = ((255 - r : Nat) : Int) := by omega
      simp only [↓reduceIte, e, pyAnd_255, List.dropLast_concat,
        baAppend_nat _ ((255 - r) % 256) (by omega)]

/-! ### the add-one-with-carry pass -/

theorem getD_append_length (pre suf : List Nat) (b : Nat) :
    (pre ++ b :: suf).getD pre.length 0 = b := by
  simp [List.getD_eq_getElem?_getD]

theorem pack_int_for2 : ∀ (suf pre : List Nat), IsBytes suf →
    pack_asn1_integer_for2 suf.length (pre.length : Int) (pre ++ suf) = .ok (pre ++ addOneLE suf) := by
  intro suf; induction suf with
  | nil => intro pre _; simp [pack_asn1_integer_for2, addOneLE]
  | cons b bs ih =>
    intro pre hb
    have hb' := isBytes_cons.1 hb
    have hlen : pre.length < (pre ++ b :: bs).length := by simp
    simp only [List.length_cons]
    rw [pack_asn1_integer_for2]
    simp only [getItem_nat _ _ hlen, getD_append_length, bind_ok]
    by_cases hlt : b < 255
    · have hlt' : (b : Int) < 255 := by omega
      have e : (b : Int) + 1 = ((b + 1 : Nat) : Int) := by omega
      simp only [hlt', ↓reduceIte, e, setItem_nat _ _ (b + 1) hlen (by omega), bind_ok, addOneLE, hlt]
      simp
    · have hlt' : ¬ ((b : Int) < 255) := by omega
      have e : (0 : Int) = ((0 : Nat) : Int) := rfl
      have e2 : (pre.length : Int) + 1 = ((pre ++ [0]).length : Int) := by simp
      simp only [hlt', ↓reduceIte, addOneLE, hlt]
      rw [e, setItem_nat _ _ 0 hlen (by omega)]
      simp only [bind_ok]
      have := ih (pre ++ [0]) hb'.2
      rw [e2]
      simpa using this

/-! ### `b_int[-1]` -/

theorem getItem_last (l : List Nat) (h : l ≠ []) :
    ∃ x, l.getLast? = some x ∧ getItem l (-1) = .ok (x : Int) := by
  have hpos : 0 < l.length := List.length_pos_iff.2 h
  refine ⟨l[l.length - 1]'(by omega), ?_, ?_⟩
  · rw [List.getLast?_eq_getElem?]
    exact List.getElem?_eq_getElem (by omega)
  · simp only [getItem, normIndex_neg_one _ hpos, List.getD_eq_getElem?_getD]
    rw [List.getElem?_eq_getElem (by omega)]
    rfl

/-! ### `_pack_asn1_integer` -/

/-- `_pack_asn1_integer` computes the content octets `intContent v` and hands them to `_pack_asn1` -/
theorem pack_asn1_integer_eq_pack (fuel : Nat) (v : Int) (tag : Option ASN1Tag) (h : v.natAbs < fuel) :
    pack_asn1_integer fuel v tag
      = pack_asn1 fuel (tagOr tag 2).tag_class (tagOr tag 2).is_constructed (tagOr tag 2).tag_number
          (intContent v) := by
  simp only [pack_asn1_integer]
  by_cases hneg : v < 0
  · obtain ⟨r, h1, h2⟩ := pack_int_emit true 128 fuel v.natAbs v.natAbs (by omega) h (Nat.le_refl _)
    have ev : -v = (v.natAbs : Int) := by omega
    have hE := intEmit_isBytes true 128 v.natAbs v.natAbs
    have hne := intEmit_ne_nil true 128 v.natAbs v.natAbs
    have hfor := pack_int_for2 (intEmit true 128 v.natAbs v.natAbs) [] hE
    simp only [List.length_nil, Int.natCast_zero, List.nil_append] at hfor
    have hne' : addOneLE (intEmit true 128 v.natAbs v.natAbs) ≠ [] := by
      intro hc
      have := congrArg List.length hc
      rw [addOneLE_length] at this
      exact hne (List.length_eq_zero_iff.1 this)
    obtain ⟨x, hx1, hx2⟩ := getItem_last _ hne'
    simp only [hneg, ↓reduceIte, ev] at h1 h2 ⊢
    simp only [Int.cast_ofNat_Int] at h1
    simp only [h1, bind_ok, h2, hfor, hx2, intContent, hneg, ↓reduceIte, hx1]
    by_cases hx : x = 127
    · subst hx
      simp [baAppend]
      cases tag <;> simp only [ASN1Tag_universal_tag, tagOr, bind_ok, Option.getD]
    · have : ¬ ((x : Int) = 127) := by omega
      simp [hx, this]
      cases tag <;> simp only [ASN1Tag_universal_tag, tagOr, bind_ok, Option.getD]
  · obtain ⟨r, h1, h2⟩ := pack_int_emit false 127 fuel v.toNat v.toNat (by omega) (by omega) (Nat.le_refl _)
    have ev : (v.toNat : Int) = v := by omega
    simp only [ev, Bool.false_eq_true, ↓reduceIte] at h1 h2
    simp only [Int.cast_ofNat_Int] at h1
    simp only [hneg, ↓reduceIte, h1, bind_ok, Bool.false_eq_true, h2, intContent]
    cases tag <;> simp only [ASN1Tag_universal_tag, tagOr, bind_ok, Option.getD]

theorem intEmit_length_le (neg : Bool) (lim : Nat) : ∀ (f m : Nat),
    (intEmit neg lim f m).length ≤ m + 1 := by
  intro f; induction f with
  | zero => intro m; simp [intEmit]
  | succ f ih =>
    intro m; simp only [intEmit]
    split
    · have := ih (m / 256); simp only [List.length_cons]; omega
    · simp

theorem intContent_length_le (v : Int) : (intContent v).length ≤ v.natAbs + 2 := by
  simp only [intContent]
  split
  · have := intEmit_length_le true 128 v.natAbs v.natAbs
    simp only [List.length_reverse]
    split <;> simp [addOneLE_length] <;> omega
  · have := intEmit_length_le false 127 v.toNat v.toNat
    simp only [List.length_reverse]
    omega

end Verif.Proofs.Asn1Gen
