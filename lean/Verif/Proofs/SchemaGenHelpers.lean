/-
Generated `_encode_oids`, `_encode_qdstring`, `_parse_oids`, `_parse_qdstring` = the hand model.
-/
import Verif.Generated.SchemaGen
import Verif.Proofs.SchemaGenBase

namespace Verif.Proofs.SchemaGen
open Verif Verif.PyRt Verif.PyRtStr Verif.Schema Verif.SchemaGen

theorem listGetItem_zero {α : Type} (x : α) (xs : List α) : listGetItem (x :: xs) 0 = .ok x := rfl

theorem encode_oids_eq (l : List Str) : encode_oids l = .ok (encodeOids l) := by
  unfold encode_oids
  match l with
  | [] => rfl
  | [x] => rfl
  | x :: y :: r =>
    have h : ¬ ((x :: y :: r).length = 1) := by simp
    simp only [h, if_false]
    show Except.ok (ofString "( " ++ pyJoin (ofString " $ ") (x :: y :: r) ++ ofString " )") = _
    rw [pyJoin_eq]
    rfl

theorem encode_qdstring_eq (v : Str) : encode_qdstring v = encodeQd v := rfl

theorem parse_qdstring_eq (v : Str) : parse_qdstring v = parseQd v := rfl

/-- every `$`-separated piece of the stripped text is free of white space other than blanks -/
def OidsClean (v : Option Str) : Prop := ∀ s, v = some s → NoOddWs s

theorem noOddWs_of_sublist {a b : Str} (h : a.Sublist b) (hb : NoOddWs b) : NoOddWs a :=
  fun c hc => hb c (h.subset hc)

theorem stripChars_sublist (chars : List Nat) (s : Str) : (stripChars chars s).Sublist s := by
  unfold stripChars
  have h1 : ((s.dropWhile chars.contains).reverse.dropWhile chars.contains).Sublist (s.dropWhile chars.contains).reverse :=
    List.dropWhile_sublist _
  have h2 := h1.reverse
  rw [List.reverse_reverse] at h2
  exact h2.trans (List.dropWhile_sublist _)

theorem splitOn_pieces_mem (sep : Nat) : ∀ (s : Str) (p : Str), p ∈ splitOn sep s → ∀ c ∈ p, c ∈ s
  | [], p, hp, c, hc => by
    simp [splitOn] at hp
    subst hp
    exact hc
  | d :: r, p, hp, c, hc => by
    have ih := splitOn_pieces_mem sep r
    unfold splitOn at hp
    cases hsp : splitOn sep r with
    | nil => exact absurd hsp (splitOn_ne_nil' sep r)
    | cons x xs =>
      rw [hsp] at hp ih
      by_cases hd : d = sep
      · simp only [hd, if_true] at hp
        rcases List.mem_cons.mp hp with h | h
        · subst h; cases hc
        · exact List.mem_cons_of_mem _ (ih p (by simpa using h) c hc)
      · simp only [hd, if_false] at hp
        rcases List.mem_cons.mp hp with h | h
        · subst h
          rcases List.mem_cons.mp hc with h2 | h2
          · subst h2; exact List.mem_cons_self
          · exact List.mem_cons_of_mem _ (ih x List.mem_cons_self c h2)
        · exact List.mem_cons_of_mem _ (ih p (List.mem_cons_of_mem _ h) c hc)

theorem parse_oids_eq (v : Option Str) (h : OidsClean v) : parse_oids v = parseOids v := by
  unfold parse_oids parseOids
  cases v with
  | none => rfl
  | some s =>
    have hs : NoOddWs s := h s rfl
    by_cases he : s = []
    · subst he; rfl
    · have h1 : s.isEmpty = false := by cases s with | nil => exact absurd rfl he | cons _ _ => rfl
      simp only [he, ne_eq, not_false_eq_true, if_true, h1, Bool.false_eq_true, if_false]
      rw [pySplit_eq, pyStrip_eq]
      show List.map _ (splitOn DOLLAR (stripChars [LP, RP, SPC] s)) = _
      apply List.map_congr_left
      intro p hp
      apply pyStripWs_eq
      intro c hc
      apply hs c
      exact (stripChars_sublist _ s).subset (splitOn_pieces_mem _ _ p hp c hc)

/-- without the hypothesis the two differ: `"a\t$b".strip()`-pieces lose the TAB in Python, the model keeps it -/
theorem parse_oids_differs :
    parse_oids (some [97, 9, 36, 98]) = [[97], [98]] ∧ parseOids (some [97, 9, 36, 98]) = [[97, 9], [98]] := by
  constructor <;> decide

end Verif.Proofs.SchemaGen
