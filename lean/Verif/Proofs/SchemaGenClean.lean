/-
Every OIDS group of a match (`sup`, `must`, `may`, `aux`, `not`) consists of key characters, `.`, `$`, `(`, `)` and
blanks only — in particular it contains no white space other than blanks, which is what makes Python's
`str.strip()` (all white space) and the model's `stripChars [SPC]` agree inside `_parse_oids`.
-/
import Verif.Proofs.SchemaGenFrom
import Verif.Proofs.SchemaBase

namespace Verif.Proofs.SchemaGen
open Verif Verif.PyRt Verif.PyRtStr Verif.Schema Verif.SchemaGen

/-- the characters an OIDS text can contain -/
def OidCh (c : Nat) : Prop := Schema.isKeyChar c = true ∨ c = 46 ∨ c = 32 ∨ c = 36 ∨ c = 40 ∨ c = 41

theorem oidCh_space {c : Nat} (h : OidCh c) (hs : isPySpace c = true) : c = 32 := by
  unfold OidCh Schema.isKeyChar Schema.isAlpha Schema.isDigit Schema.HYPHEN at h
  unfold isPySpace at hs
  simp only [Bool.or_eq_true, Bool.and_eq_true, decide_eq_true_eq, beq_iff_eq] at h hs
  omega

/-- `r` is what is left of `s` after a prefix whose characters all satisfy `P` -/
def Pre (P : Nat → Prop) (s r : Str) : Prop := ∃ t, s = t ++ r ∧ ∀ c ∈ t, P c

theorem Pre.refl {P : Nat → Prop} (s : Str) : Pre P s s := ⟨[], rfl, by simp⟩

theorem Pre.trans {P : Nat → Prop} {s r q : Str} (h1 : Pre P s r) (h2 : Pre P r q) : Pre P s q := by
  obtain ⟨t1, rfl, h1⟩ := h1
  obtain ⟨t2, rfl, h2⟩ := h2
  refine ⟨t1 ++ t2, by simp, ?_⟩
  intro c hc
  rcases List.mem_append.mp hc with h | h
  · exact h1 c h
  · exact h2 c h

theorem Pre.cons {P : Nat → Prop} {c : Nat} (r : Str) (hc : P c) : Pre P (c :: r) r :=
  ⟨[c], rfl, by intro x hx; simp at hx; subst hx; exact hc⟩

theorem Pre.mono {P Q : Nat → Prop} {s r : Str} (h : ∀ c, P c → Q c) (hp : Pre P s r) : Pre Q s r := by
  obtain ⟨t, e, ht⟩ := hp
  exact ⟨t, e, fun c hc => h c (ht c hc)⟩

theorem Pre.consumed {P : Nat → Prop} {s r : Str} (h : Pre P s r) : ∀ c ∈ consumed s r, P c := by
  obtain ⟨t, rfl, ht⟩ := h
  rw [Verif.Proofs.SchemaG.consumed_append]
  exact ht

theorem pre_dropWhile (p : Nat → Bool) : ∀ (s : Str), Pre (fun c => p c = true) s (s.dropWhile p)
  | [] => Pre.refl _
  | c :: r => by
    by_cases hc : p c = true
    · simp only [List.dropWhile_cons, hc, if_true]
      exact (Pre.cons r hc).trans (pre_dropWhile p r)
    · simp only [List.dropWhile_cons, hc]
      exact Pre.refl _

theorem drop_takeWhile (p : Nat → Bool) : ∀ (s : Str), s.drop (s.takeWhile p).length = s.dropWhile p
  | [] => rfl
  | c :: r => by
    by_cases hc : p c = true
    · simp [List.takeWhile_cons, List.dropWhile_cons, hc, drop_takeWhile p r]
    · simp [List.takeWhile_cons, List.dropWhile_cons, hc]

theorem pre_wsp (s : Str) : Pre OidCh s (wsp s) := by
  refine Pre.mono ?_ (pre_dropWhile (· == SPC) s)
  intro c hc
  have : c = 32 := by simpa [SPC] using hc
  exact Or.inr (Or.inr (Or.inl this))

theorem digit_oidCh {c : Nat} (h : Schema.isDigit c = true) : OidCh c := by
  left; unfold Schema.isKeyChar; simp [h]

theorem pre_number {s r : Str} (h : number s = some r) : Pre OidCh s r := by
  unfold number at h
  cases s with
  | nil => simp at h
  | cons c t =>
    by_cases hc : Schema.isDigit c = true
    · simp only [List.takeWhile_cons, hc, if_true] at h
      cases ht : t.takeWhile Schema.isDigit with
      | nil =>
        rw [ht] at h
        simp only [Option.some.injEq] at h
        subst h
        exact Pre.cons t (digit_oidCh hc)
      | cons d u =>
        rw [ht] at h
        by_cases h48 : c = 48
        · simp [h48] at h
        · simp only [h48, if_false, Option.some.injEq] at h
          subst h
          have e : List.drop (c :: d :: u).length (c :: t) = t.dropWhile Schema.isDigit := by
            rw [← ht]; simp [drop_takeWhile]
          rw [e]
          exact (Pre.cons t (digit_oidCh hc)).trans (Pre.mono (fun _ h => digit_oidCh h) (pre_dropWhile Schema.isDigit t))
    · simp [List.takeWhile_cons, hc] at h

theorem pre_arcs : ∀ (fuel : Nat) (s : Str), Pre OidCh s (arcs fuel s)
  | 0, s => Pre.refl _
  | fuel + 1, s => by
    cases s with
    | nil => exact Pre.refl _
    | cons c r =>
      rw [arcs]
      by_cases hc : c = DOT
      · simp only [hc, if_true]
        cases hn : number r with
        | none => exact Pre.refl _
        | some r' =>
          simp only
          exact (Pre.cons r (Or.inr (Or.inl rfl))).trans ((pre_number hn).trans (pre_arcs fuel r'))
      · simp only [hc, if_false]
        exact Pre.refl _

theorem pre_numericoid {s r : Str} (h : numericoid s = some r) : Pre OidCh s r := by
  unfold numericoid at h
  cases hn : number s with
  | none => rw [hn] at h; simp at h
  | some r0 =>
    rw [hn] at h
    by_cases hl : (arcs s.length r0).length < r0.length
    · simp only [hl, if_true, Option.some.injEq] at h
      subst h
      exact (pre_number hn).trans (pre_arcs _ _)
    · simp [hl] at h

theorem pre_descr {s r : Str} (h : descr s = some r) : Pre OidCh s r := by
  unfold descr at h
  cases s with
  | nil => simp at h
  | cons c t =>
    by_cases hc : Schema.isAlpha c = true
    · simp only [hc, if_true, Option.some.injEq] at h
      subst h
      have h1 : OidCh c := by left; unfold Schema.isKeyChar; simp [hc]
      exact (Pre.cons t h1).trans (Pre.mono (fun _ h => Or.inl h) (pre_dropWhile Schema.isKeyChar t))
    · simp [hc] at h

theorem pre_oid {s r : Str} (h : oid s = some r) : Pre OidCh s r := by
  unfold oid at h
  cases hd : descr s with
  | some r' => rw [hd] at h; simp only [Option.some.injEq] at h; subst h; exact pre_descr hd
  | none => rw [hd] at h; exact pre_numericoid h

theorem pre_dollarItems : ∀ (fuel : Nat) (s : Str), Pre OidCh s (dollarItems fuel s)
  | 0, s => Pre.refl _
  | fuel + 1, s => by
    rw [dollarItems]
    have hw := pre_wsp s
    cases hws : wsp s with
    | nil => exact Pre.refl _
    | cons c r =>
      rw [hws] at hw
      simp only
      by_cases hc : c = DOLLAR
      · simp only [hc, if_true]
        cases ho : oid (wsp r) with
        | none => exact Pre.refl _
        | some r' =>
          simp only
          have h1 : Pre OidCh (c :: r) r := Pre.cons r (by subst hc; exact Or.inr (Or.inr (Or.inr (Or.inl rfl))))
          exact hw.trans (h1.trans ((pre_wsp r).trans ((pre_oid ho).trans (pre_dollarItems fuel r'))))
      · simp only [hc, if_false]
        exact Pre.refl _

theorem pre_oids {s r : Str} (h : oids s = some r) : Pre OidCh s r := by
  unfold oids at h
  cases s with
  | nil => simp at h
  | cons c t =>
    by_cases hc : c = LP
    · simp only [hc, if_true] at h
      cases ho : oid (wsp t) with
      | none => rw [ho] at h; simp at h
      | some r1 =>
        rw [ho] at h
        simp only at h
        have h2 := pre_wsp (dollarItems (LP :: t).length r1)
        cases hw : wsp (dollarItems (LP :: t).length r1) with
        | nil => rw [hw] at h; simp at h
        | cons c2 r3 =>
          rw [hw] at h h2
          by_cases hc2 : c2 = RP
          · simp only [hc2, if_true, Option.some.injEq] at h
            subst h
            have h0 : Pre OidCh (c :: t) t := Pre.cons t (by subst hc; exact Or.inr (Or.inr (Or.inr (Or.inr (Or.inl rfl)))))
            have h3 : Pre OidCh (c2 :: r3) r3 := Pre.cons r3 (by subst hc2; exact Or.inr (Or.inr (Or.inr (Or.inr (Or.inr rfl)))))
            exact h0.trans ((pre_wsp t).trans ((pre_oid ho).trans ((pre_dollarItems _ r1).trans (h2.trans h3))))
          · simp [hc2] at h
    · simp only [hc, if_false] at h
      exact pre_oid h

/-- the text an optional `kw OIDS` group captured is clean -/
theorem optKw_oids_clean (kw : String) (s : Str) : OidsClean (optKw kw oids s).1 := by
  unfold optKw
  cases ((sp1 s).bind (lit (ofString kw)) |>.bind sp1) with
  | none => intro t ht; simp at ht
  | some r =>
    simp only
    cases hb : oids r with
    | none => intro t ht; simp at ht
    | some r' =>
      intro t ht
      simp only [Option.some.injEq] at ht
      subst ht
      intro c hc hs
      exact oidCh_space ((pre_oids hb).consumed c hc) hs

theorem matchOC_clean {s : Str} {g : OCGroups} (h : matchOC s = some g) :
    OidsClean g.sup ∧ OidsClean g.must ∧ OidsClean g.may := by
  unfold matchOC at h
  cases hh : head s with
  | none => rw [hh] at h; simp at h
  | some p =>
    obtain ⟨oidT, r0⟩ := p
    rw [hh] at h
    simp only at h
    generalize optKw "NAME" (itemOrList qdescr) r0 = p1 at h
    obtain ⟨names, r1⟩ := p1
    generalize optKw "DESC" qdstring r1 = p2 at h
    obtain ⟨desc, r2⟩ := p2
    generalize optFlag "OBSOLETE" r2 = p3 at h
    obtain ⟨obs, r3⟩ := p3
    have g4 := optKw_oids_clean "SUP" r3
    generalize optKw "SUP" oids r3 = p4 at h g4
    obtain ⟨sup, r4⟩ := p4
    generalize optWord ["ABSTRACT", "STRUCTURAL", "AUXILIARY"] r4 = p5 at h
    obtain ⟨kind, r5⟩ := p5
    have g6 := optKw_oids_clean "MUST" r5
    generalize optKw "MUST" oids r5 = p6 at h g6
    obtain ⟨must, r6⟩ := p6
    have g7 := optKw_oids_clean "MAY" r6
    generalize optKw "MAY" oids r6 = p7 at h g7
    obtain ⟨may, r7⟩ := p7
    simp only at h g4 g6 g7
    cases ht : Schema.tail r7 with
    | none => rw [ht] at h; simp at h
    | some extT =>
      rw [ht] at h
      simp only [Option.some.injEq] at h
      subst h
      exact ⟨g4, g6, g7⟩

theorem matchDCR_clean {s : Str} {g : DCRGroups} (h : matchDCR s = some g) :
    OidsClean g.aux ∧ OidsClean g.must ∧ OidsClean g.may ∧ OidsClean g.never := by
  unfold matchDCR at h
  cases hh : head s with
  | none => rw [hh] at h; simp at h
  | some p =>
    obtain ⟨oidT, r0⟩ := p
    rw [hh] at h
    simp only at h
    generalize optKw "NAME" (itemOrList qdescr) r0 = p1 at h
    obtain ⟨names, r1⟩ := p1
    generalize optKw "DESC" qdstring r1 = p2 at h
    obtain ⟨desc, r2⟩ := p2
    generalize optFlag "OBSOLETE" r2 = p3 at h
    obtain ⟨obs, r3⟩ := p3
    have g4 := optKw_oids_clean "AUX" r3
    generalize optKw "AUX" oids r3 = p4 at h g4
    obtain ⟨aux, r4⟩ := p4
    have g5 := optKw_oids_clean "MUST" r4
    generalize optKw "MUST" oids r4 = p5 at h g5
    obtain ⟨must, r5⟩ := p5
    have g6 := optKw_oids_clean "MAY" r5
    generalize optKw "MAY" oids r5 = p6 at h g6
    obtain ⟨may, r6⟩ := p6
    have g7 := optKw_oids_clean "NOT" r6
    generalize optKw "NOT" oids r6 = p7 at h g7
    obtain ⟨never, r7⟩ := p7
    simp only at h g4 g5 g6 g7
    cases ht : Schema.tail r7 with
    | none => rw [ht] at h; simp at h
    | some extT =>
      rw [ht] at h
      simp only [Option.some.injEq] at h
      subst h
      exact ⟨g4, g5, g6, g7⟩

/-- `ObjectClassDescription.from_string` = `parseOC`, full strength -/
theorem oc_from_string_full (fuel : Nat) (s : Str) (hf : s.length < fuel) :
    ObjectClassDescription_from_string fuel s = ofPErr (parseOC s) :=
  oc_from_string_eq fuel s hf (fun _ hm => matchOC_clean hm)

/-- `DITContentRuleDescription.from_string` = `parseDCR`, full strength -/
theorem dcr_from_string_full (fuel : Nat) (s : Str) (hf : s.length < fuel) :
    DITContentRuleDescription_from_string fuel s = ofPErr (parseDCR s) :=
  dcr_from_string_eq fuel s hf (fun _ hm => matchDCR_clean hm)

end Verif.Proofs.SchemaGen
