/-
Framing lemmas for C02 / C05 / C06: the independent framing spec (`frame`, `frames`) against
the outer `readTLV (some tSeq)` of `decMsg`, behaviour of the readers on `a ++ b`, and the
`while reader:` loop (`parseLoop`) on concatenations.
-/
import Verif.Spec.Frame
import Verif.Proofs.BerHeader
import Verif.Proofs.BerInt

namespace Verif.Proofs
open Verif
set_option linter.unusedSimpArgs false

/-! ### `frameTagNum` / `frameBe` mirror the model's readers -/

theorem frameBe_eq (l : List Nat) : frameBe l = beVal 256 l 0 := by
  rw [beVal_eq_beNat]
  induction l with
  | nil => rfl
  | cons b r ih => simp [frameBe, beNat, ih]

theorem unpackOctetNumber_err (bs : Bytes) (acc idx : Nat) (e : Err)
    (h : unpackOctetNumber bs acc idx = .error e) : e = .notEnough := by
  induction bs generalizing acc idx with
  | nil => simp [unpackOctetNumber] at h; exact h.symm
  | cons b r ih =>
    simp only [unpackOctetNumber] at h
    split at h
    · exact ih _ _ h
    · cases h

theorem frameTagNum_none (bs : Bytes) (acc idx : Nat) (h : frameTagNum bs acc = none) :
    unpackOctetNumber bs acc idx = .error .notEnough := by
  induction bs generalizing acc idx with
  | nil => rfl
  | cons b r ih =>
    simp only [frameTagNum] at h
    simp only [unpackOctetNumber]
    split at h
    · rename_i hb; simp only [hb, ↓reduceIte]; exact ih _ _ h
    · cases h

theorem frameTagNum_some (bs : Bytes) (acc idx num : Nat) (r : Bytes)
    (h : frameTagNum bs acc = some (num, r)) :
    ∃ cnt, unpackOctetNumber bs acc idx = .ok (num, idx + cnt) ∧ r = bs.drop cnt ∧ cnt ≤ bs.length := by
  induction bs generalizing acc idx with
  | nil => simp [frameTagNum] at h
  | cons b r' ih =>
    simp only [frameTagNum] at h
    simp only [unpackOctetNumber]
    split at h
    · rename_i hb
      obtain ⟨cnt, h1, h2, h3⟩ := ih _ (idx + 1) h
      refine ⟨cnt + 1, ?_, ?_, ?_⟩
      · simp only [hb, ↓reduceIte, h1]; congr 2; omega
      · simpa using h2
      · simp; omega
    · rename_i hb
      simp only [Option.some.injEq, Prod.mk.injEq] at h
      obtain ⟨h1, h2⟩ := h
      refine ⟨1, ?_, ?_, ?_⟩
      · simp only [hb, ↓reduceIte]
        have : b % 128 = b := Nat.mod_eq_of_lt (by omega)
        rw [this, h1]
      · simpa using h2.symm
      · simp

/-! ### `readHeader`, all outcomes -/

/-- identifier part of `readHeader` -/
def idPart (o1 : Nat) (rest : Bytes) : Except Err (Nat × Nat) :=
  if o1 % 32 = 31 then unpackOctetNumber rest 0 0 else .ok (o1 % 32, 0)

theorem readHeader_cons (o1 : Nat) (rest : Bytes) :
    readHeader (o1 :: rest) =
      match idPart o1 rest with
      | .error e => .error e
      | .ok (num, cnt) =>
        if o1 / 64 = 0 ∧ num > 36 then .error .valueError
        else readLen ⟨o1 / 64, decide (o1 / 32 % 2 = 1), num⟩ (1 + cnt) ((o1 :: rest).drop (1 + cnt)) := by
  simp only [readHeader, idPart]
  generalize (if o1 % 32 = 31 then unpackOctetNumber rest 0 0 else Except.ok (o1 % 32, 0)) = x
  cases x with
  | error e => rfl
  | ok p =>
    obtain ⟨num, cnt⟩ := p
    simp only
    split
    · rfl
    · unfold readLen
      cases List.drop _ (o1 :: rest) <;> rfl

theorem idPart_err (o1 : Nat) (rest : Bytes) (e : Err) (h : idPart o1 rest = .error e) :
    e = .notEnough := by
  unfold idPart at h
  split at h
  · exact unpackOctetNumber_err _ _ _ _ h
  · cases h

theorem idPart_append (o1 : Nat) (rest extra : Bytes) (r : Nat × Nat) (h : idPart o1 rest = .ok r) :
    idPart o1 (rest ++ extra) = .ok r := by
  unfold idPart at h ⊢
  split
  · rename_i h31; simp only [h31, ↓reduceIte] at h; exact unpackOctetNumber_append _ _ _ _ _ h
  · rename_i h31; simp only [h31, ↓reduceIte] at h; exact h

theorem idPart_cnt (o1 : Nat) (rest : Bytes) (num cnt : Nat) (h : idPart o1 rest = .ok (num, cnt)) :
    cnt ≤ rest.length := by
  unfold idPart at h
  split at h
  · by_cases hf : frameTagNum rest 0 = none
    · rw [frameTagNum_none _ _ 0 hf] at h; cases h
    · obtain ⟨⟨n, r⟩, hr⟩ := Option.ne_none_iff_exists'.1 hf
      obtain ⟨c, h1, _, h3⟩ := frameTagNum_some rest 0 0 n r hr
      rw [h1] at h
      simp only [Except.ok.injEq, Prod.mk.injEq] at h
      omega
  · simp only [Except.ok.injEq, Prod.mk.injEq] at h; omega

theorem readHeader_err (bs : Bytes) (e : Err) (h : readHeader bs = .error e) :
    e = .notEnough ∨ e = .valueError := by
  match bs with
  | [] => simp [readHeader] at h; exact .inl h.symm
  | o1 :: rest =>
    rw [readHeader_cons] at h
    split at h
    · rename_i e' he
      injection h with h
      exact .inl (h ▸ idPart_err _ _ _ he)
    · split at h
      · injection h with h; exact .inr h.symm
      · unfold readLen at h
        split at h
        · injection h with h; exact .inl h.symm
        · split at h
          · injection h with h; exact .inr h.symm
          · split at h
            · split at h
              · injection h with h; exact .inl h.symm
              · cases h
            · cases h

/-- a `ValueError` from the header is decided by the bytes already there -/
theorem readHeader_append_valueError (bs extra : Bytes) (h : readHeader bs = .error .valueError) :
    readHeader (bs ++ extra) = .error .valueError := by
  match bs with
  | [] => simp [readHeader] at h
  | o1 :: rest =>
    rw [readHeader_cons] at h
    rw [List.cons_append, readHeader_cons]
    split at h
    · rename_i e' he
      injection h with h
      have := idPart_err _ _ _ he
      rw [h] at this; cases this
    · rename_i num cnt hid
      rw [idPart_append _ _ extra _ hid]
      simp only
      split at h
      · rename_i hg; rw [if_pos hg]
      · rename_i hg
        rw [if_neg hg]
        unfold readLen at h
        split at h
        · cases h
        · rename_i l lrest heq
          have hk : 1 + cnt ≤ (o1 :: rest).length := by
            have : ((o1 :: rest).drop (1 + cnt)).length = lrest.length + 1 := by rw [heq]; simp
            rw [List.length_drop] at this; omega
          rw [← List.cons_append, List.drop_append_of_le_length hk, heq]
          simp only [readLen, List.cons_append]
          split at h
          · rename_i h128; simp only [h128, ↓reduceIte]
          · split at h
            · split at h
              · cases h
              · cases h
            · cases h

theorem readTLV_err (e : Option Tag) (bs : Bytes) (err : Err) (h : readTLV e bs = .error err) :
    err = .notEnough ∨ err = .valueError := by
  rw [readTLV_eq] at h
  split at h
  · rename_i err' he; injection h with h; exact h ▸ readHeader_err _ _ he
  · split at h
    · injection h with h; exact .inr h.symm
    · split at h
      · injection h with h; exact .inl h.symm
      · cases h

theorem readTLV_append_valueError (e : Option Tag) (bs extra : Bytes)
    (h : readTLV e bs = .error .valueError) : readTLV e (bs ++ extra) = .error .valueError := by
  rw [readTLV_eq] at h ⊢
  split at h
  · rename_i err' he
    injection h with h; subst h
    rw [readHeader_append_valueError _ extra he]
  · rename_i hd hh
    rw [readHeader_append _ extra _ hh]
    simp only
    split at h
    · rename_i hb; simp only [hb, ↓reduceIte]
    · split at h
      · cases h
      · cases h

/-- what a reader does on a prefix of an input on which it succeeds: it asks for more, or
    succeeds the same way -/
theorem readTLV_prefix (e : Option Tag) (a b c r : Bytes) (h : readTLV e (a ++ b) = .ok (c, r)) :
    readTLV e a = .error .notEnough ∨ ∃ r', readTLV e a = .ok (c, r') ∧ r = r' ++ b := by
  cases ha : readTLV e a with
  | error err =>
    rcases readTLV_err _ _ _ ha with rfl | rfl
    · exact .inl rfl
    · rw [readTLV_append_valueError _ _ b ha] at h; cases h
  | ok p =>
    obtain ⟨c', r'⟩ := p
    rw [readTLV_append _ _ _ _ b ha] at h
    simp only [Except.ok.injEq, Prod.mk.injEq] at h
    obtain ⟨rfl, rfl⟩ := h
    exact .inr ⟨r', rfl, rfl⟩

/-! ### the framing spec is the outer `readTLV` -/

/-- the framing verdict that corresponds to an outcome of the outer read -/
def frameOfRead (bs : Bytes) : Except Err (Bytes × Bytes) → FrameResult
  | .error .notEnough => .incomplete
  | .error _ => .bad
  | .ok (_, rest) => .complete (bs.take (bs.length - rest.length)) rest

theorem readLen_cons (t : Tag) (n l : Nat) (r3 : Bytes) :
    readLen t n (l :: r3) =
      if l = 128 then .error .valueError
      else if r3.length < (if 128 < l then l - 128 else 0) then .error .notEnough
      else .ok ⟨t, n + 1 + (if 128 < l then l - 128 else 0),
                if 128 < l then frameBe (r3.take (if 128 < l then l - 128 else 0)) else l⟩ := by
  simp only [readLen, frameBe_eq]
  by_cases h1 : l = 128
  · simp [h1]
  · by_cases h2 : 128 < l
    · simp only [h1, h2, ↓reduceIte]
    · simp [h1, h2]

theorem tagPart_none (o1 : Nat) (r1 : Bytes)
    (h : (if o1 % 32 = 31 then frameTagNum r1 0 else some (o1 % 32, r1)) = none) :
    idPart o1 r1 = .error .notEnough := by
  unfold idPart
  split at h
  · rename_i h31; simp only [h31, ↓reduceIte]; exact frameTagNum_none _ _ _ h
  · cases h

theorem tagPart_some (o1 : Nat) (r1 : Bytes) (num : Nat) (r2 : Bytes)
    (h : (if o1 % 32 = 31 then frameTagNum r1 0 else some (o1 % 32, r1)) = some (num, r2)) :
    ∃ cnt, idPart o1 r1 = .ok (num, cnt) ∧ r2 = r1.drop cnt ∧ cnt ≤ r1.length := by
  unfold idPart
  split at h
  · rename_i h31
    obtain ⟨cnt, h1, h2, h3⟩ := frameTagNum_some r1 0 0 num r2 h
    refine ⟨cnt, ?_, h2, h3⟩
    simp only [h31, ↓reduceIte, h1, Nat.zero_add]
  · rename_i h31
    simp only [Option.some.injEq, Prod.mk.injEq] at h
    obtain ⟨rfl, rfl⟩ := h
    exact ⟨0, by simp only [h31, ↓reduceIte], by simp, by simp⟩

theorem tag_eq_tSeq (a : Nat) (b : Prop) [Decidable b] (num : Nat) :
    ((⟨a, decide b, num⟩ : Tag) ≠ tSeq) ↔ ¬(a = 0 ∧ b ∧ num = 16) := by
  simp [tSeq, tagUniv]

theorem frame_eq (bs : Bytes) : frame bs = frameOfRead bs (readTLV (some tSeq) bs) := by
  match bs with
  | [] => rfl
  | o1 :: r1 =>
    rw [readTLV_eq, readHeader_cons]
    simp only [frame]
    generalize htp : (if o1 % 32 = 31 then frameTagNum r1 0 else some (o1 % 32, r1)) = tp
    match tp with
    | none => rw [tagPart_none _ _ htp]; rfl
    | some (num, r2) =>
      obtain ⟨cnt, hid, hr2, hcnt⟩ := tagPart_some _ _ _ _ htp
      rw [hid]
      simp only
      by_cases hg : o1 / 64 = 0 ∧ 36 < num
      · rw [if_pos hg, if_pos hg]; rfl
      · rw [if_neg hg, if_neg hg]
        have hdrop : (o1 :: r1).drop (1 + cnt) = r2 := by
          rw [Nat.add_comm, List.drop_succ_cons, hr2]
        rw [hdrop]
        match r2, hr2, hdrop with
        | [], _, _ => rfl
        | l :: r3, hr2, hdrop =>
          rw [readLen_cons]
          dsimp only
          by_cases h128 : l = 128
          · rw [if_pos h128, if_pos h128]; rfl
          · rw [if_neg h128, if_neg h128]
            generalize hk : (if 128 < l then l - 128 else 0) = k
            by_cases hshort : r3.length < k
            · rw [if_pos hshort, if_pos hshort]; rfl
            · rw [if_neg hshort, if_neg hshort]
              simp only [tagBad, decide_eq_true_eq, tag_eq_tSeq]
              have hlen : (l :: r3).length = r1.length - cnt := by rw [hr2, List.length_drop]
              simp only [List.length_cons] at hlen
              have hbody : (o1 :: r1).drop (1 + cnt + 1 + k) = r3.drop k := by
                rw [show 1 + cnt + 1 + k = (1 + cnt) + (1 + k) by omega, ← List.drop_drop, hdrop,
                  Nat.add_comm 1 k, List.drop_succ_cons]
              rw [hbody]
              generalize (if 128 < l then frameBe (r3.take k) else l) = len
              by_cases hseq : o1 / 64 = 0 ∧ o1 / 32 % 2 = 1 ∧ num = 16
              · have hnn : ¬¬(o1 / 64 = 0 ∧ o1 / 32 % 2 = 1 ∧ num = 16) := fun h => h hseq
                rw [if_neg hnn, if_neg hnn]
                by_cases hlong : (r3.drop k).length < len
                · rw [if_pos hlong, if_pos hlong]; rfl
                · rw [if_neg hlong, if_neg hlong]
                  simp only [frameOfRead, List.length_drop, List.length_cons] at hlong ⊢
                  congr 2
                  omega
              · rw [if_pos hseq, if_pos hseq]; rfl

theorem frame_incomplete_iff (bs : Bytes) :
    frame bs = .incomplete ↔ readTLV (some tSeq) bs = .error .notEnough := by
  rw [frame_eq]
  cases h : readTLV (some tSeq) bs with
  | error e => cases e <;> simp [frameOfRead]
  | ok p => simp [frameOfRead]

theorem frame_of_readTLV_ok (bs c rest : Bytes) (h : readTLV (some tSeq) bs = .ok (c, rest)) :
    frame bs = .complete (bs.take (bs.length - rest.length)) rest := by
  rw [frame_eq, h]; rfl

theorem frame_complete (bs u rest : Bytes) (h : frame bs = .complete u rest) :
    ∃ c, readTLV (some tSeq) bs = .ok (c, rest) ∧ u = bs.take (bs.length - rest.length) := by
  rw [frame_eq] at h
  cases hr : readTLV (some tSeq) bs with
  | error e => rw [hr] at h; cases e <;> simp [frameOfRead] at h
  | ok p =>
    obtain ⟨c, r⟩ := p
    rw [hr] at h
    simp only [frameOfRead, FrameResult.complete.injEq] at h
    obtain ⟨h1, rfl⟩ := h
    exact ⟨c, rfl, h1.symm⟩

theorem frame_bad (bs : Bytes) (h : frame bs = .bad) :
    readTLV (some tSeq) bs = .error .valueError := by
  rw [frame_eq] at h
  cases hr : readTLV (some tSeq) bs with
  | error e =>
    rcases readTLV_err _ _ _ hr with rfl | rfl
    · rw [hr] at h; simp [frameOfRead] at h
    · rfl
  | ok p => rw [hr] at h; simp [frameOfRead] at h

theorem frame_complete_shorter (bs u rest : Bytes) (h : frame bs = .complete u rest) :
    rest.length + 2 ≤ bs.length := by
  obtain ⟨c, hr, _⟩ := frame_complete _ _ _ h
  exact (readTLV_shorter _ _ _ _ hr).1

theorem frame_append (a b u rest : Bytes) (h : frame a = .complete u rest) :
    frame (a ++ b) = .complete u (rest ++ b) := by
  obtain ⟨c, hr, hu⟩ := frame_complete _ _ _ h
  have hs := (readTLV_shorter _ _ _ _ hr).1
  rw [frame_of_readTLV_ok _ _ _ (readTLV_append _ _ _ _ b hr), hu]
  congr 1
  simp only [List.length_append]
  rw [show a.length + b.length - (rest.length + b.length) = a.length - rest.length by omega]
  exact List.take_append_of_le_length (by omega)

/-! ### `decMsg` and the outer read -/

theorem decMsg_notEnough_iff (regs : Regs) (depth : Nat) (bs : Bytes) :
    decMsg regs depth bs = .error .notEnough ↔ readTLV (some tSeq) bs = .error .notEnough := by
  unfold decMsg
  cases hr : readTLV (some tSeq) bs with
  | error e => simp
  | ok p =>
    obtain ⟨c, rest⟩ := p
    simp only
    cases hc : decContents regs depth c with
    | ok m => simp
    | error e => cases e <;> simp

theorem decMsg_notEnough_iff_frame (regs : Regs) (depth : Nat) (bs : Bytes) :
    decMsg regs depth bs = .error .notEnough ↔ frame bs = .incomplete := by
  rw [decMsg_notEnough_iff, frame_incomplete_iff]

theorem decMsg_ok_readTLV (regs : Regs) (depth : Nat) (bs : Bytes) (m : Msg) (r : Bytes)
    (h : decMsg regs depth bs = .ok (m, r)) : ∃ c, readTLV (some tSeq) bs = .ok (c, r) := by
  unfold decMsg at h
  cases hr : readTLV (some tSeq) bs with
  | error e => rw [hr] at h; cases h
  | ok p =>
    obtain ⟨c, rest⟩ := p
    rw [hr] at h
    simp only at h
    cases hc : decContents regs depth c with
    | ok m' => rw [hc] at h; simp only [Except.ok.injEq, Prod.mk.injEq] at h; exact ⟨c, by rw [h.2]⟩
    | error e => rw [hc] at h; cases e <;> cases h

/-- `decMsg` on a complete unit does not depend on what follows it -/
theorem decMsg_of_readTLV (regs : Regs) (depth : Nat) (bs c rest extra : Bytes)
    (h : readTLV (some tSeq) bs = .ok (c, rest)) :
    decMsg regs depth (bs ++ extra) =
      match decMsg regs depth bs with
      | .ok (m, r) => .ok (m, r ++ extra)
      | .error e => .error e := by
  unfold decMsg
  rw [h, readTLV_append _ _ _ _ extra h]
  simp only
  cases hc : decContents regs depth c with
  | ok m => rfl
  | error e => cases e <;> rfl

theorem decMsg_append (regs : Regs) (depth : Nat) (bs extra : Bytes) (m : Msg) (r : Bytes)
    (h : decMsg regs depth bs = .ok (m, r)) :
    decMsg regs depth (bs ++ extra) = .ok (m, r ++ extra) := by
  obtain ⟨c, hc⟩ := decMsg_ok_readTLV _ _ _ _ _ h
  rw [decMsg_of_readTLV _ _ _ _ _ extra hc, h]

/-- an error other than "not enough data" is final -/
theorem decMsg_append_err (regs : Regs) (depth : Nat) (bs extra : Bytes) (e : Err)
    (h : decMsg regs depth bs = .error e) (hne : e ≠ .notEnough) :
    decMsg regs depth (bs ++ extra) = .error e := by
  cases hr : readTLV (some tSeq) bs with
  | error e' =>
    have he : e' = e := by unfold decMsg at h; rw [hr] at h; injection h
    subst he
    rcases readTLV_err _ _ _ hr with rfl | rfl
    · exact absurd rfl hne
    · unfold decMsg; rw [readTLV_append_valueError _ _ extra hr]
  | ok p =>
    obtain ⟨c, rest⟩ := p
    rw [decMsg_of_readTLV _ _ _ _ _ extra hr, h]

/-! ### fuel of the two loops -/

theorem frames_fuel : ∀ (n m : Nat) (bs : Bytes), bs.length ≤ n → bs.length ≤ m →
    frames n bs = frames m bs := by
  intro n
  induction n with
  | zero =>
    intro m bs h0 _
    have : bs = [] := List.eq_nil_of_length_eq_zero (by omega)
    subst this
    cases m <;> simp [frames]
  | succ n ih =>
    intro m bs hn hm
    cases m with
    | zero =>
      have : bs = [] := List.eq_nil_of_length_eq_zero (by omega)
      subst this
      simp [frames]
    | succ m =>
      simp only [frames]
      split
      · rfl
      · cases hf : frame bs with
        | incomplete => rfl
        | bad => rfl
        | complete u rest =>
          have := frame_complete_shorter _ _ _ hf
          simp only
          rw [ih m rest (by omega) (by omega)]

theorem parseLoop_fuel (regs : Regs) (depth : Nat) : ∀ (n m : Nat) (bs : Bytes), bs.length ≤ n →
    bs.length ≤ m → parseLoop regs depth n bs = parseLoop regs depth m bs := by
  intro n
  induction n with
  | zero =>
    intro m bs h0 _
    have : bs = [] := List.eq_nil_of_length_eq_zero (by omega)
    subst this
    cases m <;> simp [parseLoop]
  | succ n ih =>
    intro m bs hn hm
    cases m with
    | zero =>
      have : bs = [] := List.eq_nil_of_length_eq_zero (by omega)
      subst this
      simp [parseLoop]
    | succ m =>
      simp only [parseLoop]
      split
      · rfl
      · cases hd : decMsg regs depth bs with
        | error e => cases e <;> rfl
        | ok p =>
          obtain ⟨msg, r⟩ := p
          obtain ⟨c, hc⟩ := decMsg_ok_readTLV _ _ _ _ _ hd
          have := (readTLV_shorter _ _ _ _ hc).1
          simp only
          rw [ih m r (by omega) (by omega)]

/-- one iteration of `parseLoop`, fuel normalised -/
theorem parseLoop_eq (regs : Regs) (depth n : Nat) (bs : Bytes) (hn : bs.length ≤ n) :
    parseLoop regs depth n bs =
      if bs.isEmpty then .ok ([], [])
      else
        match decMsg regs depth bs with
        | .ok (m, r) =>
          match parseLoop regs depth r.length r with
          | .ok (ms, rest) => .ok (m :: ms, rest)
          | .error e => .error e
        | .error .notEnough => .ok ([], bs)
        | .error e => .error e := by
  cases n with
  | zero =>
    have : bs = [] := List.eq_nil_of_length_eq_zero (by omega)
    subst this
    simp [parseLoop]
  | succ n =>
    simp only [parseLoop]
    split
    · rfl
    · cases hd : decMsg regs depth bs with
      | error e => cases e <;> rfl
      | ok p =>
        obtain ⟨msg, r⟩ := p
        obtain ⟨c, hc⟩ := decMsg_ok_readTLV _ _ _ _ _ hd
        have := (readTLV_shorter _ _ _ _ hc).1
        simp only
        rw [parseLoop_fuel regs depth n r.length r (by omega) (by omega)]
        rfl

/-- one iteration of `frames`, fuel normalised -/
theorem frames_eq (n : Nat) (bs : Bytes) (hn : bs.length ≤ n) :
    frames n bs =
      if bs.isEmpty then some ([], [])
      else
        match frame bs with
        | .incomplete => some ([], bs)
        | .bad => none
        | .complete u rest =>
          match frames rest.length rest with
          | some (us, tail) => some (u :: us, tail)
          | none => none := by
  cases n with
  | zero =>
    have : bs = [] := List.eq_nil_of_length_eq_zero (by omega)
    subst this
    simp [frames]
  | succ n =>
    simp only [frames]
    split
    · rfl
    · cases hf : frame bs with
      | incomplete => rfl
      | bad => rfl
      | complete u rest =>
        have := frame_complete_shorter _ _ _ hf
        simp only
        rw [frames_fuel n rest.length rest (by omega) (by omega)]
        rfl

theorem frame_nil : frame [] = .incomplete := rfl

/-! ### `parseLoop` against `frames` -/

theorem parseLoop_frames (regs : Regs) (depth : Nat) : ∀ (n : Nat) (buf : Bytes) (ms : List Msg)
    (rest : Bytes), parseLoop regs depth n buf = .ok (ms, rest) →
    ∃ us, frames n buf = some (us, rest) ∧ us.length = ms.length ∧ frame rest = .incomplete := by
  intro n
  induction n with
  | zero =>
    intro buf ms rest h
    simp only [parseLoop] at h
    split at h
    · simp only [Except.ok.injEq, Prod.mk.injEq] at h
      obtain ⟨rfl, rfl⟩ := h
      rename_i he
      exact ⟨[], by simp [frames, he], rfl, rfl⟩
    · cases h
  | succ n ih =>
    intro buf ms rest h
    simp only [parseLoop] at h
    simp only [frames]
    split at h
    · rename_i he
      simp only [Except.ok.injEq, Prod.mk.injEq] at h
      obtain ⟨rfl, rfl⟩ := h
      exact ⟨[], by simp [he], rfl, rfl⟩
    · rename_i he
      rw [if_neg he]
      cases hd : decMsg regs depth buf with
      | error e =>
        rw [hd] at h
        cases e with
        | notEnough =>
          simp only [Except.ok.injEq, Prod.mk.injEq] at h
          obtain ⟨rfl, rfl⟩ := h
          have hf := (decMsg_notEnough_iff_frame _ _ _).1 hd
          exact ⟨[], by rw [hf], rfl, hf⟩
        | _ => cases h
      | ok p =>
        obtain ⟨m, r⟩ := p
        rw [hd] at h
        simp only at h
        obtain ⟨c, hc⟩ := decMsg_ok_readTLV _ _ _ _ _ hd
        rw [frame_of_readTLV_ok _ _ _ hc]
        cases hp : parseLoop regs depth n r with
        | error e => rw [hp] at h; cases h
        | ok q =>
          obtain ⟨ms', rest'⟩ := q
          rw [hp] at h
          simp only [Except.ok.injEq, Prod.mk.injEq] at h
          obtain ⟨rfl, rfl⟩ := h
          obtain ⟨us, h1, h2, h3⟩ := ih r ms' rest' hp
          exact ⟨(buf.take (buf.length - r.length)) :: us, by simp only [h1], by simp [h2], h3⟩

/-! ### the loops on `a ++ b` -/

/-- residue carry-over for `frames`: the units of `a`, then the units of (tail of `a`) ++ `b` -/
theorem frames_append (b : Bytes) : ∀ (n : Nat) (a : Bytes) (us : List Bytes) (t : Bytes),
    a.length ≤ n → frames a.length a = some (us, t) →
    frames (a ++ b).length (a ++ b) =
      match frames (t ++ b).length (t ++ b) with
      | some (vs, tl) => some (us ++ vs, tl)
      | none => none := by
  intro n
  induction n with
  | zero =>
    intro a us t hn h
    have : a = [] := List.eq_nil_of_length_eq_zero (by omega)
    subst this
    simp only [frames, List.isEmpty_nil, ↓reduceIte, Option.some.injEq, Prod.mk.injEq, List.length_nil] at h
    obtain ⟨rfl, rfl⟩ := h
    simp only [List.nil_append]
    cases frames b.length b with
    | none => rfl
    | some p => rfl
  | succ n ih =>
    intro a us t hn h
    rw [frames_eq _ _ (Nat.le_refl _)] at h
    by_cases he : a.isEmpty = true
    · rw [if_pos he] at h
      simp only [Option.some.injEq, Prod.mk.injEq] at h
      obtain ⟨rfl, rfl⟩ := h
      have : a = [] := List.isEmpty_iff.1 he
      subst this
      simp only [List.nil_append]
      cases frames b.length b with
      | none => rfl
      | some p => rfl
    · rw [if_neg he] at h
      cases hf : frame a with
      | incomplete =>
        rw [hf] at h
        simp only [Option.some.injEq, Prod.mk.injEq] at h
        obtain ⟨rfl, rfl⟩ := h
        cases frames (a ++ b).length (a ++ b) with
        | none => rfl
        | some p => rfl
      | bad => rw [hf] at h; cases h
      | complete u rest =>
        rw [hf] at h
        simp only at h
        have hsh := frame_complete_shorter _ _ _ hf
        cases hr : frames rest.length rest with
        | none => rw [hr] at h; cases h
        | some q =>
          obtain ⟨us', t'⟩ := q
          rw [hr] at h
          simp only [Option.some.injEq, Prod.mk.injEq] at h
          obtain ⟨rfl, rfl⟩ := h
          have hne : ¬ (a ++ b).isEmpty = true := by
            simp only [List.isEmpty_iff, List.append_eq_nil_iff, not_and]
            intro ha; exact absurd (List.isEmpty_iff.2 ha) he
          rw [frames_eq _ _ (Nat.le_refl _), if_neg hne, frame_append _ b _ _ hf]
          simp only
          rw [ih rest us' t' (by omega) hr]
          cases frames (t' ++ b).length (t' ++ b) with
          | none => rfl
          | some p => rfl

/-- residue carry-over for `parseLoop` -/
theorem parseLoop_append (regs : Regs) (depth : Nat) (b : Bytes) : ∀ (n : Nat) (a : Bytes)
    (ms : List Msg) (t : Bytes), a.length ≤ n → parseLoop regs depth a.length a = .ok (ms, t) →
    parseLoop regs depth (a ++ b).length (a ++ b) =
      match parseLoop regs depth (t ++ b).length (t ++ b) with
      | .ok (ms2, r) => .ok (ms ++ ms2, r)
      | .error e => .error e := by
  intro n
  induction n with
  | zero =>
    intro a ms t hn h
    have : a = [] := List.eq_nil_of_length_eq_zero (by omega)
    subst this
    simp only [parseLoop, List.isEmpty_nil, ↓reduceIte, Except.ok.injEq, Prod.mk.injEq, List.length_nil] at h
    obtain ⟨rfl, rfl⟩ := h
    simp only [List.nil_append]
    cases parseLoop regs depth b.length b with
    | error e => rfl
    | ok p => rfl
  | succ n ih =>
    intro a ms t hn h
    rw [parseLoop_eq _ _ _ _ (Nat.le_refl _)] at h
    by_cases he : a.isEmpty = true
    · rw [if_pos he] at h
      simp only [Except.ok.injEq, Prod.mk.injEq] at h
      obtain ⟨rfl, rfl⟩ := h
      have : a = [] := List.isEmpty_iff.1 he
      subst this
      simp only [List.nil_append]
      cases parseLoop regs depth b.length b with
      | error e => rfl
      | ok p => rfl
    · rw [if_neg he] at h
      cases hd : decMsg regs depth a with
      | error e =>
        rw [hd] at h
        cases e with
        | notEnough =>
          simp only [Except.ok.injEq, Prod.mk.injEq] at h
          obtain ⟨rfl, rfl⟩ := h
          cases parseLoop regs depth (a ++ b).length (a ++ b) with
          | error e => rfl
          | ok p => rfl
        | _ => cases h
      | ok p =>
        obtain ⟨m, r⟩ := p
        rw [hd] at h
        simp only at h
        obtain ⟨c, hc⟩ := decMsg_ok_readTLV _ _ _ _ _ hd
        have hsh := (readTLV_shorter _ _ _ _ hc).1
        cases hr : parseLoop regs depth r.length r with
        | error e => rw [hr] at h; cases h
        | ok q =>
          obtain ⟨ms', t'⟩ := q
          rw [hr] at h
          simp only [Except.ok.injEq, Prod.mk.injEq] at h
          obtain ⟨rfl, rfl⟩ := h
          have hne : ¬ (a ++ b).isEmpty = true := by
            simp only [List.isEmpty_iff, List.append_eq_nil_iff, not_and]
            intro ha; exact absurd (List.isEmpty_iff.2 ha) he
          rw [parseLoop_eq _ _ _ _ (Nat.le_refl _), if_neg hne, decMsg_append _ _ _ b _ _ hd]
          simp only
          rw [ih r ms' t' (by omega) hr]
          cases parseLoop regs depth (t' ++ b).length (t' ++ b) with
          | error e => rfl
          | ok p => rfl

/-- if the whole parses without error then so does every prefix -/
theorem parseLoop_prefix_ok (regs : Regs) (depth : Nat) (b : Bytes) : ∀ (n : Nat) (a : Bytes)
    (ms : List Msg) (r : Bytes), a.length ≤ n →
    parseLoop regs depth (a ++ b).length (a ++ b) = .ok (ms, r) →
    ∃ ms1 t, parseLoop regs depth a.length a = .ok (ms1, t) := by
  intro n
  induction n with
  | zero =>
    intro a ms r hn _
    have : a = [] := List.eq_nil_of_length_eq_zero (by omega)
    subst this
    exact ⟨[], [], by simp [parseLoop]⟩
  | succ n ih =>
    intro a ms r hn h
    rw [parseLoop_eq _ _ _ a (Nat.le_refl _)]
    by_cases he : a.isEmpty = true
    · rw [if_pos he]; exact ⟨_, _, rfl⟩
    · rw [if_neg he]
      have hne : ¬ (a ++ b).isEmpty = true := by
        simp only [List.isEmpty_iff, List.append_eq_nil_iff, not_and]
        intro ha; exact absurd (List.isEmpty_iff.2 ha) he
      rw [parseLoop_eq _ _ _ _ (Nat.le_refl _), if_neg hne] at h
      cases hd : decMsg regs depth a with
      | error e =>
        by_cases hen : e = .notEnough
        · subst hen; exact ⟨_, _, rfl⟩
        · rw [decMsg_append_err _ _ _ b _ hd hen] at h
          cases e <;> first | exact absurd rfl hen | cases h
      | ok p =>
        obtain ⟨m, r'⟩ := p
        obtain ⟨c, hc⟩ := decMsg_ok_readTLV _ _ _ _ _ hd
        have hsh := (readTLV_shorter _ _ _ _ hc).1
        rw [decMsg_append _ _ _ b _ _ hd] at h
        simp only at h ⊢
        cases hr : parseLoop regs depth (r' ++ b).length (r' ++ b) with
        | error e => rw [hr] at h; cases h
        | ok q =>
          obtain ⟨ms', t'⟩ := q
          obtain ⟨ms1, t, h1⟩ := ih r' ms' t' (by omega) hr
          rw [h1]
          exact ⟨_, _, rfl⟩

end Verif.Proofs
