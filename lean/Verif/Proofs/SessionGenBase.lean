/-
Ties between the Lean text generated from `sansldap/_session.py` (`Verif/Generated/SessionGen.lean`) and the
hand model `Verif/Model/Session.lean`: abstraction / concretisation between the generated field record `St`
and the model's `Sess`, and the basic facts about the runtime (`Verif/PyRtSession.lean`).
-/
import Verif.Generated.SessionGen
import Verif.Model.Session

namespace Verif.Proofs.SessionGen

open Verif Verif.PyRtS Verif.SessionGen

/-! ### the state abstraction -/

def absState : SessionState → SState
  | .BEFORE_OPEN => .beforeOpen
  | .BINDING => .binding
  | .OPENED => .opened
  | .CLOSED => .closed

def concState : SState → SessionState
  | .beforeOpen => .BEFORE_OPEN
  | .binding => .BINDING
  | .opened => .OPENED
  | .closed => .CLOSED

/-- ABSTRACTION: the generated field record as a model session.  `role` (which class `self` is) and `regs`
    (custom types registered: part of the opaque `_packing_options`) are not fields of `St`. -/
def absS (r : Role) (regs : Regs) (st : St) : Sess :=
  { role := r, state := absState st.state, out := st.outgoing_buffer,
    outstanding := st.outstanding_requests, searches := st.search_requests,
    counter := st.message_counter, residue := st.incoming_buffer, regs := regs }

/-- CONCRETISATION: a model session as field record; `v` is the constant field `self.version` -/
def concS (v : Int) (s : Sess) : St :=
  { state := concState s.state, version := v, outgoing_buffer := s.out,
    outstanding_requests := s.outstanding, search_requests := s.searches,
    incoming_buffer := s.residue, message_counter := s.counter }

@[simp] theorem concState_absState (x : SessionState) : concState (absState x) = x := by cases x <;> rfl
@[simp] theorem absState_concState (x : SState) : absState (concState x) = x := by cases x <;> rfl

@[simp] theorem absState_bo : absState .BEFORE_OPEN = .beforeOpen := rfl
@[simp] theorem absState_bi : absState .BINDING = .binding := rfl
@[simp] theorem absState_op : absState .OPENED = .opened := rfl
@[simp] theorem absState_cl : absState .CLOSED = .closed := rfl

@[simp] theorem concS_absS (r : Role) (regs : Regs) (st : St) : concS st.version (absS r regs st) = st := by
  cases st; simp [concS, absS]

theorem absS_concS (v : Int) (s : Sess) : absS s.role s.regs (concS v s) = s := by
  cases s; simp [concS, absS]

@[simp] theorem absS_role (r regs st) : (absS r regs st).role = r := rfl
@[simp] theorem absS_regs (r regs st) : (absS r regs st).regs = regs := rfl
@[simp] theorem absS_out (r regs st) : (absS r regs st).out = st.outgoing_buffer := rfl
@[simp] theorem absS_outstanding (r regs st) : (absS r regs st).outstanding = st.outstanding_requests := rfl
@[simp] theorem absS_searches (r regs st) : (absS r regs st).searches = st.search_requests := rfl
@[simp] theorem absS_counter (r regs st) : (absS r regs st).counter = st.message_counter := rfl
@[simp] theorem absS_residue (r regs st) : (absS r regs st).residue = st.incoming_buffer := rfl
@[simp] theorem absS_state (r regs st) : (absS r regs st).state = absState st.state := rfl

@[simp] theorem concS_state (v s) : (concS v s).state = concState s.state := rfl
@[simp] theorem concS_version (v s) : (concS v s).version = v := rfl

theorem absState_eq_iff (x : SessionState) (y : SState) : absState x = y ↔ x = concState y := by
  cases x <;> cases y <;> simp [absState, concState]

/-- the state of a record written back from the model -/
theorem st_eq_concS (r : Role) (regs : Regs) (st : St) : st = concS st.version (absS r regs st) :=
  (concS_absS r regs st).symm

/-! ### constants read from the Python source = constants of the model -/

theorem oid_eq : ExtendedOperations_LDAP_NOTICE_OF_DISCONNECTION = Facts.oidNotice := by decide
theorem sasl_eq : LDAPResultCode_SASL_BIND_IN_PROGRESS = Facts.codeSaslBindInProgress := rfl
theorem protoerr_eq : LDAPResultCode_PROTOCOL_ERROR = Facts.codeProtocolError := rfl

/-! ### `isinstance` against the model's predicates -/

theorem isRequest_eq (m : Msg) : isInstance m Request_classes = m.op.isRequest := by
  cases m with | mk i op c => cases op <;> rfl

theorem isResponse_eq (m : Msg) : isInstance m Response_classes = m.op.isResponse := by
  cases m with | mk i op c => cases op <;> rfl

theorem isUnbind_eq (m : Msg) : isInstance m [.UnbindRequest] = m.op.isUnbind := by
  cases m with | mk i op c => cases op <;> rfl

theorem notice_eq (m : Msg) :
    (isInstance m [.ExtendedResponse] && (extRespName m == some ExtendedOperations_LDAP_NOTICE_OF_DISCONNECTION))
      = m.op.isNotice := by
  cases m with | mk i op c =>
  cases op <;> try rfl
  case extResp r n v =>
    cases n with
    | none => rfl
    | some x => simp [isInstance, classOf, extRespName, Op.isNotice, oid_eq]

theorem allowed_eq (m : Msg) :
    (isInstance m [.UnbindRequest, .BindRequest, .BindResponse]
      || (isInstance m [.ExtendedResponse] && (extRespName m == some ExtendedOperations_LDAP_NOTICE_OF_DISCONNECTION)))
      = allowedWhileBinding m.op := by
  rw [notice_eq]
  cases m with | mk i op c => cases op <;> simp [isInstance, classOf, allowedWhileBinding, Op.isNotice]

/-! ### slices -/

theorem clampIndex_eq (n : Nat) (a : Int) : PyRt.clampIndex n a = pySliceIdx a n := by
  unfold PyRt.clampIndex pySliceIdx
  by_cases h : a < 0
  · have h' : ¬ a ≥ 0 := by omega
    simp [h, h', Int.add_comm]
  · have h' : a ≥ 0 := by omega
    simp [h, h']

theorem clampIndex_len (l : List Nat) : PyRt.clampIndex l.length (PyRt.len l) = l.length := by
  have h : ¬ ((l.length : Int) < 0) := by omega
  simp [PyRt.clampIndex, PyRt.len, h]

end Verif.Proofs.SessionGen
