/-
C18 / BER decoding steps, part 6: the per-operation decoders, the message contents, the message,
and the parse loop of `receive`; then the bounds in closed form.
-/
import Verif.Proofs.MsgStepsOps

set_option linter.unusedSectionVars false

namespace Verif.Proofs.MsgSteps
open Verif Verif.MsgSteps Verif.Proofs

section
variable {A : Nat} (W : Nat) (hA : 16 ≤ A)
include hA

/-- the `_unpack_*` function of one operation, on the protocolOp content -/
theorem decOpS_spec (regs : Regs) (depth num : Nat) (c : Bytes) :
    Spec (decOpS W regs depth num c) (pot (A + 1) W c.length + 2) (fun _ => 0) := by
  simp only [decOpS]
  refine Spec.tick (by omega) ?_
  refine Spec.ite (fun _ => ?_) (fun _ => Spec.ite (fun _ => ?_) (fun _ =>
    Spec.ite (fun _ => Spec.pure (by omega)) (fun _ => Spec.ite (fun _ => ?_) (fun _ =>
    Spec.ite (fun _ => ?_) (fun _ => Spec.ite (fun _ => ?_) (fun _ => Spec.ite (fun _ => ?_) (fun _ =>
    Spec.ite (fun _ => ?_) (fun _ => Spec.ite (fun _ => ?_) (fun _ => Spec.fail)))))))))
  · -- BindRequest
    refine Spec.bind (intS W hA (by omega) _ c) (by ar) (fun p _ => ?_)
    obtain ⟨v, c1⟩ := p
    refine Spec.bind (textS W hA _ c1) (by ar) (fun p _ => ?_)
    obtain ⟨name, c2⟩ := p
    refine Spec.bind (decCredS_spec W hA regs c2) (by ar) (fun p _ => ?_)
    obtain ⟨cred, c3⟩ := p
    exact Spec.pure (by ar)
  · -- BindResponse
    refine Spec.bind (decResultS_spec W hA c) (by ar) (fun p _ => ?_)
    obtain ⟨r, c1⟩ := p
    refine Spec.bind (decOptLoopS_spec W hA _ _ _ _ c1 _ _) (by ar) (fun p _ => ?_)
    exact Spec.pure (by ar)
  · -- SearchRequest
    refine Spec.bind (octS W hA _ c) (by ar) (fun p _ => ?_)
    obtain ⟨base, c1⟩ := p
    have hbase := pot_ge A W base.length 1 (by omega)
    dsimp only at *
    refine Spec.bind (intS W hA (by omega) _ c1) (by ar) (fun p _ => ?_)
    obtain ⟨scope, c2⟩ := p
    refine Spec.ite (fun _ => Spec.fail) (fun _ => ?_)
    refine Spec.bind (intS W hA (by omega) _ c2) (by ar) (fun p _ => ?_)
    obtain ⟨deref, c3⟩ := p
    refine Spec.ite (fun _ => Spec.fail) (fun _ => ?_)
    refine Spec.bind (intS W hA (by omega) _ c3) (by ar) (fun p _ => ?_)
    obtain ⟨sl, c4⟩ := p
    refine Spec.bind (intS W hA (by omega) _ c4) (by ar) (fun p _ => ?_)
    obtain ⟨tl, c5⟩ := p
    refine Spec.bind (boolS W hA _ c5) (by ar) (fun p _ => ?_)
    obtain ⟨ty, c6⟩ := p
    refine Spec.bind (decFilterS_spec W hA regs depth c6) (by ar) (fun p _ => ?_)
    obtain ⟨f, c7⟩ := p
    refine Spec.bind (tlvS W hA _ c7) (by ar) (fun p _ => ?_)
    obtain ⟨ac, c8⟩ := p
    refine Spec.bind (loopManyS_spec (pot (A + 1) W) 0 _ (textS_elem W hA _) _ ac) (by ar)
      (fun attrs _ => ?_)
    refine Spec.bind (Bx := base.length) (Q := fun _ => 0)
      (Spec.lift (Nat.le_refl _) (fun _ _ => by omega)) (by ar) (fun b _ => ?_)
    exact Spec.pure (by ar)
  · -- SearchResultEntry
    refine Spec.bind (textS W hA _ c) (by ar) (fun p _ => ?_)
    obtain ⟨name, c1⟩ := p
    refine Spec.bind (tlvS W hA _ c1) (by ar) (fun p _ => ?_)
    obtain ⟨ac, c2⟩ := p
    refine Spec.bind (loopManyS_spec (pot (A + 1) W) 1 _ (decAttrS_spec W hA) _ ac) (by ar)
      (fun attrs _ => ?_)
    exact Spec.pure (by ar)
  · -- SearchResultDone
    refine Spec.bind (decResultS_spec W hA c) (by ar) (fun p _ => ?_)
    exact Spec.pure (by ar)
  · -- SearchResultReference
    refine Spec.bind (loopManyS_spec (pot (A + 1) W) 0 _ (textS_elem W hA _) _ c) (by ar)
      (fun uris _ => ?_)
    exact Spec.pure (by ar)
  · -- ExtendedRequest
    refine Spec.bind (textS W hA _ c) (by ar) (fun p _ => ?_)
    obtain ⟨name, c1⟩ := p
    have := potPeeked_le W hA c1
    refine Spec.bind (decOptLoopS_spec W hA _ _ _ _ c1 _ _) (by ar) (fun p _ => ?_)
    exact Spec.pure (by ar)
  · -- ExtendedResponse
    refine Spec.bind (decResultS_spec W hA c) (by ar) (fun p _ => ?_)
    obtain ⟨r, c1⟩ := p
    refine Spec.bind (decOptLoopS_spec W hA _ _ _ _ c1 _ _) (by ar) (fun p _ => ?_)
    exact Spec.pure (by ar)

/-- `_unpack_ldap_message_contents` on the content of the envelope -/
theorem decContentsS_spec (regs : Regs) (depth : Nat) (c : Bytes) :
    Spec (decContentsS W regs depth c) (pot (A + 1 + 1) W c.length + 1) (fun _ => 0) := by
  have hA1 : 16 ≤ A + 1 := by omega
  simp only [decContentsS]
  refine Spec.tick (by omega) ?_
  refine Spec.bind (intS W hA1 (by omega) _ c) (by ar) (fun p _ => ?_)
  obtain ⟨id, m1⟩ := p
  refine Spec.bind (peekS W hA1 m1) (by ar) (fun h hh => ?_)
  have hh' : readHeader m1 = .ok h := by rw [← readHeaderS_res W]; exact hh
  have hl := hlen_le_hcost W m1 h hh'
  refine Spec.ite (fun _ => Spec.fail) (fun _ => ?_)
  refine Spec.tick (by ar) ?_
  refine Spec.ite (fun _ => Spec.fail) (fun _ => ?_)
  refine Spec.bind (tlvA W hA1 none m1 h hh') (by ar) (fun p _ => ?_)
  obtain ⟨opc, m2⟩ := p
  refine Spec.bind (decEnvelopeLoopS_spec W hA regs _ m2 _ _) (by ar) (fun p _ => ?_)
  obtain ⟨controls, respName⟩ := p
  refine Spec.bind (decOpS_spec W hA1 regs depth _ opc) (by ar) (fun op _ => ?_)
  exact Spec.pure (by ar)

/-- `unpack_ldap_message`: given two steps, a message leaves the potential of what follows it in
    the buffer, and seven steps -/
theorem decMsgS_spec (regs : Regs) (depth : Nat) (bs : Bytes) :
    Spec (decMsgS W regs depth bs) (pot (A + 1 + 1) W bs.length + 2)
      (fun p => 7 + pot (A + 1 + 1) W p.2.length) := by
  have hA1 : 16 ≤ A + 1 := by omega
  have hT := tlvS W hA1 (some tSeq) bs
  simp only [decMsgS]
  refine Spec.tick (by omega) ?_
  cases hx : readTLVS W (some tSeq) bs with
  | mk r k =>
    rw [hx] at hT
    cases r with
    | error e =>
      unfold Spec at hT ⊢
      simp only at hT ⊢
      omega
    | ok p =>
      obtain ⟨c, rest⟩ := p
      have hC := decContentsS_spec W hA regs depth c
      cases hy : decContentsS W regs depth c with
      | mk r2 n =>
        rw [hy] at hC
        cases r2 with
        | error e =>
          cases e <;>
          · unfold Spec at hT hC ⊢
            simp only [TQ, hy] at hT hC ⊢
            omega
        | ok m =>
          unfold Spec at hT hC ⊢
          simp only [TQ, hy] at hT hC ⊢
          omega

/-- the parse loop of `receive`: the messages of a buffer are decoded one after the other, each
    from the potential of its own octets -/
theorem parseLoopS_spec (regs : Regs) (depth : Nat) : ∀ (fuel : Nat) (bs : Bytes),
    Spec (parseLoopS W regs depth fuel bs) (pot (A + 1 + 1) W bs.length + 7) (fun _ => 0) := by
  intro fuel
  induction fuel with
  | zero =>
    intro bs
    simp only [parseLoopS]
    refine Spec.tick (by omega) ?_
    exact Spec.ite (fun _ => Spec.pure (by omega)) (fun _ => Spec.fail)
  | succ n ih =>
    intro bs
    simp only [parseLoopS]
    refine Spec.tick (by omega) ?_
    refine Spec.ite (fun _ => Spec.pure (by omega)) (fun _ => ?_)
    have hM := decMsgS_spec W hA regs depth bs
    cases hx : decMsgS W regs depth bs with
    | mk r k =>
      rw [hx] at hM
      cases r with
      | error e =>
        cases e <;>
        · unfold Spec at hM ⊢
          simp only [D] at hM ⊢
          omega
      | ok p =>
        obtain ⟨m, r⟩ := p
        have hI := ih r
        cases hy : parseLoopS W regs depth n r with
        | mk r2 k2 =>
          rw [hy] at hI
          cases r2 with
          | error e =>
            unfold Spec at hM hI ⊢
            simp only [hy] at hM hI ⊢
            omega
          | ok q =>
            obtain ⟨ms, rest⟩ := q
            unfold Spec at hM hI ⊢
            simp only [hy] at hM hI ⊢
            omega

end

end Verif.Proofs.MsgSteps
