/-
`receive`: `LDAPSession.receive` for both classes of `self`, and the wrappers `LDAPClient.receive`,
`LDAPServer.receive` that attach the notification: generated text = the model's `recv`, when the abstracted
unpacking statement did what the model's parse loop does.
-/
import Verif.Proofs.SessionGenRecv

set_option linter.unusedSimpArgs false

namespace Verif.Proofs.SessionGen

open Verif Verif.PyRtS Verif.SessionGen

/-- exception class of the unpacking statement for an error class of the model's parse loop -/
def excOfErr : Err → Exc
  | .valueError => .valueError
  | .notImpl => .notImplementedError
  | .recursion => .recursionError
  | .notEnough => .valueError      -- never the result of `parseLoop`

/-- ASSUMPTION about the abstracted statement (the unpacking half of `receive`): it leaves `incoming_msgs`
    and `_incoming_buffer` as the model's `parseLoop` says and raises the class it says.
    The components are ordered as the generated parameter `abs1` orders them: (`_incoming_buffer`,
    `incoming_msgs`). -/
def unpackOracle (regs : Regs) (depth : Nat) (residue chunk : Bytes) : Abstracted (List Nat × List Msg) :=
  match parseLoop regs depth (residue ++ chunk).length (residue ++ chunk) with
  | .ok (ms, rest) => ⟨(rest, ms), none⟩
  | .error e => ⟨(residue ++ chunk, []), some (excOfErr e)⟩

/-- what `e.response` is for each `Notification` of the model (`text` is `str(e)`) -/
def notifBytes (text : Bytes) : Notification → Option Bytes
  | .none => none
  | .unbind => some (encMsg unbindMsg)
  | .notice => some (encMsg (noticeMsg text))

/-- `e.request` of the ProtocolError `receive` raises -/
def recvRequest (depth : Nat) (s : Sess) (chunk : Bytes) : Option Msg :=
  if s.state = .closed then none
  else
    match parseLoop s.regs depth (s.residue ++ chunk).length (s.residue ++ chunk) with
    | .ok (ms, rest) =>
      match processLoop { s with residue := rest } ms with
      | .protoErr _ _ _ => offender { s with residue := rest } ms
      | _ => none
    | .error _ => none

/-- the generated result of `receive` for a result of the model's `recv` -/
def recvRes (v : Int) (text : Bytes) (req : Option Msg) : Sess × Outcome → Res St (List Msg)
  | (s, .msgs ms) => (.ok ms, concS v s)
  | (s, .protocolError n) => (.error (.protocolError req (notifBytes text n)), concS v s)
  | (s, .keyError) => (.error .keyError, concS v s)
  | (s, _) => (.error .ldapError, concS v s)      -- `recv` has no other outcome

/-! ### the two flags of the model against the message the exception carries -/

theorem notice_not_unbind {o : Op} (h : o.isNotice = true) : o.isUnbind = false := by
  cases o <;> simp_all [Op.isNotice, Op.isUnbind]

theorem offender_flags : ∀ (ms : List Msg) (s s' : Sess) (u n : Bool),
    processLoop s ms = .protoErr s' u n →
      isInstanceOpt (offender s ms) [.UnbindRequest] = u ∧
      (isInstanceOpt (offender s ms) [.ExtendedResponse]
        && (extRespNameOpt (offender s ms) == some ExtendedOperations_LDAP_NOTICE_OF_DISCONNECTION)) = n := by
  intro ms
  induction ms with
  | nil => intro s s' u n h; simp [processLoop] at h
  | cons m ms ih =>
    intro s s' u n h
    rw [processLoop] at h
    rw [offender]
    by_cases hn : m.op.isNotice = true
    · simp only [hn, if_true] at h ⊢
      cases h
      have := notice_eq m
      have hu := isUnbind_eq m
      rw [notice_not_unbind hn] at hu
      simp [isInstanceOpt, extRespNameOpt, hu, this, hn]
    · by_cases hu : m.op.isUnbind = true
      · simp only [hn, hu, if_true, if_false] at h ⊢
        cases h
        have := notice_eq m
        have hu' := isUnbind_eq m
        simp [isInstanceOpt, extRespNameOpt, hu', hu]
        simpa [hn] using this
      · simp only [hn, hu, if_false] at h ⊢
        cases hr : s.role with
        | client =>
          simp only [hr] at h ⊢
          cases hp : clientProcess s m with
          | none => simp only [hp] at h ⊢; cases h; simp [isInstanceOpt, extRespNameOpt]
          | some p =>
            rcases p with ⟨s1, b⟩
            cases b
            · simp only [hp] at h ⊢; exact ih _ _ _ _ h
            · simp only [hp] at h; cases h
        | server =>
          simp only [hr] at h ⊢
          cases hp : serverProcess s m with
          | none => simp only [hp] at h ⊢; cases h; simp [isInstanceOpt, extRespNameOpt]
          | some s1 => simp only [hp] at h ⊢; exact ih _ _ _ _ h

/-! ### `LDAPClient.receive` -/

theorem state_closed_iff (st : St) : (absS r regs st).state = .closed ↔ st.state = .CLOSED := by
  cases h : st.state <;> simp [absState, h]

theorem absS_residue_upd (r : Role) (regs : Regs) (st : St) (rest : Bytes) :
    ({ role := r, state := (absS r regs st).state, out := (absS r regs st).out,
       outstanding := (absS r regs st).outstanding, searches := (absS r regs st).searches,
       counter := (absS r regs st).counter, residue := rest, regs := regs } : Sess)
      = absS r regs { st with incoming_buffer := rest } := rfl

theorem client_receive_eq (regs : Regs) (depth : Nat) (st : St) (chunk : Bytes) :
    LDAPClient_receive st chunk (unpackOracle regs depth st.incoming_buffer chunk)
      = recvRes st.version [] (recvRequest depth (absS .client regs st) chunk)
          (recv depth (absS .client regs st) chunk) := by
  unfold LDAPClient_receive LDAPClient_LDAPSession_receive recv recvRequest unpackOracle
  by_cases hc : st.state = .CLOSED
  · have hc' : (absS .client regs st).state = .closed := (state_closed_iff st).2 hc
    simp [hc, recvRes, notificationFor, notifBytes, isInstanceOpt, unbindMsg, absState]
  · have hc' : ¬ (absS .client regs st).state = .closed := fun h => hc ((state_closed_iff st).1 h)
    simp only [hc', if_false, absS_regs, absS_residue, absS_role]
    simp only [beq_iff_eq, hc, if_false]
    cases hpl : parseLoop regs depth (st.incoming_buffer ++ chunk).length (st.incoming_buffer ++ chunk) with
    | error e =>
      cases e <;>
        simp [excOfErr, recvRes, closeSess, notificationFor, notifBytes, isInstanceOpt, unbindMsg, concS, absS,
          concState]
    | ok p =>
      rcases p with ⟨ms, rest⟩
      simp only []
      rw [client_loop_eq regs]
      rw [absS_residue_upd]
      generalize absS .client regs { st with incoming_buffer := rest } = s1
      cases hpr : processLoop s1 ms with
      | ok s2 => simp [loopRes, recvRes]
      | keyErr s2 => simp [loopRes, recvRes]
      | protoErr s2 u n =>
        obtain ⟨hu, hn⟩ := offender_flags _ _ _ _ _ hpr
        simp only [loopRes, recvRes, Res.bind_error, Res.tryCatch_error, hu, hn]
        cases ho : offender s1 ms <;> cases u <;> cases n <;>
          simp_all [notificationFor, notifBytes, closeSess, concS, concState, unbindMsg, isInstanceOpt]

/-! ### `LDAPServer.receive` -/

theorem server_receive_eq (regs : Regs) (depth : Nat) (st : St) (chunk : Bytes) (text : Bytes) :
    LDAPServer_receive st chunk (unpackOracle regs depth st.incoming_buffer chunk) text
      = recvRes st.version text (recvRequest depth (absS .server regs st) chunk)
          (recv depth (absS .server regs st) chunk) := by
  unfold LDAPServer_receive LDAPServer_LDAPSession_receive recv recvRequest unpackOracle
  by_cases hc : st.state = .CLOSED
  · have hc' : (absS .server regs st).state = .closed := (state_closed_iff st).2 hc
    simp [hc, recvRes, notificationFor, notifBytes, isInstanceOpt, noticeMsg, oid_eq, protoerr_eq, absState]
  · have hc' : ¬ (absS .server regs st).state = .closed := fun h => hc ((state_closed_iff st).1 h)
    simp only [hc', if_false, absS_regs, absS_residue, absS_role]
    simp only [beq_iff_eq, hc, if_false]
    cases hpl : parseLoop regs depth (st.incoming_buffer ++ chunk).length (st.incoming_buffer ++ chunk) with
    | error e =>
      cases e <;>
        simp [excOfErr, recvRes, closeSess, notificationFor, notifBytes, isInstanceOpt, noticeMsg, oid_eq, protoerr_eq, concS, absS,
          concState]
    | ok p =>
      rcases p with ⟨ms, rest⟩
      simp only []
      rw [server_loop_eq regs]
      rw [absS_residue_upd]
      generalize absS .server regs { st with incoming_buffer := rest } = s1
      cases hpr : processLoop s1 ms with
      | ok s2 => simp [loopRes, recvRes]
      | keyErr s2 => simp [loopRes, recvRes]
      | protoErr s2 u n =>
        obtain ⟨hu, hn⟩ := offender_flags _ _ _ _ _ hpr
        simp only [loopRes, recvRes, Res.bind_error, Res.tryCatch_error, hu, hn]
        cases ho : offender s1 ms <;> cases u <;> cases n <;>
          simp_all [notificationFor, notifBytes, closeSess, concS, concState, noticeMsg, oid_eq, protoerr_eq, isInstanceOpt]

/-! ### the incoming buffer after a failed unpacking

`unpackOracle` follows the model: after an error `_incoming_buffer` is `residue ++ chunk`.  The Python does that
only when the buffer was non-empty before the call; with an empty buffer it parses `data` in place and leaves
the buffer EMPTY.  The session is CLOSED then and nothing reads the buffer again; the two theorems below say
that whatever the statement leaves there, every other field and the outcome are as `tie_*_receive` say. -/

/-- as `unpackOracle`, with `b` in `_incoming_buffer` after an error -/
def unpackOracleB (b : Bytes) (regs : Regs) (depth : Nat) (residue chunk : Bytes) :
    Abstracted (List Nat × List Msg) :=
  match parseLoop regs depth (residue ++ chunk).length (residue ++ chunk) with
  | .ok (ms, rest) => ⟨(rest, ms), none⟩
  | .error e => ⟨(b, []), some (excOfErr e)⟩

/-- forget `_incoming_buffer` -/
def forgetIn {α : Type} (x : Res St α) : Res St α := (x.1, { x.2 with incoming_buffer := [] })

theorem client_receive_any_buffer (b : Bytes) (regs : Regs) (depth : Nat) (st : St) (chunk : Bytes) :
    forgetIn (LDAPClient_receive st chunk (unpackOracleB b regs depth st.incoming_buffer chunk))
      = forgetIn (LDAPClient_receive st chunk (unpackOracle regs depth st.incoming_buffer chunk)) := by
  unfold LDAPClient_receive LDAPClient_LDAPSession_receive unpackOracleB unpackOracle
  by_cases hc : st.state = .CLOSED
  · simp [hc]
  · simp only [beq_iff_eq, hc, if_false]
    cases hpl : parseLoop regs depth (st.incoming_buffer ++ chunk).length (st.incoming_buffer ++ chunk) with
    | error e => cases e <;> simp [excOfErr, forgetIn]
    | ok p => rfl

theorem server_receive_any_buffer (b : Bytes) (regs : Regs) (depth : Nat) (st : St) (chunk text : Bytes) :
    forgetIn (LDAPServer_receive st chunk (unpackOracleB b regs depth st.incoming_buffer chunk) text)
      = forgetIn (LDAPServer_receive st chunk (unpackOracle regs depth st.incoming_buffer chunk) text) := by
  unfold LDAPServer_receive LDAPServer_LDAPSession_receive unpackOracleB unpackOracle
  by_cases hc : st.state = .CLOSED
  · simp [hc]
  · simp only [beq_iff_eq, hc, if_false]
    cases hpl : parseLoop regs depth (st.incoming_buffer ++ chunk).length (st.incoming_buffer ++ chunk) with
    | error e => cases e <;> simp [excOfErr, forgetIn]
    | ok p => rfl

end Verif.Proofs.SessionGen
