/-
`receive`: `LDAPSession.receive` for both classes of `self`, and the wrappers `LDAPClient.receive`,
`LDAPServer.receive` that attach the notification: generated text = the model's `recv`.

Round 12 (audit item S2): the unpacking statement of `receive` is translated too; the only parameter left is
`unpack` = the call `unpack_ldap_message(reader, options)`, instantiated here with the model's one-message decoder
`decMsg regs depth`.  The loop theorems are in `SessionGenUnpack.lean`; `parseLoop` is now what the generated loops
are PROVED to compute, not an assumption about an abstracted statement.
-/
import Verif.Proofs.SessionGenUnpack

set_option linter.unusedSimpArgs false

namespace Verif.Proofs.SessionGen

open Verif Verif.PyRtS Verif.SessionGen

/-- exception class of the unpacking for an error class of the model's parse loop (= the runtime's `unpackExc`) -/
abbrev excOfErr : Err → Exc := unpackExc

/-- what the Python leaves in `_incoming_buffer` when the unpacking RAISES: with a non-empty buffer the buffer
    extended by `data` (the assignment after the loop is not reached); with an empty buffer it parses `data` in
    place and the buffer stays empty.  (The model's `recv` has `residue ++ chunk` in both cases.) -/
def pyResidueOnError (residue chunk : Bytes) : Bytes := if residue.isEmpty then [] else residue ++ chunk

/-- the model's `recv` with the ONE difference between model and code made explicit: the residue after a failed
    unpacking (see `pyResidueOnError`); everything else is `recv` verbatim (`recvPy_eq_recv`, `recvPy_forget`) -/
def recvPy (depth : Nat) (s : Sess) (chunk : Bytes) : Sess × Outcome :=
  if s.state = .closed then (s, .protocolError (notificationFor s.role false false))
  else
    let buf := s.residue ++ chunk
    match parseLoop s.regs depth buf.length buf with
    | .error _ =>
      (closeSess { s with residue := pyResidueOnError s.residue chunk },
        .protocolError (notificationFor s.role false false))
    | .ok (ms, rest) =>
      let s1 := { s with residue := rest }
      match processLoop s1 ms with
      | .ok s2 => (s2, .msgs ms)
      | .protoErr s2 u n => (closeSess s2, .protocolError (notificationFor s.role u n))
      | .keyErr s2 => (s2, .keyError)

/-- `recvPy` is `recv` whenever the buffer was non-empty before the call, or the unpacking does not raise -/
theorem recvPy_eq_recv (depth : Nat) (s : Sess) (chunk : Bytes)
    (h : s.residue ≠ [] ∨ ∃ p, parseLoop s.regs depth (s.residue ++ chunk).length (s.residue ++ chunk) = .ok p) :
    recvPy depth s chunk = recv depth s chunk := by
  unfold recvPy recv
  split
  · rfl
  · dsimp only
    cases hpl : parseLoop s.regs depth (s.residue ++ chunk).length (s.residue ++ chunk) with
    | ok p => rfl
    | error e =>
      rcases h with h | ⟨p, hp⟩
      · cases hr : s.residue with
        | nil => exact absurd hr h
        | cons b bs => simp [pyResidueOnError]
      · rw [hpl] at hp; cases hp

/-- forget the residue -/
def forgetResidue (x : Sess × Outcome) : Sess × Outcome := ({ x.1 with residue := [] }, x.2)

/-- in every case `recvPy` and `recv` differ at most in the residue, and only in a session that is CLOSED -/
theorem recvPy_forget (depth : Nat) (s : Sess) (chunk : Bytes) :
    forgetResidue (recvPy depth s chunk) = forgetResidue (recv depth s chunk) := by
  unfold recvPy recv
  split
  · rfl
  · dsimp only
    cases hpl : parseLoop s.regs depth (s.residue ++ chunk).length (s.residue ++ chunk) with
    | ok p => rfl
    | error e => simp [forgetResidue, closeSess]

theorem recvPy_differs_only_closed (depth : Nat) (s : Sess) (chunk : Bytes)
    (h : recvPy depth s chunk ≠ recv depth s chunk) :
    (recvPy depth s chunk).1.state = .closed ∧ (recv depth s chunk).1.state = .closed := by
  unfold recvPy recv at h ⊢
  split
  · rename_i hc; simp [hc] at h
  · rename_i hc
    simp only [hc, if_false] at h
    dsimp only at h ⊢
    cases hpl : parseLoop s.regs depth (s.residue ++ chunk).length (s.residue ++ chunk) with
    | ok p => rw [hpl] at h; exact absurd rfl h
    | error e => simp [closeSess]

/-- what `e.response` is for each `Notification` of the model (`text` is `str(e)`) -/
def notifBytes (text : Bytes) : Notification → Option Bytes
  | .none => none
  | .unbind => some (encMsg unbindMsg)
  | .notice => some (encMsg (noticeMsg text))

/-- `e.request` of the ProtocolError `receive` raises -/
def recvRequest (depth : Nat) (s : Sess) (chunk : Bytes) : Option Msg :=
  if s.state = .closed then none
  else
    match parseLoop s.regs depth (s.residue ++ chunk).length (s.residue ++ chunk) with
    | .ok (ms, rest) =>
      match processLoop { s with residue := rest } ms with
      | .protoErr _ _ _ => offender { s with residue := rest } ms
      | _ => none
    | .error _ => none

/-- the generated result of `receive` for a result of the model's `recv` -/
def recvRes (v : Int) (text : Bytes) (req : Option Msg) : Sess × Outcome → Res St (List Msg)
  | (s, .msgs ms) => (.ok ms, concS v s)
  | (s, .protocolError n) => (.error (.protocolError req (notifBytes text n)), concS v s)
  | (s, .keyError) => (.error .keyError, concS v s)
  | (s, _) => (.error .ldapError, concS v s)      -- `recv` has no other outcome

/-! ### the two flags of the model against the message the exception carries -/

theorem notice_not_unbind {o : Op} (h : o.isNotice = true) : o.isUnbind = false := by
  cases o <;> simp_all [Op.isNotice, Op.isUnbind]

theorem offender_flags : ∀ (ms : List Msg) (s s' : Sess) (u n : Bool),
    processLoop s ms = .protoErr s' u n →
      isInstanceOpt (offender s ms) [.UnbindRequest] = u ∧
      (isInstanceOpt (offender s ms) [.ExtendedResponse]
        && (extRespNameOpt (offender s ms) == some ExtendedOperations_LDAP_NOTICE_OF_DISCONNECTION)) = n := by
  intro ms
  induction ms with
  | nil => intro s s' u n h; simp [processLoop] at h
  | cons m ms ih =>
    intro s s' u n h
    rw [processLoop] at h
    rw [offender]
    by_cases hn : m.op.isNotice = true
    · simp only [hn, if_true] at h ⊢
      cases h
      have := notice_eq m
      have hu := isUnbind_eq m
      rw [notice_not_unbind hn] at hu
      simp [isInstanceOpt, extRespNameOpt, hu, this, hn]
    · by_cases hu : m.op.isUnbind = true
      · simp only [hn, hu, if_true, if_false] at h ⊢
        cases h
        have := notice_eq m
        have hu' := isUnbind_eq m
        simp [isInstanceOpt, extRespNameOpt, hu', hu]
        simpa [hn] using this
      · simp only [hn, hu, if_false] at h ⊢
        cases hr : s.role with
        | client =>
          simp only [hr] at h ⊢
          cases hp : clientProcess s m with
          | none => simp only [hp] at h ⊢; cases h; simp [isInstanceOpt, extRespNameOpt]
          | some p =>
            rcases p with ⟨s1, b⟩
            cases b
            · simp only [hp] at h ⊢; exact ih _ _ _ _ h
            · simp only [hp] at h; cases h
        | server =>
          simp only [hr] at h ⊢
          cases hp : serverProcess s m with
          | none => simp only [hp] at h ⊢; cases h; simp [isInstanceOpt, extRespNameOpt]
          | some s1 => simp only [hp] at h ⊢; exact ih _ _ _ _ h

/-! ### `LDAPClient.receive` -/

theorem state_closed_iff (st : St) : (absS r regs st).state = .closed ↔ st.state = .CLOSED := by
  cases h : st.state <;> simp [absState, h]

theorem absS_residue_upd (r : Role) (regs : Regs) (st : St) (rest : Bytes) :
    ({ role := r, state := (absS r regs st).state, out := (absS r regs st).out,
       outstanding := (absS r regs st).outstanding, searches := (absS r regs st).searches,
       counter := (absS r regs st).counter, residue := rest, regs := regs } : Sess)
      = absS r regs { st with incoming_buffer := rest } := rfl

theorem client_receive_eq (regs : Regs) (depth : Nat) (st : St) (chunk : Bytes) :
    LDAPClient_receive st chunk (decMsg regs depth)
      = recvRes st.version [] (recvRequest depth (absS .client regs st) chunk)
          (recvPy depth (absS .client regs st) chunk) := by
  unfold LDAPClient_receive LDAPClient_LDAPSession_receive recvPy recvRequest
  by_cases hc : st.state = .CLOSED
  · have hc' : (absS .client regs st).state = .closed := (state_closed_iff st).2 hc
    simp [hc, recvRes, notificationFor, notifBytes, isInstanceOpt, unbindMsg, absState]
  · have hc' : ¬ (absS .client regs st).state = .closed := fun h => hc ((state_closed_iff st).1 h)
    simp only [hc', if_false, absS_regs, absS_residue, absS_role]
    simp only [beq_iff_eq, hc, if_false]
    -- both paths compute `parseLoop` on `_incoming_buffer ++ data` (`client_while1_eq`, `client_while2_eq`)
    have hbody : ∀ (k : List Msg → St → Res St (List Msg)),
        (if (!(st.incoming_buffer).isEmpty) = true then
          (Res.bind (LDAPClient_LDAPSession_receive_while1 (decMsg regs depth) (st.incoming_buffer ++ chunk).length
              (st.incoming_buffer ++ chunk) [] { st with incoming_buffer := st.incoming_buffer ++ chunk })
            fun w self => k w.2 { self with incoming_buffer := w.1 })
        else
          (Res.bind (LDAPClient_LDAPSession_receive_while2 (decMsg regs depth) chunk.length chunk [] st)
            fun w self => k w.2 self))
        = match parseLoop regs depth (st.incoming_buffer ++ chunk).length (st.incoming_buffer ++ chunk) with
          | .ok (ms, rest) => k ms { st with incoming_buffer := rest }
          | .error e => (.error (unpackExc e), { st with incoming_buffer := pyResidueOnError st.incoming_buffer chunk }) := by
      intro k
      cases hb : st.incoming_buffer with
      | nil =>
        simp only [List.isEmpty_nil, Bool.not_true, Bool.false_eq_true, if_false, List.nil_append]
        rw [client_while2_eq regs depth _ _ _ _ hb]
        cases parseLoop regs depth chunk.length chunk with
        | error e =>
          have : ({ st with incoming_buffer := [] } : St) = st := st_set_in_nil st hb
          simp [whileResDirect, pyResidueOnError, ← hb, this]
        | ok q => rcases q with ⟨ms, rest⟩; simp [whileResDirect]
      | cons b bs =>
        simp only [List.isEmpty_cons, Bool.not_false, if_true]
        rw [client_while1_eq]
        cases parseLoop regs depth (b :: bs ++ chunk).length (b :: bs ++ chunk) with
        | error e => simp [whileRes, pyResidueOnError]
        | ok q => rcases q with ⟨ms, rest⟩; simp [whileRes]
    have hb2 := hbody (fun ms self =>
      Res.bind (LDAPClient_LDAPSession_receive_for1 ms self) fun _ self => (.ok ms, self))

    rw [hb2]
    clear hb2 hbody
    cases hpl : parseLoop regs depth (st.incoming_buffer ++ chunk).length (st.incoming_buffer ++ chunk) with
    | error e =>
      cases e <;>
        simp [unpackExc, recvRes, closeSess, notificationFor, notifBytes, isInstanceOpt, unbindMsg, concS, absS,
          concState]
    | ok p =>
      rcases p with ⟨ms, rest⟩
      simp only []
      rw [client_loop_eq regs]
      rw [absS_residue_upd]
      generalize absS .client regs { st with incoming_buffer := rest } = s1
      cases hpr : processLoop s1 ms with
      | ok s2 => simp [loopRes, recvRes]
      | keyErr s2 => simp [loopRes, recvRes]
      | protoErr s2 u n =>
        obtain ⟨hu, hn⟩ := offender_flags _ _ _ _ _ hpr
        simp only [loopRes, recvRes, Res.bind_error, Res.tryCatch_error, hu, hn]
        cases ho : offender s1 ms <;> cases u <;> cases n <;>
          simp_all [notificationFor, notifBytes, closeSess, concS, concState, unbindMsg, isInstanceOpt]

/-! ### `LDAPServer.receive` -/

theorem server_receive_eq (regs : Regs) (depth : Nat) (st : St) (chunk : Bytes) (text : Bytes) :
    LDAPServer_receive st chunk (decMsg regs depth) text
      = recvRes st.version text (recvRequest depth (absS .server regs st) chunk)
          (recvPy depth (absS .server regs st) chunk) := by
  unfold LDAPServer_receive LDAPServer_LDAPSession_receive recvPy recvRequest
  by_cases hc : st.state = .CLOSED
  · have hc' : (absS .server regs st).state = .closed := (state_closed_iff st).2 hc
    simp [hc, recvRes, notificationFor, notifBytes, isInstanceOpt, noticeMsg, oid_eq, protoerr_eq, absState]
  · have hc' : ¬ (absS .server regs st).state = .closed := fun h => hc ((state_closed_iff st).1 h)
    simp only [hc', if_false, absS_regs, absS_residue, absS_role]
    simp only [beq_iff_eq, hc, if_false]
    -- both paths compute `parseLoop` on `_incoming_buffer ++ data` (`server_while1_eq`, `server_while2_eq`)
    have hbody : ∀ (k : List Msg → St → Res St (List Msg)),
        (if (!(st.incoming_buffer).isEmpty) = true then
          (Res.bind (LDAPServer_LDAPSession_receive_while1 (decMsg regs depth) (st.incoming_buffer ++ chunk).length
              (st.incoming_buffer ++ chunk) [] { st with incoming_buffer := st.incoming_buffer ++ chunk })
            fun w self => k w.2 { self with incoming_buffer := w.1 })
        else
          (Res.bind (LDAPServer_LDAPSession_receive_while2 (decMsg regs depth) chunk.length chunk [] st)
            fun w self => k w.2 self))
        = match parseLoop regs depth (st.incoming_buffer ++ chunk).length (st.incoming_buffer ++ chunk) with
          | .ok (ms, rest) => k ms { st with incoming_buffer := rest }
          | .error e => (.error (unpackExc e), { st with incoming_buffer := pyResidueOnError st.incoming_buffer chunk }) := by
      intro k
      cases hb : st.incoming_buffer with
      | nil =>
        simp only [List.isEmpty_nil, Bool.not_true, Bool.false_eq_true, if_false, List.nil_append]
        rw [server_while2_eq regs depth _ _ _ _ hb]
        cases parseLoop regs depth chunk.length chunk with
        | error e =>
          have : ({ st with incoming_buffer := [] } : St) = st := st_set_in_nil st hb
          simp [whileResDirect, pyResidueOnError, ← hb, this]
        | ok q => rcases q with ⟨ms, rest⟩; simp [whileResDirect]
      | cons b bs =>
        simp only [List.isEmpty_cons, Bool.not_false, if_true]
        rw [server_while1_eq]
        cases parseLoop regs depth (b :: bs ++ chunk).length (b :: bs ++ chunk) with
        | error e => simp [whileRes, pyResidueOnError]
        | ok q => rcases q with ⟨ms, rest⟩; simp [whileRes]
    have hb2 := hbody (fun ms self =>
      Res.bind (LDAPServer_LDAPSession_receive_for1 ms self) fun _ self => (.ok ms, self))

    rw [hb2]
    clear hb2 hbody
    cases hpl : parseLoop regs depth (st.incoming_buffer ++ chunk).length (st.incoming_buffer ++ chunk) with
    | error e =>
      cases e <;>
        simp [unpackExc, recvRes, closeSess, notificationFor, notifBytes, isInstanceOpt, noticeMsg, oid_eq, protoerr_eq, concS, absS,
          concState]
    | ok p =>
      rcases p with ⟨ms, rest⟩
      simp only []
      rw [server_loop_eq regs]
      rw [absS_residue_upd]
      generalize absS .server regs { st with incoming_buffer := rest } = s1
      cases hpr : processLoop s1 ms with
      | ok s2 => simp [loopRes, recvRes]
      | keyErr s2 => simp [loopRes, recvRes]
      | protoErr s2 u n =>
        obtain ⟨hu, hn⟩ := offender_flags _ _ _ _ _ hpr
        simp only [loopRes, recvRes, Res.bind_error, Res.tryCatch_error, hu, hn]
        cases ho : offender s1 ms <;> cases u <;> cases n <;>
          simp_all [notificationFor, notifBytes, closeSess, concS, concState, noticeMsg, oid_eq, protoerr_eq, isInstanceOpt]

/-! ### the incoming buffer after a failed unpacking

The one place where the code and the model's `recv` differ (`pyResidueOnError`) is invisible in every other field
and in the outcome: -/

/-- forget `_incoming_buffer` -/
def forgetIn {α : Type} (x : Res St α) : Res St α := (x.1, { x.2 with incoming_buffer := [] })

theorem forgetIn_recvRes (v : Int) (text : Bytes) (req : Option Msg) (x : Sess × Outcome) :
    forgetIn (recvRes v text req x) = forgetIn (recvRes v text req (forgetResidue x)) := by
  rcases x with ⟨s, o⟩
  cases o <;> simp [recvRes, forgetIn, forgetResidue, concS]

theorem client_receive_any_buffer (regs : Regs) (depth : Nat) (st : St) (chunk : Bytes) :
    forgetIn (LDAPClient_receive st chunk (decMsg regs depth))
      = forgetIn (recvRes st.version [] (recvRequest depth (absS .client regs st) chunk)
          (recv depth (absS .client regs st) chunk)) := by
  rw [client_receive_eq, forgetIn_recvRes, recvPy_forget, ← forgetIn_recvRes]

theorem server_receive_any_buffer (regs : Regs) (depth : Nat) (st : St) (chunk text : Bytes) :
    forgetIn (LDAPServer_receive st chunk (decMsg regs depth) text)
      = forgetIn (recvRes st.version text (recvRequest depth (absS .server regs st) chunk)
          (recv depth (absS .server regs st) chunk)) := by
  rw [server_receive_eq, forgetIn_recvRes, recvPy_forget, ← forgetIn_recvRes]

end Verif.Proofs.SessionGen
