/-
C05: the notice of disconnection a server attaches is read back by the strict RFC decoder.
-/
import Verif.Spec.WF
import Verif.Proofs.StrictDecode

namespace Verif.Proofs
open Verif

theorem noticeMsg_noCustom (diag : Bytes) (hd : IsText diag) : (noticeMsg diag).noCustom := by
  refine ⟨⟨⟨by rfl, hd, trivial⟩, by rfl⟩, ?_⟩
  intro c hc
  simp [noticeMsg] at hc

theorem encMsg_noticeMsg (diag : Bytes) : encMsg (noticeMsg diag) = encMsgRfc' (noticeMsg diag) := by
  simp [encMsg, encMsgRfc', noticeMsg, Op.isUnbind]

theorem notice_strict_decodes (diag : Bytes) (hd : IsText diag)
    (hs : (encMsg (noticeMsg diag)).length < 256 ^ 126) :
    Rfc.decode (encMsg (noticeMsg diag)) = some (noticeMsg diag) := by
  rw [encMsg_noticeMsg] at hs ⊢
  rw [rfcDecode_encMsgRfc' _ (noticeMsg_noCustom diag hd) hs]
  rfl

end Verif.Proofs
