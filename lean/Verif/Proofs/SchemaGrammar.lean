/-
C17: every sentence of the RFC 4512 description grammars (`OCSent`, `ATSent`, `DCRSent`) is
accepted by the model of `from_string` and denotes exactly the definition parsed.
-/
import Verif.Proofs.SchemaAT

namespace Verif.Proofs
open Verif Verif.Schema Verif.Rfc4512
open Verif.Proofs.SchemaG

theorem parseOC_sentence (d : ObjectClass) (s : Str) (h : OCSent d s) : parseOC s = .ok d := by
  obtain ⟨hoid, hkd, w0, tn, td, to, ts, tk, tm, ty, te, w1, hn, hd, ho, hs, hk, hm, hy, he, rfl⟩ := h
  have F8 : Follow [[41]] (wspT w1 ++ [41]) := follow_end _ (by simp) w1
  have F7 := follow_part (exts_lead he) F8
  have F6 := follow_part (oidsPart_lead hy) F7
  have F5 := follow_part (oidsPart_lead hm) F6
  have F4 := follow_part (kind_lead hk) F5
  have F3 := follow_part (oidsPart_lead hs) F4
  have F2 := follow_part (flag_lead ho) F3
  have F1 := follow_part (desc_lead hd) F2
  have F0 := follow_part (names_lead hn) F1
  obtain ⟨gn, en, vn⟩ := names_step hn F1 (by decide)
  obtain ⟨gd, ed, vd⟩ := desc_step hd F2 (by decide)
  have eo := flag_step ho F3 (by decide) (by decide)
  obtain ⟨gs, es, vs⟩ := oids_step hs F4 (by decide) (by decide)
  obtain ⟨gk, ek, vk⟩ := kind_step hk F5 (by decide) (by decide)
  obtain ⟨gm, em, vm⟩ := oids_step hm F6 (by decide) (by decide)
  obtain ⟨gy, ey, vy⟩ := oids_step hy F7 (by decide) (by decide)
  obtain ⟨gt, et, vt⟩ := tail_step he hkd w1
  rw [show [40] ++ wspT w0 ++ d.oid ++ tn ++ td ++ to ++ ts ++ tk ++ tm ++ ty ++ te ++ wspT w1 ++ [41]
      = [40] ++ (wspT w0 ++ (d.oid ++ (tn ++ (td ++ (to ++ (ts ++ (tk ++ (tm ++ (ty ++ (te ++ (wspT w1 ++ [41]))))))))))) by
    simp only [List.append_assoc]]
  unfold parseOC
  rw [head_step hoid w0 F0]
  simp only [en, ed, eo, es, ek, em, ey, et, vt, vn, vd, vs, vk, vm, vy]

theorem parseDCR_sentence (d : DITContentRule) (s : Str) (h : DCRSent d s) : parseDCR s = .ok d := by
  obtain ⟨hoid, hkd, w0, tn, td, to, ta, tm, ty, tnot, te, w1, hn, hd, ho, ha, hm, hy, hnot, he, rfl⟩ := h
  have F8 : Follow [[41]] (wspT w1 ++ [41]) := follow_end _ (by simp) w1
  have F7 := follow_part (exts_lead he) F8
  have F6 := follow_part (oidsPart_lead hnot) F7
  have F5 := follow_part (oidsPart_lead hy) F6
  have F4 := follow_part (oidsPart_lead hm) F5
  have F3 := follow_part (oidsPart_lead ha) F4
  have F2 := follow_part (flag_lead ho) F3
  have F1 := follow_part (desc_lead hd) F2
  have F0 := follow_part (names_lead hn) F1
  obtain ⟨gn, en, vn⟩ := names_step hn F1 (by decide)
  obtain ⟨gd, ed, vd⟩ := desc_step hd F2 (by decide)
  have eo := flag_step ho F3 (by decide) (by decide)
  obtain ⟨ga, ea, va⟩ := oids_step ha F4 (by decide) (by decide)
  obtain ⟨gm, em, vm⟩ := oids_step hm F5 (by decide) (by decide)
  obtain ⟨gy, ey, vy⟩ := oids_step hy F6 (by decide) (by decide)
  obtain ⟨gx, ex, vx⟩ := oids_step hnot F7 (by decide) (by decide)
  obtain ⟨gt, et, vt⟩ := tail_step he hkd w1
  rw [show [40] ++ wspT w0 ++ d.oid ++ tn ++ td ++ to ++ ta ++ tm ++ ty ++ tnot ++ te ++ wspT w1 ++ [41]
      = [40] ++ (wspT w0 ++ (d.oid ++ (tn ++ (td ++ (to ++ (ta ++ (tm ++ (ty ++ (tnot ++ (te ++ (wspT w1 ++ [41]))))))))))) by
    simp only [List.append_assoc]]
  unfold parseDCR
  rw [head_step hoid w0 F0]
  simp only [en, ed, eo, ea, em, ey, ex, et, vt, vn, vd, va, vm, vy, vx]

theorem parseAT_sentence (d : AttributeType) (s : Str) (h : ATSent d s) : parseAT s = .ok d := by
  obtain ⟨hoid, hkd, w0, tn, td, to, ts, teq, tor, tsu, tsy, tsv, tco, tnu, tus, te, w1,
    hn, hd, ho, hs, heq, hor, hsu, hsy, hsv, hco, hnu, hus, he, rfl⟩ := h
  have F13 : Follow [[41]] (wspT w1 ++ [41]) := follow_end _ (by simp) w1
  have F12 := follow_part (exts_lead he) F13
  have F11 := follow_part (usage_lead hus) F12
  have F10 := follow_part (flag_lead hnu) F11
  have F9 := follow_part (flag_lead hco) F10
  have F8 := follow_part (flag_lead hsv) F9
  have F7 := follow_part (syntax_lead hsy) F8
  have F6 := follow_part (optOid_lead hsu) F7
  have F5 := follow_part (optOid_lead hor) F6
  have F4 := follow_part (optOid_lead heq) F5
  have F3 := follow_part (optOid_lead hs) F4
  have F2 := follow_part (flag_lead ho) F3
  have F1 := follow_part (desc_lead hd) F2
  have F0 := follow_part (names_lead hn) F1
  obtain ⟨gn, en, vn⟩ := names_step hn F1 (by decide)
  obtain ⟨gd, ed, vd⟩ := desc_step hd F2 (by decide)
  have eo := flag_step ho F3 (by decide) (by decide)
  have es := optOid_step hs F4 (by decide) (by decide)
  have eeq := optOid_step heq F5 (by decide) (by decide)
  have eor := optOid_step hor F6 (by decide) (by decide)
  have esu := optOid_step hsu F7 (by decide) (by decide)
  obtain ⟨gsy, esy, vsy⟩ := syntax_step hsy F8 (by decide)
  have esv := flag_step hsv F9 (by decide) (by decide)
  have eco := flag_step hco F10 (by decide) (by decide)
  have enu := flag_step hnu F11 (by decide) (by decide)
  obtain ⟨gus, eus, vus⟩ := usage_step hus F12 (by decide)
  obtain ⟨gt, et, vt⟩ := tail_step he hkd w1
  rw [show [40] ++ wspT w0 ++ d.oid ++ tn ++ td ++ to ++ ts ++ teq ++ tor ++ tsu ++ tsy ++ tsv ++ tco ++ tnu ++ tus ++ te
        ++ wspT w1 ++ [41]
      = [40] ++ (wspT w0 ++ (d.oid ++ (tn ++ (td ++ (to ++ (ts ++ (teq ++ (tor ++ (tsu ++ (tsy ++ (tsv ++ (tco ++ (tnu ++
          (tus ++ (te ++ (wspT w1 ++ [41])))))))))))))))) by
    simp only [List.append_assoc]]
  unfold parseAT
  rw [head_step hoid w0 F0]
  simp only [en, ed, eo, es, eeq, eor, esu, esy, esv, eco, enu, eus, et, vt, vn, vd, vus]
  show Except.ok ({
    oid := d.oid, names := d.names, desc := d.desc, obsolete := d.obsolete, sup := d.sup,
    equality := d.equality, ordering := d.ordering, substr := d.substr, syn := (synPost gsy).fst,
    synLen := (synPost gsy).snd, singleValue := d.singleValue, collective := d.collective,
    noUserMod := d.noUserMod, usage := d.usage, exts := d.exts } : AttributeType) = Except.ok d
  rw [vsy]

theorem sample_oc_sentence : OCSent { oid := ofString "1.2", kind := 1 } (ofString "( 1.2 )") := by
  refine ⟨⟨[[49], [50]], ⟨by decide, ?_⟩, by decide⟩, List.nodup_nil, 1, [], [], [], [], [], [], [], [], 1,
    Or.inl ⟨rfl, rfl⟩, rfl, by simp [FlagPart], Or.inl ⟨rfl, rfl⟩, ⟨by decide, Or.inl ⟨rfl, rfl⟩⟩,
    Or.inl ⟨rfl, rfl⟩, Or.inl ⟨rfl, rfl⟩, .nil, by decide⟩
  intro a ha
  simp only [List.mem_cons, List.not_mem_nil, or_false] at ha
  rcases ha with rfl | rfl <;> exact ⟨by decide, by decide⟩

end Verif.Proofs
