/-
Filter text round trip, part 3: the parser loops and the main theorems.
-/
import Verif.Proofs.FilterRoundTripSimple

namespace Verif.Proofs
open Verif

/-! ### list positions -/

theorem getD_pre (pre : Bytes) (c : Nat) (rest : Bytes) : (pre ++ c :: rest).getD pre.length 0 = c := by
  simp

theorem take_pred_append (x rest : Bytes) (h : rest ≠ []) :
    (x ++ rest).take ((x ++ rest).length - 1) = x ++ rest.dropLast := by
  rw [← List.dropLast_eq_take, List.dropLast_append_of_ne_nil h]

/-! ### single iterations of `filterLoop` -/

section
variable (uf : Bytes → Nat → Except FErr (Filter × Nat)) (cur : Bytes) (off fuel : Nat)

theorem filterLoop_open (read : Nat) (hlt : read < cur.length) (hc : cur.getD read 0 = cLParen) :
    filterLoop uf cur off (fuel + 1) ⟨read, none, none⟩ =
      filterLoop uf cur off fuel ⟨read + 1, some read, none⟩ := by
  rw [filterLoop]
  simp only [hc]
  rw [if_neg (by omega), if_neg (by decide), if_neg (by decide)]
  simp

theorem filterLoop_item (read p : Nat) (c0 : Nat) (f : Filter) (n : Nat) (hlt : read < cur.length)
    (hc : cur.getD read 0 = c0) (h1 : c0 ≠ cSpace) (h2 : c0 ≠ cRParen) (h3 : c0 ≠ cLParen)
    (hitem : (if c0 = cBang ∨ c0 = cAmp ∨ c0 = cPipe
        then unpackComplex uf (cur.drop read) (off + read)
        else unpackSimple (cur.drop read) (off + read)) = .ok (f, n)) :
    filterLoop uf cur off (fuel + 1) ⟨read, some p, none⟩ =
      filterLoop uf cur off fuel ⟨read + n, some p, some f⟩ := by
  rw [filterLoop]
  simp only [hc]
  rw [if_neg (by omega), if_neg h1, if_neg h2]
  simp only [Option.isSome_some, if_true, if_neg h3]
  rw [hitem]

theorem filterLoop_close (read p : Nat) (f : Option Filter) (hlt : read < cur.length)
    (hc : cur.getD read 0 = cRParen) :
    filterLoop uf cur off (fuel + 1) ⟨read, some p, f⟩ = .ok ⟨read + 1, none, f⟩ := by
  rw [filterLoop]
  simp only [hc]
  rw [if_neg (by omega), if_neg (by decide), if_pos trivial]
end

/-! ### `filterLoop` on one parenthesised item -/

theorem unpackFilter_paren (d : Nat) (c0 : Nat) (inner tail : Bytes)
    (off : Nat) (f : Filter) (h1 : c0 ≠ cSpace) (h2 : c0 ≠ cRParen) (h3 : c0 ≠ cLParen)
    (hitem : (if c0 = cBang ∨ c0 = cAmp ∨ c0 = cPipe
        then unpackComplex (unpackFilter d) (c0 :: inner ++ cRParen :: tail) (off + 1)
        else unpackSimple (c0 :: inner ++ cRParen :: tail) (off + 1)) = .ok (f, (c0 :: inner).length)) :
    unpackFilter (d + 1) (cLParen :: (c0 :: inner ++ cRParen :: tail)) off =
      .ok (f, (c0 :: inner).length + 2) := by
  have hlen : (cLParen :: (c0 :: inner ++ cRParen :: tail)).length = (inner.length + tail.length) + 1 + 1 + 1 := by
    simp only [List.length_cons, List.length_append]; omega
  have hclose : (cLParen :: (c0 :: inner ++ cRParen :: tail)).getD (0 + 1 + (c0 :: inner).length) 0 = cRParen := by
    have h : 0 + 1 + (c0 :: inner).length = (cLParen :: c0 :: inner).length := by
      simp only [List.length_cons]; omega
    rw [h]
    exact getD_pre (cLParen :: c0 :: inner) cRParen tail
  have hl0 : 0 < (cLParen :: (c0 :: inner ++ cRParen :: tail)).length := by rw [hlen]; omega
  have hl1 : 0 + 1 < (cLParen :: (c0 :: inner ++ cRParen :: tail)).length := by rw [hlen]; omega
  have hl2 : 0 + 1 + (c0 :: inner).length < (cLParen :: (c0 :: inner ++ cRParen :: tail)).length := by
    rw [hlen]; simp only [List.length_cons]; omega
  rw [unpackFilter, hlen,
    filterLoop_open _ _ _ _ 0 hl0 rfl,
    filterLoop_item _ _ _ _ (0 + 1) 0 c0 f (c0 :: inner).length hl1 rfl h1 h2 h3 hitem,
    filterLoop_close _ _ _ _ _ _ _ hl2 hclose]
  simp only [List.length_cons, Except.ok.injEq, Prod.mk.injEq, true_and]
  omega

/-! ### single iterations of `complexLoop` -/

theorem complexLoop_item (uf : Bytes → Nat → Except FErr (Filter × Nat)) (off fuel : Nat)
    (pre x' rest : Bytes) (fs : List Filter) (f : Filter) (hrest : rest ≠ [])
    (hbang : ¬ ((pre ++ (cLParen :: x') ++ rest).getD 0 0 = cBang ∧ (!fs.isEmpty) = true))
    (huf : uf ((cLParen :: x') ++ rest.dropLast) (off + pre.length) = .ok (f, (cLParen :: x').length)) :
    complexLoop uf (pre ++ (cLParen :: x') ++ rest) off (fuel + 1) pre.length fs =
      complexLoop uf (pre ++ (cLParen :: x') ++ rest) off fuel (pre.length + (cLParen :: x').length) (fs ++ [f]) := by
  have hc : (pre ++ (cLParen :: x') ++ rest).getD pre.length 0 = cLParen := by
    rw [List.append_assoc, List.cons_append]; exact getD_pre pre cLParen _
  have hlt : ¬ pre.length ≥ (pre ++ (cLParen :: x') ++ rest).length := by
    simp only [List.length_append, List.length_cons]; omega
  have hslice : ((pre ++ (cLParen :: x') ++ rest).drop pre.length).take
      ((pre ++ (cLParen :: x') ++ rest).length - pre.length - 1) = (cLParen :: x') ++ rest.dropLast := by
    have h1 : (pre ++ (cLParen :: x') ++ rest).drop pre.length = (cLParen :: x') ++ rest := by
      rw [List.append_assoc, List.drop_left]
    have h2 : (pre ++ (cLParen :: x') ++ rest).length - pre.length - 1 = ((cLParen :: x') ++ rest).length - 1 := by
      simp only [List.length_append, List.length_cons]; omega
    rw [h1, h2, take_pred_append _ _ hrest]
  rw [complexLoop]
  simp only [hc, hslice, huf]
  rw [if_neg hlt, if_neg (by decide), if_pos trivial, if_neg hbang]

theorem complexLoop_close (uf : Bytes → Nat → Except FErr (Filter × Nat)) (off fuel : Nat)
    (pre tail : Bytes) (fs : List Filter) :
    complexLoop uf (pre ++ cRParen :: tail) off (fuel + 1) pre.length fs = .ok (fs, pre.length) := by
  have hlt : ¬ pre.length ≥ (pre ++ cRParen :: tail).length := by
    simp only [List.length_append, List.length_cons]; omega
  rw [complexLoop]
  simp only [getD_pre]
  rw [if_neg hlt, if_neg (by decide), if_neg (by decide), if_pos trivial]

/-! ### shape of the text -/

theorem depth_pos (f : Filter) : 1 ≤ Filter.depth f := by
  cases f <;> simp [Filter.depth]

theorem toText_head (f : Filter) (hw : f.WFText) : ∃ t, toText f = cLParen :: t := by
  cases f with
  | custom v => exact absurd hw id
  | _ => exact ⟨_, by simp [toText]; rfl⟩

theorem toText_length_simple {f : Filter} {body : Bytes} (h : toText f = cLParen :: (body ++ [cRParen])) :
    (toText f).length = body.length + 2 := by
  rw [h]; simp

theorem unpackFilter_simple (f : Filter) (hs : IsSimple f) (hw : f.WFText) (d : Nat) (tail : Bytes) (off : Nat) :
    unpackFilter (d + 1) (toText f ++ tail) off = .ok (f, (toText f).length) := by
  obtain ⟨body, htext, hst⟩ := simple_text f hs hw
  obtain ⟨c, rest, rfl, h1, h2, h3, h4, h5, h6⟩ := hst.head
  rw [toText_length_simple htext, htext]
  have hshape : cLParen :: (c :: rest ++ [cRParen]) ++ tail = cLParen :: (c :: rest ++ cRParen :: tail) := by
    simp
  rw [hshape]
  apply unpackFilter_paren d c rest tail off f h1 h2 h3
  rw [if_neg (by simp [h4, h5, h6])]
  exact hst.parse tail (off + 1)

/-! ### `unpackComplex` -/

theorem unpackComplex_not (uf : Bytes → Nat → Except FErr (Filter × Nat)) (t tail : Bytes) (off : Nat)
    (f : Filter)
    (huf : uf ((cLParen :: t) ++ (cRParen :: tail).dropLast) (off + 1) = .ok (f, (cLParen :: t).length)) :
    unpackComplex uf (cBang :: (cLParen :: t) ++ cRParen :: tail) off =
      .ok (.not f, (cBang :: cLParen :: t).length) := by
  have hlen : (cBang :: (cLParen :: t) ++ cRParen :: tail).length = (t.length + tail.length + 1) + 1 + 1 := by
    simp only [List.length_cons, List.length_append]; omega
  have h1 := complexLoop_item uf off (t.length + tail.length + 1 + 1) [cBang] t (cRParen :: tail) [] f
    (by simp) (by simp) huf
  have h2 := complexLoop_close uf off (t.length + tail.length + 1) (cBang :: cLParen :: t) tail [f]
  simp only [List.length_cons, List.length_nil, List.nil_append, Nat.zero_add,
    List.cons_append] at h1 h2
  unfold unpackComplex
  rw [hlen]
  simp only [List.cons_append]
  rw [h1]
  have e : 1 + (t.length + 1) = t.length + 1 + 1 := by omega
  rw [e, h2]
  simp

theorem unpackComplex_list (uf : Bytes → Nat → Except FErr (Filter × Nat)) (c0 : Nat) (rest : Bytes)
    (off n : Nat) (fs : List Filter) (hne : fs ≠ []) (hc : c0 ≠ cBang)
    (hloop : complexLoop uf (c0 :: rest) off (c0 :: rest).length 1 [] = .ok (fs, n)) :
    unpackComplex uf (c0 :: rest) off = .ok (if c0 = cAmp then .and fs else .or fs, n) := by
  unfold unpackComplex
  rw [hloop]
  cases fs with
  | nil => exact absurd rfl hne
  | cons f0 t =>
    simp only [List.getD_cons_zero, if_neg hc]
    split <;> rfl

/-! ### the descent -/

theorem toTexts_cons (f : Filter) (fs : List Filter) : toTexts (f :: fs) = toText f ++ toTexts fs := by
  rw [toTexts]

mutual
theorem unpackFilter_toText : ∀ (f : Filter) (d : Nat) (tail : Bytes) (off : Nat),
    f.WFText → Filter.depth f ≤ d → unpackFilter d (toText f ++ tail) off = .ok (f, (toText f).length)
  | .and fs, d, tail, off, hw, hd => by
    simp only [Filter.WFText, Filter.depth] at hw hd
    obtain ⟨d, rfl⟩ : ∃ d', d = d' + 1 := ⟨d - 1, by omega⟩
    have hloop := complexLoop_toTexts fs d [cAmp] tail [] ((toTexts fs).length + 1 + tail.length + 1)
      (off + 1) hw.2 (by omega) (by simp [cAmp, cBang]) (by omega)
    simp only [List.cons_append, List.nil_append, List.length_cons,
      List.length_nil, Nat.zero_add] at hloop
    have hlen : (cAmp :: (toTexts fs ++ cRParen :: tail)).length = (toTexts fs).length + 1 + tail.length + 1 := by
      simp only [List.length_cons, List.length_append]; omega
    have hshape : toText (.and fs) ++ tail = cLParen :: (cAmp :: toTexts fs ++ cRParen :: tail) := by
      simp [toText]
    have htl : (toText (.and fs)).length = (cAmp :: toTexts fs).length + 2 := by
      simp [toText]
    rw [htl, hshape]
    apply unpackFilter_paren d cAmp (toTexts fs) tail off (.and fs) (by decide) (by decide) (by decide)
    rw [if_pos (by simp)]
    have hc := unpackComplex_list (unpackFilter d) cAmp (toTexts fs ++ cRParen :: tail) (off + 1) _ fs hw.1
      (by decide) (by rw [hlen]; exact hloop)
    rw [List.cons_append, hc]
    simp [cAmp, cAmp, Nat.add_comm]
  | .or fs, d, tail, off, hw, hd => by
    simp only [Filter.WFText, Filter.depth] at hw hd
    obtain ⟨d, rfl⟩ : ∃ d', d = d' + 1 := ⟨d - 1, by omega⟩
    have hloop := complexLoop_toTexts fs d [cPipe] tail [] ((toTexts fs).length + 1 + tail.length + 1)
      (off + 1) hw.2 (by omega) (by simp [cPipe, cBang]) (by omega)
    simp only [List.cons_append, List.nil_append, List.length_cons,
      List.length_nil, Nat.zero_add] at hloop
    have hlen : (cPipe :: (toTexts fs ++ cRParen :: tail)).length = (toTexts fs).length + 1 + tail.length + 1 := by
      simp only [List.length_cons, List.length_append]; omega
    have hshape : toText (.or fs) ++ tail = cLParen :: (cPipe :: toTexts fs ++ cRParen :: tail) := by
      simp [toText]
    have htl : (toText (.or fs)).length = (cPipe :: toTexts fs).length + 2 := by
      simp [toText]
    rw [htl, hshape]
    apply unpackFilter_paren d cPipe (toTexts fs) tail off (.or fs) (by decide) (by decide) (by decide)
    rw [if_pos (by simp)]
    have hc := unpackComplex_list (unpackFilter d) cPipe (toTexts fs ++ cRParen :: tail) (off + 1) _ fs hw.1
      (by decide) (by rw [hlen]; exact hloop)
    rw [List.cons_append, hc]
    simp [cPipe, cAmp, Nat.add_comm]
  | .not f, d, tail, off, hw, hd => by
    simp only [Filter.WFText, Filter.depth] at hw hd
    obtain ⟨d, rfl⟩ : ∃ d', d = d' + 1 := ⟨d - 1, by omega⟩
    obtain ⟨t, ht⟩ := toText_head f hw
    have ih := unpackFilter_toText f d ((cRParen :: tail).dropLast) (off + 1 + 1) hw (by omega)
    have hshape : toText (.not f) ++ tail = cLParen :: (cBang :: toText f ++ cRParen :: tail) := by
      simp [toText]
    have htl : (toText (.not f)).length = (cBang :: toText f).length + 2 := by
      simp [toText]
    rw [htl, hshape]
    apply unpackFilter_paren d cBang (toText f) tail off (.not f) (by decide) (by decide) (by decide)
    rw [if_pos (by simp)]
    rw [ht] at ih ⊢
    exact unpackComplex_not (unpackFilter d) t tail (off + 1) f ih
  | .eq a v, d, tail, off, hw, hd => by
    obtain ⟨d, rfl⟩ : ∃ d', d = d' + 1 := ⟨d - 1, by have := depth_pos (.eq a v); omega⟩
    exact unpackFilter_simple (.eq a v) trivial hw d tail off
  | .substr a i any f, d, tail, off, hw, hd => by
    obtain ⟨d, rfl⟩ : ∃ d', d = d' + 1 := ⟨d - 1, by have := depth_pos (.substr a i any f); omega⟩
    exact unpackFilter_simple (.substr a i any f) trivial hw d tail off
  | .ge a v, d, tail, off, hw, hd => by
    obtain ⟨d, rfl⟩ : ∃ d', d = d' + 1 := ⟨d - 1, by have := depth_pos (.ge a v); omega⟩
    exact unpackFilter_simple (.ge a v) trivial hw d tail off
  | .le a v, d, tail, off, hw, hd => by
    obtain ⟨d, rfl⟩ : ∃ d', d = d' + 1 := ⟨d - 1, by have := depth_pos (.le a v); omega⟩
    exact unpackFilter_simple (.le a v) trivial hw d tail off
  | .present a, d, tail, off, hw, hd => by
    obtain ⟨d, rfl⟩ : ∃ d', d = d' + 1 := ⟨d - 1, by have := depth_pos (.present a); omega⟩
    exact unpackFilter_simple (.present a) trivial hw d tail off
  | .approx a v, d, tail, off, hw, hd => by
    obtain ⟨d, rfl⟩ : ∃ d', d = d' + 1 := ⟨d - 1, by have := depth_pos (.approx a v); omega⟩
    exact unpackFilter_simple (.approx a v) trivial hw d tail off
  | .ext r a v dn, d, tail, off, hw, hd => by
    obtain ⟨d, rfl⟩ : ∃ d', d = d' + 1 := ⟨d - 1, by have := depth_pos (.ext r a v dn); omega⟩
    exact unpackFilter_simple (.ext r a v dn) trivial hw d tail off
  | .custom v, d, tail, off, hw, hd => absurd hw id
theorem complexLoop_toTexts : ∀ (fs : List Filter) (d : Nat) (pre tail : Bytes) (fs0 : List Filter)
    (fuel off : Nat), Filter.WFTexts fs → Filter.depths fs ≤ d →
    (pre ++ toTexts fs ++ cRParen :: tail).getD 0 0 ≠ cBang →
    (toTexts fs).length + 1 + tail.length ≤ fuel →
    complexLoop (unpackFilter d) (pre ++ toTexts fs ++ cRParen :: tail) off fuel pre.length fs0 =
      .ok (fs0 ++ fs, pre.length + (toTexts fs).length)
  | [], d, pre, tail, fs0, fuel, off, hw, hd, hb, hf => by
    obtain ⟨fuel, rfl⟩ : ∃ k, fuel = k + 1 := ⟨fuel - 1, by omega⟩
    have : toTexts [] = [] := by rw [toTexts]
    rw [this, List.append_nil, complexLoop_close]
    simp
  | f :: fs, d, pre, tail, fs0, fuel, off, hw, hd, hb, hf => by
    simp only [Filter.WFTexts, Filter.depths] at hw hd
    obtain ⟨t, ht⟩ := toText_head f hw.1
    rw [toTexts_cons] at hb hf ⊢
    have hl1 : (toText f).length = t.length + 1 := by rw [ht]; simp
    obtain ⟨fuel, rfl⟩ : ∃ k, fuel = k + 1 := ⟨fuel - 1, by omega⟩
    have ih1 := unpackFilter_toText f d ((toTexts fs ++ cRParen :: tail).dropLast) (off + pre.length) hw.1
      (by omega)
    have hassoc : pre ++ (toText f ++ toTexts fs) ++ cRParen :: tail =
        pre ++ toText f ++ (toTexts fs ++ cRParen :: tail) := by simp
    have hassoc2 : pre ++ (toText f ++ toTexts fs) ++ cRParen :: tail =
        (pre ++ toText f) ++ toTexts fs ++ cRParen :: tail := by simp
    have ih2 := complexLoop_toTexts fs d (pre ++ toText f) tail (fs0 ++ [f]) fuel off hw.2 (by omega)
      (by rw [← hassoc2]; exact hb) (by simp only [List.length_append] at hf; omega)
    rw [hassoc] at hb ⊢
    rw [ht] at hb ih1 ⊢
    rw [complexLoop_item (unpackFilter d) off fuel pre t (toTexts fs ++ cRParen :: tail) fs0 f (by simp)
      (fun h => hb h.1) ih1]
    rw [← ht, ← hassoc, hassoc2, ← List.length_append, ih2]
    simp [Nat.add_assoc]
end

/-! ### the text is printable ASCII -/

theorem toText_ascii_simple (f : Filter) (hs : IsSimple f) (hw : f.WFText) :
    ∀ b ∈ toText f, 32 ≤ b ∧ b < 127 := by
  obtain ⟨body, htext, hst⟩ := simple_text f hs hw
  intro b hb
  rw [htext] at hb
  simp only [List.mem_cons, List.mem_append, List.not_mem_nil, or_false] at hb
  rcases hb with rfl | hb | rfl
  · decide
  · exact hst.ascii b hb
  · decide

mutual
theorem toText_ascii : ∀ (f : Filter), f.WFText → ∀ b ∈ toText f, 32 ≤ b ∧ b < 127
  | .and fs, hw, b, hb => by
    simp only [Filter.WFText] at hw
    simp only [toText, List.mem_cons, List.mem_append, List.not_mem_nil, or_false] at hb
    rcases hb with (((rfl | rfl) | hb) | rfl)
    · decide
    · decide
    · exact toTexts_ascii fs hw.2 b hb
    · decide
  | .or fs, hw, b, hb => by
    simp only [Filter.WFText] at hw
    simp only [toText, List.mem_cons, List.mem_append, List.not_mem_nil, or_false] at hb
    rcases hb with (((rfl | rfl) | hb) | rfl)
    · decide
    · decide
    · exact toTexts_ascii fs hw.2 b hb
    · decide
  | .not f, hw, b, hb => by
    simp only [Filter.WFText] at hw
    simp only [toText, List.mem_cons, List.mem_append, List.not_mem_nil, or_false] at hb
    rcases hb with (((rfl | rfl) | hb) | rfl)
    · decide
    · decide
    · exact toText_ascii f hw b hb
    · decide
  | .eq a v, hw, b, hb => toText_ascii_simple (.eq a v) trivial hw b hb
  | .substr a i any f, hw, b, hb => toText_ascii_simple (.substr a i any f) trivial hw b hb
  | .ge a v, hw, b, hb => toText_ascii_simple (.ge a v) trivial hw b hb
  | .le a v, hw, b, hb => toText_ascii_simple (.le a v) trivial hw b hb
  | .present a, hw, b, hb => toText_ascii_simple (.present a) trivial hw b hb
  | .approx a v, hw, b, hb => toText_ascii_simple (.approx a v) trivial hw b hb
  | .ext r a v dn, hw, b, hb => toText_ascii_simple (.ext r a v dn) trivial hw b hb
  | .custom v, hw, b, hb => absurd hw id
theorem toTexts_ascii : ∀ (fs : List Filter), Filter.WFTexts fs → ∀ b ∈ toTexts fs, 32 ≤ b ∧ b < 127
  | [], _, b, hb => by simp [toTexts] at hb
  | f :: fs, hw, b, hb => by
    simp only [Filter.WFTexts] at hw
    rw [toTexts_cons, List.mem_append] at hb
    rcases hb with hb | hb
    · exact toText_ascii f hw.1 b hb
    · exact toTexts_ascii fs hw.2 b hb
end

/-! ### `from_string` -/

theorem toText_last (f : Filter) (hw : f.WFText) : ∃ t, toText f = t ++ [cRParen] := by
  by_cases hs : IsSimple f
  · obtain ⟨body, htext, _⟩ := simple_text f hs hw
    exact ⟨cLParen :: body, by rw [htext, List.cons_append]⟩
  · cases f with
    | and fs => exact ⟨_, by rw [toText]⟩
    | or fs => exact ⟨_, by rw [toText]⟩
    | not f => exact ⟨_, by rw [toText]⟩
    | custom v => exact absurd hw id
    | _ => exact absurd trivial hs

theorem utf8Encode_ascii (l : List Nat) (h : ∀ b ∈ l, b < 128) : utf8Encode l = l := by
  induction l with
  | nil => rfl
  | cons c t ih =>
    have hc : c < 128 := h c (by simp)
    have := ih (fun b hb => h b (List.mem_cons_of_mem _ hb))
    simp only [utf8Encode] at this ⊢
    simp [utf8EncodeChar, hc, this]

theorem pyStrip_parens (t : List Nat) (t' : List Nat) (h : cLParen :: t = t' ++ [cRParen]) :
    pyStrip (cLParen :: t) = cLParen :: t := by
  unfold pyStrip
  have h1 : (cLParen :: t).dropWhile isSpaceCp = cLParen :: t := by
    rw [List.dropWhile_cons_of_neg (by rw [show cLParen = 40 from rfl, facts_lparen_not_space]; simp)]
  rw [h1, h, List.reverse_append, List.reverse_singleton, List.singleton_append,
    List.dropWhile_cons_of_neg (by rw [show cRParen = 41 from rfl, facts_rparen_not_space]; simp)]
  simp

theorem parse_toText (f : Filter) (depth : Nat) (h : f.WFText) (hd : Filter.depth f < depth) :
    parseFilterText depth (toText f) = .ok f := by
  obtain ⟨t, ht⟩ := toText_head f h
  obtain ⟨t', ht'⟩ := toText_last f h
  have hstrip : pyStrip (toText f) = toText f := by
    rw [ht]; exact pyStrip_parens t t' (by rw [← ht, ht'])
  have henc : utf8Encode (toText f) = toText f :=
    utf8Encode_ascii _ (fun b hb => by have := toText_ascii f h b hb; omega)
  have hmain := unpackFilter_toText f depth [] 0 h (by omega)
  rw [List.append_nil] at hmain
  unfold parseFilterText
  simp only [hstrip, henc, hmain]
  simp

end Verif.Proofs
