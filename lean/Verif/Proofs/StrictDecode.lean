/-
C03: the independent strict RFC 4511 decoder reads back the (RFC-exact) encoding of every
well-formed message; and it refuses the library's constructed UnbindRequest.

Layer (a) (`StrictDecodeTlv`): `strictParse (Tlv.enc t) = t`.
Layer (b) (`StrictDecodeTree`): `encMsgRfc' m = Tlv.enc (msgT true m)`, `encMsg m = Tlv.enc (msgT false m)`.
Layer (c) (this file): `Rfc.msgOf (msgT true m) = some (fillRaw m)`.
-/
import Verif.Spec.Rfc4511
import Verif.Proofs.StrictDecodeTree

namespace Verif.Proofs

open Verif

/-! ### scalars -/

theorem intOf_intContent (v : Int) : Rfc.intOf (intContent v) = some v := by
  obtain ⟨_, hv, hm⟩ := intContent_spec v
  simp [Rfc.intOf, hm, hv]

theorem textOf_text (b : Bytes) (h : IsText b) : Rfc.textOf b = some b := by
  simp [Rfc.textOf, show validUtf8 b = true from h]

theorem allOpt_map {α β} (f : Tlv → Option β) (g : α → Tlv) (h : α → β) (l : List α)
    (hl : ∀ x ∈ l, f (g x) = some (h x)) : Rfc.allOpt f (l.map g) = some (l.map h) := by
  induction l with
  | nil => simp [Rfc.allOpt]
  | cons x xs ih =>
    simp [Rfc.allOpt, hl x (by simp), ih fun y hy => hl y (by simp [hy])]

theorem allOpt_texts (l : List Bytes) (h : ∀ b ∈ l, IsText b) :
    Rfc.allOpt Rfc.univText (l.map (Tlv.prim 0 4)) = some l := by
  have := allOpt_map Rfc.univText (Tlv.prim 0 4) id l
    (fun b hb => by simp [Rfc.univText, textOf_text b (h b hb)])
  simpa using this

theorem allOpt_octets (l : List Bytes) :
    Rfc.allOpt Rfc.univOctets (l.map (Tlv.prim 0 4)) = some l := by
  have := allOpt_map Rfc.univOctets (Tlv.prim 0 4) id l (fun b _ => by simp [Rfc.univOctets])
  simpa using this

/-! ### filters -/

theorem anys_spec (any : List Bytes) (f : Option Bytes) :
    Rfc.substrings.anys (any.map (Tlv.prim 2 1) ++ optT 2 2 f) = (any, optT 2 2 f) := by
  induction any with
  | nil => cases f <;> simp [optT, Rfc.substrings.anys, Rfc.ctxOctets]
  | cons a as ih => simp [Rfc.substrings.anys, Rfc.ctxOctets, ih]

theorem substrings_spec (i : Option Bytes) (any : List Bytes) (f : Option Bytes) :
    Rfc.substrings (optT 2 0 i ++ (any.map (Tlv.prim 2 1) ++ optT 2 2 f)) = some (i, any, f) := by
  have h1 : Rfc.optHead (Rfc.ctxOctets 0) (optT 2 0 i ++ (any.map (Tlv.prim 2 1) ++ optT 2 2 f))
      = (i, any.map (Tlv.prim 2 1) ++ optT 2 2 f) := by
    cases i with
    | some v => simp [optT, Rfc.optHead, Rfc.ctxOctets]
    | none =>
      cases any with
      | cons a as => simp [optT, Rfc.optHead, Rfc.ctxOctets]
      | nil => cases f <;> simp [optT, Rfc.optHead, Rfc.ctxOctets]
  have h2 : Rfc.optHead (Rfc.ctxOctets 2) (optT 2 2 f) = (f, []) := by
    cases f <;> simp [optT, Rfc.optHead, Rfc.ctxOctets]
  simp only [Rfc.substrings, h1, anys_spec, h2]
  simp

theorem ava_spec (a v : Bytes) (h : IsText a) :
    Rfc.ava [.prim 0 4 a, .prim 0 4 v] = some (a, v) := by
  simp [Rfc.ava, Rfc.univText, Rfc.univOctets, textOf_text a h]

theorem mra_spec (rule attr : Option Bytes) (v : Bytes) (dn : Bool)
    (hr : optText rule) (ha : optText attr) :
    Rfc.mra (optT 2 1 rule ++ (optT 2 2 attr ++ (.prim 2 3 v ::
      (if dn then [.prim 2 4 [255]] else [])))) = some (rule, attr, v, dn) := by
  have h1 : Rfc.optHead (fun t => (Rfc.ctxOctets 1 t).bind Rfc.textOf)
      (optT 2 1 rule ++ (optT 2 2 attr ++ (.prim 2 3 v :: (if dn then [.prim 2 4 [255]] else []))))
      = (rule, optT 2 2 attr ++ (.prim 2 3 v :: (if dn then [.prim 2 4 [255]] else []))) := by
    cases rule with
    | some r => simp [optT, Rfc.optHead, Rfc.ctxOctets, textOf_text r hr]
    | none => cases attr <;> simp [optT, Rfc.optHead, Rfc.ctxOctets]
  have h2 : Rfc.optHead (fun t => (Rfc.ctxOctets 2 t).bind Rfc.textOf)
      (optT 2 2 attr ++ (.prim 2 3 v :: (if dn then [.prim 2 4 [255]] else [])))
      = (attr, .prim 2 3 v :: (if dn then [.prim 2 4 [255]] else [])) := by
    cases attr with
    | some r => simp [optT, Rfc.optHead, Rfc.ctxOctets, textOf_text r ha]
    | none => simp [optT, Rfc.optHead, Rfc.ctxOctets]
  simp only [Rfc.mra, h1, h2]
  cases dn <;> simp [Rfc.ctxOctets]

mutual
theorem filterOf_filterT : ∀ f : Filter, Filter.WF {} f → Rfc.filterOf (filterT f) = some f
  | .and fs, h => by
    simp only [Filter.WF] at h
    simp [filterT, Rfc.filterOf, filtersOf_filtersT fs h]
  | .or fs, h => by
    simp only [Filter.WF] at h
    simp [filterT, Rfc.filterOf, filtersOf_filtersT fs h]
  | .not f, h => by
    simp only [Filter.WF] at h
    simp [filterT, Rfc.filterOf, filterOf_filterT f h]
  | .eq a v, h => by
    simp only [Filter.WF] at h
    simp [filterT, Rfc.filterOf, ava_spec a v h]
  | .substr a i any f, h => by
    simp only [Filter.WF] at h
    simp [filterT, Rfc.filterOf, Rfc.univText, textOf_text a h, substrings_spec]
  | .ge a v, h => by
    simp only [Filter.WF] at h
    simp [filterT, Rfc.filterOf, ava_spec a v h]
  | .le a v, h => by
    simp only [Filter.WF] at h
    simp [filterT, Rfc.filterOf, ava_spec a v h]
  | .present a, h => by
    simp only [Filter.WF] at h
    simp [filterT, Rfc.filterOf, textOf_text a h]
  | .approx a v, h => by
    simp only [Filter.WF] at h
    simp [filterT, Rfc.filterOf, ava_spec a v h]
  | .ext rule attr v dn, h => by
    simp only [Filter.WF] at h
    simp [filterT, Rfc.filterOf, mra_spec rule attr v dn h.1 h.2]
  | .custom v, h => by simp [Filter.WF] at h
theorem filtersOf_filtersT : ∀ fs : List Filter, Filter.WFs {} fs →
    Rfc.filtersOf (filtersT fs) = some fs
  | [], _ => by simp [filtersT, Rfc.filtersOf]
  | f :: fs, h => by
    simp only [Filter.WFs] at h
    simp [filtersT, Rfc.filtersOf, filterOf_filterT f h.1, filtersOf_filtersT fs h.2]
end

/-! ### credentials, controls -/

theorem credOf_credT (c : Cred) (h : Cred.WF {} c) : Rfc.credOf (credT c) = some c := by
  cases c with
  | simple pw => simp [credT, Rfc.credOf, textOf_text pw h]
  | sasl mech creds =>
    cases creds <;>
    simp [credT, optT, Rfc.credOf, Rfc.univText, Rfc.univOctets, textOf_text mech h]
  | custom v => simp [Cred.WF] at h

def pagedT (s : Int) (k : Bytes) : Tlv := .cons 0 16 [.prim 0 2 (intContent s), .prim 0 4 k]

theorem enc_pagedT (s : Int) (k : Bytes) : Tlv.enc (pagedT s k) = pagedValue s k := by
  simp [pagedT, pagedValue, Tlv.enc, Tlv.encList, packInt, packOctets, tInt, tOctets, tSeq,
    tagUniv]

theorem pagedValueOf_pagedValue (s : Int) (k : Bytes) (hb : (pagedValue s k).length < lenBound) :
    Rfc.pagedValueOf (pagedValue s k) = some (s, k) := by
  have hc := contentLen_le (pagedT s k)
  rw [enc_pagedT] at hc
  have hp := strictParseAll_enc (pagedT s k) (by simp [pagedT, Tlv.Ok, Tlv.OkList]) (by omega)
  rw [enc_pagedT] at hp
  simp [Rfc.pagedValueOf, hp, pagedT, Rfc.univInt, Rfc.univOctets, intOf_intContent]

/-- the value octets are part of the control's encoding -/
theorem controlValue_length_le (c : Control) (v : Bytes) (h : controlValue c = some v) :
    v.length ≤ (Tlv.enc (controlT c)).length := by
  have h1 := contentLen_le (controlT c)
  have h2 := enc_length_mem (.prim 0 4 v) (.prim 0 4 (controlOid c) ::
    ((if controlCrit c then [.prim 0 1 [255]] else []) ++ optT 0 4 (controlValue c)))
    (by simp [h, optT])
  have h3 := contentLen_le (.prim 0 4 v)
  simp only [controlT, Tlv.contentLen] at h1 h3 ⊢
  omega

theorem controlOf_controlT (c : Control) (h : Control.WF {} c)
    (hb : (Tlv.enc (controlT c)).length < lenBound) :
    Rfc.controlOf (controlT c) = some (fillRawControl c) := by
  cases c with
  | generic oid crit value =>
    obtain ⟨ht, h1, h2, h3, _⟩ := h
    cases crit <;> cases value <;>
    simp [controlT, controlOid, controlCrit, controlValue, optT, Rfc.controlOf, Rfc.univText,
      Rfc.univOctets, textOf_text oid ht, h1, h2, h3, fillRawControl]
  | paged crit size cookie raw =>
    have hl := controlValue_length_le (.paged crit size cookie raw) _ rfl
    have hp := pagedValueOf_pagedValue size cookie (by omega)
    cases crit <;>
    simp [controlT, controlOid, controlCrit, controlValue, optT, Rfc.controlOf, Rfc.univText,
      Rfc.univOctets, textOf_text _ facts_oidPaged_text, hp, fillRawControl]
  | showDeleted crit raw =>
    cases crit <;> cases raw <;>
    simp [controlT, controlOid, controlCrit, controlValue, optT, Rfc.controlOf, Rfc.univText,
      Rfc.univOctets, textOf_text _ facts_oidShowDeleted_text, facts_oidShowDeleted_ne_paged,
      fillRawControl]
  | showDeactivated crit raw =>
    cases crit <;> cases raw <;>
    simp [controlT, controlOid, controlCrit, controlValue, optT, Rfc.controlOf, Rfc.univText,
      Rfc.univOctets, textOf_text _ facts_oidShowDeactivated_text,
      facts_oidShowDeactivated_ne_paged, facts_oidShowDeactivated_ne_showDeleted, fillRawControl]
  | custom crit data raw => simp [Control.WF] at h

theorem allOpt_controls (cs : List Control) (h : ∀ c ∈ cs, Control.WF {} c)
    (hb : (Tlv.encList (cs.map controlT)).length < lenBound) :
    Rfc.allOpt Rfc.controlOf (cs.map controlT) = some (cs.map fillRawControl) :=
  allOpt_map _ _ _ _ fun c hc => by
    have := enc_length_mem (controlT c) (cs.map controlT) (List.mem_map_of_mem hc)
    exact controlOf_controlT c (h c hc) (by omega)

/-! ### LDAPResult -/

theorem resultOf_resultT (r : LdapResult) (rest : List Tlv) (h : r.WF)
    (hrest : ∀ u r', rest ≠ .cons 2 3 u :: r') :
    Rfc.resultOf (resultT r ++ rest) = some (r, rest) := by
  obtain ⟨code, mdn, diag, refs⟩ := r
  obtain ⟨h1, h2, h3⟩ := h
  simp only at h1 h2 h3
  cases refs with
  | some rs =>
    simp [resultT, Rfc.resultOf, Rfc.univEnum, Rfc.univText, intOf_intContent,
      textOf_text mdn h1, textOf_text diag h2, allOpt_texts rs h3]
  | none =>
    simp only [resultT, List.append_nil, List.cons_append, List.nil_append, Rfc.resultOf,
      Rfc.univEnum, Rfc.univText, intOf_intContent, textOf_text mdn h1, textOf_text diag h2]

theorem optT_not_referral (cls num : Nat) (o : Option Bytes) (tail : List Tlv)
    (ht : ∀ u r', tail ≠ .cons 2 3 u :: r') :
    ∀ u r', optT cls num o ++ tail ≠ .cons 2 3 u :: r' := by
  cases o with
  | none => simpa [optT] using ht
  | some v => intro u r'; simp [optT]

theorem nil_not_referral : ∀ (u : List Tlv) (r' : List Tlv), ([] : List Tlv) ≠ .cons 2 3 u :: r' := by
  intro u r'; simp

/-! ### protocol operations -/

theorem attrOf_attrT (a : Bytes × List Bytes) (h : IsText a.1) :
    Rfc.attrOf (attrT a) = some a := by
  simp [attrT, Rfc.attrOf, Rfc.univText, textOf_text a.1 h, allOpt_octets]

theorem opOf_opT (op : Op) (h : Op.WF {} op) : Rfc.opOf (opT true op) = some op := by
  cases op with
  | bindReq v n c =>
    simp [opT, Op.isUnbind, opNum, opKids, Rfc.opOf, Rfc.univInt, Rfc.univText,
      intOf_intContent, textOf_text n h.1, credOf_credT c h.2]
  | bindResp r s =>
    have hr := resultOf_resultT r (optT 2 7 s) h (by
      have := optT_not_referral 2 7 s [] nil_not_referral
      simpa using this)
    cases s <;> simp [optT] at hr <;>
    simp [opT, Op.isUnbind, opNum, opKids, optT, Rfc.opOf, hr, Rfc.ctxOctets]
  | unbind => simp [opT, Op.isUnbind, Rfc.opOf]
  | searchReq b sc dr sl tl ty f attrs =>
    obtain ⟨hb, hsc, hdr, hf, ha⟩ := h
    have hsc : sc ∈ Facts.scopeValues := by simpa using hsc
    have hdr : dr ∈ Facts.derefValues := by simpa using hdr
    cases ty <;>
    simp [opT, Op.isUnbind, opNum, opKids, Rfc.opOf, Rfc.univInt, Rfc.univEnum, Rfc.univText,
      Rfc.univBool, Rfc.boolOf, intOf_intContent, textOf_text b hb, filterOf_filterT f hf,
      allOpt_texts attrs ha, hsc, hdr]
  | searchEntry n attrs =>
    have := allOpt_map Rfc.attrOf attrT id attrs (fun a ha => attrOf_attrT a (h.2 a ha))
    simp only [List.map_id_fun, id_eq] at this
    simp [opT, Op.isUnbind, opNum, opKids, Rfc.opOf, Rfc.univText, textOf_text n h.1, this]
  | searchDone r =>
    have hr := resultOf_resultT r [] h nil_not_referral
    simp only [List.append_nil] at hr
    simp [opT, Op.isUnbind, opNum, opKids, Rfc.opOf, hr]
  | searchRef uris =>
    simp [opT, Op.isUnbind, opNum, opKids, Rfc.opOf, allOpt_texts uris h]
  | extReq n v =>
    cases v <;>
    simp [opT, Op.isUnbind, opNum, opKids, optT, Rfc.opOf, Rfc.ctxOctets, textOf_text n h]
  | extResp r n v =>
    have hr := resultOf_resultT r (optT 2 10 n ++ optT 2 11 v) h.1
      (optT_not_referral 2 10 n _ (by
        have := optT_not_referral 2 11 v [] nil_not_referral
        simpa using this))
    have h1 : Rfc.optHead (fun t => (Rfc.ctxOctets 10 t).bind Rfc.textOf)
        (optT 2 10 n ++ optT 2 11 v) = (n, optT 2 11 v) := by
      cases n with
      | some x => simp [optT, Rfc.optHead, Rfc.ctxOctets, textOf_text x h.2]
      | none => cases v <;> simp [optT, Rfc.optHead, Rfc.ctxOctets]
    have h2 : Rfc.optHead (Rfc.ctxOctets 11) (optT 2 11 v) = (v, []) := by
      cases v <;> simp [optT, Rfc.optHead, Rfc.ctxOctets]
    simp only [opT, Op.isUnbind, opNum, opKids, Bool.and_false, Bool.false_eq_true, ↓reduceIte,
      List.append_assoc, Rfc.opOf, hr, h1, h2]
    simp

/-! ### messages -/

theorem msgOf_msgT (m : Msg) (h : m.noCustom) (hb : (Tlv.enc (msgT true m)).length < lenBound) :
    Rfc.msgOf (msgT true m) = some (fillRaw m) := by
  obtain ⟨id, op, cs⟩ := m
  obtain ⟨hop, hcs⟩ := h
  simp only at hop hcs
  cases hc : cs.isEmpty
  · have hlen : (Tlv.encList (cs.map controlT)).length < lenBound := by
      simp [msgT, hc, Tlv.enc, Tlv.encList, packTLV] at hb
      omega
    simp [msgT, hc, Rfc.msgOf, Rfc.univInt, intOf_intContent, opOf_opT op hop,
      allOpt_controls cs hcs hlen, fillRaw]
  · have : cs = [] := by simpa using hc
    subst this
    simp [msgT, Rfc.msgOf, Rfc.univInt, intOf_intContent, opOf_opT op hop, fillRaw]

theorem rfcDecode_encMsgRfc' (m : Msg) (h : m.noCustom)
    (hs : (encMsgRfc' m).length < 256 ^ 126) :
    Rfc.decode (encMsgRfc' m) = some (fillRaw m) := by
  rw [← enc_msgT_rfc] at hs ⊢
  have hc := contentLen_le (msgT true m)
  have hp := strictParseAll_enc (msgT true m) (ok_msgT true m h.1) (by rw [lenBound_eq]; omega)
  simp [Rfc.decode, hp, msgOf_msgT m h (by rw [lenBound_eq]; exact hs)]

/-! ### the library's UnbindRequest -/

theorem msgOf_unbind_lib (id : Int) (cs : List Control) :
    Rfc.msgOf (msgT false ⟨id, .unbind, cs⟩) = none := by
  have hop : Rfc.opOf (opT false .unbind) = none := by
    simp [opT, opNum, opKids, Rfc.opOf]
  cases hc : cs.isEmpty <;> simp [msgT, hc, Rfc.msgOf, hop]

theorem rfcDecode_unbind_none (id : Int) (cs : List Control) :
    Rfc.decode (encMsg ⟨id, .unbind, cs⟩) = none := by
  rw [← enc_msgT_lib]
  by_cases hb : (msgT false ⟨id, .unbind, cs⟩).contentLen < lenBound
  · have hp := strictParseAll_enc _ (ok_msgT false ⟨id, .unbind, cs⟩ trivial) hb
    simp [Rfc.decode, hp, msgOf_unbind_lib]
  · have hp : strictParseAll (Tlv.enc (msgT false ⟨id, .unbind, cs⟩)) = none := by
      simp only [msgT, Tlv.contentLen, Tlv.enc] at hb ⊢
      exact strictParseAll_huge 0 true 16 _ (by omega) (by omega) (by omega)
    simp [Rfc.decode, hp]

/-! ### the size bound cannot be dropped -/

/-- a (purely mathematical) message whose length needs 127 length octets: the writer emits
    the reserved length octet `0xFF`, which no strict BER reader accepts -/
theorem rfcDecode_huge_none :
    ∃ m : Msg, m.noCustom ∧ Rfc.decode (encMsgRfc' m) = none := by
  refine ⟨⟨0, .extReq [] (some (List.replicate lenBound 0)), []⟩, ?_, ?_⟩
  · simp [Msg.noCustom, Msg.WF, Op.WF, IsText, validUtf8]
  · have hp : strictParseAll (encMsgRfc' ⟨0, .extReq [] (some (List.replicate lenBound 0)), []⟩)
        = none := by
      simp only [encMsgRfc', tSeq, tagUniv]
      refine strictParseAll_huge 0 true 16 _ (by omega) (by omega) ?_
      simp only [encOp, optBytes, packOctets, packTLV, List.length_append, List.length_replicate,
        List.isEmpty_nil, ↓reduceIte, List.append_nil]
      omega
    simp [Rfc.decode, hp]

end Verif.Proofs
