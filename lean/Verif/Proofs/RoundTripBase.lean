/-
C01 round trip, part 1: what the readers return on a written TLV, and the generic loops.
Core Lean only.
-/
import Verif.Model.Msg
import Verif.Spec.WF
import Verif.Proofs.BerHeader

namespace Verif.Proofs

open Verif

/-! ### readable tags -/

/-- tags that `readHeader` accepts back (`TypeTagNumber` rejects universal numbers above 36) -/
def Readable (t : Tag) : Prop := t.cls < 4 ∧ (t.cls = 0 → t.num ≤ 36)

@[simp] theorem readable_ctx (n : Nat) (b : Bool) : Readable (tagCtx n b) := by
  simp [Readable, tagCtx]
@[simp] theorem readable_app (n : Nat) (b : Bool) : Readable (tagApp n b) := by
  simp [Readable, tagApp]
@[simp] theorem readable_tOctets : Readable tOctets := by
  simp [Readable, tOctets, tagUniv]
@[simp] theorem readable_tSeq : Readable tSeq := by
  simp [Readable, tSeq, tagUniv]
@[simp] theorem readable_tSet : Readable tSet := by
  simp [Readable, tSet, tagUniv]
@[simp] theorem readable_tInt : Readable tInt := by
  simp [Readable, tInt, tagUniv]
@[simp] theorem readable_tEnum : Readable tEnum := by
  simp [Readable, tEnum, tagUniv]
@[simp] theorem readable_tBool : Readable tBool := by
  simp [Readable, tBool, tagUniv]

@[simp] theorem tagCtx_cls (n : Nat) (b : Bool) : (tagCtx n b).cls = 2 := rfl
@[simp] theorem tagCtx_num (n : Nat) (b : Bool) : (tagCtx n b).num = n := rfl
@[simp] theorem tagApp_cls (n : Nat) (b : Bool) : (tagApp n b).cls = 1 := rfl
@[simp] theorem tagApp_num (n : Nat) (b : Bool) : (tagApp n b).num = n := rfl
theorem tOctets_cls : tOctets.cls = 0 := rfl
theorem tOctets_num : tOctets.num = 4 := rfl
theorem tBool_cls : tBool.cls = 0 := rfl
theorem tBool_num : tBool.num = 1 := rfl

theorem packOctets_eq (c : Bytes) (t : Tag) : packOctets c t = packTLV t c := rfl
theorem packInt_eq (v : Int) (t : Tag) : packInt v t = packTLV t (intContent v) := rfl
theorem packEnum_eq (v : Int) (t : Tag) : packEnum v t = packTLV t (intContent v) := rfl
theorem packBool_eq (b : Bool) (t : Tag) : packBool b t = packTLV t [if b then 255 else 0] := rfl

theorem optBytes_none (t : Tag) : optBytes t none = [] := rfl
theorem optBytes_some (t : Tag) (v : Bytes) : optBytes t (some v) = packTLV t v := rfl

/-! ### readers on a written TLV -/

theorem packTLV_length (t : Tag) (c : Bytes) : 2 ≤ (packTLV t c).length := by
  have h1 : 1 ≤ (packTag t).length := by unfold packTag; simp only; split <;> simp
  have h2 : 1 ≤ (packLen c.length).length := by unfold packLen; split <;> simp
  unfold packTLV packHeader
  simp only [List.length_append]
  omega

theorem packTLV_ne_nil (t : Tag) (c : Bytes) : packTLV t c ≠ [] := by
  intro h; have := packTLV_length t c; rw [h] at this; simp at this

@[simp] theorem packTLV_isEmpty (t : Tag) (c : Bytes) : (packTLV t c).isEmpty = false := by
  have := packTLV_ne_nil t c
  cases h : packTLV t c <;> simp_all

@[simp] theorem packTLV_append_isEmpty (t : Tag) (c rest : Bytes) :
    (packTLV t c ++ rest).isEmpty = false := by
  have := packTLV_ne_nil t c
  cases h : packTLV t c <;> simp_all

theorem readHeader_packTLV (t : Tag) (c rest : Bytes) (h : Readable t) :
    readHeader (packTLV t c ++ rest) = .ok ⟨t, (packHeader t c.length).length, c.length⟩ := by
  unfold packTLV
  rw [List.append_assoc, readHeader_packHeader' t c.length (c ++ rest) h.1 h.2]

theorem readTLV_some (t : Tag) (c rest : Bytes) (h : Readable t) :
    readTLV (some t) (packTLV t c ++ rest) = .ok (c, rest) :=
  readTLV_packTLV' t c rest h.1 h.2

theorem readTLV_none (t : Tag) (c rest : Bytes) (h : Readable t) :
    readTLV none (packTLV t c ++ rest) = .ok (c, rest) := by
  unfold readTLV
  rw [readHeader_packTLV t c rest h]
  unfold packTLV
  simp

theorem readOctets_some (t : Tag) (c rest : Bytes) (h : Readable t) :
    readOctets (some t) (packTLV t c ++ rest) = .ok (c, rest) := readTLV_some t c rest h

theorem readOctets_none (t : Tag) (c rest : Bytes) (h : Readable t) :
    readOctets none (packTLV t c ++ rest) = .ok (c, rest) := readTLV_none t c rest h

theorem readText_some (t : Tag) (c rest : Bytes) (h : Readable t) (hc : IsText c) :
    readText (some t) (packTLV t c ++ rest) = .ok (c, rest) := by
  unfold readText
  rw [readTLV_some t c rest h]
  simp only [decodeText, show validUtf8 c = true from hc, ↓reduceIte]

theorem readText_none (t : Tag) (c rest : Bytes) (h : Readable t) (hc : IsText c) :
    readText none (packTLV t c ++ rest) = .ok (c, rest) := by
  unfold readText
  rw [readTLV_none t c rest h]
  simp only [decodeText, show validUtf8 c = true from hc, ↓reduceIte]

theorem readInt_some (v : Int) (t : Tag) (rest : Bytes) (h : Readable t) :
    readInt (some t) (packTLV t (intContent v) ++ rest) = .ok (v, rest) :=
  readInt_packInt v t rest h.1 h.2

theorem readBool_some (b : Bool) (t : Tag) (rest : Bytes) (h : Readable t) :
    readBool (some t) (packTLV t [if b then 255 else 0] ++ rest) = .ok (b, rest) :=
  readBool_packBool b t rest h.1 h.2

theorem readBool_none_true (t : Tag) (rest : Bytes) (h : Readable t) :
    readBool none (packTLV t [255] ++ rest) = .ok (true, rest) := by
  unfold readBool
  rw [readTLV_none t _ rest h]
  simp

/-! the same with nothing following -/

theorem readTLV_some' (t : Tag) (c : Bytes) (h : Readable t) :
    readTLV (some t) (packTLV t c) = .ok (c, []) := by
  simpa using readTLV_some t c [] h
theorem readTLV_none' (t : Tag) (c : Bytes) (h : Readable t) :
    readTLV none (packTLV t c) = .ok (c, []) := by
  simpa using readTLV_none t c [] h
theorem readOctets_some' (t : Tag) (c : Bytes) (h : Readable t) :
    readOctets (some t) (packTLV t c) = .ok (c, []) := readTLV_some' t c h
theorem readOctets_none' (t : Tag) (c : Bytes) (h : Readable t) :
    readOctets none (packTLV t c) = .ok (c, []) := readTLV_none' t c h
theorem readText_some' (t : Tag) (c : Bytes) (h : Readable t) (hc : IsText c) :
    readText (some t) (packTLV t c) = .ok (c, []) := by
  simpa using readText_some t c [] h hc
theorem readText_none' (t : Tag) (c : Bytes) (h : Readable t) (hc : IsText c) :
    readText none (packTLV t c) = .ok (c, []) := by
  simpa using readText_none t c [] h hc
theorem readHeader_packTLV' (t : Tag) (c : Bytes) (h : Readable t) :
    readHeader (packTLV t c) = .ok ⟨t, (packHeader t c.length).length, c.length⟩ := by
  simpa using readHeader_packTLV t c [] h
theorem readBool_none_true' (t : Tag) (h : Readable t) :
    readBool none (packTLV t [255]) = .ok (true, []) := by
  simpa using readBool_none_true t [] h

theorem skipValue_packTLV (t : Tag) (c rest : Bytes) (h : Readable t) :
    skipValue (packTLV t c ++ rest) = .ok rest := by
  unfold skipValue
  rw [readHeader_packTLV t c rest h]
  unfold packTLV
  simp only [← List.length_append, List.append_assoc]
  rw [← List.append_assoc, List.drop_left]

/-! ### the generic element loop -/

theorem loopMany_enc {α β : Type} (dec1 : Bytes → Except Err (α × Bytes)) (enc : β → Bytes)
    (g : β → α) (xs : List β)
    (h : ∀ x ∈ xs, ∀ rest, dec1 (enc x ++ rest) = .ok (g x, rest))
    (hne : ∀ x ∈ xs, enc x ≠ []) :
    ∀ fuel, ((xs.map enc).flatten).length ≤ fuel →
      loopMany dec1 fuel (xs.map enc).flatten = .ok (xs.map g) := by
  induction xs with
  | nil => intro fuel _; cases fuel <;> simp [loopMany]
  | cons x xs ih =>
    intro fuel hf
    have hx := hne x (by simp)
    simp only [List.map_cons, List.flatten_cons, List.length_append] at hf ⊢
    have hpos : 0 < (enc x).length := List.length_pos_iff.2 hx
    cases fuel with
    | zero => omega
    | succ fuel =>
      have hne' : (enc x ++ (xs.map enc).flatten).isEmpty = false := by
        cases h' : enc x <;> simp_all
      simp only [loopMany, hne', Bool.false_eq_true, ↓reduceIte, h x (by simp), bind, Except.bind]
      rw [ih (fun y hy => h y (by simp [hy])) (fun y hy => hne y (by simp [hy])) fuel (by omega)]
      rfl

end Verif.Proofs
