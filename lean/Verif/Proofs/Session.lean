/-
Helper lemmas for the session properties C08, C09, C10, C12.
The case summaries of `step` are in `SessionStep`, the invariants in `SessionInv`.
-/
import Verif.Proofs.SessionStep
import Verif.Proofs.SessionInv

namespace Verif.Proofs
open Verif
set_option linter.unusedSimpArgs false

/-! ## C12 -/

theorem sentOf_accepted {s : Sess} {c : Call} {o : Outcome} {m : Msg} (hs : c.isSend = true)
    (ha : o.accepted = true) (hm : msgOf s c = some m) : sentOf s c o = encMsg m := by
  simp [sentOf, hs, ha, hm]

theorem sentOf_refused {s : Sess} {c : Call} {o : Outcome} (ha : o.accepted = false) :
    sentOf s c o = [] := by
  simp [sentOf, ha]

theorem sentOf_not_send {s : Sess} {c : Call} {o : Outcome} (hs : c.isSend = false) :
    sentOf s c o = [] := by
  simp [sentOf, hs]

theorem isSend_of_clientReq {c : Call} (h : isClientReq c = true) : c.isSend = true := by
  cases c <;> simp_all [isClientReq, Call.isSend]

theorem isSend_of_respId {c : Call} (h : c.respId.isSome = true) : c.isSend = true := by
  cases c <;> simp_all [Call.respId, Call.isSend]

theorem step_fifo (s : Sess) (c : Call) :
    drainedOf (step s c).2 ++ (step s c).1.out = s.out ++ sentOf s c (step s c).2 := by
  by_cases hs : c.isSend = true
  · rcases isSend_cases c hs with rfl | hc | hc
    · rcases step_unbind s with ⟨h, _⟩ | ⟨h, _⟩
      · rw [h, sentOf_refused rfl]; simp [drainedOf]
      · rw [h, sentOf_accepted (m := unbindMsg) rfl rfl rfl]; simp [drainedOf]
    · cases hr : s.role with
      | server =>
        rw [step_clientReq_wrong_role s c hc hr, sentOf_refused rfl]; simp [drainedOf]
      | client =>
        obtain ⟨m, hm, _, ⟨h, _⟩ | ⟨_, _, _, h⟩⟩ := step_clientReq s c hc hr
        · rw [h, sentOf_refused rfl]; simp [drainedOf]
        · rw [h, sentOf_accepted hs rfl hm]; simp [drainedOf]
    · cases hr : s.role with
      | client =>
        rw [step_serverResp_wrong_role s c hc hr, sentOf_refused rfl]; simp [drainedOf]
      | server =>
        obtain ⟨id, hid⟩ := Option.isSome_iff_exists.1 hc
        obtain ⟨m, hm, _, _, ⟨h, _⟩ | ⟨h, _⟩ | ⟨_, _, _, h⟩⟩ := step_serverResp s c id hid hr
        · rw [h, sentOf_refused rfl]; simp [drainedOf]
        · rw [h, sentOf_refused rfl]; simp [drainedOf, (openUp_frame s)]
        · rw [h, sentOf_accepted hs rfl hm]; simp [drainedOf]
  · have hs' : c.isSend = false := by simpa using hs
    rw [sentOf_not_send hs']
    cases c <;> simp [Call.isSend] at hs
    case receive chunk =>
      have hout : (step s (.receive chunk)).1.out = s.out := (recv_frame _ s chunk).2.1
      rw [hout]
      simp only [step]
      rcases recv_cases defaultDepth s chunk with ⟨_, h⟩ | ⟨_, e, _, h⟩ | ⟨_, ms, rest, _, h⟩
      · simp [h, drainedOf]
      · simp [h, drainedOf]
      · rcases h with ⟨s2, _, h⟩ | ⟨s2, u, n, _, h⟩ | ⟨s2, _, h⟩ <;> simp [h, drainedOf]
    case drain a => simp [step, drainedOf]
    case register k => cases k <;> simp only [step] <;> split <;> simp [drainedOf]

theorem totals_queue (s : Sess) (cs : List Call) :
    (totals s cs).1 ++ (run s cs).1.out = s.out ++ (totals s cs).2 := by
  induction cs generalizing s with
  | nil => simp [totals, run]
  | cons c cs ih =>
    have h1 : (totals s (c :: cs)).1 = drainedOf (step s c).2 ++ (totals (step s c).1 cs).1 := rfl
    have h2 : (totals s (c :: cs)).2 = sentOf s c (step s c).2 ++ (totals (step s c).1 cs).2 := rfl
    have h3 : (run s (c :: cs)).1 = (run (step s c).1 cs).1 := rfl
    rw [h1, h2, h3, List.append_assoc, ih, ← List.append_assoc, step_fifo, List.append_assoc]

theorem drain_step (s : Sess) (a : Option Int) :
    ∃ b, (step s (.drain a)).2 = .bytes b ∧ b ++ (step s (.drain a)).1.out = s.out ∧
      (step s (.drain a)).1 = { s with out := (step s (.drain a)).1.out } := by
  refine ⟨_, rfl, ?_, rfl⟩
  simp [step]

theorem drain_all (s : Sess) (a : Option Int)
    (h : a = none ∨ ∃ n : Int, a = some n ∧ (s.out.length : Int) ≤ n) :
    (step s (.drain a)).2 = .bytes s.out ∧ (step s (.drain a)).1.out = [] := by
  rcases h with rfl | ⟨n, rfl, hn⟩
  · simp [step]
  · have : pySliceIdx n s.out.length = s.out.length := by
      unfold pySliceIdx
      have : n ≥ 0 := by omega
      simp only [this, if_true]
      omega
    simp [step, this]

/-! ## C10 -/

theorem refused_no_wire_effect (s : Sess) (c : Call) (hs : c.isSend = true)
    (hr : (step s c).2.accepted = false) :
    (step s c).1.out = s.out ∧
      ((step s c).2 = .ldapError ∨ (step s c).2 = .notApplicable) := by
  rcases isSend_cases c hs with rfl | hc | hc
  · rcases step_unbind s with ⟨h, _⟩ | ⟨h, _⟩
    · simp [h]
    · simp [h, Outcome.accepted] at hr
  · cases hrole : s.role with
    | server => simp [step_clientReq_wrong_role s c hc hrole]
    | client =>
      obtain ⟨m, hm, _, ⟨h, _⟩ | ⟨_, _, _, h⟩⟩ := step_clientReq s c hc hrole
      · simp [h]
      · simp [h, Outcome.accepted] at hr
  · cases hrole : s.role with
    | client => simp [step_serverResp_wrong_role s c hc hrole]
    | server =>
      obtain ⟨id, hid⟩ := Option.isSome_iff_exists.1 hc
      obtain ⟨m, hm, _, _, ⟨h, _⟩ | ⟨h, _⟩ | ⟨_, _, _, h⟩⟩ := step_serverResp s c id hid hrole
      · simp [h]
      · simp [h, (openUp_frame s)]
      · simp [h, Outcome.accepted] at hr

/-- what an accepted server response does -/
theorem serverResp_accepted (s : Sess) (c : Call) (id : Int) (hrole : s.role = .server)
    (hid : c.respId = some id) (ha : (step s c).2.accepted = true) :
    id ∈ s.outstanding ∧
      (step s c).1.outstanding = if isFinalCall c then setErase id s.outstanding else s.outstanding := by
  obtain ⟨m, hm, _, _, ⟨h, _⟩ | ⟨h, _⟩ | ⟨_, _, hin, h⟩⟩ := step_serverResp s c id hid hrole
  · simp [h, Outcome.accepted] at ha
  · simp [h, Outcome.accepted] at ha
  · exact ⟨hin, by simp [h]⟩

theorem response_only_for_outstanding (s : Sess) (c : Call) (id : Int) (hrole : s.role = .server)
    (hid : c.respId = some id) (ha : (step s c).2.accepted = true) :
    id ∈ s.outstanding :=
  (serverResp_accepted s c id hrole hid ha).1

theorem final_retires (s : Sess) (c : Call) (id : Int) (hrole : s.role = .server)
    (hid : c.respId = some id) (hf : isFinalCall c = true) (ha : (step s c).2.accepted = true) :
    id ∉ (step s c).1.outstanding := by
  rw [(serverResp_accepted s c id hrole hid ha).2, hf]
  simp [mem_setErase]

/-- a response for an id that is not outstanding is refused with no wire effect -/
theorem serverResp_unknown (s : Sess) (c : Call) (id : Int) (hrole : s.role = .server)
    (hid : c.respId = some id) (hn : id ∉ s.outstanding) :
    (step s c).2 = .ldapError ∧ (step s c).1.out = s.out := by
  obtain ⟨m, hm, _, _, ⟨h, _⟩ | ⟨h, _⟩ | ⟨_, _, hin, h⟩⟩ := step_serverResp s c id hid hrole
  · simp [h]
  · simp [h, (openUp_frame s)]
  · exact absurd hin hn

theorem second_response_rejected (s : Sess) (c c' : Call) (id : Int) (hrole : s.role = .server)
    (hid : c.respId = some id) (hid' : c'.respId = some id) (hf : isFinalCall c = true)
    (ha : (step s c).2.accepted = true) :
    (step (step s c).1 c').2 = .ldapError ∧ (step (step s c).1 c').1.out = (step s c).1.out :=
  serverResp_unknown (step s c).1 c' id ((step_role s c).trans hrole) hid'
    (final_retires s c id hrole hid hf ha)

theorem entry_keeps_open (s : Sess) (c : Call) (id : Int) (hrole : s.role = .server)
    (hid : c.respId = some id) (hf : isFinalCall c = false) (ha : (step s c).2.accepted = true) :
    id ∈ (step s c).1.outstanding := by
  rw [(serverResp_accepted s c id hrole hid ha).2, hf]
  exact (serverResp_accepted s c id hrole hid ha).1


/-! ## C09 -/

theorem issuedIds_cons_sent (s : Sess) (c : Call) (cs : List Call) (id : Int)
    (hc : isClientReq c = true) (h : (step s c).2 = .sent id) :
    issuedIds s (c :: cs) = id :: issuedIds (step s c).1 cs := by
  cases c <;> simp [isClientReq] at hc <;> simp only [issuedIds, h]

theorem issuedIds_cons_not_sent (s : Sess) (c : Call) (cs : List Call)
    (h : ∀ id, (step s c).2 ≠ .sent id) :
    issuedIds s (c :: cs) = issuedIds (step s c).1 cs := by
  simp only [issuedIds]
  split
  · next id heq => exact absurd heq (h id)
  · next id heq => exact absurd heq (h id)
  · next id heq => exact absurd heq (h id)
  · rfl

theorem issuedIds_cons_other (s : Sess) (c : Call) (cs : List Call) (hc : isClientReq c = false) :
    issuedIds s (c :: cs) = issuedIds (step s c).1 cs := by
  cases c <;> simp [isClientReq] at hc <;> simp only [issuedIds]

/-- only an accepted client request advances the id counter -/
theorem step_counter_other (s : Sess) (c : Call) (hr : s.role = .client) (hc : isClientReq c = false) :
    (step s c).1.counter = s.counter := by
  by_cases hs : c.isSend = true
  · rcases isSend_cases c hs with rfl | hc' | hc'
    · rcases step_unbind s with ⟨h, _⟩ | ⟨h, _⟩ <;> simp [h]
    · simp [hc] at hc'
    · rw [step_serverResp_wrong_role s c hc' hr]
  · cases c <;> simp [Call.isSend] at hs
    case receive chunk => exact (recv_frame _ s chunk).2.2.1
    case drain a => simp [step]
    case register k => cases k <;> simp only [step] <;> split <;> simp

theorem issuedIds_seq (cs : List Call) : ∀ s : Sess, s.role = .client →
    ∃ n, issuedIds s cs = (List.range n).map (fun (i : Nat) => s.counter + (i : Int)) := by
  induction cs with
  | nil => intro s _; exact ⟨0, rfl⟩
  | cons c cs ih =>
    intro s hr
    have hr1 : (step s c).1.role = .client := (step_role s c).trans hr
    obtain ⟨n, hn⟩ := ih (step s c).1 hr1
    by_cases hc : isClientReq c = true
    · obtain ⟨m, _, _, ⟨h, _⟩ | ⟨_, _, _, h⟩⟩ := step_clientReq s c hc hr
      · refine ⟨n, ?_⟩
        rw [issuedIds_cons_not_sent s c cs (by simp [h]), hn, h]
      · refine ⟨n + 1, ?_⟩
        rw [issuedIds_cons_sent s c cs s.counter hc (by rw [h]), hn, h, List.range_succ_eq_map]
        simp only [List.map_cons, List.map_map, Int.natCast_zero, Int.add_zero]
        congr 1
        apply List.map_congr_left
        intro i _
        simp only [Function.comp]
        omega
    · have hc' : isClientReq c = false := by simpa using hc
      refine ⟨n, ?_⟩
      rw [issuedIds_cons_other s c cs hc', hn, step_counter_other s c hr hc']

theorem ids_sequential (cs : List Call) :
    issuedIds (Sess.init .client) cs
      = (List.range (issuedIds (Sess.init .client) cs).length).map
          (fun (i : Nat) => Facts.firstMessageId + (i : Int)) := by
  obtain ⟨n, hn⟩ := issuedIds_seq cs (Sess.init .client) rfl
  have hl : (issuedIds (Sess.init .client) cs).length = n := by rw [hn]; simp
  rw [hl]
  exact hn

theorem id_in_bytes (s : Sess) (c : Call) (id : Int) (hrole : s.role = .client)
    (h : (step s c).2 = .sent id) :
    ∃ m, msgOf s c = some m ∧ m.id = id ∧ (step s c).1.out = s.out ++ encMsg m := by
  by_cases hs : c.isSend = true
  · rcases isSend_cases c hs with rfl | hc | hc
    · rcases step_unbind s with ⟨h', _⟩ | ⟨h', _⟩ <;> simp [h'] at h
    · obtain ⟨m, hm, hid, ⟨h', _⟩ | ⟨_, _, _, h'⟩⟩ := step_clientReq s c hc hrole
      · simp [h'] at h
      · refine ⟨m, hm, ?_, by simp [h']⟩
        rw [h'] at h
        simp only [Outcome.sent.injEq] at h
        rw [hid, h]
    · simp [step_serverResp_wrong_role s c hc hrole] at h
  · cases c <;> simp [Call.isSend] at hs
    case receive chunk =>
      simp only [step] at h
      rcases recv_cases defaultDepth s chunk with ⟨_, h'⟩ | ⟨_, e, _, h'⟩ | ⟨_, ms, rest, _, h'⟩
      · simp [h'] at h
      · simp [h'] at h
      · rcases h' with ⟨s2, _, h'⟩ | ⟨s2, u, n, _, h'⟩ | ⟨s2, _, h'⟩ <;> simp [h'] at h
    case drain a => simp [step] at h
    case register k => cases k <;> simp only [step] at h <;> split at h <;> simp at h

theorem client_searches_outstanding (s : Sess) (hr : Reachable s) (hrole : s.role = .client)
    (hs : s.state ≠ .closed) : ∀ i ∈ s.searches, i ∈ s.outstanding :=
  (reachable_inv hr hrole).sub hs

theorem cinv_accepted_iff (s : Sess) (m : Msg) (hi : CInv s) (hs : s.state ≠ .closed) :
    (clientProcess s m).isSome = true ↔ (m.op.isResponse = true ∧ m.id ∈ s.outstanding) := by
  rw [clientProcess_isSome]
  constructor
  · rintro ⟨h1, h2 | h2⟩
    · exact ⟨h1, hi.sub hs _ h2⟩
    · exact ⟨h1, h2⟩
  · rintro ⟨h1, h2⟩
    exact ⟨h1, Or.inr h2⟩

theorem client_accepted_iff (s : Sess) (m : Msg) (hr : Reachable s) (hrole : s.role = .client)
    (hs : s.state ≠ .closed) :
    (clientProcess s m).isSome = true ↔ (m.op.isResponse = true ∧ m.id ∈ s.outstanding) :=
  cinv_accepted_iff s m (reachable_inv hr hrole) hs

theorem notDone_iff (op : Op) :
    (match op with | .searchDone .. => False | _ => True) ↔ opIsDone op = false := by
  cases op <;> simp [opIsDone]

theorem client_lifetime (s : Sess) (m : Msg) (hr : Reachable s) (hrole : s.role = .client)
    (hs : s.state ≠ .closed) (ha : (clientProcess s m).isSome = true) :
    ∃ s', clientProcess s m = some (s', false) ∧
      (m.id ∈ s'.outstanding ↔
        (m.id ∈ s.searches ∧ (match m.op with | .searchDone .. => False | _ => True))) ∧
      (∀ j, j ≠ m.id → (j ∈ s'.outstanding ↔ j ∈ s.outstanding)) := by
  have hi := reachable_inv hr hrole
  obtain ⟨hresp, hO⟩ := (cinv_accepted_iff s m hi hs).1 ha
  rw [notDone_iff]
  rw [clientProcess_eq]
  simp only [hresp, hO, or_true, and_self, if_true, not_true_eq_false, and_false, decide_false, or_false]
  refine ⟨_, rfl, ?_, ?_⟩
  · by_cases h1 : m.id ∈ s.searches ∧ opIsDone m.op = false
    · simp [h1, hO]
    · simp [h1, mem_setErase]
  · intro j hj
    by_cases h1 : m.id ∈ s.searches ∧ opIsDone m.op = false
    · simp [h1]
    · simp [h1, mem_setErase, hj]

theorem processLoop_client_none (s : Sess) (m : Msg) (ms : List Msg) (hrole : s.role = .client)
    (hnone : clientProcess s m = none) : ∃ u n, processLoop s (m :: ms) = .protoErr s u n := by
  rw [processLoop_cons]
  by_cases hn : m.op.isNotice = true
  · exact ⟨false, true, by simp [hn]⟩
  by_cases hu : m.op.isUnbind = true
  · exact ⟨true, false, by simp [hn, hu]⟩
  exact ⟨false, false, by simp [hn, hu, hrole, hnone]⟩

theorem client_reject_closes (d : Nat) (s : Sess) (chunk : Bytes) (ms : List Msg) (rest : Bytes) (m : Msg)
    (hr : Reachable s) (hrole : s.role = .client) (hs : s.state ≠ .closed)
    (hp : parseLoop s.regs d (s.residue ++ chunk).length (s.residue ++ chunk) = .ok (ms, rest))
    (hm : ms = [m]) (hbad : ¬(m.op.isResponse = true ∧ m.id ∈ s.outstanding)) :
    (∃ n, (recv d s chunk).2 = .protocolError n) ∧ (recv d s chunk).1.state = .closed := by
  subst hm
  have hi : CInv { s with residue := rest } := (reachable_inv hr hrole).congr rfl rfl rfl
  have hnone : clientProcess { s with residue := rest } m = none := by
    have : ¬ (clientProcess { s with residue := rest } m).isSome = true :=
      fun h => hbad ((cinv_accepted_iff { s with residue := rest } m hi hs).1 h)
    simpa using this
  have hproto := processLoop_client_none { s with residue := rest } m [] hrole hnone
  obtain ⟨u, n, hproto⟩ := hproto
  rcases recv_cases d s chunk with ⟨h, _⟩ | ⟨_, e, he, _⟩ | ⟨_, ms', rest', hp', h⟩
  · exact absurd h hs
  · rw [hp] at he; cases he
  · rw [hp] at hp'
    simp only [Except.ok.injEq, Prod.mk.injEq] at hp'
    obtain ⟨rfl, rfl⟩ := hp'
    rw [hproto] at h
    rcases h with ⟨s2, hl, _⟩ | ⟨s2, u', n', _, h⟩ | ⟨s2, hl, _⟩
    · cases hl
    · rw [h]; exact ⟨⟨_, rfl⟩, rfl⟩
    · cases hl


/-! ## C08 -/

/-- Known finding F-C08c (same definition as `Verif.C08.KnownDeviation`) -/
def KnownDeviation (s : Sess) (c : Call) : Prop :=
  s.role = .server ∧ s.state = .beforeOpen ∧ c.respId.isSome = true ∧ (step s c).2 = .ldapError

theorem events_accepted {s : Sess} {c : Call} {o : Outcome} {m : Msg} (hs : c.isSend = true)
    (ha : o.accepted = true) (hm : msgOf s c = some m) : events s c o = [evOfMsg m] := by
  cases c <;> simp [Call.isSend] at hs <;> simp [events, Call.isSend, ha, hm]

theorem events_refused {s : Sess} {c : Call} {o : Outcome} (hs : c.isSend = true)
    (ha : o.accepted = false) : events s c o = [] := by
  cases c <;> simp [Call.isSend] at hs <;> simp [events, ha]

theorem events_drain (s : Sess) (a : Option Int) (o : Outcome) : events s (.drain a) o = [] := by
  simp [events, Call.isSend]

theorem events_register (s : Sess) (k : RegKind) (o : Outcome) : events s (.register k) o = [] := by
  simp [events, Call.isSend]

theorem events_receive_msgs (s : Sess) (chunk : Bytes) (ms : List Msg) :
    events s (.receive chunk) (.msgs ms) = ms.map evOfMsg := rfl

theorem events_receive_protoErr (s : Sess) (chunk : Bytes) (n : Notification) :
    events s (.receive chunk) (.protocolError n) = [.terminate] := rfl

theorem specNext_terminate (st : SState) : specNext st .terminate = .closed := by
  cases st <;> rfl

theorem specNext_bindStart {st : SState} (h : st ≠ .closed) : specNext st .bindStart = .binding := by
  cases st <;> simp_all [specNext]

theorem specNext_bindDone {st : SState} (h : st ≠ .closed) : specNext st .bindDone = .opened := by
  cases st <;> simp_all [specNext]

theorem specNext_traffic {st : SState} (h : st ≠ .closed) :
    specNext st .traffic = if st = .beforeOpen then .opened else st := by
  cases st <;> simp_all [specNext]

theorem specNext_bindContinue {st : SState} (h : st ≠ .closed) :
    specNext st .bindContinue = if st = .beforeOpen then .opened else st := by
  cases st <;> simp_all [specNext]

theorem refines_unbind (s : Sess) :
    (step s .unbind).1.state = (events s .unbind (step s .unbind).2).foldl specNext s.state := by
  rcases step_unbind s with ⟨h, _⟩ | ⟨h, _⟩
  · rw [h, events_refused rfl rfl]; rfl
  · rw [h, events_accepted (m := unbindMsg) rfl rfl rfl]
    simp [evOfMsg, unbindMsg, specNext_terminate]

theorem refines_clientReq (s : Sess) (c : Call) (hc : isClientReq c = true) :
    (step s c).1.state = (events s c (step s c).2).foldl specNext s.state := by
  have hs := isSend_of_clientReq hc
  cases hr : s.role with
  | server => rw [step_clientReq_wrong_role s c hc hr, events_refused hs rfl]; rfl
  | client =>
    obtain ⟨m, hm, _, ⟨h, _⟩ | ⟨hcl, _, _, h⟩⟩ := step_clientReq s c hc hr
    · rw [h, events_refused hs rfl]; rfl
    · rw [h, events_accepted hs rfl hm]
      cases c <;> simp [isClientReq] at hc <;> simp only [msgOf, Option.some.injEq] at hm <;> subst hm
      · simp [isBindCall, evOfMsg, specNext_bindStart hcl]
      · simp [isBindCall, evOfMsg, specNext_traffic hcl, openUp_state]
      · simp [isBindCall, evOfMsg, specNext_traffic hcl, openUp_state]

theorem respState_spec (s : Sess) (c : Call) (m : Msg) (hc : c.respId.isSome = true)
    (hm : msgOf s c = some m) (hcl : s.state ≠ .closed) :
    respState c (openUp s).state = specNext s.state (evOfMsg m) := by
  cases c <;> simp [Call.respId] at hc <;> simp only [msgOf, Option.some.injEq] at hm <;> subst hm
  case bindResponse id' sasl code mdn diag controls =>
    by_cases hcode : code = Facts.codeSaslBindInProgress
    · simp [respState, evOfMsg, hcode, specNext_bindContinue hcl, openUp_state]
    · simp [respState, evOfMsg, hcode, specNext_bindDone hcl]
  case extendedResponse id' name value code mdn diag controls =>
    cases name with
    | none => simp [respState, evOfMsg, specNext_traffic hcl, openUp_state]
    | some n =>
      by_cases hn : n = Facts.oidNotice
      · simp [respState, evOfMsg, hn, specNext_terminate]
      · simp [respState, evOfMsg, hn, specNext_traffic hcl, openUp_state]
  case entry => simp [respState, evOfMsg, specNext_traffic hcl, openUp_state]
  case reference => simp [respState, evOfMsg, specNext_traffic hcl, openUp_state]
  case done => simp [respState, evOfMsg, specNext_traffic hcl, openUp_state]

theorem refines_serverResp (s : Sess) (c : Call) (hc : c.respId.isSome = true)
    (hx : ¬KnownDeviation s c) :
    (step s c).1.state = (events s c (step s c).2).foldl specNext s.state := by
  have hs := isSend_of_respId hc
  cases hr : s.role with
  | client => rw [step_serverResp_wrong_role s c hc hr, events_refused hs rfl]; rfl
  | server =>
    obtain ⟨id, hid⟩ := Option.isSome_iff_exists.1 hc
    obtain ⟨m, hm, _, _, ⟨h, _⟩ | ⟨h, _⟩ | ⟨hcl, _, _, h⟩⟩ := step_serverResp s c id hid hr
    · rw [h, events_refused hs rfl]; rfl
    · have hnb : s.state ≠ .beforeOpen := fun hb => hx ⟨hr, hb, hc, by rw [h]⟩
      rw [h, events_refused hs rfl]
      simp [openUp_state, hnb]
    · rw [h, events_accepted hs rfl hm]
      simpa using respState_spec s c m hc hm hcl

theorem refines_receive (s : Sess) (chunk : Bytes) (hi : Inv s) :
    (step s (.receive chunk)).1.state =
      (events s (.receive chunk) (step s (.receive chunk)).2).foldl specNext s.state := by
  simp only [step]
  rcases recv_cases defaultDepth s chunk with ⟨hc, h⟩ | ⟨_, e, _, h⟩ | ⟨hs, ms, rest, _, h⟩
  · rw [h, events_receive_protoErr]; simp [hc, specNext_terminate]
  · rw [h, events_receive_protoErr]; simp [closeSess, specNext_terminate]
  · rcases h with ⟨s2, hl, h⟩ | ⟨s2, u, n, hl, h⟩ | ⟨s2, hl, h⟩
    · rw [h, events_receive_msgs]
      cases hr : s.role with
      | client =>
        have hi0 : CInv { s with residue := rest } := (hi hr).congr rfl rfl rfl
        exact ((processLoop_client ms { s with residue := rest } hr hi0 hs).1 s2 hl).2.2
      | server =>
        exact ((processLoop_server ms { s with residue := rest } hr hs).1 s2 hl).2
    · rw [h, events_receive_protoErr]; simp [closeSess, specNext_terminate]
    · exfalso
      cases hr : s.role with
      | client =>
        have hi0 : CInv { s with residue := rest } := (hi hr).congr rfl rfl rfl
        exact (processLoop_client ms { s with residue := rest } hr hi0 hs).2 s2 hl
      | server =>
        exact (processLoop_server ms { s with residue := rest } hr hs).2 s2 hl

theorem step_refines_inv (s : Sess) (c : Call) (hi : Inv s) (hx : ¬KnownDeviation s c) :
    (step s c).1.state = (events s c (step s c).2).foldl specNext s.state := by
  by_cases hs : c.isSend = true
  · rcases isSend_cases c hs with rfl | hc | hc
    · exact refines_unbind s
    · exact refines_clientReq s c hc
    · exact refines_serverResp s c hc hx
  · cases c <;> simp [Call.isSend] at hs
    case receive chunk => exact refines_receive s chunk hi
    case drain a => rw [events_drain]; simp [step]
    case register k =>
      rw [events_register]
      cases k <;> simp only [step] <;> split <;> simp

theorem step_refines (s : Sess) (c : Call) (hr : Reachable s) (hx : ¬KnownDeviation s c) :
    (step s c).1.state = (events s c (step s c).2).foldl specNext s.state :=
  step_refines_inv s c (reachable_inv hr) hx

theorem known_deviation (s : Sess) (c : Call) (h : KnownDeviation s c) :
    (step s c).1.state = .opened ∧ (step s c).1.out = s.out := by
  obtain ⟨hr, hb, hc, ho⟩ := h
  obtain ⟨id, hid⟩ := Option.isSome_iff_exists.1 hc
  obtain ⟨m, hm, _, _, ⟨h, h'⟩ | ⟨h, _⟩ | ⟨hcl, _, _, h⟩⟩ := step_serverResp s c id hid hr
  · simp [hb] at h'
  · simp [h, openUp_state, hb, (openUp_frame s)]
  · simp [h] at ho

theorem run_refines (s : Sess) (cs : List Call) (hr : Reachable s) :
    (∀ s' c, Reachable s' → c ∈ cs → ¬KnownDeviation s' c) →
    (run s cs).1.state = (historyEvents s cs).foldl specNext s.state := by
  induction cs generalizing s with
  | nil => intro _; rfl
  | cons c cs ih =>
    intro hx
    have h1 : (run s (c :: cs)).1 = (run (step s c).1 cs).1 := rfl
    have h2 : historyEvents s (c :: cs) = events s c (step s c).2 ++ historyEvents (step s c).1 cs := rfl
    rw [h1, h2, List.foldl_append, ← step_refines s c hr (hx s c hr (List.mem_cons_self ..))]
    exact ih (step s c).1 (Reachable.step s c hr)
      (fun s' c' hr' hm => hx s' c' hr' (List.mem_cons_of_mem _ hm))

theorem closed_send (s : Sess) (c : Call) (h : s.state = .closed) (hs : c.isSend = true) :
    step s c = (s, .ldapError) ∨ step s c = (s, .notApplicable) := by
  rcases isSend_cases c hs with rfl | hc | hc
  · rcases step_unbind s with ⟨h', _⟩ | ⟨_, h'⟩
    · exact Or.inl h'
    · exact absurd h h'
  · cases hr : s.role with
    | server => exact Or.inr (step_clientReq_wrong_role s c hc hr)
    | client =>
      obtain ⟨m, hm, _, ⟨h', _⟩ | ⟨hcl, _⟩⟩ := step_clientReq s c hc hr
      · exact Or.inl h'
      · exact absurd h hcl
  · cases hr : s.role with
    | client => exact Or.inr (step_serverResp_wrong_role s c hc hr)
    | server =>
      obtain ⟨id, hid⟩ := Option.isSome_iff_exists.1 hc
      obtain ⟨m, hm, _, _, ⟨h', _⟩ | ⟨_, hcl, _⟩ | ⟨hcl, _⟩⟩ := step_serverResp s c id hid hr
      · exact Or.inl h'
      · exact absurd h hcl
      · exact absurd h hcl

theorem closed_final (s : Sess) (c : Call) (h : s.state = .closed) :
    (step s c).1.state = .closed ∧
      (∃ k, (step s c).1.out = s.out.drop k) ∧
      (c.isSend = true → (step s c).2 = .ldapError ∨ (step s c).2 = .notApplicable) ∧
      (∀ chunk, c = .receive chunk →
        (∃ n, (step s c).2 = .protocolError n) ∧ (step s c).1.residue = s.residue) := by
  by_cases hs : c.isSend = true
  · have hne : ∀ chunk, c ≠ .receive chunk := by
      intro chunk e; subst e; simp [Call.isSend] at hs
    rcases closed_send s c h hs with h' | h'
    · exact ⟨by rw [h']; exact h, ⟨0, by rw [h']; rfl⟩, fun _ => Or.inl (by rw [h']),
        fun chunk e => absurd e (hne chunk)⟩
    · exact ⟨by rw [h']; exact h, ⟨0, by rw [h']; rfl⟩, fun _ => Or.inr (by rw [h']),
        fun chunk e => absurd e (hne chunk)⟩
  · refine ⟨?_, ?_, fun h' => absurd h' hs, ?_⟩
    · cases c <;> simp [Call.isSend] at hs
      case receive chunk => simp [step, recv, h]
      case drain a => simpa [step] using h
      case register k => cases k <;> simp only [step] <;> split <;> simpa using h
    · cases c <;> simp [Call.isSend] at hs
      case receive chunk => exact ⟨0, by simp [step, recv, h]⟩
      case drain a => exact ⟨_, rfl⟩
      case register k => exact ⟨0, by cases k <;> simp only [step] <;> split <;> simp⟩
    · intro chunk e
      subst e
      simp [step, recv, h]

theorem closed_forever (s : Sess) (cs : List Call) (h : s.state = .closed) :
    (run s cs).1.state = .closed := by
  induction cs generalizing s with
  | nil => exact h
  | cons c cs ih =>
    have h1 : (run s (c :: cs)).1 = (run (step s c).1 cs).1 := rfl
    rw [h1]
    exact ih _ (closed_final s c h).1

theorem client_bind_needs_idle (s : Sess) (dn : Bytes) (cred : Cred) (cs : List Control)
    (hrole : s.role = .client) (ho : s.outstanding ≠ []) :
    step s (.bind dn cred cs) = (s, .ldapError) := by
  simp [step, hrole, ho]

theorem server_bind_needs_idle (s : Sess) (m : Msg) (ms : List Msg) (hrole : s.role = .server)
    (ho : s.outstanding ≠ []) (hb : ∃ v n c, m.op = .bindReq v n c) :
    ∃ s', processLoop s (m :: ms) = .protoErr s' false false := by
  obtain ⟨v, n, c, hop⟩ := hb
  refine ⟨s, ?_⟩
  have hnone : serverProcess s m = none := by
    rw [serverProcess_eq]
    simp [hop, opIsBind, ho]
  rw [processLoop_cons]
  simp [hop, Op.isNotice, Op.isUnbind, hrole, hnone]

theorem binding_restricts_sends (s : Sess) (c : Call) (m : Msg) (hb : s.state = .binding)
    (hs : c.isSend = true) (ha : (step s c).2.accepted = true) (hm : msgOf s c = some m) :
    allowedWhileBinding m.op = true := by
  rcases isSend_cases c hs with rfl | hc | hc
  · simp only [msgOf, Option.some.injEq] at hm
    subst hm
    rfl
  · cases hr : s.role with
    | server => simp [step_clientReq_wrong_role s c hc hr, Outcome.accepted] at ha
    | client =>
      obtain ⟨m', hm', _, ⟨h', _⟩ | ⟨_, hal, _⟩⟩ := step_clientReq s c hc hr
      · simp [h', Outcome.accepted] at ha
      · rw [hm] at hm'
        simp only [Option.some.injEq] at hm'
        subst hm'
        exact hal hb
  · cases hr : s.role with
    | client => simp [step_serverResp_wrong_role s c hc hr, Outcome.accepted] at ha
    | server =>
      obtain ⟨id, hid⟩ := Option.isSome_iff_exists.1 hc
      obtain ⟨m', hm', _, _, ⟨h', _⟩ | ⟨h', _⟩ | ⟨_, hal, _⟩⟩ := step_serverResp s c id hid hr
      · simp [h', Outcome.accepted] at ha
      · simp [h', Outcome.accepted] at ha
      · rw [hm] at hm'
        simp only [Option.some.injEq] at hm'
        subst hm'
        exact hal hb

theorem foldl_specNext_cases (evs : List Ev) : ∀ st : SState, st ≠ .beforeOpen →
    evs.foldl specNext st = .closed ∨ evs.foldl specNext st = .binding ∨
      (evs.foldl specNext st = .opened ∧ (st = .opened ∨ .bindDone ∈ evs)) := by
  induction evs with
  | nil => intro st h; cases st <;> simp_all
  | cons e evs ih =>
    intro st h
    have h' : specNext st e ≠ .beforeOpen := by cases st <;> cases e <;> simp_all [specNext]
    rw [List.foldl_cons]
    rcases ih (specNext st e) h' with h1 | h1 | ⟨h1, h2⟩
    · exact Or.inl h1
    · exact Or.inr (Or.inl h1)
    · refine Or.inr (Or.inr ⟨h1, ?_⟩)
      rcases h2 with h2 | h2
      · cases st <;> cases e <;> simp_all [specNext]
      · exact Or.inr (List.mem_cons_of_mem _ h2)

theorem leaves_binding (s : Sess) (c : Call) (hr : Reachable s) (hb : s.state = .binding)
    (hn : (step s c).1.state ≠ .binding) :
    (step s c).1.state = .closed ∨
      ((step s c).1.state = .opened ∧ .bindDone ∈ events s c (step s c).2) := by
  have hx : ¬KnownDeviation s c := fun h => by have := h.2.1; simp [hb] at this
  have href := step_refines s c hr hx
  rcases foldl_specNext_cases (events s c (step s c).2) s.state (by simp [hb]) with h | h | ⟨h, h'⟩
  · exact Or.inl (href.trans h)
  · exact absurd (href.trans h) hn
  · refine Or.inr ⟨href.trans h, ?_⟩
    rcases h' with h' | h'
    · simp [hb] at h'
    · exact h'

end Verif.Proofs
