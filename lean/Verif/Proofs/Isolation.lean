/-
Helper lemmas for C19: what an unregistered session does with the bytes of a custom type.
-/
import Verif.Proofs.RoundTripOps

namespace Verif.Proofs

open Verif


theorem decFilter_custom_unregistered (v rest : Bytes) (depth : Nat) :
    decFilter {} (depth + 1) (encFilter (.custom v) ++ rest) = .error .notImpl := by
  simp only [encFilter, packOctets_eq, decFilter]
  rw [readHeader_packTLV _ _ _ (readable_ctx _ _)]
  simp [tagCtx, Facts.customFilterId, Facts.filterAnd, Facts.filterOr, Facts.filterNot, Facts.filterEq, Facts.filterSubstr,
    Facts.filterGe, Facts.filterLe, Facts.filterPresent, Facts.filterApprox, Facts.filterExt, bind, Except.bind]

theorem decCred_custom_unregistered (v rest : Bytes) :
    decCred {} (encCred (.custom v) ++ rest) = .error .notImpl := by
  simp only [encCred, packOctets_eq, decCred]
  rw [readHeader_packTLV _ _ _ (readable_ctx _ _)]
  simp [tagCtx, Facts.customCredId, Facts.credSasl, Facts.credSimple, bind, Except.bind]

theorem decControl_custom_unregistered (crit : Bool) (data : Bytes) (raw : Option Bytes) (rest : Bytes) :
    decControl {} (encControl (.custom crit data raw) ++ rest)
      = .ok (.generic Facts.oidCustomControl crit (some (Facts.customControlMagic ++ data)), rest) := by
  have he : encControl (.custom crit data raw)
      = encControl (.generic Facts.oidCustomControl crit (some (Facts.customControlMagic ++ data))) := rfl
  rw [he]
  have hwf : Control.WF {} (.generic Facts.oidCustomControl crit (some (Facts.customControlMagic ++ data))) := by
    refine ⟨by unfold IsText; decide, by decide, by decide, by decide, ?_⟩
    intro h; cases h
  simpa [fillRawControl] using decControl_enc {} _ rest hwf

end Verif.Proofs
