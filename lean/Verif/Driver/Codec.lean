/-
JSON (de)serialisation of model values for the line-protocol driver. Not part of any proof.
-/
import Lean.Data.Json
import Verif.Model.Session

open Lean

namespace Verif.Driver

def hexDigit (n : Nat) : Char :=
  if n < 10 then Char.ofNat (48 + n) else Char.ofNat (87 + n)

def toHex (b : Bytes) : String :=
  String.ofList (b.flatMap fun x => [hexDigit (x / 16 % 16), hexDigit (x % 16)])

def hexVal (c : Char) : Option Nat :=
  if '0' ≤ c ∧ c ≤ '9' then some (c.toNat - 48)
  else if 'a' ≤ c ∧ c ≤ 'f' then some (c.toNat - 87)
  else if 'A' ≤ c ∧ c ≤ 'F' then some (c.toNat - 55)
  else none

partial def fromHexAux : List Char → Bytes → Except String Bytes
  | [], acc => .ok acc.reverse
  | [_], _ => .error "odd hex"
  | a :: b :: r, acc =>
    match hexVal a, hexVal b with
    | some x, some y => fromHexAux r ((x * 16 + y) :: acc)
    | _, _ => .error "bad hex"

def fromHex (s : String) : Except String Bytes := fromHexAux s.toList []

def jBytes (b : Bytes) : Json := Json.str (toHex b)
def jOptBytes : Option Bytes → Json
  | none => Json.null
  | some b => jBytes b
def jInt (i : Int) : Json := Json.num (JsonNumber.fromInt i)
def jList {α} (f : α → Json) (l : List α) : Json := Json.arr (l.map f).toArray

def getBytes (j : Json) (k : String) : Except String Bytes := do
  let v ← j.getObjVal? k
  let s ← v.getStr?
  fromHex s

def asBytes (j : Json) : Except String Bytes := do fromHex (← j.getStr?)

def getOptBytes (j : Json) (k : String) : Except String (Option Bytes) := do
  match j.getObjVal? k with
  | .error _ => return none
  | .ok Json.null => return none
  | .ok v => return some (← asBytes v)

def getInt (j : Json) (k : String) : Except String Int := do
  let v ← j.getObjVal? k
  v.getInt?

def getNat (j : Json) (k : String) : Except String Nat := do
  let v ← j.getObjVal? k
  v.getNat?

def getBool (j : Json) (k : String) : Except String Bool := do
  let v ← j.getObjVal? k
  v.getBool?

def getStr (j : Json) (k : String) : Except String String := do
  let v ← j.getObjVal? k
  v.getStr?

def getArr (j : Json) (k : String) : Except String (List Json) := do
  let v ← j.getObjVal? k
  return (← v.getArr?).toList

def getBytesList (j : Json) (k : String) : Except String (List Bytes) := do
  (← getArr j k).mapM asBytes

/-! ### Filter -/

partial def filterToJson : Filter → Json
  | .and fs => Json.mkObj [("k", "and"), ("fs", jList filterToJson fs)]
  | .or fs => Json.mkObj [("k", "or"), ("fs", jList filterToJson fs)]
  | .not f => Json.mkObj [("k", "not"), ("f", filterToJson f)]
  | .eq a v => Json.mkObj [("k", "eq"), ("a", jBytes a), ("v", jBytes v)]
  | .substr a i any f => Json.mkObj [("k", "substr"), ("a", jBytes a), ("i", jOptBytes i),
      ("any", jList jBytes any), ("f", jOptBytes f)]
  | .ge a v => Json.mkObj [("k", "ge"), ("a", jBytes a), ("v", jBytes v)]
  | .le a v => Json.mkObj [("k", "le"), ("a", jBytes a), ("v", jBytes v)]
  | .present a => Json.mkObj [("k", "present"), ("a", jBytes a)]
  | .approx a v => Json.mkObj [("k", "approx"), ("a", jBytes a), ("v", jBytes v)]
  | .ext rule attr v dn => Json.mkObj [("k", "ext"), ("rule", jOptBytes rule), ("attr", jOptBytes attr),
      ("v", jBytes v), ("dn", Json.bool dn)]
  | .custom v => Json.mkObj [("k", "custom"), ("v", jBytes v)]

partial def filterFromJson (j : Json) : Except String Filter := do
  let k ← getStr j "k"
  match k with
  | "and" => return .and (← (← getArr j "fs").mapM filterFromJson)
  | "or" => return .or (← (← getArr j "fs").mapM filterFromJson)
  | "not" => return .not (← filterFromJson (← j.getObjVal? "f"))
  | "eq" => return .eq (← getBytes j "a") (← getBytes j "v")
  | "ge" => return .ge (← getBytes j "a") (← getBytes j "v")
  | "le" => return .le (← getBytes j "a") (← getBytes j "v")
  | "approx" => return .approx (← getBytes j "a") (← getBytes j "v")
  | "present" => return .present (← getBytes j "a")
  | "substr" => return .substr (← getBytes j "a") (← getOptBytes j "i") (← getBytesList j "any") (← getOptBytes j "f")
  | "ext" => return .ext (← getOptBytes j "rule") (← getOptBytes j "attr") (← getBytes j "v") (← getBool j "dn")
  | "custom" => return .custom (← getBytes j "v")
  | _ => throw s!"bad filter kind {k}"

/-! ### Cred / Control / Result / Op / Msg -/

def credToJson : Cred → Json
  | .simple pw => Json.mkObj [("k", "simple"), ("pw", jBytes pw)]
  | .sasl m c => Json.mkObj [("k", "sasl"), ("mech", jBytes m), ("creds", jOptBytes c)]
  | .custom v => Json.mkObj [("k", "custom"), ("v", jBytes v)]

def credFromJson (j : Json) : Except String Cred := do
  match (← getStr j "k") with
  | "simple" => return .simple (← getBytes j "pw")
  | "sasl" => return .sasl (← getBytes j "mech") (← getOptBytes j "creds")
  | "custom" => return .custom (← getBytes j "v")
  | k => throw s!"bad cred kind {k}"

def controlToJson : Control → Json
  | .generic oid c v => Json.mkObj [("k", "generic"), ("oid", jBytes oid), ("crit", Json.bool c), ("value", jOptBytes v)]
  | .paged c size cookie raw => Json.mkObj [("k", "paged"), ("crit", Json.bool c), ("size", jInt size),
      ("cookie", jBytes cookie), ("raw", jOptBytes raw)]
  | .showDeleted c raw => Json.mkObj [("k", "showDeleted"), ("crit", Json.bool c), ("raw", jOptBytes raw)]
  | .showDeactivated c raw => Json.mkObj [("k", "showDeactivated"), ("crit", Json.bool c), ("raw", jOptBytes raw)]
  | .custom c d raw => Json.mkObj [("k", "custom"), ("crit", Json.bool c), ("data", jBytes d), ("raw", jOptBytes raw)]

def controlFromJson (j : Json) : Except String Control := do
  match (← getStr j "k") with
  | "generic" => return .generic (← getBytes j "oid") (← getBool j "crit") (← getOptBytes j "value")
  | "paged" => return .paged (← getBool j "crit") (← getInt j "size") (← getBytes j "cookie") (← getOptBytes j "raw")
  | "showDeleted" => return .showDeleted (← getBool j "crit") (← getOptBytes j "raw")
  | "showDeactivated" => return .showDeactivated (← getBool j "crit") (← getOptBytes j "raw")
  | "custom" => return .custom (← getBool j "crit") (← getBytes j "data") (← getOptBytes j "raw")
  | k => throw s!"bad control kind {k}"

def getControls (j : Json) (k : String := "controls") : Except String (List Control) := do
  match j.getObjVal? k with
  | .error _ => return []
  | .ok Json.null => return []
  | .ok v => (← v.getArr?).toList.mapM controlFromJson

def resultToJson (r : LdapResult) : Json :=
  Json.mkObj [("code", jInt r.code), ("mdn", jBytes r.matchedDn), ("diag", jBytes r.diag),
    ("refs", match r.referrals with | none => Json.null | some rs => jList jBytes rs)]

def resultFromJson (j : Json) : Except String LdapResult := do
  let refs ← match j.getObjVal? "refs" with
    | .error _ => pure none
    | .ok Json.null => pure none
    | .ok v => do pure (some (← (← v.getArr?).toList.mapM asBytes))
  return ⟨← getInt j "code", ← getBytes j "mdn", ← getBytes j "diag", refs⟩

def attrToJson (a : Bytes × List Bytes) : Json :=
  Json.mkObj [("name", jBytes a.1), ("vals", jList jBytes a.2)]

def attrFromJson (j : Json) : Except String (Bytes × List Bytes) := do
  return (← getBytes j "name", ← getBytesList j "vals")

def opToJson : Op → Json
  | .bindReq v n c => Json.mkObj [("k", "bindReq"), ("version", jInt v), ("name", jBytes n), ("cred", credToJson c)]
  | .bindResp r s => Json.mkObj [("k", "bindResp"), ("res", resultToJson r), ("sasl", jOptBytes s)]
  | .unbind => Json.mkObj [("k", "unbind")]
  | .searchReq b sc dr sl tl ty f attrs => Json.mkObj [("k", "searchReq"), ("base", jBytes b), ("scope", jInt sc),
      ("deref", jInt dr), ("size", jInt sl), ("time", jInt tl), ("typesOnly", Json.bool ty),
      ("filter", filterToJson f), ("attrs", jList jBytes attrs)]
  | .searchEntry n attrs => Json.mkObj [("k", "searchEntry"), ("name", jBytes n), ("attrs", jList attrToJson attrs)]
  | .searchDone r => Json.mkObj [("k", "searchDone"), ("res", resultToJson r)]
  | .searchRef uris => Json.mkObj [("k", "searchRef"), ("uris", jList jBytes uris)]
  | .extReq n v => Json.mkObj [("k", "extReq"), ("name", jBytes n), ("value", jOptBytes v)]
  | .extResp r n v => Json.mkObj [("k", "extResp"), ("res", resultToJson r), ("name", jOptBytes n), ("value", jOptBytes v)]

def opFromJson (j : Json) : Except String Op := do
  match (← getStr j "k") with
  | "bindReq" => return .bindReq (← getInt j "version") (← getBytes j "name") (← credFromJson (← j.getObjVal? "cred"))
  | "bindResp" => return .bindResp (← resultFromJson (← j.getObjVal? "res")) (← getOptBytes j "sasl")
  | "unbind" => return .unbind
  | "searchReq" => return .searchReq (← getBytes j "base") (← getInt j "scope") (← getInt j "deref") (← getInt j "size") (← getInt j "time") (← getBool j "typesOnly") (← filterFromJson (← j.getObjVal? "filter")) (← getBytesList j "attrs")
  | "searchEntry" => return .searchEntry (← getBytes j "name") (← (← getArr j "attrs").mapM attrFromJson)
  | "searchDone" => return .searchDone (← resultFromJson (← j.getObjVal? "res"))
  | "searchRef" => return .searchRef (← getBytesList j "uris")
  | "extReq" => return .extReq (← getBytes j "name") (← getOptBytes j "value")
  | "extResp" => return .extResp (← resultFromJson (← j.getObjVal? "res")) (← getOptBytes j "name") (← getOptBytes j "value")
  | k => throw s!"bad op kind {k}"

def msgToJson (m : Msg) : Json :=
  Json.mkObj [("id", jInt m.id), ("op", opToJson m.op), ("controls", jList controlToJson m.controls)]

def msgFromJson (j : Json) : Except String Msg := do
  return ⟨← getInt j "id", ← opFromJson (← j.getObjVal? "op"), ← getControls j⟩

def errName : Err → String
  | .notEnough => "NotEnough"
  | .valueError => "ValueError"
  | .notImpl => "NotImplemented"
  | .recursion => "Recursion"

def regsFromJson (j : Json) : Regs :=
  match j.getObjVal? "regs" with
  | .ok r =>
    { control := (getBool r "control").toOption.getD false,
      filter := (getBool r "filter").toOption.getD false,
      auth := (getBool r "auth").toOption.getD false }
  | .error _ => {}

/-! ### Session -/

def stateName : SState → String
  | .beforeOpen => "BEFORE_OPEN" | .binding => "BINDING" | .opened => "OPENED" | .closed => "CLOSED"

def sortInts (l : List Int) : List Int := (l.toArray.qsort (· < ·)).toList

def notifName : Notification → String
  | .none => "none" | .unbind => "unbind" | .notice => "notice"

def outcomeToJson : Outcome → Json
  | .sent id => Json.mkObj [("k", "sent"), ("id", jInt id)]
  | .unit => Json.mkObj [("k", "unit")]
  | .bytes b => Json.mkObj [("k", "bytes"), ("b", jBytes b)]
  | .msgs ms => Json.mkObj [("k", "msgs"), ("ms", jList msgToJson ms)]
  | .ldapError => Json.mkObj [("k", "LDAPError")]
  | .protocolError n => Json.mkObj [("k", "ProtocolError"), ("resp", notifName n)]
  | .valueError => Json.mkObj [("k", "ValueError")]
  | .keyError => Json.mkObj [("k", "KeyError")]
  | .notApplicable => Json.mkObj [("k", "NotApplicable")]

def sessToJson (s : Sess) : Json :=
  Json.mkObj [("state", stateName s.state), ("out", jBytes s.out),
    ("outstanding", jList jInt (sortInts s.outstanding)), ("searches", jList jInt (sortInts s.searches)),
    ("residue", jBytes s.residue)]

def optInt (j : Json) (k : String) : Except String (Option Int) :=
  match j.getObjVal? k with
  | .error _ => pure none
  | .ok Json.null => pure none
  | .ok v => do pure (some (← v.getInt?))

def callFromJson (j : Json) : Except String Call := do
  match (← getStr j "k") with
  | "bind" => return .bind (← getBytes j "dn") (← credFromJson (← j.getObjVal? "cred")) (← getControls j)
  | "search" =>
    let f ← match j.getObjVal? "filter" with
      | .error _ => pure none
      | .ok Json.null => pure none
      | .ok v => do pure (some (← filterFromJson v))
    return .search (← getBytes j "base") (← getInt j "scope") (← getInt j "deref") (← getInt j "size") (← getInt j "time") (← getBool j "typesOnly") f (← getBytesList j "attrs") (← getControls j)
  | "extended" => return .extended (← getBytes j "name") (← getOptBytes j "value") (← getControls j)
  | "unbind" => return .unbind
  | "bindResponse" => return .bindResponse (← getInt j "id") (← getOptBytes j "sasl") (← getInt j "code") (← getBytes j "mdn") (← getBytes j "diag") (← getControls j)
  | "extendedResponse" => return .extendedResponse (← getInt j "id") (← getOptBytes j "name") (← getOptBytes j "value") (← getInt j "code") (← getBytes j "mdn") (← getBytes j "diag") (← getControls j)
  | "entry" => return .entry (← getInt j "id") (← getBytes j "name") (← (← getArr j "attrs").mapM attrFromJson) (← getControls j)
  | "reference" => return .reference (← getInt j "id") (← getBytesList j "uris") (← getControls j)
  | "done" => return .done (← getInt j "id") (← getInt j "code") (← getBytes j "mdn") (← getBytes j "diag") (← getControls j)
  | "receive" => return .receive (← getBytes j "chunk")
  | "drain" => return .drain (← optInt j "amount")
  | "register" =>
    match (← getStr j "what") with
    | "control" => return .register .control
    | "filter" => return .register .filter
    | "auth" => return .register .auth
    | w => throw s!"bad register {w}"
  | k => throw s!"bad call kind {k}"

end Verif.Driver
