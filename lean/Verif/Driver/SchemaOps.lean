/-
JSON codec and line-protocol operations for the schema model. Not part of any proof.
Strings travel as arrays of code points.
-/
import Verif.Driver.Codec
import Verif.Model.Schema

open Lean

namespace Verif.Driver

open Verif.Schema

def jStr (s : Str) : Json := Json.arr (s.map (fun (c : Nat) => (c : Json))).toArray
def jOptStr : Option Str → Json
  | none => Json.null
  | some s => jStr s
def jStrs (l : List Str) : Json := Json.arr (l.map jStr).toArray

def asStr (j : Json) : Except String Str := do
  (← j.getArr?).toList.mapM (fun x => x.getNat?)

def gStr (j : Json) (k : String) : Except String Str := do asStr (← j.getObjVal? k)
def gOptStr (j : Json) (k : String) : Except String (Option Str) := do
  match j.getObjVal? k with
  | .error _ => return none
  | .ok Json.null => return none
  | .ok v => return some (← asStr v)
def gStrs (j : Json) (k : String) : Except String (List Str) := do
  match j.getObjVal? k with
  | .error _ => return []
  | .ok v => (← v.getArr?).toList.mapM asStr
def gBoolD (j : Json) (k : String) : Bool := (getBool j k).toOption.getD false
def gNatD (j : Json) (k : String) (d : Nat) : Nat := (getNat j k).toOption.getD d

/-- extensions as an array of [key, [values]] pairs in insertion order -/
def jExts (e : List (Str × List Str)) : Json :=
  Json.arr (e.map fun (k, vs) => Json.arr #[jStr k, jStrs vs]).toArray

def gExts (j : Json) : Except String (List (Str × List Str)) := do
  match j.getObjVal? "exts" with
  | .error _ => return []
  | .ok v =>
    (← v.getArr?).toList.mapM fun p => do
      let a ← p.getArr?
      let k ← asStr a[0]!
      let vs ← (← a[1]!.getArr?).toList.mapM asStr
      return (k, vs)

def ocToJson (d : ObjectClass) : Json :=
  Json.mkObj [("oid", jStr d.oid), ("names", jStrs d.names), ("desc", jOptStr d.desc), ("obsolete", Json.bool d.obsolete),
    ("sup", jStrs d.sup), ("kind", d.kind), ("must", jStrs d.must), ("may", jStrs d.may), ("exts", jExts d.exts)]

def ocFromJson (j : Json) : Except String ObjectClass := do
  return { oid := ← gStr j "oid", names := ← gStrs j "names", desc := ← gOptStr j "desc", obsolete := gBoolD j "obsolete",
           sup := ← gStrs j "sup", kind := gNatD j "kind" 1, must := ← gStrs j "must", may := ← gStrs j "may", exts := ← gExts j }

def atToJson (d : AttributeType) : Json :=
  Json.mkObj [("oid", jStr d.oid), ("names", jStrs d.names), ("desc", jOptStr d.desc), ("obsolete", Json.bool d.obsolete),
    ("sup", jOptStr d.sup), ("equality", jOptStr d.equality), ("ordering", jOptStr d.ordering), ("substr", jOptStr d.substr),
    ("syntax", jOptStr d.syn), ("syntaxLen", match d.synLen with | none => Json.null | some n => (n : Json)),
    ("singleValue", Json.bool d.singleValue), ("collective", Json.bool d.collective), ("noUserMod", Json.bool d.noUserMod),
    ("usage", d.usage), ("exts", jExts d.exts)]

def atFromJson (j : Json) : Except String AttributeType := do
  let sl : Option Nat := match j.getObjVal? "syntaxLen" with
    | .ok v => v.getNat?.toOption
    | .error _ => none
  return { oid := ← gStr j "oid", names := ← gStrs j "names", desc := ← gOptStr j "desc", obsolete := gBoolD j "obsolete",
           sup := ← gOptStr j "sup", equality := ← gOptStr j "equality", ordering := ← gOptStr j "ordering", substr := ← gOptStr j "substr",
           syn := ← gOptStr j "syntax", synLen := sl, singleValue := gBoolD j "singleValue", collective := gBoolD j "collective",
           noUserMod := gBoolD j "noUserMod", usage := gNatD j "usage" 0, exts := ← gExts j }

def dcrToJson (d : DITContentRule) : Json :=
  Json.mkObj [("oid", jStr d.oid), ("names", jStrs d.names), ("desc", jOptStr d.desc), ("obsolete", Json.bool d.obsolete),
    ("aux", jStrs d.aux), ("must", jStrs d.must), ("may", jStrs d.may), ("never", jStrs d.never), ("exts", jExts d.exts)]

def dcrFromJson (j : Json) : Except String DITContentRule := do
  return { oid := ← gStr j "oid", names := ← gStrs j "names", desc := ← gOptStr j "desc", obsolete := gBoolD j "obsolete",
           aux := ← gStrs j "aux", must := ← gStrs j "must", may := ← gStrs j "may", never := ← gStrs j "never", exts := ← gExts j }

def schemaOp (op : String) (j : Json) : Except String (Option Json) := do
  match op with
  | "stext" =>
    let d ← j.getObjVal? "def"
    match (← getStr j "kind") with
    | "oc" => return some (Json.mkObj [("text", jStr (ocToText (← ocFromJson d)))])
    | "at" => return some (Json.mkObj [("text", jStr (atToText (← atFromJson d)))])
    | "dcr" => return some (Json.mkObj [("text", jStr (dcrToText (← dcrFromJson d)))])
    | k => throw s!"bad kind {k}"
  | "sparse" =>
    let s ← gStr j "cps"
    match (← getStr j "kind") with
    | "oc" => match parseOC s with
      | .ok d => return some (Json.mkObj [("ok", ocToJson d)])
      | .error _ => return some (Json.mkObj [("err", "ValueError")])
    | "at" => match parseAT s with
      | .ok d => return some (Json.mkObj [("ok", atToJson d)])
      | .error _ => return some (Json.mkObj [("err", "ValueError")])
    | "dcr" => match parseDCR s with
      | .ok d => return some (Json.mkObj [("ok", dcrToJson d)])
      | .error _ => return some (Json.mkObj [("err", "ValueError")])
    | k => throw s!"bad kind {k}"
  | _ => return none

end Verif.Driver
