/-
The `fparsesteps` request of the line protocol: the step-counting filter text parser
(`Model/FilterSteps.lean`).  Not part of any proof.  To be wired into `pureOp` (Driver/Ops.lean) as

  | "fparsesteps" =>
    let cps ← (← getArr j "cps").mapM (fun x => x.getNat?)
    let depth := (getNat j "depth").toOption.getD 200
    let (n, o) := fparseStepsAt depth cps
    return Json.mkObj [("steps", n), ("outcome", o)]
-/
import Verif.Model.FilterSteps

namespace Verif.Driver
open Verif

/-- steps of `LDAPFilter.from_string` on the code points `cps` with nesting budget `depth`, and
    whether it succeeds -/
def fparseStepsAt (depth : Nat) (cps : List Nat) : Nat × String :=
  match FilterSteps.parseFilterTextS depth cps with
  | (.ok _, k) => (k, "ok")
  | (.error _, k) => (k, "err")

/-- with the default nesting budget of the `fparsec` request (200) -/
def fparseSteps (cps : List Nat) : Nat × String := fparseStepsAt 200 cps

/-- the parser's own steps, the attribute-pattern charge left out (`K = 0`) -/
def fparseScanSteps (cps : List Nat) : Nat × String :=
  match FilterSteps.parseFilterTextSK 0 200 cps with
  | (.ok _, k) => (k, "ok")
  | (.error _, k) => (k, "err")

end Verif.Driver
