/-
Budgeted evaluation of the backtracking semantics for the driver (not part of any proof): the
same traversal as `Re.runsF` / `Re.workF`, one tick per visited node (so the ticks of a complete
traversal are exactly `Re.work`), stopping when the budget is exhausted.  A pattern that is
exponential on some input would otherwise make the driver itself run for ever on that input.
-/
import Verif.Model.Re

namespace Verif.Driver
open Verif

abbrev BM := ExceptT Unit (StateM Nat)

def tick : BM Unit := do
  let b ← get
  if b = 0 then throw () else set (b - 1)

/-- visit `r` at `s`: the list of successes, ticking once per node of the search tree -/
partial def visit : Re → List Nat → BM (List (List Nat))
  | .eps, s => do tick; return [s]
  | .cls ivs, s => do
    tick
    match s with
    | c :: r => return (if Re.inCls ivs c then [r] else [])
    | [] => return []
  | .cat a b, s => do
    tick
    let ra ← visit a s
    let mut out := []
    for t in ra do
      out := out ++ (← visit b t)
    return out
  | .alt a b, s => do
    tick
    let ra ← visit a s
    let rb ← visit b s
    return ra ++ rb
  | .star a, s => do
    tick
    let ra ← visit a s
    let mut out := []
    for t in ra do
      if t.length < s.length then
        out := out ++ (← visit (.star a) t)
    return out ++ [s]
  | .group _ a, s => do tick; visit a s
  | .eos, s => do tick; return (if s.isEmpty then [s] else [])
  | .eosNl, s => do tick; return (if s.isEmpty ∨ s = [10] then [s] else [])
  | .unsupported, _ => do tick; return []

/-- `(work, first match length)` within the budget, `none` when the budget is exceeded -/
def workWithin (budget : Nat) (r : Re) (s : List Nat) : Option (Nat × Option Nat) :=
  match (visit r s).run.run budget with
  | (.ok runs, left) => some (budget - left, runs.head?.map fun t => s.length - t.length)
  | (.error _, _) => none

end Verif.Driver
