/-
Pure (stateless) requests of the line protocol. Not part of any proof.
-/
import Verif.Driver.Codec
import Verif.Spec.Rfc4511
import Verif.Model.FilterText
import Verif.Generated.Regexes
import Verif.Model.ReCap
import Verif.Model.SchemaMatch
import Verif.Model.FilterCost
import Verif.Driver.StepsOp
import Verif.Model.RecvCost
import Verif.Model.DecodeCost
import Verif.Driver.ReBudget

open Lean

namespace Verif.Driver

def errJson (e : Err) : Json := Json.mkObj [("err", errName e)]

def tagFromJson (j : Json) : Except String Tag := do
  return ⟨← getNat j "cls", ← getBool j "cons", ← getNat j "num"⟩

def optStr : Option (List Nat) → Json
  | none => Json.null
  | some l => Json.arr (l.map (fun (n : Nat) => (n : Json))).toArray

def reBudget : Nat := 3000000

def pureOp (op : String) (j : Json) : Except String Json := do
  match op with
  | "int_pack" => return Json.mkObj [("hex", jBytes (packInt (← getInt j "v")))]
  | "int_read" =>
    match readInt (some tInt) (← getBytes j "hex") with
    | .ok (v, rest) => return Json.mkObj [("ok", Json.mkObj [("v", jInt v), ("rest", rest.length)])]
    | .error e => return errJson e
  | "bool_pack" => return Json.mkObj [("hex", jBytes (packBool (← getBool j "v")))]
  | "bool_read" =>
    match readBool (some tBool) (← getBytes j "hex") with
    | .ok (v, rest) => return Json.mkObj [("ok", Json.mkObj [("v", Json.bool v), ("rest", rest.length)])]
    | .error e => return errJson e
  | "octets_pack" => return Json.mkObj [("hex", jBytes (packOctets (← getBytes j "hex")))]
  | "octets_read" =>
    match readOctets (some tOctets) (← getBytes j "hex") with
    | .ok (v, rest) => return Json.mkObj [("ok", Json.mkObj [("v", jBytes v), ("rest", rest.length)])]
    | .error e => return errJson e
  | "hdr_pack" => return Json.mkObj [("hex", jBytes (packHeader (← tagFromJson j) (← getNat j "len")))]
  | "tlv_pack" => return Json.mkObj [("hex", jBytes (packTLV (← tagFromJson j) (← getBytes j "content")))]
  | "hdr_read" =>
    match readHeader (← getBytes j "hex") with
    | .ok h => return Json.mkObj [("ok", Json.mkObj [("cls", h.tag.cls), ("cons", Json.bool h.tag.cons),
        ("num", h.tag.num), ("hlen", h.hlen), ("len", h.len)])]
    | .error e => return errJson e
  | "utf8" => return Json.mkObj [("ok", Json.bool (validUtf8 (← getBytes j "hex")))]
  | "enc" => return Json.mkObj [("hex", jBytes (encMsg (← msgFromJson (← j.getObjVal? "msg"))))]
  | "dec" =>
    let depth := (getNat j "depth").toOption.getD defaultDepth
    match decMsg (regsFromJson j) depth (← getBytes j "hex") with
    | .ok (m, rest) => return Json.mkObj [("ok", Json.mkObj [("msg", msgToJson m), ("rest", rest.length)])]
    | .error e => return errJson e
  | "rfcdec" =>
    match Rfc.decode (← getBytes j "hex") with
    | some m => return Json.mkObj [("ok", msgToJson m)]
    | none => return Json.mkObj [("err", "reject")]
  | "ftext" => return Json.mkObj [("hex", jBytes (toText (← filterFromJson (← j.getObjVal? "filter"))))]
  | "fparse" =>
    let cps ← (← getArr j "cps").mapM (fun x => x.getNat?)
    let depth := (getNat j "depth").toOption.getD 200
    match parseFilterText depth cps with
    | .ok f => return Json.mkObj [("ok", filterToJson f)]
    | .error (.syntax off len) => return Json.mkObj [("err", Json.mkObj [("off", off), ("len", len)])]
    | .error .recursion => return Json.mkObj [("err", "recursion")]
    | .error .fuel => return Json.mkObj [("err", "fuel")]
  | "fparsec" =>
    -- the counting parser: outcome class and the number of `_unpack_filter` / `_unpack_complex_filter` / `_unpack_simple_filter` calls
    let cps ← (← getArr j "cps").mapM (fun x => x.getNat?)
    let depth := (getNat j "depth").toOption.getD 200
    match FilterCost.parseFilterTextC depth cps with
    | (.ok _, k) => return Json.mkObj [("ok", Json.bool true), ("calls", k)]
    | (.error _, k) => return Json.mkObj [("ok", Json.bool false), ("calls", k)]
  | "fparsesteps" =>
    -- the step-counting parser (Model/FilterSteps.lean): total steps with the attribute-pattern charge, and the parser's own scan steps
    let cps ← (← getArr j "cps").mapM (fun x => x.getNat?)
    let depth := (getNat j "depth").toOption.getD 200
    let (n, o) := fparseStepsAt depth cps
    let scan := (FilterSteps.parseFilterTextSK 0 depth cps).2
    return Json.mkObj [("steps", n), ("scan", scan), ("outcome", o)]
  | "decfilterc" =>
    -- the counting BER filter decoder: number of LDAPFilter.unpack calls and whether it succeeds
    let bs ← getBytes j "hex"
    let depth := (getNat j "depth").toOption.getD defaultDepth
    match DecodeCost.decFilterC (regsFromJson j) depth bs with
    | (.ok (_, rest), k) => return Json.mkObj [("calls", k), ("ok", Json.bool true), ("rest", rest.length)]
    | (.error e, k) => return Json.mkObj [("calls", k), ("ok", Json.bool false), ("err", errName e)]
  | "recvattempts" =>
    -- the counting parse loop of receive on a buffer: number of unpack_ldap_message calls, messages returned, bytes left
    let bs ← getBytes j "hex"
    let depth := (getNat j "depth").toOption.getD defaultDepth
    match RecvCost.parseLoopC (regsFromJson j) depth bs.length bs with
    | (.ok (ms, rest), k) => return Json.mkObj [("attempts", k), ("msgs", ms.length), ("rest", rest.length)]
    | (.error e, k) => return Json.mkObj [("attempts", k), ("err", errName e)]
  | "attr_valid" => return Json.mkObj [("ok", Json.bool (validAttr (← getBytes j "hex")))]
  | "rematch" =>
    let name ← getStr j "name"
    let cps ← (← getArr j "cps").mapM (fun x => x.getNat?)
    match Regexes.allPatterns.find? (·.1 == name) with
    | none => return Json.mkObj [("err", "unknown-pattern")]
    | some (_, r) =>
      -- the same traversal as `Re.runs`, under a node budget (an exponential pattern must not hang the driver)
      match workWithin reBudget r cps with
      | none => return Json.mkObj [("end", "budget")]
      | some (_, some n) => return Json.mkObj [("end", n)]
      | some (_, none) => return Json.mkObj [("end", Json.null)]
  | "rematchg" =>
    -- `re.match` with the named groups: `{"end": n, "groups": {name: [code points] | null}}`
    let name ← getStr j "name"
    let cps ← (← getArr j "cps").mapM (fun x => x.getNat?)
    match Regexes.allGroupPatterns.find? (·.1 == name) with
    | none => return Json.mkObj [("err", "unknown-pattern")]
    | some (_, r, tbl) =>
      match Re.matchG r cps with
      | none => return Json.mkObj [("end", Json.null)]
      | some (rest, caps) =>
        let gs := tbl.map fun (g, i) => (g, optStr (Re.capOf i caps))
        return Json.mkObj [("end", cps.length - rest.length), ("groups", Json.mkObj gs)]
  | "schemamatch" =>
    -- the scanner of the schema model on its own: the group texts `from_string` reads
    let kind ← getStr j "kind"
    let cps ← (← getArr j "cps").mapM (fun x => x.getNat?)
    match kind with
    | "oc" =>
      match Schema.matchOC cps with
      | none => return Json.mkObj [("groups", Json.null)]
      | some g => return Json.mkObj [("groups", Json.mkObj [("oid", optStr g.oid), ("name", optStr g.name), ("desc", optStr g.desc),
          ("obsolete", Json.bool g.obsolete), ("sup", optStr g.sup), ("kind", optStr g.kind), ("must", optStr g.must),
          ("may", optStr g.may), ("extensions", optStr g.extensions)])]
    | "at" =>
      match Schema.matchAT cps with
      | none => return Json.mkObj [("groups", Json.null)]
      | some g => return Json.mkObj [("groups", Json.mkObj [("oid", optStr g.oid), ("name", optStr g.name), ("desc", optStr g.desc),
          ("obsolete", Json.bool g.obsolete), ("sup", optStr g.sup), ("equality", optStr g.equality), ("ordering", optStr g.ordering),
          ("substr", optStr g.substr), ("syntax", optStr g.syn), ("single_value", Json.bool g.singleValue),
          ("collective", Json.bool g.collective), ("no_user_modification", Json.bool g.noUserMod), ("usage", optStr g.usage),
          ("extensions", optStr g.extensions)])]
    | "dcr" =>
      match Schema.matchDCR cps with
      | none => return Json.mkObj [("groups", Json.null)]
      | some g => return Json.mkObj [("groups", Json.mkObj [("oid", optStr g.oid), ("name", optStr g.name), ("desc", optStr g.desc),
          ("obsolete", Json.bool g.obsolete), ("aux", optStr g.aux), ("must", optStr g.must), ("may", optStr g.may),
          ("not", optStr g.never), ("extensions", optStr g.extensions)])]
    | "noidlen" =>
      match Schema.noidlenMatch cps with
      | none => return Json.mkObj [("groups", Json.null)]
      | some (v, l) => return Json.mkObj [("groups", Json.mkObj [("value", optStr (some v)), ("len", optStr (some l))])]
    | _ => return Json.mkObj [("err", "unknown-kind")]
  | "rework" =>
    let name ← getStr j "name"
    let cps ← (← getArr j "cps").mapM (fun x => x.getNat?)
    match Regexes.allPatterns.find? (·.1 == name) with
    | none => return Json.mkObj [("err", "unknown-pattern")]
    | some (_, r) =>
      -- exactly `Re.work r cps` when the search tree has at most `reBudget` nodes, null otherwise
      match workWithin reBudget r cps with
      | some (w, _) => return Json.mkObj [("work", w)]
      | none => return Json.mkObj [("work", Json.null), ("exceeds", reBudget)]
  | "repatterns" => return Json.mkObj [("names", Json.arr (Regexes.allPatterns.map (fun p => Json.str p.1)).toArray)]
  | _ => throw s!"unknown op {op}"

end Verif.Driver
