/-
Cost model of the BER filter decoder (`LDAPFilter.unpack` and the `unpack` of the ten filter
classes): `decFilter` of `Model/Msg.lean` additionally COUNTING the calls of
`LDAPFilter.unpack` (one per filter node the decoder enters).  The harness counts the same calls
on the implementation with a profiler hook.  A filter node occupies at least two bytes, and the
children of a node are decoded from the node's own content, each exactly once, so the number of
calls is at most half the input length plus one: decoding nested filters cannot double its work
with each level (decoding an operand twice per level would).
-/
import Verif.Model.Msg

namespace Verif.DecodeCost
open Verif

abbrev FR := Except Err (Filter × Bytes)

/-- `loopMany` over a counting decoder; `k` accumulates the calls made so far -/
def loopManyC (dec1 : Bytes → FR × Nat) : Nat → Bytes → Nat → Except Err (List Filter) × Nat
  | 0, bs, k => (if bs.isEmpty then .ok [] else .error .recursion, k)
  | fuel+1, bs, k =>
    if bs.isEmpty then (.ok [], k)
    else
      match dec1 bs with
      | (.error e, n) => (.error e, k + n)
      | (.ok (x, r), n) =>
        match loopManyC dec1 fuel r (k + n) with
        | (.error e, k') => (.error e, k')
        | (.ok xs, k') => (.ok (x :: xs), k')

/-- `decFilter` with the number of `LDAPFilter.unpack` calls (this call included) -/
def decFilterC (regs : Regs) : Nat → Bytes → FR × Nat
  | 0, _ => (.error .recursion, 1)
  | depth+1, bs =>
    match readHeader bs with
    | .error e => (.error e, 1)
    | .ok h =>
      if h.tag.cls ≠ 2 then (.error .notImpl, 1)
      else if h.tag.num = Facts.filterAnd then
        match readTLV (some (tagCtx Facts.filterAnd true)) bs with
        | .error e => (.error e, 1)
        | .ok (c, rest) =>
          match loopManyC (decFilterC regs depth) c.length c 1 with
          | (.error e, k) => (.error e, k)
          | (.ok fs, k) => (.ok (.and fs, rest), k)
      else if h.tag.num = Facts.filterOr then
        match readTLV (some (tagCtx Facts.filterOr true)) bs with
        | .error e => (.error e, 1)
        | .ok (c, rest) =>
          match loopManyC (decFilterC regs depth) c.length c 1 with
          | (.error e, k) => (.error e, k)
          | (.ok fs, k) => (.ok (.or fs, rest), k)
      else if h.tag.num = Facts.filterNot then
        match readTLV (some (tagCtx Facts.filterNot true)) bs with
        | .error e => (.error e, 1)
        | .ok (c, rest) =>
          match decFilterC regs depth c with
          | (.error e, n) => (.error e, n + 1)
          | (.ok (f, _), n) => (.ok (.not f, rest), n + 1)
      else
        -- every other filter kind is a leaf: one call, the result of the plain decoder
        (decFilter regs (depth + 1) bs, 1)

end Verif.DecodeCost
