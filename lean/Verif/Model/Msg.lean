/-
Model of `_messages.py`, `_controls.py`, `_authentication.py` and the BER half of `_filter.py`:
message values, `pack` (`encMsg`) and `unpack_ldap_message` (`decMsg`).

Text fields (`str`) are kept as their UTF-8 octets; a Python `str` without lone surrogates
corresponds to a byte list satisfying `validUtf8`.
-/
import Verif.Model.Ber
import Verif.Generated.Facts

namespace Verif

inductive Filter where
  | and (fs : List Filter)
  | or (fs : List Filter)
  | not (f : Filter)
  | eq (attr val : Bytes)
  | substr (attr : Bytes) (initial : Option Bytes) (any : List Bytes) (final : Option Bytes)
  | ge (attr val : Bytes)
  | le (attr val : Bytes)
  | present (attr : Bytes)
  | approx (attr val : Bytes)
  | ext (rule : Option Bytes) (attr : Option Bytes) (val : Bytes) (dn : Bool)
  | custom (val : Bytes)      -- the harness' registered custom filter (choice `Facts.customFilterId`)
  deriving Repr, Inhabited

inductive Cred where
  | simple (password : Bytes)
  | sasl (mech : Bytes) (creds : Option Bytes)
  | custom (val : Bytes)      -- the harness' registered custom credential
  deriving DecidableEq, Repr, Inhabited

/-- `raw` is the `value` attribute of a library-known control: `none` when built by the
    caller, the received control value octets when decoded. -/
inductive Control where
  | generic (oid : Bytes) (crit : Bool) (value : Option Bytes)
  | paged (crit : Bool) (size : Int) (cookie : Bytes) (raw : Option Bytes)
  | showDeleted (crit : Bool) (raw : Option Bytes)
  | showDeactivated (crit : Bool) (raw : Option Bytes)
  | custom (crit : Bool) (data : Bytes) (raw : Option Bytes)  -- the harness' custom control
  deriving DecidableEq, Repr, Inhabited

structure LdapResult where
  code : Int
  matchedDn : Bytes
  diag : Bytes
  referrals : Option (List Bytes)
  deriving DecidableEq, Repr, Inhabited

inductive Op where
  | bindReq (version : Int) (name : Bytes) (cred : Cred)
  | bindResp (res : LdapResult) (sasl : Option Bytes)
  | unbind
  | searchReq (base : Bytes) (scope : Int) (deref : Int) (sizeLimit timeLimit : Int)
      (typesOnly : Bool) (filter : Filter) (attrs : List Bytes)
  | searchEntry (name : Bytes) (attrs : List (Bytes × List Bytes))
  | searchDone (res : LdapResult)
  | searchRef (uris : List Bytes)
  | extReq (name : Bytes) (value : Option Bytes)
  | extResp (res : LdapResult) (name : Option Bytes) (value : Option Bytes)
  deriving Repr, Inhabited

structure Msg where
  id : Int
  op : Op
  controls : List Control
  deriving Repr, Inhabited

/-- which custom types a session has registered -/
structure Regs where
  control : Bool := false
  filter : Bool := false
  auth : Bool := false
  deriving DecidableEq, Repr, Inhabited

/-! ## Encoding -/

def optBytes (t : Tag) : Option Bytes → Bytes
  | none => []
  | some v => packOctets v t

mutual
def encFilter : Filter → Bytes
  | .and fs => packTLV (tagCtx Facts.filterAnd true) (encFilters fs)
  | .or fs => packTLV (tagCtx Facts.filterOr true) (encFilters fs)
  | .not f => packTLV (tagCtx Facts.filterNot true) (encFilter f)
  | .eq a v => packTLV (tagCtx Facts.filterEq true) (packOctets a ++ packOctets v)
  | .substr a i any f =>
    packTLV (tagCtx Facts.filterSubstr true)
      (packOctets a ++ packTLV tSeq
        (optBytes (tagCtx 0) i ++ (any.map (packOctets · (tagCtx 1))).flatten ++ optBytes (tagCtx 2) f))
  | .ge a v => packTLV (tagCtx Facts.filterGe true) (packOctets a ++ packOctets v)
  | .le a v => packTLV (tagCtx Facts.filterLe true) (packOctets a ++ packOctets v)
  | .present a => packOctets a (tagCtx Facts.filterPresent)
  | .approx a v => packTLV (tagCtx Facts.filterApprox true) (packOctets a ++ packOctets v)
  | .ext rule attr v dn =>
    packTLV (tagCtx Facts.filterExt true)
      (optBytes (tagCtx 1) rule ++ optBytes (tagCtx 2) attr ++ packOctets v (tagCtx 3)
        ++ (if dn then packBool true (tagCtx 4) else []))
  | .custom v => packOctets v (tagCtx Facts.customFilterId)
def encFilters : List Filter → Bytes
  | [] => []
  | f :: fs => encFilter f ++ encFilters fs
end

def encCred : Cred → Bytes
  | .simple pw => packOctets pw (tagCtx Facts.credSimple)
  | .sasl mech creds =>
    packTLV (tagCtx Facts.credSasl true) (packOctets mech ++ optBytes tOctets creds)
  | .custom v => packOctets v (tagCtx Facts.customCredId)

/-- `PagedResultControl.get_value` -/
def pagedValue (size : Int) (cookie : Bytes) : Bytes :=
  packTLV tSeq (packInt size ++ packOctets cookie)

/-- `get_value` of each control class -/
def controlValue : Control → Option Bytes
  | .generic _ _ v => v
  | .paged _ size cookie _ => some (pagedValue size cookie)
  | .showDeleted _ raw => raw
  | .showDeactivated _ raw => raw
  | .custom _ data _ => some (Facts.customControlMagic ++ data)

def controlOid : Control → Bytes
  | .generic oid _ _ => oid
  | .paged .. => Facts.oidPaged
  | .showDeleted .. => Facts.oidShowDeleted
  | .showDeactivated .. => Facts.oidShowDeactivated
  | .custom .. => Facts.oidCustomControl

def controlCrit : Control → Bool
  | .generic _ c _ => c
  | .paged c .. => c
  | .showDeleted c _ => c
  | .showDeactivated c _ => c
  | .custom c .. => c

/-- `LDAPControl.pack` -/
def encControl (c : Control) : Bytes :=
  packTLV tSeq
    (packOctets (controlOid c) ++ (if controlCrit c then packBool true else [])
      ++ optBytes tOctets (controlValue c))

def encTexts (l : List Bytes) (t : Tag := tOctets) : Bytes := (l.map (packOctets · t)).flatten

/-- `LDAPResult._pack_inner` -/
def encResult (r : LdapResult) : Bytes :=
  packEnum r.code ++ packOctets r.matchedDn ++ packOctets r.diag ++
    (match r.referrals with
     | none => []
     | some rs => packTLV (tagCtx 3 true) (encTexts rs))

/-- `PartialAttribute._pack_inner` -/
def encAttr (a : Bytes × List Bytes) : Bytes :=
  packTLV tSeq (packOctets a.1 ++ packTLV tSet (encTexts a.2))

def opTag : Op → Nat
  | .bindReq .. => Facts.opBindRequest
  | .bindResp .. => Facts.opBindResponse
  | .unbind => Facts.opUnbindRequest
  | .searchReq .. => Facts.opSearchRequest
  | .searchEntry .. => Facts.opSearchResultEntry
  | .searchDone .. => Facts.opSearchResultDone
  | .searchRef .. => Facts.opSearchResultReference
  | .extReq .. => Facts.opExtendedRequest
  | .extResp .. => Facts.opExtendedResponse

/-- each `_pack_inner` -/
def encOp : Op → Bytes
  | .bindReq v n c => packInt v ++ packOctets n ++ encCred c
  | .bindResp r s => encResult r ++ optBytes (tagCtx 7) s
  | .unbind => []
  | .searchReq b sc dr sl tl ty f attrs =>
    packOctets b ++ packEnum sc ++ packEnum dr ++ packInt sl ++ packInt tl ++ packBool ty
      ++ encFilter f ++ packTLV tSeq (encTexts attrs)
  | .searchEntry n attrs => packOctets n ++ packTLV tSeq (attrs.map encAttr).flatten
  | .searchDone r => encResult r
  | .searchRef uris => encTexts uris
  | .extReq n v => packOctets n (tagCtx 0) ++ optBytes (tagCtx 1) v
  | .extResp r n v => encResult r ++ optBytes (tagCtx 10) n ++ optBytes (tagCtx 11) v

/-- `LDAPMessage.pack`; the protocolOp tag is always written constructed (known finding
    F-C03 for UnbindRequest, pinned by the repository's tests) -/
def encMsg (m : Msg) : Bytes :=
  packTLV tSeq
    (packInt m.id ++ packTLV (tagApp (opTag m.op) true) (encOp m.op)
      ++ (if m.controls.isEmpty then [] else
            packTLV (tagCtx 0 true) (m.controls.map encControl).flatten))

/-! ## Decoding -/

/-- `while reader: x = dec1(reader)` -/
def loopMany {α} (dec1 : Bytes → Except Err (α × Bytes)) : Nat → Bytes → Except Err (List α)
  | 0, bs => if bs.isEmpty then .ok [] else .error .recursion  -- unreachable: fuel ≥ length
  | fuel+1, bs =>
    if bs.isEmpty then .ok []
    else do
      let (x, r) ← dec1 bs
      let xs ← loopMany dec1 fuel r
      return x :: xs

structure SubstrAcc where
  initial : Option Bytes := none
  any : List Bytes := []
  final : Option Bytes := none

/-- the `while substrings_reader:` loop of `FilterSubstrings.unpack` -/
def decSubstrLoop : Nat → Bytes → SubstrAcc → Except Err SubstrAcc
  | 0, bs, acc => if bs.isEmpty then .ok acc else .error .recursion
  | fuel+1, bs, acc =>
    if bs.isEmpty then .ok acc
    else do
      let h ← readHeader bs
      if h.tag.cls = 2 ∧ h.tag.num = 0 then
        if acc.initial.isSome then .error .valueError
        else
          let (v, r) ← readOctets none bs
          decSubstrLoop fuel r { acc with initial := some v }
      else if h.tag.cls = 2 ∧ h.tag.num = 1 then
        let (v, r) ← readOctets none bs
        decSubstrLoop fuel r { acc with any := acc.any ++ [v] }
      else if h.tag.cls = 2 ∧ h.tag.num = 2 then
        if acc.final.isSome then .error .valueError
        else
          let (v, r) ← readOctets none bs
          decSubstrLoop fuel r { acc with final := some v }
      else
        let r ← skipValue bs
        decSubstrLoop fuel r acc

structure ExtAcc where
  rule : Option Bytes := none
  attr : Option Bytes := none
  val : Bytes := []
  dn : Bool := false

/-- the `while filter_reader:` loop of `FilterExtensibleMatch.unpack` -/
def decExtLoop : Nat → Bytes → ExtAcc → Except Err ExtAcc
  | 0, bs, acc => if bs.isEmpty then .ok acc else .error .recursion
  | fuel+1, bs, acc =>
    if bs.isEmpty then .ok acc
    else do
      let h ← readHeader bs
      if h.tag.cls = 2 ∧ h.tag.num = 1 then
        let (v, r) ← readText none bs
        decExtLoop fuel r { acc with rule := some v }
      else if h.tag.cls = 2 ∧ h.tag.num = 2 then
        let (v, r) ← readText none bs
        decExtLoop fuel r { acc with attr := some v }
      else if h.tag.cls = 2 ∧ h.tag.num = 3 then
        let (v, r) ← readOctets none bs
        decExtLoop fuel r { acc with val := v }
      else if h.tag.cls = 2 ∧ h.tag.num = 4 then
        let (v, r) ← readBool none bs
        decExtLoop fuel r { acc with dn := v }
      else
        let r ← skipValue bs
        decExtLoop fuel r acc

/-- `_unpack_filter_attribute_value_assertion` -/
def decAva (num : Nat) (bs : Bytes) : Except Err ((Bytes × Bytes) × Bytes) := do
  let (c, rest) ← readTLV (some (tagCtx num true)) bs
  let (a, c1) ← readText (some tOctets) c
  let (v, _) ← readOctets (some tOctets) c1
  return ((a, v), rest)

/-- `LDAPFilter.unpack`; `depth` is the remaining Python recursion budget in filter levels -/
def decFilter (regs : Regs) : Nat → Bytes → Except Err (Filter × Bytes)
  | 0, _ => .error .recursion
  | depth+1, bs => do
    let h ← readHeader bs
    if h.tag.cls ≠ 2 then .error .notImpl
    else if h.tag.num = Facts.filterAnd then
      let (c, rest) ← readTLV (some (tagCtx Facts.filterAnd true)) bs
      let fs ← loopMany (decFilter regs depth) c.length c
      return (.and fs, rest)
    else if h.tag.num = Facts.filterOr then
      let (c, rest) ← readTLV (some (tagCtx Facts.filterOr true)) bs
      let fs ← loopMany (decFilter regs depth) c.length c
      return (.or fs, rest)
    else if h.tag.num = Facts.filterNot then
      let (c, rest) ← readTLV (some (tagCtx Facts.filterNot true)) bs
      let (f, _) ← decFilter regs depth c
      return (.not f, rest)
    else if h.tag.num = Facts.filterEq then
      let ((a, v), rest) ← decAva Facts.filterEq bs
      return (.eq a v, rest)
    else if h.tag.num = Facts.filterSubstr then
      let (c, rest) ← readTLV (some (tagCtx Facts.filterSubstr true)) bs
      let (a, c1) ← readText (some tOctets) c
      let (sc, _) ← readTLV (some tSeq) c1
      let acc ← decSubstrLoop sc.length sc {}
      return (.substr a acc.initial acc.any acc.final, rest)
    else if h.tag.num = Facts.filterGe then
      let ((a, v), rest) ← decAva Facts.filterGe bs
      return (.ge a v, rest)
    else if h.tag.num = Facts.filterLe then
      let ((a, v), rest) ← decAva Facts.filterLe bs
      return (.le a v, rest)
    else if h.tag.num = Facts.filterPresent then
      let (a, rest) ← readText (some (tagCtx Facts.filterPresent)) bs
      return (.present a, rest)
    else if h.tag.num = Facts.filterApprox then
      let ((a, v), rest) ← decAva Facts.filterApprox bs
      return (.approx a v, rest)
    else if h.tag.num = Facts.filterExt then
      let (c, rest) ← readTLV (some (tagCtx Facts.filterExt true)) bs
      let acc ← decExtLoop c.length c {}
      return (.ext acc.rule acc.attr acc.val acc.dn, rest)
    else if regs.filter ∧ h.tag.num = Facts.customFilterId then
      let (v, rest) ← readText (some (tagCtx Facts.customFilterId)) bs
      return (.custom v, rest)
    else .error .notImpl

/-- `AuthenticationCredential.unpack` -/
def decCred (regs : Regs) (bs : Bytes) : Except Err (Cred × Bytes) := do
  let h ← readHeader bs
  if h.tag.cls ≠ 2 then .error .notImpl
  else if h.tag.num = Facts.credSasl then
    let (c, rest) ← readTLV (some (tagCtx Facts.credSasl true)) bs
    let (mech, c1) ← readText (some tOctets) c
    if c1.isEmpty then return (.sasl mech none, rest)
    else
      let (cr, _) ← readOctets (some tOctets) c1
      return (.sasl mech (some cr), rest)
  else if h.tag.num = Facts.credSimple then
    let (pw, rest) ← readText (some (tagCtx Facts.credSimple)) bs
    return (.simple pw, rest)
  else if regs.auth ∧ h.tag.num = Facts.customCredId then
    let (v, rest) ← readText (some (tagCtx Facts.customCredId)) bs
    return (.custom v, rest)
  else .error .notImpl

/-- `PagedResultControl.unpack(value or b"")` -/
def decPagedValue (v : Bytes) : Except Err (Int × Bytes) := do
  let (c, _) ← readTLV (some tSeq) v
  let (size, c1) ← readInt (some tInt) c
  let (cookie, _) ← readOctets (some tOctets) c1
  return (size, cookie)

/-- `unpack_ldap_control` -/
def decControl (regs : Regs) (bs : Bytes) : Except Err (Control × Bytes) := do
  let (c, rest) ← readTLV (some tSeq) bs
  let (oid, c1) ← readText (some tOctets) c
  -- optional criticality
  let (crit, c2, fresh) ←
    (if c1.isEmpty then (pure (false, c1, false) : Except Err (Bool × Bytes × Bool))
     else do
       let h ← readHeader c1
       if h.tag.cls = 0 ∧ h.tag.num = 1 then
         let (b, r) ← readBool none c1
         -- a new header is peeked only when data remains; otherwise the stale BOOLEAN header
         -- is tested for OCTET STRING below, which it is not
         return (b, r, !r.isEmpty)
       else return (false, c1, true))
  -- optional value
  let value ←
    (if fresh then do
       let h ← readHeader c2
       if h.tag.cls = 0 ∧ h.tag.num = 4 then
         let (v, _) ← readOctets none c2
         return some v
       else return (none : Option Bytes)
     else (pure none : Except Err (Option Bytes)))
  let vb := value.getD []
  if oid = Facts.oidPaged then
    let (size, cookie) ← decPagedValue vb
    return (.paged crit size cookie value, rest)
  else if oid = Facts.oidShowDeactivated then return (.showDeactivated crit value, rest)
  else if oid = Facts.oidShowDeleted then return (.showDeleted crit value, rest)
  else if regs.control ∧ oid = Facts.oidCustomControl then
    if Facts.customControlMagic.isPrefixOf vb then
      return (.custom crit (vb.drop Facts.customControlMagic.length) value, rest)
    else .error .valueError
  else return (.generic oid crit value, rest)

/-- the `while message:` loop of `unpack_ldap_message`: controls and the MS-ADTS
    `responseName [10]` -/
def decEnvelopeLoop (regs : Regs) : Nat → Bytes → List Control → Option Bytes →
    Except Err (List Control × Option Bytes)
  | 0, bs, cs, rn => if bs.isEmpty then .ok (cs, rn) else .error .recursion
  | fuel+1, bs, cs, rn =>
    if bs.isEmpty then .ok (cs, rn)
    else do
      let h ← readHeader bs
      if h.tag.cls = 2 ∧ h.tag.num = 0 then
        let (c, r) ← readTLV none bs
        let more ← loopMany (decControl regs) c.length c
        decEnvelopeLoop regs fuel r (cs ++ more) rn
      else if h.tag.cls = 2 ∧ h.tag.num = 10 then
        let (v, r) ← readText none bs
        decEnvelopeLoop regs fuel r cs (some v)
      else
        let r ← skipValue bs
        decEnvelopeLoop regs fuel r cs rn

/-- `_unpack_ldap_result`; returns the result and the reader position afterwards -/
def decResult (bs : Bytes) : Except Err (LdapResult × Bytes) := do
  let (code, b1) ← readInt (some tEnum) bs
  let (mdn, b2) ← readText (some tOctets) b1
  let (diag, b3) ← readText (some tOctets) b2
  if b3.isEmpty then return (⟨code, mdn, diag, none⟩, b3)
  else
    let h ← readHeader b3
    if h.tag.cls = 2 ∧ h.tag.num = 3 then
      let (c, b4) ← readTLV none b3
      let rs ← loopMany (readText (some tOctets)) c.length c
      return (⟨code, mdn, diag, some rs⟩, b4)
    else return (⟨code, mdn, diag, none⟩, b3)

/-- trailing-option loops of BindResponse / ExtendedRequest / ExtendedResponse:
    context tag `n1` is read as text or octets into slot 1, `n2` into slot 2, others skipped -/
def decOptLoop (n1 : Nat) (text1 : Bool) (n2 : Option Nat) : Nat → Bytes → Option Bytes → Option Bytes →
    Except Err (Option Bytes × Option Bytes)
  | 0, bs, a, b => if bs.isEmpty then .ok (a, b) else .error .recursion
  | fuel+1, bs, a, b =>
    if bs.isEmpty then .ok (a, b)
    else do
      let h ← readHeader bs
      if h.tag.cls = 2 ∧ h.tag.num = n1 then
        let (v, r) ← (if text1 then readText none bs else readOctets none bs)
        decOptLoop n1 text1 n2 fuel r (some v) b
      else if h.tag.cls = 2 ∧ some h.tag.num = n2 then
        let (v, r) ← readOctets none bs
        decOptLoop n1 text1 n2 fuel r a (some v)
      else
        let r ← skipValue bs
        decOptLoop n1 text1 n2 fuel r a b

/-- `_unpack_partial_attribute` -/
def decAttr (bs : Bytes) : Except Err ((Bytes × List Bytes) × Bytes) := do
  let (c, rest) ← readTLV (some tSeq) bs
  let (name, c1) ← readText (some tOctets) c
  let (vc, _) ← readTLV (some tSet) c1
  let vals ← loopMany (readOctets (some tOctets)) vc.length vc
  return ((name, vals), rest)

/-- the per-operation `_unpack_*` functions, applied to the protocolOp content -/
def decOp (regs : Regs) (depth : Nat) (num : Nat) (c : Bytes) : Except Err Op :=
  if num = Facts.opBindRequest then do
    let (v, c1) ← readInt (some tInt) c
    let (name, c2) ← readText (some tOctets) c1
    let (cred, _) ← decCred regs c2
    return .bindReq v name cred
  else if num = Facts.opBindResponse then do
    let (r, c1) ← decResult c
    let (s, _) ← decOptLoop 7 false none c1.length c1 none none
    return .bindResp r s
  else if num = Facts.opUnbindRequest then return .unbind
  else if num = Facts.opSearchRequest then do
    let (base, c1) ← readOctets (some tOctets) c
    let (scope, c2) ← readInt (some tEnum) c1
    if !Facts.scopeValues.contains scope then .error .valueError else
    let (deref, c3) ← readInt (some tEnum) c2
    if !Facts.derefValues.contains deref then .error .valueError else
    let (sl, c4) ← readInt (some tInt) c3
    let (tl, c5) ← readInt (some tInt) c4
    let (ty, c6) ← readBool (some tBool) c5
    let (f, c7) ← decFilter regs depth c6
    let (ac, _) ← readTLV (some tSeq) c7
    let attrs ← loopMany (readText (some tOctets)) ac.length ac
    let base ← decodeText base
    return .searchReq base scope deref sl tl ty f attrs
  else if num = Facts.opSearchResultEntry then do
    let (name, c1) ← readText (some tOctets) c
    let (ac, _) ← readTLV (some tSeq) c1
    let attrs ← loopMany decAttr ac.length ac
    return .searchEntry name attrs
  else if num = Facts.opSearchResultDone then do
    let (r, _) ← decResult c
    return .searchDone r
  else if num = Facts.opSearchResultReference then do
    let uris ← loopMany (readText (some tOctets)) c.length c
    return .searchRef uris
  else if num = Facts.opExtendedRequest then do
    let (name, c1) ← readText (some (tagCtx 0)) c
    let (v, _) ← decOptLoop 1 false none c1.length c1 none none
    return .extReq name v
  else if num = Facts.opExtendedResponse then do
    let (r, c1) ← decResult c
    let (n, v) ← decOptLoop 10 true (some 11) c1.length c1 none none
    return .extResp r n v
  else .error .notImpl

def knownOp (num : Nat) : Bool := Facts.opNumbers.contains num

/-- `_unpack_ldap_message_contents` -/
def decContents (regs : Regs) (depth : Nat) (c : Bytes) : Except Err Msg := do
  let (id, m1) ← readInt (some tInt) c
  let h ← readHeader m1
  if h.tag.cls ≠ 1 then .error .valueError
  else if !knownOp h.tag.num then .error .notImpl
  else
    let (opc, m2) ← readTLV none m1
    let (controls, respName) ← decEnvelopeLoop regs m2.length m2 [] none
    let op ← decOp regs depth h.tag.num opc
    -- MS-ADTS: inject responseName [10] when the ExtendedResponse carries no (or an empty) name
    let op := match op, respName with
      | .extResp r n v, some rn =>
        if rn.isEmpty then op
        else match n with
          | none => .extResp r (some rn) v
          | some n' => if n'.isEmpty then .extResp r (some rn) v else op
      | _, _ => op
    return ⟨id, op, controls⟩

/-- `unpack_ldap_message`: the envelope is read first; `NotEnougData` from the contents is
    converted to `ValueError`.  Returns the message and the bytes after it. -/
def decMsg (regs : Regs) (depth : Nat) (bs : Bytes) : Except Err (Msg × Bytes) :=
  match readTLV (some tSeq) bs with
  | .error e => .error e
  | .ok (c, rest) =>
    match decContents regs depth c with
    | .ok m => .ok (m, rest)
    | .error .notEnough => .error .valueError
    | .error e => .error e

end Verif
