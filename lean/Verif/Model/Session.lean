/-
Model of `_session.py`: `LDAPSession`, `LDAPClient`, `LDAPServer`.

`step : Sess → Call → Sess × Outcome` follows the statement order of each public method
(the order is what decides which effects of a refused call persist).
-/
import Verif.Model.Msg

namespace Verif

inductive SState where
  | beforeOpen | binding | opened | closed
  deriving DecidableEq, Repr, Inhabited

inductive Role where
  | client | server
  deriving DecidableEq, Repr, Inhabited

structure Sess where
  role : Role
  state : SState := .beforeOpen
  out : Bytes := []               -- _outgoing_buffer
  outstanding : List Int := []    -- _outstanding_requests (a set)
  searches : List Int := []       -- _search_requests (a set)
  counter : Int := Facts.firstMessageId   -- _message_counter (client)
  residue : Bytes := []           -- _incoming_buffer
  regs : Regs := {}
  deriving Repr, Inhabited

def Sess.init (r : Role) : Sess := { role := r }

def setInsert (x : Int) (l : List Int) : List Int := if l.contains x then l else l ++ [x]
def setErase (x : Int) (l : List Int) : List Int := l.filter (· != x)

inductive RegKind where
  | control | filter | auth
  deriving DecidableEq, Repr, Inhabited

/-- what is attached to a `ProtocolError` as `.response` -/
inductive Notification where
  | none      -- `e.response is None`
  | unbind    -- client: packed UnbindRequest(message_id=0)
  | notice    -- server: packed NoticeOfDisconnection (diagnostic text is `str(e)`, not modelled)
  deriving DecidableEq, Repr, Inhabited

inductive Outcome where
  | sent (id : Int)                 -- a send call returned this message id
  | unit                            -- register_* / unbind returned None
  | bytes (b : Bytes)               -- data_to_send
  | msgs (ms : List Msg)            -- receive
  | ldapError                       -- sansldap.LDAPError (not ProtocolError)
  | protocolError (n : Notification)
  | valueError
  | keyError
  | notApplicable                   -- method does not exist on this session class
  deriving Repr, Inhabited

inductive Call where
  | bind (dn : Bytes) (cred : Cred) (controls : List Control)
  | search (base : Bytes) (scope deref sizeLimit timeLimit : Int) (typesOnly : Bool)
      (filter : Option Filter) (attrs : List Bytes) (controls : List Control)
  | extended (name : Bytes) (value : Option Bytes) (controls : List Control)
  | unbind
  | bindResponse (id : Int) (sasl : Option Bytes) (code : Int) (mdn diag : Bytes) (controls : List Control)
  | extendedResponse (id : Int) (name : Option Bytes) (value : Option Bytes) (code : Int)
      (mdn diag : Bytes) (controls : List Control)
  | entry (id : Int) (name : Bytes) (attrs : List (Bytes × List Bytes)) (controls : List Control)
  | reference (id : Int) (uris : List Bytes) (controls : List Control)
  | done (id : Int) (code : Int) (mdn diag : Bytes) (controls : List Control)
  | receive (chunk : Bytes)
  | drain (amount : Option Int)
  | register (k : RegKind)
  deriving Repr, Inhabited

def Op.isUnbind : Op → Bool | .unbind => true | _ => false
def Op.isRequest (o : Op) : Bool := Facts.requestOps.contains (opTag o)
def Op.isResponse (o : Op) : Bool := Facts.responseOps.contains (opTag o)

/-- ExtendedResponse whose name is the Notice of Disconnection OID -/
def Op.isNotice : Op → Bool
  | .extResp _ (some n) _ => n == Facts.oidNotice
  | _ => false

/-- messages that may be sent while BINDING -/
def allowedWhileBinding (o : Op) : Bool :=
  match o with
  | .unbind | .bindReq .. | .bindResp .. => true
  | o => o.isNotice

/-- `LDAPSession._send` together with the `_validate_outgoing_message` hook of the server.
    Returns the new session and whether the message was accepted.  Note that the
    BEFORE_OPEN → OPENED transition happens before the server's id check, so it survives a
    refusal (pinned by the repository's tests; known finding F-C08c). -/
def sendBase (s : Sess) (m : Msg) : Sess × Bool :=
  if s.state = .closed then (s, false)
  else if s.state = .binding ∧ !allowedWhileBinding m.op then (s, false)
  else
    let s1 := if s.state = .beforeOpen then { s with state := .opened } else s
    if s.role = .server ∧ !m.op.isUnbind ∧ !s1.outstanding.contains m.id then (s1, false)
    else ({ s1 with out := s1.out ++ encMsg m }, true)

/-- `LDAPClient._send` for a non-unbind message: assigns the id -/
def clientSend (s : Sess) (op : Op) (controls : List Control) : Sess × Option Int :=
  let id := s.counter
  let (s1, ok) := sendBase s ⟨id, op, controls⟩
  if ok then ({ s1 with counter := s1.counter + 1, outstanding := setInsert id s1.outstanding }, some id)
  else (s1, none)

/-- `LDAPServer._send` for a response message -/
def serverSend (s : Sess) (m : Msg) : Sess × Bool :=
  let (s1, ok) := sendBase s m
  if ok then
    match m.op with
    | .searchEntry .. | .searchRef .. => (s1, true)
    | _ => ({ s1 with outstanding := setErase m.id s1.outstanding }, true)
  else (s1, false)

def mkResult (code : Int) (mdn diag : Bytes) : LdapResult := ⟨code, mdn, diag, some []⟩

/-- Python slice index for `buf[:amount]` / `buf[amount:]` -/
def pySliceIdx (amount : Int) (len : Nat) : Nat :=
  if amount ≥ 0 then min amount.toNat len else (Int.ofNat len + amount).toNat

/-! ### receive -/

/-- the `while reader:` loop of `LDAPSession.receive`: returns the messages and the
    unconsumed bytes, or the error class that escaped -/
def parseLoop (regs : Regs) (depth : Nat) : Nat → Bytes → Except Err (List Msg × Bytes)
  | 0, bs => if bs.isEmpty then .ok ([], []) else .error .recursion
  | fuel+1, bs =>
    if bs.isEmpty then .ok ([], [])
    else
      match decMsg regs depth bs with
      | .ok (m, r) =>
        match parseLoop regs depth fuel r with
        | .ok (ms, rest) => .ok (m :: ms, rest)
        | .error e => .error e
      | .error .notEnough => .ok ([], bs)
      | .error e => .error e

/-- `LDAPClient._process_incoming_message`; `none` = ProtocolError, `some (s, keyErr)` -/
def clientProcess (s : Sess) (m : Msg) : Option (Sess × Bool) :=
  if !m.op.isResponse then none
  else
    let inSearch := s.searches.contains m.id
    if !inSearch ∧ !s.outstanding.contains m.id then none
    else
      let isDone : Bool := match m.op with | .searchDone .. => true | _ => false
      let s1 := if inSearch ∧ isDone then { s with searches := setErase m.id s.searches } else s
      let removeId : Bool := !(inSearch && !isDone)
      let s2 := match m.op with
        | .bindResp r _ => if r.code ≠ Facts.codeSaslBindInProgress then { s1 with state := .opened } else s1
        | _ => s1
      if removeId then
        if s2.outstanding.contains m.id then some ({ s2 with outstanding := setErase m.id s2.outstanding }, false)
        else some (s2, true)   -- set.remove raises KeyError
      else some (s2, false)

/-- `LDAPServer._process_incoming_message` -/
def serverProcess (s : Sess) (m : Msg) : Option Sess :=
  if !m.op.isRequest then none
  else
    let isBind : Bool := match m.op with | .bindReq .. => true | _ => false
    if isBind ∧ !s.outstanding.isEmpty then none
    else
      let s1 := if isBind then { s with state := .binding }
                else if s.state = .beforeOpen then { s with state := .opened } else s
      let s2 := match m.op with
        | .searchReq .. => { s1 with searches := setInsert m.id s1.searches }
        | _ => s1
      some { s2 with outstanding := setInsert m.id s2.outstanding }

inductive ProcResult where
  | ok (s : Sess)
  | protoErr (s : Sess) (requestIsUnbind requestIsNotice : Bool)
  | keyErr (s : Sess)

/-- the `for msg in incoming_msgs:` loop -/
def processLoop : Sess → List Msg → ProcResult
  | s, [] => .ok s
  | s, m :: ms =>
    if m.op.isNotice then .protoErr s false true
    else if m.op.isUnbind then .protoErr s true false
    else
      match s.role with
      | .client =>
        match clientProcess s m with
        | none => .protoErr s false false
        | some (s1, true) => .keyErr s1
        | some (s1, false) => processLoop s1 ms
      | .server =>
        match serverProcess s m with
        | none => .protoErr s false false
        | some s1 => processLoop s1 ms

def closeSess (s : Sess) : Sess := { s with state := .closed, outstanding := [] }

/-- which notification `LDAPClient.receive` / `LDAPServer.receive` attach to the error -/
def notificationFor (r : Role) (requestIsUnbind requestIsNotice : Bool) : Notification :=
  match r with
  | .client => if requestIsUnbind ∨ requestIsNotice then .none else .unbind
  | .server => if requestIsUnbind then .none else .notice

/-- `receive` -/
def recv (depth : Nat) (s : Sess) (chunk : Bytes) : Sess × Outcome :=
  if s.state = .closed then (s, .protocolError (notificationFor s.role false false))
  else
    let buf := s.residue ++ chunk
    match parseLoop s.regs depth buf.length buf with
    | .error _ =>
      -- ValueError / NotImplementedError / RecursionError → ProtocolError, session closed
      (closeSess { s with residue := buf }, .protocolError (notificationFor s.role false false))
    | .ok (ms, rest) =>
      let s1 := { s with residue := rest }
      match processLoop s1 ms with
      | .ok s2 => (s2, .msgs ms)
      | .protoErr s2 u n => (closeSess s2, .protocolError (notificationFor s.role u n))
      | .keyErr s2 => (s2, .keyError)

/-- the unbind request both session kinds send -/
def unbindMsg : Msg := ⟨0, .unbind, []⟩

/-- the notice of disconnection a server attaches, for a diagnostic text -/
def noticeMsg (diag : Bytes) : Msg :=
  ⟨0, .extResp ⟨Facts.codeProtocolError, [], diag, none⟩ (some Facts.oidNotice) none, []⟩

/-! ### step -/

/-- depth budget used for `receive` inside `step` -/
def defaultDepth : Nat := 300

def step (s : Sess) (c : Call) : Sess × Outcome :=
  match c with
  | .receive chunk => recv defaultDepth s chunk
  | .drain amount =>
    let idx := match amount with | none => s.out.length | some a => pySliceIdx a s.out.length
    ({ s with out := s.out.drop idx }, .bytes (s.out.take idx))
  | .register k =>
    match k with
    | .control => if s.regs.control then (s, .valueError) else ({ s with regs := { s.regs with control := true } }, .unit)
    | .filter => if s.regs.filter then (s, .valueError) else ({ s with regs := { s.regs with filter := true } }, .unit)
    | .auth => if s.regs.auth then (s, .valueError) else ({ s with regs := { s.regs with auth := true } }, .unit)
  | .unbind =>
    let (s1, ok) := sendBase s unbindMsg
    if ok then ({ s1 with outstanding := [], state := .closed }, .unit) else (s1, .ldapError)
  | .bind dn cred controls =>
    if s.role ≠ .client then (s, .notApplicable)
    else if !s.outstanding.isEmpty then (s, .ldapError)
    else
      match clientSend s (.bindReq Facts.ldapVersion dn cred) controls with
      | (s1, some id) => ({ s1 with state := .binding }, .sent id)
      | (s1, none) => (s1, .ldapError)
  | .search base scope deref sl tl ty filter attrs controls =>
    if s.role ≠ .client then (s, .notApplicable)
    else
      let f := filter.getD (.present Facts.defaultSearchAttr)
      match clientSend s (.searchReq base scope deref sl tl ty f attrs) controls with
      | (s1, some id) => ({ s1 with searches := setInsert id s1.searches }, .sent id)
      | (s1, none) => (s1, .ldapError)
  | .extended name value controls =>
    if s.role ≠ .client then (s, .notApplicable)
    else
      match clientSend s (.extReq name value) controls with
      | (s1, some id) => (s1, .sent id)
      | (s1, none) => (s1, .ldapError)
  | .bindResponse id sasl code mdn diag controls =>
    if s.role ≠ .server then (s, .notApplicable)
    else
      match serverSend s ⟨id, .bindResp (mkResult code mdn diag) sasl, controls⟩ with
      | (s1, true) =>
        (if code ≠ Facts.codeSaslBindInProgress then { s1 with state := .opened } else s1, .sent id)
      | (s1, false) => (s1, .ldapError)
  | .extendedResponse id name value code mdn diag controls =>
    if s.role ≠ .server then (s, .notApplicable)
    else
      match serverSend s ⟨id, .extResp (mkResult code mdn diag) name value, controls⟩ with
      | (s1, true) =>
        (if name == some Facts.oidNotice then { s1 with state := .closed } else s1, .sent id)
      | (s1, false) => (s1, .ldapError)
  | .entry id name attrs controls =>
    if s.role ≠ .server then (s, .notApplicable)
    else
      match serverSend s ⟨id, .searchEntry name attrs, controls⟩ with
      | (s1, true) => (s1, .sent id)
      | (s1, false) => (s1, .ldapError)
  | .reference id uris controls =>
    if s.role ≠ .server then (s, .notApplicable)
    else
      match serverSend s ⟨id, .searchRef uris, controls⟩ with
      | (s1, true) => (s1, .sent id)
      | (s1, false) => (s1, .ldapError)
  | .done id code mdn diag controls =>
    if s.role ≠ .server then (s, .notApplicable)
    else
      match serverSend s ⟨id, .searchDone (mkResult code mdn diag), controls⟩ with
      | (s1, true) => ({ s1 with searches := setErase id s1.searches }, .sent id)
      | (s1, false) => (s1, .ldapError)

/-- run a history -/
def run (s : Sess) : List Call → Sess × List Outcome
  | [] => (s, [])
  | c :: cs =>
    let (s1, o) := step s c
    let (s2, os) := run s1 cs
    (s2, o :: os)

end Verif
