/-
Model of `sansldap/asn1.py` (BER primitives).

Bytes are `List Nat`; a Python `bytes` value is a list whose elements are `< 256`
(`IsBytes`).  Every function below follows the statement order of the Python function it
models; the Python name is given in the doc comment.  Core Lean only (no Mathlib).
-/
namespace Verif

abbrev Bytes := List Nat

def IsBytes (l : Bytes) : Prop := ∀ b ∈ l, b < 256

instance (l : Bytes) : Decidable (IsBytes l) := by unfold IsBytes; exact inferInstance

/-- Exceptions that escape the decoding layer, by class. -/
inductive Err where
  | notEnough    -- asn1.NotEnougData
  | valueError   -- ValueError (incl. UnicodeDecodeError)
  | notImpl      -- NotImplementedError
  | recursion    -- RecursionError (depth budget exhausted)
  deriving DecidableEq, Repr, Inhabited

structure Tag where
  cls  : Nat      -- 0 universal, 1 application, 2 context, 3 private
  cons : Bool
  num  : Nat
  deriving DecidableEq, Repr, Inhabited

structure Header where
  tag  : Tag
  hlen : Nat      -- ASN1Header.tag_length: identifier + length octets
  len  : Nat      -- ASN1Header.length
  deriving DecidableEq, Repr, Inhabited

/-! ### Writers -/

/-- little-endian base-128 digits of `n` (`n = 0` gives `[]`), loop of `_pack_asn1_octet_number`
    before the continuation bits are set -/
def digits128 : Nat → Nat → List Nat
  | 0, _ => []
  | fuel+1, n => if n = 0 then [] else (n % 128) :: digits128 fuel (n / 128)

/-- `_pack_asn1_octet_number`: 7-bit groups, most significant first, MSB set on all but the last -/
def packOctetNumber (n : Nat) : Bytes :=
  match digits128 (n + 1) n with
  | [] => []
  | d :: ds => (ds.map (· + 128)).reverse ++ [d]

/-- little-endian base-256 digits, the `while length:` loop of `_pack_asn1` -/
def digits256 : Nat → Nat → List Nat
  | 0, _ => []
  | fuel+1, n => if n = 0 then [] else (n % 256) :: digits256 fuel (n / 256)

/-- length octets of `_pack_asn1` -/
def packLen (n : Nat) : Bytes :=
  if n < 128 then [n]
  else
    let ds := (digits256 (n + 1) n).reverse
    (ds.length + 128) :: ds     -- `len(length_octets) | 0x80` (equal to `+128` while `< 128` octets)

/-- identifier octets of `_pack_asn1` -/
def packTag (t : Tag) : Bytes :=
  let id := t.cls * 64 + (if t.cons then 32 else 0)
  if t.num < 31 then [id + t.num] else (id + 31) :: packOctetNumber t.num

def packHeader (t : Tag) (n : Nat) : Bytes := packTag t ++ packLen n

/-- `_pack_asn1` -/
def packTLV (t : Tag) (content : Bytes) : Bytes := packHeader t content.length ++ content

/-- the `while value > limit` loop of `_pack_asn1_integer` followed by the final append;
    little-endian -/
def intEmit (neg : Bool) (limit : Nat) : Nat → Nat → List Nat
  | 0, v => [if neg then (255 - v) % 256 else v % 256]
  | f+1, v =>
    if v > limit then (if neg then 255 - v % 256 else v % 256) :: intEmit neg limit f (v / 256)
    else [if neg then (255 - v) % 256 else v % 256]

/-- the `for idx, val in enumerate(b_int)` add-one-with-carry pass (little-endian) -/
def addOneLE : List Nat → List Nat
  | [] => []
  | b :: bs => if b < 255 then (b + 1) :: bs else 0 :: addOneLE bs

/-- content octets written by `_pack_asn1_integer` -/
def intContent (v : Int) : Bytes :=
  if v < 0 then
    let m := v.natAbs
    let le := addOneLE (intEmit true 128 m m)
    let le := if le.getLast? = some 127 then le ++ [255] else le
    le.reverse
  else
    (intEmit false 127 v.toNat v.toNat).reverse

def tagUniv (num : Nat) (cons : Bool := false) : Tag := ⟨0, cons, num⟩
def tagCtx (num : Nat) (cons : Bool := false) : Tag := ⟨2, cons, num⟩
def tagApp (num : Nat) (cons : Bool := true) : Tag := ⟨1, cons, num⟩

def tBool : Tag := tagUniv 1
def tInt : Tag := tagUniv 2
def tOctets : Tag := tagUniv 4
def tEnum : Tag := tagUniv 10
def tSeq : Tag := tagUniv 16 true
def tSet : Tag := tagUniv 17 true

def packInt (v : Int) (t : Tag := tInt) : Bytes := packTLV t (intContent v)
def packEnum (v : Int) (t : Tag := tEnum) : Bytes := packTLV t (intContent v)
def packBool (b : Bool) (t : Tag := tBool) : Bytes := packTLV t [if b then 255 else 0]
def packOctets (c : Bytes) (t : Tag := tOctets) : Bytes := packTLV t c

/-! ### Readers -/

/-- big-endian value of a digit list in base `B` -/
def beVal (B : Nat) : List Nat → Nat → Nat
  | [], acc => acc
  | b :: bs, acc => beVal B bs (acc * B + b)

/-- `_unpack_asn1_octet_number`: returns (value, octets used) -/
def unpackOctetNumber : Bytes → Nat → Nat → Except Err (Nat × Nat)
  | [], _, _ => .error .notEnough
  | e :: rest, acc, idx =>
    let acc' := acc * 128 + e % 128
    if 128 ≤ e then unpackOctetNumber rest acc' (idx + 1) else .ok (acc', idx + 1)

/-- `_read_asn1_header` -/
def readHeader (bs : Bytes) : Except Err Header :=
  match bs with
  | [] => .error .notEnough
  | o1 :: rest =>
    let cls := o1 / 64
    let cons := o1 / 32 % 2 = 1
    let low := o1 % 32
    match (if low = 31 then unpackOctetNumber rest 0 0 else .ok (low, 0)) with
    | .error e => .error e
    | .ok (num, cnt) =>
      let tagOctets := 1 + cnt
      -- `TypeTagNumber(tag_number)` raises ValueError for numbers that are not enum members
      if cls = 0 ∧ num > 36 then .error .valueError
      else
        match bs.drop tagOctets with
        | [] => .error .notEnough
        | l :: lrest =>
          if l = 128 then .error .valueError           -- indefinite length
          else if 128 < l then
            let k := l - 128
            if lrest.length < k then .error .notEnough
            else .ok ⟨⟨cls, cons, num⟩, tagOctets + 1 + k, beVal 256 (lrest.take k) 0⟩
          else .ok ⟨⟨cls, cons, num⟩, tagOctets + 1, l⟩

/-- `_validate_tag`: `expect = none` models the call shape `read_x(header=h)` without a tag,
    where the expected tag is the header's own tag.  Returns (content, remaining bytes). -/
def readTLV (expect : Option Tag) (bs : Bytes) : Except Err (Bytes × Bytes) :=
  match readHeader bs with
  | .error e => .error e
  | .ok h =>
    if (match expect with | some t => decide (h.tag ≠ t) | none => false) then .error .valueError
    else
      let view := bs.drop h.hlen
      if view.length < h.len then .error .notEnough
      else .ok (view.take h.len, view.drop h.len)

/-- `ASN1Reader.skip_value(peek_header())` -/
def skipValue (bs : Bytes) : Except Err Bytes :=
  match readHeader bs with
  | .error e => .error e
  | .ok h => .ok (bs.drop (h.hlen + h.len))

/-- value computed by `_read_asn1_integer` from the content octets (after the repair of the
    carry loop and of the empty-content case) -/
def readIntContent (c : Bytes) : Except Err Int :=
  match c with
  | [] => .error .valueError
  | b0 :: _ =>
    if 128 ≤ b0 then
      let comp := c.map (fun b => 255 - b)
      let inc := (addOneLE comp.reverse).reverse
      .ok (-(Int.ofNat (beVal 256 inc 0)))
    else .ok (Int.ofNat (beVal 256 c 0))

def readInt (expect : Option Tag) (bs : Bytes) : Except Err (Int × Bytes) :=
  match readTLV expect bs with
  | .error e => .error e
  | .ok (c, rest) =>
    match readIntContent c with
    | .error e => .error e
    | .ok v => .ok (v, rest)

/-- `_read_asn1_boolean`: `raw != b"\x00"` -/
def readBool (expect : Option Tag) (bs : Bytes) : Except Err (Bool × Bytes) :=
  match readTLV expect bs with
  | .error e => .error e
  | .ok (c, rest) => .ok (decide (c ≠ [0]), rest)

/-! ### UTF-8 (`bytes.decode("utf-8")`, strict) -/

/-- well-formed UTF-8 per Unicode Table 3-7 (what CPython's strict decoder accepts) -/
def validUtf8 : Bytes → Bool
  | [] => true
  | b0 :: rest =>
    if b0 < 128 then validUtf8 rest
    else if 194 ≤ b0 ∧ b0 ≤ 223 then
      match rest with
      | b1 :: r => (128 ≤ b1 && b1 ≤ 191) && validUtf8 r
      | _ => false
    else if 224 ≤ b0 ∧ b0 ≤ 239 then
      match rest with
      | b1 :: b2 :: r =>
        let lo := if b0 = 224 then 160 else 128
        let hi := if b0 = 237 then 159 else 191
        (lo ≤ b1 && b1 ≤ hi) && (128 ≤ b2 && b2 ≤ 191) && validUtf8 r
      | _ => false
    else if 240 ≤ b0 ∧ b0 ≤ 244 then
      match rest with
      | b1 :: b2 :: b3 :: r =>
        let lo := if b0 = 240 then 144 else 128
        let hi := if b0 = 244 then 143 else 191
        (lo ≤ b1 && b1 ≤ hi) && (128 ≤ b2 && b2 ≤ 191) && (128 ≤ b3 && b3 ≤ 191) && validUtf8 r
      | _ => false
    else false

/-- `.decode("utf-8")` of a byte string kept as its UTF-8 octets -/
def decodeText (c : Bytes) : Except Err Bytes :=
  if validUtf8 c then .ok c else .error .valueError

/-- `read_octet_string(...)` -/
def readOctets (expect : Option Tag) (bs : Bytes) : Except Err (Bytes × Bytes) := readTLV expect bs

/-- `read_octet_string(...).decode(...)` -/
def readText (expect : Option Tag) (bs : Bytes) : Except Err (Bytes × Bytes) :=
  match readTLV expect bs with
  | .error e => .error e
  | .ok (c, rest) =>
    match decodeText c with
    | .error e => .error e
    | .ok t => .ok (t, rest)

end Verif
