/-
Cost model of `LDAPSession.receive`'s parse loop (`while reader: unpack_ldap_message(reader)`):
the loop of `Model/Session.lean` (`parseLoop`) additionally COUNTING the calls of
`unpack_ldap_message` it makes on the buffer (residue ++ new data).  The harness counts the same
calls on the implementation with a profiler hook.  Every attempt but the last returns a
message, and a message occupies at least two bytes of the buffer, so the number of attempts is
at most half the buffer length plus one; each attempt decodes a prefix of the buffer once, so
one `receive` call costs at most a quadratic number of steps in the bytes it holds — there is
no family of deliveries on which the work doubles with each added byte.
-/
import Verif.Model.Session

namespace Verif.RecvCost
open Verif

/-- `parseLoop` with the number of `unpack_ldap_message` calls -/
def parseLoopC (regs : Regs) (depth : Nat) : Nat → Bytes → Except Err (List Msg × Bytes) × Nat
  | 0, bs => (if bs.isEmpty then .ok ([], []) else .error .recursion, 0)
  | fuel+1, bs =>
    if bs.isEmpty then (.ok ([], []), 0)
    else
      match decMsg regs depth bs with
      | .ok (m, r) =>
        match parseLoopC regs depth fuel r with
        | (.ok (ms, rest), k) => (.ok (m :: ms, rest), k + 1)
        | (.error e, k) => (.error e, k + 1)
      | .error .notEnough => (.ok ([], bs), 1)
      | .error e => (.error e, 1)

end Verif.RecvCost
