/-
Step-counting model of `unpack_ldap_message` (`_messages.py`) and of everything it calls: the
decoder of `Model/Msg.lean` (`decMsg`), function by function, in which every function additionally
returns the number of STEPS it performs.  `Model/DecodeCost.lean` counts the CALLS of
`LDAPFilter.unpack`, `Model/RecvCost.lean` the decode attempts of `receive`; this file counts the
work inside the decoding of one message.

A counting function returns `S α`: the result (`res : Except Err α`) and the steps performed up to
the return or up to the exception (`steps`).  `tick n` charges `n` steps where they are performed.

What is a step.  (`W` is the weight of big-integer arithmetic, see below; `W = 0` counts one step
per executed loop iteration / per octet touched by a copy or a decode, i.e. the unit-cost measure.)

  Python construct                                                  charge
  ----------------------------------------------------------------  --------------------------------
  a call of `_read_asn1_header` (asn1.py:707; `peek_header`, or      1
    from `_validate_tag` when no header is passed, asn1.py:896)
  `struct.unpack("B", view[:1])` first identifier octet (725)        1
  `_unpack_asn1_octet_number` (910-927), per iteration of            1 + W·idx   (idx = octets
    `while True` (the failing length test counts as one)               accumulated so far: `i` has
    `i = (i << 7) + (element & 0x7f)` (923)                            7·idx bits, the shift copies it)
  `TypeTagNumber(tag_number)` (736): hashing the number              1 per octet of the tag number
                                                                     (charged for every tag class)
  first length octet (743)                                           1
  `for idx in range(1, length_octets)` (759-764)                     1 per iteration (the integers
                                                                     here have ≤ 127 octets: constant)
  a call of a reader method: `read_sequence` / `read_set` /          1  (the chain `ASN1Reader.read_x`
    `read_octet_string` / `read_integer` / `read_enumerated` /          → `_read_asn1_x` → `_validate_tag`
    `read_boolean` (asn1.py:181-367, 777-907)                           is a constant number of lines),
                                                                     plus a header read unless
                                                                     `header=` is passed
  `view[tag_length:]`, `view[:data_length]`, `self._view[consumed:]`  0  (memoryview slices: no copy)
  `ASN1Reader(new_view)`, `bool(reader)`                             0 / 1 per evaluated loop condition
  `val.tobytes()` in `read_octet_string` (300)                       k = content octets
  `.decode(options.string_encoding)`                                 k
  `raw_bool.tobytes() != b"\x00"` (789)                              k
  `_read_asn1_integer` (804-843): `bytearray(raw_int)`               k
     negative: complement loop (823), carry loop (827),              k + k + k
       `int_value *= -1` (841)
     `for val in b_int: int_value = (int_value << 8) | val` (837)    1 + W·idx per iteration
  `enum_type(val)` in `read_enumerated` (239): hash,                 3k
     `LDAPResultCode._missing_` hex formatting, `setdefault`
  `skip_value` (173)                                                 1
  `while reader:` (every such loop)                                  1 per evaluation of the condition
  `next(c.unpack for c in options.choices if c.control_type ==       4·(1 + len(control_type)): at most
     control_type)` (_controls.py:33)                                  four registered choices, one
                                                                     string comparison each
  `for filter_type in options.choices` (_filter.py:788)              11 (ten classes + one registered)
  `for auth_type in options.choices` (_authentication.py:142)        3
  `PROTOCOL_PACKER.get(tag_number)` (_messages.py:73)                1 + octets of the header (hash)
  a call of `unpack_ldap_message`, `_unpack_ldap_message_contents`,  1 each
     an `_unpack_*` function, `unpack_ldap_control`, an `unpack`
     classmethod, `_unpack_filter_attribute_value_assertion`
  the harness' custom control `unpack` (startswith + slice)          len(value) + 1
  building the result object, raising an exception, `isinstance`,    0 (constant; error texts are not
     `object.__setattr__`, comparing a tag with a small constant        modelled, see design notes)

Big integers.  CPython integers are arbitrary precision: `i << 7` and `int_value << 8` allocate a
new integer of the current size at EVERY iteration.  Counted in executed lines these two loops are
linear; counted in machine words they are quadratic in the number of tag-number octets /
INTEGER content octets.  The weight `W` makes this visible: `W = 0` is the line-level measure (the
linear theorem), `W = 1` charges each iteration additionally the octets already accumulated
(the quadratic theorem, attained — see `Props/C18Msg.lean`).

Deliberate over-approximations (the count is never below what Python does): the tag-number hash is
charged for every class; the carry loop is charged `k`; `decControl` charges a second header read
where the model re-peeks a header Python already holds (`unpack_ldap_control` peeks once when no
criticality is present); the string comparisons of the control choices are charged at full length.
-/
import Verif.Model.Msg

namespace Verif.MsgSteps
open Verif

/-- result and steps of a counting function -/
structure S (α : Type) where
  res : Except Err α
  steps : Nat

namespace S
def pure' {α : Type} (a : α) : S α := ⟨.ok a, 0⟩
def bind' {α β : Type} (x : S α) (f : α → S β) : S β :=
  match x.res with
  | .error e => ⟨.error e, x.steps⟩
  | .ok a => ⟨(f a).res, x.steps + (f a).steps⟩
instance : Monad S where
  pure := pure'
  bind := bind'
end S

/-- charge `n` steps before continuing with `x` -/
def tick {α : Type} (n : Nat) (x : S α) : S α := ⟨x.res, n + x.steps⟩
/-- raise, no further steps -/
def fail {α : Type} (e : Err) : S α := ⟨.error e, 0⟩
/-- the result of `x` without its steps: a value the caller already holds (`header=next_header`) -/
def free {α : Type} (x : S α) : S α := ⟨x.res, 0⟩
/-- a computation of the plain model charged `n` steps -/
def lift {α : Type} (x : Except Err α) (n : Nat) : S α := ⟨x, n⟩

/-! ### `asn1.py` -/

/-- steps of a loop that accumulates a big integer octet by octet: `n` iterations, the integer
    holding `idx` octets before the first one -/
def accSteps (W : Nat) : Nat → Nat → Nat
  | 0, _ => 0
  | n+1, idx => 1 + W * idx + accSteps W n (idx + 1)

/-- `_unpack_asn1_octet_number` -/
def unpackOctetNumberS (W : Nat) : Bytes → Nat → Nat → S (Nat × Nat)
  | [], _, _ => ⟨.error .notEnough, 1⟩
  | e :: rest, acc, idx =>
    let acc' := acc * 128 + e % 128
    if 128 ≤ e then tick (1 + W * idx) (unpackOctetNumberS W rest acc' (idx + 1))
    else ⟨.ok (acc', idx + 1), 1 + W * idx⟩

/-- `_read_asn1_header` -/
def readHeaderS (W : Nat) (bs : Bytes) : S Header :=
  tick 1 <|
  match bs with
  | [] => fail .notEnough
  | o1 :: rest =>
    let cls := o1 / 64
    let cons := o1 / 32 % 2 = 1
    let low := o1 % 32
    tick 1 <| do
    let (num, cnt) ← (if low = 31 then unpackOctetNumberS W rest 0 0 else pure (low, 0))
    let tagOctets := 1 + cnt
    -- `TypeTagNumber(tag_number)`
    tick cnt <|
    if cls = 0 ∧ num > 36 then fail .valueError
    else
      match bs.drop tagOctets with
      | [] => fail .notEnough
      | l :: lrest =>
        tick 1 <|
        if l = 128 then fail .valueError
        else if 128 < l then
          let k := l - 128
          if lrest.length < k then ⟨.error .notEnough, lrest.length + 1⟩
          else ⟨.ok ⟨⟨cls, cons, num⟩, tagOctets + 1 + k, beVal 256 (lrest.take k) 0⟩, k⟩
        else pure ⟨⟨cls, cons, num⟩, tagOctets + 1, l⟩

/-- `_validate_tag` reached through a reader method; with `expect = none` the caller passes the
    header it has peeked and no header is read -/
def readTLVS (W : Nat) (expect : Option Tag) (bs : Bytes) : S (Bytes × Bytes) :=
  tick 1 <| do
  let h ← (match expect with
    | some _ => readHeaderS W bs
    | none => free (readHeaderS W bs))
  if (match expect with | some t => decide (h.tag ≠ t) | none => false) then fail .valueError
  else
    let view := bs.drop h.hlen
    if view.length < h.len then fail .notEnough
    else pure (view.take h.len, view.drop h.len)

/-- steps of `_read_asn1_integer` on `c` after `_validate_tag`; `extra` per octet for the
    `enum_type(val)` of `read_enumerated` -/
def intSteps (W extra : Nat) (c : Bytes) : Nat :=
  match c with
  | [] => 0
  | b0 :: _ =>
    c.length + (if 128 ≤ b0 then 3 * c.length else 0) + accSteps W c.length 0 + extra * c.length

/-- `read_integer` (`extra = 0`) / `read_enumerated` (`extra = 3`) -/
def readIntS (W extra : Nat) (expect : Option Tag) (bs : Bytes) : S (Int × Bytes) := do
  let (c, rest) ← readTLVS W expect bs
  let v ← lift (readIntContent c) (intSteps W extra c)
  pure (v, rest)

/-- `read_boolean` -/
def readBoolS (W : Nat) (expect : Option Tag) (bs : Bytes) : S (Bool × Bytes) := do
  let (c, rest) ← readTLVS W expect bs
  tick c.length <| pure (decide (c ≠ [0]), rest)

/-- `read_octet_string(...)`: `.tobytes()` -/
def readOctetsS (W : Nat) (expect : Option Tag) (bs : Bytes) : S (Bytes × Bytes) := do
  let (c, rest) ← readTLVS W expect bs
  tick c.length <| pure (c, rest)

/-- `read_octet_string(...).decode(...)` -/
def readTextS (W : Nat) (expect : Option Tag) (bs : Bytes) : S (Bytes × Bytes) := do
  let (c, rest) ← readTLVS W expect bs
  tick c.length <| do
  let t ← lift (decodeText c) c.length
  pure (t, rest)

/-! ### `_messages.py`, `_controls.py`, `_authentication.py`, `_filter.py` -/

/-- `while reader: x = dec1(reader)` -/
def loopManyS {α : Type} (dec1 : Bytes → S (α × Bytes)) : Nat → Bytes → S (List α)
  | 0, bs => tick 1 <| if bs.isEmpty then pure [] else fail .recursion
  | fuel+1, bs =>
    tick 1 <|
    if bs.isEmpty then pure []
    else do
      let (x, r) ← dec1 bs
      let xs ← loopManyS dec1 fuel r
      pure (x :: xs)

/-- the `while substrings_reader:` loop of `FilterSubstrings.unpack` (_filter.py:1073-1104) -/
def decSubstrLoopS (W : Nat) : Nat → Bytes → SubstrAcc → S SubstrAcc
  | 0, bs, acc => tick 1 <| if bs.isEmpty then pure acc else fail .recursion
  | fuel+1, bs, acc =>
    tick 1 <|
    if bs.isEmpty then pure acc
    else do
      let h ← readHeaderS W bs
      if h.tag.cls = 2 ∧ h.tag.num = 0 then
        if acc.initial.isSome then fail .valueError
        else do
          let (v, r) ← readOctetsS W none bs
          decSubstrLoopS W fuel r { acc with initial := some v }
      else if h.tag.cls = 2 ∧ h.tag.num = 1 then do
        let (v, r) ← readOctetsS W none bs
        decSubstrLoopS W fuel r { acc with any := acc.any ++ [v] }
      else if h.tag.cls = 2 ∧ h.tag.num = 2 then
        if acc.final.isSome then fail .valueError
        else do
          let (v, r) ← readOctetsS W none bs
          decSubstrLoopS W fuel r { acc with final := some v }
      else do
        let r ← tick 1 <| lift (skipValue bs) 0
        decSubstrLoopS W fuel r acc

/-- the `while filter_reader:` loop of `FilterExtensibleMatch.unpack` -/
def decExtLoopS (W : Nat) : Nat → Bytes → ExtAcc → S ExtAcc
  | 0, bs, acc => tick 1 <| if bs.isEmpty then pure acc else fail .recursion
  | fuel+1, bs, acc =>
    tick 1 <|
    if bs.isEmpty then pure acc
    else do
      let h ← readHeaderS W bs
      if h.tag.cls = 2 ∧ h.tag.num = 1 then do
        let (v, r) ← readTextS W none bs
        decExtLoopS W fuel r { acc with rule := some v }
      else if h.tag.cls = 2 ∧ h.tag.num = 2 then do
        let (v, r) ← readTextS W none bs
        decExtLoopS W fuel r { acc with attr := some v }
      else if h.tag.cls = 2 ∧ h.tag.num = 3 then do
        let (v, r) ← readOctetsS W none bs
        decExtLoopS W fuel r { acc with val := v }
      else if h.tag.cls = 2 ∧ h.tag.num = 4 then do
        let (v, r) ← readBoolS W none bs
        decExtLoopS W fuel r { acc with dn := v }
      else do
        let r ← tick 1 <| lift (skipValue bs) 0
        decExtLoopS W fuel r acc

/-- `_unpack_filter_attribute_value_assertion` (_filter.py:1427) -/
def decAvaS (W : Nat) (num : Nat) (bs : Bytes) : S ((Bytes × Bytes) × Bytes) :=
  tick 1 <| do
  let (c, rest) ← readTLVS W (some (tagCtx num true)) bs
  let (a, c1) ← readTextS W (some tOctets) c
  let (v, _) ← readOctetsS W (some tOctets) c1
  pure ((a, v), rest)

/-- `LDAPFilter.unpack` (_filter.py:769-792) and the `unpack` of the filter class it selects:
    the call (1), the peek, the loop over `options.choices` (11), then the class' `unpack` -/
def decFilterS (W : Nat) (regs : Regs) : Nat → Bytes → S (Filter × Bytes)
  | 0, _ => ⟨.error .recursion, 1⟩
  | depth+1, bs =>
    tick 1 <| do
    let h ← readHeaderS W bs
    tick 11 <|
    if h.tag.cls ≠ 2 then fail .notImpl
    else if h.tag.num = Facts.filterAnd then do
      let (c, rest) ← readTLVS W (some (tagCtx Facts.filterAnd true)) bs
      let fs ← loopManyS (decFilterS W regs depth) c.length c
      pure (.and fs, rest)
    else if h.tag.num = Facts.filterOr then do
      let (c, rest) ← readTLVS W (some (tagCtx Facts.filterOr true)) bs
      let fs ← loopManyS (decFilterS W regs depth) c.length c
      pure (.or fs, rest)
    else if h.tag.num = Facts.filterNot then do
      let (c, rest) ← readTLVS W (some (tagCtx Facts.filterNot true)) bs
      let (f, _) ← decFilterS W regs depth c
      pure (.not f, rest)
    else if h.tag.num = Facts.filterEq then do
      let ((a, v), rest) ← decAvaS W Facts.filterEq bs
      pure (.eq a v, rest)
    else if h.tag.num = Facts.filterSubstr then do
      let (c, rest) ← readTLVS W (some (tagCtx Facts.filterSubstr true)) bs
      let (a, c1) ← readTextS W (some tOctets) c
      let (sc, _) ← readTLVS W (some tSeq) c1
      let acc ← decSubstrLoopS W sc.length sc {}
      pure (.substr a acc.initial acc.any acc.final, rest)
    else if h.tag.num = Facts.filterGe then do
      let ((a, v), rest) ← decAvaS W Facts.filterGe bs
      pure (.ge a v, rest)
    else if h.tag.num = Facts.filterLe then do
      let ((a, v), rest) ← decAvaS W Facts.filterLe bs
      pure (.le a v, rest)
    else if h.tag.num = Facts.filterPresent then do
      let (a, rest) ← readTextS W (some (tagCtx Facts.filterPresent)) bs
      pure (.present a, rest)
    else if h.tag.num = Facts.filterApprox then do
      let ((a, v), rest) ← decAvaS W Facts.filterApprox bs
      pure (.approx a v, rest)
    else if h.tag.num = Facts.filterExt then do
      let (c, rest) ← readTLVS W (some (tagCtx Facts.filterExt true)) bs
      let acc ← decExtLoopS W c.length c {}
      pure (.ext acc.rule acc.attr acc.val acc.dn, rest)
    else if regs.filter ∧ h.tag.num = Facts.customFilterId then do
      let (v, rest) ← readTextS W (some (tagCtx Facts.customFilterId)) bs
      pure (.custom v, rest)
    else fail .notImpl

/-- `AuthenticationCredential.unpack` (_authentication.py:122-146) and the selected class -/
def decCredS (W : Nat) (regs : Regs) (bs : Bytes) : S (Cred × Bytes) :=
  tick 1 <| do
  let h ← readHeaderS W bs
  tick 3 <|
  if h.tag.cls ≠ 2 then fail .notImpl
  else if h.tag.num = Facts.credSasl then do
    let (c, rest) ← readTLVS W (some (tagCtx Facts.credSasl true)) bs
    let (mech, c1) ← readTextS W (some tOctets) c
    if c1.isEmpty then pure (.sasl mech none, rest)
    else do
      let (cr, _) ← readOctetsS W (some tOctets) c1
      pure (.sasl mech (some cr), rest)
  else if h.tag.num = Facts.credSimple then do
    let (pw, rest) ← readTextS W (some (tagCtx Facts.credSimple)) bs
    pure (.simple pw, rest)
  else if regs.auth ∧ h.tag.num = Facts.customCredId then do
    let (v, rest) ← readTextS W (some (tagCtx Facts.customCredId)) bs
    pure (.custom v, rest)
  else fail .notImpl

/-- `PagedResultControl.unpack(value or b"")` (_controls.py:288-301) -/
def decPagedValueS (W : Nat) (v : Bytes) : S (Int × Bytes) :=
  tick 1 <| do
  let (c, _) ← readTLVS W (some tSeq) v
  let (size, c1) ← readIntS W 0 (some tInt) c
  let (cookie, _) ← readOctetsS W (some tOctets) c1
  pure (size, cookie)

/-- the optional `controlValue` of `unpack_ldap_control` (_controls.py:55-64); `fresh` as in
    `decControl`: a header is (re-)peeked only when one is due -/
def decControlValueS (W : Nat) (c2 : Bytes) (fresh : Bool) : S (Option Bytes) :=
  if fresh then do
    let h ← readHeaderS W c2
    if h.tag.cls = 0 ∧ h.tag.num = 4 then do
      let (v, _) ← readOctetsS W none c2
      pure (some v)
    else pure (none : Option Bytes)
  else (pure none : S (Option Bytes))

/-- the selected class' `unpack` (_controls.py:66-75, 191-301) -/
def decControlTailS (W : Nat) (regs : Regs) (oid : Bytes) (crit : Bool) (value : Option Bytes)
    (rest : Bytes) : S (Control × Bytes) :=
  let vb := value.getD []
  if oid = Facts.oidPaged then do
    let (size, cookie) ← decPagedValueS W vb
    pure (.paged crit size cookie value, rest)
  else if oid = Facts.oidShowDeactivated then pure (.showDeactivated crit value, rest)
  else if oid = Facts.oidShowDeleted then pure (.showDeleted crit value, rest)
  else if regs.control ∧ oid = Facts.oidCustomControl then
    tick (vb.length + 1) <|
    if Facts.customControlMagic.isPrefixOf vb then
      pure (.custom crit (vb.drop Facts.customControlMagic.length) value, rest)
    else fail .valueError
  else pure (.generic oid crit value, rest)

/-- `unpack_ldap_control` (_controls.py:12-75) -/
def decControlS (W : Nat) (regs : Regs) (bs : Bytes) : S (Control × Bytes) :=
  tick 1 <| do
  let (c, rest) ← readTLVS W (some tSeq) bs
  let (oid, c1) ← readTextS W (some tOctets) c
  -- the generator over `options.choices`
  tick (4 * (1 + oid.length)) <| do
  let (crit, c2, fresh) ←
    (if c1.isEmpty then (pure (false, c1, false) : S (Bool × Bytes × Bool))
     else do
       let h ← readHeaderS W c1
       if h.tag.cls = 0 ∧ h.tag.num = 1 then do
         let (b, r) ← readBoolS W none c1
         pure (b, r, !r.isEmpty)
       else pure (false, c1, true))
  let value ← decControlValueS W c2 fresh
  decControlTailS W regs oid crit value rest

/-- the `while message:` loop of `_unpack_ldap_message_contents` (_messages.py:84-111) -/
def decEnvelopeLoopS (W : Nat) (regs : Regs) : Nat → Bytes → List Control → Option Bytes →
    S (List Control × Option Bytes)
  | 0, bs, cs, rn => tick 1 <| if bs.isEmpty then pure (cs, rn) else fail .recursion
  | fuel+1, bs, cs, rn =>
    tick 1 <|
    if bs.isEmpty then pure (cs, rn)
    else do
      let h ← readHeaderS W bs
      if h.tag.cls = 2 ∧ h.tag.num = 0 then do
        let (c, r) ← readTLVS W none bs
        let more ← loopManyS (decControlS W regs) c.length c
        decEnvelopeLoopS W regs fuel r (cs ++ more) rn
      else if h.tag.cls = 2 ∧ h.tag.num = 10 then do
        let (v, r) ← readTextS W none bs
        decEnvelopeLoopS W regs fuel r cs (some v)
      else do
        let r ← tick 1 <| lift (skipValue bs) 0
        decEnvelopeLoopS W regs fuel r cs rn

/-- `_unpack_ldap_result` (_messages.py:1078-1116) -/
def decResultS (W : Nat) (bs : Bytes) : S (LdapResult × Bytes) :=
  tick 1 <| do
  let (code, b1) ← readIntS W 3 (some tEnum) bs
  let (mdn, b2) ← readTextS W (some tOctets) b1
  let (diag, b3) ← readTextS W (some tOctets) b2
  if b3.isEmpty then pure (⟨code, mdn, diag, none⟩, b3)
  else do
    let h ← readHeaderS W b3
    if h.tag.cls = 2 ∧ h.tag.num = 3 then do
      let (c, b4) ← readTLVS W none b3
      let rs ← loopManyS (readTextS W (some tOctets)) c.length c
      pure (⟨code, mdn, diag, some rs⟩, b4)
    else pure (⟨code, mdn, diag, none⟩, b3)

/-- trailing-option loops of BindResponse / ExtendedRequest / ExtendedResponse -/
def decOptLoopS (W : Nat) (n1 : Nat) (text1 : Bool) (n2 : Option Nat) :
    Nat → Bytes → Option Bytes → Option Bytes → S (Option Bytes × Option Bytes)
  | 0, bs, a, b => tick 1 <| if bs.isEmpty then pure (a, b) else fail .recursion
  | fuel+1, bs, a, b =>
    tick 1 <|
    if bs.isEmpty then pure (a, b)
    else do
      let h ← readHeaderS W bs
      if h.tag.cls = 2 ∧ h.tag.num = n1 then do
        let (v, r) ← (if text1 then readTextS W none bs else readOctetsS W none bs)
        decOptLoopS W n1 text1 n2 fuel r (some v) b
      else if h.tag.cls = 2 ∧ some h.tag.num = n2 then do
        let (v, r) ← readOctetsS W none bs
        decOptLoopS W n1 text1 n2 fuel r a (some v)
      else do
        let r ← tick 1 <| lift (skipValue bs) 0
        decOptLoopS W n1 text1 n2 fuel r a b

/-- `_unpack_partial_attribute` (_messages.py:1157-1173) -/
def decAttrS (W : Nat) (bs : Bytes) : S ((Bytes × List Bytes) × Bytes) :=
  tick 1 <| do
  let (c, rest) ← readTLVS W (some tSeq) bs
  let (name, c1) ← readTextS W (some tOctets) c
  let (vc, _) ← readTLVS W (some tSet) c1
  let vals ← loopManyS (readOctetsS W (some tOctets)) vc.length vc
  pure ((name, vals), rest)

/-- the per-operation `_unpack_*` functions (1 for the call) -/
def decOpS (W : Nat) (regs : Regs) (depth : Nat) (num : Nat) (c : Bytes) : S Op :=
  tick 1 <|
  if num = Facts.opBindRequest then do
    let (v, c1) ← readIntS W 0 (some tInt) c
    let (name, c2) ← readTextS W (some tOctets) c1
    let (cred, _) ← decCredS W regs c2
    pure (.bindReq v name cred)
  else if num = Facts.opBindResponse then do
    let (r, c1) ← decResultS W c
    let (s, _) ← decOptLoopS W 7 false none c1.length c1 none none
    pure (.bindResp r s)
  else if num = Facts.opUnbindRequest then pure .unbind
  else if num = Facts.opSearchRequest then do
    let (base, c1) ← readOctetsS W (some tOctets) c
    let (scope, c2) ← readIntS W 3 (some tEnum) c1
    if !Facts.scopeValues.contains scope then fail .valueError else do
    let (deref, c3) ← readIntS W 3 (some tEnum) c2
    if !Facts.derefValues.contains deref then fail .valueError else do
    let (sl, c4) ← readIntS W 0 (some tInt) c3
    let (tl, c5) ← readIntS W 0 (some tInt) c4
    let (ty, c6) ← readBoolS W (some tBool) c5
    let (f, c7) ← decFilterS W regs depth c6
    let (ac, _) ← readTLVS W (some tSeq) c7
    let attrs ← loopManyS (readTextS W (some tOctets)) ac.length ac
    let base ← lift (decodeText base) base.length
    pure (.searchReq base scope deref sl tl ty f attrs)
  else if num = Facts.opSearchResultEntry then do
    let (name, c1) ← readTextS W (some tOctets) c
    let (ac, _) ← readTLVS W (some tSeq) c1
    let attrs ← loopManyS (decAttrS W) ac.length ac
    pure (.searchEntry name attrs)
  else if num = Facts.opSearchResultDone then do
    let (r, _) ← decResultS W c
    pure (.searchDone r)
  else if num = Facts.opSearchResultReference then do
    let uris ← loopManyS (readTextS W (some tOctets)) c.length c
    pure (.searchRef uris)
  else if num = Facts.opExtendedRequest then do
    let (name, c1) ← readTextS W (some (tagCtx 0)) c
    let (v, _) ← decOptLoopS W 1 false none c1.length c1 none none
    pure (.extReq name v)
  else if num = Facts.opExtendedResponse then do
    let (r, c1) ← decResultS W c
    let (n, v) ← decOptLoopS W 10 true (some 11) c1.length c1 none none
    pure (.extResp r n v)
  else fail .notImpl

/-- `_unpack_ldap_message_contents` (_messages.py:62-119) -/
def decContentsS (W : Nat) (regs : Regs) (depth : Nat) (c : Bytes) : S Msg :=
  tick 1 <| do
  let (id, m1) ← readIntS W 0 (some tInt) c
  let h ← readHeaderS W m1
  if h.tag.cls ≠ 1 then fail .valueError
  else
    -- `PROTOCOL_PACKER.get(protocol_op_tag.tag_number)`
    tick (1 + h.hlen) <|
    if !knownOp h.tag.num then fail .notImpl
    else do
      let (opc, m2) ← readTLVS W none m1
      let (controls, respName) ← decEnvelopeLoopS W regs m2.length m2 [] none
      let op ← decOpS W regs depth h.tag.num opc
      let op := match op, respName with
        | .extResp r n v, some rn =>
          if rn.isEmpty then op
          else match n with
            | none => .extResp r (some rn) v
            | some n' => if n'.isEmpty then .extResp r (some rn) v else op
        | _, _ => op
      pure ⟨id, op, controls⟩

/-- `unpack_ldap_message` (_messages.py:35-59) with the steps it performs -/
def decMsgS (W : Nat) (regs : Regs) (depth : Nat) (bs : Bytes) : S (Msg × Bytes) :=
  tick 1 <|
  match readTLVS W (some tSeq) bs with
  | ⟨.error e, k⟩ => ⟨.error e, k⟩
  | ⟨.ok (c, rest), k⟩ =>
    match decContentsS W regs depth c with
    | ⟨.ok m, n⟩ => ⟨.ok (m, rest), k + n⟩
    | ⟨.error .notEnough, n⟩ => ⟨.error .valueError, k + n⟩
    | ⟨.error e, n⟩ => ⟨.error e, k + n⟩

/-- the parse loop of `LDAPSession.receive` (`while reader: unpack_ldap_message(reader)`,
    `Model/Session.lean` `parseLoop`) with the steps of every decode attempt -/
def parseLoopS (W : Nat) (regs : Regs) (depth : Nat) : Nat → Bytes → S (List Msg × Bytes)
  | 0, bs => tick 1 <| if bs.isEmpty then pure ([], []) else fail .recursion
  | fuel+1, bs =>
    tick 1 <|
    if bs.isEmpty then pure ([], [])
    else
      match decMsgS W regs depth bs with
      | ⟨.ok (m, r), k⟩ =>
        match parseLoopS W regs depth fuel r with
        | ⟨.ok (ms, rest), n⟩ => ⟨.ok (m :: ms, rest), k + n⟩
        | ⟨.error e, n⟩ => ⟨.error e, k + n⟩
      | ⟨.error .notEnough, k⟩ => ⟨.ok ([], bs), k⟩
      | ⟨.error e, k⟩ => ⟨.error e, k⟩

/-! ### families of messages for the examples and the harness -/

/-- an UnbindRequest whose messageID has `k` content octets `01 01 … 01` -/
def bigIdMsg (k : Nat) : Bytes :=
  packTLV tSeq (packTLV tInt (List.replicate k 1) ++ [0x42, 0])

/-- an UnbindRequest followed by an unknown element whose tag number takes `k + 1` octets -/
def longTagMsg (k : Nat) : Bytes :=
  packTLV tSeq (packInt 1 ++ [0x42, 0] ++ ([0xBF] ++ List.replicate k 0x81 ++ [1, 0]))

/-- an UnbindRequest followed by `k` unknown elements `85 01 00` -/
def trailingMsg (k : Nat) : Bytes :=
  packTLV tSeq (packInt 1 ++ [0x42, 0] ++ (List.replicate k [0x85, 1, 0]).flatten)

/-- a SearchResultEntry with `a` attributes of `v` one-octet values each -/
def entryMsg (a v : Nat) : Bytes :=
  encMsg ⟨1, .searchEntry [100] (List.replicate a ([97], List.replicate v [120])), []⟩

def nestedNotF : Nat → Filter
  | 0 => .eq [97] [98]
  | d+1 => .not (nestedNotF d)

/-- a SearchRequest whose filter is `(a=b)` under `d` negations -/
def nestedNotMsg (d : Nat) : Bytes :=
  encMsg ⟨1, .searchReq [] 2 0 0 0 false (nestedNotF d) [], []⟩

/-- a SearchRequest whose filter is a conjunction of `w` equality matches -/
def wideAndMsg (w : Nat) : Bytes :=
  encMsg ⟨1, .searchReq [] 2 0 0 0 false (.and (List.replicate w (.eq [97] [98]))) [], []⟩

/-- an UnbindRequest with `c` paged-results controls -/
def controlsMsg (c : Nat) : Bytes :=
  encMsg ⟨1, .unbind, List.replicate c (.paged true 10 [1, 2, 3] none)⟩

#eval (decMsgS 0 {} 100 (bigIdMsg 16)).steps      -- 51
#eval (decMsgS 1 {} 100 (bigIdMsg 16)).steps      -- 171 = 51 + 16·15/2
#eval (decMsgS 1 {} 100 (bigIdMsg 32)).steps      -- 579 = 83 + 32·31/2
#eval (decMsgS 0 {} 100 (longTagMsg 16)).steps
#eval (decMsgS 1 {} 100 (longTagMsg 16)).steps
#eval (decMsgS 0 {} 100 (trailingMsg 10)).steps
#eval (decMsgS 0 {} 100 (trailingMsg 20)).steps
#eval (decMsgS 0 {} 100 (entryMsg 4 4)).steps
#eval (decMsgS 0 {} 100 (entryMsg 8 4)).steps
#eval (decMsgS 0 {} 100 (nestedNotMsg 10)).steps
#eval (decMsgS 0 {} 100 (nestedNotMsg 20)).steps
#eval (decMsgS 0 {} 100 (wideAndMsg 10)).steps
#eval (decMsgS 0 {} 100 (wideAndMsg 20)).steps
#eval (decMsgS 0 {} 100 (controlsMsg 4)).steps
#eval (decMsgS 0 {} 100 (controlsMsg 8)).steps
#eval ((bigIdMsg 16).length, (longTagMsg 16).length, (trailingMsg 20).length, (entryMsg 8 4).length,
  (nestedNotMsg 20).length, (wideAndMsg 20).length, (controlsMsg 8).length)

end Verif.MsgSteps
