/-
Regular expressions as the library's patterns are translated (harness/translate_re.py →
Generated/Regexes.lean), with the semantics of a backtracking matcher:

* `runs r s`  — list of successes: every way `r` can match a prefix of `s`, as the remaining
  suffixes, in the priority order a backtracking engine explores them (greedy repeats, left
  alternative first).  Its head is what `re.match` returns.
* `work r s`  — the size of the full search tree, i.e. an upper bound on the number of steps a
  backtracking engine performs on `s` when it has to exhaust every alternative (the failing,
  worst case).

Core Lean only.
-/
namespace Verif

inductive Re where
  | eps
  | cls (ivs : List (Nat × Nat))   -- a character class: sorted inclusive code-point intervals
  | cat (a b : Re)
  | alt (a b : Re)                 -- left alternative first
  | star (a : Re)                  -- greedy `*`; an iteration that consumes nothing ends the repetition
  | group (id : Nat) (a : Re)      -- capturing group (captures matter only to the driver)
  | eos                            -- `\Z`
  | eosNl                          -- `$`: end of string, or just before a final newline
  | unsupported                    -- something the translator could not express
  deriving Repr, Inhabited, DecidableEq

namespace Re

def inCls (ivs : List (Nat × Nat)) (c : Nat) : Bool := ivs.any fun (lo, hi) => lo ≤ c && c ≤ hi

/-- list of successes with a fuel argument bounding the unfolding of `star`; `fuel ≥ s.length`
    suffices because every repeated iteration consumes at least one character -/
def runsF : Nat → Re → List Nat → List (List Nat)
  | _, eps, s => [s]
  | _, cls ivs, s =>
    match s with
    | c :: r => if inCls ivs c then [r] else []
    | [] => []
  | f, cat a b, s => (runsF f a s).flatMap (runsF f b)
  | f, alt a b, s => runsF f a s ++ runsF f b s
  | 0, star _, s => [s]
  | f+1, star a, s => ((runsF (f+1) a s).filter (fun t => t.length < s.length)).flatMap (runsF f (star a)) ++ [s]
  | f, group _ a, s => runsF f a s
  | _, eos, s => if s.isEmpty then [s] else []
  | _, eosNl, s => if s.isEmpty ∨ s = [10] then [s] else []
  | _, unsupported, _ => []
termination_by f r _ => (f, sizeOf r)

def runs (r : Re) (s : List Nat) : List (List Nat) := runsF s.length r s

/-- size of the search tree -/
def workF : Nat → Re → List Nat → Nat
  | _, eps, _ => 1
  | _, cls _, _ => 1
  | f, cat a b, s => 1 + workF f a s + ((runsF f a s).map (workF f b)).sum
  | f, alt a b, s => 1 + workF f a s + workF f b s
  | 0, star _, _ => 1
  | f+1, star a, s =>
    1 + workF (f+1) a s + (((runsF (f+1) a s).filter (fun t => t.length < s.length)).map (workF f (star a))).sum
  | f, group _ a, s => 1 + workF f a s
  | _, eos, _ => 1
  | _, eosNl, _ => 1
  | _, unsupported, _ => 1
termination_by f r _ => (f, sizeOf r)

/-- fuel `s.length + 1` is enough for every visit, the leaf visit of `star` at the empty string included -/
def work (r : Re) (s : List Nat) : Nat := workF (s.length + 1) r s

/-- `re.match`: the first success, as the number of characters consumed -/
def matchLen (r : Re) (s : List Nat) : Option Nat := (runs r s).head?.map fun t => s.length - t.length

/-- `fullmatch`-style acceptance for patterns that end in an end anchor -/
def accepts (r : Re) (s : List Nat) : Bool := !(runs r s).isEmpty

end Re

/-- the cost claim of C18 for one pattern: the search tree is polynomially bounded in the input
    length, for every input -/
def PolyBounded (r : Re) (coef deg : Nat) : Prop := ∀ s : List Nat, Re.work r s ≤ coef * (s.length + 1) ^ deg

end Verif
