/-
Model of the text half of `_filter.py`: `__str__` of the ten filter classes
(`toText`) and `LDAPFilter.from_string` (`parseFilterText`).

A Python `str` is a list of Unicode scalar values (`List Nat`); its UTF-8 encoding is a byte
list.  `toText` returns the UTF-8 octets of `str(filter)`.  Offsets and lengths in errors
are the parser's own coordinates: byte offsets into the UTF-8 encoding of the stripped input.
-/
import Verif.Model.Msg

namespace Verif

/-! ### characters -/

def cSpace : Nat := 32
def cLParen : Nat := 40
def cRParen : Nat := 41
def cStar : Nat := 42
def cColon : Nat := 58
def cSemi : Nat := 59
def cLt : Nat := 60
def cEq : Nat := 61
def cGt : Nat := 62
def cBackslash : Nat := 92
def cTilde : Nat := 126
def cBang : Nat := 33
def cAmp : Nat := 38
def cPipe : Nat := 124
def cDot : Nat := 46
def cHyphen : Nat := 45
def cNewline : Nat := 10

def isAlpha (c : Nat) : Bool := (65 ≤ c && c ≤ 90) || (97 ≤ c && c ≤ 122)
def isDigit (c : Nat) : Bool := 48 ≤ c && c ≤ 57
def isKeyChar (c : Nat) : Bool := isAlpha c || isDigit c || c == cHyphen
def isHex (c : Nat) : Bool := isDigit c || (65 ≤ c && c ≤ 70) || (97 ≤ c && c ≤ 102)
def hexVal (c : Nat) : Nat := if isDigit c then c - 48 else if c ≤ 70 then c - 55 else c - 87
def hexDigitLower (n : Nat) : Nat := if n < 10 then 48 + n else 87 + n

/-! ### `str.encode("utf-8", errors="surrogateescape")`

A Python `str` is a list of code points: Unicode scalar values, and the lone surrogates
U+DC80…U+DCFF by which Python carries undecodable bytes in text (`surrogateescape`), which encode
back to the single byte 0x80…0xFF.  (Any other lone surrogate cannot be encoded at all —
`UnicodeEncodeError` before the parser starts — and is outside what the model calls text.) -/

def utf8EncodeChar (c : Nat) : Bytes :=
  if c < 128 then [c]
  else if 56448 ≤ c ∧ c ≤ 56575 then [c - 56320]
  else if c < 2048 then [192 + c / 64, 128 + c % 64]
  else if c < 65536 then [224 + c / 4096, 128 + c / 64 % 64, 128 + c % 64]
  else [240 + c / 262144, 128 + c / 4096 % 64, 128 + c / 64 % 64, 128 + c % 64]

def utf8Encode (s : List Nat) : Bytes := (s.map utf8EncodeChar).flatten

/-- `str.strip()`: whitespace per `str.isspace` (table regenerated from CPython) -/
def isSpaceCp (c : Nat) : Bool := Facts.spaceCodePoints.contains c
def pyStrip (s : List Nat) : List Nat := ((s.dropWhile isSpaceCp).reverse.dropWhile isSpaceCp).reverse

/-! ### `_ATTRIBUTE_PATTERN` as a scanner (membership in the pattern's language) -/

/-- `0|[1-9][0-9]*` at the head; returns the rest -/
def scanNumber : Bytes → Option Bytes
  | [] => none
  | c :: r => if c = 48 then some r else if 49 ≤ c ∧ c ≤ 57 then some (r.dropWhile isDigit) else none

/-- `(\.number)*` — greedy; a dot not followed by a number stops the repetition -/
def scanArcs : Nat → Bytes → Bytes
  | 0, bs => bs
  | fuel+1, bs =>
    match bs with
    | c :: r => if c = cDot then
        match scanNumber r with
        | some r' => scanArcs fuel r'
        | none => bs
      else bs
    | [] => []

/-- `(;[a-zA-Z0-9-]+)*\Z` -/
def scanOptions : Nat → Bytes → Bool
  | _, [] => true
  | 0, _ => false
  | fuel+1, c :: r =>
    if c = cSemi then
      let r' := r.dropWhile isKeyChar
      if r'.length < r.length then scanOptions fuel r' else false
    else false

/-- does the whole string match `_ATTRIBUTE_PATTERN`? -/
def validAttr (a : Bytes) : Bool :=
  match a with
  | [] => false
  | c :: r =>
    if isAlpha c then scanOptions a.length (r.dropWhile isKeyChar)
    else match scanNumber a with
      | some r' => scanOptions a.length (scanArcs a.length r')
      | none => false

/-! ### `__str__` -/

/-- `_serialize_filter_value` -/
def escapeValue (v : Bytes) : Bytes :=
  (v.map fun b => if Facts.escapedBytes.contains b then [cBackslash, hexDigitLower (b / 16), hexDigitLower (b % 16)] else [b]).flatten

def joinWith (sep : Bytes) : List Bytes → Bytes
  | [] => []
  | [x] => x
  | x :: xs => x ++ sep ++ joinWith sep xs

mutual
def toText : Filter → Bytes
  | .and fs => [cLParen, cAmp] ++ toTexts fs ++ [cRParen]
  | .or fs => [cLParen, cPipe] ++ toTexts fs ++ [cRParen]
  | .not f => [cLParen, cBang] ++ toText f ++ [cRParen]
  | .eq a v => [cLParen] ++ a ++ [cEq] ++ escapeValue v ++ [cRParen]
  | .substr a i any f =>
    [cLParen] ++ a ++ [cEq] ++
      joinWith [cStar] ([escapeValue (i.getD [])] ++ any.map escapeValue ++ [escapeValue (f.getD [])]) ++ [cRParen]
  | .ge a v => [cLParen] ++ a ++ [cGt, cEq] ++ escapeValue v ++ [cRParen]
  | .le a v => [cLParen] ++ a ++ [cLt, cEq] ++ escapeValue v ++ [cRParen]
  | .present a => [cLParen] ++ a ++ [cEq, cStar, cRParen]
  | .approx a v => [cLParen] ++ a ++ [cTilde, cEq] ++ escapeValue v ++ [cRParen]
  | .ext rule attr v dn =>
    [cLParen] ++ joinWith [cColon] ([attr.getD []] ++ (if dn then [[100, 110]] else []) ++ (match rule with | some r => [r] | none => []))
      ++ [cColon, cEq] ++ escapeValue v ++ [cRParen]
  | .custom _ => []    -- the custom filter type defines no text form
def toTexts : List Filter → Bytes
  | [] => []
  | f :: fs => toText f ++ toTexts fs
end

/-! ### `from_string` -/

inductive FErr where
  | syntax (off len : Nat)   -- FilterSyntaxError(offset, length)
  | recursion                -- RecursionError inside the descent (converted by `from_string`)
  | fuel                     -- a scan loop ran out of fuel (never happens: fuel = slice length)
  deriving DecidableEq, Repr, Inhabited

/-- `_unpack_filter_value`: `\HH` escapes; `none` = ValueError from the replacement callback -/
def unescape : Nat → Bytes → Option Bytes
  | _, [] => some []
  | 0, _ => none
  | fuel+1, b :: r =>
    if b = cBackslash then
      -- `\\.{,2}`: up to two following bytes, none of them a newline
      match r with
      | h1 :: h2 :: r' =>
        if h1 ≠ cNewline ∧ h2 ≠ cNewline ∧ isHex h1 ∧ isHex h2 then
          (unescape fuel r').map (fun t => (hexVal h1 * 16 + hexVal h2) :: t)
        else none
      | _ => none
    else (unescape fuel r).map (fun t => b :: t)

def splitOn (sep : Nat) : Bytes → List Bytes
  | [] => [[]]
  | b :: r =>
    match splitOn sep r with
    | [] => [[]]     -- unreachable
    | x :: xs => if b = sep then [] :: x :: xs else (b :: x) :: xs

def lowerAscii (c : Nat) : Nat := if 65 ≤ c ∧ c ≤ 90 then c + 32 else c

/-- `_unpack_filter_extensible_header`; `none` = FilterSyntaxError(offset, length) -/
def extHeader (header : Bytes) : Option (Option Bytes × Bool × Option Bytes) :=
  match splitOn cColon header with
  | [] => none
  | h0 :: rest =>
    let attrOk := h0.isEmpty || validAttr h0
    if !attrOk then none else
    let attr := if h0.isEmpty then none else some h0
    let (dn, rest1) := match rest with
      | d :: r => if d.map lowerAscii = [100, 110] then (true, r) else (false, rest)
      | [] => (false, rest)
    match rest1 with
    | [] => some (attr, dn, none)
    | [r] => if validAttr r then some (attr, dn, some r) else none
    | r :: _ :: _ => if validAttr r then none /- extra data -/ else none

/-- `_unpack_filter_substrings_value` on the raw (still escaped) value -/
def substringsValue (raw : Bytes) : Option (Option Bytes × List Bytes × Option Bytes) :=
  match splitOn cStar raw with
  | [] | [_] => none    -- unreachable: raw contains '*'
  | first :: rest =>
    let last := rest.getLast!
    let mids := rest.dropLast
    let unesc (v : Bytes) := unescape (v.length + 1) v
    let f := if first.isEmpty then some none else (unesc first).map some
    let l := if last.isEmpty then some none else (unesc last).map some
    let ms := mids.foldr (fun v acc =>
      match acc with
      | none => none
      | some l => if v.isEmpty then none else (unesc v).map (· :: l)) (some [])
    -- Python processes the parts in order and raises at the first failure; every failure is
    -- the same FilterSyntaxError(offset, length), so the order is not observable
    match f, ms, l with
    | some f, some ms, some l => some (f, ms, l)
    | _, _, _ => none

/-- index of the first occurrence -/
def indexOf (c : Nat) : Bytes → Option Nat
  | [] => none
  | b :: r => if b = c then some 0 else (indexOf c r).map (· + 1)

/-- `_unpack_simple_filter` on the slice `cur` that starts at absolute byte offset `off`;
    returns the filter and the number of bytes read -/
def unpackSimple (cur : Bytes) (off : Nat) : Except FErr (Filter × Nat) :=
  let len := cur.length
  match indexOf cEq cur with
  | none => .error (.syntax off len)
  | some 0 => .error (.syntax off 1)
  | some eq =>
    if eq = len - 1 then .error (.syntax off len) else
    let ft := cur.getD (eq - 1) 0
    let typed := ft = cColon ∨ ft = cGt ∨ ft = cLt ∨ ft = cTilde
    if typed ∧ eq = 1 then .error (.syntax off len) else
    let attrEnd := if typed then eq - 1 else eq
    let attrib := cur.take attrEnd
    if ft ≠ cColon ∧ !validAttr attrib then .error (.syntax off attrEnd) else
    let read := eq + 1
    let tail := cur.drop read
    let valueLen := match indexOf cRParen tail with | some i => i | none => tail.length
    let raw := tail.take valueLen
    let read' := read + valueLen
    let bad : Except FErr (Filter × Nat) := .error (.syntax (off + read) valueLen)
    if typed ∨ !raw.contains cStar then
      match unescape (raw.length + 1) raw with
      | none => bad
      | some v =>
        if ft = cColon then
          match extHeader attrib with
          | none => .error (.syntax off attrEnd)
          | some (attr, dn, rule) => .ok (.ext rule attr v dn, read')
        else if ft = cGt then .ok (.ge attrib v, read')
        else if ft = cLt then .ok (.le attrib v, read')
        else if ft = cTilde then .ok (.approx attrib v, read')
        else .ok (.eq attrib v, read')
    else if raw = [cStar] then .ok (.present attrib, read')
    else
      match substringsValue raw with
      | none => bad
      | some (i, any, f) => .ok (.substr attrib i any f, read')

structure FLoop where
  read : Nat
  parens : Option Nat
  parsed : Option Filter

/-- the `while read < len(current_view)` loop of `_unpack_complex_filter`; `uf` is
    `_unpack_filter` at the next nesting level -/
def complexLoop (uf : Bytes → Nat → Except FErr (Filter × Nat)) (cur : Bytes) (off : Nat) :
    Nat → Nat → List Filter → Except FErr (List Filter × Nat)
  | 0, read, fs => if read ≥ cur.length then .ok (fs, read) else .error .fuel
  | fuel+1, read, fs =>
    if read ≥ cur.length then .ok (fs, read) else
    let c := cur.getD read 0
    if c = cSpace then complexLoop uf cur off fuel (read + 1) fs
    else if c = cLParen then
      if cur.getD 0 0 = cBang ∧ !fs.isEmpty then .error (.syntax off cur.length)
      else
        match uf ((cur.drop read).take (cur.length - read - 1)) (off + read) with
        | .error e => .error e
        | .ok (f, n) => complexLoop uf cur off fuel (read + n) (fs ++ [f])
    else if c = cRParen then .ok (fs, read)
    else .error (.syntax (off + read) 1)

/-- `_unpack_complex_filter` on the slice starting with `! & |` -/
def unpackComplex (uf : Bytes → Nat → Except FErr (Filter × Nat)) (cur : Bytes) (off : Nat) :
    Except FErr (Filter × Nat) :=
  match complexLoop uf cur off cur.length 1 [] with
  | .error e => .error e
  | .ok (fs, read) =>
    match fs with
    | [] => .error (.syntax off cur.length)
    | f0 :: _ =>
      let t := cur.getD 0 0
      if t = cBang then .ok (.not f0, read)
      else if t = cAmp then .ok (.and fs, read)
      else .ok (.or fs, read)

/-- the `while read < len(current_view)` loop of `_unpack_filter` -/
def filterLoop (uf : Bytes → Nat → Except FErr (Filter × Nat)) (cur : Bytes) (off : Nat) :
    Nat → FLoop → Except FErr FLoop
  | 0, st => if st.read ≥ cur.length then .ok st else .error .fuel
  | fuel+1, st =>
    if st.read ≥ cur.length then .ok st else
    let c := cur.getD st.read 0
    if c = cSpace then filterLoop uf cur off fuel { st with read := st.read + 1 }
    else if c = cRParen then
      match st.parens with
      | none => .error (.syntax (off + st.read) 1)
      | some _ => .ok { st with parens := none, read := st.read + 1 }
    else if st.parens.isSome then
      if c = cLParen then .error (.syntax (off + st.read) 1)
      else
        let sub := cur.drop st.read
        let r := if c = cBang ∨ c = cAmp ∨ c = cPipe then unpackComplex uf sub (off + st.read)
                 else unpackSimple sub (off + st.read)
        match r with
        | .error e => .error e
        | .ok (f, n) => filterLoop uf cur off fuel { st with parsed := some f, read := st.read + n }
    else if c = cLParen then filterLoop uf cur off fuel { st with parens := some st.read, read := st.read + 1 }
    else
      match unpackSimple (cur.drop st.read) (off + st.read) with
      | .error e => .error e
      | .ok (f, n) => .ok { st with parsed := some f, read := st.read + n }

/-- `_unpack_filter`; `depth` = remaining nesting budget (Python recursion limit) -/
def unpackFilter : Nat → Bytes → Nat → Except FErr (Filter × Nat)
  | 0, _, _ => .error .recursion
  | depth+1, cur, off =>
    match filterLoop (unpackFilter depth) cur off cur.length ⟨0, none, none⟩ with
    | .error e => .error e
    | .ok st =>
      match st.parens with
      | some p => .error (.syntax (off + p) (cur.length - p))
      | none =>
        match st.parsed with
        | none => .error (.syntax off cur.length)
        | some f => .ok (f, st.read)

/-- `LDAPFilter.from_string` on a string given as its scalar values -/
def parseFilterText (depth : Nat) (s : List Nat) : Except FErr Filter :=
  let b := utf8Encode (pyStrip s)
  match unpackFilter depth b 0 with
  | .error .recursion => .error (.syntax 0 b.length)
  | .error e => .error e
  | .ok (f, consumed) =>
    if consumed < b.length then .error (.syntax consumed (b.length - consumed)) else .ok f

end Verif
