/-
Cost model of the hand-written filter string parser (`_filter.py`: `_unpack_filter`,
`_unpack_complex_filter`, `_unpack_simple_filter`): the same recursive descent as
`Model/FilterText.lean`, additionally COUNTING the calls of these three functions.

The count is an observable of the implementation (the harness counts the same calls with
`sys.setprofile` while `LDAPFilter.from_string` runs) and is compared exactly; each call does
work linear in the length of the slice it is given (single left-to-right scans for `=`, `)`,
`*`, `\`), so a linear bound on the number of calls is a quadratic bound on the parser's
steps — in particular no family of inputs makes the work double with each added character.

`Props/C18.lean`: the counting parser returns the same result as the model parser, and its
call count is at most linear in the input length, for every input, valid or not.
-/
import Verif.Model.FilterText

namespace Verif.FilterCost
open Verif

abbrev R := Except FErr (Filter × Nat)

/-- `_unpack_complex_filter`'s loop; the second component counts the calls made inside -/
def complexLoopC (uf : Bytes → Nat → R × Nat) (cur : Bytes) (off : Nat) :
    Nat → Nat → List Filter → Nat → Except FErr (List Filter × Nat) × Nat
  | 0, read, fs, k => (if read ≥ cur.length then .ok (fs, read) else .error .fuel, k)
  | fuel+1, read, fs, k =>
    if read ≥ cur.length then (.ok (fs, read), k) else
    let c := cur.getD read 0
    if c = cSpace then complexLoopC uf cur off fuel (read + 1) fs k
    else if c = cLParen then
      if cur.getD 0 0 = cBang ∧ !fs.isEmpty then (.error (.syntax off cur.length), k)
      else
        match uf ((cur.drop read).take (cur.length - read - 1)) (off + read) with
        | (.error e, n) => (.error e, k + n)
        | (.ok (f, m), n) => complexLoopC uf cur off fuel (read + m) (fs ++ [f]) (k + n)
    else if c = cRParen then (.ok (fs, read), k)
    else (.error (.syntax (off + read) 1), k)

/-- `_unpack_complex_filter`: one call, plus the calls of its loop -/
def unpackComplexC (uf : Bytes → Nat → R × Nat) (cur : Bytes) (off : Nat) : R × Nat :=
  match complexLoopC uf cur off cur.length 1 [] 1 with
  | (.error e, k) => (.error e, k)
  | (.ok (fs, read), k) =>
    match fs with
    | [] => (.error (.syntax off cur.length), k)
    | f0 :: _ =>
      let t := cur.getD 0 0
      if t = cBang then (.ok (.not f0, read), k)
      else if t = cAmp then (.ok (.and fs, read), k)
      else (.ok (.or fs, read), k)

/-- `_unpack_filter`'s loop -/
def filterLoopC (uf : Bytes → Nat → R × Nat) (cur : Bytes) (off : Nat) :
    Nat → FLoop → Nat → Except FErr FLoop × Nat
  | 0, st, k => (if st.read ≥ cur.length then .ok st else .error .fuel, k)
  | fuel+1, st, k =>
    if st.read ≥ cur.length then (.ok st, k) else
    let c := cur.getD st.read 0
    if c = cSpace then filterLoopC uf cur off fuel { st with read := st.read + 1 } k
    else if c = cRParen then
      match st.parens with
      | none => (.error (.syntax (off + st.read) 1), k)
      | some _ => (.ok { st with parens := none, read := st.read + 1 }, k)
    else if st.parens.isSome then
      if c = cLParen then (.error (.syntax (off + st.read) 1), k)
      else
        let sub := cur.drop st.read
        let r : R × Nat := if c = cBang ∨ c = cAmp ∨ c = cPipe then unpackComplexC uf sub (off + st.read)
                 else (unpackSimple sub (off + st.read), 1)
        match r with
        | (.error e, n) => (.error e, k + n)
        | (.ok (f, m), n) => filterLoopC uf cur off fuel { st with parsed := some f, read := st.read + m } (k + n)
    else if c = cLParen then filterLoopC uf cur off fuel { st with parens := some st.read, read := st.read + 1 } k
    else
      match unpackSimple (cur.drop st.read) (off + st.read) with
      | .error e => (.error e, k + 1)
      | .ok (f, m) => (.ok { st with parsed := some f, read := st.read + m }, k + 1)

/-- `_unpack_filter`: one call, plus the calls of its loop -/
def unpackFilterC : Nat → Bytes → Nat → R × Nat
  | 0, _, _ => (.error .recursion, 1)
  | depth+1, cur, off =>
    match filterLoopC (unpackFilterC depth) cur off cur.length ⟨0, none, none⟩ 1 with
    | (.error e, k) => (.error e, k)
    | (.ok st, k) =>
      match st.parens with
      | some p => (.error (.syntax (off + p) (cur.length - p)), k)
      | none =>
        match st.parsed with
        | none => (.error (.syntax off cur.length), k)
        | some f => (.ok (f, st.read), k)

/-- `LDAPFilter.from_string` with the number of parser-function calls it makes -/
def parseFilterTextC (depth : Nat) (s : List Nat) : Except FErr Filter × Nat :=
  let b := utf8Encode (pyStrip s)
  match unpackFilterC depth b 0 with
  | (.error .recursion, k) => (.error (.syntax 0 b.length), k)
  | (.error e, k) => (.error e, k)
  | (.ok (f, consumed), k) =>
    (if consumed < b.length then .error (.syntax consumed (b.length - consumed)) else .ok f, k)

end Verif.FilterCost
