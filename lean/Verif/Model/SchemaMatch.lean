/-
The `PATTERN.match(value)` step of the three `from_string` functions on its own: the text of
every named group the library reads afterwards (`m.group("oid")`, …), as the deterministic
scanner of `Model/Schema.lean` computes them.  `parseOC` / `parseAT` / `parseDCR` are exactly
these followed by the post-processing (`Props/TiesSchema.lean`: `parseOC_eq_match` …), and the
group texts are exactly what the translated regular expression captures
(`Props/TiesSchema.lean`: `oc_match_eq_pattern` …).
-/
import Verif.Model.Schema

namespace Verif.Schema

/-- named groups of `OBJECT_CLASS_DESCRIPTION` (`none` = the group did not participate) -/
structure OCGroups where
  oid : Option Str
  name : Option Str
  desc : Option Str
  obsolete : Bool
  sup : Option Str
  kind : Option Str
  must : Option Str
  may : Option Str
  extensions : Option Str
  deriving DecidableEq, Repr, Inhabited

structure ATGroups where
  oid : Option Str
  name : Option Str
  desc : Option Str
  obsolete : Bool
  sup : Option Str
  equality : Option Str
  ordering : Option Str
  substr : Option Str
  syn : Option Str
  singleValue : Bool
  collective : Bool
  noUserMod : Bool
  usage : Option Str
  extensions : Option Str
  deriving DecidableEq, Repr, Inhabited

structure DCRGroups where
  oid : Option Str
  name : Option Str
  desc : Option Str
  obsolete : Bool
  aux : Option Str
  must : Option Str
  may : Option Str
  never : Option Str
  extensions : Option Str
  deriving DecidableEq, Repr, Inhabited

def usageBody (t : Str) : Option Str :=
  (["userApplications", "directoryOperation", "distributedOperation", "dSAOperation"].find?
    (fun a => (ofString a).isPrefixOf t)).map (fun a => t.drop a.length)

def matchOC (s : Str) : Option OCGroups :=
  match head s with
  | none => none
  | some (oidT, r0) =>
    let (names, r1) := optKw "NAME" (itemOrList qdescr) r0
    let (desc, r2) := optKw "DESC" qdstring r1
    let (obs, r3) := optFlag "OBSOLETE" r2
    let (sup, r4) := optKw "SUP" oids r3
    let (kind, r5) := optWord ["ABSTRACT", "STRUCTURAL", "AUXILIARY"] r4
    let (must, r6) := optKw "MUST" oids r5
    let (may, r7) := optKw "MAY" oids r6
    match tail r7 with
    | none => none
    | some extT =>
      some { oid := some oidT, name := names, desc := desc, obsolete := obs, sup := sup, kind := kind,
             must := must, may := may, extensions := some extT }

def matchAT (s : Str) : Option ATGroups :=
  match head s with
  | none => none
  | some (oidT, r0) =>
    let (names, r1) := optKw "NAME" (itemOrList qdescr) r0
    let (desc, r2) := optKw "DESC" qdstring r1
    let (obs, r3) := optFlag "OBSOLETE" r2
    let (sup, r4) := optKw "SUP" oid r3
    let (eq, r5) := optKw "EQUALITY" oid r4
    let (ord, r6) := optKw "ORDERING" oid r5
    let (sub, r7) := optKw "SUBSTR" oid r6
    let (syn, r8) := optKw "SYNTAX" syntaxBody r7
    let (sv, r9) := optFlag "SINGLE-VALUE" r8
    let (col, r10) := optFlag "COLLECTIVE" r9
    let (num, r11) := optFlag "NO-USER-MODIFICATION" r10
    let (usage, r12) := optKw "USAGE" usageBody r11
    match tail r12 with
    | none => none
    | some extT =>
      some { oid := some oidT, name := names, desc := desc, obsolete := obs, sup := sup, equality := eq,
             ordering := ord, substr := sub, syn := syn, singleValue := sv, collective := col,
             noUserMod := num, usage := usage, extensions := some extT }

def matchDCR (s : Str) : Option DCRGroups :=
  match head s with
  | none => none
  | some (oidT, r0) =>
    let (names, r1) := optKw "NAME" (itemOrList qdescr) r0
    let (desc, r2) := optKw "DESC" qdstring r1
    let (obs, r3) := optFlag "OBSOLETE" r2
    let (aux, r4) := optKw "AUX" oids r3
    let (must, r5) := optKw "MUST" oids r4
    let (may, r6) := optKw "MAY" oids r5
    let (never, r7) := optKw "NOT" oids r6
    match tail r7 with
    | none => none
    | some extT =>
      some { oid := some oidT, name := names, desc := desc, obsolete := obs, aux := aux, must := must,
             may := may, never := never, extensions := some extT }

/-! ### the post-processing of `from_string`, applied to the group texts -/

def postOC (g : OCGroups) : Except PErr ObjectClass :=
  match parseExts (g.extensions.getD []) with
  | none => .error .valueError
  | some exts =>
    let k := if g.kind = some (ofString "ABSTRACT") then 0 else if g.kind = some (ofString "AUXILIARY") then 2 else 1
    .ok { oid := g.oid.getD [], names := parseNames g.name, desc := g.desc.map parseQd, obsolete := g.obsolete,
          sup := parseOids g.sup, kind := k, must := parseOids g.must, may := parseOids g.may, exts := exts }

def postAT (g : ATGroups) : Except PErr AttributeType :=
  match parseExts (g.extensions.getD []) with
  | none => .error .valueError
  | some exts =>
    let (synV, slen) : Option Str × Option Nat :=
      match g.syn with
      | none => (none, none)
      | some raw =>
        if raw.isEmpty then (none, none) else
        let st := stripChars [QUOTE] raw
        match noidlenMatch st with
        | some (v, l) => (some (stripChars [QUOTE] v), some (digitsVal l))
        | none => (if st.isEmpty then none else some (stripChars [QUOTE] st), none)
    let u := if g.usage = some (ofString "directoryOperation") then 1
             else if g.usage = some (ofString "distributedOperation") then 2
             else if g.usage = some (ofString "dSAOperation") then 3 else 0
    .ok { oid := g.oid.getD [], names := parseNames g.name, desc := g.desc.map parseQd, obsolete := g.obsolete,
          sup := g.sup, equality := g.equality, ordering := g.ordering, substr := g.substr, syn := synV, synLen := slen,
          singleValue := g.singleValue, collective := g.collective, noUserMod := g.noUserMod, usage := u, exts := exts }

def postDCR (g : DCRGroups) : Except PErr DITContentRule :=
  match parseExts (g.extensions.getD []) with
  | none => .error .valueError
  | some exts =>
    .ok { oid := g.oid.getD [], names := parseNames g.name, desc := g.desc.map parseQd, obsolete := g.obsolete,
          aux := parseOids g.aux, must := parseOids g.must, may := parseOids g.may, never := parseOids g.never, exts := exts }

end Verif.Schema
