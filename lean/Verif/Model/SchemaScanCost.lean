/-
Steps of the deterministic scanner of `Model/Schema.lean` — the model's stand-in for
`PATTERN.match(value)` — one step per code point inspected (a comparison with a literal keyword
is charged the length of the keyword; looking at the end of the text is one step).

Python does NOT run this scanner: `from_string` runs the backtracking matcher, which
`Model/SchemaCost.lean` charges `K·(n+1)³` (the proved bound).  The count below is therefore not
part of `parseOCS` / `parseATS` / `parseDCRS`.  It answers a different question: what the match
costs when nothing is ever given back (the scanner accepts the same texts with the same groups,
`Props/TiesSchema.lean`), i.e. how far the cubic charge is above what the grammar needs.

Every function `f` of the scanner has a twin `fS` that returns `f`'s result together with the
steps; the result component is `f` itself, so "same result" holds by definition (`rfl`,
`scan_same_result` in Props/C18Schema.lean), and the step component follows `f`'s control flow
case by case (it branches on the same tests and on `f`'s own intermediate results).

STATUS: definitions and evaluations only.  The evaluations at the end show LINEAR growth on every
family (about 1 to 3 steps per code point).  The theorem

    scan_steps_linear_partial :  ∀ s, (matchOCS s).2 ≤ c·(s.length + 1)      (same for AT, DCR)

is NOT proved.  What is missing: the amortisation over the four loops (`arcs`, `spItems`,
`dollarItems`, `extensions`) — an iteration that succeeds may have looked beyond what it consumed
(`1.2.03`: the arc `.03` is scanned and refused; `'a' 'b' 'cc…` inside a list), and one has to show
that such an over-scan ends the enclosing loop, so that it is paid once.
-/
import Verif.Model.SchemaMatch

namespace Verif.SchemaCost
open Verif Verif.Schema

abbrev Scan := Str → Option Str
abbrev Cost := Str → Nat

/-- `[ ]*`: the spaces skipped and the code point that stops the run -/
def wspC (s : Str) : Nat := s.length - (wsp s).length + 1

def sp1C (s : Str) : Nat :=
  match s with
  | c :: r => if c = SPC then 1 + wspC r else 1
  | [] => 1

def litC (w : Str) (_ : Str) : Nat := w.length

/-- NUMBER: the digit run and the code point that stops it -/
def numberC (s : Str) : Nat := (s.takeWhile isDigit).length + 1

def arcsC : Nat → Str → Nat
  | 0, _ => 0
  | fuel+1, s =>
    match s with
    | c :: r => if c = DOT then
        match number r with
        | some r' => 1 + numberC r + arcsC fuel r'
        | none => 1 + numberC r
      else 1
    | [] => 1

def numericoidC (s : Str) : Nat :=
  numberC s + match number s with
    | none => 0
    | some r => arcsC s.length r

def descrC (s : Str) : Nat :=
  match s with
  | c :: r => if isAlpha c then 1 + (r.length - (r.dropWhile isKeyChar).length + 1) else 1
  | [] => 1

def oidC (s : Str) : Nat :=
  descrC s + match descr s with
    | some _ => 0
    | none => numericoidC s

def qdescrC (s : Str) : Nat :=
  match s with
  | c :: r => if c = QUOTE then 1 + descrC r + 1 else 1
  | [] => 1

def spItemsC (item : Scan) (itemC : Cost) : Nat → Str → Nat
  | 0, _ => 0
  | fuel+1, s =>
    sp1C s + match sp1 s with
      | none => 0
      | some r =>
        itemC r + match item r with
          | some r' => spItemsC item itemC fuel r'
          | none => 0

def itemOrListC (item : Scan) (itemC : Cost) (s : Str) : Nat :=
  match s with
  | c :: r =>
    if c = LP then
      1 + wspC r + itemC (wsp r) +
        (match item (wsp r) with
          | some r' => spItemsC item itemC s.length r' + wspC (spItems item s.length r')
          | none => 0) + 1
    else 1 + itemC s
  | [] => 1

def dollarItemsC : Nat → Str → Nat
  | 0, _ => 0
  | fuel+1, s =>
    wspC s + match wsp s with
      | c :: r => if c = DOLLAR then
          1 + wspC r + oidC (wsp r) + match oid (wsp r) with
            | some r' => dollarItemsC fuel r'
            | none => 0
        else 1
      | [] => 1

def oidsC (s : Str) : Nat :=
  match s with
  | c :: r =>
    if c = LP then
      1 + wspC r + oidC (wsp r) + match oid (wsp r) with
        | none => 0
        | some r1 => dollarItemsC s.length r1 + wspC (dollarItems s.length r1) + 1
    else 1 + oidC s
  | [] => 1

def dstringItemsC : Nat → Str → Nat
  | 0, _ => 0
  | fuel+1, s =>
    match s with
    | [] => 1
    | c :: r =>
      if c = QUOTE then 1
      else if c = BSLASH then
        match r with
        | a :: b :: r' =>
          if (a = 53 ∧ (b = 67 ∨ b = 99)) ∨ (a = 50 ∧ b = 55) then 3 + dstringItemsC fuel r' else 3
        | _ => 3
      else 1 + dstringItemsC fuel r

def qdstringC (s : Str) : Nat :=
  match s with
  | c :: r => if c = QUOTE then 1 + dstringItemsC r.length r + 1 else 1
  | [] => 1

def xstringC (s : Str) : Nat :=
  match s with
  | c :: d :: r =>
    if (c = 120 ∨ c = 88) ∧ d = HYPHEN then
      2 + (r.length - (r.dropWhile (fun x => isAlpha x || x == HYPHEN || x == USCORE)).length + 1)
    else 2
  | _ => 2

/-- one iteration of EXTENSIONS: `SP XSTRING SP QDSTRINGS`, each part charged when it is reached -/
def extensionC (s : Str) : Nat :=
  sp1C s + match sp1 s with
    | none => 0
    | some r1 =>
      xstringC r1 + match xstring r1 with
        | none => 0
        | some r2 =>
          sp1C r2 + match sp1 r2 with
            | none => 0
            | some r3 => itemOrListC qdstring qdstringC r3

def extensionsC : Nat → Str → Nat
  | 0, _ => 0
  | fuel+1, s =>
    extensionC s +
      match (sp1 s).bind xstring |>.bind sp1 |>.bind (itemOrList qdstring) with
      | some r => extensionsC fuel r
      | none => 0

def optKwC (kw : String) (_body : Scan) (bodyC : Cost) (s : Str) : Nat :=
  sp1C s + match sp1 s with
    | none => 0
    | some r1 =>
      litC (ofString kw) r1 + match lit (ofString kw) r1 with
        | none => 0
        | some r2 =>
          sp1C r2 + match sp1 r2 with
            | none => 0
            | some r3 => bodyC r3

def optFlagC (kw : String) (s : Str) : Nat :=
  sp1C s + match sp1 s with
    | none => 0
    | some r1 => litC (ofString kw) r1

def optWordC (alts : List String) (s : Str) : Nat :=
  sp1C s + match sp1 s with
    | none => 0
    | some _ => (alts.map String.length).sum

def tailC (s : Str) : Nat :=
  extensionsC s.length s + wspC (extensions s.length s) + 1

def headC (s : Str) : Nat :=
  match s with
  | c :: r => if c = LP then 1 + wspC r + numericoidC (wsp r) else 1
  | [] => 1

def noidlenC (s : Str) : Nat :=
  numericoidC s + match numericoid s with
    | none => 0
    | some r =>
      match r with
      | c :: r1 => if c = LCURLY then 1 + numberC r1 + 1 else 1
      | [] => 1

def syntaxBodyC (s : Str) : Nat :=
  noidlenC s + match noidlen s with
    | some _ => 0
    | none => qdstringC s

def usageBodyC (_ : Str) : Nat :=
  (["userApplications", "directoryOperation", "distributedOperation", "dSAOperation"].map String.length).sum

/-! ### the three matches, with their steps -/

def matchOCC (s : Str) : Nat :=
  headC s + match head s with
    | none => 0
    | some (_, r0) =>
      let r1 := (optKw "NAME" (itemOrList qdescr) r0).2
      let r2 := (optKw "DESC" qdstring r1).2
      let r3 := (optFlag "OBSOLETE" r2).2
      let r4 := (optKw "SUP" oids r3).2
      let r5 := (optWord ["ABSTRACT", "STRUCTURAL", "AUXILIARY"] r4).2
      let r6 := (optKw "MUST" oids r5).2
      let r7 := (optKw "MAY" oids r6).2
      optKwC "NAME" (itemOrList qdescr) (itemOrListC qdescr qdescrC) r0 + optKwC "DESC" qdstring qdstringC r1
        + optFlagC "OBSOLETE" r2 + optKwC "SUP" oids oidsC r3
        + optWordC ["ABSTRACT", "STRUCTURAL", "AUXILIARY"] r4 + optKwC "MUST" oids oidsC r5
        + optKwC "MAY" oids oidsC r6 + tailC r7

def matchATC (s : Str) : Nat :=
  headC s + match head s with
    | none => 0
    | some (_, r0) =>
      let r1 := (optKw "NAME" (itemOrList qdescr) r0).2
      let r2 := (optKw "DESC" qdstring r1).2
      let r3 := (optFlag "OBSOLETE" r2).2
      let r4 := (optKw "SUP" oid r3).2
      let r5 := (optKw "EQUALITY" oid r4).2
      let r6 := (optKw "ORDERING" oid r5).2
      let r7 := (optKw "SUBSTR" oid r6).2
      let r8 := (optKw "SYNTAX" syntaxBody r7).2
      let r9 := (optFlag "SINGLE-VALUE" r8).2
      let r10 := (optFlag "COLLECTIVE" r9).2
      let r11 := (optFlag "NO-USER-MODIFICATION" r10).2
      let r12 := (optKw "USAGE" usageBody r11).2
      optKwC "NAME" (itemOrList qdescr) (itemOrListC qdescr qdescrC) r0 + optKwC "DESC" qdstring qdstringC r1
        + optFlagC "OBSOLETE" r2 + optKwC "SUP" oid oidC r3 + optKwC "EQUALITY" oid oidC r4
        + optKwC "ORDERING" oid oidC r5 + optKwC "SUBSTR" oid oidC r6
        + optKwC "SYNTAX" syntaxBody syntaxBodyC r7 + optFlagC "SINGLE-VALUE" r8 + optFlagC "COLLECTIVE" r9
        + optFlagC "NO-USER-MODIFICATION" r10 + optKwC "USAGE" usageBody usageBodyC r11 + tailC r12

def matchDCRC (s : Str) : Nat :=
  headC s + match head s with
    | none => 0
    | some (_, r0) =>
      let r1 := (optKw "NAME" (itemOrList qdescr) r0).2
      let r2 := (optKw "DESC" qdstring r1).2
      let r3 := (optFlag "OBSOLETE" r2).2
      let r4 := (optKw "AUX" oids r3).2
      let r5 := (optKw "MUST" oids r4).2
      let r6 := (optKw "MAY" oids r5).2
      let r7 := (optKw "NOT" oids r6).2
      optKwC "NAME" (itemOrList qdescr) (itemOrListC qdescr qdescrC) r0 + optKwC "DESC" qdstring qdstringC r1
        + optFlagC "OBSOLETE" r2 + optKwC "AUX" oids oidsC r3 + optKwC "MUST" oids oidsC r4
        + optKwC "MAY" oids oidsC r5 + optKwC "NOT" oids oidsC r6 + tailC r7

/-- the scanner's result with the steps of the scan -/
def matchOCS (s : Str) : Option OCGroups × Nat := (matchOC s, matchOCC s)
def matchATS (s : Str) : Option ATGroups × Nat := (matchAT s, matchATC s)
def matchDCRS (s : Str) : Option DCRGroups × Nat := (matchDCR s, matchDCRC s)

end Verif.SchemaCost
