/-
Model of `schema.py`: `__str__` (`ocToText`, `atToText`, `dcrToText`) and `from_string`
(`parseOC`, `parseAT`, `parseDCR`) of the three description classes.

A Python `str` is a list of code points (`Str`).  `re.match(PATTERN, value)` is modelled by a
deterministic scanner that returns the text of each named group (the translated patterns in
`Generated/Regexes.lean` are cross-checked against it on generated inputs by the driver);
the post-processing (`strip`, `split`, `_parse_oids`, `_parse_qdstring`, `_parse_extensions`)
is modelled textually, quirks included.
-/
import Verif.Model.Ber

namespace Verif.Schema

abbrev Str := List Nat

def ofString (s : String) : Str := s.toList.map Char.toNat

def SPC : Nat := 32
def QUOTE : Nat := 39
def BSLASH : Nat := 92
def LP : Nat := 40
def RP : Nat := 41
def DOLLAR : Nat := 36
def DOT : Nat := 46
def LCURLY : Nat := 123
def RCURLY : Nat := 125
def HYPHEN : Nat := 45
def USCORE : Nat := 95

def isAlpha (c : Nat) : Bool := (65 ≤ c && c ≤ 90) || (97 ≤ c && c ≤ 122)
def isDigit (c : Nat) : Bool := 48 ≤ c && c ≤ 57
def isKeyChar (c : Nat) : Bool := isAlpha c || isDigit c || c == HYPHEN

/-! ### text helpers (Python str methods) -/

/-- `s.strip(chars)` -/
def stripChars (chars : List Nat) (s : Str) : Str :=
  ((s.dropWhile chars.contains).reverse.dropWhile chars.contains).reverse

/-- `s.lstrip(" ")` -/
def lstripSp (s : Str) : Str := s.dropWhile (· == SPC)

/-- `s.split(sep)` for a one-character separator -/
def splitOn (sep : Nat) : Str → List Str
  | [] => [[]]
  | c :: r =>
    match splitOn sep r with
    | [] => [[]]
    | x :: xs => if c = sep then [] :: x :: xs else (c :: x) :: xs

/-- `s.split(sep, 1)`: `none` when the separator does not occur (Python then returns one item) -/
def split1 (sep : Nat) : Str → Option (Str × Str)
  | [] => none
  | c :: r => if c = sep then some ([], r) else (split1 sep r).map fun (a, b) => (c :: a, b)

def joinWith (sep : Str) : List Str → Str
  | [] => []
  | [x] => x
  | x :: xs => x ++ sep ++ joinWith sep xs

def startsWith (p s : Str) : Bool := p.isPrefixOf s

/-- decimal digits of a natural number (`str(n)`) -/
def natDigits (n : Nat) : Str := (toString n).toList.map Char.toNat

/-- `int(text)` for a digit string -/
def digitsVal (d : Str) : Nat := d.foldl (fun acc c => acc * 10 + (c - 48)) 0

/-! ### definitions -/

structure ObjectClass where
  oid : Str
  names : List Str := []
  desc : Option Str := none
  obsolete : Bool := false
  sup : List Str := []
  kind : Nat := 1            -- 0 ABSTRACT, 1 STRUCTURAL, 2 AUXILIARY
  must : List Str := []
  may : List Str := []
  exts : List (Str × List Str) := []   -- dict in insertion order, keys unique
  deriving DecidableEq, Repr, Inhabited

structure AttributeType where
  oid : Str
  names : List Str := []
  desc : Option Str := none
  obsolete : Bool := false
  sup : Option Str := none
  equality : Option Str := none
  ordering : Option Str := none
  substr : Option Str := none
  syn : Option Str := none
  synLen : Option Nat := none
  singleValue : Bool := false
  collective : Bool := false
  noUserMod : Bool := false
  usage : Nat := 0           -- 0 userApplications, 1 directoryOperation, 2 distributedOperation, 3 dSAOperation
  exts : List (Str × List Str) := []
  deriving DecidableEq, Repr, Inhabited

structure DITContentRule where
  oid : Str
  names : List Str := []
  desc : Option Str := none
  obsolete : Bool := false
  aux : List Str := []
  must : List Str := []
  may : List Str := []
  never : List Str := []
  exts : List (Str × List Str) := []
  deriving DecidableEq, Repr, Inhabited

/-! ### `__str__` -/

def hex2 (n : Nat) : Str :=
  let d (k : Nat) : Nat := if k < 10 then 48 + k else 87 + k
  [d (n / 16 % 16), d (n % 16)]

/-- `_encode_qdstring`: `\` and `'` become `\5c`, `\27` -/
def encodeQd (v : Str) : Str :=
  [QUOTE] ++ (v.map fun c => if c = BSLASH ∨ c = QUOTE then BSLASH :: hex2 c else [c]).flatten ++ [QUOTE]

/-- `_encode_oids` -/
def encodeOids (l : List Str) : Str :=
  match l with
  | [x] => x
  | l => ofString "( " ++ joinWith (ofString " $ ") l ++ ofString " )"

def namesText (names : List Str) : Str :=
  match names with
  | [] => []
  | [n] => ofString " NAME '" ++ n ++ [QUOTE]
  | ns => ofString " NAME ( '" ++ joinWith (ofString "' '") ns ++ ofString "' )"

def descText : Option Str → Str
  | none => []
  | some d => ofString " DESC " ++ encodeQd d

def oidsText (kw : String) (l : List Str) : Str :=
  if l.isEmpty then [] else [SPC] ++ ofString kw ++ [SPC] ++ encodeOids l

def optOidText (kw : String) : Option Str → Str
  | none => []
  | some o => [SPC] ++ ofString kw ++ [SPC] ++ o

def flagText (kw : String) (b : Bool) : Str := if b then [SPC] ++ ofString kw else []

def extsText (exts : List (Str × List Str)) : Str :=
  (exts.map fun (k, vs) =>
    match vs with
    | [v] => ofString " X-" ++ k ++ [SPC] ++ encodeQd v
    | vs => ofString " X-" ++ k ++ ofString " ( " ++ joinWith [SPC] (vs.map encodeQd) ++ ofString " )").flatten

def kindName : Nat → String
  | 0 => "ABSTRACT" | 2 => "AUXILIARY" | _ => "STRUCTURAL"

def usageName : Nat → String
  | 1 => "directoryOperation" | 2 => "distributedOperation" | 3 => "dSAOperation" | _ => "userApplications"

def ocToText (d : ObjectClass) : Str :=
  ofString "( " ++ d.oid ++ namesText d.names ++ descText d.desc ++ flagText "OBSOLETE" d.obsolete ++
    oidsText "SUP" d.sup ++ [SPC] ++ ofString (kindName d.kind) ++ oidsText "MUST" d.must ++ oidsText "MAY" d.may ++
    extsText d.exts ++ ofString " )"

def atToText (d : AttributeType) : Str :=
  ofString "( " ++ d.oid ++ namesText d.names ++ descText d.desc ++ flagText "OBSOLETE" d.obsolete ++
    optOidText "SUP" d.sup ++ optOidText "EQUALITY" d.equality ++ optOidText "ORDERING" d.ordering ++
    optOidText "SUBSTR" d.substr ++
    (match d.syn with
     | none => []
     | some s => ofString " SYNTAX " ++ s ++
        (match d.synLen with | none => [] | some n => [LCURLY] ++ natDigits n ++ [RCURLY])) ++
    flagText "SINGLE-VALUE" d.singleValue ++ flagText "COLLECTIVE" d.collective ++
    flagText "NO-USER-MODIFICATION" d.noUserMod ++
    (if d.usage ≠ 0 then ofString " USAGE " ++ ofString (usageName d.usage) else []) ++
    extsText d.exts ++ ofString " )"

def dcrToText (d : DITContentRule) : Str :=
  ofString "( " ++ d.oid ++ namesText d.names ++ descText d.desc ++ flagText "OBSOLETE" d.obsolete ++
    oidsText "AUX" d.aux ++ oidsText "MUST" d.must ++ oidsText "MAY" d.may ++ oidsText "NOT" d.never ++
    extsText d.exts ++ ofString " )"

/-! ### the scanner behind `PATTERN.match(value)` -/

/-- `[ ]*` -/
def wsp (s : Str) : Str := s.dropWhile (· == SPC)

/-- `[ ]+` -/
def sp1 (s : Str) : Option Str :=
  match s with
  | c :: r => if c = SPC then some (wsp r) else none
  | [] => none

def lit (w : Str) (s : Str) : Option Str := if w.isPrefixOf s then some (s.drop w.length) else none

/-- NUMBER = `([0-9]|[1-9][0-9]+)`: what follows a number in every pattern is never a digit,
    so the number is the maximal digit run and must have one of the two shapes -/
def number (s : Str) : Option Str :=
  let run := s.takeWhile isDigit
  match run with
  | [] => none
  | [_] => some (s.drop 1)
  | c :: _ => if c = 48 then none else some (s.drop run.length)

/-- `(\.NUMBER)*`, as many as possible -/
def arcs : Nat → Str → Str
  | 0, s => s
  | fuel+1, s =>
    match s with
    | c :: r => if c = DOT then
        match number r with
        | some r' => arcs fuel r'
        | none => s
      else s
    | [] => []

/-- NUMERICOID = `NUMBER(\.NUMBER)+` -/
def numericoid (s : Str) : Option Str :=
  match number s with
  | none => none
  | some r =>
    let r' := arcs s.length r
    if r'.length < r.length then some r' else none

/-- DESCR = `[a-zA-Z]([a-zA-Z0-9-])*` -/
def descr (s : Str) : Option Str :=
  match s with
  | c :: r => if isAlpha c then some (r.dropWhile isKeyChar) else none
  | [] => none

/-- OID = `(DESCR|NUMERICOID)` -/
def oid (s : Str) : Option Str :=
  match descr s with
  | some r => some r
  | none => numericoid s

/-- QDESCR = `'DESCR'` -/
def qdescr (s : Str) : Option Str :=
  match s with
  | c :: r => if c = QUOTE then
      match descr r with
      | some (c2 :: r2) => if c2 = QUOTE then some r2 else none
      | _ => none
    else none
  | [] => none

/-- `(SP item)*` where a failed iteration leaves the position before its spaces -/
def spItems (item : Str → Option Str) : Nat → Str → Str
  | 0, s => s
  | fuel+1, s =>
    match sp1 s with
    | none => s
    | some r =>
      match item r with
      | some r' => spItems item fuel r'
      | none => s

/-- `item | \( WSP (item (SP item)* WSP)? \)` — QDESCRS and QDSTRINGS -/
def itemOrList (item : Str → Option Str) (s : Str) : Option Str :=
  match s with
  | c :: r =>
    if c = LP then
      let r1 := wsp r
      let r2 := match item r1 with
        | some r' => wsp (spItems item s.length r')
        | none => r1
      match r2 with
      | c2 :: r3 => if c2 = RP then some r3 else none
      | [] => none
    else item s
  | [] => none

/-- `(WSP \$ WSP OID)*` -/
def dollarItems : Nat → Str → Str
  | 0, s => s
  | fuel+1, s =>
    match wsp s with
    | c :: r => if c = DOLLAR then
        match oid (wsp r) with
        | some r' => dollarItems fuel r'
        | none => s
      else s
    | [] => s

/-- OIDS = `(OID|\( WSP OIDLIST WSP \))` -/
def oids (s : Str) : Option Str :=
  match s with
  | c :: r =>
    if c = LP then
      match oid (wsp r) with
      | none => none
      | some r1 =>
        match wsp (dollarItems s.length r1) with
        | c2 :: r3 => if c2 = RP then some r3 else none
        | [] => none
    else oid s
  | [] => none

/-- DSTRING items `(\\5[Cc]|\\27|[^'\\])`, as many as possible; returns the rest -/
def dstringItems : Nat → Str → Str
  | 0, s => s
  | fuel+1, s =>
    match s with
    | [] => []
    | c :: r =>
      if c = QUOTE then s
      else if c = BSLASH then
        match r with
        | a :: b :: r' =>
          if (a = 53 ∧ (b = 67 ∨ b = 99)) ∨ (a = 50 ∧ b = 55) then dstringItems fuel r' else s
        | _ => s
      else dstringItems fuel r

/-- QDSTRING = `'DSTRING'` with DSTRING non-empty -/
def qdstring (s : Str) : Option Str :=
  match s with
  | c :: r =>
    if c = QUOTE then
      let r' := dstringItems r.length r
      if r'.length < r.length then
        match r' with
        | c2 :: r2 => if c2 = QUOTE then some r2 else none
        | [] => none
      else none
    else none
  | [] => none

/-- XSTRING = `[xX]-([a-zA-Z]|-|_)+` -/
def xstring (s : Str) : Option Str :=
  match s with
  | c :: d :: r =>
    if (c = 120 ∨ c = 88) ∧ d = HYPHEN then
      let r' := r.dropWhile (fun x => isAlpha x || x == HYPHEN || x == USCORE)
      if r'.length < r.length then some r' else none
    else none
  | _ => none

/-- EXTENSIONS = `(SP XSTRING SP QDSTRINGS)*` -/
def extensions : Nat → Str → Str
  | 0, s => s
  | fuel+1, s =>
    match (sp1 s).bind xstring |>.bind sp1 |>.bind (itemOrList qdstring) with
    | some r => extensions fuel r
    | none => s

/-- text consumed between two positions of the same string -/
def consumed (s rest : Str) : Str := s.take (s.length - rest.length)

/-- an optional group `(SP kw SP body)?`: returns the text of `body` if the group matched,
    and the position afterwards (unchanged if it did not match) -/
def optKw (kw : String) (body : Str → Option Str) (s : Str) : Option Str × Str :=
  match (sp1 s).bind (lit (ofString kw)) |>.bind sp1 with
  | none => (none, s)
  | some r =>
    match body r with
    | some r' => (some (consumed r r'), r')
    | none => (none, s)

/-- an optional flag group `(SP kw)?` -/
def optFlag (kw : String) (s : Str) : Bool × Str :=
  match (sp1 s).bind (lit (ofString kw)) with
  | some r => (true, r)
  | none => (false, s)

/-- `(SP (?P<g>A|B|C))?` with literal alternatives tried in order -/
def optWord (alts : List String) (s : Str) : Option Str × Str :=
  match sp1 s with
  | none => (none, s)
  | some r =>
    match alts.find? (fun a => (ofString a).isPrefixOf r) with
    | some a => (some (ofString a), r.drop a.length)
    | none => (none, s)

/-- the common tail: `(?P<extensions>…) WSP \)` — returns the extensions text -/
def tail (s : Str) : Option Str :=
  let r := extensions s.length s
  match wsp r with
  | c :: _ => if c = RP then some (consumed s r) else none
  | [] => none

/-- the common head: `\( WSP (?P<oid>NUMERICOID)` -/
def head (s : Str) : Option (Str × Str) :=
  match s with
  | c :: r =>
    if c = LP then
      let r1 := wsp r
      match numericoid r1 with
      | some r2 => some (consumed r1 r2, r2)
      | none => none
    else none
  | [] => none

/-! ### post-processing -/

/-- `_parse_oids` -/
def parseOids : Option Str → List Str
  | none => []
  | some v =>
    if v.isEmpty then [] else
    (splitOn DOLLAR (stripChars [LP, RP, SPC] v)).map (stripChars [SPC])

def hexDigitVal (c : Nat) : Nat := if isDigit c then c - 48 else if c ≤ 70 then c - 55 else c - 87

/-- the `re.sub(QS|QQ, …)` of `_parse_qdstring`: `\5c`, `\5C` → `\`; `\27` → `'` -/
def unescapeQd : Nat → Str → Str
  | 0, s => s
  | fuel+1, s =>
    match s with
    | [] => []
    | c :: r =>
      if c = BSLASH then
        match r with
        | a :: b :: r' =>
          if (a = 53 ∧ (b = 67 ∨ b = 99)) ∨ (a = 50 ∧ b = 55) then
            (hexDigitVal a * 16 + hexDigitVal b) :: unescapeQd fuel r'
          else c :: unescapeQd fuel r
        | _ => c :: unescapeQd fuel r
      else c :: unescapeQd fuel r

/-- `_parse_qdstring` -/
def parseQd (v : Str) : Str :=
  let t := stripChars [QUOTE] v
  unescapeQd t.length t

/-- names: `[n.strip("'") for n in names.strip("()").split(" ") if n]` -/
def parseNames : Option Str → List Str
  | none => []
  | some v =>
    if v.isEmpty then [] else
    ((splitOn SPC (stripChars [LP, RP] v)).filter (fun n => !n.isEmpty)).map (stripChars [QUOTE])

/-- dict assignment `res[key] = entries` -/
def dictSet (d : List (Str × List Str)) (k : Str) (v : List Str) : List (Str × List Str) :=
  if d.any (·.1 == k) then d.map (fun (k', v') => if k' == k then (k', v) else (k', v')) else d ++ [(k, v)]

/-- `_extract_qdstring`: `none` = the ValueError of unpacking a one-element split -/
def extractQd (s : Str) : Option (Str × Str) :=
  (split1 QUOTE (s.drop 1)).map fun (entry, remaining) => (parseQd entry, lstripSp remaining)

/-- the `while not remaining.startswith(")")` loop -/
def extListLoop : Nat → Str → List Str → Option (List Str × Str)
  | 0, _, _ => none
  | fuel+1, rem, acc =>
    if startsWith [RP] rem then some (acc, rem)
    else match extractQd rem with
      | none => none
      | some (e, rem') => extListLoop fuel rem' (acc ++ [e])

/-- `_parse_extensions`: `none` = an exception (ValueError) in the hand splitter -/
def parseExtLoop : Nat → Str → List (Str × List Str) → Option (List (Str × List Str))
  | 0, v, acc => if v.isEmpty then some acc else none
  | fuel+1, v, acc =>
    if v.isEmpty then some acc else
    match split1 SPC (lstripSp v) with
    | none => none
    | some (key, remaining) =>
      let key := key.drop 2
      let remaining := lstripSp remaining
      if startsWith [LP] remaining then
        match extListLoop (remaining.length + 1) (lstripSp (remaining.drop 1)) [] with
        | none => none
        | some (entries, rem) => parseExtLoop fuel (rem.drop 1) (dictSet acc key entries)
      else
        match extractQd remaining with
        | none => none
        | some (e, v') => parseExtLoop fuel v' (dictSet acc key [e])

def parseExts (v : Str) : Option (List (Str × List Str)) :=
  if v.isEmpty then some [] else
  let v := lstripSp v
  parseExtLoop (v.length + 1) v []

/-! ### `from_string` -/

inductive PErr where
  | valueError
  deriving DecidableEq, Repr, Inhabited

def parseOC (s : Str) : Except PErr ObjectClass :=
  match head s with
  | none => .error .valueError
  | some (oidT, r0) =>
    let (names, r1) := optKw "NAME" (itemOrList qdescr) r0
    let (desc, r2) := optKw "DESC" qdstring r1
    let (obs, r3) := optFlag "OBSOLETE" r2
    let (sup, r4) := optKw "SUP" oids r3
    let (kind, r5) := optWord ["ABSTRACT", "STRUCTURAL", "AUXILIARY"] r4
    let (must, r6) := optKw "MUST" oids r5
    let (may, r7) := optKw "MAY" oids r6
    match tail r7 with
    | none => .error .valueError
    | some extT =>
      match parseExts extT with
      | none => .error .valueError
      | some exts =>
        let k := if kind = some (ofString "ABSTRACT") then 0 else if kind = some (ofString "AUXILIARY") then 2 else 1
        .ok { oid := oidT, names := parseNames names, desc := desc.map parseQd, obsolete := obs,
              sup := parseOids sup, kind := k, must := parseOids must, may := parseOids may, exts := exts }

/-- NOIDLEN = `NUMERICOID(\{NUMBER\})?` -/
def noidlen (s : Str) : Option Str :=
  match numericoid s with
  | none => none
  | some r =>
    match r with
    | c :: r1 =>
      if c = LCURLY then
        match number r1 with
        | some (c2 :: r2) => if c2 = RCURLY then some r2 else some r
        | _ => some r
      else some r
    | [] => some r

def syntaxBody (s : Str) : Option Str :=
  match noidlen s with
  | some r => some r
  | none => qdstring s

/-- `re.match(NOIDLEN_MATCH, syntax)`: `(?P<value>NUMERICOID)\{(?P<len>NUMBER)\}` at the start -/
def noidlenMatch (s : Str) : Option (Str × Str) :=
  match numericoid s with
  | none => none
  | some r =>
    match r with
    | c :: r1 =>
      if c = LCURLY then
        match number r1 with
        | some (c2 :: r2) => if c2 = RCURLY then some (consumed s r, consumed r1 (c2 :: r2)) else none
        | _ => none
      else none
    | [] => none

def parseAT (s : Str) : Except PErr AttributeType :=
  match head s with
  | none => .error .valueError
  | some (oidT, r0) =>
    let (names, r1) := optKw "NAME" (itemOrList qdescr) r0
    let (desc, r2) := optKw "DESC" qdstring r1
    let (obs, r3) := optFlag "OBSOLETE" r2
    let (sup, r4) := optKw "SUP" oid r3
    let (eq, r5) := optKw "EQUALITY" oid r4
    let (ord, r6) := optKw "ORDERING" oid r5
    let (sub, r7) := optKw "SUBSTR" oid r6
    let (syn, r8) := optKw "SYNTAX" syntaxBody r7
    let (sv, r9) := optFlag "SINGLE-VALUE" r8
    let (col, r10) := optFlag "COLLECTIVE" r9
    let (num, r11) := optFlag "NO-USER-MODIFICATION" r10
    let (usage, r12) := optKw "USAGE" (fun t =>
      (["userApplications", "directoryOperation", "distributedOperation", "dSAOperation"].find?
        (fun a => (ofString a).isPrefixOf t)).map (fun a => t.drop a.length)) r11
    match tail r12 with
    | none => .error .valueError
    | some extT =>
      match parseExts extT with
      | none => .error .valueError
      | some exts =>
        let (synV, slen) : Option Str × Option Nat :=
          match syn with
          | none => (none, none)
          | some raw =>
            if raw.isEmpty then (none, none) else
            let st := stripChars [QUOTE] raw
            match noidlenMatch st with
            | some (v, l) => (some (stripChars [QUOTE] v), some (digitsVal l))
            | none => (if st.isEmpty then none else some (stripChars [QUOTE] st), none)
        let u := if usage = some (ofString "directoryOperation") then 1
                 else if usage = some (ofString "distributedOperation") then 2
                 else if usage = some (ofString "dSAOperation") then 3 else 0
        .ok { oid := oidT, names := parseNames names, desc := desc.map parseQd, obsolete := obs,
              sup := sup, equality := eq, ordering := ord, substr := sub, syn := synV, synLen := slen,
              singleValue := sv, collective := col, noUserMod := num, usage := u, exts := exts }

def parseDCR (s : Str) : Except PErr DITContentRule :=
  match head s with
  | none => .error .valueError
  | some (oidT, r0) =>
    let (names, r1) := optKw "NAME" (itemOrList qdescr) r0
    let (desc, r2) := optKw "DESC" qdstring r1
    let (obs, r3) := optFlag "OBSOLETE" r2
    let (aux, r4) := optKw "AUX" oids r3
    let (must, r5) := optKw "MUST" oids r4
    let (may, r6) := optKw "MAY" oids r5
    let (never, r7) := optKw "NOT" oids r6
    match tail r7 with
    | none => .error .valueError
    | some extT =>
      match parseExts extT with
      | none => .error .valueError
      | some exts =>
        .ok { oid := oidT, names := parseNames names, desc := desc.map parseQd, obsolete := obs,
              aux := parseOids aux, must := parseOids must, may := parseOids may, never := parseOids never, exts := exts }

end Verif.Schema
