/-
Step-counting model of `ObjectClassDescription.from_string`, `AttributeTypeDescription.from_string`
and `DITContentRuleDescription.from_string` (`schema.py`): the functions of `Model/Schema.lean` /
`Model/SchemaMatch.lean` on the path of `parseOC` / `parseAT` / `parseDCR`, each with a twin that
additionally returns the number of STEPS it performs.

What is a step (one per loop iteration / per code point touched by a primitive).  Line numbers are
those of `/repo/src/sansldap/schema.py`.

  Python construct (line)                                      charge
  -----------------------------------------------------------  -----------------------------------
  `PATTERN.match(value)` (245, 435, 590)                       `K·(len(value)+1)³`, `K` = the PROVED
                                                               coefficient of that pattern:
                                                               2301651 (object class), 10934917
                                                               (attribute type), 1883547 (DIT rule)
  `m.group("x")` (249-257, 439-452, 594-602)                   `len(group)` (the text is copied);
                                                               the three flag groups, whose text the
                                                               model does not keep: `len(value)`
                                                               when the group took part
  `{…}.get(raw_kind, …)`, `{…}.get(raw_usage, …)` (259, 463)   `len(group)` (hash of the key)
  `bool(x)`, `if names`, `if not value`, `is None`             0
  `s.strip(chars)` (90, 100, 266, 457, 478)                    `len(s) + 2` (each code point is
                                                               inspected from one end or copied once)
  `s.lstrip(" ")` (111, 113, 116, 118, 122)                    `len(s) + 1`
  `s.split(sep)` (90, 266)                                     `len(s)` + 1 per part
  `s.split(sep, 1)` (108, 116)                                 `len(s) + 2` (scan up to the separator,
                                                               copy both parts; the same when the
                                                               separator is missing and the unpacking
                                                               raises)
  `s[1:]`, `s[2:]` (108, 117, 122, 127)                        `len(s)` (a `str` slice is a copy)
  `s.startswith("(")`, `s.startswith(")")` (121, 123)          1
  list comprehension over the parts (90, 266)                  1 per part, plus the `strip` of the part
                                                               (`if n` is false: no strip)
  `re.sub(QS|QQ, rplcr, t)` (100)                              `9·(len(t)+1)` for the scan (the proved
                                                               bound 9 of the pattern at each of the
                                                               `len(t)+1` start positions), `len(t)`
                                                               for assembling the result, 15 per call
                                                               of `rplcr`
  `rplcr` (98): `group(0)` 3, `[1:]` 2, `.upper()` 2,          15
    `b16decode`: to bytes 2, `re.search(b'[^0-9A-F]')` 3
    (3 start positions, proved bound 1), `unhexlify` 2,
    `.decode()` 1
  `while value:` (115), `while not remaining.startswith(")")`  1 per evaluation that enters the body
    (123)                                                      (the `startswith` is charged separately)
  `entries.append(entry)` (125, 131)                           1
  `res[key] = entries` (133)                                   `2·len(key) + 1` (hash, one comparison)
  `re.match(NOIDLEN_MATCH, syntax)` (458)                      `K2·(len(syntax)+1)²`, `K2` = 265
  `len_match.group("value")`, `.group("len")` (460, 461)       `len(group)`
  `int(text)` (461)                                            `len(text)²` (CPython's decimal
                                                               conversion is quadratic in the digits)
  building the result object / raising `ValueError`            0

The regular-expression charges are the PROVED bounds on the backtracking search tree, used here as
numerals only: `C18.schema_object_class_explicit`, `schema_attribute_type_explicit`,
`schema_dit_content_rule_explicit` (cubic), `schema_noidlen_match_explicit` (265, quadratic),
`schema_parse_qdstring_explicit` (9, constant; `C18.sub_cost` turns it into `9·(n+1)` for a whole
`re.sub`), `schema_b16decode_pattern_explicit` (1).  The coefficients of the two non-constant
charges are parameters `K` (description pattern) and `K2` (`NOIDLEN_MATCH`) of the functions below,
so that `K = K2 = 0` gives the hand-written post-processing's own steps; `parseOCS`, `parseATS`,
`parseDCRS` fix the proved numerals.

Deliberate over-approximations (the count is an upper bound of what Python does, never below it):
`lstrip` / `strip` / `[1:]` are charged a full copy also when CPython returns the same object or a
shorter one; a flag group is charged the whole input; `res[key] = …` is charged a comparison also
for a new key; `int()` is charged quadratically although recent CPython versions switch to a
sub-quadratic algorithm (and refuse more than 4300 digits unless configured otherwise).

The scanner of `Model/Schema.lean` (`head`, `optKw`, `itemOrList`, `oids`, `qdstring`, `extensions`,
`tail` …) IS the model of `PATTERN.match(value)` (`Props/TiesSchema.lean`: it returns the groups the
compiled pattern captures).  Python does not run that scanner, it runs the backtracking matcher;
exactly as `Model/FilterSteps.lean` charges `validAttr` with `reCharge`, the scanner is therefore
not given steps of its own here: its result (`matchOC` / `matchAT` / `matchDCR`) is used as it is and
the match is charged `K·(n+1)³`.  What is proved about the scanner is that every group it returns
is a piece of the input (`Proofs/SchemaCostScan.lean`), which is what the charges of `m.group(…)`
and of the helpers are measured against.
-/
import Verif.Model.SchemaMatch

namespace Verif.SchemaCost
open Verif Verif.Schema

/-- charge of one `PATTERN.match(value)` on `len` code points (cubic pattern bound) -/
def reCharge3 (K len : Nat) : Nat := K * (len + 1) ^ 3

/-- charge of `re.match(NOIDLEN_MATCH, syntax)` on `len` code points (quadratic pattern bound) -/
def reCharge2 (K len : Nat) : Nat := K * (len + 1) ^ 2

/-- the proved coefficients (`Props/SmallMore.lean`) -/
def ocK : Nat := 2301651
def atK : Nat := 10934917
def dcrK : Nat := 1883547
def noidlenK : Nat := 265

/-- charge `n` steps before continuing with `r` -/
def tick {α : Type} (n : Nat) (r : α × Nat) : α × Nat := (r.1, n + r.2)

/-- finish with result `a`, no further steps -/
def ret {α : Type} (a : α) : α × Nat := (a, 0)

/-- length of an optional group (`None` is not copied) -/
def glen : Option Str → Nat
  | none => 0
  | some t => t.length

/-! ### `_parse_qdstring` -/

/-- the `re.sub` of `_parse_qdstring` with the number of calls of `rplcr` -/
def unescapeQdS : Nat → Str → Str × Nat
  | 0, s => (s, 0)
  | fuel+1, s =>
    match s with
    | [] => ([], 0)
    | c :: r =>
      if c = BSLASH then
        match r with
        | a :: b :: r' =>
          if (a = 53 ∧ (b = 67 ∨ b = 99)) ∨ (a = 50 ∧ b = 55) then
            ((hexDigitVal a * 16 + hexDigitVal b) :: (unescapeQdS fuel r').1, (unescapeQdS fuel r').2 + 1)
          else (c :: (unescapeQdS fuel r).1, (unescapeQdS fuel r).2)
        | _ => (c :: (unescapeQdS fuel r).1, (unescapeQdS fuel r).2)
      else (c :: (unescapeQdS fuel r).1, (unescapeQdS fuel r).2)

/-- `_parse_qdstring(v)` for a string: `strip("'")`, the `re.sub` scan, the result, the callbacks -/
def parseQdS (v : Str) : Str × Nat :=
  let t := stripChars [QUOTE] v
  ((unescapeQdS t.length t).1,
    (v.length + 2) + 9 * (t.length + 1) + t.length + 15 * (unescapeQdS t.length t).2)

/-- `_parse_qdstring(desc)`: `None` costs nothing -/
def parseQdOptS : Option Str → Option Str × Nat
  | none => (none, 0)
  | some v => (some (parseQdS v).1, (parseQdS v).2)

/-! ### names and `_parse_oids` -/

/-- the comprehension `[n.strip("'") for n in … if n]`: one step per part, the strip of a non-empty part -/
def namesLoop : List Str → Nat
  | [] => 0
  | p :: ps => 1 + (if p.isEmpty then 0 else p.length + 2) + namesLoop ps

/-- names: `names.strip("()")`, `.split(" ")`, the comprehension -/
def parseNamesS : Option Str → List Str × Nat
  | none => ([], 0)
  | some v =>
    if v.isEmpty then ([], 0) else
    let t := stripChars [LP, RP] v
    let parts := splitOn SPC t
    ((parts.filter (fun n => !n.isEmpty)).map (stripChars [QUOTE]),
      (v.length + 2) + (t.length + parts.length) + namesLoop parts)

/-- the comprehension `[v.strip() for v in …]` -/
def oidsLoop : List Str → Nat
  | [] => 0
  | p :: ps => 1 + (p.length + 2) + oidsLoop ps

/-- `_parse_oids` -/
def parseOidsS : Option Str → List Str × Nat
  | none => ([], 0)
  | some v =>
    if v.isEmpty then ([], 0) else
    let t := stripChars [LP, RP, SPC] v
    let parts := splitOn DOLLAR t
    (parts.map (stripChars [SPC]), (v.length + 2) + (t.length + parts.length) + oidsLoop parts)

/-! ### `_parse_extensions` -/

/-- `_extract_qdstring`: `value[1:]`, `.split("'", 1)`, `_parse_qdstring(entry)`, `remaining.lstrip(" ")` -/
def extractQdS (s : Str) : Option (Str × Str) × Nat :=
  tick (s.length + ((s.drop 1).length + 2)) <|
  match split1 QUOTE (s.drop 1) with
  | none => ret none
  | some (entry, remaining) =>
    tick ((parseQdS entry).2 + (remaining.length + 1)) <|
    ret (some ((parseQdS entry).1, lstripSp remaining))

/-- the `while not remaining.startswith(")")` loop -/
def extListLoopS : Nat → Str → List Str → Option (List Str × Str) × Nat
  | 0, _, _ => (none, 0)
  | fuel+1, rem, acc =>
    -- `remaining.startswith(")")`
    tick 1 <|
    if startsWith [RP] rem then ret (some (acc, rem))
    else
      -- the iteration, `_extract_qdstring`
      tick (1 + (extractQdS rem).2) <|
      match (extractQdS rem).1 with
      | none => ret none
      | some (e, rem') =>
        -- `entries.append(entry)`
        tick 1 <| extListLoopS fuel rem' (acc ++ [e])

/-- the `while value:` loop of `_parse_extensions` -/
def parseExtLoopS : Nat → Str → List (Str × List Str) → Option (List (Str × List Str)) × Nat
  | 0, v, acc => (if v.isEmpty then some acc else none, 0)
  | fuel+1, v, acc =>
    if v.isEmpty then (some acc, 0) else
    -- the iteration; `value.lstrip(" ")`; `.split(" ", 1)`
    tick (1 + (v.length + 1) + ((lstripSp v).length + 2)) <|
    match split1 SPC (lstripSp v) with
    | none => ret none
    | some (key0, remaining0) =>
      let key := key0.drop 2
      let remaining := lstripSp remaining0
      -- `key[2:]`, `remaining.lstrip(" ")`, `remaining.startswith("(")`
      tick (key0.length + (remaining0.length + 1) + 1) <|
      if startsWith [LP] remaining then
        -- `remaining[1:]`, `.lstrip(" ")`, the inner loop
        tick (remaining.length + ((remaining.drop 1).length + 1)
              + (extListLoopS (remaining.length + 1) (lstripSp (remaining.drop 1)) []).2) <|
        match (extListLoopS (remaining.length + 1) (lstripSp (remaining.drop 1)) []).1 with
        | none => ret none
        | some (entries, rem) =>
          -- `remaining[1:]`, `res[key] = entries`
          tick (rem.length + (2 * key.length + 1)) <|
          parseExtLoopS fuel (rem.drop 1) (dictSet acc key entries)
      else
        tick (extractQdS remaining).2 <|
        match (extractQdS remaining).1 with
        | none => ret none
        | some (e, v') =>
          -- `entries.append(entry)`, `res[key] = entries`
          tick (1 + (2 * key.length + 1)) <|
          parseExtLoopS fuel v' (dictSet acc key [e])

/-- `_parse_extensions` -/
def parseExtsS (v : Str) : Option (List (Str × List Str)) × Nat :=
  if v.isEmpty then (some [], 0) else
  -- `value.lstrip(" ")`
  tick (v.length + 1) <|
  parseExtLoopS ((lstripSp v).length + 1) (lstripSp v) []

/-! ### the post-processing of `from_string` -/

/-- charge of a flag group `m.group("obsolete")` …: its text (`SP` and the keyword) is a piece of
    the input, of which the model keeps only whether it took part -/
def flagLen (n : Nat) (b : Bool) : Nat := if b then n else 0

/-- `ObjectClassDescription.from_string` after the match; `n = len(value)` -/
def postOCS (n : Nat) (g : OCGroups) : Except PErr ObjectClass × Nat :=
  -- the nine `m.group(…)` and the `.get(raw_kind, …)`
  tick (glen g.oid + glen g.name + glen g.desc + flagLen n g.obsolete + glen g.sup + glen g.kind
        + glen g.must + glen g.may + glen g.extensions + glen g.kind) <|
  -- the arguments are evaluated in order: names … may, then the extensions
  tick ((parseNamesS g.name).2 + (parseQdOptS g.desc).2 + (parseOidsS g.sup).2
        + (parseOidsS g.must).2 + (parseOidsS g.may).2 + (parseExtsS (g.extensions.getD [])).2) <|
  match (parseExtsS (g.extensions.getD [])).1 with
  | none => ret (.error .valueError)
  | some exts =>
    let k := if g.kind = some (ofString "ABSTRACT") then 0 else if g.kind = some (ofString "AUXILIARY") then 2 else 1
    ret (.ok { oid := g.oid.getD [], names := (parseNamesS g.name).1, desc := (parseQdOptS g.desc).1,
               obsolete := g.obsolete, sup := (parseOidsS g.sup).1, kind := k,
               must := (parseOidsS g.must).1, may := (parseOidsS g.may).1, exts := exts })

/-- the SYNTAX block of `AttributeTypeDescription.from_string` (456-461) and the final
    `syntax.strip("'")` (478) -/
def syntaxS (K2 : Nat) (syn : Option Str) : (Option Str × Option Nat) × Nat :=
  match syn with
  | none => ((none, none), 0)
  | some raw =>
    if raw.isEmpty then ((none, none), 0) else
    let st := stripChars [QUOTE] raw
    -- `raw_syntax.strip("'")`, `re.match(NOIDLEN_MATCH, syntax)`
    tick ((raw.length + 2) + reCharge2 K2 st.length) <|
    match noidlenMatch st with
    | some (v, l) =>
      -- the two groups, `int(…)`, the final strip
      tick (v.length + l.length + l.length * l.length + (v.length + 2)) <|
      ret (some (stripChars [QUOTE] v), some (digitsVal l))
    | none =>
      tick (if st.isEmpty then 0 else st.length + 2) <|
      ret (if st.isEmpty then none else some (stripChars [QUOTE] st), none)

/-- `AttributeTypeDescription.from_string` after the match -/
def postATS (K2 n : Nat) (g : ATGroups) : Except PErr AttributeType × Nat :=
  -- the fourteen `m.group(…)` and the `.get(raw_usage, …)`
  tick (glen g.oid + glen g.name + glen g.desc + flagLen n g.obsolete + glen g.sup + glen g.equality
        + glen g.ordering + glen g.substr + glen g.syn + flagLen n g.singleValue + flagLen n g.collective
        + flagLen n g.noUserMod + glen g.usage + glen g.extensions + glen g.usage) <|
  tick ((syntaxS K2 g.syn).2 + (parseNamesS g.name).2 + (parseQdOptS g.desc).2
        + (parseExtsS (g.extensions.getD [])).2) <|
  match (parseExtsS (g.extensions.getD [])).1 with
  | none => ret (.error .valueError)
  | some exts =>
    let u := if g.usage = some (ofString "directoryOperation") then 1
             else if g.usage = some (ofString "distributedOperation") then 2
             else if g.usage = some (ofString "dSAOperation") then 3 else 0
    ret (.ok { oid := g.oid.getD [], names := (parseNamesS g.name).1, desc := (parseQdOptS g.desc).1,
               obsolete := g.obsolete, sup := g.sup, equality := g.equality, ordering := g.ordering,
               substr := g.substr, syn := (syntaxS K2 g.syn).1.1, synLen := (syntaxS K2 g.syn).1.2,
               singleValue := g.singleValue, collective := g.collective, noUserMod := g.noUserMod,
               usage := u, exts := exts })

/-- `DITContentRuleDescription.from_string` after the match -/
def postDCRS (n : Nat) (g : DCRGroups) : Except PErr DITContentRule × Nat :=
  tick (glen g.oid + glen g.name + glen g.desc + flagLen n g.obsolete + glen g.aux + glen g.must
        + glen g.may + glen g.never + glen g.extensions) <|
  tick ((parseNamesS g.name).2 + (parseQdOptS g.desc).2 + (parseOidsS g.aux).2 + (parseOidsS g.must).2
        + (parseOidsS g.may).2 + (parseOidsS g.never).2 + (parseExtsS (g.extensions.getD [])).2) <|
  match (parseExtsS (g.extensions.getD [])).1 with
  | none => ret (.error .valueError)
  | some exts =>
    ret (.ok { oid := g.oid.getD [], names := (parseNamesS g.name).1, desc := (parseQdOptS g.desc).1,
               obsolete := g.obsolete, aux := (parseOidsS g.aux).1, must := (parseOidsS g.must).1,
               may := (parseOidsS g.may).1, never := (parseOidsS g.never).1, exts := exts })

/-! ### `from_string` -/

/-- `ObjectClassDescription.from_string` with its steps; `K` = coefficient of the pattern charge -/
def parseOCSK (K : Nat) (s : Str) : Except PErr ObjectClass × Nat :=
  tick (reCharge3 K s.length) <|
  match matchOC s with
  | none => ret (.error .valueError)
  | some g => postOCS s.length g

/-- `AttributeTypeDescription.from_string`; `K` for the description pattern, `K2` for `NOIDLEN_MATCH` -/
def parseATSK (K K2 : Nat) (s : Str) : Except PErr AttributeType × Nat :=
  tick (reCharge3 K s.length) <|
  match matchAT s with
  | none => ret (.error .valueError)
  | some g => postATS K2 s.length g

/-- `DITContentRuleDescription.from_string` -/
def parseDCRSK (K : Nat) (s : Str) : Except PErr DITContentRule × Nat :=
  tick (reCharge3 K s.length) <|
  match matchDCR s with
  | none => ret (.error .valueError)
  | some g => postDCRS s.length g

def parseOCS (s : Str) : Except PErr ObjectClass × Nat := parseOCSK ocK s
def parseATS (s : Str) : Except PErr AttributeType × Nat := parseATSK atK noidlenK s
def parseDCRS (s : Str) : Except PErr DITContentRule × Nat := parseDCRSK dcrK s

/-! ### input families -/

/-- ` X-a 'v'` repeated `k` times -/
def extsText1 (k : Nat) : Str := (List.replicate k (ofString " X-a 'v'")).flatten

/-- an object class with `k` single-valued extensions: `( 1.2 X-a 'v' … X-a 'v' )` -/
def ocManyExts (k : Nat) : Str := ofString "( 1.2" ++ extsText1 k ++ ofString " )"

/-- an object class with one extension of `k` values: `( 1.2 X-a ( 'v' 'v' … ) )` -/
def ocManyValues (k : Nat) : Str :=
  ofString "( 1.2 X-a (" ++ (List.replicate k (ofString " 'v'")).flatten ++ ofString " ) )"

/-- an object class with `k` names: `( 1.2 NAME ( 'a' 'a' … ) )` -/
def ocManyNames (k : Nat) : Str :=
  ofString "( 1.2 NAME (" ++ (List.replicate k (ofString " 'a'")).flatten ++ ofString " ) )"

/-- an object class with `k` required attributes: `( 1.2 MUST ( a $ a $ … $ a ) )` -/
def ocManyMust (k : Nat) : Str :=
  ofString "( 1.2 MUST ( a" ++ (List.replicate k (ofString " $ a")).flatten ++ ofString " ) )"

/-- an object class with a description of `k` letters -/
def ocLongDesc (k : Nat) : Str := ofString "( 1.2 DESC '" ++ List.replicate k 97 ++ ofString "' )"

/-- an attribute type with a syntax length of `k` digits: `( 1.2 SYNTAX 1.3{11…1} )` -/
def atLongLen (k : Nat) : Str := ofString "( 1.2 SYNTAX 1.3{" ++ List.replicate k 49 ++ ofString "} )"

#eval (parseOCSK 0 (ocManyExts 10)).2          -- 2924 = 24·10² + 52·10 + 4
#eval (parseOCSK 0 (ocManyExts 20)).2          -- 10644
#eval (parseOCSK 0 (ocManyExts 40)).2          -- 40484: quadratic in the number of extensions
#eval (parseOCSK 0 (ocManyValues 10)).2        -- 1267 = 6·10² + 61·10 + 57
#eval (parseOCSK 0 (ocManyValues 20)).2        -- 3677
#eval (parseOCSK 0 (ocManyValues 40)).2        -- 12097
#eval (parseOCSK 0 (ocManyNames 10)).2         -- 206
#eval (parseOCSK 0 (ocManyNames 20)).2         -- 396: +19 per name, linear
#eval (parseOCSK 0 (ocManyMust 10)).2          -- 211
#eval (parseOCSK 0 (ocManyMust 20)).2          -- 401: +19 per oid
#eval (parseOCSK 0 (ocLongDesc 10)).2          -- 138
#eval (parseOCSK 0 (ocLongDesc 20)).2          -- 258: +12 per code point
#eval (parseATSK 0 0 (atLongLen 10)).2         -- 153 = 10² + 3·10 + 23
#eval (parseATSK 0 0 (atLongLen 20)).2         -- 483
#eval (parseOCS (ocManyExts 3)).2              -- 75420500344 = 2301651·32³ + 376

end Verif.SchemaCost
