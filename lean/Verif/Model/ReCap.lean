/-
Capture-aware semantics of the translated regular expressions: the same backtracking list of
successes as `Re.runs`, with the text of every capturing group threaded through each run (the
way CPython's engine saves and restores marks when it backtracks: a group set on an abandoned
path is not visible on the path that finally succeeds, a group set on the successful path keeps
the text of its LAST participation).

`matchG r s` is `re.match(r, s)`: the first success, as the remaining suffix and the captures.

Core Lean only.
-/
import Verif.Model.Re

namespace Verif

/-- captures, most recent first: `(group id, captured text)` -/
abbrev Caps := List (Nat × List Nat)

namespace Re

/-- `m.group(id)`: the most recent capture of the group, `none` if it did not participate -/
def capOf (id : Nat) (c : Caps) : Option (List Nat) := (c.find? (fun p => p.1 == id)).map (·.2)

/-- text consumed between a position and a later position of the same string -/
def eaten (s t : List Nat) : List Nat := s.take (s.length - t.length)

def runsGF : Nat → Re → List Nat → Caps → List (List Nat × Caps)
  | _, eps, s, c => [(s, c)]
  | _, cls ivs, s, c =>
    match s with
    | x :: r => if inCls ivs x then [(r, c)] else []
    | [] => []
  | f, cat a b, s, c => (runsGF f a s c).flatMap (fun p => runsGF f b p.1 p.2)
  | f, alt a b, s, c => runsGF f a s c ++ runsGF f b s c
  | 0, star _, s, c => [(s, c)]
  | f+1, star a, s, c =>
    ((runsGF (f+1) a s c).filter (fun p => p.1.length < s.length)).flatMap (fun p => runsGF f (star a) p.1 p.2) ++ [(s, c)]
  | f, group id a, s, c => (runsGF f a s c).map (fun p => (p.1, (id, eaten s p.1) :: p.2))
  | _, eos, s, c => if s.isEmpty then [(s, c)] else []
  | _, eosNl, s, c => if s.isEmpty ∨ s = [10] then [(s, c)] else []
  | _, unsupported, _, _ => []
termination_by f r _ _ => (f, sizeOf r)

def runsG (r : Re) (s : List Nat) : List (List Nat × Caps) := runsGF s.length r s []

/-- `re.match(r, s)`: remaining suffix and captures of the first success -/
def matchG (r : Re) (s : List Nat) : Option (List Nat × Caps) := (runsG r s).head?

end Re
end Verif
