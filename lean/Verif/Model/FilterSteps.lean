/-
Step-counting model of `LDAPFilter.from_string` (`_filter.py`): the recursive descent of
`Model/FilterText.lean`, function by function, in which every function additionally returns the
number of STEPS it performs.  `Model/FilterCost.lean` counts the CALLS of the three parser
functions; this file counts the work inside each call.

What is a step (one per loop iteration / per octet or code point touched by a scanning primitive):

  Python construct                                             charge
  -----------------------------------------------------------  -----------------------------------
  `filter.strip()`                                             `len(filter) + 2` (each code point is
                                                               inspected from one end or copied once)
  `.encode("utf-8", "surrogateescape")`                        one per code point of the stripped text
  a call of `_unpack_filter` / `_unpack_complex_filter` /      1 (this includes `view[offset:offset+length]`:
    `_unpack_simple_filter`                                    a memoryview slice is O(1), nothing is copied)
  `while read < len(current_view)` (both loops)                1 per iteration of the body
  `for i in range(len(current_view)): … == "="`                1 per iteration: index + 1, or the slice length
  `for i in range(value_length): … == ")"`                     1 per iteration: index + 1, or the tail length
  `current_view[:attribute_end].tobytes().decode(…)`           `2 * attribute_end` (copy, then decode)
  `_ATTRIBUTE_PATTERN.match(x)`                                `K * (len(x) + 1)^2` with `K = 347`
  `current_view[read:read+value_length].tobytes()`             `value_length`
  `b"*" not in raw_value`, `b"*" in raw_value`                 1 per octet inspected (each evaluation)
  `raw_value == b"*"`                                          0 (length compare, then one octet)
  `_LDAP_ESCAPE_PATTERN.sub(rplcr, v)`                         `9 * (len(v) + 1)` for the scan, plus 11 per
                                                               call of `rplcr` (7 for `_HEX_PATTERN.match`,
                                                               4 for decode / upper / b16decode of ≤ 2 chars)
  `value.split(b"*")`                                          1 per octet
  `for idx, v in enumerate(value_split)`                       1 per part (plus the unescape of the part)
  `header.split(":")`, `list(…)`                               1 per octet (the header is a `str`; its code
                                                               points are at most its octets), 1 per part
  `header_split.pop(0)`                                        1 per element shifted
  `header_split[0].lower()`                                    1 per octet
  constructing a filter object / raising `FilterSyntaxError`   0 (constant; no copy of the text)

The regular-expression charges are the PROVED bounds on the backtracking search tree, used here as
numerals only: `347·(n+1)²` is `C18.filter_attribute_pattern_explicit`, `9·(n+1)` for a whole
`re.sub` is `C18.escape_sub_cost_explicit`, 7 is `C18.filter_hex_pattern_explicit`
(Props/SmallMore.lean).  The coefficient of the attribute-pattern charge is a parameter `K` of the
functions below, so that `K = 0` gives the parser's own scanning steps; `parseFilterTextS` fixes
`K = 347`.

Slices: the Python parser passes `(view, offset, length)` and slices a `memoryview`; the only
copies are the two `.tobytes()` above.  The model's `cur.drop read` is therefore charged as part of
the call (1), not by its length.

Deliberate over-approximations (the count is an upper bound of what Python does, never below it):
`_unpack_filter_substrings_value` stops at the first bad part, the model charges every part;
the extensible header charges the last `pop(0)` also when the rule did not match.
-/
import Verif.Model.FilterText

namespace Verif.FilterSteps
open Verif

abbrev R := Except FErr (Filter × Nat)

/-- charge of one `_ATTRIBUTE_PATTERN.match` on `len` characters -/
def reCharge (K len : Nat) : Nat := K * (len + 1) ^ 2

/-- the proved coefficient of the attribute pattern (`C18.filter_attribute_pattern_explicit`) -/
def attrK : Nat := 347

/-- iterations of a left-to-right search for `c` that stops at the first hit -/
def scanCost (c : Nat) (bs : Bytes) : Nat :=
  match indexOf c bs with
  | some i => i + 1
  | none => bs.length

/-- `unescape` with the number of calls of the replacement callback `rplcr` -/
def unescapeS : Nat → Bytes → Option Bytes × Nat
  | _, [] => (some [], 0)
  | 0, _ => (none, 0)
  | fuel+1, b :: r =>
    if b = cBackslash then
      match r with
      | h1 :: h2 :: r' =>
        if h1 ≠ cNewline ∧ h2 ≠ cNewline ∧ isHex h1 ∧ isHex h2 then
          (((unescapeS fuel r').1).map (fun t => (hexVal h1 * 16 + hexVal h2) :: t), (unescapeS fuel r').2 + 1)
        else (none, 1)
      | _ => (none, 1)
    else (((unescapeS fuel r).1).map (fun t => b :: t), (unescapeS fuel r).2)

/-- `_unpack_filter_value(v)`: the `re.sub` scan plus the callbacks -/
def valueS (v : Bytes) : Option Bytes × Nat :=
  ((unescapeS (v.length + 1) v).1, 9 * (v.length + 1) + 11 * (unescapeS (v.length + 1) v).2)

/-- `_unpack_filter_extensible_header` -/
def extHeaderS (K : Nat) (header : Bytes) : Option (Option Bytes × Bool × Option Bytes) × Nat :=
  -- `list(header.split(":"))`
  let s0 := header.length + (splitOn cColon header).length
  match splitOn cColon header with
  | [] => (none, s0)
  | h0 :: rest =>
    let attrOk := h0.isEmpty || validAttr h0
    let s1 := s0 + (if h0.isEmpty then 0 else reCharge K h0.length)
    if !attrOk then (none, s1) else
    let attr := if h0.isEmpty then none else some h0
    -- `header_split.pop(0)`
    let s2 := s1 + rest.length
    -- `header_split[0].lower() == "dn"`, and the second `pop(0)`
    let (dn, rest1, s3) := match rest with
      | d :: r => if d.map lowerAscii = [100, 110] then (true, r, s2 + d.length + r.length)
                  else (false, rest, s2 + d.length)
      | [] => (false, rest, s2)
    match rest1 with
    | [] => (some (attr, dn, none), s3)
    | [r] => (if validAttr r then some (attr, dn, some r) else none, s3 + reCharge K r.length)
    | r :: _ :: t => (none, s3 + reCharge K r.length + (t.length + 1))

/-- the `enumerate` loop of `_unpack_filter_substrings_value`: one step per part, plus the unescape
    of every non-empty part -/
def partsSteps : List Bytes → Nat
  | [] => 0
  | v :: vs => 1 + (if v.isEmpty then 0 else (valueS v).2) + partsSteps vs

/-- `_unpack_filter_substrings_value` -/
def substringsValueS (raw : Bytes) : Option (Option Bytes × List Bytes × Option Bytes) × Nat :=
  let steps := raw.length + partsSteps (splitOn cStar raw)
  match splitOn cStar raw with
  | [] | [_] => (none, steps)
  | first :: rest =>
    let last := rest.getLast!
    let mids := rest.dropLast
    let unesc (v : Bytes) := (valueS v).1
    let f := if first.isEmpty then some none else (unesc first).map some
    let l := if last.isEmpty then some none else (unesc last).map some
    let ms := mids.foldr (fun v acc =>
      match acc with
      | none => none
      | some l => if v.isEmpty then none else (unesc v).map (· :: l)) (some [])
    (match f, ms, l with
     | some f, some ms, some l => some (f, ms, l)
     | _, _, _ => none, steps)

/-- charge `n` steps before continuing with `r` -/
def tick {α : Type} (n : Nat) (r : α × Nat) : α × Nat := (r.1, n + r.2)

/-- finish with result `a`, no further steps -/
def ret {α : Type} (a : α) : α × Nat := (a, 0)

/-- `_unpack_simple_filter`; the steps are charged (`tick`) where they are performed -/
def unpackSimpleS (K : Nat) (cur : Bytes) (off : Nat) : R × Nat :=
  let len := cur.length
  -- the call, and the loop looking for '='
  tick (1 + scanCost cEq cur) <|
  match indexOf cEq cur with
  | none => ret (.error (.syntax off len))
  | some 0 => ret (.error (.syntax off 1))
  | some eq =>
    if eq = len - 1 then ret (.error (.syntax off len)) else
    let ft := cur.getD (eq - 1) 0
    let typed := ft = cColon ∨ ft = cGt ∨ ft = cLt ∨ ft = cTilde
    if typed ∧ eq = 1 then ret (.error (.syntax off len)) else
    let attrEnd := if typed then eq - 1 else eq
    let attrib := cur.take attrEnd
    -- `.tobytes().decode(…)`, and the attribute pattern unless the filter is extensible
    tick (2 * attrEnd + (if ft ≠ cColon then reCharge K attrEnd else 0)) <|
    if ft ≠ cColon ∧ !validAttr attrib then ret (.error (.syntax off attrEnd)) else
    let read := eq + 1
    let tail := cur.drop read
    let valueLen := match indexOf cRParen tail with | some i => i | none => tail.length
    let raw := tail.take valueLen
    let read' := read + valueLen
    -- the loop looking for ')', `.tobytes()`, and `b"*" not in raw_value` when it is evaluated
    tick (scanCost cRParen tail + valueLen + (if typed then 0 else scanCost cStar raw)) <|
    let bad : R := .error (.syntax (off + read) valueLen)
    if typed ∨ !raw.contains cStar then
      tick (valueS raw).2 <|
      match (valueS raw).1 with
      | none => ret bad
      | some v =>
        if ft = cColon then
          tick (extHeaderS K attrib).2 <|
          match (extHeaderS K attrib).1 with
          | none => ret (.error (.syntax off attrEnd))
          | some (attr, dn, rule) => ret (.ok (.ext rule attr v dn, read'))
        else if ft = cGt then ret (.ok (.ge attrib v, read'))
        else if ft = cLt then ret (.ok (.le attrib v, read'))
        else if ft = cTilde then ret (.ok (.approx attrib v, read'))
        -- `elif b"*" in raw_value` is evaluated (and false) before FilterEquality is built
        else tick (scanCost cStar raw) <| ret (.ok (.eq attrib v, read'))
    else if raw = [cStar] then ret (.ok (.present attrib, read'))
    else
      -- `elif b"*" in raw_value`, then `_unpack_filter_substrings_value`
      tick (scanCost cStar raw + (substringsValueS raw).2) <|
      match (substringsValueS raw).1 with
      | none => ret bad
      | some (i, any, f) => ret (.ok (.substr attrib i any f, read'))

/-- the loop of `_unpack_complex_filter`; `k` accumulates the steps -/
def complexLoopS (uf : Bytes → Nat → R × Nat) (cur : Bytes) (off : Nat) :
    Nat → Nat → List Filter → Nat → Except FErr (List Filter × Nat) × Nat
  | 0, read, fs, k => (if read ≥ cur.length then .ok (fs, read) else .error .fuel, k)
  | fuel+1, read, fs, k =>
    if read ≥ cur.length then (.ok (fs, read), k) else
    let c := cur.getD read 0
    if c = cSpace then complexLoopS uf cur off fuel (read + 1) fs (k + 1)
    else if c = cLParen then
      if cur.getD 0 0 = cBang ∧ !fs.isEmpty then (.error (.syntax off cur.length), k + 1)
      else
        match uf ((cur.drop read).take (cur.length - read - 1)) (off + read) with
        | (.error e, n) => (.error e, k + 1 + n)
        | (.ok (f, m), n) => complexLoopS uf cur off fuel (read + m) (fs ++ [f]) (k + 1 + n)
    else if c = cRParen then (.ok (fs, read), k + 1)
    else (.error (.syntax (off + read) 1), k + 1)

/-- `_unpack_complex_filter`: the call (1) and its loop -/
def unpackComplexS (uf : Bytes → Nat → R × Nat) (cur : Bytes) (off : Nat) : R × Nat :=
  match complexLoopS uf cur off cur.length 1 [] 1 with
  | (.error e, k) => (.error e, k)
  | (.ok (fs, read), k) =>
    match fs with
    | [] => (.error (.syntax off cur.length), k)
    | f0 :: _ =>
      let t := cur.getD 0 0
      if t = cBang then (.ok (.not f0, read), k)
      else if t = cAmp then (.ok (.and fs, read), k)
      else (.ok (.or fs, read), k)

/-- the loop of `_unpack_filter`; `cx` is `_unpack_complex_filter` (at the next nesting level),
    `sm` is `_unpack_simple_filter` -/
def filterLoopS (cx sm : Bytes → Nat → R × Nat) (cur : Bytes) (off : Nat) :
    Nat → FLoop → Nat → Except FErr FLoop × Nat
  | 0, st, k => (if st.read ≥ cur.length then .ok st else .error .fuel, k)
  | fuel+1, st, k =>
    if st.read ≥ cur.length then (.ok st, k) else
    let c := cur.getD st.read 0
    if c = cSpace then filterLoopS cx sm cur off fuel { st with read := st.read + 1 } (k + 1)
    else if c = cRParen then
      match st.parens with
      | none => (.error (.syntax (off + st.read) 1), k + 1)
      | some _ => (.ok { st with parens := none, read := st.read + 1 }, k + 1)
    else if st.parens.isSome then
      if c = cLParen then (.error (.syntax (off + st.read) 1), k + 1)
      else
        let sub := cur.drop st.read
        let r : R × Nat := if c = cBang ∨ c = cAmp ∨ c = cPipe then cx sub (off + st.read)
                 else sm sub (off + st.read)
        match r with
        | (.error e, n) => (.error e, k + 1 + n)
        | (.ok (f, m), n) =>
          filterLoopS cx sm cur off fuel { st with parsed := some f, read := st.read + m } (k + 1 + n)
    else if c = cLParen then
      filterLoopS cx sm cur off fuel { st with parens := some st.read, read := st.read + 1 } (k + 1)
    else
      match sm (cur.drop st.read) (off + st.read) with
      | (.error e, n) => (.error e, k + 1 + n)
      | (.ok (f, m), n) => (.ok { st with parsed := some f, read := st.read + m }, k + 1 + n)

/-- one call of `_unpack_filter`: the call (1), its loop, and the two checks after the loop -/
def filterBodyS (cx sm : Bytes → Nat → R × Nat) (cur : Bytes) (off : Nat) : R × Nat :=
  match filterLoopS cx sm cur off cur.length ⟨0, none, none⟩ 1 with
  | (.error e, k) => (.error e, k)
  | (.ok st, k) =>
    match st.parens with
    | some p => (.error (.syntax (off + p) (cur.length - p)), k)
    | none =>
      match st.parsed with
      | none => (.error (.syntax off cur.length), k)
      | some f => (.ok (f, st.read), k)

/-- `_unpack_filter`; `depth` = remaining nesting budget -/
def unpackFilterS (K : Nat) : Nat → Bytes → Nat → R × Nat
  | 0, _, _ => (.error .recursion, 1)
  | depth+1, cur, off =>
    filterBodyS (unpackComplexS (unpackFilterS K depth)) (unpackSimpleS K) cur off

/-- `LDAPFilter.from_string` with its steps, the attribute-pattern coefficient being `K` -/
def parseFilterTextSK (K : Nat) (depth : Nat) (s : List Nat) : Except FErr Filter × Nat :=
  let t := pyStrip s
  let b := utf8Encode t
  -- `strip`, `encode`
  let s0 := (s.length + 2) + t.length
  match unpackFilterS K depth b 0 with
  | (.error .recursion, k) => (.error (.syntax 0 b.length), s0 + k)
  | (.error e, k) => (.error e, s0 + k)
  | (.ok (f, consumed), k) =>
    (if consumed < b.length then .error (.syntax consumed (b.length - consumed)) else .ok f, s0 + k)

/-- `LDAPFilter.from_string` with the steps it performs -/
def parseFilterTextS (depth : Nat) (s : List Nat) : Except FErr Filter × Nat :=
  parseFilterTextSK attrK depth s

/-- a sub-call whose steps are not counted: `(f (free g) …).2` is the work of ONE call of `f` itself -/
def free (g : Bytes → Nat → R × Nat) : Bytes → Nat → R × Nat := fun b o => ((g b o).1, 0)

/-! ### a few evaluations -/

/-- `(!(!(…(a=b)…)))` with `d` negations -/
def nestedNot (d : Nat) : List Nat :=
  (List.replicate d [40, 33]).flatten ++ [40, 97, 61, 98, 41] ++ List.replicate d 41

/-- `(aaa…a=b)` with an attribute of `d` letters -/
def longAttr (d : Nat) : List Nat := [40] ++ List.replicate d 97 ++ [61, 98, 41]

/-- `(aaa…a` — no '=': the failing simple filter scans its whole slice -/
def noEquals (d : Nat) : List Nat := [40] ++ List.replicate d 97

#eval (parseFilterTextSK 0 200 (nestedNot 10)).2     -- 174
#eval (parseFilterTextSK 0 200 (nestedNot 20)).2     -- 304: +13 per level, linear
#eval (parseFilterTextS 200 (nestedNot 10)).2        -- 1562 = 174 + 347·2²
#eval (parseFilterTextS 200 (nestedNot 20)).2        -- 1692
#eval (parseFilterTextSK 0 200 (longAttr 10)).2      -- 89
#eval (parseFilterTextS 200 (longAttr 10)).2         -- 42076 = 89 + 347·11²
#eval (parseFilterTextS 200 (longAttr 20)).2         -- 153166 = 139 + 347·21²
#eval (parseFilterTextSK 0 200 (noEquals 100)).2     -- 308
#eval (parseFilterTextS 200 ("(&(cn=a*b*c)(:dn:2.5.13.2:=x\\41)(!(o>=1)))".toList.map Char.toNat)).2
#eval (parseFilterTextS 200 ("(&(cn=a*b*c)(:dn:2.5.13.2:=x\\41)(!(o>=1)))".toList.map Char.toNat)).1

end Verif.FilterSteps
