/-
Round 12 (audit item S2): the unpacking block of `LDAPSession.receive` is part of the generated text.

`harness/py2lean_session.py` translates lines 200–223 of `_session.py` (the `if self._incoming_buffer: … else: …`
statement: `extend`, `ASN1Reader(..)`, both `while reader:` loops, `except NotEnougData: … break`,
`incoming_msgs.append(msg)`, both assignments of `_incoming_buffer` from `reader.get_remaining_data()`).  The only
abstract part is the call `unpack_ldap_message(reader, self._packing_options)`: the parameter
`unpack : List Nat → Except Err (Msg × List Nat)` on the reader's remaining octets.

Here: for `unpack := decMsg regs depth` (the one-message decoder the model's `parseLoop` calls) each generated loop
IS `parseLoop`: messages in order (appended to those collected before), residue = the unconsumed suffix, the same
error class.  The ties of the whole `receive` (no hypothesis about the unpacking left) are in `TiesSession.lean`
(`tie_client_receive`, `tie_server_receive`, `tie_*_receive_step`, `tie_*_receive_step_forget`).
Proofs: `Verif/Proofs/SessionGenUnpack.lean`.  Axioms: propext, Quot.sound (Classical.choice through `simp`).
-/
import Verif.Props.TiesSession
import Verif.Proofs.RecvFrame

namespace Verif.TiesSessionRecv

open Verif Verif.PyRtS Verif.SessionGen Verif.Proofs.SessionGen

/-- buffered path (line 203): reader position and messages as `parseLoop` says; `self` untouched by the loop -/
theorem tie_client_while_buffered (regs : Regs) (depth fuel : Nat) (reader : Bytes) (acc : List Msg) (self : St) :
    LDAPClient_LDAPSession_receive_while1 (decMsg regs depth) fuel reader acc self
      = match parseLoop regs depth fuel reader with
        | .ok (ms, rest) => (.ok (rest, acc ++ ms), self)
        | .error e => (.error (unpackExc e), self) := by
  rw [client_while1_eq]; cases parseLoop regs depth fuel reader <;> rfl

theorem tie_server_while_buffered (regs : Regs) (depth fuel : Nat) (reader : Bytes) (acc : List Msg) (self : St) :
    LDAPServer_LDAPSession_receive_while1 (decMsg regs depth) fuel reader acc self
      = match parseLoop regs depth fuel reader with
        | .ok (ms, rest) => (.ok (rest, acc ++ ms), self)
        | .error e => (.error (unpackExc e), self) := by
  rw [server_while1_eq]; cases parseLoop regs depth fuel reader <;> rfl

/-- direct path (line 216; `_incoming_buffer` is empty on entry): the unconsumed suffix ends up in
    `_incoming_buffer`, the reader is emptied by `get_remaining_data()` -/
theorem tie_client_while_direct (regs : Regs) (depth fuel : Nat) (reader : Bytes) (acc : List Msg) (self : St)
    (h : self.incoming_buffer = []) :
    LDAPClient_LDAPSession_receive_while2 (decMsg regs depth) fuel reader acc self
      = match parseLoop regs depth fuel reader with
        | .ok (ms, rest) => (.ok ([], acc ++ ms), { self with incoming_buffer := rest })
        | .error e => (.error (unpackExc e), self) := by
  rw [client_while2_eq regs depth fuel reader acc self h]; cases parseLoop regs depth fuel reader <;> rfl

theorem tie_server_while_direct (regs : Regs) (depth fuel : Nat) (reader : Bytes) (acc : List Msg) (self : St)
    (h : self.incoming_buffer = []) :
    LDAPServer_LDAPSession_receive_while2 (decMsg regs depth) fuel reader acc self
      = match parseLoop regs depth fuel reader with
        | .ok (ms, rest) => (.ok ([], acc ++ ms), { self with incoming_buffer := rest })
        | .error e => (.error (unpackExc e), self) := by
  rw [server_while2_eq regs depth fuel reader acc self h]; cases parseLoop regs depth fuel reader <;> rfl

/-- the fuel the generated `receive` passes (the number of octets left) is enough: any larger fuel gives the same
    result, so the bound is never what stops the loop (`parseLoop_fuel`; `decMsg` consumes at least one octet) -/
theorem tie_while_fuel_irrelevant (regs : Regs) (depth n : Nat) (reader : Bytes) (acc : List Msg) (self : St)
    (hn : reader.length ≤ n) :
    LDAPClient_LDAPSession_receive_while1 (decMsg regs depth) n reader acc self
      = LDAPClient_LDAPSession_receive_while1 (decMsg regs depth) reader.length reader acc self := by
  rw [client_while1_eq, client_while1_eq, Verif.Proofs.parseLoop_fuel regs depth n reader.length reader hn (Nat.le_refl _)]

/-- order: two messages the oracle delivers one after the other come out in that order -/
example :
    (LDAPClient_LDAPSession_receive_while1
        (fun bs => match bs with
          | 1 :: r => .ok (⟨1, .unbind, []⟩, r)
          | 2 :: r => .ok (⟨2, .unbind, []⟩, r)
          | _ => .error .notEnough) 3 [1, 2, 9] [] LDAPClient_new).1.toOption.map (fun p => (p.1, p.2.map (·.id)))
      = some ([9], [1, 2]) := by decide

end Verif.TiesSessionRecv
