/-
C06 — no complete protocol data unit is ever silently discarded.
-/
import Verif.Spec.Frame
import Verif.Proofs.Recv

namespace Verif.C06
open Verif

/-- One call: if `receive` returns messages (no error), then the bytes buffered so far
    (previous residue ++ this chunk) split — by the outer identifier and length octets only —
    into exactly as many complete units as messages were returned, and what is held back is
    exactly the incomplete tail.  So a complete unit is never swallowed: it is returned, or
    the call raises. -/
theorem accounting (depth : Nat) (s : Sess) (chunk : Bytes) (ms : List Msg)
    (hb : IsBytes (s.residue ++ chunk))
    (h : (recv depth s chunk).2 = .msgs ms) :
    ∃ us, frames (s.residue ++ chunk).length (s.residue ++ chunk) = some (us, (recv depth s chunk).1.residue) ∧
      us.length = ms.length ∧ frame (recv depth s chunk).1.residue = .incomplete :=
  Proofs.recv_accounting depth s chunk ms hb h

/-- Over a whole error-free run from an empty buffer, fed in any chunking: the number of
    messages returned equals the number of complete units in everything delivered, and the
    final residue is the incomplete tail of the stream. -/
theorem run_accounting (depth : Nat) (s : Sess) (chunks : List Bytes)
    (hr : s.residue = []) (hb : IsBytes chunks.flatten)
    (hok : (feed depth s chunks).2.2 = none) :
    ∃ us, frames chunks.flatten.length chunks.flatten = some (us, (feed depth s chunks).1.residue) ∧
      us.length = (feed depth s chunks).2.1.length :=
  Proofs.feed_accounting depth s chunks hr hb hok

/-- the decoder asks for more bytes only when the outer unit is incomplete: with a complete
    outer unit at the head it never answers "not enough data" -/
theorem no_wait_on_complete_unit (regs : Regs) (depth : Nat) (bs u rest : Bytes) (hb : IsBytes bs)
    (hf : frame bs = .complete u rest) : decMsg regs depth bs ≠ .error .notEnough :=
  Proofs.decMsg_complete_not_notEnough regs depth bs u rest hb hf

/-! non-vacuity: the former defect witness `30 05 02 01 01 60 05` is a complete unit and is
    now answered with a protocol error instead of being swallowed -/
example : frame [48, 5, 2, 1, 1, 96, 5] = .complete [48, 5, 2, 1, 1, 96, 5] [] := by decide
example : ∃ n, (recv 10 (Sess.init .server) [48, 5, 2, 1, 1, 96, 5]).2 = .protocolError n := ⟨.notice, by rfl⟩

end Verif.C06
