/-
C01 — every LDAP message survives encode → decode unchanged.
-/
import Verif.Spec.WF
import Verif.Proofs.RoundTrip

namespace Verif.C01
open Verif

/-- For every well-formed message of every supported operation, with any controls and any
    filter tree, whatever bytes follow it and whichever custom types the decoding session has
    registered: decoding the encoding yields the message itself (with the raw value octets
    of known controls filled in — the one permitted difference) and consumes exactly the
    message's bytes.  `depth` is the interpreter's recursion budget in filter levels: any
    budget larger than the filter's nesting depth will do. -/
theorem decode_encode (regs : Regs) (m : Msg) (rest : Bytes) (depth : Nat)
    (h : m.WF regs) (hd : m.op.filterDepth < depth) :
    decMsg regs depth (encMsg m ++ rest) = .ok (fillRaw m, rest) :=
  Proofs.decMsg_encMsg regs m rest depth h hd

/-- re-encoding the decoded message reproduces the same bytes -/
theorem reencode (m : Msg) : encMsg (fillRaw m) = encMsg m :=
  Proofs.encMsg_fillRaw m

/-- filling in raw values is idempotent: a decoded message decodes to itself -/
theorem fillRaw_idem (m : Msg) : fillRaw (fillRaw m) = fillRaw m :=
  Proofs.fillRaw_idem m

/-! non-vacuity: a well-formed search request with a nested filter, a paged-results control
    and trailing bytes -/
def sample : Msg :=
  ⟨5, .searchReq [100, 99, 61, 120] 2 0 1000 0 false
        (.and [.not (.eq [99, 110] [0, 255]), .substr [99, 110] (some [97]) [[98], []] none,
               .ext none (some [99, 110]) [42] true, .or []]) [[42]],
   [.paged true 100 [1, 2, 3] none, .generic [49, 46, 50] false (some [])]⟩

example : sample.WF {} ∧ sample.op.filterDepth < 5 := by
  refine ⟨?_, by decide⟩
  simp [sample, Msg.WF, Op.WF, Filter.WF, Filter.WFs, Control.WF, IsText, optText]
  decide
example : decMsg {} 5 (encMsg sample ++ [48, 3]) = .ok (fillRaw sample, [48, 3]) :=
  decode_encode {} sample [48, 3] 5 (by
    refine ⟨?_, ?_⟩
    · simp [sample, Op.WF, Filter.WF, Filter.WFs, IsText, optText]; decide
    · simp [sample, Control.WF, IsText]; decide) (by decide)

end Verif.C01
