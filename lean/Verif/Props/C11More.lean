/-
C11, additions closing the statement-audit items for this property:
 (a) witnesses for the common hypothesis `AdmissibleRun` (and that the guarded conclusions of
     Props/C11.lean are about sessions that are *not* closed);
 (c) agreement on CLOSED at quiescence (`closed_agreement`, and the unguarded
     `agreement_at_quiescence_total`);
 (d) protocol errors occur only *at* the designed termination, step by step
     (`step_outcomes`, `error_only_at_termination`), from which the final-state form
     `C11.no_protocol_error` follows (`no_protocol_error_from_steps`);
 (b) the second designed termination, the notice of disconnection (`notice_id0_refused`,
     `notice_termination`).
Nothing in Spec/Joint.lean or Props/C11.lean is changed.
-/
import Verif.Props.C11
import Verif.Spec.C11More
import Verif.Proofs.C11MoreNotice
import Verif.Proofs.C11MoreCheck

namespace Verif.C11
open Verif Verif.Joint

/-! ### (d) errors only at the designed termination -/

/-- "No protocol error occurs other than a designed termination", per step.  Take any admissible
    joint history and any step `st` of it (`pre` before it, `post` after it; `y` is the state
    the step starts from).  The step's outcome is either not an error (call accepted / flush
    returned bytes / delivery returned messages), or it is a protocol error *at the
    termination by unbind* (`TerminationError`, Spec/C11More.lean): the client has already
    sent its unbind and the step is (1) the delivery to the still-open server of bytes that
    complete the unbind request (error without notification), (2) a delivery to the server
    already closed by it, or (3) a delivery to the client, which closed when it sent the unbind.
    Unlike `no_protocol_error`, which only says "the client has sent an unbind by the end of
    the history", this excludes a spurious server error between the unbind being sent and its
    arrival, and any error of a client call, server call or flush. -/
theorem step_outcomes (depth : Nat) (pre : List JStep) (st : JStep) (post : List JStep)
    (h : AdmissibleRun depth {} (pre ++ st :: post)) :
    let y := (jrun depth {} pre).1
    Outcome.fine (jstep depth y st).2 ∨ TerminationError depth y st (jstep depth y st).2 :=
  Proofs.C11More.step_outcomes depth pre st post h

/-- the same read from the error: a step of an admissible history that raises a protocol error
    is a delivery at the termination by unbind, and the notification attached to the error is
    the one `TerminationError` names for that case -/
theorem error_only_at_termination (depth : Nat) (pre : List JStep) (st : JStep) (post : List JStep)
    (h : AdmissibleRun depth {} (pre ++ st :: post)) (n : Notification)
    (he : (jstep depth (jrun depth {} pre).1 st).2 = .protocolError n) :
    TerminationError depth (jrun depth {} pre).1 st (.protocolError n) :=
  Proofs.C11More.error_only_at_termination depth pre st post h n he

/-- the final-state form `C11.no_protocol_error`, re-derived from `step_outcomes` alone (so it
    is a corollary of the per-step statement, not an independent fact) -/
theorem no_protocol_error_from_steps (depth : Nat) (sts : List JStep) (h : AdmissibleRun depth {} sts) :
    ∀ o ∈ (jrun depth {} sts).2,
      o.accepted = true ∨ (∃ b, o = .bytes b) ∨ (∃ ms, o = .msgs ms) ∨
        (unbindSent (jrun depth {} sts).1 ∧ ∃ n, o = .protocolError n) :=
  Proofs.C11More.no_protocol_error_of_steps depth sts h

/-! ### (c) agreement on CLOSED -/

/-- Agreement on the terminated state: after an admissible history, once everything has been
    delivered, if either side is CLOSED then both are, neither has an operation in progress,
    and the cause is the client's unbind.  (`Quiescent` is needed only for "client closed ⇒
    server closed": while the unbind is still in the client's buffer, in the pipe, or half
    received, the server is legitimately still open — see `client_closed_server_closed` for
    the exact three conditions.) -/
theorem closed_agreement (depth : Nat) (sts : List JStep) (h : AdmissibleRun depth {} sts)
    (hq : Quiescent (jrun depth {} sts).1) :
    let y := (jrun depth {} sts).1
    (y.c.state = .closed ∨ y.s.state = .closed) →
      y.c.state = .closed ∧ y.s.state = .closed ∧ y.c.outstanding = [] ∧ y.s.outstanding = [] ∧
        unbindSent y :=
  Proofs.C11More.closed_agreement depth sts h hq

/-- the server is never closed before the client: at *any* point of an admissible history (no
    quiescence needed) a closed server means the client sent an unbind and is closed -/
theorem server_closed_client_closed (depth : Nat) (sts : List JStep) (h : AdmissibleRun depth {} sts) :
    let y := (jrun depth {} sts).1
    y.s.state = .closed → y.c.state = .closed ∧ unbindSent y :=
  Proofs.C11More.server_closed_client_closed depth sts h

/-- the other direction needs only the client→server direction to be drained: nothing unflushed
    at the client, nothing in the pipe, nothing half received at the server -/
theorem client_closed_server_closed (depth : Nat) (sts : List JStep) (h : AdmissibleRun depth {} sts) :
    let y := (jrun depth {} sts).1
    y.c.state = .closed → y.toS = [] → y.c.out = [] → y.s.residue = [] → y.s.state = .closed :=
  Proofs.C11More.client_closed_server_closed depth sts h

/-- in admissible histories the client is closed exactly when it has sent its unbind (no receive
    ever closes it) -/
theorem client_closed_iff_unbind (depth : Nat) (sts : List JStep) (h : AdmissibleRun depth {} sts) :
    let y := (jrun depth {} sts).1
    y.c.state = .closed ↔ unbindSent y :=
  Proofs.C11More.closed_iff_unbindSent depth sts h

/-- `agreement_at_quiescence` without its two "not closed" guards: whenever all bytes have been
    delivered both sides agree on the session state (BEFORE_OPEN and OPENED alike, BINDING,
    CLOSED) and on the set of operations in progress. -/
theorem agreement_at_quiescence_total (depth : Nat) (sts : List JStep) (h : AdmissibleRun depth {} sts)
    (hq : Quiescent (jrun depth {} sts).1) :
    let y := (jrun depth {} sts).1
    stateClass y.c.state = stateClass y.s.state ∧ sameSet y.c.outstanding y.s.outstanding :=
  Proofs.C11More.agreement_total depth sts h hq

/-! ### (b) the notice of disconnection -/

/-- The notice of disconnection as RFC 4511 §4.4.1 has it — an *unsolicited* ExtendedResponse,
    message id 0 — cannot be emitted through the server session: at every point of an admissible
    history the call `extended_response(0, name=NOTICE_OF_DISCONNECTION, …)` is refused with
    `LDAPError` ("response to an unknown request": id 0 is never in progress, client ids start
    at 1), nothing is buffered or logged, the set of operations in progress is unchanged, and the
    only effect is the BEFORE_OPEN → OPENED transition of a refused send (known finding F-C08c).
    So this designed termination is not reachable by a server *call* under id 0; in the library
    the id-0 notice exists only as the bytes attached to a server-side `ProtocolError`, which an
    admissible history raises only after the client's unbind (`step_outcomes`). -/
theorem notice_id0_refused (depth : Nat) (sts : List JStep) (h : AdmissibleRun depth {} sts)
    (value : Option Bytes) (code : Int) (mdn diag : Bytes) (ctl : List Control) :
    let y := (jrun depth {} sts).1
    let r := jstep depth y (.callS (noticeCall 0 value code mdn diag ctl))
    r.2 = .ldapError ∧ r.1.s.out = y.s.out ∧ r.1.sentS = y.sentS ∧ r.1.toC = y.toC ∧
      r.1.s.outstanding = y.s.outstanding ∧
      r.1.s.state = (if y.s.state = .beforeOpen then .opened else y.s.state) ∧ r.1.c = y.c :=
  Proofs.C11More.notice_id0_refused depth sts h value code mdn diag ctl

/-- The notice of disconnection the session *does* let the server send: under the id `i` of a
    request the server application has been handed and not finally answered (any kind of
    request; also while BINDING).  After an admissible history in which the client has not
    unbound, let the server make that call, flush everything, and let all bytes in flight reach
    the client in one delivery.  Then
    * the call is accepted and the flush returns the server's pending output followed by the
      encoded notice;
    * the client's `receive` raises `ProtocolError` with **no** notification attached (`.none`:
      a client does not answer a notice with an unbind) — this is the designed termination;
    * both sessions end CLOSED, the client has no operation in progress, nothing is left in
      flight;
    * the responses that were still in flight ahead of the notice and arrived in the same
      delivery are *not* handed to the client application (`gotC` unchanged: `receive` raises
      instead of returning them);
    * every earlier outcome of the history was error-free. -/
theorem notice_termination (depth : Nat) (sts : List JStep) (h : AdmissibleRun depth {} sts)
    (i : Int) (req : Op) (value : Option Bytes) (code : Int) (mdn diag : Bytes) (ctl : List Control) (k : Nat)
    (hnu : ¬unbindSent (jrun depth {} sts).1)
    (hopen : openRequest (jrun depth {} sts).1 i = some req)
    (hwf : CallWF depth (jrun depth {} sts).1.s (noticeCall i value code mdn diag ctl))
    (hk : (jrun depth {} sts).1.toC.length + (jrun depth {} sts).1.s.out.length +
            (encMsg (noticeOf i value code mdn diag ctl)).length ≤ k) :
    let y := (jrun depth {} sts).1
    let r := jrun depth y [.callS (noticeCall i value code mdn diag ctl), .flushS none, .deliverC k]
    r.2 = [.sent i, .bytes (y.s.out ++ encMsg (noticeOf i value code mdn diag ctl)), .protocolError .none] ∧
      r.1.c.state = .closed ∧ r.1.s.state = .closed ∧ r.1.c.outstanding = [] ∧
      r.1.toC = [] ∧ r.1.s.out = [] ∧ r.1.gotC = y.gotC ∧
      r.1.sentS = y.sentS ++ [noticeOf i value code mdn diag ctl] ∧
      (∀ o ∈ (jrun depth {} sts).2, Outcome.fine o) :=
  Proofs.C11More.notice_termination depth sts h i req value code mdn diag ctl k hnu hopen hwf hk

/-- The unsolicited notice itself (message id 0, `noticeMsg`: exactly the payload a server session
    attaches to a `ProtocolError` for its application to transmit), put on the wire by the server
    application *beside* the session — the only way it can travel, by `notice_id0_refused`.
    After an admissible history in which the client has not unbound: the server flushes, the
    payload is appended to the bytes in flight (`y2`), and everything reaches the client.  The
    client's `receive` raises `ProtocolError` without notification — the designed termination —,
    the client ends CLOSED with nothing in progress, nothing is left in flight, the responses that
    arrived in the same delivery are not handed over.  The server session, which was bypassed,
    keeps its state (its application "MUST close the underlying connection").  `0 < depth`: with
    no decoding budget at all nothing is decodable. -/
theorem unsolicited_notice_termination (depth : Nat) (sts : List JStep) (h : AdmissibleRun depth {} sts)
    (diag : Bytes) (k : Nat)
    (hnu : ¬unbindSent (jrun depth {} sts).1)
    (hwf : Msg.WF {} (noticeMsg diag)) (hd : 0 < depth)
    (hk : (jrun depth {} sts).1.toC.length + (jrun depth {} sts).1.s.out.length +
            (encMsg (noticeMsg diag)).length ≤ k) :
    let y := (jrun depth {} sts).1
    let y1 := (jstep depth y (.flushS none)).1
    let y2 : Sys := { y1 with toC := y1.toC ++ encMsg (noticeMsg diag) }
    let r := jstep depth y2 (.deliverC k)
    r.2 = .protocolError .none ∧ r.1.c.state = .closed ∧ r.1.c.outstanding = [] ∧
      r.1.toC = [] ∧ r.1.gotC = y.gotC ∧ r.1.s.state = y.s.state :=
  Proofs.C11More.unsolicited_notice_termination depth sts h diag k hnu hwf hd hk

/-! ### (a) non-vacuity -/

/-- the common hypothesis of the four theorems of Props/C11.lean holds for its `sample` -/
example : AdmissibleRun defaultDepth {} sample :=
  Proofs.C11More.admRunB_sound _ _ (by decide +kernel)

/-- … and `sample` ends quiescent with *neither* side closed, so the guarded conclusions of
    `all_delivered` / `agreement_at_quiescence` say something about it -/
example : Quiescent (jrun defaultDepth {} sample).1 ∧
    (jrun defaultDepth {} sample).1.c.state = .opened ∧ (jrun defaultDepth {} sample).1.s.state = .opened := by
  unfold Quiescent; decide +kernel

/-- a full conversation: simple bind and its response; a search and an extended request
    pipelined and delivered in pieces; entry, extended response, done; then the client unbinds -/
def conversation : List JStep :=
  [.callC (.bind [] (.simple []) []), .flushC none, .deliverS 1000,
   .callS (.bindResponse 1 none 0 [] [] []), .flushS none, .deliverC 1000,
   .callC (.search [] 2 0 0 0 false none [] []), .callC (.extended [49, 46, 50] none []),
   .flushC (some 5), .deliverS 3, .flushC none, .deliverS 2, .deliverS 1000,
   .callS (.entry 2 [] [] []), .callS (.extendedResponse 3 none none 0 [] [] []),
   .flushS none, .deliverC 7, .callS (.done 2 0 [] [] []), .flushS none, .deliverC 1000]

/-- the termination by unbind, and two deliveries after it -/
def farewell : List JStep :=
  [.callC .unbind, .flushC none, .deliverS 1000, .deliverC 0, .deliverS 0]

example : AdmissibleRun defaultDepth {} (conversation ++ farewell) :=
  Proofs.C11More.admRunB_sound _ _ (by decide +kernel)

/-- before the unbind both sides are open and agree … -/
example : Quiescent (jrun defaultDepth {} conversation).1 ∧
    (jrun defaultDepth {} conversation).1.c.state = .opened ∧
    (jrun defaultDepth {} conversation).1.s.state = .opened ∧
    (jrun defaultDepth {} conversation).1.gotS.length = 3 ∧
    (jrun defaultDepth {} conversation).1.gotC.length = 4 := by
  unfold Quiescent; decide +kernel

/-- … after it both are closed at quiescence (the hypotheses of `closed_agreement` are
    satisfiable), and the only errors of the whole history are the three of `TerminationError`,
    each with the notification named there -/
example : Quiescent (jrun defaultDepth {} (conversation ++ farewell)).1 ∧
    (jrun defaultDepth {} (conversation ++ farewell)).1.c.state = .closed ∧
    (jrun defaultDepth {} (conversation ++ farewell)).1.s.state = .closed := by
  unfold Quiescent; decide +kernel

example : (jrun defaultDepth {} (conversation ++ farewell)).2.map errorOf =
    List.replicate 22 none ++ [some .none, some .unbind, some .notice] := by
  decide +kernel

/-- the hypotheses of `error_only_at_termination` are satisfiable: the arrival of the unbind -/
example : AdmissibleRun defaultDepth {} ((conversation ++ farewell.take 2) ++ .deliverS 1000 :: farewell.drop 3) ∧
    (jstep defaultDepth (jrun defaultDepth {} (conversation ++ farewell.take 2)).1 (.deliverS 1000)).2 =
      .protocolError .none :=
  ⟨Proofs.C11More.admRunB_sound _ _ (by decide +kernel), Proofs.C11More.errorOf_some (by decide +kernel)⟩

/-- a search has reached the server and is unanswered; one entry is half flushed -/
def openSearch : List JStep :=
  [.callC (.search [] 2 0 0 0 false none [] []), .flushC none, .deliverS 1000,
   .callS (.entry 1 [] [] []), .flushS (some 4)]

/-- the hypotheses of `notice_termination` are satisfiable (with an entry still in flight, half
    flushed, ahead of the notice), and its conclusion evaluates as stated -/
example : AdmissibleRun defaultDepth {} openSearch ∧
    ¬unbindSent (jrun defaultDepth {} openSearch).1 ∧
    (openRequest (jrun defaultDepth {} openSearch).1 1).isSome = true ∧
    CallWF defaultDepth (jrun defaultDepth {} openSearch).1.s (noticeCall 1 none 2 [] [111, 102, 102] []) ∧
    (jrun defaultDepth {} openSearch).1.toC.length + (jrun defaultDepth {} openSearch).1.s.out.length +
      (encMsg (noticeOf 1 none 2 [] [111, 102, 102] [])).length ≤ 1000 := by
  refine ⟨Proofs.C11More.admRunB_sound _ _ (by decide +kernel), ?_, by decide +kernel, by decide +kernel,
    by decide +kernel⟩
  unfold unbindSent; decide +kernel

example :
    let r := jrun defaultDepth (jrun defaultDepth {} openSearch).1
      [.callS (noticeCall 1 none 2 [] [111, 102, 102] []), .flushS none, .deliverC 1000]
    r.1.c.state = .closed ∧ r.1.s.state = .closed ∧ r.1.gotC.length = 0 ∧ r.1.sentS.length = 2 ∧
      r.2.map errorOf = [none, none, some .none] := by
  decide +kernel

/-- the hypotheses of `unsolicited_notice_termination` are satisfiable (the first is above) -/
example : Msg.WF {} (noticeMsg [111, 102, 102]) ∧
    (jrun defaultDepth {} openSearch).1.toC.length + (jrun defaultDepth {} openSearch).1.s.out.length +
      (encMsg (noticeMsg [111, 102, 102])).length ≤ 1000 := by
  decide +kernel

/-- the refused id-0 notice on a concrete state -/
example : (jstep defaultDepth (jrun defaultDepth {} openSearch).1
    (.callS (noticeCall 0 none 2 [] [] []))).2.accepted = false := by
  decide +kernel

end Verif.C11
