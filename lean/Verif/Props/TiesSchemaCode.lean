/-
Ties between the Lean text GENERATED from the hand-written Python of `sansldap/schema.py`
(`harness/py2lean_schema.py` → `Generated/SchemaGen.lean`, regenerated on every run) and the hand model
`Model/Schema.lean` (+ `Model/SchemaMatch.lean`) that the C16 / C17 theorems are about.

`Props/TiesSchema.lean` ties the `PATTERN.match` step (compiled pattern = scanner, every named group).  This file
ties the Python AROUND the regular expressions: the five helper functions, the three `__str__`, and the three
`from_string` (match by the model's scanner — the trusted boundary, see design_notes/py2lean_schema.md — followed
by the translated post-processing of the groups).  An edit of that Python changes the generated text, and the
theorem about the edited function stops compiling unless the edit preserves behaviour.

Status: every theorem below is proved (no `sorry`; axioms: propext, Classical.choice, Quot.sound at most).
FULL strength (all strings, all fuel above the length of the text, no side condition beyond the annotations):
  `tie_encode_oids`, `tie_encode_qdstring`, `tie_parse_qdstring`, `tie_parse_extensions(_none)`,
  `tie_dcr_str`, `tie_oc_str` (kind is an enum member), `tie_oc_from_string`, `tie_dcr_from_string`.
With an explicit side condition, and the divergence outside it proved as well:
  `tie_parse_oids`      — `str.strip()` removes ALL white space (TAB, NBSP, …), the model's `stripChars [SPC]` only
                          blanks: equal when the text has no white space other than blanks
                          (`tie_parse_oids_differs` is the witness `"a\t$b"`).  Every OIDS group of a match is such
                          a text (`oids_groups_clean_oc/dcr`: the scanner allows only `[A-Za-z0-9.$() -]` there),
                          so the divergence is not reachable through `from_string`.
  `tie_at_str`, `tie_at_from_string`
                        — CPython's `int` <-> `str` conversions refuse more than 4300 digits, the model
                          (`natDigits`, `digitsVal`) has no limit: equal up to 4300 digits; beyond, ValueError in the
                          code where the model still answers (`tie_at_str_over_limit`, `tie_at_from_string_over_limit`).
-/
import Verif.Generated.SchemaGen
import Verif.Proofs.SchemaGenHelpers
import Verif.Proofs.SchemaGenExts
import Verif.Proofs.SchemaGenStr
import Verif.Proofs.SchemaGenFrom
import Verif.Proofs.SchemaGenClean

namespace Verif.TiesSchemaCode
open Verif Verif.PyRt Verif.PyRtStr Verif.Schema Verif.SchemaGen
open Verif.Proofs.SchemaGen (NoOddWs OidsClean ofOpt ofPErr SynLenOk)

deriving instance DecidableEq for Except

/-! ### the helper functions -/

/-- `_encode_oids` = `encodeOids` (in particular `value[0]` never raises IndexError) -/
theorem tie_encode_oids (l : List Str) : encode_oids l = .ok (encodeOids l) :=
  Proofs.SchemaGen.encode_oids_eq l

example : encode_oids [ofString "cn", ofString "2.5.4.4"] = .ok (ofString "( cn $ 2.5.4.4 )") := by decide

/-- `_encode_qdstring` = `encodeQd` -/
theorem tie_encode_qdstring (v : Str) : encode_qdstring v = encodeQd v := rfl

example : encode_qdstring (ofString "it's") = ofString "'it\\27s'" := by decide

/-- `_parse_qdstring` (the `str` instance of the type variable; the `None` instance returns `None`) = `parseQd` -/
theorem tie_parse_qdstring (v : Str) : parse_qdstring v = parseQd v := rfl

theorem tie_parse_qdstring_none : parse_qdstring_None () = () := rfl

example : parse_qdstring (ofString "'a\\5Cb\\27'") = ofString "a\\b'" := by decide

/-- `_parse_oids` = `parseOids` on every text without white space other than blanks -/
theorem tie_parse_oids (v : Option Str) (h : OidsClean v) : parse_oids v = parseOids v :=
  Proofs.SchemaGen.parse_oids_eq v h

/-- … and they differ on `"a\t$b"` (`str.strip()` removes the TAB) -/
theorem tie_parse_oids_differs :
    parse_oids (some [97, 9, 36, 98]) = [[97], [98]] ∧ parseOids (some [97, 9, 36, 98]) = [[97, 9], [98]] :=
  Proofs.SchemaGen.parse_oids_differs

example : parse_oids (some (ofString "( cn $sn  $ 2.5.4.4 )")) = [ofString "cn", ofString "sn", ofString "2.5.4.4"] := by
  decide

/-- `_parse_extensions` = `parseExts`: the same association list (insertion order, later assignment to the same
    key overwrites in place) or the same ValueError, for every text and every fuel above its length -/
theorem tie_parse_extensions (fuel : Nat) (v : Str) (h : v.length < fuel) :
    parse_extensions fuel (some v) = ofOpt (parseExts v) :=
  Proofs.SchemaGen.parse_extensions_some fuel v h

theorem tie_parse_extensions_none (fuel : Nat) : parse_extensions fuel none = .ok [] := rfl

example : parse_extensions 100 (some (ofString " X-a 'b'  X-c ( 'd' 'e\\27' ) X-a 'z'")) =
    .ok [(ofString "a", [ofString "z"]), (ofString "c", [ofString "d", ofString "e'"])] := by decide

example : parse_extensions 100 (some (ofString " X-a  b")) = .error .valueError := by decide

/-! ### `__str__` -/

/-- `ObjectClassDescription.__str__` = `ocToText` (`kind` is a member of `ObjectClassKind`) -/
theorem tie_oc_str (d : ObjectClass) (hk : d.kind ≤ 2) : ObjectClassDescription_str d = .ok (ocToText d) :=
  Proofs.SchemaGen.oc_str_eq d hk

example : ObjectClassDescription_str
    { oid := ofString "2.5.6.6", names := [ofString "person"], sup := [ofString "top"], kind := 1,
      must := [ofString "sn", ofString "cn"], exts := [(ofString "ORIGIN", [ofString "RFC 4519"])] } =
    .ok (ofString "( 2.5.6.6 NAME 'person' SUP top STRUCTURAL MUST ( sn $ cn ) X-ORIGIN 'RFC 4519' )") := by decide

/-- `DITContentRuleDescription.__str__` = `dcrToText` -/
theorem tie_dcr_str (d : DITContentRule) : DITContentRuleDescription_str d = .ok (dcrToText d) :=
  Proofs.SchemaGen.dcr_str_eq d

example : DITContentRuleDescription_str { oid := ofString "2.5.6.4", obsolete := true, never := [ofString "x121Address"] } =
    .ok (ofString "( 2.5.6.4 OBSOLETE NOT x121Address )") := by decide

/-- `AttributeTypeDescription.__str__` = `atToText` (`usage` is a member of `AttributeTypeUsage`; the decimal text
    of `syntax_length` has at most `intMaxStrDigits` = 4300 digits) -/
theorem tie_at_str (d : AttributeType) (hu : d.usage ≤ 3)
    (hl : ∀ n, d.synLen = some n → (natDigits n).length ≤ intMaxStrDigits) :
    AttributeTypeDescription_str d = .ok (atToText d) :=
  Proofs.SchemaGen.at_str_eq d hu hl

/-- … and beyond the limit the code raises ValueError where the model still produces text -/
theorem tie_at_str_over_limit (d : AttributeType) (s : Str) (n : Nat) (hs : d.syn = some s) (hn : d.synLen = some n)
    (hl : (natDigits n).length > intMaxStrDigits) :
    AttributeTypeDescription_str d = .error .valueError :=
  Proofs.SchemaGen.at_str_over_limit d s n hs hn hl

set_option maxRecDepth 4000 in
example : AttributeTypeDescription_str
    { oid := ofString "2.5.4.3", names := [ofString "cn", ofString "c"], sup := some (ofString "name"),
      syn := some (ofString "1.3.6"), synLen := some 64, singleValue := true, usage := 3 } =
    .ok (ofString "( 2.5.4.3 NAME ( 'cn' 'c' ) SUP name SYNTAX 1.3.6{64} SINGLE-VALUE USAGE dSAOperation )") := by
  decide

/-! ### `from_string` -/

/-- `AttributeTypeDescription.from_string` = `parseAT` (the model's error is ValueError), for every text and every
    fuel above its length, when a SYNTAX length (if any) has at most 4300 digits -/
theorem tie_at_from_string (fuel : Nat) (s : Str) (hf : s.length < fuel)
    (hc : ∀ g, matchAT s = some g → SynLenOk g.syn) :
    AttributeTypeDescription_from_string fuel s = ofPErr (parseAT s) :=
  Proofs.SchemaGen.at_from_string_eq fuel s hf hc

/-- … beyond the limit: ValueError from `int()`, where the model accepts -/
theorem tie_at_from_string_over_limit (fuel : Nat) (s : Str) (g : ATGroups) (raw v l : Str)
    (hm : matchAT s = some g) (hs : g.syn = some raw)
    (hn : noidlenMatch (stripChars [QUOTE] raw) = some (v, l)) (hl : l.length > intMaxStrDigits) :
    AttributeTypeDescription_from_string fuel s = .error .valueError ∧
    (∀ e, parseExts (g.extensions.getD []) = some e → ∃ d, parseAT s = .ok d ∧ d.synLen = some (digitsVal l)) :=
  Proofs.SchemaGen.at_from_string_over_limit fuel s g raw v l hm hs hn hl

example : (AttributeTypeDescription_from_string 200
      (ofString "( 2.5.4.3 NAME 'cn' SYNTAX '1.3.6{64}' NO-USER-MODIFICATION USAGE directoryOperation X-a 'b' )")).toOption =
    some { oid := ofString "2.5.4.3", names := [ofString "cn"], syn := some (ofString "1.3.6"), synLen := some 64,
           noUserMod := true, usage := 1, exts := [(ofString "a", [ofString "b"])] } := by decide

/-- every OIDS group of an object-class match is free of white space other than blanks -/
theorem oids_groups_clean_oc {s : Str} {g : OCGroups} (h : matchOC s = some g) :
    OidsClean g.sup ∧ OidsClean g.must ∧ OidsClean g.may :=
  Proofs.SchemaGen.matchOC_clean h

theorem oids_groups_clean_dcr {s : Str} {g : DCRGroups} (h : matchDCR s = some g) :
    OidsClean g.aux ∧ OidsClean g.must ∧ OidsClean g.may ∧ OidsClean g.never :=
  Proofs.SchemaGen.matchDCR_clean h

/-- `ObjectClassDescription.from_string` = `parseOC` (the model's error is ValueError), for every text and every
    fuel above its length -/
theorem tie_oc_from_string (fuel : Nat) (s : Str) (hf : s.length < fuel) :
    ObjectClassDescription_from_string fuel s = ofPErr (parseOC s) :=
  Proofs.SchemaGen.oc_from_string_full fuel s hf

example : (ObjectClassDescription_from_string 200
      (ofString "( 2.5.6.6 NAME 'person' DESC 'a\\27b' SUP top AUXILIARY MUST ( sn $ cn ) X-a ( 'b' 'c' ) )")).toOption =
    some { oid := ofString "2.5.6.6", names := [ofString "person"], desc := some (ofString "a'b"), sup := [ofString "top"],
           kind := 2, must := [ofString "sn", ofString "cn"], exts := [(ofString "a", [ofString "b", ofString "c"])] } := by
  decide

example : ObjectClassDescription_from_string 200 (ofString "( 2.5.6.6 NAME person )") = .error .valueError := by decide

/-- `DITContentRuleDescription.from_string` = `parseDCR`, for every text and every fuel above its length -/
theorem tie_dcr_from_string (fuel : Nat) (s : Str) (hf : s.length < fuel) :
    DITContentRuleDescription_from_string fuel s = ofPErr (parseDCR s) :=
  Proofs.SchemaGen.dcr_from_string_full fuel s hf

example : (DITContentRuleDescription_from_string 200
      (ofString "( 2.5.6.4 OBSOLETE AUX ( a $ b ) NOT c )")).toOption =
    some { oid := ofString "2.5.6.4", obsolete := true, aux := [ofString "a", ofString "b"], never := [ofString "c"] } := by
  decide

end Verif.TiesSchemaCode
