/-
C18 (continued) — the hand-written filter string parser, step by step.

`Props/C18Filter.lean` bounds the number of CALLS of `_unpack_filter`, `_unpack_complex_filter`
and `_unpack_simple_filter` (≤ n+1).  This file bounds the WORK: `Model/FilterSteps.lean` is the
parser of `Model/FilterText.lean` in which every function also returns the steps it performs — one
per loop iteration and per octet touched by a scan, a copy, a split, `strip`, `encode`; the
regular expressions are charged their proved search-tree bounds (`347·(len+1)²` for
`_ATTRIBUTE_PATTERN`, `C18.filter_attribute_pattern_explicit`; `9·(len+1)` for the `re.sub` of the
escape pattern, `C18.escape_sub_cost_explicit`).  The table of charges is at the head of the model.

Results, for EVERY input (valid or not) and every recursion budget:

* the step-counting parser returns what the parser returns;
* its steps are at most `2(N+1) + 32(n+1) + 347(n+1)²`, `N` = code points of the argument,
  `n` = octets of the stripped, UTF-8 encoded text (`n ≤ 4N`); hence at most `5682·(N+1)²`;
* the QUADRATIC term is the attribute-pattern charge alone.  With that charge set to 0 the parser's
  own scanning, copying and splitting is LINEAR: at most `2(N+1) + 32(n+1) ≤ 130(N+1)` steps.
  The reason is that the Python code passes `(view, offset, length)` and slices a `memoryview`
  (O(1), no copy), and that every scan a successful call makes stays inside the bytes that call
  consumes: a nested filter `(!(!(…(a=b)…)))` does NOT rescan its slice at each level (13 steps per
  level, see the examples).  Only a FAILING call may scan a whole slice without consuming it, and a
  failure ends the parse.  (The prose argument "calls × linear work per call = quadratic" in
  DESIGN.md is sound but not tight; the per-call statement it relied on is
  `filter_steps_linear_per_call` below.)
* each attribute description is matched once, and the matched pieces are disjoint; since
  `a² + b² ≤ (a+b)²` the charges add up to at most `347·(n+1)²`, not to calls × `347·(n+1)²`.
-/
import Verif.Model.FilterSteps
import Verif.Proofs.FilterStepsTop

namespace Verif.C18
open Verif Verif.FilterSteps

/-- the step-counting parser computes exactly the parser's result -/
theorem filter_steps_same_result (depth : Nat) (s : List Nat) :
    (parseFilterTextS depth s).1 = parseFilterText depth s :=
  Proofs.FilterSteps.filter_steps_same_result depth s

/-- sharp form: `N = s.length` code points given, `n` octets after `strip` and `encode` -/
theorem filter_steps_bound (depth : Nat) (s : List Nat) :
    (parseFilterTextS depth s).2 ≤
      2 * (s.length + 1) + 32 * ((utf8Encode (pyStrip s)).length + 1)
        + 347 * ((utf8Encode (pyStrip s)).length + 1) ^ 2 :=
  Proofs.FilterSteps.filter_steps_bound depth s

/-- at most quadratic in the length of the argument (in code points; `strip` inspects code points
    that are not part of the encoded text, so the encoded length alone cannot bound the steps) -/
theorem filter_steps_quadratic (depth : Nat) (s : List Nat) :
    (parseFilterTextS depth s).2 ≤ 5682 * (s.length + 1) ^ 2 :=
  Proofs.FilterSteps.filter_steps_quadratic depth s

/-- without the attribute-pattern charge (`K = 0`) the steps are linear -/
theorem filter_scan_steps_linear (depth : Nat) (s : List Nat) :
    (parseFilterTextSK 0 depth s).2 ≤
      2 * (s.length + 1) + 32 * ((utf8Encode (pyStrip s)).length + 1) :=
  Proofs.FilterSteps.filter_scan_steps_linear depth s

theorem filter_scan_steps_linear' (depth : Nat) (s : List Nat) :
    (parseFilterTextSK 0 depth s).2 ≤ 130 * (s.length + 1) :=
  Proofs.FilterSteps.filter_scan_steps_linear' depth s

/-- for any coefficient `K` of the attribute-pattern charge -/
theorem filter_steps_bound_K (K depth : Nat) (s : List Nat) :
    (parseFilterTextSK K depth s).2 ≤
      2 * (s.length + 1) + 32 * ((utf8Encode (pyStrip s)).length + 1)
        + K * ((utf8Encode (pyStrip s)).length + 1) ^ 2 :=
  Proofs.FilterSteps.steps_bound_K' K depth s

theorem filter_steps_same_result_K (K depth : Nat) (s : List Nat) :
    (parseFilterTextSK K depth s).1 = parseFilterText depth s :=
  Proofs.FilterSteps.steps_same_result_K K depth s

/-- ONE call's own work, the steps of its sub-calls not counted (`free`): a call of
    `_unpack_simple_filter` (which makes no sub-calls; its helpers `_unpack_filter_value`,
    `_unpack_filter_extensible_header`, `_unpack_filter_substrings_value` are its own work) is
    linear in its slice plus the attribute charge; a call of `_unpack_complex_filter` and a call
    of `_unpack_filter` perform at most one step per byte of their slice, plus one -/
theorem filter_steps_linear_per_call :
    (∀ (K : Nat) (cur : Bytes) (off : Nat),
      (unpackSimpleS K cur off).2 ≤ 32 * (cur.length + 1) + K * (cur.length + 1) ^ 2) ∧
    (∀ (uf : Bytes → Nat → R × Nat) (cur : Bytes) (off : Nat),
      (unpackComplexS (free uf) cur off).2 ≤ cur.length + 1) ∧
    (∀ (cx sm : Bytes → Nat → R × Nat) (cur : Bytes) (off : Nat),
      (filterBodyS (free cx) (free sm) cur off).2 ≤ cur.length + 1) :=
  Proofs.FilterSteps.filter_steps_linear_per_call

/-- `free` only drops the sub-calls' steps; the call computes the same result -/
theorem free_same_result_complex (uf : Bytes → Nat → R × Nat) (cur : Bytes) (off : Nat) :
    (unpackComplexS (free uf) cur off).1 = (unpackComplexS uf cur off).1 :=
  Proofs.FilterSteps.free_same_result_complex uf cur off

/-! ### non-vacuity and tightness -/

/-- `(!(!(…(a=b)…)))`: the parser's own steps grow by exactly 13 per nesting level — linear, no
    rescanning (the attribute `a` is matched once: `347·2²` more with the charge) -/
example : (parseFilterTextSK 0 200 (nestedNot 10)).2 = 174 := by decide +kernel
example : (parseFilterTextSK 0 200 (nestedNot 20)).2 = 304 := by decide +kernel
example : (parseFilterTextSK 0 200 (nestedNot 40)).2 = 564 := by decide +kernel
example : (parseFilterTextS 200 (nestedNot 40)).2 = 564 + 347 * 2 ^ 2 := by decide +kernel
example : (parseFilterTextS 200 (nestedNot 10)).1 = parseFilterText 200 (nestedNot 10) := by rfl

/-- `(aa…a=b)`: the quadratic term is attained, by the attribute-pattern charge: doubling the
    attribute multiplies the steps by about 3.6 -/
example : (parseFilterTextS 200 (longAttr 10)).2 = 89 + 347 * 11 ^ 2 := by decide +kernel
example : (parseFilterTextS 200 (longAttr 20)).2 = 139 + 347 * 21 ^ 2 := by decide +kernel
example : (parseFilterTextSK 0 200 (longAttr 20)).2 = 139 := by decide +kernel

/-- `(aa…a` without '=': the failing call scans its whole slice — about 3 steps per byte -/
example : (parseFilterTextSK 0 200 (noEquals 100)).2 = 308 := by decide +kernel
example : (parseFilterTextSK 0 200 (noEquals 200)).2 = 608 := by decide +kernel

/-- the bound at a few hundred bytes: a 255-code-point argument costs at most 372 375 552 steps -/
example (depth : Nat) (s : List Nat) (h : s.length = 255) :
    (parseFilterTextS depth s).2 ≤ 372375552 := by
  have := filter_steps_quadratic depth s
  rw [h] at this
  exact this

end Verif.C18
