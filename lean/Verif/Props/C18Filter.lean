/-
C18 (continued) — the hand-written filter string parser.

`Model/FilterCost.lean` is the recursive-descent parser of `Model/FilterText.lean` with a
counter for the calls of `_unpack_filter`, `_unpack_complex_filter` and
`_unpack_simple_filter` (the harness counts the same calls on the implementation with a
profiler hook and compares the numbers exactly).  For EVERY input — valid or not, any nesting,
any recursion budget — the counting parser returns what the parser returns, and makes at most
one call per input byte plus one.  Each call scans the slice it is given a bounded number of
times from left to right, so the parser's work is at most quadratic in the input length: there
is no family of filter strings on which it doubles with each added character (a retry of a
failed sub-filter, for instance, would make the call count 2^depth and break this theorem's
correspondence).
-/
import Verif.Model.FilterCost
import Verif.Proofs.FilterCost

namespace Verif.C18
open Verif

/-- the counting parser computes exactly the parser's result -/
theorem filter_counting_same_result (depth : Nat) (s : List Nat) :
    (FilterCost.parseFilterTextC depth s).1 = parseFilterText depth s :=
  Proofs.FilterCostP.counting_same_result depth s

/-- at most one parser-function call per byte of the (stripped, UTF-8 encoded) text, plus one -/
theorem filter_calls_linear (depth : Nat) (s : List Nat) :
    (FilterCost.parseFilterTextC depth s).2 ≤ (utf8Encode (pyStrip s)).length + 1 :=
  Proofs.FilterCostP.calls_linear depth s

/-! non-vacuity: `(!(a=b))` makes 4 calls; the unclosed `(!(!(!(a=` makes 7 (9 bytes) -/
example : (FilterCost.parseFilterTextC 50 [40, 33, 40, 97, 61, 98, 41, 41]).2 = 4 := by rfl
example : (FilterCost.parseFilterTextC 50 [40, 33, 40, 33, 40, 33, 40, 97, 61]).2 = 7 := by rfl

end Verif.C18
