/-
Ties for the PRINTER half of `sansldap/_filter.py`: the Lean text GENERATED from `__str__` of the ten
filter classes and from `_serialize_filter_value` (`Verif/Generated/FilterGen.lean`, written by
`harness/py2lean.py` on every run) equals the hand-written printer `toText` / `escapeValue` of
`Verif/Model/FilterText.lean` — the printer C13 (filter → text → filter) is about.

Representation (as in the parser half): a Python `str` is its UTF-8 octets, so `str(f)` is the octet
list `toText f`; the text fields of a filter object (`attribute`, `rule`) are the octet lists held by
the model's `Filter` (the UTF-8 encoding of the Python strings).  With that reading NO well-formedness
hypothesis is needed: every `__str__` only copies the text fields (f-string fields, `":".join`), so the
equalities hold for every octet list in those fields, decodable or not.  (An f-string on a `bytes`
field would print its `repr`; the translator rejects an f-string field that is not text or a filter.)

`Filter.custom` has no class in `_filter.py`; the generated dispatcher gives it the model's convention
(no text form, `[]`), so `tie_filter_str` is literally for every tree and says something about Python for
the trees without `custom` nodes.

`.decode("utf-8")` in `_serialize_filter_value` is strict; `serialize_filter_value_ascii` shows the
substituted octets are ASCII for every bytes value (octets < 256), so it cannot raise and is the
identity in this representation.

Trusted boundary of this half: the runtime primitives of `Verif/FilterRtStr.lean` (`reSubOctetClass`,
`fmtHex02`, `strJoin`, `pyOr`, `decodeUtf8`) and the table `Facts.escapedBytes` for the character class
of `_STRING_ESCAPE_PATTERN` (tied to the regular expression by `Ties.string_escape_class`).
Proofs: `Verif/Proofs/FilterGenStr.lean`.  Axioms: propext, Quot.sound (and Classical.choice at most).
-/
import Verif.Proofs.FilterGenStr

namespace Verif.TiesFilterStr

open Verif Verif.FilterRt Verif.FilterGen

/-! ### `_serialize_filter_value` — for every octet list -/

theorem tie_serialize_filter_value (v : Bytes) : serialize_filter_value v = escapeValue v :=
  FilterGenStr.serialize_filter_value_eq v

/-- the text written is ASCII, so the strict `.decode("utf-8")` of the Python cannot raise -/
theorem serialize_filter_value_ascii (v : Bytes) (hv : ∀ b ∈ v, b < 256) :
    ∀ c ∈ serialize_filter_value v, c < 127 :=
  FilterGenStr.serialize_filter_value_ascii v hv

example : serialize_filter_value [97, 42, 0, 255, 92, 40, 41, 126, 127] =
    [97, 92, 50, 97, 92, 48, 48, 92, 102, 102, 92, 53, 99, 92, 50, 56, 92, 50, 57, 126, 92, 55, 102] := by decide
example : serialize_filter_value [] = [] := by decide

/-! ### the seven leaf classes, as functions of their fields -/

theorem tie_FilterEquality_str (a v : Bytes) : FilterEquality_str a v = toText (.eq a v) :=
  FilterGenStr.FilterEquality_str_eq a v
theorem tie_FilterSubstrings_str (a : Bytes) (i : Option Bytes) (any : List Bytes) (f : Option Bytes) :
    FilterSubstrings_str a i any f = toText (.substr a i any f) :=
  FilterGenStr.FilterSubstrings_str_eq a i any f
theorem tie_FilterGreaterOrEqual_str (a v : Bytes) : FilterGreaterOrEqual_str a v = toText (.ge a v) :=
  FilterGenStr.FilterGreaterOrEqual_str_eq a v
theorem tie_FilterLessOrEqual_str (a v : Bytes) : FilterLessOrEqual_str a v = toText (.le a v) :=
  FilterGenStr.FilterLessOrEqual_str_eq a v
theorem tie_FilterPresent_str (a : Bytes) : FilterPresent_str a = toText (.present a) :=
  FilterGenStr.FilterPresent_str_eq a
theorem tie_FilterApproxMatch_str (a v : Bytes) : FilterApproxMatch_str a v = toText (.approx a v) :=
  FilterGenStr.FilterApproxMatch_str_eq a v
theorem tie_FilterExtensibleMatch_str (rule attr : Option Bytes) (v : Bytes) (dn : Bool) :
    FilterExtensibleMatch_str rule attr v dn = toText (.ext rule attr v dn) :=
  FilterGenStr.FilterExtensibleMatch_str_eq rule attr v dn

-- (cn=a*b*) with initial "a", any ["b"], no final; (:dn:2.5:=x); (cn:=x) ; initial b"" prints like None
example : FilterSubstrings_str [99, 110] (some [97]) [[98]] none = [40, 99, 110, 61, 97, 42, 98, 42, 41] := by decide
example : FilterSubstrings_str [99] (some []) [] (some [40]) = [40, 99, 61, 42, 92, 50, 56, 41] := by decide
example : FilterExtensibleMatch_str (some [50, 46, 53]) none [120] true =
    [40, 58, 100, 110, 58, 50, 46, 53, 58, 61, 120, 41] := by decide
example : FilterExtensibleMatch_str none (some [99, 110]) [120] false = [40, 99, 110, 58, 61, 120, 41] := by decide

/-! ### `str(f)` — for every filter tree (structural induction; and / or / not are the recursive arms) -/

theorem tie_filter_str (f : Filter) : Filter_str f = toText f :=
  FilterGenStr.Filter_str_eq f

/-- `"".join(str(f) for f in filters)` -/
theorem tie_filter_str_map (fs : List Filter) : (Filter_str_map fs).flatten = toTexts fs :=
  FilterGenStr.Filter_str_map_eq fs

-- (&(a=b)(!(c=*))(|))
example : Filter_str (.and [.eq [97] [98], .not (.present [99]), .or []]) =
    [40, 38, 40, 97, 61, 98, 41, 40, 33, 40, 99, 61, 42, 41, 41, 40, 124, 41, 41] := by
  simp [Filter_str, Filter_str_map, FilterEquality_str, FilterPresent_str, strJoin]; decide

end Verif.TiesFilterStr
