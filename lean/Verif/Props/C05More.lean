/-
C05 — second batch of statements (audit item 5 and the cross-cutting fuel note).

Part 1 (fuel).  The model's BER decoder runs its `while reader:` loops on fuel = input length and
returns `.error .recursion` when the fuel runs out; `recv` turns every error into the protocol
error, so a fuel artefact would be indistinguishable from a correct fail-closed.  The theorems
below show that it cannot happen: every loop gives the same result for every fuel ≥ the input
length, none of them ever produces `.recursion` by itself, and the only source of `.recursion` —
the *depth* budget of `decFilter`, which models Python's RecursionError and is a real limit — strikes
only on inputs that really contain that many nested and/or/not Filter elements
(`FilterDeeper`, defined in `Spec/C05More.lean` over an independent element splitter).

Part 2 (notification).  `Outcome.protocolError` carries a three-valued tag.  `notifBytes` (Spec)
gives the octets the tag stands for; the theorems tie them to `recv`: which tag occurs when
(`recv_error_characterised`, `notification_none_iff`), that the tag matches the role, and that the
octets decode — with the independent strict decoder `Rfc.decode` and with the library's own decoder —
to exactly the Notice of Disconnection / UnbindRequest (`notification_bytes`).
-/
import Verif.Spec.C05More
import Verif.Spec.Rfc4511
import Verif.Spec.WF
import Verif.Proofs.C05More

namespace Verif.C05
open Verif Verif.C05More

/-! ## Part 1 — fuel -/

/-- Fuel irrelevance of the generic `while reader: x = dec1(reader)` loop: for an element decoder
    that consumes at least one octet per successful call, any fuel ≥ the input length gives the
    result of fuel = input length (which is what every call site in the model passes). -/
theorem loopMany_fuel_irrelevant {α : Type} (dec1 : Bytes → Except Err (α × Bytes)) (hp : Progress dec1)
    (n : Nat) (bs : Bytes) (h : bs.length ≤ n) : loopMany dec1 n bs = loopMany dec1 bs.length bs :=
  Proofs.C05More.loopMany_fuel_irrelevant dec1 hp n bs h

/-- … and every element decoder the model ever passes to `loopMany` (nested filters, controls,
    referral / attribute-name / URI strings, attribute values, partial attributes) or to
    `parseLoop` (`decMsg`) does make progress, whatever the registrations, depth budget and
    expected tag. -/
theorem element_decoders_progress (regs : Regs) (d : Nat) (e : Option Tag) :
    Progress (decFilter regs d) ∧ Progress (decControl regs) ∧ Progress (readText e) ∧
      Progress (readOctets e) ∧ Progress decAttr ∧ Progress (decMsg regs d) :=
  Proofs.C05More.element_decoders_progress regs d e

/-- fuel irrelevance of the substrings loop of `FilterSubstrings.unpack` -/
theorem decSubstrLoop_fuel_irrelevant (n : Nat) (bs : Bytes) (acc : SubstrAcc) (h : bs.length ≤ n) :
    decSubstrLoop n bs acc = decSubstrLoop bs.length bs acc :=
  Proofs.C05More.decSubstrLoop_fuel_irrelevant n bs acc h

/-- fuel irrelevance of the loop of `FilterExtensibleMatch.unpack` -/
theorem decExtLoop_fuel_irrelevant (n : Nat) (bs : Bytes) (acc : ExtAcc) (h : bs.length ≤ n) :
    decExtLoop n bs acc = decExtLoop bs.length bs acc :=
  Proofs.C05More.decExtLoop_fuel_irrelevant n bs acc h

/-- fuel irrelevance of the trailing-option loops of BindResponse / ExtendedRequest /
    ExtendedResponse -/
theorem decOptLoop_fuel_irrelevant (n1 : Nat) (text1 : Bool) (n2 : Option Nat) (n : Nat) (bs : Bytes)
    (a b : Option Bytes) (h : bs.length ≤ n) :
    decOptLoop n1 text1 n2 n bs a b = decOptLoop n1 text1 n2 bs.length bs a b :=
  Proofs.C05More.decOptLoop_fuel_irrelevant n1 text1 n2 n bs a b h

/-- fuel irrelevance of the `while message:` loop of `unpack_ldap_message` (controls and the
    MS-ADTS responseName) -/
theorem decEnvelopeLoop_fuel_irrelevant (regs : Regs) (n : Nat) (bs : Bytes) (cs : List Control)
    (rn : Option Bytes) (h : bs.length ≤ n) :
    decEnvelopeLoop regs n bs cs rn = decEnvelopeLoop regs bs.length bs cs rn :=
  Proofs.C05More.decEnvelopeLoop_fuel_irrelevant regs n bs cs rn h

/-- fuel irrelevance of the `while reader:` loop of `LDAPSession.receive` (the one loop of
    Model/Session.lean that takes fuel) -/
theorem parseLoop_fuel_irrelevant (regs : Regs) (depth n : Nat) (bs : Bytes) (h : bs.length ≤ n) :
    parseLoop regs depth n bs = parseLoop regs depth bs.length bs :=
  Proofs.C05More.parseLoop_fuel_irrelevant regs depth n bs h

/-- The fuel-taking loops of Model/Ber.lean are on the *writer* side (`digits128` for high tag
    numbers, `digits256` for long-form lengths, `intEmit` for INTEGER contents); they truncate
    instead of failing when fuel runs out.  Any fuel ≥ the number being written gives the result
    of the fuel the writers pass (`n + 1`, `n + 1`, `n`), so nothing is ever truncated. -/
theorem writer_loops_fuel_irrelevant (f n : Nat) (h : n ≤ f) (neg : Bool) (limit : Nat) :
    digits128 f n = digits128 (n + 1) n ∧ digits256 f n = digits256 (n + 1) n ∧
      intEmit neg limit f n = intEmit neg limit n n :=
  Proofs.C05More.writer_loops_fuel_irrelevant f n h neg limit

/-- … and the length octets the writer produces are those of the fuel-free DER length function
    of the specification (`Spec/C05More.derLen`, well-founded recursion, no fuel). -/
theorem packLen_fuel_free (n : Nat) : packLen n = derLen n :=
  Proofs.C05More.packLen_fuel_free n

/-- The fuel-exhaustion branches of the four accumulating loops are unreachable: run on fuel ≥
    input length they never return `.error .recursion`, for any accumulator, option numbers and
    registrations (their bodies call only primitive readers, `decControl` and `skipValue`). -/
theorem loops_never_exhaust_fuel (regs : Regs) (n : Nat) (bs : Bytes) (h : bs.length ≤ n) :
    (∀ acc, decSubstrLoop n bs acc ≠ .error .recursion) ∧
    (∀ acc, decExtLoop n bs acc ≠ .error .recursion) ∧
    (∀ n1 t1 n2 a b, decOptLoop n1 t1 n2 n bs a b ≠ .error .recursion) ∧
    (∀ cs rn, decEnvelopeLoop regs n bs cs rn ≠ .error .recursion) :=
  Proofs.C05More.loops_never_exhaust_fuel regs n bs h

/-- The fuel-exhaustion branch of `loopMany` is unreachable: if the element decoder makes
    progress and never returns `.recursion`, neither does the loop (fuel ≥ input length). -/
theorem loopMany_never_exhausts_fuel {α : Type} (dec1 : Bytes → Except Err (α × Bytes)) (hp : Progress dec1)
    (hn : ∀ bs, dec1 bs ≠ .error .recursion) (n : Nat) (bs : Bytes) (h : bs.length ≤ n) :
    loopMany dec1 n bs ≠ .error .recursion :=
  Proofs.C05More.loopMany_never_exhausts_fuel dec1 hp hn n bs h

/-- The depth budget is the only source of `.recursion` in the Filter decoder, and it is a
    real limit: if `decFilter regs d bs` fails with `.recursion`, then `bs` really starts with a
    chain of `d` nested and [0] / or [1] / not [2] elements (each a member of the previous one's
    contents) with one more Filter position inside — more nested `LDAPFilter.unpack` activations
    than the budget `d` allows.  `FilterDeeper` is defined over the specification's own element
    splitter, not over the model's readers. -/
theorem filter_recursion_is_nesting (regs : Regs) (d : Nat) (bs : Bytes)
    (h : decFilter regs d bs = .error .recursion) : FilterDeeper d bs :=
  Proofs.C05More.filter_recursion_is_nesting regs d bs h

/-- `unpack_ldap_message` fails with RecursionError only on an LDAPMessage that is a
    SearchRequest whose `filter` field nests deeper than the budget: every other operation,
    the controls, the envelope and all the loops never produce it. -/
theorem decMsg_recursion_is_nesting (regs : Regs) (d : Nat) (bs : Bytes)
    (h : decMsg regs d bs = .error .recursion) : SearchFilterDeeper d bs :=
  Proofs.C05More.decMsg_recursion_is_nesting regs d bs h

/-- recv-level corollary: whenever the parse loop of `receive` — on the fuel `recv` passes, or any
    larger — ends in `.recursion`, the buffer holds, after `k` whole top-level elements, a
    SearchRequest whose filter nests deeper than the depth budget.  So the `.recursion` that `recv`
    turns into a protocol error is never a fuel artefact. -/
theorem parseLoop_recursion_is_nesting (regs : Regs) (d n : Nat) (buf : Bytes) (hn : buf.length ≤ n)
    (h : parseLoop regs d n buf = .error .recursion) :
    ∃ k suf, AfterElements k buf suf ∧ SearchFilterDeeper d suf :=
  Proofs.C05More.parseLoop_recursion_is_nesting regs d n buf hn h

/-- what such nesting costs in octets: two per level, plus the 18 octets of headers and fixed
    fields that surround the filter of a SearchRequest -/
theorem nesting_needs_length (k : Nat) (bs : Bytes) :
    (FilterDeeper k bs → 2 * k ≤ bs.length) ∧ (SearchFilterDeeper k bs → 2 * k + 18 ≤ bs.length) :=
  Proofs.C05More.nesting_needs_length k bs

/-- hence a buffer shorter than `2 * depth + 18` octets never makes the parse loop fail with
    `.recursion` (with `defaultDepth = 300`: anything under 618 octets) -/
theorem short_input_no_recursion (regs : Regs) (d n : Nat) (buf : Bytes) (hn : buf.length ≤ n)
    (hs : buf.length < 2 * d + 18) : parseLoop regs d n buf ≠ .error .recursion :=
  Proofs.C05More.short_input_no_recursion regs d n buf hn hs

/-- The depth budget only limits: unless the parse under the smaller budget `d` is a `.recursion`
    failure, `receive` under any larger budget `d'` returns exactly the same session and outcome. -/
theorem recv_depth_irrelevant (d d' : Nat) (s : Sess) (chunk : Bytes) (hd : d ≤ d')
    (h : parseLoop s.regs d (s.residue ++ chunk).length (s.residue ++ chunk) ≠ .error .recursion) :
    recv d' s chunk = recv d s chunk :=
  Proofs.C05More.recv_depth_irrelevant d d' s chunk hd h

/-- the same for one message … -/
theorem decMsg_depth_irrelevant (regs : Regs) (d d' : Nat) (bs : Bytes) (hd : d ≤ d')
    (h : decMsg regs d bs ≠ .error .recursion) : decMsg regs d' bs = decMsg regs d bs :=
  Proofs.C05More.decMsg_depth_irrelevant regs d d' bs hd h

/-- … and conversely a `.recursion` failure persists under every smaller budget -/
theorem decMsg_recursion_mono (regs : Regs) (d d' : Nat) (bs : Bytes) (hd : d' ≤ d)
    (h : decMsg regs d bs = .error .recursion) : decMsg regs d' bs = .error .recursion :=
  Proofs.C05More.decMsg_recursion_mono regs d d' bs hd h

/-! ## Part 2 — the notification -/

/-- `notifBytes` (written from RFC 4511 with the specification's own DER writer) yields exactly
    the octets of the model's `encMsg (noticeMsg diag)` / `encMsg unbindMsg`, which is what the
    harness compares `ProtocolError.response` with. -/
theorem notifBytes_is_model_encoding (diag : Bytes) :
    notifBytes .notice diag = some (encMsg (noticeMsg diag)) ∧
      notifBytes .unbind diag = some (encMsg unbindMsg) ∧ notifBytes .none diag = none :=
  Proofs.C05More.notifBytes_is_model_encoding diag

/-- Notification clause of C05, tied to `recv`.  For every session (reachable or not, either role)
    and every chunk, if `receive` raises the protocol error with notification tag `n`, then the tag
    matches the role, and the octets it stands for are well formed:

    * server, `.notice`: for every diagnostic text (UTF-8, shorter than 256^125 octets) the octets
      are read by the independent strict decoder `Rfc.decode` as exactly the Notice of
      Disconnection — message id 0, ExtendedResponse, result protocolError (2), empty matchedDN,
      that diagnostic text, responseName 1.3.6.1.4.1.1466.20036, no value, no controls — and by
      the library's decoder likewise (any registrations, any positive depth budget), nothing left
      over;
    * client, `.unbind`: the octets are `30 05 02 01 00 62 00`; the library's decoder reads them as
      UnbindRequest with message id 0; the strict decoder rejects them and accepts them once the
      constructed bit of the protocolOp identifier is cleared (known finding F-C03 / F-C05u);
    * `.none` (either role): nothing is attached;
    * a server never attaches an unbind and a client never a notice.

    The length bound is needed because X.690 §8.1.3.5 reserves the length octet 0xFF, so a
    definite length has at most 126 length octets: the whole message must be shorter than
    256^126 octets, and 256^125 for the text leaves room for the enclosing headers.  (For longer
    texts the library's writer emits a length the strict decoder rejects — see
    `Proofs.rfcDecode_huge_none`; such a text cannot exist in memory.) -/
theorem notification_bytes (d : Nat) (s : Sess) (chunk : Bytes) (n : Notification)
    (h : (recv d s chunk).2 = .protocolError n) :
    match s.role, n with
    | .server, .notice => ∀ diag, IsText diag → diag.length < 256 ^ 125 →
        ∃ b, notifBytes .notice diag = some b ∧ Rfc.decode b = some (noticeOfDisconnection diag) ∧
          ∀ regs k, 0 < k → decMsg regs k b = .ok (noticeOfDisconnection diag, [])
    | .client, .unbind => ∀ diag,
        ∃ b, notifBytes .unbind diag = some b ∧ b = unbindBytes ∧
          (∀ regs k, decMsg regs k b = .ok (unbindRequest, [])) ∧
          Rfc.decode b = none ∧ Rfc.decode unbindBytesRfc = some unbindRequest
    | _, .none => ∀ diag, notifBytes .none diag = none
    | _, _ => False :=
  Proofs.C05More.notification_bytes d s chunk n h

/-- WHEN each tag occurs, exactly: `receive` raises the protocol error with tag `n` iff there is
    a cause — `none`: the session was already closed, or the buffered data could not be unpacked;
    `some m`: the first message that is a Notice of Disconnection, an UnbindRequest, or refused by
    `_process_incoming_message` after its predecessors were processed — and `n` is what the
    client / server wrapper attaches for that cause (`attached`: a client attaches an unbind
    unless the cause is an unbind or a notice, a server a notice unless the cause is an unbind). -/
theorem recv_error_characterised (d : Nat) (s : Sess) (chunk : Bytes) (n : Notification) :
    (recv d s chunk).2 = .protocolError n ↔
      ∃ cause, RecvCause d s chunk cause ∧ n = attached s.role cause :=
  Proofs.C05More.recv_error_characterised d s chunk n

/-- in particular nothing is attached iff the error reports the peer's own UnbindRequest or, for
    a client, the peer's Notice of Disconnection; a closed session and undecodable data always get
    the role's notification -/
theorem notification_none_iff (d : Nat) (s : Sess) (chunk : Bytes) (n : Notification)
    (h : (recv d s chunk).2 = .protocolError n) :
    n = .none ↔ ∃ m, RecvCause d s chunk (some m) ∧ (IsUnbind m ∨ (s.role = .client ∧ IsNotice m)) :=
  Proofs.C05More.notification_none_iff d s chunk n h

/-! ## non-vacuity -/

-- `Progress` holds of a real reader; the loop on generous fuel
example : Progress (readText (some tOctets)) := (element_decoders_progress {} 0 _).2.2.1
example : loopMany (readText (some tOctets)) 100 [4, 1, 97, 4, 0] = .ok [[97], []] := by rfl

/-- SearchRequest, filter `(!(!(cn=*)))` — three levels -/
def deepSearch : Bytes :=
  [48, 32, 2, 1, 1, 99, 27, 4, 0, 10, 1, 0, 10, 1, 0, 2, 1, 0, 2, 1, 0, 1, 1, 0,
   162, 6, 162, 4, 135, 2, 99, 110, 48, 0]

-- the hypotheses of the `*_recursion_is_nesting` theorems are satisfiable, and the budget is
-- a real limit: depth 2 fails, depth 3 decodes
example : decFilter {} 2 [162, 6, 162, 4, 135, 2, 99, 110] = .error .recursion := by rfl
example : decMsg {} 2 deepSearch = .error .recursion := by rfl
example : parseLoop {} 2 deepSearch.length deepSearch = .error .recursion := by rfl
example : ∃ m, decMsg {} 3 deepSearch = .ok (m, []) := ⟨_, by rfl⟩
example : SearchFilterDeeper 2 deepSearch := decMsg_recursion_is_nesting {} 2 deepSearch (by rfl)
example : (recv 2 (Sess.init .server) deepSearch).2 = .protocolError .notice := by rfl
-- `short_input_no_recursion` applies to it under the default budget
example : parseLoop {} defaultDepth deepSearch.length deepSearch ≠ .error .recursion :=
  short_input_no_recursion {} defaultDepth _ deepSearch (Nat.le_refl _) (by decide)

-- the octets of a notice with diagnostic text "bad"
example : notifBytes .notice [98, 97, 100] =
    some [48, 39, 2, 1, 0, 120, 34, 10, 1, 2, 4, 0, 4, 3, 98, 97, 100, 138, 22,
      49, 46, 51, 46, 54, 46, 49, 46, 52, 46, 49, 46, 49, 52, 54, 54, 46, 50, 48, 48, 51, 54] := by rfl
example : IsText [98, 97, 100] ∧ ([98, 97, 100] : Bytes).length < 256 ^ 125 := ⟨by rfl, by decide⟩

-- all three tags occur, for both roles
example : (recv 10 (Sess.init .server) [48, 4, 2, 0, 66, 0]).2 = .protocolError .notice := by rfl
example : (recv 10 (Sess.init .client) [48, 4, 2, 0, 66, 0]).2 = .protocolError .unbind := by rfl
example : (recv 10 (Sess.init .client) unbindBytes).2 = .protocolError .none := by rfl
example : (recv 10 (Sess.init .server) unbindBytes).2 = .protocolError .none := by rfl
example : (recv 10 (Sess.init .client) (noticeBytes [])).2 = .protocolError .none := by rfl
example : (recv 10 (Sess.init .server) (noticeBytes [])).2 = .protocolError .notice := by rfl

-- a cause of each kind
example : RecvCause 10 (Sess.init .client) unbindBytes (some unbindRequest) :=
  .inr (.inr ⟨by decide, [unbindRequest], [], [], unbindRequest, [], { Sess.init .client with residue := [] },
    by rfl, rfl, rfl, .inr (.inl rfl), rfl⟩)
example : RecvCause 10 (Sess.init .server) [48, 4, 2, 0, 66, 0] none :=
  .inr (.inl ⟨by decide, ⟨.valueError, by rfl⟩, rfl⟩)
example : RecvCause 10 { Sess.init .server with state := .closed } [] none := .inl ⟨rfl, rfl⟩

end Verif.C05
