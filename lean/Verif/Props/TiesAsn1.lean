/-
Ties between the Lean text GENERATED from the Python source of `sansldap/asn1.py`
(`Verif/Generated/Asn1Gen.lean`, written by `harness/py2lean.py` on every run) and the hand-written
model `Verif/Model/Ber.lean`.

Each theorem: for all inputs and all fuel above an explicit bound, the generated function returns
exactly what the hand-model function returns (same value, same error class).  Python ints are `Int`,
model numbers are `Nat`; the fixed casts are
  `ofTag : Tag → ASN1Tag`, `ofHeader : Header → ASN1Header`, `castPair : Nat × Nat → Int × Int`,
  `consumedOf bs (c, rest) = (c, bs.length - rest.length)`  (the model returns the remaining bytes,
  the code returns the number of octets consumed).
`IsBytes bs` is what Python's `bytes` / `memoryview(format "B")` guarantee.
Since the model never returns `Err.notImpl` (IndexError / struct.error in the runtime) nor
`Err.recursion` (fuel exhausted) from these functions, the equalities also exclude those.

Proofs: `Verif/Proofs/Asn1Gen*.lean`.  Axioms: propext, Classical.choice, Quot.sound.
See design_notes/py2lean.md.
-/
import Verif.Proofs.Asn1GenCompose

namespace Verif.TiesAsn1

open Verif Verif.PyRt Verif.Asn1Gen Verif.Proofs.Asn1Gen
open Verif.Proofs (instDecidableEqExcept)

/-! ### `_pack_asn1_octet_number`, `_unpack_asn1_octet_number` -/

theorem tie_pack_asn1_octet_number (fuel n : Nat) (h : n < fuel) :
    pack_asn1_octet_number fuel (n : Int) = .ok (packOctetNumber n) :=
  pack_asn1_octet_number_eq fuel n h

theorem tie_unpack_asn1_octet_number (fuel : Nat) (bs : Bytes) (hb : IsBytes bs) (h : bs.length < fuel) :
    unpack_asn1_octet_number fuel bs = (unpackOctetNumber bs 0 0).map castPair :=
  unpack_asn1_octet_number_eq fuel bs hb h

example : pack_asn1_octet_number 301 300 = .ok [130, 44] := by decide
example : unpack_asn1_octet_number 4 [130, 44, 7] = .ok (300, 2) := by decide
example : unpack_asn1_octet_number 4 [130, 172] = .error .notEnough := by decide

/-! ### `_pack_asn1` -/

/-- the bytes of `_pack_asn1(cls, cons, num, content)` are `packTLV ⟨cls, cons, num⟩ content`.
    `content.length < 256 ^ 127`: beyond that the long-form length needs ≥ 128 length octets and
    Python's `len(length_octets) | 0x80` is no longer `+ 128` (the model's `packLen` says so itself). -/
theorem tie_pack_asn1 (fuel cls num : Nat) (cons : Bool) (content : Bytes)
    (hc : cls ≤ 3) (hnum : num < fuel) (hlenf : content.length < fuel)
    (hlen : content.length < 256 ^ 127) :
    pack_asn1 fuel (cls : Int) cons (num : Int) content = .ok (packTLV ⟨cls, cons, num⟩ content) :=
  pack_asn1_eq fuel cls num cons content hc hnum hlenf hlen

/-- the ValueError branch: `tag_class` outside `0..3` -/
theorem tie_pack_asn1_bad_class (fuel : Nat) (cls : Int) (cons : Bool) (num : Int) (content : Bytes)
    (h : cls < 0 ∨ cls > 3) :
    pack_asn1 fuel cls cons num content = .error .valueError :=
  pack_asn1_bad_class fuel cls cons num content h

example : pack_asn1 3 2 true 5 [1, 2] = .ok [0xA5, 2, 1, 2] := by decide
example : pack_asn1 41 1 false 40 [] = .ok [0x5F, 40, 0] := by decide
example : pack_asn1 3 4 true 5 [1, 2] = .error .valueError := by decide

/-! ### `_pack_asn1_integer`, `_pack_asn1_boolean` -/

/-- the content computation: `_pack_asn1_integer(v, tag)` hands exactly `intContent v` to `_pack_asn1`,
    with the caller's tag or the universal INTEGER tag; for every `v : Int`. -/
theorem tie_pack_asn1_integer_content (fuel : Nat) (v : Int) (tag : Option ASN1Tag) (h : v.natAbs < fuel) :
    pack_asn1_integer fuel v tag
      = pack_asn1 fuel (tagOr tag 2).tag_class (tagOr tag 2).is_constructed (tagOr tag 2).tag_number
          (intContent v) :=
  pack_asn1_integer_eq_pack fuel v tag h

theorem tie_pack_asn1_integer (fuel : Nat) (v : Int) (t : Tag) (hc : t.cls ≤ 3) (hnum : t.num < fuel)
    (hv : v.natAbs + 2 < fuel) (hlen : (intContent v).length < 256 ^ 127) :
    pack_asn1_integer fuel v (some (ofTag t)) = .ok (packInt v t) :=
  pack_asn1_integer_eq fuel v t hc hnum hv hlen

theorem tie_pack_asn1_integer_default (fuel : Nat) (v : Int)
    (hv : v.natAbs + 2 < fuel) (hlen : (intContent v).length < 256 ^ 127) :
    pack_asn1_integer fuel v none = .ok (packInt v) :=
  pack_asn1_integer_default fuel v hv hlen

theorem tie_pack_asn1_boolean (fuel : Nat) (b : Bool) (t : Tag) (hc : t.cls ≤ 3) (hnum : t.num < fuel)
    (hf : 1 < fuel) :
    pack_asn1_boolean fuel b (some (ofTag t)) = .ok (packBool b t) :=
  pack_asn1_boolean_eq fuel b t hc hnum hf

theorem tie_pack_asn1_boolean_default (fuel : Nat) (b : Bool) (hf : 1 < fuel) :
    pack_asn1_boolean fuel b none = .ok (packBool b) :=
  pack_asn1_boolean_default fuel b hf

example : pack_asn1_integer 132 (-129) none = .ok [2, 2, 0xFF, 0x7F] := by decide
example : pack_asn1_integer 132 128 (some (ofTag (tagCtx 3))) = .ok [0x83, 2, 0, 128] := by decide
example : pack_asn1_boolean 2 true none = .ok [1, 1, 255] := by decide

/-! ### `_read_asn1_header` -/

theorem tie_read_asn1_header (fuel : Nat) (bs : Bytes) (hb : IsBytes bs) (hf : bs.length < fuel) :
    read_asn1_header fuel bs = (readHeader bs).map ofHeader :=
  read_asn1_header_eq fuel bs hb hf

example : read_asn1_header 4 [0x30, 0x81, 0x80] = .ok (ofHeader ⟨tSeq, 3, 128⟩) := by decide
example : read_asn1_header 4 [0x1F, 0x25, 0] = .error .valueError := by decide   -- TypeTagNumber(37)
example : read_asn1_header 4 [0x30, 0x82, 1] = .error .notEnough := by decide

/-! ### `_validate_tag` -/

/-- `_validate_tag(data, tag)` -/
theorem tie_validate_tag (fuel : Nat) (bs : Bytes) (t : Tag) (hb : IsBytes bs) (hf : bs.length < fuel) :
    validate_tag fuel bs (ofTag t) none = (readTLV (some t) bs).map (consumedOf bs) :=
  validate_tag_eq fuel bs t hb hf

/-- `_validate_tag(data, tag, header=h)` where `h` is what `peek_header()` returned for `data` -/
theorem tie_validate_tag_header (fuel : Nat) (bs : Bytes) (t : Tag) (h : Header)
    (hr : readHeader bs = .ok h) :
    validate_tag fuel bs (ofTag t) (some (ofHeader h)) = (readTLV (some t) bs).map (consumedOf bs) :=
  validate_tag_header_eq fuel bs t h hr

/-- `_validate_tag(data, h.tag, header=h)`: the call shape `read_x(header=h)`, the model's `expect = none` -/
theorem tie_validate_tag_header_own (fuel : Nat) (bs : Bytes) (h : Header)
    (hr : readHeader bs = .ok h) :
    validate_tag fuel bs (ofHeader h).tag (some (ofHeader h)) = (readTLV none bs).map (consumedOf bs) :=
  validate_tag_header_own fuel bs h hr

example : validate_tag 5 [4, 2, 7, 8, 9] (ofTag tOctets) none = .ok ([7, 8], 4) := by decide
example : validate_tag 5 [4, 2, 7] (ofTag tOctets) none = .error .notEnough := by decide
example : validate_tag 5 [4, 2, 7, 8] (ofTag tInt) none = .error .valueError := by decide

/-! ### `_read_asn1_integer`, `_read_asn1_boolean` -/

/-- the value computation: after `_validate_tag` returned content `c`, `_read_asn1_integer` returns
    `readIntContent c` (same value, same ValueError on empty content) -/
theorem tie_read_asn1_integer_content (fuel : Nat) (data : Bytes) (tag : Option ASN1Tag)
    (header : Option ASN1Header) (c : Bytes) (n : Int) (hb : IsBytes c)
    (hv : validate_tag fuel data (selTag tag header 2) header = .ok (c, n)) :
    read_asn1_integer fuel data tag header = (readIntContent c).map (fun v => (v, n)) :=
  read_asn1_integer_of_validate fuel data tag header c n hb hv

/-- `_read_asn1_integer(data, tag)` -/
theorem tie_read_asn1_integer (fuel : Nat) (bs : Bytes) (t : Tag) (hb : IsBytes bs) (hf : bs.length < fuel) :
    read_asn1_integer fuel bs (some (ofTag t)) none = (readInt (some t) bs).map (consumedOfV bs) :=
  read_asn1_integer_of fuel bs _ _ (some t) hb (validate_tag_eq fuel bs t hb hf)

/-- `_read_asn1_integer(data)`: the universal INTEGER tag -/
theorem tie_read_asn1_integer_default (fuel : Nat) (bs : Bytes) (hb : IsBytes bs) (hf : bs.length < fuel) :
    read_asn1_integer fuel bs none none = (readInt (some tInt) bs).map (consumedOfV bs) :=
  read_asn1_integer_of fuel bs _ _ (some tInt) hb (validate_tag_eq fuel bs tInt hb hf)

/-- `_read_asn1_integer(data, header=h)` with `h = peek_header()`: the model's `expect = none` -/
theorem tie_read_asn1_integer_header (fuel : Nat) (bs : Bytes) (h : Header) (hb : IsBytes bs)
    (hr : readHeader bs = .ok h) :
    read_asn1_integer fuel bs none (some (ofHeader h)) = (readInt none bs).map (consumedOfV bs) :=
  read_asn1_integer_of fuel bs _ _ none hb (validate_tag_header_own fuel bs h hr)

/-- `_read_asn1_boolean(data, tag)` -/
theorem tie_read_asn1_boolean (fuel : Nat) (bs : Bytes) (t : Tag) (hb : IsBytes bs) (hf : bs.length < fuel) :
    read_asn1_boolean fuel bs (some (ofTag t)) none = (readBool (some t) bs).map (consumedOfV bs) :=
  read_asn1_boolean_of fuel bs _ _ (some t) (validate_tag_eq fuel bs t hb hf)

theorem tie_read_asn1_boolean_default (fuel : Nat) (bs : Bytes) (hb : IsBytes bs) (hf : bs.length < fuel) :
    read_asn1_boolean fuel bs none none = (readBool (some tBool) bs).map (consumedOfV bs) :=
  read_asn1_boolean_of fuel bs _ _ (some tBool) (validate_tag_eq fuel bs tBool hb hf)

theorem tie_read_asn1_boolean_header (fuel : Nat) (bs : Bytes) (h : Header)
    (hr : readHeader bs = .ok h) :
    read_asn1_boolean fuel bs none (some (ofHeader h)) = (readBool none bs).map (consumedOfV bs) :=
  read_asn1_boolean_of fuel bs _ _ none (validate_tag_header_own fuel bs h hr)

example : read_asn1_integer 6 [2, 2, 0xFF, 0x7F, 9] none none = .ok (-129, 4) := by decide
example : read_asn1_integer 6 [2, 0] none none = .error .valueError := by decide
example : read_asn1_boolean 6 [1, 1, 0, 9] none none = .ok (false, 3) := by decide
example : read_asn1_boolean 6 [1, 1, 7] none none = .ok (true, 3) := by decide

end Verif.TiesAsn1
