/-
C18 (continued) — receiving bytes.

`Model/RecvCost.lean` is the parse loop of `receive` with a counter for the calls of
`unpack_ldap_message`.  For every buffer (any bytes, any registrations, any recursion budget)
the counting loop returns what the loop of the session model returns, and the number of decode
attempts is at most the number of messages returned plus one, hence at most half the buffer
length plus one.
-/
import Verif.Model.RecvCost
import Verif.Proofs.RecvCost

namespace Verif.C18
open Verif

/-- the counting loop computes exactly the session model's loop -/
theorem recv_counting_same_result (regs : Regs) (depth : Nat) (bs : Bytes) :
    (RecvCost.parseLoopC regs depth bs.length bs).1 = parseLoop regs depth bs.length bs :=
  Proofs.RecvCostP.counting_same_result regs depth bs

/-- on success: one attempt per returned message, plus at most one (the attempt that finds the
    incomplete tail) -/
theorem recv_attempts_messages (regs : Regs) (depth : Nat) (bs : Bytes) (ms : List Msg) (rest : Bytes) (k : Nat)
    (h : RecvCost.parseLoopC regs depth bs.length bs = (.ok (ms, rest), k)) : k ≤ ms.length + 1 :=
  Proofs.RecvCostP.attempts_messages regs depth bs ms rest k h

/-- in every case (success or error): at most half the buffer length plus one attempts -/
theorem recv_attempts_linear (regs : Regs) (depth : Nat) (bs : Bytes) :
    (RecvCost.parseLoopC regs depth bs.length bs).2 ≤ bs.length / 2 + 1 :=
  Proofs.RecvCostP.attempts_linear regs depth bs

/-! non-vacuity: two UnbindRequests and one byte of a third message: three attempts -/
example : (RecvCost.parseLoopC ⟨false, false, false⟩ 50 15
    [0x30, 5, 2, 1, 1, 0x62, 0, 0x30, 5, 2, 1, 2, 0x62, 0, 0x30]).2 = 3 := by rfl

end Verif.C18
