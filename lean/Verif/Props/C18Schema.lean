/-
C18 (continued) — the hand-written post-processing of the three schema `from_string` functions,
step by step.

`Props/C18.lean` / `Props/SmallMore.lean` bound the search tree of the three description patterns
(`2301651·(n+1)³`, `10934917·(n+1)³`, `1883547·(n+1)³`).  What `from_string` does AFTER
`PATTERN.match` — `m.group(…)`, `strip`, `split`, `lstrip`, slices, `re.sub`, `int`, the
`while` loops of `_parse_extensions` — had no cost statement.  `Model/SchemaCost.lean` is the model
of `Model/Schema.lean` / `Model/SchemaMatch.lean` in which every function on the path of `parseOC` /
`parseAT` / `parseDCR` also returns the steps it performs (the table of charges, with the line of
`schema.py` each one stands for, is at the head of the model); the regular expressions are charged
their proved search-tree bounds.

Results, for EVERY string of code points (valid or not), `n` = its length:

* the step-counting parsers return what the parsers return;
* with the two non-constant pattern charges set to 0 (`K = K2 = 0`) the steps are at most
  `51(n+1) + 21(n+1)²` (object class), `42(n+1) + 22(n+1)²` (attribute type),
  `56(n+1) + 21(n+1)²` (DIT content rule) — QUADRATIC, and the square is attained:
  `_parse_extensions` copies the remainder of the text in every iteration (`lstrip`, `split(…, 1)`,
  `[1:]` on a `str`), so `k` extensions cost `24k² + 52k + 4` steps on a text of `8k + 7` code
  points, and one extension with `k` values `6k² + 61k + 57` on `4k + 15`;
* everything else in the post-processing is LINEAR in the group it is applied to:
  `_parse_qdstring` ≤ `16·len + 11`, the names comprehension ≤ `6·len + 6`, `_parse_oids` ≤
  `6·len + 6` (examples: 19 steps per name, 19 per oid, 12 per code point of a description);
* with the charges: at most `2301723·(n+1)³`, `10935246·(n+1)³`, `1883624·(n+1)³` — the cubic term
  is the description pattern alone.

Fidelity caveat (second statement audit, A2): `int()` of a SYNTAX length with more than 4300 digits raises ValueError on CPython >= 3.11 where
`parseAT` accepts; C17 permits ValueError.  "Same result" below is about `parseOC / parseAT / parseDCR`.  The two `split` rows of the charging
table count the scan OR the copy (a factor <= 2 below what CPython touches); the cubic theorems instantiate the pattern coefficients as numerals.
-/
import Verif.Model.SchemaCost
import Verif.Model.SchemaScanCost
import Verif.Proofs.SchemaCostAll

namespace Verif.C18
open Verif Verif.Schema Verif.SchemaCost

/-! ### 1. the step-counting parsers compute exactly the parsers' results -/

theorem oc_steps_same_result (s : Str) : (parseOCS s).1 = parseOC s :=
  Proofs.SchemaCost.parseOCSK_fst ocK s

theorem at_steps_same_result (s : Str) : (parseATS s).1 = parseAT s :=
  Proofs.SchemaCost.parseATSK_fst atK noidlenK s

theorem dcr_steps_same_result (s : Str) : (parseDCRS s).1 = parseDCR s :=
  Proofs.SchemaCost.parseDCRSK_fst dcrK s

/-- for any coefficients of the pattern charges -/
theorem oc_steps_same_result_K (K : Nat) (s : Str) : (parseOCSK K s).1 = parseOC s :=
  Proofs.SchemaCost.parseOCSK_fst K s

theorem at_steps_same_result_K (K K2 : Nat) (s : Str) : (parseATSK K K2 s).1 = parseAT s :=
  Proofs.SchemaCost.parseATSK_fst K K2 s

theorem dcr_steps_same_result_K (K : Nat) (s : Str) : (parseDCRSK K s).1 = parseDCR s :=
  Proofs.SchemaCost.parseDCRSK_fst K s

/-- the helpers, one by one -/
theorem schema_helpers_same_result :
    (∀ v, (parseQdS v).1 = parseQd v) ∧ (∀ v, (parseNamesS v).1 = parseNames v) ∧
    (∀ v, (parseOidsS v).1 = parseOids v) ∧ (∀ v, (extractQdS v).1 = extractQd v) ∧
    (∀ fuel rem acc, (extListLoopS fuel rem acc).1 = extListLoop fuel rem acc) ∧
    (∀ fuel v acc, (parseExtLoopS fuel v acc).1 = parseExtLoop fuel v acc) ∧
    (∀ v, (parseExtsS v).1 = parseExts v) :=
  ⟨Proofs.SchemaCost.parseQdS_fst, Proofs.SchemaCost.parseNamesS_fst, Proofs.SchemaCost.parseOidsS_fst,
   Proofs.SchemaCost.extractQdS_fst, Proofs.SchemaCost.extListLoopS_fst,
   Proofs.SchemaCost.parseExtLoopS_fst, Proofs.SchemaCost.parseExtsS_fst⟩

/-! ### 2. the post-processing's own steps (pattern charges set to 0): quadratic -/

theorem oc_own_steps (s : Str) :
    (parseOCSK 0 s).2 ≤ 51 * (s.length + 1) + 21 * (s.length + 1) ^ 2 :=
  Proofs.SchemaCost.oc_own s

theorem oc_own_steps_quadratic (s : Str) : (parseOCSK 0 s).2 ≤ 72 * (s.length + 1) ^ 2 :=
  Proofs.SchemaCost.oc_own' s

theorem at_own_steps (s : Str) :
    (parseATSK 0 0 s).2 ≤ 42 * (s.length + 1) + 22 * (s.length + 1) ^ 2 :=
  Proofs.SchemaCost.at_own s

theorem at_own_steps_quadratic (s : Str) : (parseATSK 0 0 s).2 ≤ 64 * (s.length + 1) ^ 2 :=
  Proofs.SchemaCost.at_own' s

theorem dcr_own_steps (s : Str) :
    (parseDCRSK 0 s).2 ≤ 56 * (s.length + 1) + 21 * (s.length + 1) ^ 2 :=
  Proofs.SchemaCost.dcr_own s

theorem dcr_own_steps_quadratic (s : Str) : (parseDCRSK 0 s).2 ≤ 77 * (s.length + 1) ^ 2 :=
  Proofs.SchemaCost.dcr_own' s

/-- the parts: only `_parse_extensions` is quadratic; `_parse_qdstring`, the names comprehension
    and `_parse_oids` are linear in the group text they are given -/
theorem schema_helpers_steps :
    (∀ v : Str, (parseQdS v).2 ≤ 16 * v.length + 11) ∧
    (∀ v : Option Str, (parseNamesS v).2 ≤ 6 * glen v + 6) ∧
    (∀ v : Option Str, (parseOidsS v).2 ≤ 6 * glen v + 6) ∧
    (∀ v : Str, (extractQdS v).2 ≤ 18 * v.length + 14) ∧
    (∀ v : Str, (parseExtsS v).2 ≤ 22 * (v.length + 1) ^ 2) :=
  ⟨Proofs.SchemaCost.parseQdS_snd_le, Proofs.SchemaCost.parseNamesS_snd_le,
   Proofs.SchemaCost.parseOidsS_snd_le, Proofs.SchemaCost.extractQdS_snd_le,
   Proofs.SchemaCost.parseExtsS_quadratic⟩

/-- every named group of a match is a piece of the input (what the charges of `m.group(…)` and of
    the helpers are measured against) -/
theorem oc_groups_within_input (s : Str) (g : OCGroups) (h : matchOC s = some g) :
    glen g.oid ≤ s.length ∧ glen g.name ≤ s.length ∧ glen g.desc ≤ s.length ∧ glen g.sup ≤ s.length ∧
    glen g.kind ≤ s.length ∧ glen g.must ≤ s.length ∧ glen g.may ≤ s.length ∧
    glen g.extensions ≤ s.length :=
  Proofs.SchemaCost.matchOC_le h

/-! ### 3. with the pattern charges: cubic, the cubic term being the description pattern alone -/

theorem oc_steps_bound_K (K : Nat) (s : Str) :
    (parseOCSK K s).2 ≤ K * (s.length + 1) ^ 3 + 51 * (s.length + 1) + 21 * (s.length + 1) ^ 2 :=
  Proofs.SchemaCost.oc_total_K K s

theorem oc_steps_cubic (s : Str) : (parseOCS s).2 ≤ 2301723 * (s.length + 1) ^ 3 :=
  Proofs.SchemaCost.oc_total s

theorem at_steps_bound_K (K K2 : Nat) (s : Str) :
    (parseATSK K K2 s).2 ≤ K * (s.length + 1) ^ 3 + K2 * (s.length + 1) ^ 2
      + 42 * (s.length + 1) + 22 * (s.length + 1) ^ 2 :=
  Proofs.SchemaCost.at_total_K K K2 s

theorem at_steps_cubic (s : Str) : (parseATS s).2 ≤ 10935246 * (s.length + 1) ^ 3 :=
  Proofs.SchemaCost.at_total s

theorem dcr_steps_bound_K (K : Nat) (s : Str) :
    (parseDCRSK K s).2 ≤ K * (s.length + 1) ^ 3 + 56 * (s.length + 1) + 21 * (s.length + 1) ^ 2 :=
  Proofs.SchemaCost.dcr_total_K K s

theorem dcr_steps_cubic (s : Str) : (parseDCRS s).2 ≤ 1883624 * (s.length + 1) ^ 3 :=
  Proofs.SchemaCost.dcr_total s

/-! ### 4. numeric instances -/

/-- a 1000-code-point definition: the post-processing performs at most 21 093 072 steps of its own
    (object class) … -/
example (s : Str) (h : s.length = 1000) : (parseOCSK 0 s).2 ≤ 21093072 := by
  have := oc_own_steps s
  rw [h] at this
  exact Nat.le_trans this (by decide)

example (s : Str) (h : s.length = 1000) : (parseATSK 0 0 s).2 ≤ 22086064 := by
  have := at_own_steps s
  rw [h] at this
  exact Nat.le_trans this (by decide)

example (s : Str) (h : s.length = 1000) : (parseDCRSK 0 s).2 ≤ 21098077 := by
  have := dcr_own_steps s
  rw [h] at this
  exact Nat.le_trans this (by decide)

/-- … and at most 2 308 635 076 470 723 steps in all, the pattern charge included -/
example (s : Str) (h : s.length = 1000) : (parseOCS s).2 ≤ 2308635076470723 := by
  have := oc_steps_cubic s
  rw [h] at this
  exact Nat.le_trans this (by decide)

example (s : Str) (h : s.length = 1000) : (parseATS s).2 ≤ 10968084554673246 := by
  have := at_steps_cubic s
  rw [h] at this
  exact Nat.le_trans this (by decide)

example (s : Str) (h : s.length = 1000) : (parseDCRS s).2 ≤ 1889280524755624 := by
  have := dcr_steps_cubic s
  rw [h] at this
  exact Nat.le_trans this (by decide)

/-! ### non-vacuity and tightness -/

/-- the families are accepted, with the expected fields -/
example : (parseOCS (ocManyExts 3)).1 = parseOC (ocManyExts 3) := by rfl
example : (parseOCSK 0 (ocManyExts 2)).1.toOption =
    some { oid := [49, 46, 50], exts := [([97], [[118]])] } := by decide +kernel
example : (parseOCSK 0 (ocManyValues 3)).1.toOption =
    some { oid := [49, 46, 50], exts := [([97], [[118], [118], [118]])] } := by decide +kernel
example : (parseOCSK 0 (ocManyNames 3)).1.toOption =
    some { oid := [49, 46, 50], names := [[97], [97], [97]] } := by decide +kernel
example : (parseOCSK 0 (ocManyMust 2)).1.toOption =
    some { oid := [49, 46, 50], must := [[97], [97], [97]] } := by decide +kernel
example : (parseATSK 0 0 (atLongLen 3)).1.toOption =
    some { oid := [49, 46, 50], syn := some [49, 46, 51], synLen := some 111 } := by decide +kernel

/-- `( 1.2 X-a 'v' … X-a 'v' )` with `k` extensions, `8k + 7` code points: `24k² + 52k + 4` steps —
    the square of the bound is attained (more than `n²/3` at `k = 80`) -/
example : (ocManyExts 40).length = 8 * 40 + 7 := by decide +kernel
example : (parseOCSK 0 (ocManyExts 10)).2 = 24 * 10 ^ 2 + 52 * 10 + 4 := by decide +kernel
example : (parseOCSK 0 (ocManyExts 20)).2 = 24 * 20 ^ 2 + 52 * 20 + 4 := by decide +kernel
example : (parseOCSK 0 (ocManyExts 40)).2 = 24 * 40 ^ 2 + 52 * 40 + 4 := by decide +kernel
example : (parseOCSK 0 (ocManyExts 80)).2 = 24 * 80 ^ 2 + 52 * 80 + 4 := by decide +kernel
example : (ocManyExts 80).length ^ 2 ≤ 3 * (parseOCSK 0 (ocManyExts 80)).2 := by decide +kernel

/-- the splitter alone, on ` X-a 'v'` repeated `k` times: `24k² + 44k + 1` -/
example : (parseExtsS (extsText1 10)).2 = 24 * 10 ^ 2 + 44 * 10 + 1 := by decide +kernel
example : (parseExtsS (extsText1 40)).2 = 24 * 40 ^ 2 + 44 * 40 + 1 := by decide +kernel

/-- `( 1.2 X-a ( 'v' … 'v' ) )` with `k` values, `4k + 15` code points: `6k² + 61k + 57` -/
example : (parseOCSK 0 (ocManyValues 10)).2 = 6 * 10 ^ 2 + 61 * 10 + 57 := by decide +kernel
example : (parseOCSK 0 (ocManyValues 20)).2 = 6 * 20 ^ 2 + 61 * 20 + 57 := by decide +kernel
example : (parseOCSK 0 (ocManyValues 40)).2 = 6 * 40 ^ 2 + 61 * 40 + 57 := by decide +kernel
example : (parseOCSK 0 (ocManyValues 80)).2 = 6 * 80 ^ 2 + 61 * 80 + 57 := by decide +kernel

/-- names, oid lists and descriptions are linear: 19 steps per name, 19 per oid, 12 per code point -/
example : (parseOCSK 0 (ocManyNames 10)).2 = 19 * 10 + 16 := by decide +kernel
example : (parseOCSK 0 (ocManyNames 40)).2 = 19 * 40 + 16 := by decide +kernel
example : (parseOCSK 0 (ocManyMust 10)).2 = 19 * 10 + 21 := by decide +kernel
example : (parseOCSK 0 (ocManyMust 40)).2 = 19 * 40 + 21 := by decide +kernel
example : (parseOCSK 0 (ocLongDesc 10)).2 = 12 * 10 + 18 := by decide +kernel
example : (parseOCSK 0 (ocLongDesc 40)).2 = 12 * 40 + 18 := by decide +kernel

/-- `( 1.2 SYNTAX 1.3{11…1} )` with `k` digits: `k² + 3k + 23` (the `int(…)` charge) -/
example : (parseATSK 0 0 (atLongLen 10)).2 = 10 ^ 2 + 3 * 10 + 23 := by decide +kernel
example : (parseATSK 0 0 (atLongLen 40)).2 = 40 ^ 2 + 3 * 40 + 23 := by decide +kernel

/-- with the charge: the cubic term is the pattern alone -/
example : (parseOCS (ocManyExts 10)).2 = 2301651 * 88 ^ 3 + (24 * 10 ^ 2 + 52 * 10 + 4) := by
  decide +kernel

/-- a rejected text costs the match only -/
example : (parseOCSK 0 (ofString "( 1.2 X-a 'v' ")).1.toOption = none ∧
    (parseOCSK 0 (ofString "( 1.2 X-a 'v' ")).2 = 0 := by decide +kernel

/-! ### the scanner's own steps (not part of `parseOCS`: Python runs the backtracking matcher) -/

/-- the step-counting scanner returns the scanner's groups (by definition of `matchOCS` …) -/
theorem scan_same_result (s : Str) :
    (matchOCS s).1 = matchOC s ∧ (matchATS s).1 = matchAT s ∧ (matchDCRS s).1 = matchDCR s :=
  ⟨rfl, rfl, rfl⟩

/- NOT PROVED (exported as a comment only, see the header of Model/SchemaScanCost.lean):

     theorem scan_steps_linear_partial (s : Str) :
         (matchOCS s).2 ≤ c * (s.length + 1) ∧ (matchATS s).2 ≤ c * (s.length + 1) ∧
         (matchDCRS s).2 ≤ c * (s.length + 1)

   for an explicit numeral `c`.  Missing: the amortisation of a refused look-ahead over the loops
   `arcs`, `spItems`, `dollarItems`, `extensions`.  The evaluations below are linear: 13 steps per
   extension, 6 per value, 6 per name, 7 per oid, 1 per code point of a description. -/
example : (matchOCS (ocManyExts 10)).2 = 13 * 10 + 83 := by decide +kernel
example : (matchOCS (ocManyExts 80)).2 = 13 * 80 + 83 := by decide +kernel
example : (matchOCS (ocManyValues 10)).2 = 6 * 10 + 98 := by decide +kernel
example : (matchOCS (ocManyValues 80)).2 = 6 * 80 + 98 := by decide +kernel
example : (matchOCS (ocManyNames 10)).2 = 6 * 10 + 92 := by decide +kernel
example : (matchOCS (ocManyNames 80)).2 = 6 * 80 + 92 := by decide +kernel
example : (matchOCS (ocManyMust 10)).2 = 7 * 10 + 96 := by decide +kernel
example : (matchOCS (ocManyMust 80)).2 = 7 * 80 + 96 := by decide +kernel
example : (matchOCS (ocLongDesc 10)).2 = 10 + 88 := by decide +kernel
example : (matchOCS (ocLongDesc 80)).2 = 80 + 88 := by decide +kernel
example : (matchATS (atLongLen 10)).2 = 10 + 145 := by decide +kernel
example : (matchATS (atLongLen 80)).2 = 80 + 145 := by decide +kernel

end Verif.C18
